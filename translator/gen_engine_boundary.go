package main

// gen_engine_boundary.go — G9: how caller-owned documents cross the
// ENGINE-level write API (transaction.go), for C17.  The driver level is G7
// (every argument goes through bsonkit.Transform); the public
// Engine.Begin -> Transaction.Insert / Replace / Update / Bulk -> Commit path
// takes *bson.D documents as they are, and the transaction must clone each
// one that ends up in a stored document before anything else uses it.
//
// Rendered: gen_engine_boundary : list (string * string * string) with rows
// (function, document, crossing):
//   "clone"            the first statement of the function that mentions the
//                      parameter is `p = bsonkit.Clone(p)` / `CloneList(p)`
//   "pass:<callee>"    the first mention hands it, unchanged, to <callee>
//   "call:<f>:clone"   at a call of the private helper <f> the document
//                      argument is `bsonkit.Clone(...)`
//   "call:<f>:param:<crossing of that parameter>"
//   "Unknown:<source>" anything else (first use is a read, a store, ...)

import (
	"go/ast"
	"go/token"
	"path/filepath"
	"strings"
)

func init() { extraGens = append(extraGens, genEngineBoundary) }

func mentions(n ast.Node, name string) bool {
	found := false
	ast.Inspect(n, func(x ast.Node) bool {
		if id, ok := x.(*ast.Ident); ok && id.Name == name {
			found = true
		}
		return !found
	})
	return found
}

// firstUse classifies the first top-level statement of fd that mentions param.
func firstUse(fd *ast.FuncDecl, param string) string {
	for _, st := range fd.Body.List {
		if !mentions(st, param) {
			continue
		}
		if as, ok := st.(*ast.AssignStmt); ok && as.Tok == token.ASSIGN && len(as.Lhs) == 1 && len(as.Rhs) == 1 && src(as.Lhs[0]) == param {
			if c, ok := as.Rhs[0].(*ast.CallExpr); ok && len(c.Args) == 1 && src(c.Args[0]) == param &&
				(src(c.Fun) == "bsonkit.Clone" || src(c.Fun) == "bsonkit.CloneList") {
				return "clone"
			}
		}
		// handed on unchanged as an argument of exactly one call in this statement?
		var callee string
		n := 0
		ast.Inspect(st, func(x ast.Node) bool {
			c, ok := x.(*ast.CallExpr)
			if !ok {
				return true
			}
			for _, a := range c.Args {
				if id, ok := a.(*ast.Ident); ok && id.Name == param {
					callee = src(c.Fun)
					n++
				}
			}
			return true
		})
		if n == 1 {
			return "pass:" + callee
		}
		return "Unknown:" + strings.Join(strings.Fields(src(st)), " ")
	}
	return "Unknown:unused"
}

// callArgs: for every call of the method `callee` inside fd, how its idx-th argument is produced.
func callArgs(fd *ast.FuncDecl, callee string, idx int) []string {
	var out []string
	ast.Inspect(fd.Body, func(x ast.Node) bool {
		c, ok := x.(*ast.CallExpr)
		if !ok || src(c.Fun) != callee || len(c.Args) <= idx {
			return true
		}
		a := c.Args[idx]
		if cc, ok := a.(*ast.CallExpr); ok && src(cc.Fun) == "bsonkit.Clone" && len(cc.Args) == 1 {
			out = append(out, "call:"+callee+":clone")
		} else if id, ok := a.(*ast.Ident); ok {
			out = append(out, "call:"+callee+":param:"+firstUse(fd, id.Name))
		} else {
			out = append(out, "Unknown:"+src(a))
		}
		return true
	})
	if len(out) == 0 {
		out = append(out, "Unknown:no call of "+callee)
	}
	return out
}

func genEngineBoundary(repo, out string) {
	f := parse(filepath.Join(repo, "transaction.go"))
	var rows []string
	row := func(fn, doc, crossing string) {
		rows = append(rows, "("+coqStr(fn)+", "+coqStr(doc)+", "+coqStr(crossing)+")")
	}
	get := func(name string) *ast.FuncDecl {
		fd := funcDecl(f, "Transaction", name)
		if fd == nil || fd.Body == nil {
			row(name, "", "Unknown:no such method")
		}
		return fd
	}
	if fd := get("Insert"); fd != nil {
		row("Insert", "list", firstUse(fd, "list"))
	}
	if fd := get("Replace"); fd != nil {
		row("Replace", "repl", firstUse(fd, "repl"))
		row("Replace", "query", firstUse(fd, "query"))
	}
	if fd := get("Update"); fd != nil {
		row("Update", "query", firstUse(fd, "query"))
		row("Update", "update", firstUse(fd, "update"))
	}
	if fd := get("replace"); fd != nil {
		row("replace", "query", firstUse(fd, "query"))
		row("replace", "repl", firstUse(fd, "repl"))
	}
	if fd := get("update"); fd != nil {
		row("update", "query", firstUse(fd, "query"))
		row("update", "update", firstUse(fd, "update"))
	}
	if fd := get("insert"); fd != nil {
		row("insert", "doc", firstUse(fd, "doc"))
	}
	if fd := get("Bulk"); fd != nil {
		for _, c := range callArgs(fd, "t.insert", 3) {
			row("Bulk", "insert document", c)
		}
		for _, c := range callArgs(fd, "t.replace", 4) {
			row("Bulk", "replacement", c)
		}
	}
	// the public methods hand the cloned replacement / list to the helpers
	if fd := get("Replace"); fd != nil {
		for _, c := range callArgs(fd, "t.replace", 4) {
			row("Replace", "replacement", c)
		}
	}
	if fd := get("Insert"); fd != nil {
		// the loop variable ranges over the cloned list
		rng := "Unknown:no range over list"
		ast.Inspect(fd.Body, func(x ast.Node) bool {
			if r, ok := x.(*ast.RangeStmt); ok && src(r.X) == "list" {
				rng = "range:list"
			}
			return true
		})
		row("Insert", "doc", rng)
	}
	body := "(* transaction.go: how caller-owned documents cross the engine-level write API *)\n" +
		"Definition gen_engine_boundary : list (string * string * string) := " + coqList(rows) + ".\n"
	writeGen(out, "EngineBoundary.v", body)
}
