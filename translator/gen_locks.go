package main

// gen_locks.go — G6: the "acquired while holding" graph between the mutex
// classes of engine.go, session.go, stream.go, transaction.go, utils.go.
//
// For every function of these files the statements are walked in order with
// the set of mutex classes that may be held; X.mutex.Lock()/RLock() while
// holding h adds the edge (h, class of X); a call of a function or method of
// these files while holding h adds (h, c) for every class c the callee may
// acquire (transitively, fixpoint over the call graph).  Handled explicitly:
// `defer X.mutex.Unlock()` (held until return, except for an explicit
// Unlock/Lock window as in Engine.Begin), other deferred calls (analysed with
// the locks held where they are registered — a superset of what is held when
// they run), branches that return, loops with continue, select clauses,
// goroutines started through a function literal (start with nothing held),
// function values stored in struct fields (stream.oplog, stream.cancel).
// Anything else that could matter — a call of an unknown function value or
// of an unresolved method that some type of package lungo implements, made
// while a mutex is held; a mutex expression whose owner type is unknown — is
// emitted as an Unknown item, which is a self loop and fails the obligation.
//
// Assumed lock-neutral: package-qualified calls, builtins, methods of fields
// of foreign types (tomb, semaphore, channels, context) and the Store
// interface (an implementation must not call back into the engine).

import (
	"fmt"
	"go/ast"
	"go/token"
	"os"
	"path/filepath"
	"sort"
	"strings"
)

func init() { extraGens = append(extraGens, genLocks) }

type lockFunc struct {
	key  string // "Engine.Begin", "useTransaction", "Stream.cancel" (function value field)
	recv string // receiver type name or ""
	rvar string // receiver variable
	typ  *ast.FuncType
	body *ast.BlockStmt
	acq  map[string]bool // classes it may acquire (transitively)
	unk  bool            // it calls something unknown
	file string
}

type lockAnalysis struct {
	funcs       map[string]*lockFunc
	fields      map[string]map[string]ast.Expr // struct type -> field -> type expr
	mutexTypes  map[string]bool                // struct types with a `mutex` field
	pkgMethods  map[string]bool                // method names of any type in package lungo
	edges       map[[2]string]string           // edge -> first site
	unknown     map[string]bool
	changed     bool
	resultTypes map[string]string // func key -> first result type name (all files of the package)
	pkgTypes    map[string]ast.Expr // every named type of package lungo -> its definition
	safeMemo    map[string]int      // 1 = cannot reach a mutex class / function value, 2 = may
}

// safeType: values of this type cannot lead to one of the mutex classes, a
// function value or an interface (so their methods are lock-neutral).
func (a *lockAnalysis) safeType(e ast.Expr) bool {
	switch t := e.(type) {
	case nil:
		return true
	case *ast.Ident:
		def, ok := a.pkgTypes[t.Name]
		if !ok {
			return t.Name != "error" && t.Name != "any" // builtin types
		}
		if a.mutexTypes[t.Name] {
			return false
		}
		switch a.safeMemo[t.Name] {
		case 1:
			return true
		case 2:
			return false
		}
		a.safeMemo[t.Name] = 1 // assume safe on cycles
		ok = a.safeType(def)
		if ok {
			a.safeMemo[t.Name] = 1
		} else {
			a.safeMemo[t.Name] = 2
		}
		return ok
	case *ast.StarExpr:
		return a.safeType(t.X)
	case *ast.ArrayType:
		return a.safeType(t.Elt)
	case *ast.MapType:
		return a.safeType(t.Key) && a.safeType(t.Value)
	case *ast.SelectorExpr:
		return true // a type of another package cannot refer to package lungo
	case *ast.StructType:
		for _, f := range t.Fields.List {
			if !a.safeType(f.Type) {
				return false
			}
		}
		return true
	}
	return false // func, interface, chan
}

func typeName(e ast.Expr) string {
	switch t := e.(type) {
	case *ast.StarExpr:
		return typeName(t.X)
	case *ast.Ident:
		return t.Name
	case *ast.SelectorExpr:
		return src(t)
	case *ast.ArrayType:
		return "[]" + typeName(t.Elt)
	case *ast.MapType:
		return "map[" + typeName(t.Key) + "]" + typeName(t.Value)
	}
	return ""
}

type lockEnv struct {
	vars map[string]string // variable -> type name ("Engine", "[]Stream", "func", ...)
}

func (a *lockAnalysis) typeOf(e ast.Expr, env *lockEnv) string {
	switch x := e.(type) {
	case *ast.Ident:
		return env.vars[x.Name]
	case *ast.ParenExpr:
		return a.typeOf(x.X, env)
	case *ast.StarExpr:
		return a.typeOf(x.X, env)
	case *ast.UnaryExpr:
		if x.Op == token.AND {
			return a.typeOf(x.X, env)
		}
	case *ast.CompositeLit:
		return typeName(x.Type)
	case *ast.TypeAssertExpr:
		if x.Type != nil {
			return typeName(x.Type)
		}
	case *ast.SelectorExpr:
		bt := a.typeOf(x.X, env)
		if f, ok := a.fields[bt]; ok {
			if ft, ok := f[x.Sel.Name]; ok {
				if _, isF := ft.(*ast.FuncType); isF {
					return "func"
				}
				return typeName(ft)
			}
		}
	case *ast.CallExpr:
		if k := a.calleeKey(x, env); k != "" {
			return a.resultTypes[k]
		}
		if id, ok := x.Fun.(*ast.Ident); ok && id.Name == "make" && len(x.Args) > 0 {
			return typeName(x.Args[0])
		}
		if id, ok := x.Fun.(*ast.Ident); ok && env.vars[id.Name] == "" {
			return a.resultTypes[id.Name]
		}
		if sel, ok := x.Fun.(*ast.SelectorExpr); ok {
			if rt := a.typeOf(sel.X, env); rt != "" {
				if strings.Contains(rt, ".") {
					return "foreign.result" // whatever a foreign method returns cannot refer to package lungo
				}
				return a.resultTypes[rt+"."+sel.Sel.Name]
			}
		}
	case *ast.IndexExpr:
		t := a.typeOf(x.X, env)
		if strings.HasPrefix(t, "[]") {
			return t[2:]
		}
		if strings.HasPrefix(t, "map[") {
			if i := strings.Index(t, "]"); i > 0 {
				return t[i+1:]
			}
		}
	}
	return ""
}

// calleeKey resolves a call to a function of the analysed files ("" if not one).
func (a *lockAnalysis) calleeKey(c *ast.CallExpr, env *lockEnv) string {
	switch f := c.Fun.(type) {
	case *ast.Ident:
		if _, ok := a.funcs[f.Name]; ok && env.vars[f.Name] == "" {
			return f.Name
		}
	case *ast.SelectorExpr:
		rt := a.typeOf(f.X, env)
		if rt != "" {
			if _, ok := a.funcs[rt+"."+f.Sel.Name]; ok {
				return rt + "." + f.Sel.Name
			}
		}
	}
	return ""
}

type heldSet map[string]bool

func (h heldSet) clone() heldSet {
	n := heldSet{}
	for k := range h {
		n[k] = true
	}
	return n
}
func (h heldSet) union(o heldSet) {
	for k := range o {
		h[k] = true
	}
}
func (h heldSet) equal(o heldSet) bool {
	if len(h) != len(o) {
		return false
	}
	for k := range h {
		if !o[k] {
			return false
		}
	}
	return true
}

type lockWalker struct {
	a    *lockAnalysis
	fn   *lockFunc
	env  *lockEnv
	cont []heldSet // per enclosing loop: held sets at continue statements
}

func (w *lockWalker) site(n ast.Node) string {
	p := fset.Position(n.Pos())
	return fmt.Sprintf("%s:%d %s", filepath.Base(p.Filename), p.Line, w.fn.key)
}

func (w *lockWalker) addEdge(from, to string, n ast.Node) {
	k := [2]string{from, to}
	if _, ok := w.a.edges[k]; !ok {
		w.a.edges[k] = w.site(n)
	}
}

func (w *lockWalker) acquire(cls string, held heldSet, n ast.Node) {
	for h := range held {
		w.addEdge(h, cls, n)
	}
	if !w.fn.acq[cls] {
		w.fn.acq[cls] = true
		w.a.changed = true
	}
}

func (w *lockWalker) unknownItem(desc string, n ast.Node) {
	w.a.unknown[desc+" at "+w.site(n)] = true
}

// mutexOp recognises X.mutex.Lock / RLock / Unlock / RUnlock.
func (w *lockWalker) mutexOp(c *ast.CallExpr) (cls, op string, ok bool) {
	sel, ok1 := c.Fun.(*ast.SelectorExpr)
	if !ok1 {
		return
	}
	switch sel.Sel.Name {
	case "Lock", "RLock", "Unlock", "RUnlock", "TryLock", "TryRLock":
	default:
		return
	}
	inner, ok2 := sel.X.(*ast.SelectorExpr)
	if !ok2 {
		return
	}
	owner := w.a.typeOf(inner.X, w.env)
	if !w.a.mutexTypes[owner] || inner.Sel.Name != "mutex" {
		if inner.Sel.Name == "mutex" || strings.Contains(strings.ToLower(inner.Sel.Name), "mutex") {
			w.unknownItem("mutex of unknown owner "+src(sel.X), c)
			return "", "", false
		}
		return
	}
	return owner + "." + inner.Sel.Name, sel.Sel.Name, true
}

// the Store interface: an implementation must not call back into the engine
// (listed as an assumption of C16)
var assumedNeutralTypes = map[string]bool{"Store": true}

var neutralPkgs = map[string]bool{"fmt": true, "bsonkit": true, "mongokit": true, "dbkit": true, "time": true, "context": true,
	"primitive": true, "mongo": true, "options": true, "bson": true, "errors": true, "strings": true, "reflect": true,
	"sort": true, "io": true, "sync": true, "math": true, "bytes": true, "tomb": true, "readpref": true}

var builtinFuncs = map[string]bool{"len": true, "cap": true, "make": true, "append": true, "delete": true, "panic": true,
	"new": true, "copy": true, "close": true, "recover": true, "print": true, "println": true, "min": true, "max": true,
	"int": true, "int32": true, "int64": true, "float64": true, "string": true, "byte": true, "uint32": true, "uint64": true,
	"verifPoint": true, "verifStreamPoint": true}

// call handles a call expression made with `held`.
func (w *lockWalker) call(c *ast.CallExpr, held heldSet) {
	// arguments first (they may contain calls); function literals passed as
	// arguments are analysed as called here
	for _, arg := range c.Args {
		w.expr(arg, held)
	}
	if cls, op, ok := w.mutexOp(c); ok {
		switch op {
		case "Lock", "RLock":
			w.acquire(cls, held, c)
			held[cls] = true
		case "Unlock", "RUnlock":
			delete(held, cls)
		default:
			w.unknownItem("TryLock on "+cls, c)
		}
		return
	}
	if k := w.a.calleeKey(c, w.env); k != "" {
		callee := w.a.funcs[k]
		for cls := range callee.acq {
			w.acquire(cls, held, c)
		}
		if callee.unk {
			if len(held) > 0 {
				w.unknownItem("call of "+k+" (which calls an unknown function) while holding a mutex", c)
			}
			if !w.fn.unk {
				w.fn.unk = true
				w.a.changed = true
			}
		}
		return
	}
	switch f := c.Fun.(type) {
	case *ast.FuncLit:
		w.block(f.Body, held)
		return
	case *ast.Ident:
		if builtinFuncs[f.Name] {
			return
		}
		if t := w.env.vars[f.Name]; t == "func" || t == "" {
			// a function value (parameter / local) or an unknown identifier
			if _, isType := w.a.fields[f.Name]; isType {
				return // conversion
			}
			if len(held) > 0 {
				w.unknownItem("call of function value "+f.Name+" while holding a mutex", c)
			}
			if !w.fn.unk {
				w.fn.unk = true
				w.a.changed = true
			}
			return
		}
	case *ast.SelectorExpr:
		if id, ok := f.X.(*ast.Ident); ok && neutralPkgs[id.Name] && w.env.vars[id.Name] == "" {
			return
		}
		w.expr(f.X, held)
		rt := w.a.typeOf(f.X, w.env)
		if rt == "func" {
			if len(held) > 0 {
				w.unknownItem("call of function field "+src(f)+" while holding a mutex", c)
			}
			return
		}
		if rt != "" {
			base := strings.TrimPrefix(rt, "[]")
			if _, mine := w.a.pkgTypes[base]; mine && !assumedNeutralTypes[base] && !w.a.safeType(ast.NewIdent(base)) {
				// a type of package lungo that may reach a mutex class, method not in the analysed files
				if len(held) > 0 {
					w.unknownItem("method "+rt+"."+f.Sel.Name+" is not in the analysed files", c)
				}
				if !w.fn.unk {
					w.fn.unk = true
					w.a.changed = true
				}
			}
			return // foreign type, or a package type that cannot reach a mutex: lock-neutral
		}
		// unresolved receiver type: only a problem if some lungo type has such a method
		if w.a.pkgMethods[f.Sel.Name] && len(held) > 0 {
			w.unknownItem("unresolved call "+src(f)+" while holding a mutex", c)
		}
		return
	}
}

func (w *lockWalker) expr(e ast.Expr, held heldSet) {
	if e == nil {
		return
	}
	ast.Inspect(e, func(n ast.Node) bool {
		switch x := n.(type) {
		case *ast.CallExpr:
			w.call(x, held)
			return false
		case *ast.FuncLit:
			// a function literal that is not called here: analysed where it is
			// stored (struct field) or passed; as a plain value it is skipped
			return false
		}
		return true
	})
}

func (w *lockWalker) bind(lhs []ast.Expr, rhs []ast.Expr) {
	if len(lhs) == len(rhs) {
		for i, l := range lhs {
			if id, ok := l.(*ast.Ident); ok && id.Name != "_" {
				if _, isF := rhs[i].(*ast.FuncLit); isF {
					w.env.vars[id.Name] = "func"
				} else if t := w.a.typeOf(rhs[i], w.env); t != "" {
					w.env.vars[id.Name] = t
				}
			}
		}
		return
	}
	if len(rhs) == 1 && len(lhs) >= 1 {
		if id, ok := lhs[0].(*ast.Ident); ok && id.Name != "_" {
			if t := w.a.typeOf(rhs[0], w.env); t != "" {
				w.env.vars[id.Name] = t
			}
		}
	}
}

// stmt returns true when the statement always leaves the enclosing block
// (return, panic, continue, break, goto).
func (w *lockWalker) stmt(s ast.Stmt, held heldSet) bool {
	switch x := s.(type) {
	case nil:
		return false
	case *ast.ExprStmt:
		w.expr(x.X, held)
		if c, ok := x.X.(*ast.CallExpr); ok {
			if id, ok := c.Fun.(*ast.Ident); ok && id.Name == "panic" {
				return true
			}
		}
	case *ast.AssignStmt:
		for _, r := range x.Rhs {
			w.expr(r, held)
		}
		for _, l := range x.Lhs {
			if _, ok := l.(*ast.Ident); !ok {
				w.expr(l, held)
			}
		}
		// function literals stored into struct fields are separate functions
		// (collected in a first pass); here only variable types are tracked
		w.bind(x.Lhs, x.Rhs)
	case *ast.DeclStmt:
		if gd, ok := x.Decl.(*ast.GenDecl); ok {
			for _, sp := range gd.Specs {
				if vs, ok := sp.(*ast.ValueSpec); ok {
					for _, v := range vs.Values {
						w.expr(v, held)
					}
					for i, n := range vs.Names {
						if vs.Type != nil {
							if _, isF := vs.Type.(*ast.FuncType); isF {
								w.env.vars[n.Name] = "func"
							} else {
								w.env.vars[n.Name] = typeName(vs.Type)
							}
						} else if i < len(vs.Values) {
							w.env.vars[n.Name] = w.a.typeOf(vs.Values[i], w.env)
						}
					}
				}
			}
		}
	case *ast.DeferStmt:
		if cls, op, ok := w.mutexOp(x.Call); ok {
			if op != "Unlock" && op != "RUnlock" {
				w.unknownItem("deferred "+op+" of "+cls, x)
			}
			// held until return: nothing to do
			return false
		}
		// analysed with the locks held here (a superset of those held when it runs)
		h := held.clone()
		w.call(x.Call, h)
	case *ast.GoStmt:
		w.call(x.Call, heldSet{})
	case *ast.ReturnStmt:
		for _, r := range x.Results {
			w.expr(r, held)
		}
		return true
	case *ast.BranchStmt:
		if x.Tok == token.GOTO || x.Label != nil {
			w.unknownItem("goto / labelled branch", x)
		}
		if x.Tok == token.CONTINUE && len(w.cont) > 0 {
			w.cont[len(w.cont)-1].union(held)
		}
		return true
	case *ast.BlockStmt:
		return w.block(x, held)
	case *ast.IfStmt:
		w.stmt(x.Init, held)
		w.expr(x.Cond, held)
		h1 := held.clone()
		t1 := w.block(x.Body, h1)
		h2 := held.clone()
		t2 := false
		if x.Else != nil {
			t2 = w.stmt(x.Else, h2)
		}
		for k := range held {
			delete(held, k)
		}
		if !t1 {
			held.union(h1)
		}
		if !t2 {
			held.union(h2)
		}
		return t1 && t2
	case *ast.ForStmt, *ast.RangeStmt:
		var body *ast.BlockStmt
		if f, ok := x.(*ast.ForStmt); ok {
			w.stmt(f.Init, held)
			w.expr(f.Cond, held)
			body = f.Body
		} else {
			r := x.(*ast.RangeStmt)
			w.expr(r.X, held)
			body = r.Body
			t := w.a.typeOf(r.X, w.env)
			var kt, vt string
			if strings.HasPrefix(t, "[]") {
				vt = t[2:]
			} else if strings.HasPrefix(t, "map[") {
				if i := strings.Index(t, "]"); i > 0 {
					kt, vt = t[4:i], t[i+1:]
				}
			}
			if id, ok := r.Key.(*ast.Ident); ok && kt != "" {
				w.env.vars[id.Name] = kt
			}
			if id, ok := r.Value.(*ast.Ident); ok && vt != "" {
				w.env.vars[id.Name] = vt
			}
		}
		entry := held.clone()
		for iter := 0; iter < 8; iter++ {
			w.cont = append(w.cont, heldSet{})
			h := entry.clone()
			term := w.block(body, h)
			acc := w.cont[len(w.cont)-1]
			w.cont = w.cont[:len(w.cont)-1]
			if !term {
				acc.union(h)
			}
			next := entry.clone()
			next.union(acc)
			if next.equal(entry) {
				break
			}
			entry = next
			if iter == 7 {
				w.unknownItem("loop does not stabilise", x)
			}
		}
		held.union(entry)
	case *ast.SwitchStmt:
		w.stmt(x.Init, held)
		w.expr(x.Tag, held)
		w.clauses(x.Body, held)
	case *ast.TypeSwitchStmt:
		w.stmt(x.Init, held)
		w.stmt(x.Assign, held)
		w.clauses(x.Body, held)
	case *ast.SelectStmt:
		w.clauses(x.Body, held)
	case *ast.SendStmt:
		w.expr(x.Chan, held)
		w.expr(x.Value, held)
	case *ast.IncDecStmt:
		w.expr(x.X, held)
	case *ast.LabeledStmt:
		return w.stmt(x.Stmt, held)
	case *ast.EmptyStmt:
	default:
		w.unknownItem(fmt.Sprintf("statement %T", s), s)
	}
	return false
}

func (w *lockWalker) clauses(body *ast.BlockStmt, held heldSet) {
	out := heldSet{}
	hasDefault := false
	for _, cl := range body.List {
		h := held.clone()
		var stmts []ast.Stmt
		switch c := cl.(type) {
		case *ast.CaseClause:
			for _, e := range c.List {
				w.expr(e, h)
			}
			if c.List == nil {
				hasDefault = true
			}
			stmts = c.Body
		case *ast.CommClause:
			if c.Comm == nil {
				hasDefault = true
			} else {
				w.stmt(c.Comm, h)
			}
			stmts = c.Body
		}
		term := false
		for _, s := range stmts {
			if w.stmt(s, h) {
				term = true
				break
			}
		}
		if !term {
			out.union(h)
		}
	}
	_ = hasDefault
	out.union(held) // no clause taken (switch without default) keeps the current set
	for k := range held {
		delete(held, k)
	}
	held.union(out)
}

func (w *lockWalker) block(b *ast.BlockStmt, held heldSet) bool {
	if b == nil {
		return false
	}
	for _, s := range b.List {
		if w.stmt(s, held) {
			return true
		}
	}
	return false
}

func genLocks(repo, out string) {
	files := []string{"engine.go", "session.go", "stream.go", "transaction.go", "utils.go"}
	a := &lockAnalysis{funcs: map[string]*lockFunc{}, fields: map[string]map[string]ast.Expr{}, mutexTypes: map[string]bool{},
		pkgMethods: map[string]bool{}, edges: map[[2]string]string{}, unknown: map[string]bool{}, resultTypes: map[string]string{},
		pkgTypes: map[string]ast.Expr{}, safeMemo: map[string]int{}}
	// method names of every type of package lungo (to judge unresolved calls)
	all, _ := filepath.Glob(filepath.Join(repo, "*.go"))
	for _, p := range all {
		if strings.HasSuffix(p, "_test.go") {
			continue
		}
		if b, err := os.ReadFile(p); err == nil && strings.Contains(string(b), "//go:build verif") {
			continue // verification-only files
		}
		f := parse(p)
		for _, d := range f.Decls {
			switch x := d.(type) {
			case *ast.FuncDecl:
				key := x.Name.Name
				if x.Recv != nil && len(x.Recv.List) == 1 {
					a.pkgMethods[x.Name.Name] = true
					key = typeName(x.Recv.List[0].Type) + "." + x.Name.Name
				}
				if x.Type.Results != nil && len(x.Type.Results.List) > 0 {
					a.resultTypes[key] = typeName(x.Type.Results.List[0].Type)
				}
			case *ast.GenDecl:
				for _, sp := range x.Specs {
					if ts, ok := sp.(*ast.TypeSpec); ok {
						a.pkgTypes[ts.Name.Name] = ts.Type
						if st, ok := ts.Type.(*ast.StructType); ok {
							fm := map[string]ast.Expr{}
							for _, fl := range st.Fields.List {
								for _, n := range fl.Names {
									fm[n.Name] = fl.Type
								}
							}
							a.fields[ts.Name.Name] = fm
						}
					}
				}
			}
		}
	}
	var parsed []*ast.File
	for _, name := range files {
		p := filepath.Join(repo, name)
		if _, err := os.Stat(p); err != nil {
			a.unknown["missing file "+name] = true
			continue
		}
		f := parse(p)
		parsed = append(parsed, f)
		for _, d := range f.Decls {
			switch x := d.(type) {
			case *ast.GenDecl:
				for _, sp := range x.Specs {
					ts, ok := sp.(*ast.TypeSpec)
					if !ok {
						continue
					}
					st, ok := ts.Type.(*ast.StructType)
					if !ok {
						continue
					}
					fm := map[string]ast.Expr{}
					for _, fl := range st.Fields.List {
						for _, n := range fl.Names {
							fm[n.Name] = fl.Type
							tn := typeName(fl.Type)
							if n.Name == "mutex" && (tn == "sync.Mutex" || tn == "sync.RWMutex") {
								a.mutexTypes[ts.Name.Name] = true
							} else if tn == "sync.Mutex" || tn == "sync.RWMutex" {
								a.unknown["mutex field "+ts.Name.Name+"."+n.Name+" is not named mutex"] = true
							}
						}
						if len(fl.Names) == 0 { // embedded
							fm[strings.TrimPrefix(typeName(fl.Type), "context.")] = fl.Type
						}
					}
					a.fields[ts.Name.Name] = fm
				}
			case *ast.FuncDecl:
				if x.Body == nil {
					continue
				}
				lf := &lockFunc{typ: x.Type, body: x.Body, acq: map[string]bool{}, file: name}
				if x.Recv != nil && len(x.Recv.List) == 1 {
					lf.recv = typeName(x.Recv.List[0].Type)
					if len(x.Recv.List[0].Names) == 1 {
						lf.rvar = x.Recv.List[0].Names[0].Name
					}
					lf.key = lf.recv + "." + x.Name.Name
				} else {
					lf.key = x.Name.Name
				}
				a.funcs[lf.key] = lf
				if x.Type.Results != nil && len(x.Type.Results.List) > 0 {
					a.resultTypes[lf.key] = typeName(x.Type.Results.List[0].Type)
				}
			}
		}
	}
	// function literals stored in struct fields of function type: X.f = func...
	type pending struct {
		lit   *ast.FuncLit
		outer *lockFunc
		lhs   *ast.SelectorExpr
	}
	var pend []pending
	for _, lf := range a.funcs {
		outer := lf
		ast.Inspect(lf.body, func(n ast.Node) bool {
			as, ok := n.(*ast.AssignStmt)
			if !ok || len(as.Lhs) != len(as.Rhs) {
				return true
			}
			for i, r := range as.Rhs {
				lit, ok := r.(*ast.FuncLit)
				if !ok {
					continue
				}
				if sel, ok := as.Lhs[i].(*ast.SelectorExpr); ok {
					pend = append(pend, pending{lit, outer, sel})
				}
			}
			return true
		})
	}
	for _, p := range pend {
		// owner type: the struct that has a function-typed field of this name
		var owners []string
		for tn, fm := range a.fields {
			if ft, ok := fm[p.lhs.Sel.Name]; ok {
				if _, isF := ft.(*ast.FuncType); isF {
					owners = append(owners, tn)
				}
			}
		}
		if len(owners) != 1 {
			a.unknown["function literal stored in "+src(p.lhs)+" in "+p.outer.key] = true
			continue
		}
		key := owners[0] + "." + p.lhs.Sel.Name
		if _, dup := a.funcs[key]; dup {
			a.unknown["several function literals stored in "+key] = true
			continue
		}
		a.funcs[key] = &lockFunc{key: key, recv: p.outer.recv, rvar: p.outer.rvar, typ: p.lit.Type, body: p.lit.Body,
			acq: map[string]bool{}, file: p.outer.file}
	}
	// fixpoint over the call graph
	keys := make([]string, 0, len(a.funcs))
	for k := range a.funcs {
		keys = append(keys, k)
	}
	sort.Strings(keys)
	for round := 0; round < 20; round++ {
		a.changed = false
		for _, k := range keys {
			lf := a.funcs[k]
			env := &lockEnv{vars: map[string]string{}}
			if lf.rvar != "" {
				env.vars[lf.rvar] = lf.recv
			}
			// closures see the variables of the function that created them: approximate with its parameters
			addParams := func(ft *ast.FuncType) {
				if ft == nil || ft.Params == nil {
					return
				}
				for _, p := range ft.Params.List {
					for _, n := range p.Names {
						if _, isF := p.Type.(*ast.FuncType); isF {
							env.vars[n.Name] = "func"
						} else {
							env.vars[n.Name] = typeName(p.Type)
						}
					}
				}
			}
			addParams(lf.typ)
			if strings.Contains(k, ".") && lf.typ != nil {
				// for stored closures also the variables assigned in the creating function (e.g. `stream := &Stream{}`)
				for _, of := range a.funcs {
					if of != lf && of.file == lf.file && of.body != nil && of.body.Pos() <= lf.body.Pos() && lf.body.End() <= of.body.End() {
						addParams(of.typ)
						if of.rvar != "" {
							env.vars[of.rvar] = of.recv
						}
					}
				}
			}
			w := &lockWalker{a: a, fn: lf, env: env}
			w.block(lf.body, heldSet{})
		}
		if !a.changed {
			break
		}
		if round == 19 {
			a.unknown["call graph fixpoint does not stabilise"] = true
		}
	}
	var items, notes []string
	var ek [][2]string
	for e := range a.edges {
		ek = append(ek, e)
	}
	sort.Slice(ek, func(i, j int) bool { return ek[i][0]+ek[i][1] < ek[j][0]+ek[j][1] })
	for _, e := range ek {
		items = append(items, "("+coqStr(e[0])+", "+coqStr(e[1])+")")
		notes = append(notes, "   "+e[0]+" -> "+e[1]+"   first seen at "+a.edges[e])
	}
	var uk []string
	for u := range a.unknown {
		uk = append(uk, u)
	}
	sort.Strings(uk)
	for _, u := range uk {
		items = append(items, "("+coqStr("Unknown:"+u)+", "+coqStr("Unknown:"+u)+")")
	}
	var mt []string
	for t := range a.mutexTypes {
		mt = append(mt, coqStr(t+".mutex"))
	}
	sort.Strings(mt)
	body := "(* G6: acquired-while-holding edges between mutex classes (engine.go, session.go, stream.go,\n   transaction.go, utils.go); an Unknown item is a self loop.\n" +
		strings.Join(notes, "\n") + " *)\n" +
		"Definition gen_lock_classes : list string := " + coqList(mt) + ".\n\n" +
		"Definition gen_lock_edges : list (string * string) := " + coqList(items) + ".\n"
	writeGen(out, "Locks.v", body)
}
