package main

// gen_project.go — G(project): mongokit/project.go.  The operator table
// built in init() and the arguments of the two Process calls (the projection
// itself at root level, and the per-element query of $elemMatch).  Anything
// unexpected becomes an "Unknown:" item so that the obligation in
// coq/Proofs/GenProject.v fails.

import (
	"go/ast"
	"go/token"
	"path/filepath"
	"strconv"
)

func init() { extraGens = append(extraGens, genProject) }

func genProject(repo, out string) {
	f := parse(filepath.Join(repo, "mongokit", "project.go"))
	var rows []string
	unknown := func(n ast.Node) { rows = append(rows, "("+coqStr("Unknown:"+src(n))+", \"\")") }
	fd := funcDecl(f, "", "init")
	if fd == nil {
		rows = append(rows, "("+coqStr("Unknown:no init")+", \"\")")
	} else {
		for _, st := range fd.Body.List {
			as, ok := st.(*ast.AssignStmt)
			if !ok || as.Tok != token.ASSIGN || len(as.Lhs) != 1 || len(as.Rhs) != 1 {
				unknown(st)
				continue
			}
			ix, ok := as.Lhs[0].(*ast.IndexExpr)
			if !ok || src(ix.X) != "ProjectionExpressionOperators" {
				unknown(st)
				continue
			}
			lit, ok := ix.Index.(*ast.BasicLit)
			id, ok2 := as.Rhs[0].(*ast.Ident)
			if !ok || !ok2 || lit.Kind != token.STRING {
				unknown(st)
				continue
			}
			key, err := strconv.Unquote(lit.Value)
			if err != nil {
				unknown(st)
				continue
			}
			rows = append(rows, "("+coqStr(key)+", "+coqStr(id.Name)+")")
		}
	}
	// every call of Process in the file, with the source text of its arguments
	var calls []string
	for _, d := range f.Decls {
		fn, ok := d.(*ast.FuncDecl)
		if !ok || fn.Body == nil {
			continue
		}
		ast.Inspect(fn.Body, func(n ast.Node) bool {
			c, ok := n.(*ast.CallExpr)
			if !ok {
				return true
			}
			if id, ok := c.Fun.(*ast.Ident); ok && id.Name == "Process" {
				var args []string
				for i, a := range c.Args {
					if i == 0 {
						// the context: field names only
						if cl, ok := a.(*ast.CompositeLit); ok {
							s := "Context{"
							for j, el := range cl.Elts {
								if j > 0 {
									s += ","
								}
								if kv, ok := el.(*ast.KeyValueExpr); ok {
									s += src(kv.Key) + ":" + src(kv.Value)
								} else {
									s += "Unknown:" + src(el)
								}
							}
							args = append(args, coqStr(s+"}"))
							continue
						}
					}
					args = append(args, coqStr(src(a)))
				}
				calls = append(calls, "("+coqStr(fn.Name.Name)+", ["+joinSemi(args)+"])")
			}
			return true
		})
	}
	body := "(* ProjectionExpressionOperators[key] = function, in the order of init() *)\n" +
		"Definition gen_projection_operators : list (string * string) := " + coqList(rows) + ".\n\n" +
		"(* (enclosing function, arguments) of every call of Process in project.go *)\n" +
		"Definition gen_project_process_calls : list (string * list string) := " + coqList(calls) + ".\n"
	writeGen(out, "ProjectOps.v", body)
}

func joinSemi(xs []string) string {
	s := ""
	for i, x := range xs {
		if i > 0 {
			s += "; "
		}
		s += x
	}
	return s
}
