package main

// gen_listing.go — G8: the specification documents that
// Transaction.ListCollections and Transaction.ListDatabases (transaction.go)
// build and hand to mongokit.Filter, and what they do with the list
// afterwards.
//
// Each `bson.D{bson.E{Key: "k", Value: v}, ...}` literal appended to `list` is
// rendered as a template (DriverExt.tval): string / bool literals, int32(n) /
// int64(n) conversions of integer literals, nested documents, and the source
// text of any other expression (TExpr).  An UNTYPED integer literal — a Go
// `int`, which is not a BSON value and makes bsonkit.Inspect panic as soon as
// a filter touches the field — and anything else unexpected is rendered as
// TUnknown, so that the obligations in Proofs/GenListing.v fail.  The
// statements after the loop (Filter, Sort, return) are rendered as their
// whitespace-normalised source text.

import (
	"go/ast"
	"go/token"
	"path/filepath"
	"strconv"
	"strings"
)

func init() { extraGens = append(extraGens, genListing) }

func tvalOf(e ast.Expr) string {
	switch x := e.(type) {
	case *ast.BasicLit:
		if x.Kind == token.STRING {
			if s, err := strconv.Unquote(x.Value); err == nil {
				return "TStr " + coqStr(s)
			}
		}
		return "TUnknown " + coqStr("untyped literal "+x.Value)
	case *ast.Ident:
		if x.Name == "true" || x.Name == "false" {
			return "TBool " + x.Name
		}
		return "TExpr " + coqStr(x.Name)
	case *ast.CallExpr:
		if id, ok := x.Fun.(*ast.Ident); ok && (id.Name == "int32" || id.Name == "int64") && len(x.Args) == 1 {
			if lit, ok := x.Args[0].(*ast.BasicLit); ok && lit.Kind == token.INT {
				if n, err := strconv.ParseInt(lit.Value, 0, 64); err == nil {
					c := "TInt32"
					if id.Name == "int64" {
						c = "TInt64"
					}
					return c + " (" + strconv.FormatInt(n, 10) + ")%Z"
				}
			}
			return "TUnknown " + coqStr(src(x))
		}
		return "TExpr " + coqStr(src(x))
	case *ast.CompositeLit:
		if src(x.Type) == "bson.D" {
			return "TDoc " + tdocOf(x)
		}
		return "TUnknown " + coqStr(src(x))
	case *ast.IndexExpr, *ast.SelectorExpr:
		return "TExpr " + coqStr(src(x))
	}
	return "TUnknown " + coqStr(src(e))
}

func tdocOf(cl *ast.CompositeLit) string {
	var rows []string
	for _, el := range cl.Elts {
		e, ok := el.(*ast.CompositeLit)
		if !ok {
			rows = append(rows, "("+coqStr("?")+", TUnknown "+coqStr(src(el))+")")
			continue
		}
		var key, val ast.Expr
		for _, kv := range e.Elts {
			if p, ok := kv.(*ast.KeyValueExpr); ok {
				switch src(p.Key) {
				case "Key":
					key = p.Value
				case "Value":
					val = p.Value
				}
			}
		}
		lit, ok := key.(*ast.BasicLit)
		if key == nil || val == nil || !ok || lit.Kind != token.STRING {
			rows = append(rows, "("+coqStr("?")+", TUnknown "+coqStr(src(el))+")")
			continue
		}
		k, _ := strconv.Unquote(lit.Value)
		rows = append(rows, "("+coqStr(k)+", "+tvalOf(val)+")")
	}
	return coqList(rows)
}

// listingOf returns (template, statements after the first top-level loop that
// appends to `list`) of the named Transaction method.
func listingOf(f *ast.File, method string) (string, string) {
	fd := funcDecl(f, "Transaction", method)
	if fd == nil {
		return "[(" + coqStr("?") + ", TUnknown " + coqStr("no method "+method) + ")]", "[" + coqStr("Unknown") + "]"
	}
	var tmpl []string
	var post []string
	seenLoop := false
	for _, st := range fd.Body.List {
		if _, ok := st.(*ast.RangeStmt); ok {
			seenLoop = true
			ast.Inspect(st, func(n ast.Node) bool {
				c, ok := n.(*ast.CallExpr)
				if !ok || src(c.Fun) != "append" || len(c.Args) != 2 || src(c.Args[0]) != "list" {
					return true
				}
				arg := c.Args[1]
				if u, ok := arg.(*ast.UnaryExpr); ok && u.Op == token.AND {
					arg = u.X
				}
				if cl, ok := arg.(*ast.CompositeLit); ok && src(cl.Type) == "bson.D" {
					tmpl = append(tmpl, tdocOf(cl))
				} else {
					tmpl = append(tmpl, "[("+coqStr("?")+", TUnknown "+coqStr(src(arg))+")]")
				}
				return false
			})
			continue
		}
		if seenLoop {
			var keep []string
			for _, ln := range strings.Split(src(st), "\n") {
				if !strings.HasPrefix(strings.TrimSpace(ln), "//") {
					keep = append(keep, ln)
				}
			}
			post = append(post, coqStr(strings.Join(strings.Fields(strings.Join(keep, " ")), " ")))
		}
	}
	if len(tmpl) != 1 {
		return "[(" + coqStr("?") + ", TUnknown " + coqStr(strconv.Itoa(len(tmpl))+" appends to list in "+method) + ")]", coqList(post)
	}
	return tmpl[0], coqList(post)
}

func genListing(repo, out string) {
	f := parse(filepath.Join(repo, "transaction.go"))
	ct, cp := listingOf(f, "ListCollections")
	dt, dp := listingOf(f, "ListDatabases")
	body := "From Lungo.Model Require Import DriverExt.\n\n" +
		"(* transaction.go ListCollections: the specification document appended per namespace *)\n" +
		"Definition gen_coll_spec : list (string * tval) := " + ct + ".\n\n" +
		"(* ... and the statements after the loop *)\n" +
		"Definition gen_list_collections_post : list string := " + cp + ".\n\n" +
		"(* transaction.go ListDatabases *)\n" +
		"Definition gen_db_spec : list (string * tval) := " + dt + ".\n\n" +
		"Definition gen_list_databases_post : list string := " + dp + ".\n"
	writeGen(out, "Listing.v", body)
}
