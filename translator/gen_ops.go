package main

// gen_ops.go — G2 (query part): the operator registration tables of
// mongokit/match.go's init() functions, rendered as
//   gen_query_top, gen_query_expr : list (string * string)   (operator, Go function)
// in coq/Gen/MatchOps.v.  Every statement of an init() that is not of the form
//   TopLevelQueryOperators["$x"] = fn   /   ExpressionQueryOperators["$x"] = fn
// becomes an ("Unknown:<source>", "") item in BOTH tables, so the obligation
// (equality with the model's dispatch tables) fails.  Also rendered:
// gen_type2alias : list (string * string) from bsonkit/inspect.go's
// Type2Alias literal (bsontype constant name, alias).

import (
	"go/ast"
	"go/token"
	"path/filepath"
	"strconv"
)

func init() { extraGens = append(extraGens, genMatchOps) }

func coqPair(a, b string) string { return "(" + coqStr(a) + ", " + coqStr(b) + ")" }

func genMatchOps(repo, out string) {
	f := parse(filepath.Join(repo, "mongokit", "match.go"))
	var top, expr []string
	unknown := func(n ast.Node) {
		item := coqPair("Unknown:"+src(n), "")
		top = append(top, item)
		expr = append(expr, item)
	}
	found := false
	for _, d := range f.Decls {
		fd, ok := d.(*ast.FuncDecl)
		if !ok || fd.Recv != nil || fd.Name.Name != "init" {
			continue
		}
		found = true
		for _, st := range fd.Body.List {
			as, ok := st.(*ast.AssignStmt)
			if !ok || as.Tok != token.ASSIGN || len(as.Lhs) != 1 || len(as.Rhs) != 1 {
				unknown(st)
				continue
			}
			ix, ok := as.Lhs[0].(*ast.IndexExpr)
			if !ok {
				unknown(st)
				continue
			}
			table, ok1 := ix.X.(*ast.Ident)
			key, ok2 := ix.Index.(*ast.BasicLit)
			fn, ok3 := as.Rhs[0].(*ast.Ident)
			if !ok1 || !ok2 || !ok3 || key.Kind != token.STRING {
				unknown(st)
				continue
			}
			k, err := strconv.Unquote(key.Value)
			if err != nil {
				unknown(st)
				continue
			}
			switch table.Name {
			case "TopLevelQueryOperators":
				top = append(top, coqPair(k, fn.Name))
			case "ExpressionQueryOperators":
				expr = append(expr, coqPair(k, fn.Name))
			default:
				unknown(st)
			}
		}
	}
	if !found {
		top = append(top, coqPair("Unknown:no init()", ""))
		expr = append(expr, coqPair("Unknown:no init()", ""))
	}
	// any other write to the tables outside init() (e.g. a second registration
	// in another function) is reported too
	for _, d := range f.Decls {
		fd, ok := d.(*ast.FuncDecl)
		if !ok || (fd.Recv == nil && fd.Name.Name == "init") || fd.Body == nil {
			continue
		}
		ast.Inspect(fd.Body, func(n ast.Node) bool {
			if as, ok := n.(*ast.AssignStmt); ok {
				for _, l := range as.Lhs {
					if ix, ok := l.(*ast.IndexExpr); ok {
						if id, ok := ix.X.(*ast.Ident); ok && (id.Name == "TopLevelQueryOperators" || id.Name == "ExpressionQueryOperators") {
							unknown(as)
						}
					}
				}
			}
			return true
		})
	}

	// bsonkit/inspect.go: var Type2Alias = map[bsontype.Type]string{ bsontype.X: "alias", ... }
	fi := parse(filepath.Join(repo, "bsonkit", "inspect.go"))
	var aliases []string
	seen := false
	for _, d := range fi.Decls {
		gd, ok := d.(*ast.GenDecl)
		if !ok || gd.Tok != token.VAR {
			continue
		}
		for _, s := range gd.Specs {
			vs := s.(*ast.ValueSpec)
			if len(vs.Names) != 1 || vs.Names[0].Name != "Type2Alias" || len(vs.Values) != 1 {
				continue
			}
			seen = true
			cl, ok := vs.Values[0].(*ast.CompositeLit)
			if !ok {
				aliases = append(aliases, coqPair("Unknown:"+src(vs.Values[0]), ""))
				continue
			}
			for _, el := range cl.Elts {
				kv, ok := el.(*ast.KeyValueExpr)
				if !ok {
					aliases = append(aliases, coqPair("Unknown:"+src(el), ""))
					continue
				}
				sel, ok1 := kv.Key.(*ast.SelectorExpr)
				lit, ok2 := kv.Value.(*ast.BasicLit)
				if !ok1 || !ok2 || lit.Kind != token.STRING || src(sel.X) != "bsontype" {
					aliases = append(aliases, coqPair("Unknown:"+src(el), ""))
					continue
				}
				a, _ := strconv.Unquote(lit.Value)
				aliases = append(aliases, coqPair(sel.Sel.Name, a))
			}
		}
	}
	if !seen {
		aliases = append(aliases, coqPair("Unknown:no Type2Alias", ""))
	}

	body := "(* mongokit/match.go init(): (operator, registered Go function), in source order *)\n" +
		"Definition gen_query_top : list (string * string) := " + coqList(top) + ".\n\n" +
		"Definition gen_query_expr : list (string * string) := " + coqList(expr) + ".\n\n" +
		"(* bsonkit/inspect.go Type2Alias: (bsontype constant, alias) *)\n" +
		"Definition gen_type2alias : list (string * string) := " + coqList(aliases) + ".\n"
	writeGen(out, "MatchOps.v", body)
}
