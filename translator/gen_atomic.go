package main

// gen_atomic.go — generators for property C05.
//
//   G4: /repo/dbkit/atomic.go:AtomicWriteFile  -> coq/Gen/Atomic.v
//       gen_atomic_prog   : list (string * list string)   statements in source order
//       gen_atomic_defers : list (list (string * list string))   bodies of the defer statements
//   G5: /repo/engine.go:(*Engine).Commit        -> coq/Gen/Commit.v
//       gen_commit_prog   : list string          the significant statements in source order
//
// Both walk the AST in statement order.  Expressions are resolved to symbols
// ("path", "tmp" = path + constant suffix, "dir" = filepath.Dir(path),
// "h:<sym>" = the *os.File opened on <sym>); whatever is not recognised is
// emitted as an "Unknown:<source>" item, which the obligations in
// coq/Proofs/GenAtomic.v turn into a failure.  The generated files are plain
// data; their meaning (Model/FsRun.v:translate_atomic, Model/Commit.v:
// translate_commit) and the obligations live on the Coq side.

import (
	"go/ast"
	"go/parser"
	"go/token"
	"path/filepath"
	"sort"
	"strings"
)

func init() {
	extraGens = append(extraGens, genAtomic, genCommit)
}

type gitem struct {
	kind string
	args []string
}

func (g gitem) coq() string {
	var as []string
	for _, a := range g.args {
		as = append(as, coqStr(a))
	}
	return "(" + coqStr(g.kind) + ", [" + strings.Join(as, "; ") + "])"
}

func unknownItem(n ast.Node) gitem {
	s := src(n)
	if i := strings.IndexByte(s, '\n'); i >= 0 {
		s = s[:i] + " ..."
	}
	return gitem{"Unknown:" + s, nil}
}

type atomicEnv struct {
	sym map[string]string // identifier -> symbol
}

func (e *atomicEnv) symOf(x ast.Expr) string {
	switch v := x.(type) {
	case *ast.Ident:
		if s, ok := e.sym[v.Name]; ok {
			return s
		}
	case *ast.CallExpr:
		// filepath.Dir(path)
		if sel, ok := v.Fun.(*ast.SelectorExpr); ok && len(v.Args) == 1 {
			if pk, ok := sel.X.(*ast.Ident); ok && pk.Name == "filepath" && sel.Sel.Name == "Dir" && e.symOf(v.Args[0]) == "path" {
				return "dir"
			}
		}
	}
	return "?" + src(x)
}

func hasCall(n ast.Node) bool {
	found := false
	ast.Inspect(n, func(m ast.Node) bool {
		if _, ok := m.(*ast.CallExpr); ok {
			found = true
		}
		return !found
	})
	return found
}

func orFlags(x ast.Expr) string {
	var names []string
	var rec func(ast.Expr) bool
	rec = func(y ast.Expr) bool {
		switch v := y.(type) {
		case *ast.BinaryExpr:
			if v.Op != token.OR {
				return false
			}
			return rec(v.X) && rec(v.Y)
		case *ast.SelectorExpr:
			if pk, ok := v.X.(*ast.Ident); ok && pk.Name == "os" {
				names = append(names, v.Sel.Name)
				return true
			}
		case *ast.ParenExpr:
			return rec(v.X)
		}
		return false
	}
	if !rec(x) {
		return "?" + src(x)
	}
	sort.Strings(names)
	return strings.Join(names, "|")
}

// recogCall: a call that matters to the protocol. nres = number of results,
// errIdx = position of the error result, handleIdx = position of a returned
// file handle (-1 when none) and the symbol it is opened on.
func (e *atomicEnv) recogCall(c *ast.CallExpr) (it gitem, nres, errIdx, handleIdx int, handleSym string, ok bool) {
	sel, isSel := c.Fun.(*ast.SelectorExpr)
	if !isSel {
		return
	}
	recv, isIdent := sel.X.(*ast.Ident)
	if !isIdent {
		return
	}
	handleIdx = -1
	switch {
	case recv.Name == "os" && sel.Sel.Name == "Remove" && len(c.Args) == 1:
		return gitem{"Remove", []string{e.symOf(c.Args[0])}}, 1, 0, -1, "", true
	case recv.Name == "os" && sel.Sel.Name == "OpenFile" && len(c.Args) == 3:
		s := e.symOf(c.Args[0])
		return gitem{"OpenFile", []string{s, orFlags(c.Args[1])}}, 2, 1, 0, "h:" + s, true
	case recv.Name == "os" && sel.Sel.Name == "Open" && len(c.Args) == 1:
		s := e.symOf(c.Args[0])
		return gitem{"Open", []string{s}}, 2, 1, 0, "h:" + s, true
	case recv.Name == "os" && sel.Sel.Name == "Rename" && len(c.Args) == 2:
		return gitem{"Rename", []string{e.symOf(c.Args[0]), e.symOf(c.Args[1])}}, 1, 0, -1, "", true
	case recv.Name == "io" && sel.Sel.Name == "Copy" && len(c.Args) == 2:
		if e.symOf(c.Args[1]) != "reader" {
			return
		}
		return gitem{"Copy", []string{e.symOf(c.Args[0])}}, 2, 1, -1, "", true
	}
	if h, okh := e.sym[recv.Name]; okh && strings.HasPrefix(h, "h:") && len(c.Args) == 0 {
		switch sel.Sel.Name {
		case "Sync":
			return gitem{"Sync", []string{h}}, 1, 0, -1, "", true
		case "Close":
			return gitem{"Close", []string{h}}, 1, 0, -1, "", true
		}
	}
	return
}

// errCheck classifies `if err != nil ... { return <non-nil> }` following a call.
func errCheck(st ast.Stmt) string {
	is, ok := st.(*ast.IfStmt)
	if !ok || is.Init != nil || is.Else != nil {
		return ""
	}
	return errCheckCond(is.Cond, is.Body)
}

func returnsError(b *ast.BlockStmt) bool {
	if len(b.List) != 1 {
		return false
	}
	rs, ok := b.List[0].(*ast.ReturnStmt)
	if !ok || len(rs.Results) != 1 {
		return false
	}
	return src(rs.Results[0]) != "nil"
}

func errCheckCond(cond ast.Expr, body *ast.BlockStmt) string {
	if !returnsError(body) {
		return ""
	}
	switch src(cond) {
	case "err != nil":
		return "check"
	case "err != nil && !os.IsNotExist(err)":
		return "enoent-ok"
	}
	return ""
}

// deferBody renders the calls of a deferred function; every error is ignored there.
func (e *atomicEnv) deferBody(call *ast.CallExpr) ([]gitem, bool) {
	var stmts []ast.Stmt
	if fl, ok := call.Fun.(*ast.FuncLit); ok && len(call.Args) == 0 {
		stmts = fl.Body.List
	} else {
		stmts = []ast.Stmt{&ast.ExprStmt{X: call}}
	}
	var out []gitem
	for _, st := range stmts {
		var c *ast.CallExpr
		switch v := st.(type) {
		case *ast.ExprStmt:
			c, _ = v.X.(*ast.CallExpr)
		case *ast.AssignStmt:
			if len(v.Rhs) == 1 && v.Tok == token.ASSIGN {
				allBlank := true
				for _, l := range v.Lhs {
					if id, ok := l.(*ast.Ident); !ok || id.Name != "_" {
						allBlank = false
					}
				}
				if allBlank {
					c, _ = v.Rhs[0].(*ast.CallExpr)
				}
			}
		}
		if c == nil {
			return nil, false
		}
		it, _, _, _, _, ok := e.recogCall(c)
		if !ok {
			return nil, false
		}
		it.args = append(it.args, "ignore")
		out = append(out, it)
	}
	return out, true
}

func genAtomic(repo, out string) {
	f := parse(filepath.Join(repo, "dbkit", "atomic.go"))
	fd := funcDecl(f, "", "AtomicWriteFile")
	var items []gitem
	var defers [][]gitem
	if fd == nil || fd.Type.Params == nil {
		items = append(items, gitem{"Unknown:no AtomicWriteFile", nil})
	} else {
		env := &atomicEnv{sym: map[string]string{}}
		// parameters by position: path, reader, mode
		var pnames []string
		for _, p := range fd.Type.Params.List {
			for _, n := range p.Names {
				pnames = append(pnames, n.Name)
			}
		}
		roles := []string{"path", "reader", "mode"}
		if len(pnames) != 3 {
			items = append(items, gitem{"Unknown:signature " + src(fd.Type), nil})
		}
		for i, n := range pnames {
			if i < len(roles) {
				env.sym[n] = roles[i]
			}
		}
		list := fd.Body.List
		for i := 0; i < len(list); i++ {
			st := list[i]
			switch v := st.(type) {
			case *ast.IfStmt:
				if v.Init != nil {
					// if err := X(); err != nil { return ... }
					as, ok := v.Init.(*ast.AssignStmt)
					if ok && len(as.Rhs) == 1 && len(as.Lhs) == 1 && v.Else == nil {
						if c, ok := as.Rhs[0].(*ast.CallExpr); ok {
							if id, ok := as.Lhs[0].(*ast.Ident); ok && id.Name == "err" {
								if it, nres, _, _, _, ok := env.recogCall(c); ok && nres == 1 {
									if m := errCheckCond(v.Cond, v.Body); m != "" {
										it.args = append(it.args, m)
										items = append(items, it)
										continue
									}
								}
							}
						}
					}
					items = append(items, unknownItem(st))
					continue
				}
				if v.Else == nil && !hasCall(v.Cond) && !strings.Contains(src(v.Cond), "err") {
					if returnsError(v.Body) {
						items = append(items, gitem{"Guard", []string{src(v.Cond)}})
						continue
					}
					// assignments of literals to untracked or scalar-parameter variables
					pure := len(v.Body.List) > 0
					var names []string
					for _, b := range v.Body.List {
						as, ok := b.(*ast.AssignStmt)
						if !ok || len(as.Lhs) != 1 || len(as.Rhs) != 1 {
							pure = false
							break
						}
						id, ok1 := as.Lhs[0].(*ast.Ident)
						_, ok2 := as.Rhs[0].(*ast.BasicLit)
						if !ok1 || !ok2 {
							pure = false
							break
						}
						if s, tracked := env.sym[id.Name]; tracked && s != "mode" {
							pure = false
							break
						}
						names = append(names, id.Name)
					}
					if pure {
						items = append(items, gitem{"Pure", names})
						continue
					}
				}
				items = append(items, unknownItem(st))
			case *ast.AssignStmt:
				if len(v.Rhs) != 1 {
					items = append(items, unknownItem(st))
					continue
				}
				// tempPath := path + ".tmp"
				if be, ok := v.Rhs[0].(*ast.BinaryExpr); ok && be.Op == token.ADD && len(v.Lhs) == 1 && v.Tok == token.DEFINE {
					id, ok1 := v.Lhs[0].(*ast.Ident)
					lit, ok2 := be.Y.(*ast.BasicLit)
					if ok1 && ok2 && lit.Kind == token.STRING && env.symOf(be.X) == "path" {
						suffix := strings.Trim(lit.Value, "\"`")
						if suffix != "" && !strings.ContainsAny(suffix, "/\\") {
							env.sym[id.Name] = "tmp"
							items = append(items, gitem{"Let", []string{id.Name, "path+" + suffix}})
							continue
						}
					}
					items = append(items, unknownItem(st))
					continue
				}
				c, ok := v.Rhs[0].(*ast.CallExpr)
				if !ok {
					items = append(items, unknownItem(st))
					continue
				}
				it, nres, errIdx, hIdx, hSym, ok := env.recogCall(c)
				if !ok || len(v.Lhs) != nres {
					items = append(items, unknownItem(st))
					continue
				}
				mode := "unchecked"
				bad := false
				for j, l := range v.Lhs {
					id, isId := l.(*ast.Ident)
					if !isId {
						bad = true
						break
					}
					switch {
					case j == errIdx:
						if id.Name == "_" {
							mode = "ignore"
						} else if id.Name == "err" {
							if i+1 < len(list) {
								if m := errCheck(list[i+1]); m != "" {
									mode = m
									i++
								}
							}
						} else {
							bad = true
						}
					case j == hIdx:
						if id.Name == "_" {
							bad = true
						} else {
							env.sym[id.Name] = hSym
						}
					default:
						if id.Name != "_" {
							bad = true
						}
					}
				}
				if bad {
					items = append(items, unknownItem(st))
					continue
				}
				it.args = append(it.args, mode)
				items = append(items, it)
			case *ast.ExprStmt:
				if c, ok := v.X.(*ast.CallExpr); ok {
					if it, _, _, _, _, ok := env.recogCall(c); ok {
						it.args = append(it.args, "unchecked")
						items = append(items, it)
						continue
					}
				}
				items = append(items, unknownItem(st))
			case *ast.DeferStmt:
				body, ok := env.deferBody(v.Call)
				if !ok {
					items = append(items, unknownItem(st))
					continue
				}
				items = append(items, gitem{"Defer", []string{itoa(len(defers))}})
				defers = append(defers, body)
			case *ast.ReturnStmt:
				if len(v.Results) == 1 {
					items = append(items, gitem{"Return", []string{src(v.Results[0])}})
				} else {
					items = append(items, unknownItem(st))
				}
			default:
				items = append(items, unknownItem(st))
			}
		}
	}
	var rows []string
	for _, it := range items {
		rows = append(rows, it.coq())
	}
	var drows []string
	for _, d := range defers {
		var r []string
		for _, it := range d {
			r = append(r, it.coq())
		}
		drows = append(drows, "["+strings.Join(r, "; ")+"]")
	}
	body := "(* G4: dbkit/atomic.go:AtomicWriteFile, statements in source order *)\n" +
		"Definition gen_atomic_prog : list (string * list string) := " + coqList(rows) + ".\n\n" +
		"(* bodies of the defer statements, indexed by the argument of the Defer items *)\n" +
		"Definition gen_atomic_defers : list (list (string * list string)) := " + coqList(drows) + ".\n"
	writeGen(out, "Atomic.v", body)
}

func itoa(i int) string {
	if i == 0 {
		return "0"
	}
	s := ""
	for i > 0 {
		s = string(rune('0'+i%10)) + s
		i /= 10
	}
	return s
}

// ---------------------------------------------------------------------------
// G5: Engine.Commit

func oneReturn(b *ast.BlockStmt) (string, bool) {
	if len(b.List) != 1 {
		return "", false
	}
	rs, ok := b.List[0].(*ast.ReturnStmt)
	if !ok || len(rs.Results) != 1 {
		return "", false
	}
	return src(rs.Results[0]), true
}

func isBroadcast(rs *ast.RangeStmt, recv string) bool {
	if src(rs.X) != recv+".streams" || rs.Key == nil || len(rs.Body.List) != 1 {
		return false
	}
	key, ok := rs.Key.(*ast.Ident)
	if !ok {
		return false
	}
	sel, ok := rs.Body.List[0].(*ast.SelectStmt)
	if !ok {
		return false
	}
	send, def := false, false
	for _, c := range sel.Body.List {
		cc := c.(*ast.CommClause)
		if cc.Comm == nil {
			def = len(cc.Body) == 0
			continue
		}
		if s, ok := cc.Comm.(*ast.SendStmt); ok && src(s.Chan) == key.Name+".signal" && len(cc.Body) == 0 {
			send = true
		} else {
			return false
		}
	}
	return send && def
}

// hookIsEmpty: /repo/verif_off.go declares `func verifPoint(string, *Engine) {}`
// under `//go:build !verif`.
func hookIsEmpty(repo string) bool {
	f, err := parserParse(filepath.Join(repo, "verif_off.go"))
	if err != nil {
		return false
	}
	tagged := false
	for _, cg := range f.Comments {
		for _, c := range cg.List {
			if strings.TrimSpace(c.Text) == "//go:build !verif" {
				tagged = true
			}
		}
	}
	fd := funcDecl(f, "", "verifPoint")
	return tagged && fd != nil && fd.Body != nil && len(fd.Body.List) == 0
}

func parserParse(path string) (*ast.File, error) {
	return parser.ParseFile(fset, path, nil, parser.ParseComments)
}

func genCommit(repo, out string) {
	f := parse(filepath.Join(repo, "engine.go"))
	fd := funcDecl(f, "Engine", "Commit")
	var items []string
	unk := func(n ast.Node) {
		s := src(n)
		if i := strings.IndexByte(s, '\n'); i >= 0 {
			s = s[:i] + " ..."
		}
		items = append(items, "Unknown:"+s)
	}
	if fd == nil || fd.Recv == nil || len(fd.Recv.List[0].Names) != 1 || fd.Type.Params == nil ||
		len(fd.Type.Params.List) != 1 || len(fd.Type.Params.List[0].Names) != 1 {
		items = append(items, "Unknown:no Engine.Commit(txn)")
	} else {
		e := fd.Recv.List[0].Names[0].Name
		txn := fd.Type.Params.List[0].Names[0].Name
		for _, st := range fd.Body.List {
			switch v := st.(type) {
			case *ast.ExprStmt:
				s := src(v.X)
				switch {
				case s == e+".mutex.Lock()":
					items = append(items, "Lock")
				case strings.HasPrefix(s, txn+".Clean("):
					items = append(items, "Clean")
				default:
					// verifPoint("name", e): a scheduling hook that is an empty function
					// without the verif build tag (checked in verif_off.go)
					if c, ok := v.X.(*ast.CallExpr); ok && len(c.Args) == 2 && src(c.Fun) == "verifPoint" && src(c.Args[1]) == e && hookIsEmpty(repo) {
						if lit, ok := c.Args[0].(*ast.BasicLit); ok && lit.Kind == token.STRING {
							items = append(items, "Hook:"+strings.Trim(lit.Value, "\""))
							continue
						}
					}
					unk(st)
				}
			case *ast.DeferStmt:
				switch src(v.Call) {
				case e + ".mutex.Unlock()":
					items = append(items, "DeferUnlock")
				case e + ".token.Release()":
					items = append(items, "DeferRelease")
				default:
					unk(st)
				}
			case *ast.IfStmt:
				ret, ok := oneReturn(v.Body)
				if v.Init != nil || v.Else != nil || !ok {
					unk(st)
					continue
				}
				cond := src(v.Cond)
				switch {
				case cond == "!"+e+".tomb.Alive()" && ret != "nil":
					items = append(items, "CheckAlive")
				case cond == e+".txn == nil" && ret != "nil":
					items = append(items, "CheckTxnNil")
				case cond == e+".txn != "+txn && ret != "nil":
					items = append(items, "CheckTxnMatch")
				case cond == "!"+txn+".Dirty()" && ret == "nil":
					items = append(items, "CheckDirty")
				case cond == "err != nil" && ret == "err":
					items = append(items, "ReturnOnStoreErr")
				default:
					unk(st)
				}
			case *ast.AssignStmt:
				s := src(st)
				switch s {
				case e + ".txn = nil":
					items = append(items, "UnsetTxn")
				case "err := " + e + ".store.Store(" + txn + ".Catalog())", "err = " + e + ".store.Store(" + txn + ".Catalog())":
					items = append(items, "Store")
				case e + ".catalog = " + txn + ".Catalog()":
					items = append(items, "Publish")
				default:
					unk(st)
				}
			case *ast.RangeStmt:
				if isBroadcast(v, e) {
					items = append(items, "Broadcast")
				} else {
					unk(st)
				}
			case *ast.ReturnStmt:
				if len(v.Results) == 1 && src(v.Results[0]) == "nil" {
					items = append(items, "ReturnNil")
				} else {
					unk(st)
				}
			default:
				unk(st)
			}
		}
	}
	var rows []string
	for _, it := range items {
		rows = append(rows, coqStr(it))
	}
	body := "(* G5: engine.go, method Commit of Engine, significant statements in source order *)\n" +
		"Definition gen_commit_prog : list string := " + coqList(rows) + ".\n"
	writeGen(out, "Commit.v", body)
}
