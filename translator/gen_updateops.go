package main

// gen_updateops.go — G2 (update part): the operator registration tables in
// the init() functions of mongokit/apply.go and mongokit/extract.go.
//
//   FieldUpdateOperators["$set"] = applySet          -> gen_update_ops
//   TopLevelExtractOperators["$and"] = extractAnd    -> gen_extract_top
//   ExpressionExtractOperators[""] = extractEq       -> gen_extract_expr
//
// Each table is rendered in source order as a list of (operator, Go function).
// A statement of init() that is not an assignment `Table["lit"] = ident` to
// one of the expected tables is rendered as an ("Unknown:<source>", "") row,
// which makes the `reflexivity` obligation in Proofs/GenUpdateOps.v fail.

import (
	"go/ast"
	"go/token"
	"path/filepath"
	"strconv"
)

func init() { extraGens = append(extraGens, genUpdateOps) }

// registrations returns, per table name, the rows found in all init()
// functions of the file.
func registrations(f *ast.File, tables []string) map[string][]string {
	rows := map[string][]string{}
	known := map[string]bool{}
	for _, t := range tables {
		known[t] = true
		rows[t] = nil
	}
	unknown := func(n ast.Node) {
		// attribute the unrecognised statement to every table: all obligations fail
		for _, t := range tables {
			rows[t] = append(rows[t], "("+coqStr("Unknown:"+src(n))+", \"\")")
		}
	}
	found := false
	for _, d := range f.Decls {
		fd, ok := d.(*ast.FuncDecl)
		if !ok || fd.Name.Name != "init" || fd.Recv != nil {
			continue
		}
		found = true
		for _, st := range fd.Body.List {
			as, ok := st.(*ast.AssignStmt)
			if !ok || as.Tok != token.ASSIGN || len(as.Lhs) != 1 || len(as.Rhs) != 1 {
				unknown(st)
				continue
			}
			ix, ok := as.Lhs[0].(*ast.IndexExpr)
			if !ok {
				unknown(st)
				continue
			}
			tab, ok1 := ix.X.(*ast.Ident)
			key, ok2 := ix.Index.(*ast.BasicLit)
			fn, ok3 := as.Rhs[0].(*ast.Ident)
			if !ok1 || !ok2 || !ok3 || key.Kind != token.STRING || !known[tab.Name] {
				unknown(st)
				continue
			}
			k, err := strconv.Unquote(key.Value)
			if err != nil {
				unknown(st)
				continue
			}
			rows[tab.Name] = append(rows[tab.Name], "("+coqStr(k)+", "+coqStr(fn.Name)+")")
		}
	}
	if !found {
		for _, t := range tables {
			rows[t] = append(rows[t], "("+coqStr("Unknown:no init()")+", \"\")")
		}
	}
	// the tables themselves must be declared as empty map literals (no
	// registration hidden in the declaration)
	for _, d := range f.Decls {
		gd, ok := d.(*ast.GenDecl)
		if !ok || gd.Tok != token.VAR {
			continue
		}
		for _, sp := range gd.Specs {
			vs := sp.(*ast.ValueSpec)
			for i, n := range vs.Names {
				if !known[n.Name] {
					continue
				}
				okDecl := false
				if i < len(vs.Values) {
					if cl, ok := vs.Values[i].(*ast.CompositeLit); ok && len(cl.Elts) == 0 {
						okDecl = true
					}
				}
				if !okDecl {
					rows[n.Name] = append(rows[n.Name], "("+coqStr("Unknown:"+src(vs))+", \"\")")
				}
			}
		}
	}
	return rows
}

func genUpdateOps(repo, out string) {
	ap := registrations(parse(filepath.Join(repo, "mongokit", "apply.go")), []string{"FieldUpdateOperators"})
	ex := registrations(parse(filepath.Join(repo, "mongokit", "extract.go")), []string{"TopLevelExtractOperators", "ExpressionExtractOperators"})
	body := "(* mongokit/apply.go init(): FieldUpdateOperators, in source order *)\n" +
		"Definition gen_update_ops : list (string * string) := " + coqList(ap["FieldUpdateOperators"]) + ".\n\n" +
		"(* mongokit/extract.go init(): TopLevelExtractOperators / ExpressionExtractOperators *)\n" +
		"Definition gen_extract_top : list (string * string) := " + coqList(ex["TopLevelExtractOperators"]) + ".\n\n" +
		"Definition gen_extract_expr : list (string * string) := " + coqList(ex["ExpressionExtractOperators"]) + ".\n"
	writeGen(out, "UpdateOps.v", body)
}
