package main

// gen_boundary.go — G7: how values cross the driver API boundary (C17).
// From /repo/collection.go and indexes.go it renders coq/Gen/Boundary.v:
//   gen_boundary : list (string * string * string)   (method, component, crossing)
// with crossing one of "transform" (an interface{} argument only ever flows
// into bsonkit.Transform / TransformList), "copy" (copyValue / copyValues),
// "count", "none", "decode" (documents kept in a Cursor / SingleResult, which
// expose them through bsonkit.Decode only) or "Unknown:<source>".

import (
	"go/ast"
	"go/token"
	"path/filepath"
	"sort"
	"strings"
)

func init() { extraGens = append(extraGens, genBoundary) }

func isIfaceType(e ast.Expr) bool {
	switch t := e.(type) {
	case *ast.InterfaceType:
		return true
	case *ast.ArrayType:
		return isIfaceType(t.Elt) || src(t.Elt) == "mongo.WriteModel" || src(t.Elt) == "mongo.IndexModel"
	case *ast.Ellipsis:
		return false
	}
	s := src(e)
	return s == "mongo.IndexModel" || s == "mongo.WriteModel"
}

func callName(c *ast.CallExpr) string { return src(c.Fun) }

// classifyResult: how an expression that is handed to the caller is produced.
func classifyResult(e ast.Expr, defs map[string]ast.Expr) string {
	switch x := e.(type) {
	case *ast.CallExpr:
		switch callName(x) {
		case "copyValue", "copyValues":
			return "copy"
		case "int64", "int", "len":
			return "count"
		}
		return "Unknown:" + src(e)
	case *ast.BasicLit:
		return "count"
	case *ast.CompositeLit:
		if len(x.Elts) == 0 {
			return "none"
		}
		return "Unknown:" + src(e)
	case *ast.Ident:
		if x.Name == "nil" {
			return "none"
		}
		if d, ok := defs[x.Name]; ok {
			delete(defs, x.Name) // no cycles
			return classifyResult(d, defs)
		}
		return "Unknown:" + x.Name
	}
	return "Unknown:" + src(e)
}

var resultTypes = map[string]bool{"mongo.InsertOneResult": true, "mongo.InsertManyResult": true, "mongo.UpdateResult": true,
	"mongo.DeleteResult": true, "mongo.BulkWriteResult": true}

func genBoundary(repo, out string) {
	var rows [][3]string
	add := func(m, c, k string) { rows = append(rows, [3]string{m, c, k}) }

	for _, file := range []string{"collection.go", "indexes.go"} {
		f := parse(filepath.Join(repo, file))
		for _, d := range f.Decls {
			fd, ok := d.(*ast.FuncDecl)
			if !ok || fd.Recv == nil || fd.Body == nil || !fd.Name.IsExported() {
				continue
			}
			recv := strings.TrimPrefix(src(fd.Recv.List[0].Type), "*")
			if recv != "Collection" && recv != "IndexView" {
				continue
			}
			method := recv + "." + fd.Name.Name
			recvName := ""
			if len(fd.Recv.List[0].Names) > 0 {
				recvName = fd.Recv.List[0].Names[0].Name
			}

			// ---- arguments ----
			tainted := map[string]string{} // ident -> parameter it derives from
			for _, p := range fd.Type.Params.List {
				if isIfaceType(p.Type) {
					for _, n := range p.Names {
						if n.Name != "_" {
							tainted[n.Name] = n.Name
						}
					}
				}
			}
			status := map[string]string{}
			for _, p := range tainted {
				status[p] = "transform"
			}
			if len(tainted) > 0 {
				// propagate through assignments / range / type switches to a fixed point, then check uses
				for changed := true; changed; {
					changed = false
					ast.Inspect(fd.Body, func(n ast.Node) bool {
						mark := func(lhs ast.Expr, from string) {
							if id, ok := lhs.(*ast.Ident); ok && id.Name != "_" {
								if _, ok := tainted[id.Name]; !ok {
									tainted[id.Name] = from
									changed = true
								}
							}
						}
						srcParam := func(e ast.Expr) string {
							found := ""
							ast.Inspect(e, func(m ast.Node) bool {
								if c, ok := m.(*ast.CallExpr); ok {
									// only append() hands its arguments on; every other call is
									// checked as a use of the argument
									if callName(c) != "append" {
										return false
									}
								}
								if _, ok := m.(*ast.StarExpr); ok {
									return false // dereference of a pointer to a scalar option
								}
								if id, ok := m.(*ast.Ident); ok {
									if p, ok := tainted[id.Name]; ok && found == "" {
										found = p
									}
								}
								return true
							})
							return found
						}
						switch s := n.(type) {
						case *ast.AssignStmt:
							for i, r := range s.Rhs {
								if p := srcParam(r); p != "" {
									if len(s.Lhs) == len(s.Rhs) {
										mark(s.Lhs[i], p)
									} else {
										for _, l := range s.Lhs {
											mark(l, p)
										}
									}
								}
							}
						case *ast.RangeStmt:
							if p := srcParam(s.X); p != "" {
								if s.Key != nil {
									// index of a slice: not tainted
								}
								if s.Value != nil {
									mark(s.Value, p)
								}
							}
						case *ast.TypeSwitchStmt:
							if as, ok := s.Assign.(*ast.AssignStmt); ok && len(as.Rhs) == 1 {
								if p := srcParam(as.Rhs[0]); p != "" {
									mark(as.Lhs[0], p)
								}
							}
						}
						return true
					})
				}
				// every use must sit in an allowed context
				var stack []ast.Node
				ast.Inspect(fd.Body, func(n ast.Node) bool {
					if n == nil {
						stack = stack[:len(stack)-1]
						return true
					}
					stack = append(stack, n)
					id, ok := n.(*ast.Ident)
					if !ok {
						return true
					}
					param, isT := tainted[id.Name]
					if !isT {
						return true
					}
					// walk up
					okUse := false
					var child ast.Node = id
					for i := len(stack) - 2; i >= 0 && !okUse; i-- {
						switch p := stack[i].(type) {
						case *ast.SelectorExpr:
							if p.X != child {
								okUse = true // it is the field name, not the variable
							}
						case *ast.StarExpr:
							okUse = true // dereference of a pointer to a scalar option
						case *ast.ParenExpr, *ast.IndexExpr:
						case *ast.CallExpr:
							name := callName(p)
							switch {
							case name == "bsonkit.Transform" || name == "bsonkit.TransformList" || name == "len" || name == "assertOptions":
								okUse = true
							case recvName != "" && strings.HasPrefix(name, recvName+"."):
								okUse = true // delegation to another method of the same receiver (checked itself)
							default:
								if p.Fun == child {
									okUse = true
								} else {
									status[param] = "Unknown:" + src(p)
									okUse = true
								}
							}
						case *ast.BinaryExpr:
							if src(p.X) == "nil" || src(p.Y) == "nil" {
								okUse = true
							} else {
								status[param] = "Unknown:" + src(p)
								okUse = true
							}
						case *ast.AssignStmt:
							okUse = true // propagation handled above (LHS or RHS)
						case *ast.RangeStmt, *ast.TypeSwitchStmt, *ast.TypeAssertExpr, *ast.CaseClause, *ast.ValueSpec:
							okUse = true
						case *ast.UnaryExpr:
							if p.Op != token.AND {
								break
							}
							status[param] = "Unknown:" + src(p)
							okUse = true
						case *ast.KeyValueExpr, *ast.CompositeLit:
							// embedded in a literal: the literal is then judged by its own context
						case *ast.ReturnStmt, *ast.SendStmt, *ast.GoStmt:
							status[param] = "Unknown:" + src(p)
							okUse = true
						case ast.Stmt:
							okUse = true
						}
						child = stack[i]
					}
					return true
				})
				var ps []string
				for p := range status {
					ps = append(ps, p)
				}
				sort.Strings(ps)
				for _, p := range ps {
					add(method, "arg:"+p, status[p])
				}
			}

			// ---- results ----
			defs := map[string]ast.Expr{}
			ast.Inspect(fd.Body, func(n ast.Node) bool {
				if as, ok := n.(*ast.AssignStmt); ok && len(as.Lhs) == 1 && len(as.Rhs) == 1 {
					if id, ok := as.Lhs[0].(*ast.Ident); ok {
						defs[id.Name] = as.Rhs[0]
					}
				}
				return true
			})
			ast.Inspect(fd.Body, func(n ast.Node) bool {
				switch x := n.(type) {
				case *ast.CompositeLit:
					tn := src(x.Type)
					if resultTypes[tn] {
						for _, e := range x.Elts {
							if kv, ok := e.(*ast.KeyValueExpr); ok {
								cp := map[string]ast.Expr{}
								for k, v := range defs {
									cp[k] = v
								}
								add(method, "result:"+tn+"."+src(kv.Key), classifyResult(kv.Value, cp))
							}
						}
					}
					if tn == "Cursor" || tn == "SingleResult" {
						add(method, "result:"+tn, "decode")
					}
				case *ast.AssignStmt:
					// result.UpsertedIDs[int64(i)] = ...
					if len(x.Lhs) == 1 && len(x.Rhs) == 1 {
						if ix, ok := x.Lhs[0].(*ast.IndexExpr); ok && strings.HasSuffix(src(ix.X), ".UpsertedIDs") {
							cp := map[string]ast.Expr{}
							add(method, "result:UpsertedIDs[]", classifyResult(x.Rhs[0], cp))
						}
					}
				case *ast.ReturnStmt:
					// Distinct returns []interface{} directly
					if fd.Name.Name == "Distinct" && len(x.Results) == 2 && src(x.Results[0]) != "nil" {
						cp := map[string]ast.Expr{}
						for k, v := range defs {
							cp[k] = v
						}
						add(method, "result:values", classifyResult(x.Results[0], cp))
					}
				}
				return true
			})
		}
	}

	// Cursor / SingleResult expose their documents only through bsonkit.Decode*
	for _, spec := range []struct{ file, typ string }{{"cursor.go", "Cursor"}, {"result.go", "SingleResult"}} {
		f := parse(filepath.Join(repo, spec.file))
		for _, d := range f.Decls {
			fd, ok := d.(*ast.FuncDecl)
			if !ok || fd.Recv == nil || fd.Body == nil || !fd.Name.IsExported() {
				continue
			}
			if strings.TrimPrefix(src(fd.Recv.List[0].Type), "*") != spec.typ {
				continue
			}
			// which fields holding stored documents does the method read, and how?
			kind := "none"
			ast.Inspect(fd.Body, func(n ast.Node) bool {
				if c, ok := n.(*ast.CallExpr); ok {
					switch callName(c) {
					case "bsonkit.Decode", "bsonkit.DecodeList", "bson.Marshal":
						kind = "decode"
						return false
					}
				}
				if r, ok := n.(*ast.ReturnStmt); ok {
					for _, e := range r.Results {
						s := src(e)
						if strings.Contains(s, ".list") || strings.Contains(s, ".doc") {
							if !strings.Contains(s, "len(") {
								kind = "Unknown:" + s
							}
						}
					}
				}
				return true
			})
			add(spec.typ+"."+fd.Name.Name, "exposes", kind)
		}
	}

	var items []string
	seenRow := map[[3]string]bool{}
	for _, r := range rows {
		if seenRow[r] {
			continue
		}
		seenRow[r] = true
		items = append(items, "("+coqStr(r[0])+", "+coqStr(r[1])+", "+coqStr(r[2])+")")
	}
	writeGen(out, "Boundary.v", "(* (method, component, crossing) for every value that crosses the driver API boundary *)\nDefinition gen_boundary : list (string * string * string) := "+coqList(items)+".\n")
}
