(* driver.ml — runs the extracted model on "case<TAB>observed" lines and
   reports the lines on which model and implementation differ.
   usage: driver FILE  (prints "MISMATCH <lineno>\t<case>\t<observed>\t<model>" per
   difference and a final "TOTAL <n> MISMATCHES <m>") ;
   driver -eval FILE prints the model's output for each case line. *)

let coq_of_string (s : String.t) : Model.string =
  let r = ref Model.EmptyString in
  for i = String.length s - 1 downto 0 do
    let c = Char.code s.[i] in
    let b k = (c lsr k) land 1 = 1 in
    r := Model.String (Model.Ascii (b 0, b 1, b 2, b 3, b 4, b 5, b 6, b 7), !r)
  done;
  !r

let string_of_coq (s : Model.string) : String.t =
  let buf = Buffer.create 64 in
  let rec go = function
    | Model.EmptyString -> ()
    | Model.String (Model.Ascii (b0, b1, b2, b3, b4, b5, b6, b7), t) ->
        let v x k = if x then 1 lsl k else 0 in
        Buffer.add_char buf
          (Char.chr (v b0 0 lor v b1 1 lor v b2 2 lor v b3 3 lor v b4 4 lor v b5 5 lor v b6 6 lor v b7 7));
        go t
  in
  go s;
  Buffer.contents buf

let () =
  let eval_only = Array.length Sys.argv > 2 && Sys.argv.(1) = "-eval" in
  let file = Sys.argv.(Array.length Sys.argv - 1) in
  let ic = open_in file in
  let total = ref 0 and bad = ref 0 in
  (try
     while true do
       let line = input_line ic in
       incr total;
       let case, observed =
         match String.index_opt line '\t' with
         | Some i -> (String.sub line 0 i, String.sub line (i + 1) (String.length line - i - 1))
         | None -> (line, "")
       in
       let m = string_of_coq (Model.run_case (coq_of_string case)) in
       if eval_only then print_endline m
       else if observed = "HUGE-RESULT" && String.length m > 1 lsl 20 then ()
         (* the harness reports a result above 2^20 bytes as HUGE-RESULT instead of printing it:
            the model agrees when its own rendering is that large *)
       else if m <> observed then begin
         incr bad;
         Printf.printf "MISMATCH %d\t%s\t%s\t%s\n" !total case observed m
       end
     done
   with End_of_file -> ());
  close_in ic;
  if not eval_only then Printf.printf "TOTAL %d MISMATCHES %d\n" !total !bad
