(* Extraction of the executable model to OCaml.  ExtrOcamlBasic only:
   bool/option/unit/list/prod/sumbool/sumor map to the OCaml types, andb/orb/
   negb/fst/snd are inlined.  Z, N, positive, string, ascii, comparison stay
   extracted inductives. *)
From Coq Require Import Extraction ExtrOcamlBasic.
From Lungo.Model Require Import Run.
Extraction Language OCaml.
Extraction "model.ml" run_case.
