(* RefMatch.v — the reference semantics of query filters (DESIGN.md section 8.1:
   this project's rendering of the MongoDB manual) and the core domain
   (section 8.2) on which lungo's matcher is claimed to agree with it.
   Declarative where it matters — path lookup, candidate expansion, how a
   condition quantifies over candidates — and executable (bool), so that the
   claim can also be tested.  Definitions only. *)
From Lungo.Model Require Export Match.
Open Scope Z_scope.
Open Scope string_scope.
Open Scope list_scope.

(* ------------------------------------------------------------------ *)
(* 8.1 path lookup: the candidates (values or Missing) of a path *)

Fixpoint rlookup (v : value) (p : path) {struct v} : list value :=
  match p with
  | [] => [v]
  | s :: r =>
      match v with
      | VDoc d =>
          (fix find (d : list (string * value)) : list value :=
             match d with
             | [] => [VMissing]
             | (k, x) :: t => if String.eqb k s then rlookup x r else find t
             end) d
      | VArr a =>
          (* (a) the element at a decimal index *)
          (match parse_index s with
           | Some i =>
               (fix nth (l : list value) (i : Z) : list value :=
                  match l with
                  | [] => []
                  | x :: t => if (i =? 0)%Z then rlookup x r else nth t (i - 1)%Z
                  end) a i
           | None => []
           end)
          (* (b) implicit traversal of the elements that are documents *)
          ++ (fix trav (l : list value) : list value :=
                match l with
                | [] => []
                | e :: t => (match e with VDoc _ => rlookup e p | _ => [] end) ++ trav t
                end) a
      | _ => [VMissing]
      end
  end.

(* leaf expansion: an array candidate stands for itself and each element *)
Definition expand (c : value) : list value :=
  match c with VArr a => c :: a | _ => [c] end.

Definition some_unexpanded (root : value) (p : path) (t : value -> bool) : bool :=
  existsb t (rlookup root p).
Definition some_expanded (root : value) (p : path) (t : value -> bool) : bool :=
  existsb t (flat_map expand (rlookup root p)).

(* ------------------------------------------------------------------ *)
(* leaf relations *)

(* type-bracketed order relations *)
Definition rel (op : string) (c v : value) : bool :=
  class_eqb (class_of c) (class_of v) &&
  match compare c v with
  | Eq => String.eqb op "$eq" || String.eqb op "$gte" || String.eqb op "$lte"
  | Lt => String.eqb op "$lt" || String.eqb op "$lte"
  | Gt => String.eqb op "$gt" || String.eqb op "$gte"
  end.

Definition req (c v : value) : bool := rel "$eq" c v.

(* the argument of $type: Some (number class wanted, BSON types wanted) *)
Definition type_spec (x : value) : option (bool * list Z) :=
  match x with
  | VArr [] => None
  | _ =>
      match mapM resolve_type (match x with VArr l => l | _ => [x] end) with
      | Ok rs => Some (existsb fst rs, map snd (filter (fun r => negb (fst r)) rs))
      | _ => None
      end
  end.

(* Missing is not a BSON value: it has no type *)
Definition has_type (spec : bool * list Z) (c : value) : bool :=
  negb (is_missing c) &&
  ((fst spec && class_eqb (class_of c) CNumber) || existsb (fun t => (t =? type_of c)%Z) (snd spec)).

Definition mod_spec (x : value) : option (Z * Z) :=
  match x with
  | VArr [a; b] =>
      match mod_operand a, mod_operand b with
      | Ok dv, Ok rm => if (dv =? 0)%Z then None else Some (dv, rm)
      | _, _ => None
      end
  | _ => None
  end.

Definition bits_ops : list string := ["$bitsAllSet"; "$bitsAllClear"; "$bitsAnySet"; "$bitsAnyClear"].
Definition is_bits_op (op : string) : bool := existsb (String.eqb op) bits_ops.
Definition rel_ops : list string := ["$eq"; "$gt"; "$gte"; "$lt"; "$lte"].
Definition is_rel_op (op : string) : bool := existsb (String.eqb op) rel_ops.

(* Inside $elemMatch a condition is evaluated on one array element: "as a
   document for field conditions, as a value for operator conditions".  Both
   readings are obtained by presenting the element as the single field `item`
   of a one-field document: an operator condition addresses `item`, a field
   condition on k addresses `item.k`.  (rlookup (elem_root e) (elem_path ++ p)
   = rlookup e p: Proofs/MatchRef.v, elem_root_lookup.) *)
Definition elem_root (e : value) : value := VDoc [("item", e)].
Definition elem_path : path := ["item"].

Definition ok_true (r : res bool) : bool := match r with Ok true => true | _ => false end.

(* ------------------------------------------------------------------ *)
(* 8.1 operators.  `root` is the value conditions are evaluated on (the
   document, or an array element inside $elemMatch), p the field path. *)

Section Conditions.
  Variable rop : value -> string -> value -> path -> bool.

  Definition all_ops (exps : list (string * value)) (root : value) (p : path) : bool :=
    (fix go (exps : list (string * value)) : bool :=
       match exps with
       | [] => true
       | (k, y) :: t => is_op k && rop y k root p && go t
       end) exps.

  (* a field condition: an operator document is the conjunction of its
     operators; anything else is equality with the literal *)
  Definition ref_field (x : value) (root : value) (p : path) : bool :=
    match x with
    | VDoc ((k0, y0) :: rest) =>
        if is_op k0 then all_ops ((k0, y0) :: rest) root p
        else some_expanded root p (fun c => req c x)
    | _ => some_expanded root p (fun c => req c x)
    end.
End Conditions.

Fixpoint ref_op (x : value) (op : string) (root : value) (p : path) {struct x} : bool :=
  if is_rel_op op then some_expanded root p (fun c => rel op c x)
  else if String.eqb op "$ne" then negb (some_expanded root p (fun c => req c x))
  else if String.eqb op "$in" then
    match x with
    | VArr vs => some_expanded root p (fun c => existsb (req c) vs)
    | _ => false
    end
  else if String.eqb op "$nin" then
    match x with
    | VArr vs => negb (some_expanded root p (fun c => existsb (req c) vs))
    | _ => false
    end
  else if String.eqb op "$exists" then
    Bool.eqb (truthy x) (some_unexpanded root p (fun c => negb (is_missing c)))
  else if String.eqb op "$type" then
    match type_spec x with
    | Some spec => some_expanded root p (has_type spec)
    | None => false
    end
  else if String.eqb op "$size" then
    match size_arg x with
    | Ok n => some_unexpanded root p (has_len n)
    | _ => false
    end
  else if String.eqb op "$all" then
    match x with
    | VArr [] => false
    | VArr vs =>
        some_unexpanded root p
          (fun a => forallb (fun v => existsb (fun c => req c v) (expand a)) vs)
    | _ => false
    end
  else if String.eqb op "$mod" then
    match mod_spec x with
    | Some (dv, rm) => some_expanded root p (fun c => ok_true (mod_test dv rm c))
    | None => false
    end
  else if is_bits_op op then
    match parse_bit_mask x with
    | Ok positions => some_expanded root p (fun c => ok_true (bits_test op positions c))
    | _ => false
    end
  else if String.eqb op "$not" then
    match x with
    | VDoc exps =>
        negb ((fix go (exps : list (string * value)) : bool :=
                 match exps with
                 | [] => true
                 | (k, y) :: t => ref_op y k root p && go t
                 end) exps)
    | _ => false
    end
  else if String.eqb op "$elemMatch" then
    match x with
    | VDoc q =>
        some_unexpanded root p
          (fun c =>
             match c with
             | VArr es =>
                 existsb
                   (fun e =>
                      (fix go (q : list (string * value)) : bool :=
                         match q with
                         | [] => true
                         | (k, y) :: t =>
                             (if is_op k then ref_op y k (elem_root e) elem_path
                              else ref_field ref_op y (elem_root e) (elem_path ++ split_path k)) && go t
                         end) q) es
             | _ => false
             end)
    | _ => false
    end
  else false.

Fixpoint ref_top (x : value) (k : string) (root : value) {struct x} : bool :=
  if is_op k then
    let sub (item : value) : bool :=
      match item with
      | VDoc q =>
          (fix go (q : list (string * value)) : bool :=
             match q with
             | [] => true
             | (k', y) :: t => ref_top y k' root && go t
             end) q
      | _ => false
      end in
    match x with
    | VArr items =>
        if String.eqb k "$and" then
          (fix all (l : list value) : bool :=
             match l with [] => true | i :: t => sub i && all t end) items
        else if String.eqb k "$or" then
          (fix any (l : list value) : bool :=
             match l with [] => false | i :: t => sub i || any t end) items
        else if String.eqb k "$nor" then
          negb ((fix any (l : list value) : bool :=
                   match l with [] => false | i :: t => sub i || any t end) items)
        else false
    | _ => false
    end
  else ref_field ref_op x root (split_path k).

(* a filter document is the conjunction of its entries *)
Definition holds_at (root : value) (f : doc) : bool :=
  (fix go (q : list (string * value)) : bool :=
     match q with
     | [] => true
     | (k, y) :: t => ref_top y k root && go t
     end) f.

Definition holds (d f : doc) : bool := holds_at (VDoc d) f.

(* ------------------------------------------------------------------ *)
(* 8.2 the core domain *)

(* D1: no array directly contains an array *)
Fixpoint d1 (v : value) : bool :=
  match v with
  | VDoc d =>
      (fix go (d : list (string * value)) : bool :=
         match d with [] => true | (_, x) :: t => d1 x && go t end) d
  | VArr a =>
      (fix go (a : list value) : bool :=
         match a with
         | [] => true
         | x :: t => (match x with VArr _ => false | _ => true end) && d1 x && go t
         end) a
  | _ => true
  end.

Definition numeric_key (k : string) : bool :=
  match parse_index k with Some _ => true | None => false end.

(* D3: no document that is an element of an array has a decimal field name *)
Fixpoint d3 (v : value) : bool :=
  match v with
  | VDoc d =>
      (fix go (d : list (string * value)) : bool :=
         match d with [] => true | (_, x) :: t => d3 x && go t end) d
  | VArr a =>
      (fix go (a : list value) : bool :=
         match a with
         | [] => true
         | x :: t =>
             (match x with
              | VDoc d => forallb (fun kv => negb (numeric_key (fst kv))) d
              | _ => true
              end) && d3 x && go t
         end) a
  | _ => true
  end.

Definition has_doc_element (a : list value) : bool :=
  existsb (fun e => match e with VDoc _ => true | _ => false end) a.

(* the path meets an array at a segment that is not an index into it, or
   indexes into an array that holds documents (whose implicit traversal adds
   Missing candidates under the reference semantics) *)
Fixpoint fans_out (v : value) (p : path) {struct v} : bool :=
  match p with
  | [] => false
  | s :: r =>
      match v with
      | VDoc d =>
          (fix find (d : list (string * value)) : bool :=
             match d with
             | [] => false
             | (k, x) :: t => if String.eqb k s then fans_out x r else find t
             end) d
      | VArr a =>
          match parse_index s with
          | Some i =>
              (fix nth (l : list value) (i : Z) : bool :=
                 match l with
                 | [] => true
                 | x :: t => if (i =? 0)%Z then has_doc_element a || fans_out x r else nth t (i - 1)%Z
                 end) a i
          | None => true
          end
      | _ => false
      end
  end.

(* implicit traversal only (DESIGN.md 8.2 D2 as written): the path meets an
   array at a segment that is not an index into it *)
Fixpoint fans_out_pure (v : value) (p : path) {struct v} : bool :=
  match p with
  | [] => false
  | s :: r =>
      match v with
      | VDoc d =>
          (fix find (d : list (string * value)) : bool :=
             match d with
             | [] => false
             | (k, x) :: t => if String.eqb k s then fans_out_pure x r else find t
             end) d
      | VArr a =>
          match parse_index s with
          | Some i =>
              (fix nth (l : list value) (i : Z) : bool :=
                 match l with
                 | [] => true
                 | x :: t => if (i =? 0)%Z then fans_out_pure x r else nth t (i - 1)%Z
                 end) a i
          | None => true
          end
      | _ => false
      end
  end.

(* The property's domain is D1-D4.  D3 says that inside the domain a numeric
   path segment addresses an array position ONLY; the reference lookup of 8.1
   nevertheless also reads the segment as a field name of every element
   document, which yields Missing candidates (matched by null).  That second
   reading is semantics the property does not state, so a numeric segment that
   indexes into an array holding documents counts as fan-out for D2 (`fans_out`:
   null, document and array operands and the non-leaf operators are outside the
   domain there); lungo and the reference may differ on such pairs
   (index_null_refuted) and they are not compared.  The switch below selects
   the other reading (`fans_out_pure`: implicit traversal only); it is kept for
   experiments and is off in every definition that matters.  No recorded defect
   class remains inside the domain: six were found by this check and repaired
   in lungo. *)
Record flags : Type := {
  f_index : bool         (* a numeric segment indexing into an array that holds documents is
                            NOT counted as fan-out *)
}.
Definition strict : flags := Build_flags false.
Definition lenient : flags := Build_flags true.

Definition fan_of (fl : flags) (root : value) (p : path) : bool :=
  if f_index fl then fans_out_pure root p else fans_out root p.

(* D2 operands: non-null scalars *)
Definition plain_scalar (v : value) : bool :=
  match v with
  | VNull | VMissing | VDoc _ | VArr _ => false
  | _ => true
  end.

Definition good_path (p : path) : bool :=
  forallb (fun s => negb (String.eqb s "")) p.

Section CoreConditions.
  Variable fanf : value -> path -> bool.
  Variable cop : value -> string -> value -> path -> bool.

  Definition core_ops (exps : list (string * value)) (root : value) (p : path) : bool :=
    (fix go (exps : list (string * value)) : bool :=
       match exps with
       | [] => true
       | (k, y) :: t => is_op k && cop y k root p && go t
       end) exps.

  Definition core_field (x : value) (root : value) (p : path) : bool :=
    good_path p &&
    match x with
    | VDoc ((k0, y0) :: rest) =>
        if is_op k0 then core_ops ((k0, y0) :: rest) root p
        else negb (fanf root p)
    | _ => negb (fanf root p) || plain_scalar x
    end.
End CoreConditions.

(* D4 (well-formed arguments) and D2 (restrictions under fan-out), operator by
   operator.  An operator not listed here is outside the covered domain. *)
Fixpoint core_op (fl : flags) (x : value) (op : string) (root : value) (p : path) {struct x} : bool :=
  let fan := fan_of fl root p in
  if is_rel_op op || String.eqb op "$ne" then negb fan || plain_scalar x
  else if String.eqb op "$in" || String.eqb op "$nin" then
    match x with
    | VArr vs => negb fan || forallb plain_scalar vs
    | _ => false
    end
  else if String.eqb op "$exists" then true
  else if String.eqb op "$type" then
    match type_spec x with Some _ => true | None => false end
  else if String.eqb op "$size" then
    match size_arg x with Ok _ => true | _ => false end
  else if String.eqb op "$all" then
    match x with
    | VArr vs => negb fan
    | _ => false
    end
  else if String.eqb op "$mod" then
    match mod_spec x with Some _ => true | None => false end
  else if is_bits_op op then
    match parse_bit_mask x with Ok _ => true | _ => false end
  else if String.eqb op "$not" then
    negb fan &&
    match x with
    | VDoc [] => false
    | VDoc exps =>
        (fix go (exps : list (string * value)) : bool :=
           match exps with
           | [] => true
           | (k, y) :: t => is_op k && core_op fl y k root p && go t
           end) exps
    | _ => false
    end
  else if String.eqb op "$elemMatch" then
    negb fan &&
    match x with
    | VDoc [] => false
    | VDoc q =>
        forallb
          (fun c =>
             match c with
             | VArr es =>
                 forallb
                   (fun e =>
                      (fix go (q : list (string * value)) : bool :=
                         match q with
                         | [] => true
                         | (k, y) :: t =>
                             (if is_op k then core_op fl y k (elem_root e) elem_path
                              else core_field (fan_of fl) (core_op fl) y (elem_root e) (elem_path ++ split_path k)) && go t
                         end) q) es
             | _ => true
             end) (rlookup root p)
    | _ => false
    end
  else false.

Fixpoint core_top (fl : flags) (x : value) (k : string) (root : value) {struct x} : bool :=
  if is_op k then
    let sub (item : value) : bool :=
      match item with
      | VDoc q =>
          (fix go (q : list (string * value)) : bool :=
             match q with
             | [] => true
             | (k', y) :: t => core_top fl y k' root && go t
             end) q
      | _ => false
      end in
    match x with
    | VArr [] => false
    | VArr items =>
        (String.eqb k "$and" || String.eqb k "$or" || String.eqb k "$nor") &&
        (fix all (l : list value) : bool :=
           match l with [] => true | i :: t => sub i && all t end) items
    | _ => false
    end
  else core_field (fan_of fl) (core_op fl) x root (split_path k).

Definition core_filter (fl : flags) (root : value) (f : doc) : bool :=
  (fix go (q : list (string * value)) : bool :=
     match q with
     | [] => true
     | (k, y) :: t => core_top fl y k root && go t
     end) f.

Definition coreb_gen (fl : flags) (d f : doc) : bool :=
  d1 (VDoc d) && d3 (VDoc d) && core_filter fl (VDoc d) f.

(* the property's domain D1-D4 = the domain of match_ref *)
Definition coreb (d f : doc) : bool := coreb_gen strict d f.
Definition core (d f : doc) : Prop := coreb d f = true.
Definition core_covered (d f : doc) : Prop := core d f.
Definition domainb (d f : doc) : bool := coreb d f.

(* where a pair lies: in the domain, or outside.  (DFinding is the class of a
   recorded defect of lungo inside the domain; none is left.) *)
Inductive dclass : Type := DCore | DFinding (signature : string) | DOutside.

Definition domain_class (d f : doc) : dclass :=
  if coreb d f then DCore else DOutside.
