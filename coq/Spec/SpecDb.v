(* SpecDb.v — the plain sequential reference model of C01: per collection a
   list of documents in insertion order plus index DEFINITIONS.  No document
   identities, no index entries, no change log, no copy-on-write.  Uniqueness
   is decided by scanning the documents.  The operator semantics (Match,
   Apply, Extract, Project) are the same parameters as in the implementation
   model: they are C10 / C11 / C14's business; C01 is about everything around
   them. *)
From Lungo.Model Require Import Driver.
Open Scope Z_scope.
Local Open Scope list_scope.

Record sdef : Type := mkDef { d_name : string; d_config : iconfig; d_cols : list column }.

Record scoll : Type := mkSColl {
  sc_docs : list doc;          (* insertion order; replace/update keep the slot *)
  sc_defs : list sdef          (* index definitions, creation order *)
}.

Record sstate : Type := mkS {
  ss_colls : list (handle * scoll);
  ss_oid : Z                   (* ObjectIDs generated so far *)
}.

Definition s_init : sstate := mkS [] 1.

Fixpoint sc_get (l : list (handle * scoll)) (h : handle) : option scoll :=
  match l with
  | [] => None
  | (k, c) :: t => if handle_eqb k h then Some c else sc_get t h
  end.

Fixpoint sc_set (l : list (handle * scoll)) (h : handle) (c : scoll) : list (handle * scoll) :=
  match l with
  | [] => [(h, c)]
  | (k, d) :: t => if handle_eqb k h then (h, c) :: t else (k, d) :: sc_set t h c
  end.

Definition id_def : sdef := mkDef "_id_" id_config [("_id", false)].
Definition new_scoll : scoll := mkSColl [] [id_def].

Section Spec.
  Variable matchf : doc -> doc -> res bool.
  Variable applyf : doc -> doc -> doc -> bool -> list doc -> Z -> res (doc * list (string * value)).
  Variable extractf : doc -> res doc.
  Variable projectf : doc -> doc -> res doc.
  Variable now : Z.

  (* ---------------------------------------------------------------- *)
  (* uniqueness by scanning *)

  Definition def_covers (df : sdef) (d : doc) : res bool :=
    match cf_partial (d_config df) with
    | None => Ok true
    | Some f => matchf d f
    end.

  Definition shares_key (df : sdef) (d e : doc) : bool :=
    existsb (fun t => existsb (tuple_eq t) (tuples (d_cols df) e)) (tuples (d_cols df) d).

  (* may document d join the documents `others` under definition df?
     None = yes; Some e = rejected with error kind e *)
  Definition def_admits (df : sdef) (others : list doc) (d : doc) : option ekind :=
    match def_covers df d with
    | Ok false => None
    | Ok true =>
        if cf_unique (d_config df) &&
           existsb (fun e => match def_covers df e with
                             | Ok true => shares_key df d e
                             | _ => false
                             end) others
        then Some EDup else None
    | r => Some (ekind_of_res r)
    end.

  Fixpoint admits (defs : list sdef) (others : list doc) (d : doc) : option ekind :=
    match defs with
    | [] => None
    | df :: t => match def_admits df others d with
                 | Some e => Some e
                 | None => admits t others d
                 end
    end.

  (* removing a document asks every definition's partial filter about it *)
  Fixpoint removable (defs : list sdef) (d : doc) : option ekind :=
    match defs with
    | [] => None
    | df :: t => match def_covers df d with
                 | Ok _ => removable t d
                 | r => Some (ekind_of_res r)
                 end
    end.

  (* ---------------------------------------------------------------- *)
  (* find: window of the stable sort of the matching documents; documents are
     tagged with their position so that duplicates stay distinguishable *)

  Fixpoint number {A} (l : list A) (n : Z) : list (Z * A) :=
    match l with [] => [] | x :: t => (n, x) :: number t (n + 1) end.

  Definition s_find (docs : list doc) (q : doc) (sort : option doc) (skip limit : Z) : res (list (Z * doc)) :=
    find_list matchf (number docs 0) q sort skip limit.

  Fixpoint replace_at {A} (l : list A) (i : Z) (x : A) : list A :=
    match l with
    | [] => []
    | y :: t => if i =? 0 then x :: t else y :: replace_at t (i - 1) x
    end.

  Fixpoint remove_at {A} (l : list A) (i : Z) : list A :=
    match l with
    | [] => []
    | y :: t => if i =? 0 then t else y :: remove_at t (i - 1)
    end.

  Definition without (docs : list doc) (positions : list Z) : list doc :=
    map snd (filter (fun nd => negb (existsb (Z.eqb (fst nd)) positions)) (number docs 0)).

  (* ---------------------------------------------------------------- *)
  (* single-collection operations: result + new collection, or an error that
     leaves the collection as it was *)

  Record sresult : Type := mkSR {
    sr_matched : list doc;
    sr_modified : list doc;
    sr_upserted : option doc
  }.
  Definition sr_empty : sresult := mkSR [] [] None.

  Definition s_insert (c : scoll) (d : doc) (oid : value) : (scoll * sresult) + ekind :=
    match ensure_id d oid with
    | Ok d' =>
        match admits (sc_defs c) (sc_docs c) d' with
        | Some e => inr e
        | None => inl (mkSColl (sc_docs c ++ [d']) (sc_defs c), mkSR [] [d'] None)
        end
    | r => inr (ekind_of_res r)
    end.

  Definition s_replace (c : scoll) (q repl : doc) (sort : option doc) : (scoll * sresult) + ekind :=
    match s_find (sc_docs c) q sort 0 1 with
    | Ok [] => inl (c, sr_empty)
    | Ok ((i, old) :: _) =>
        let rid := Get repl "_id" in
        let prepared :=
          if is_missing rid then bind (Put repl "_id" (Get old "_id") true) (fun r => Ok (snd r))
          else if value_eqb rid (Get old "_id") then Ok repl else Err in
        match prepared with
        | Ok repl' =>
            match removable (sc_defs c) old with
            | Some e => inr e
            | None =>
                match admits (sc_defs c) (without (sc_docs c) [i]) repl' with
                | Some e => inr e
                | None =>
                    inl (mkSColl (replace_at (sc_docs c) i repl') (sc_defs c),
                         mkSR [old] (if value_eqb (VDoc old) (VDoc repl') then [] else [repl']) None)
                end
            end
        | r => inr (ekind_of_res r)
        end
    | r => inr (ekind_of_res r)
    end.

  Fixpoint s_apply_all (l : list (Z * doc)) (q u : doc) (afs : list doc) : res (list (Z * doc)) :=
    match l with
    | [] => Ok []
    | (i, d) :: t =>
        let* r := applyf d q u false afs now in
        let* rest := s_apply_all t q u afs in
        Ok ((i, fst r) :: rest)
    end.

  Fixpoint removable_all (defs : list sdef) (l : list (Z * doc)) : option ekind :=
    match l with
    | [] => None
    | (_, d) :: t => match removable defs d with Some e => Some e | None => removable_all defs t end
    end.

  (* add the updated documents one after the other to the untouched ones *)
  Fixpoint admit_all (defs : list sdef) (others : list doc) (l : list (Z * doc)) : option ekind :=
    match l with
    | [] => None
    | (_, d) :: t => match admits defs others d with
                     | Some e => Some e
                     | None => admit_all defs (others ++ [d]) t
                     end
    end.

  Fixpoint replace_all_at (docs : list doc) (l : list (Z * doc)) : list doc :=
    match l with
    | [] => docs
    | (i, d) :: t => replace_all_at (replace_at docs i d) t
    end.

  Fixpoint s_ids_unchanged (old new : list (Z * doc)) : bool :=
    match old, new with
    | (_, o) :: old', (_, n) :: new' => value_eqb (Get n "_id") (Get o "_id") && s_ids_unchanged old' new'
    | _, _ => true
    end.

  Fixpoint s_modified (old new : list (Z * doc)) : list doc :=
    match old, new with
    | (_, o) :: old', (_, n) :: new' =>
        if value_eqb (VDoc o) (VDoc n) then s_modified old' new' else n :: s_modified old' new'
    | _, _ => []
    end.

  Definition s_update (c : scoll) (q u : doc) (sort : option doc) (skip limit : Z) (afs : list doc)
    : (scoll * sresult) + ekind :=
    match s_find (sc_docs c) q sort skip limit with
    | Ok [] => inl (c, sr_empty)
    | Ok matched =>
        match s_apply_all matched q u afs with
        | Ok newl =>
            if negb (s_ids_unchanged matched newl) then inr EErr
            else
              match removable_all (sc_defs c) matched with
              | Some e => inr e
              | None =>
                  match admit_all (sc_defs c) (without (sc_docs c) (map fst matched)) newl with
                  | Some e => inr e
                  | None =>
                      inl (mkSColl (replace_all_at (sc_docs c) newl) (sc_defs c),
                           mkSR (map snd matched) (s_modified matched newl) None)
                  end
              end
        | r => inr (ekind_of_res r)
        end
    | r => inr (ekind_of_res r)
    end.

  Definition s_upsert (c : scoll) (q : doc) (repl update : option doc) (afs : list doc) (oid : value)
    : (scoll * sresult) + ekind :=
    match bind (upsert_doc applyf extractf q repl update afs now) (fun d2 => ensure_id d2 oid) with
    | Ok d3 =>
        match admits (sc_defs c) (sc_docs c) d3 with
        | Some e => inr e
        | None => inl (mkSColl (sc_docs c ++ [d3]) (sc_defs c), mkSR [] [] (Some d3))
        end
    | r => inr (ekind_of_res r)
    end.

  Definition s_delete (c : scoll) (q : doc) (sort : option doc) (skip limit : Z) : (scoll * sresult) + ekind :=
    match s_find (sc_docs c) q sort skip limit with
    | Ok matched =>
        match removable_all (sc_defs c) matched with
        | Some e => inr e
        | None => inl (mkSColl (without (sc_docs c) (map fst matched)) (sc_defs c), mkSR (map snd matched) [] None)
        end
    | r => inr (ekind_of_res r)
    end.

  (* an index may be built iff the documents, added one by one, are admitted *)
  Fixpoint buildable (df : sdef) (seen rest : list doc) : option ekind :=
    match rest with
    | [] => None
    | d :: t => match def_admits df seen d with
                | Some e => Some e
                | None => buildable df (seen ++ [d]) t
                end
    end.

  Definition s_create_index (c : scoll) (name : string) (cf : iconfig) : (scoll * string) + ekind :=
    let named : res string := match name with EmptyString => config_name cf | _ => Ok name end in
    match named with
    | Ok n =>
        match filter (fun df => String.eqb (d_name df) n) (sc_defs c) with
        | df :: _ => if config_equal cf (d_config df) then inl (c, n) else inr EErr
        | [] =>
            if existsb (fun df => match compare (VDoc (cf_key cf)) (VDoc (cf_key (d_config df))) with
                                  | Eq => true | _ => false end) (sc_defs c)
            then inr EErr
            else
              match new_index cf with
              | Ok ix =>
                  let df := mkDef n cf (ix_cols ix) in
                  match buildable df [] (sc_docs c) with
                  | Some e => inr e
                  | None => inl (mkSColl (sc_docs c) (sc_defs c ++ [df]), n)
                  end
              | r => inr (ekind_of_res r)
              end
        end
    | r => inr (ekind_of_res r)
    end.

  Definition s_drop_index (c : scoll) (name : string) : scoll + ekind :=
    match name with
    | EmptyString => inl (mkSColl (sc_docs c) (filter (fun df => String.eqb (d_name df) "_id_") (sc_defs c)))
    | _ =>
        if String.eqb name "_id_" then inr EErr
        else if existsb (fun df => String.eqb (d_name df) name) (sc_defs c)
             then inl (mkSColl (sc_docs c) (filter (fun df => negb (String.eqb (d_name df) name)) (sc_defs c)))
             else inr EErr
    end.

  (* ---------------------------------------------------------------- *)
  (* the API calls (no sessions: every call is its own transaction) *)

  Definition s_valid (h : handle) : bool := valid_handle h true && negb (is_local h).

  Definition coll_or_new (s : sstate) (h : handle) : scoll :=
    match sc_get (ss_colls s) h with Some c => c | None => new_scoll end.

  Definition gen_count (d : doc) : Z := if is_missing (Get d "_id") then 1 else 0.

  Definition s_project (proj : option doc) (d : doc) : res doc :=
    match proj with Some p => projectf d p | None => Ok d end.

  Definition s_reply_doc (proj : option doc) (d : option doc) : reply :=
    match d with
    | None => RDoc None
    | Some dd => match s_project proj dd with Ok p => RDoc (Some p) | r => RErr (ekind_of_res r) end
    end.

  Definition s_pick (sr : sresult) (after : bool) : option doc :=
    match sr_upserted sr with
    | Some d => if after then Some d else None
    | None =>
        match sr_matched sr with
        | m :: _ => if after then match sr_modified sr with n :: _ => Some n | [] => Some m end else Some m
        | [] => None
        end
    end.

  Definition s_upd_reply (sr : sresult) : reply :=
    match sr_upserted sr with
    | Some d => RUpdate 0 0 1 (Get d "_id")
    | None => RUpdate (len (sr_matched sr)) (len (sr_modified sr)) 0 VNull
    end.

  (* update / replace with the upsert fall-back; returns the number of
     ObjectIDs generated as well (every NewObjectID() call counts) *)
  Definition s_update_or_upsert (s : sstate) (h : handle) (q u : doc) (sort : option doc)
             (skip limit : Z) (upsert : bool) (afs : list doc) : sstate * ((sresult) + ekind) :=
    if negb (s_valid h) then (s, inr EErr)
    else
      match sc_get (ss_colls s) h, upsert with
      | None, false => (s, inl sr_empty)
      | _, _ =>
          let c := coll_or_new s h in
          match s_update c q u sort skip limit afs with
          | inr e => (s, inr e)
          | inl (c', sr) =>
              match sr_matched sr, upsert with
              | [], true =>
                  let used := if upsert_generates applyf extractf q None (Some u) afs now then 1 else 0 in
                  match s_upsert c' q None (Some u) afs (gen_oid (ss_oid s)) with
                  | inl (c'', sr') => (mkS (sc_set (ss_colls s) h c'') (ss_oid s + used), inl sr')
                  | inr e => (mkS (ss_colls s) (ss_oid s + used), inr e)
                  end
              | _, _ =>
                  match sr_modified sr with
                  | [] => (s, inl sr)      (* nothing modified: the collection is not even created *)
                  | _ => (mkS (sc_set (ss_colls s) h c') (ss_oid s), inl sr)
                  end
              end
          end
      end.

  Definition s_replace_or_upsert (s : sstate) (h : handle) (q repl : doc) (sort : option doc)
             (upsert : bool) : sstate * (sresult + ekind) :=
    if negb (s_valid h) then (s, inr EErr)
    else
      match sc_get (ss_colls s) h, upsert with
      | None, false => (s, inl sr_empty)
      | _, _ =>
          let c := coll_or_new s h in
          match s_replace c q repl sort with
          | inr e => (s, inr e)
          | inl (c', sr) =>
              match sr_matched sr, upsert with
              | [], true =>
                  let used := if upsert_generates applyf extractf q (Some repl) None [] now then 1 else 0 in
                  match s_upsert c' q (Some repl) None [] (gen_oid (ss_oid s)) with
                  | inl (c'', sr') => (mkS (sc_set (ss_colls s) h c'') (ss_oid s + used), inl sr')
                  | inr e => (mkS (ss_colls s) (ss_oid s + used), inr e)
                  end
              | _, _ =>
                  match sr_modified sr with
                  | [] => (s, inl sr)
                  | _ => (mkS (sc_set (ss_colls s) h c') (ss_oid s), inl sr)
                  end
              end
          end
      end.

  Definition s_delete_call (s : sstate) (h : handle) (q : doc) (sort : option doc) (skip limit : Z)
    : sstate * (sresult + ekind) :=
    if negb (s_valid h) then (s, inr EErr)
    else
      match sc_get (ss_colls s) h with
      | None => (s, inl sr_empty)
      | Some c =>
          match s_delete c q sort skip limit with
          | inr e => (s, inr e)
          | inl (c', sr) =>
              match sr_matched sr with
              | [] => (s, inl sr)
              | _ => (mkS (sc_set (ss_colls s) h c') (ss_oid s), inl sr)
              end
          end
      end.

  (* one insert as its own step: a failing item changes nothing but counts its
     generated ObjectID *)
  Definition s_insert1 (s : sstate) (h : handle) (d : doc) : sstate * (doc + ekind) :=
    let c := coll_or_new s h in
    match s_insert c d (gen_oid (ss_oid s)) with
    | inl (c', sr) =>
        (mkS (sc_set (ss_colls s) h c') (ss_oid s + gen_count d),
         match sr_modified sr with x :: _ => inl x | [] => inr EErr end)
    | inr e => (mkS (ss_colls s) (ss_oid s + gen_count d), inr e)
    end.

  Fixpoint s_insert_many (s : sstate) (h : handle) (l : list doc) (ordered : bool)
    : sstate * list doc * option ekind :=
    match l with
    | [] => (s, [], None)
    | d :: t =>
        match s_insert1 s h d with
        | (s1, inl x) => let '(s2, acc, err) := s_insert_many s1 h t ordered in (s2, x :: acc, err)
        | (s1, inr e) =>
            if ordered then (s1, [], Some e)
            else let '(s2, acc, err) := s_insert_many s1 h t ordered in (s2, acc, Some e)
        end
    end.

  Definition read_docs (s : sstate) (h : handle) : option (list doc) :=
    option_map sc_docs (sc_get (ss_colls s) h).

  Definition s_read (s : sstate) (h : handle) (q : doc) (sort : option doc) (skip limit : Z)
    : (list doc) + ekind :=
    if negb (valid_handle h true) then inr EErr
    else
      match read_docs s h with
      | None => inl []
      | Some docs => match s_find docs q sort skip limit with
                     | Ok l => inl (map snd l)
                     | r => inr (ekind_of_res r)
                     end
      end.

  (* bulk-write: the sequence of its single operations, each one exactly the
     corresponding single call; `ordered` stops at the first failing item,
     otherwise every item is attempted *)
  Definition s_bulk1 (s : sstate) (h : handle) (op : bulk_op) : sstate * (sresult + ekind) :=
    match op with
    | BInsert d =>
        let '(s', r) := s_insert1 s h d in
        (s', match r with inl x => inl (mkSR [] [x] None) | inr e => inr e end)
    | BReplace f rp sort upsert => s_replace_or_upsert s h f rp sort upsert
    | BUpdate f u sort upsert skip limit afs => s_update_or_upsert s h f u sort skip limit upsert afs
    | BDelete f sort skip limit => s_delete_call s h f sort skip limit
    end.

  Fixpoint s_bulk (s : sstate) (h : handle) (ops : list bulk_op) (ordered : bool)
    : sstate * list (sresult + ekind) :=
    match ops with
    | [] => (s, [])
    | op :: t =>
        match s_bulk1 s h op with
        | (s1, inl sr) => let '(s2, rs) := s_bulk s1 h t ordered in (s2, inl sr :: rs)
        | (s1, inr e) =>
            if ordered then (s1, [inr e])
            else let '(s2, rs) := s_bulk s1 h t ordered in (s2, inr e :: rs)
        end
    end.

  (* BulkWriteResult: counts per kind of item, upserted ids and errors by item index *)
  Fixpoint s_bulk_reply (ops : list bulk_op) (rs : list (sresult + ekind)) (i : Z) (acc : reply) : reply :=
    match ops, rs, acc with
    | op :: ops', r :: rs', RBulk a b c d e u errs =>
        let acc' :=
          match r with
          | inr k => RBulk a b c d e u (errs ++ [(i, k)])
          | inl sr =>
              match op with
              | BInsert _ => RBulk (a + len (sr_modified sr)) b c d e u errs
              | BDelete _ _ _ _ => RBulk a b c (d + len (sr_matched sr)) e u errs
              | _ =>
                  match sr_upserted sr with
                  | Some x => RBulk a (b + len (sr_matched sr)) (c + len (sr_modified sr)) d (e + 1)
                                    (u ++ [(i, Get x "_id")]) errs
                  | None => RBulk a (b + len (sr_matched sr)) (c + len (sr_modified sr)) d e u errs
                  end
              end
          end in
        s_bulk_reply ops' rs' (i + 1) acc'
    | _, _, _ => acc
    end.

  Definition s_index_spec (df : sdef) : doc :=
    index_spec (d_name df, mkIndex (d_config df) (d_cols df) []).

  Definition s_step (s : sstate) (c : call) : sstate * reply :=
    match c with
    | CInsertOne _ h d =>
        if negb (s_valid h) then (s, RErr EErr)
        else let '(s', r) := s_insert1 s h d in
             (s', match r with inl x => RId (Get x "_id") | inr e => RErr e end)
    | CInsertMany _ h l ordered =>
        if negb (s_valid h) then (s, RErr EErr)
        else let '(s', acc, err) := s_insert_many s h l ordered in
             (s', RMany (map (fun x => Get x "_id") acc) err)
    | CFind _ h q sort proj skip limit =>
        (s, match s_read s h q sort skip limit with
            | inr e => RErr e
            | inl l => match mapM (s_project proj) l with Ok l' => RDocs l' | r => RErr (ekind_of_res r) end
            end)
    | CFindOne _ h q sort proj skip =>
        (s, match s_read s h q sort skip 1 with
            | inr e => RErr e
            | inl [] => RDoc None
            | inl l => match mapM (s_project proj) l with
                       | Ok (p :: _) => RDoc (Some p)
                       | Ok [] => RDoc None
                       | r => RErr (ekind_of_res r)
                       end
            end)
    | CCount _ h q skip limit =>
        (s, match s_read s h q None skip limit with inr e => RErr e | inl l => RCount (len l) end)
    | CDistinct _ h field q =>
        (s, match s_read s h q None 0 0 with inr e => RErr e | inl l => RVals (distinct l field) end)
    | CUpdate _ h many q u upsert afs =>
        let '(s', r) := s_update_or_upsert s h q u None 0 (if many then 0 else 1) upsert afs in
        (s', match r with inr e => RErr e | inl sr => s_upd_reply sr end)
    | CReplace _ h q repl upsert =>
        if first_key_dollar repl then (s, RErr EErr)
        else let '(s', r) := s_replace_or_upsert s h q repl None upsert in
             (s', match r with inr e => RErr e | inl sr => s_upd_reply sr end)
    | CDelete _ h many q =>
        let '(s', r) := s_delete_call s h q None 0 (if many then 0 else 1) in
        (s', match r with inr e => RErr e | inl sr => RDelete (len (sr_matched sr)) end)
    | CFindOneAndUpdate _ h q u sort proj upsert after afs =>
        let '(s', r) := s_update_or_upsert s h q u sort 0 1 upsert afs in
        match r with
        | inr e => (s', RErr e)
        | inl sr => match s_reply_doc proj (s_pick sr after) with
                    | RErr e => (mkS (ss_colls s) (ss_oid s'), RErr e)   (* a failing projection aborts the write *)
                    | rp => (s', rp)
                    end
        end
    | CFindOneAndReplace _ h q repl sort proj upsert after =>
        if first_key_dollar repl then (s, RErr EErr)
        else
          let '(s', r) := s_replace_or_upsert s h q repl sort upsert in
          match r with
          | inr e => (s', RErr e)
          | inl sr => match s_reply_doc proj (s_pick sr after) with
                      | RErr e => (mkS (ss_colls s) (ss_oid s'), RErr e)
                      | rp => (s', rp)
                      end
          end
    | CFindOneAndDelete _ h q sort proj =>
        let '(s', r) := s_delete_call s h q sort 0 1 in
        match r with
        | inr e => (s', RErr e)
        | inl sr => match s_reply_doc proj (match sr_matched sr with m :: _ => Some m | [] => None end) with
                    | RErr e => (mkS (ss_colls s) (ss_oid s'), RErr e)
                    | rp => (s', rp)
                    end
        end
    | CCreateIndex _ h name key unique partial expire_s =>
        if negb (s_valid h) then (s, RErr EErr)
        else
          match s_create_index (coll_or_new s h) name (mkConfig key unique partial (expiry_ns expire_s)) with
          | inl (c', n) => (mkS (sc_set (ss_colls s) h c') (ss_oid s), RName n)
          | inr e => (s, RErr e)
          end
    | CDropIndex _ h name =>
        if negb (s_valid h) then (s, RErr EErr)
        else match sc_get (ss_colls s) h with
             | None => (s, RErr EErr)
             | Some c => match s_drop_index c name with
                         | inl c' => (mkS (sc_set (ss_colls s) h c') (ss_oid s), ROk)
                         | inr e => (s, RErr e)
                         end
             end
    | CDropAllIndexes _ h =>
        if negb (s_valid h) then (s, RErr EErr)
        else match sc_get (ss_colls s) h with
             | None => (s, RErr EErr)
             | Some c => match s_drop_index c "" with
                         | inl c' => (mkS (sc_set (ss_colls s) h c') (ss_oid s), ROk)
                         | inr e => (s, RErr e)
                         end
             end
    | CListIndexes _ h =>
        (s, if negb (valid_handle h true) then RErr EErr
            else match sc_get (ss_colls s) h with
                 | None => RDocs []
                 | Some c => RDocs (stable_sort (fun a b => order a b [("name", false)]) (map s_index_spec (sc_defs c)))
                 end)
    | CDropColl _ h =>
        if negb (valid_handle h false) || is_local h then (s, RErr EErr)
        else (mkS (filter (fun kc => negb (drop_matches h (fst kc))) (ss_colls s)) (ss_oid s), ROk)
    | CDropDb _ db =>
        if negb (valid_handle (db, "") false) || is_local (db, "") then (s, RErr EErr)
        else (mkS (filter (fun kc => negb (drop_matches (db, "") (fst kc))) (ss_colls s)) (ss_oid s), ROk)
    | CBulk _ h ops ordered =>
        if existsb (fun op => match op with BReplace _ rp _ _ => first_key_dollar rp | _ => false end) ops
        then (s, RErr EErr)
        else if negb (s_valid h) then (s, RErr EErr)
        else let '(s', rs) := s_bulk s h ops ordered in
             (s', s_bulk_reply ops rs 0 (RBulk 0 0 0 0 0 [] []))
    | _ => (s, RErr EUnmodelled)      (* sessions, maintenance: not part of the reference *)
    end.

End Spec.
