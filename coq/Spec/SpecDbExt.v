(* SpecDbExt.v — the reference model (SpecDb.v: documents in insertion order +
   index definitions) for the catalog-level calls of Model/DriverExt.v:
   CreateCollection adds an empty collection with its _id definition if none
   exists, ListCollections lists the collections of a database, CreateMany is
   a loop of CreateIndex.  ListDatabases is not part of the reference (the
   reference has no oplog, and `local` is a database); what it returns is
   stated directly against the catalog (C01_list_databases_exact). *)
From Coq Require Import List ZArith String Bool.
From Lungo.Model Require Import Driver DriverExt.
From Lungo.Spec Require Import SpecDb.
Import ListNotations.
Open Scope Z_scope.
Local Open Scope list_scope.

Section SpecExt.
  Variable matchf : doc -> doc -> res bool.
  Variable applyf : doc -> doc -> doc -> bool -> list doc -> Z -> res (doc * list (string * value)).
  Variable extractf : doc -> res doc.
  Variable projectf : doc -> doc -> res doc.
  Variable now : Z.

  Notation s_step := (s_step matchf applyf extractf projectf now).

  Definition s_list_collections (s : sstate) (db : string) (q : doc) : list doc + ekind :=
    if negb (valid_handle (db, ""%string) false) then inr EErr
    else filter_sorted matchf (map (fun hc => coll_spec (fst hc))
                                   (filter (fun hc => String.eqb (fst (fst hc)) db) (ss_colls s))) q.

  Fixpoint s_create_many (s : sstate) (sid : Z) (h : handle) (specs : list ispec) (acc : list string)
    : sstate * xreply :=
    match specs with
    | [] => (s, XNames acc None)
    | sp :: t =>
        let '(s', r) := s_step s (create_index_call sid h sp) in
        match r with
        | RName n => s_create_many s' sid h t (acc ++ [n])
        | RErr e => (s', XNames acc (Some e))
        | _ => (s', XNames acc (Some EErr))
        end
    end.

  Definition xs_step (s : sstate) (x : xcall) : sstate * xreply :=
    match x with
    | XBase c => let '(s', r) := s_step s c in (s', XR r)
    | XCreateColl _ h =>
        if negb (s_valid h) then (s, XR (RErr EErr))
        else match sc_get (ss_colls s) h with
             | Some _ => (s, XR ROk)
             | None => (mkS (sc_set (ss_colls s) h new_scoll) (ss_oid s), XR ROk)
             end
    | XListColls _ db q =>
        (s, XR (match s_list_collections s db q with inr e => RErr e | inl l => RDocs l end))
    | XListDbs _ _ => (s, XR (RErr EUnmodelled))
    | XCreateMany sid h specs => s_create_many s sid h specs []
    end.

  Fixpoint xs_run (s : sstate) (xs : list xcall) : sstate * list xreply :=
    match xs with
    | [] => (s, [])
    | x :: t =>
        let '(s1, r) := xs_step s x in
        let '(s2, rs) := xs_run s1 t in
        (s2, r :: rs)
    end.
End SpecExt.
