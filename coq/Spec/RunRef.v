(* RunRef.v — runner of family `matchref`.  Observable:
     <Match result> -                     outside the property's domain D1-D4
     <Match result> <T|F> core            in `core`: the REFERENCE truth value
     <Match result> <T|F> <signature>     in D1-D4, in the finding class <signature>
   The Go side prints what the real mongokit.Match returns, the truth value of
   its own rendering of the reference semantics (harness/ref_match.go) and its
   own classification; agreement ties the Go reference (used by the model-free
   oracle `reference`) to Spec/RefMatch.v. *)
From Lungo.Model Require Import Match RunMatch.
From Lungo.Spec Require Import RefMatch.
Open Scope string_scope.

Definition show_res (r : res bool) : string :=
  match r with
  | Ok true => "T"
  | Ok false => "F"
  | Err => "ERR"
  | Panic => "PANIC"
  | OutOfFuel => "OUT-OF-FUEL"
  | Unmodelled => "UNMODELLED-DYNAMIC"
  end.

Definition run_matchref (x : sexp) : option string :=
  match x with
  | SList [SAtom "matchref"; d; f] =>
      match doc_of_sexp d, doc_of_sexp f with
      | Some d', Some f' =>
          if unmodelled_syn (VDoc d') (VDoc f') then Some "UNMODELLED"
          else
            let m := show_res (Match d' f') in
            let r := if holds d' f' then "T" else "F" in
            match domain_class d' f' with
            | DOutside => Some (m ++ " -")
            | DCore => Some (m ++ " " ++ r ++ " core")
            | DFinding sig => Some (m ++ " " ++ r ++ " " ++ sig)
            end
      | _, _ => Some "BAD-CASE"
      end
  | SList [SAtom "iscore"; d; f] =>
      match doc_of_sexp d, doc_of_sexp f with
      | Some d', Some f' =>
          Some (match domain_class d' f' with DOutside => "OUTSIDE" | DCore => "CORE" | DFinding sig => sig end)
      | _, _ => Some "BAD-CASE"
      end
  | _ => None
  end.
