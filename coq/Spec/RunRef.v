(* RunRef.v — runner of family `matchref`: on the core domain the observable
   is the REFERENCE truth value (Spec/RefMatch.holds), elsewhere the model's
   own Match result; the Go side prints what the real mongokit.Match returns.
   Agreement of the two therefore tests, on the real code, the statement of
   match_ref: core d f -> Match d f = Ok (holds d f). *)
From Lungo.Model Require Import Match RunMatch.
From Lungo.Spec Require Import RefMatch.
Open Scope string_scope.

Definition show_res (r : res bool) : string :=
  match r with
  | Ok true => "T"
  | Ok false => "F"
  | Err => "ERR"
  | Panic => "PANIC"
  | OutOfFuel => "OUT-OF-FUEL"
  | Unmodelled => "UNMODELLED-DYNAMIC"
  end.

Definition run_matchref (x : sexp) : option string :=
  match x with
  | SList [SAtom "matchref"; d; f] =>
      match doc_of_sexp d, doc_of_sexp f with
      | Some d', Some f' =>
          if unmodelled_syn (VDoc d') (VDoc f') then Some "UNMODELLED"
          else if coreb d' f' then Some (if holds d' f' then "T" else "F")
          else Some (show_res (Match d' f'))
      | _, _ => Some "BAD-CASE"
      end
  | SList [SAtom "iscore"; d; f] =>
      match doc_of_sexp d, doc_of_sexp f with
      | Some d', Some f' => Some (if coreb d' f' then "CORE" else "NONCORE")
      | _, _ => Some "BAD-CASE"
      end
  | _ => None
  end.
