(* Spec/RefUpdate.v — reference semantics of the array update operators and of
   $rename, written from the MongoDB manual as declarative statements about
   the result (not as the algorithm of lungo).  Proofs/RefUpdateProofs.v shows
   that the model of mongokit.Apply meets them on plain paths. *)
From Coq Require Import List ZArith Permutation Sorted.
From Lungo.Model Require Import Apply.
Import ListNotations.
Open Scope Z_scope.

(* BSON equality as used by the array operators: Compare == 0 *)
Definition bson_eq (a b : value) : Prop := compare a b = Eq.

(* $addToSet: `res` is `arr` followed by exactly those of `vals` that are not
   BSON-equal to an element already present, each once, in the order given *)
Inductive add_to_set_spec (arr vals res : list value) : Prop :=
| ats_intro (added : list value) :
    res = (arr ++ added)%list ->
    (forall x, In x added -> In x vals) ->
    (forall v, In v vals -> exists x, In x res /\ bson_eq x v) ->
    (forall pre x post, added = (pre ++ x :: post)%list ->
       forall y, In y (arr ++ pre)%list -> ~ bson_eq y x) ->
    add_to_set_spec arr vals res.

(* $pull / $pullAll: `res` keeps exactly the elements that do not match, in
   their original order *)
Definition pull_spec (matches : value -> bool) (arr res : list value) : Prop :=
  res = filter (fun x => negb (matches x)) arr.

(* $push modifiers, in MongoDB's order: $position, $sort, $slice *)

(* $position: clamp into [0, len]; negative counts from the end *)
Definition ref_position (n : Z) (pos : option Z) : Z :=
  match pos with
  | None => n
  | Some p => if p <? 0 then Z.max 0 (n + p) else Z.min p n
  end.

(* $sort: a stable sort by the given order *)
Definition stable_sort_spec {A} (le : A -> A -> Prop) (l res : list A) : Prop :=
  Permutation l res /\ StronglySorted le res.

(* $slice n: first n (n >= 0) or last -n (n < 0) elements *)
Definition ref_slice (n : option Z) (l : list value) : list value :=
  match n with
  | None => l
  | Some k => if 0 <=? k then firstn (Z.to_nat k) l
              else skipn (List.length l - Z.to_nat (- k)) l
  end.

Definition ref_insert (pos : option Z) (each arr : list value) : list value :=
  let at_ := Z.to_nat (ref_position (Z.of_nat (List.length arr)) pos) in
  (firstn at_ arr ++ each ++ skipn at_ arr)%list.

(* ascending / descending whole-element order *)
Definition dir_le (dir : Z) (a b : value) : Prop :=
  if dir =? 1 then compare a b <> Gt else compare a b <> Lt.

(* $rename old -> new on a document: the value moves, the old field is gone,
   everything at paths disjoint from both is untouched *)
