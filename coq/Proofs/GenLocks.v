(* GenLocks.v — obligation G6: the "acquired while holding" graph between
   the mutex classes of engine.go / session.go / stream.go / transaction.go /
   utils.go, regenerated from /repo on every run, is acyclic.  On a tree where
   Engine.Begin calls sess.Transaction() under Engine.mutex the graph contains
   Engine.mutex -> Session.mutex -> Engine.mutex and this file stops checking. *)
From Coq Require Import List String.
From Lungo.Model Require Import Base LockOrder.
From Lungo.Gen Require Import Locks.
From Lungo.Proofs Require Import LockOrderProofs.
Import ListNotations.

Theorem gen_lock_edges_acyclic : acyclic gen_lock_edges = true.
Proof. vm_compute. reflexivity. Qed.

(* hence: a system whose threads acquire mutexes along these edges has no wait-for cycle *)
Theorem gen_lock_order_no_wait_cycle :
  forall M (cls : M -> string) (sys : list (lthread M)),
  respects cls gen_lock_edges sys ->
  forall a, ~ Relations.Relation_Operators.clos_trans_1n _ (waits_for sys) a a.
Proof. intros. eapply no_wait_cycle_thm; eauto. exact gen_lock_edges_acyclic. Qed.

(* the generated graph mentions exactly the four mutex classes *)
Theorem gen_lock_classes_ok :
  gen_lock_classes = ["Engine.mutex"; "Session.mutex"; "Stream.mutex"; "Transaction.mutex"]%string.
Proof. reflexivity. Qed.
