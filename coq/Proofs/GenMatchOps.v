(* GenMatchOps.v — obligations tying the model's operator dispatch tables to
   the registrations regenerated from /repo/mongokit/match.go init() (G2),
   and the model's alias table to /repo/bsonkit/inspect.go Type2Alias. *)
From Coq Require Import List ZArith String.
From Lungo.Model Require Import Match.
From Lungo.Gen Require Import MatchOps.
Import ListNotations.
Open Scope string_scope.

(* the model dispatches `$op` through top_table / expr_table to the model
   function named after the Go function; query_*_table are those tables with
   the Go function names *)
Theorem gen_query_top_ok : gen_query_top = query_top_table.
Proof. reflexivity. Qed.

Theorem gen_query_expr_ok : gen_query_expr = query_expr_table.
Proof. reflexivity. Qed.

(* the bsontype constants of go.mongodb.org/mongo-driver/bson/bsontype *)
Definition bsontype_byte (name : string) : Z :=
  match assoc name
    [("Double", 1); ("String", 2); ("EmbeddedDocument", 3); ("Array", 4); ("Binary", 5);
     ("Undefined", 6); ("ObjectID", 7); ("Boolean", 8); ("DateTime", 9); ("Null", 10);
     ("Regex", 11); ("DBPointer", 12); ("JavaScript", 13); ("Symbol", 14);
     ("CodeWithScope", 15); ("Int32", 16); ("Timestamp", 17); ("Int64", 18);
     ("Decimal128", 19); ("MinKey", 255); ("MaxKey", 127)]%Z with
  | Some b => b
  | None => (-1)%Z
  end.

Theorem gen_type2alias_ok :
  map (fun p => (snd p, bsontype_byte (fst p))) gen_type2alias = alias2type.
Proof. reflexivity. Qed.
