(* RefineTxn.v — transaction-level simulation for C01: every Transaction
   method of Model/Txn.v, run on a catalog whose user namespaces satisfy the
   collection invariant, agrees with the corresponding operation of
   Spec/SpecDb.v on the abstraction of the catalog (user namespaces only:
   the oplog, identities and index entries are forgotten). *)
From Coq Require Import List ZArith Lia Bool.
From Lungo.Model Require Import Driver RunSpec.
From Lungo.Spec Require Import SpecDb.
From Lungo.Proofs Require Import IndexInv CollLists CollInv CollDup TxnProofs RefineLists RefineColl.
Import ListNotations.
Open Scope Z_scope.

(* ------------------------------------------------------------------ *)
(* the abstraction of the namespace map *)

Definition user_ns (h : handle) : bool := negb (handle_eqb h oplog_handle).

Definition abs_ns (l : list (handle * coll)) : list (handle * scoll) :=
  map (fun hc => (fst hc, abs_coll (snd hc))) (filter (fun hc => user_ns (fst hc)) l).

Lemma handle_eqb_eq a b : handle_eqb a b = true <-> a = b.
Proof.
  destruct a as [a1 a2], b as [b1 b2]. unfold handle_eqb. cbn [fst snd].
  rewrite andb_true_iff, !String.eqb_eq. split.
  - intros [-> ->]. reflexivity.
  - intro H. inversion H. auto.
Qed.

Lemma handle_eqb_refl a : handle_eqb a a = true.
Proof. apply handle_eqb_eq. reflexivity. Qed.

Lemma abs_ns_cons k x t :
  abs_ns ((k, x) :: t) = if user_ns k then (k, abs_coll x) :: abs_ns t else abs_ns t.
Proof. unfold abs_ns. cbn [filter fst]. destruct (user_ns k); reflexivity. Qed.

Lemma user_neq k h : user_ns k = false -> user_ns h = true -> handle_eqb k h = false.
Proof.
  intros Hk Hh. destruct (handle_eqb k h) eqn:E; auto.
  apply handle_eqb_eq in E. subst. congruence.
Qed.

Lemma sc_get_abs l h :
  user_ns h = true -> sc_get (abs_ns l) h = option_map abs_coll (ns_get l h).
Proof.
  intro Hu. induction l as [|[k x] t IH]; [reflexivity|].
  rewrite abs_ns_cons. cbn [ns_get]. destruct (user_ns k) eqn:Uk.
  - cbn [sc_get]. destruct (handle_eqb k h); [reflexivity|exact IH].
  - rewrite (user_neq k h Uk Hu). exact IH.
Qed.

Lemma abs_ns_set l h c :
  user_ns h = true -> abs_ns (ns_set l h c) = sc_set (abs_ns l) h (abs_coll c).
Proof.
  intro Hu. induction l as [|[k x] t IH].
  - cbn [ns_set]. rewrite abs_ns_cons, Hu. reflexivity.
  - cbn [ns_set]. destruct (handle_eqb k h) eqn:E.
    + assert (Uk : user_ns k = true) by (apply handle_eqb_eq in E; subst; exact Hu).
      rewrite !abs_ns_cons, Hu, Uk. cbn [sc_set]. rewrite E. reflexivity.
    + rewrite !abs_ns_cons. destruct (user_ns k).
      * cbn [sc_set]. rewrite E, IH. reflexivity.
      * exact IH.
Qed.

Lemma abs_ns_set_sys l h c : user_ns h = false -> abs_ns (ns_set l h c) = abs_ns l.
Proof.
  intro Hu. induction l as [|[k x] t IH].
  - cbn [ns_set]. rewrite abs_ns_cons, Hu. reflexivity.
  - cbn [ns_set]. destruct (handle_eqb k h) eqn:E.
    + assert (Uk : user_ns k = false) by (apply handle_eqb_eq in E; subst; exact Hu).
      rewrite !abs_ns_cons, Hu, Uk. reflexivity.
    + rewrite !abs_ns_cons, IH. reflexivity.
Qed.

Lemma oplog_not_user : user_ns oplog_handle = false.
Proof. reflexivity. Qed.

Lemma sc_set_same l h c : sc_get l h = Some c -> sc_set l h c = l.
Proof.
  induction l as [|[k x] t IH]; [discriminate|].
  cbn [sc_get sc_set]. destruct (handle_eqb k h) eqn:E.
  - intro H. inversion H; subst. apply handle_eqb_eq in E. subst. reflexivity.
  - intro H. rewrite IH; auto.
Qed.

Lemma abs_ns_filter (p : handle -> bool) l :
  abs_ns (filter (fun kc => p (fst kc)) l) = filter (fun kc => p (fst kc)) (abs_ns l).
Proof.
  induction l as [|[k x] t IH]; [reflexivity|].
  cbn [filter fst]. destruct (p k) eqn:E.
  - rewrite !abs_ns_cons. destruct (user_ns k); [|exact IH].
    cbn [filter fst]. rewrite E, IH. reflexivity.
  - rewrite abs_ns_cons. destruct (user_ns k); [|exact IH].
    cbn [filter fst]. rewrite E. exact IH.
Qed.

Lemma filter_all {A} (p : A -> bool) l : filter p l = [] -> filter (fun x => negb (p x)) l = l.
Proof.
  induction l as [|x t IH]; [reflexivity|]. cbn [filter].
  destruct (p x); [discriminate|]. intro H. cbn [negb]. rewrite IH; auto.
Qed.

(* ------------------------------------------------------------------ *)
(* the invariant of the namespace map *)

Section Inv.
  Variable matchf : doc -> doc -> res bool.

  Definition good (n : did) (c : coll) : Prop :=
    coll_inv matchf c /\ has_id_index c /\ ids_lt c n.

  Definition ns_ok (n : did) (l : list (handle * coll)) : Prop :=
    Forall (fun hc => user_ns (fst hc) = true -> good n (snd hc)) l.

  Lemma good_mono n m c : good n c -> n <= m -> good m c.
  Proof. intros [H1 [H2 H3]] Hle. split; [|split]; auto. eapply ids_lt_mono; eauto. Qed.

  Lemma ns_ok_mono n m l : ns_ok n l -> n <= m -> ns_ok m l.
  Proof.
    intros H Hle. unfold ns_ok in *. eapply Forall_impl; [|exact H].
    intros a Ha Hu. eapply good_mono; eauto.
  Qed.

  Lemma ns_ok_get n l h c : ns_ok n l -> user_ns h = true -> ns_get l h = Some c -> good n c.
  Proof.
    intros H Hu. induction l as [|[k x] t IH]; [discriminate|].
    inversion H as [|? ? H1 H2]; subst. cbn [ns_get].
    destruct (handle_eqb k h) eqn:E.
    - intro Hg. inversion Hg; subst. apply H1. cbn [fst].
      apply handle_eqb_eq in E. subst. exact Hu.
    - apply IH. exact H2.
  Qed.

  Lemma ns_ok_set n l h c : ns_ok n l -> (user_ns h = true -> good n c) -> ns_ok n (ns_set l h c).
  Proof.
    intros H Hc. induction l as [|[k x] t IH].
    - constructor; [exact Hc|constructor].
    - inversion H as [|? ? H1 H2]; subst. cbn [ns_set].
      destruct (handle_eqb k h).
      + constructor; [exact Hc|exact H2].
      + constructor; [exact H1|]. apply IH. exact H2.
  Qed.

  Lemma ns_ok_filter n l p : ns_ok n l -> ns_ok n (filter p l).
  Proof. apply Forall_filter'. Qed.

  Lemma ns_or_new_good n c h : ns_ok n (cat_ns c) -> user_ns h = true -> good n (ns_or_new c h).
  Proof.
    intros H Hu. unfold ns_or_new. destruct (ns_get (cat_ns c) h) as [x|] eqn:E.
    - eapply ns_ok_get; eauto.
    - destruct (new_collection_inv matchf true) as [H1 [H2 H3]]. split; [|split]; auto.
  Qed.
End Inv.

Lemma coll_or_new_abs c oid h :
  user_ns h = true ->
  coll_or_new (mkS (abs_ns (cat_ns c)) oid) h = abs_coll (ns_or_new c h).
Proof.
  intro Hu. unfold coll_or_new, ns_or_new. cbn [ss_colls]. rewrite (sc_get_abs _ _ Hu).
  destruct (ns_get (cat_ns c) h); reflexivity.
Qed.

Lemma guard_valid h : guard_write h = None <-> s_valid h = true.
Proof.
  unfold guard_write, s_valid. destruct (valid_handle h true); cbn [negb andb].
  - destruct (is_local h); cbn [negb]; split; auto; discriminate.
  - split; discriminate.
Qed.

Lemma guard_some h e : guard_write h = Some e -> e = EErr /\ s_valid h = false.
Proof.
  unfold guard_write, s_valid. destruct (valid_handle h true); cbn [negb andb].
  - destruct (is_local h); cbn [negb]; intro H; inversion H; auto.
  - intro H; inversion H; auto.
Qed.

Lemma valid_user h : s_valid h = true -> user_ns h = true.
Proof.
  unfold s_valid, user_ns, is_local, handle_eqb, oplog_handle. cbn [fst snd].
  rewrite andb_true_iff. intros [_ H]. destruct (String.eqb (fst h) "local"); [discriminate|].
  reflexivity.
Qed.

(* ------------------------------------------------------------------ *)
(* relations *)

Definition tres_rel (tr : tresult) (sr : sresult) : Prop :=
  map snd (t_matched tr) = sr_matched sr /\
  map snd (t_modified tr) = sr_modified sr /\
  option_map snd (t_upserted tr) = sr_upserted sr.

Definition sum_rel {A B} (RR : A -> B -> Prop) (x : A + ekind) (y : B + ekind) : Prop :=
  match x, y with
  | inl a, inl b => RR a b
  | inr e, inr e' => e = e'
  | _, _ => False
  end.

(* the bulk items the driver API produces: no sort, no skip (collection.go
   BulkWrite builds them from the Insert/Replace/Update/Delete models) *)
Definition driver_op (op : bulk_op) : Prop :=
  match op with
  | BInsert _ => True
  | BReplace _ _ sort _ => sort = None
  | BUpdate _ _ sort _ skip _ _ => sort = None /\ skip = 0
  | BDelete _ sort skip _ => sort = None /\ skip = 0
  end.

Lemma sc_set_set l h x y : sc_set (sc_set l h x) h y = sc_set l h y.
Proof.
  induction l as [|[k z] t IH].
  - cbn [sc_set]. rewrite handle_eqb_refl. reflexivity.
  - cbn [sc_set]. destruct (handle_eqb k h) eqn:E; cbn [sc_set].
    + rewrite handle_eqb_refl. reflexivity.
    + rewrite E, IH. reflexivity.
Qed.

Lemma sc_get_set_same l h x : sc_get (sc_set l h x) h = Some x.
Proof.
  induction l as [|[k z] t IH].
  - cbn [sc_set sc_get]. rewrite handle_eqb_refl. reflexivity.
  - cbn [sc_set]. destruct (handle_eqb k h) eqn:E; cbn [sc_get].
    + rewrite handle_eqb_refl. reflexivity.
    + rewrite E. exact IH.
Qed.

Lemma ns_get_set_same l h x : ns_get (ns_set l h x) h = Some x.
Proof.
  induction l as [|[k z] t IH].
  - cbn [ns_set ns_get]. rewrite handle_eqb_refl. reflexivity.
  - cbn [ns_set]. destruct (handle_eqb k h) eqn:E; cbn [ns_get].
    + rewrite handle_eqb_refl. reflexivity.
    + rewrite E. exact IH.
Qed.

Lemma ns_get_set_other l h k x : handle_eqb h k = false -> ns_get (ns_set l h x) k = ns_get l k.
Proof.
  intro Hne. induction l as [|[j z] t IH].
  - cbn [ns_set ns_get]. rewrite Hne. reflexivity.
  - cbn [ns_set]. destruct (handle_eqb j h) eqn:E; cbn [ns_get].
    + apply handle_eqb_eq in E. subst j. rewrite Hne. reflexivity.
    + destruct (handle_eqb j k); [reflexivity|exact IH].
Qed.

Section RefineTxn.
  Set Default Proof Using "Type".
  Variable matchf : doc -> doc -> res bool.
  Variable applyf : doc -> doc -> doc -> bool -> list doc -> Z -> res (doc * list (string * value)).
  Variable extractf : doc -> res doc.
  Variable now : Z.

  Local Notation good := (good matchf).
  Local Notation ns_ok := (ns_ok matchf).
  Local Notation coll_inv := (CollInv.coll_inv matchf).

  (* the implementation's (catalog', gen', result) against the spec's
     (state', result'), starting from generators g *)
  Definition txn_rel {A B} (RR : A -> B -> Prop) (g : gen)
             (x : catalog * gen * (A + ekind)) (y : sstate * (B + ekind)) : Prop :=
    let '(c', g', r) := x in
    let '(s', r') := y in
    abs_ns (cat_ns c') = ss_colls s' /\ g_oid g' = ss_oid s' /\ sum_rel RR r r' /\
    ns_ok (g_did g') (cat_ns c') /\ g_did g <= g_did g'.

  Definition abs_cat (c : catalog) (g : gen) : sstate := mkS (abs_ns (cat_ns c)) (g_oid g).

  (* ---------------------------------------------------------------- *)
  (* the working state *)

  Lemma append_all_facts h op l : forall w chs,
    w_ns (append_all w h op l chs) = w_ns w /\
    g_oid (w_gen (append_all w h op l chs)) = g_oid (w_gen w) /\
    g_did (w_gen w) <= g_did (w_gen (append_all w h op l chs)).
  Proof.
    induction l as [|sd t IH]; intros w chs; cbn [append_all].
    - repeat split. lia.
    - unfold append_event.
      match goal with |- context [append_all ?w1 h op t ?c1] => destruct (IH w1 c1) as [H1 [H2 H3]] end.
      cbn [w_ns w_gen g_oid g_did] in H1, H2, H3. rewrite H1, H2. repeat split. lia.
  Qed.

  Lemma close_w_abs c h w :
    user_ns h = true ->
    abs_ns (cat_ns (close_w c h w)) = sc_set (abs_ns (cat_ns c)) h (abs_coll (w_ns w)).
  Proof.
    intro Hu. unfold close_w. cbn [cat_ns].
    rewrite (abs_ns_set_sys _ _ _ oplog_not_user). apply abs_ns_set. exact Hu.
  Qed.

  Lemma close_w_ok n c h w :
    ns_ok n (cat_ns c) -> good n (w_ns w) -> ns_ok n (cat_ns (close_w c h w)).
  Proof.
    intros H Hg. unfold close_w. cbn [cat_ns]. apply ns_ok_set.
    - apply ns_ok_set; auto.
    - rewrite oplog_not_user. discriminate.
  Qed.

  Lemma abs_cat_eta s c g :
    abs_ns (cat_ns c) = ss_colls s -> g_oid g = ss_oid s -> s = abs_cat c g.
  Proof. destruct s as [l o]. cbn [ss_colls ss_oid]. unfold abs_cat. intros -> ->. reflexivity. Qed.

  (* ---------------------------------------------------------------- *)
  (* Insert *)

  Lemma insert1_sim c g h d :
    ns_ok (g_did g) (cat_ns c) -> user_ns h = true ->
    let '(c1, g1, r) := insert1 matchf c g h d in
    let '(s1, r') := s_insert1 matchf (abs_cat c g) h d in
    abs_ns (cat_ns c1) = ss_colls s1 /\ g_oid g1 = ss_oid s1 /\
    ns_ok (g_did g1) (cat_ns c1) /\ g_did g <= g_did g1 /\
    match r, r' with
    | inl m, inl x => exists sd, m = [sd] /\ snd sd = x
    | inr e, inr e' => e = e' /\ c1 = c
    | _, _ => False
    end.
  Proof.
    intros Hok Hu. unfold insert1, s_insert1, t_insert, abs_cat.
    rewrite (coll_or_new_abs c (g_oid g) h Hu). cbn [open_w w_ns w_gen w_oplog w_clock ss_colls ss_oid].
    destruct (ns_or_new_good matchf _ c h Hok Hu) as [Hinv [Hid Hlt]].
    pose proof (sim_insert matchf (ns_or_new c h) (g_did g) d (gen_oid (g_oid g)) Hinv Hlt) as Hsim.
    destruct (coll_insert matchf (ns_or_new c h) (g_did g) d (gen_oid (g_oid g))) as [ns' [r|e]] eqn:Hci;
      destruct (s_insert matchf (abs_coll (ns_or_new c h)) d (gen_oid (g_oid g))) as [[sc' sr]|e'];
      cbn [out_rel] in Hsim; try contradiction.
    - destruct Hsim as [Habs [_ [Hmod _]]].
      destruct (coll_insert_inv matchf _ _ _ _ _ _ Hinv Hid Hlt Hci) as [Hinv' [Hid' Hlt']].
      destruct (coll_insert_docs matchf _ _ _ _ _ _ Hci) as [d' [_ [_ Hr]]]. subst r.
      cbn [r_modified] in *. cbn [map snd] in Hmod. rewrite <- Hmod.
      match goal with |- context [append_all ?w1 h ?op ?l ?chs] =>
        destruct (append_all_facts h op l w1 chs) as [F1 [F2 F3]];
        set (wa := append_all w1 h op l chs) in * end.
      cbn [w_ns w_gen g_oid g_did] in F1, F2, F3. cbn [t_modified ss_colls ss_oid].
      clearbody wa.
      split; [|split; [|split; [|split]]].
      + rewrite (close_w_abs c h wa Hu), F1, Habs. reflexivity.
      + rewrite F2. unfold gen_count. reflexivity.
      + apply close_w_ok.
        * eapply ns_ok_mono; [exact Hok|lia].
        * rewrite F1. apply (good_mono matchf (g_did g + 1)); [|lia]. split; [|split]; auto.
      + lia.
      + eexists. split; reflexivity.
    - subst e'. unfold gen_after_fail. cbn [ss_colls ss_oid w_gen g_oid g_did].
      split; [reflexivity|]. split; [unfold gen_count; reflexivity|]. split; [exact Hok|].
      split; [lia|]. split; reflexivity.
  Qed.

  Lemma insert_seq_sim h ordered l : forall c g,
    ns_ok (g_did g) (cat_ns c) -> user_ns h = true ->
    let '(c2, g2, acc, err) := insert_seq matchf c g h l ordered in
    let '(s2, acc', err') := s_insert_many matchf (abs_cat c g) h l ordered in
    abs_ns (cat_ns c2) = ss_colls s2 /\ g_oid g2 = ss_oid s2 /\
    ns_ok (g_did g2) (cat_ns c2) /\ g_did g <= g_did g2 /\
    map snd acc = acc' /\ err = err'.
  Proof.
    induction l as [|d t IH]; intros c g Hok Hu.
    - cbn [insert_seq s_insert_many]. unfold abs_cat. cbn [ss_colls ss_oid].
      repeat split; auto. lia.
    - cbn [insert_seq s_insert_many].
      pose proof (insert1_sim c g h d Hok Hu) as H1.
      destruct (insert1 matchf c g h d) as [[c1 g1] [m|e]];
        destruct (s_insert1 matchf (abs_cat c g) h d) as [s1 [x|e']];
        destruct H1 as [Ha [Ho [Hk [Hd Hr]]]]; try contradiction.
      + destruct Hr as [sd [-> Hx]].
        rewrite (abs_cat_eta s1 c1 g1 Ha Ho).
        specialize (IH c1 g1 Hk Hu).
        destruct (insert_seq matchf c1 g1 h t ordered) as [[[c2 g2] acc] err].
        destruct (s_insert_many matchf (abs_cat c1 g1) h t ordered) as [[s2 acc'] err'].
        destruct IH as [I1 [I2 [I3 [I4 [I5 I6]]]]].
        repeat split; auto; try lia. cbn [app map]. rewrite Hx, I5. reflexivity.
      + destruct Hr as [-> ->]. destruct ordered.
        * repeat split; auto.
        * rewrite (abs_cat_eta s1 c g1 Ha Ho).
          specialize (IH c g1 Hk Hu).
          destruct (insert_seq matchf c g1 h t false) as [[[c2 g2] acc] err].
          destruct (s_insert_many matchf (abs_cat c g1) h t false) as [[s2 acc'] err'].
          destruct IH as [I1 [I2 [I3 [I4 [I5 I6]]]]].
          repeat split; auto; try lia.
  Qed.

  (* Transaction.Insert against the fold of single inserts *)
  Theorem txn_insert_refines c g h l ordered :
    ns_ok (g_did g) (cat_ns c) ->
    let '(c', g', r) := txn_insert matchf c g h l ordered in
    if s_valid h then
      let '(s', acc', err') := s_insert_many matchf (abs_cat c g) h l ordered in
      abs_ns (cat_ns c') = ss_colls s' /\ g_oid g' = ss_oid s' /\
      ns_ok (g_did g') (cat_ns c') /\ g_did g <= g_did g' /\
      exists tr, r = inl tr /\ map snd (t_modified tr) = acc' /\ t_error tr = err'
    else c' = c /\ g' = g /\ r = inr EErr.
  Proof.
    intro Hok. destruct (guard_write h) as [e|] eqn:Hg.
    - destruct (guard_some h e Hg) as [-> Hv]. rewrite Hv.
      unfold txn_insert. rewrite Hg. auto.
    - pose proof (proj1 (guard_valid h) Hg) as Hv. rewrite Hv.
      pose proof (txn_insert_is_insert_seq matchf c g h l ordered Hg) as Hseq.
      pose proof (insert_seq_sim h ordered l c g Hok (valid_user h Hv)) as Hsim.
      destruct (insert_seq matchf c g h l ordered) as [[[c2 g2] acc] err].
      rewrite Hseq.
      destruct (s_insert_many matchf (abs_cat c g) h l ordered) as [[s2 acc'] err'].
      destruct Hsim as [I1 [I2 [I3 [I4 [I5 I6]]]]].
      repeat split; auto. eexists. split; [reflexivity|]. cbn [t_modified t_error]. auto.
  Qed.

  (* ---------------------------------------------------------------- *)
  (* small facts *)

  Lemma len_nil {A} : len (@nil A) = 0.
  Proof. reflexivity. Qed.

  Lemma len_cons_pos {A} (x : A) t : (0 <? len (x :: t)) = true.
  Proof. apply Z.ltb_lt. unfold len. cbn [List.length]. lia. Qed.

  Lemma changed_mod_nil m e : changed_mod (mkT m [] None e) = false.
  Proof. reflexivity. Qed.

  Lemma changed_mod_cons m x t u e : changed_mod (mkT m (x :: t) u e) = true.
  Proof. unfold changed_mod. cbn [t_modified]. rewrite len_cons_pos. reflexivity. Qed.

  Lemma changed_mod_ups m l sd e : changed_mod (mkT m l (Some sd) e) = true.
  Proof. unfold changed_mod. cbn [t_upserted]. apply orb_true_r. Qed.

  Lemma s_update_no_upsert sc q u sort skip limit afs sc' sr :
    s_update matchf applyf now sc q u sort skip limit afs = inl (sc', sr) -> sr_upserted sr = None.
  Proof.
    rewrite (s_update_eq matchf applyf).
    destruct (s_find matchf (sc_docs sc) q sort skip limit) as [[|x t]| | | |]; try discriminate.
    - intro H. inversion H. reflexivity.
    - unfold s_update_with.
      destruct (s_apply_all applyf now (x :: t) q u afs) as [newl| | | |]; try discriminate.
      destruct (negb (s_ids_unchanged (x :: t) newl)); try discriminate.
      destruct (removable_all matchf (sc_defs sc) (x :: t)); try discriminate.
      destruct (admit_all matchf (sc_defs sc) (without (sc_docs sc) (map fst (x :: t))) newl);
        try discriminate.
      intro H. inversion H. reflexivity.
  Qed.

  Lemma s_replace_no_upsert sc q repl sort sc' sr :
    s_replace matchf sc q repl sort = inl (sc', sr) -> sr_upserted sr = None.
  Proof.
    rewrite (s_replace_eq matchf).
    destruct (s_find matchf (sc_docs sc) q sort 0 1) as [[|[i old] t]| | | |]; try discriminate.
    - intro H. inversion H. reflexivity.
    - unfold s_replace_with.
      destruct (replace_prepared old repl) as [repl'| | | |]; try discriminate.
      destruct (removable matchf (sc_defs sc) old); try discriminate.
      destruct (admits matchf (sc_defs sc) (without (sc_docs sc) [i]) repl'); try discriminate.
      intro H. inversion H. reflexivity.
  Qed.

  (* ---------------------------------------------------------------- *)
  (* Delete *)

  Definition del_rel (tr : tresult) (sr : sresult) : Prop :=
    map snd (t_matched tr) = sr_matched sr /\ t_upserted tr = None.

  Theorem txn_delete_refines c g h q sort skip limit :
    ns_ok (g_did g) (cat_ns c) ->
    txn_rel del_rel g (txn_delete matchf c g h q sort skip limit)
            (s_delete_call matchf (abs_cat c g) h q sort skip limit).
  Proof.
    intro Hok. unfold txn_delete, s_delete_call.
    destruct (guard_write h) as [e|] eqn:Hg.
    - destruct (guard_some h e Hg) as [-> Hv]. rewrite Hv. cbn [negb].
      unfold txn_rel, abs_cat. cbn [ss_colls ss_oid sum_rel]. repeat split; auto. lia.
    - pose proof (proj1 (guard_valid h) Hg) as Hv. rewrite Hv. cbn [negb].
      pose proof (valid_user h Hv) as Hu.
      unfold abs_cat at 1. cbn [ss_colls]. rewrite (sc_get_abs _ _ Hu).
      destruct (ns_get (cat_ns c) h) as [n|] eqn:Hn; cbn [option_map].
      + destruct (ns_ok_get matchf _ _ _ _ Hok Hu Hn) as [Hinv [Hid Hlt]].
        unfold t_delete, open_w, ns_or_new. rewrite Hn. cbn [w_ns w_gen w_oplog w_clock].
        pose proof (sim_delete matchf n q sort skip limit Hinv) as Hsim.
        destruct (coll_delete matchf n q sort skip limit) as [ns' [r|e]] eqn:Hcd;
          destruct (s_delete matchf (abs_coll n) q sort skip limit) as [[sc' sr]|e'];
          cbn [out_rel] in Hsim; try contradiction.
        * destruct Hsim as [Habs [Hm _]].
          destruct (coll_delete_inv matchf _ _ _ _ _ _ _ _ Hinv Hid Hlt Hcd) as [Hinv' [Hid' Hlt']].
          match goal with |- context [append_all ?w1 h ?op ?l ?chs] =>
            destruct (append_all_facts h op l w1 chs) as [F1 [F2 F3]];
            set (wa := append_all w1 h op l chs) in * end.
          cbn [w_ns w_gen g_oid g_did] in F1, F2, F3. clearbody wa.
          unfold finish. cbn [t_matched].
          destruct (r_matched r) as [|m0 mr] eqn:Hrm.
          -- rewrite <- Hm. cbn [map]. change (0 <? len (@nil sdoc)) with false. cbv iota.
             unfold txn_rel, abs_cat. cbn [ss_colls ss_oid sum_rel]. unfold del_rel. cbn [t_matched].
             repeat split; auto. eapply ns_ok_mono; eauto.
          -- rewrite <- Hm. cbn [map]. rewrite len_cons_pos.
             unfold txn_rel, abs_cat. cbn [ss_colls ss_oid sum_rel]. unfold del_rel. cbn [t_matched].
             split; [|split; [|split; [|split]]]; auto.
             ++ rewrite (close_w_abs c h wa Hu), F1, Habs. reflexivity.
             ++ apply close_w_ok; [eapply ns_ok_mono; eauto|].
                rewrite F1. apply (good_mono matchf (g_did g)); auto. split; [|split]; auto.
        * subst e'. unfold finish, gen_after_fail, txn_rel, abs_cat.
          cbn [w_gen ss_colls ss_oid sum_rel]. repeat split; auto. lia.
      + unfold txn_rel, abs_cat. cbn [ss_colls ss_oid sum_rel]. repeat split; auto. lia.
  Qed.

  (* ---------------------------------------------------------------- *)
  (* Update (with the upsert fall-back) *)

  Definition s_upd_core (s : sstate) (h : handle) (q u : doc) (sort : option doc)
             (skip limit : Z) (upsert : bool) (afs : list doc) : sstate * (sresult + ekind) :=
    let c := coll_or_new s h in
    match s_update matchf applyf now c q u sort skip limit afs with
    | inr e => (s, inr e)
    | inl (c', sr) =>
        match sr_matched sr, upsert with
        | [], true =>
            let used := if upsert_generates applyf extractf q None (Some u) afs now then 1 else 0 in
            match s_upsert matchf applyf extractf now c' q None (Some u) afs (gen_oid (ss_oid s)) with
            | inl (c'', sr') => (mkS (sc_set (ss_colls s) h c'') (ss_oid s + used), inl sr')
            | inr e => (mkS (ss_colls s) (ss_oid s + used), inr e)
            end
        | _, _ =>
            match sr_modified sr with
            | [] => (s, inl sr)
            | _ => (mkS (sc_set (ss_colls s) h c') (ss_oid s), inl sr)
            end
        end
    end.

  Lemma s_update_or_upsert_eq s h q u sort skip limit upsert afs :
    s_update_or_upsert matchf applyf extractf now s h q u sort skip limit upsert afs =
    if negb (s_valid h) then (s, inr EErr)
    else match sc_get (ss_colls s) h with
         | None => if upsert then s_upd_core s h q u sort skip limit upsert afs else (s, inl sr_empty)
         | Some _ => s_upd_core s h q u sort skip limit upsert afs
         end.
  Proof.
    unfold s_update_or_upsert, s_upd_core. destruct (negb (s_valid h)); [reflexivity|].
    destruct (sc_get (ss_colls s) h); destruct upsert; reflexivity.
  Qed.

  Lemma upd_core_sim c g h q u sort skip limit upsert afs :
    ns_ok (g_did g) (cat_ns c) -> user_ns h = true ->
    txn_rel tres_rel g
      (finish c g h changed_mod
         (t_update matchf applyf extractf (open_w c g h) h q u sort upsert skip limit afs now))
      (s_upd_core (abs_cat c g) h q u sort skip limit upsert afs).
  Proof.
    intros Hok Hu. unfold s_upd_core, t_update, abs_cat.
    rewrite (coll_or_new_abs c (g_oid g) h Hu).
    cbn [open_w w_ns w_gen w_oplog w_clock ss_colls ss_oid].
    destruct (ns_or_new_good matchf _ c h Hok Hu) as [Hinv [Hid Hlt]].
    set (n0 := ns_or_new c h) in *.
    pose proof (sim_update matchf applyf n0 (g_did g) q u sort skip limit afs now Hinv Hlt) as Hsim.
    pose proof (s_update_no_upsert (abs_coll n0) q u sort skip limit afs) as Hnoup.
    destruct (coll_update matchf applyf n0 (g_did g) q u sort skip limit afs now) as [ns' [r|e]] eqn:Hcu;
      destruct (s_update matchf applyf now (abs_coll n0) q u sort skip limit afs) as [[sc' sr]|e'];
      cbn [out_rel] in Hsim; try contradiction.
    - destruct Hsim as [Habs [Hm [Hmd Hup]]]. specialize (Hnoup sc' sr eq_refl).
      destruct (coll_update_inv matchf applyf _ _ _ _ _ _ _ _ _ _ _ Hinv Hid Hlt Hcu)
        as [Hinv' [Hid' Hlt']].
      destruct (r_matched r) as [|m0 mr] eqn:Hrm.
      + (* nothing matched *)
        rewrite <- Hm. cbn [map].
        change (len (@nil sdoc)) with 0. rewrite Z.add_0_r. cbn [g_did g_oid].
        cbn [List.length] in Hlt'. change (Z.of_nat 0) with 0 in Hlt'. rewrite Z.add_0_r in Hlt'.
        assert (Hr : r = empty_result).
        { apply (coll_update_inl matchf applyf) in Hcu.
          destruct Hcu as [[_ [_ Hr]]|[matched [newl [chs [ixs [ixs' [_ [Hne [_ [_ [_ [_ [_ Hmm]]]]]]]]]]]]].
          - exact Hr.
          - exfalso. apply Hne. rewrite <- Hmm. exact Hrm. }
        destruct upsert.
        * (* upsert *)
          subst sc'.
          pose proof (sim_upsert matchf applyf extractf ns' (g_did g) q None (Some u) afs
                       (gen_oid (g_oid g)) now Hinv' Hlt') as Hs2.
          destruct (coll_upsert matchf applyf extractf ns' (g_did g) q None (Some u) afs
                      (gen_oid (g_oid g)) now) as [ns'' [r2|e2]] eqn:Hcup;
            destruct (s_upsert matchf applyf extractf now (abs_coll ns') q None (Some u) afs
                        (gen_oid (g_oid g))) as [[sc'' sr']|e2'];
            cbn [out_rel] in Hs2; try contradiction.
          -- destruct Hs2 as [Habs2 Hrel2].
             destruct (coll_upsert_inv matchf applyf extractf _ _ _ _ _ _ _ _ _ _ Hinv' Hid' Hlt' Hcup)
               as [Hinv2 [Hid2 Hlt2]].
             destruct (coll_upsert_docs matchf applyf extractf _ _ _ _ _ _ _ _ _ _ Hcup)
               as [d' [_ [_ Hr2]]]. subst r2. cbn [r_upserted].
             match goal with |- context [append_all ?w1 h ?op ?l ?chs] =>
               destruct (append_all_facts h op l w1 chs) as [F1 [F2 F3]];
               set (wa := append_all w1 h op l chs) in * end.
             cbn [w_ns w_gen g_oid g_did] in F1, F2, F3. clearbody wa.
             unfold finish. rewrite changed_mod_ups.
             unfold txn_rel. cbn [ss_colls ss_oid sum_rel].
             split; [|split; [|split; [|split]]].
             ++ rewrite (close_w_abs c h wa Hu), F1, Habs2. reflexivity.
             ++ rewrite F2. reflexivity.
             ++ destruct Hrel2 as [R1 [R2 R3]]. split; [|split]; assumption.
             ++ apply close_w_ok; [eapply ns_ok_mono; [exact Hok|lia]|].
                rewrite F1. apply (good_mono matchf (g_did g + 1)); [|lia]. split; [|split]; auto.
             ++ lia.
          -- subst e2'. unfold finish, gen_after_fail, txn_rel.
             cbn [w_gen ss_colls ss_oid sum_rel g_did g_oid]. repeat split; auto. lia.
        * (* no upsert: nothing happens *)
          subst r. cbn [r_modified r_upserted map option_map] in *. rewrite <- Hmd.
          unfold finish. rewrite changed_mod_nil.
          unfold txn_rel. cbn [w_gen ss_colls ss_oid sum_rel g_did g_oid].
          repeat split; auto. lia.
      + (* something matched *)
        rewrite <- Hm. cbn [map].
        match goal with |- context [append_all ?w1 h ?op ?l ?chs] =>
          destruct (append_all_facts h op l w1 chs) as [F1 [F2 F3]];
          set (wa := append_all w1 h op l chs) in * end.
        cbn [w_ns w_gen g_oid g_did] in F1, F2, F3.
        assert (Htr : tres_rel (mkT (m0 :: mr) (r_modified r) None None) sr).
        { split; [|split]; cbn [t_matched t_modified t_upserted option_map]; auto. }
        unfold finish.
        destruct (r_modified r) as [|x xs] eqn:Hrmod.
        * rewrite changed_mod_nil. rewrite <- Hmd. cbn [map].
          unfold wa. cbn [append_all w_gen].
          unfold txn_rel. cbn [ss_colls ss_oid sum_rel g_did g_oid].
          split; [|split; [|split; [|split]]]; auto.
          -- eapply ns_ok_mono; [exact Hok|]. unfold len. lia.
          -- unfold len. lia.
        * rewrite changed_mod_cons. rewrite <- Hmd. cbn [map]. clearbody wa.
          unfold txn_rel. cbn [ss_colls ss_oid sum_rel].
          split; [|split; [|split; [|split]]]; auto.
          -- rewrite (close_w_abs c h wa Hu), F1, Habs. reflexivity.
          -- apply close_w_ok; [eapply ns_ok_mono; [exact Hok|unfold len in *; lia]|].
             rewrite F1.
             apply (good_mono matchf (g_did g + Z.of_nat (List.length (m0 :: mr)))); [|unfold len in *; lia].
             split; [|split]; auto.
          -- unfold len in *. lia.
    - subst e'. unfold finish, gen_after_fail, txn_rel.
      cbn [w_gen ss_colls ss_oid sum_rel]. repeat split; auto. lia.
  Qed.

  Theorem txn_update_refines c g h q sort u skip limit upsert afs :
    ns_ok (g_did g) (cat_ns c) ->
    txn_rel tres_rel g (txn_update matchf applyf extractf c g h q sort u skip limit upsert afs now)
            (s_update_or_upsert matchf applyf extractf now (abs_cat c g) h q u sort skip limit upsert afs).
  Proof.
    intro Hok. unfold txn_update. rewrite s_update_or_upsert_eq.
    destruct (guard_write h) as [e|] eqn:Hg.
    - destruct (guard_some h e Hg) as [-> Hv]. rewrite Hv. cbn [negb].
      unfold txn_rel, abs_cat. cbn [ss_colls ss_oid sum_rel]. repeat split; auto. lia.
    - pose proof (proj1 (guard_valid h) Hg) as Hv. rewrite Hv. cbn [negb].
      pose proof (valid_user h Hv) as Hu.
      unfold abs_cat at 1. cbn [ss_colls]. rewrite (sc_get_abs _ _ Hu).
      destruct (ns_get (cat_ns c) h) as [n|]; cbn [option_map].
      + apply upd_core_sim; auto.
      + destruct upsert.
        * apply upd_core_sim; auto.
        * unfold txn_rel, abs_cat. cbn [ss_colls ss_oid sum_rel].
          repeat split; auto. lia.
  Qed.

  (* ---------------------------------------------------------------- *)
  (* Replace (with the upsert fall-back) *)

  Definition s_repl_core (s : sstate) (h : handle) (q repl : doc) (sort : option doc)
             (upsert : bool) : sstate * (sresult + ekind) :=
    let c := coll_or_new s h in
    match s_replace matchf c q repl sort with
    | inr e => (s, inr e)
    | inl (c', sr) =>
        match sr_matched sr, upsert with
        | [], true =>
            let used := if upsert_generates applyf extractf q (Some repl) None [] now then 1 else 0 in
            match s_upsert matchf applyf extractf now c' q (Some repl) None [] (gen_oid (ss_oid s)) with
            | inl (c'', sr') => (mkS (sc_set (ss_colls s) h c'') (ss_oid s + used), inl sr')
            | inr e => (mkS (ss_colls s) (ss_oid s + used), inr e)
            end
        | _, _ =>
            match sr_modified sr with
            | [] => (s, inl sr)
            | _ => (mkS (sc_set (ss_colls s) h c') (ss_oid s), inl sr)
            end
        end
    end.

  Lemma s_replace_or_upsert_eq s h q repl sort upsert :
    s_replace_or_upsert matchf applyf extractf now s h q repl sort upsert =
    if negb (s_valid h) then (s, inr EErr)
    else match sc_get (ss_colls s) h with
         | None => if upsert then s_repl_core s h q repl sort upsert else (s, inl sr_empty)
         | Some _ => s_repl_core s h q repl sort upsert
         end.
  Proof.
    unfold s_replace_or_upsert, s_repl_core. destruct (negb (s_valid h)); [reflexivity|].
    destruct (sc_get (ss_colls s) h); destruct upsert; reflexivity.
  Qed.

  Lemma repl_core_sim c g h q repl sort upsert :
    ns_ok (g_did g) (cat_ns c) -> user_ns h = true ->
    txn_rel tres_rel g
      (finish c g h changed_mod
         (t_replace matchf applyf extractf (open_w c g h) h q repl sort upsert now))
      (s_repl_core (abs_cat c g) h q repl sort upsert).
  Proof.
    intros Hok Hu. unfold s_repl_core, t_replace, abs_cat.
    rewrite (coll_or_new_abs c (g_oid g) h Hu).
    cbn [open_w w_ns w_gen w_oplog w_clock ss_colls ss_oid].
    destruct (ns_or_new_good matchf _ c h Hok Hu) as [Hinv [Hid Hlt]].
    set (n0 := ns_or_new c h) in *.
    pose proof (sim_replace matchf n0 (g_did g) q repl sort Hinv Hlt) as Hsim.
    pose proof (s_replace_no_upsert (abs_coll n0) q repl sort) as Hnoup.
    destruct (coll_replace matchf n0 (g_did g) q repl sort) as [ns' [r|e]] eqn:Hcu;
      destruct (s_replace matchf (abs_coll n0) q repl sort) as [[sc' sr]|e'];
      cbn [out_rel] in Hsim; try contradiction.
    - destruct Hsim as [Habs [Hm [Hmd Hup]]]. specialize (Hnoup sc' sr eq_refl).
      destruct (coll_replace_inv matchf _ _ _ _ _ _ _ Hinv Hid Hlt Hcu) as [Hinv' [Hid' Hlt']].
      destruct (r_matched r) as [|m0 mr] eqn:Hrm.
      + (* nothing matched *)
        rewrite <- Hm. cbn [map]. cbn [g_did g_oid].
        assert (Hr : r = empty_result).
        { apply (coll_replace_inl matchf) in Hcu.
          destruct Hcu as [[_ [_ Hr]]|[old [rest [repl' [ixs [_ [_ [_ [_ Hmm]]]]]]]]].
          - exact Hr.
          - rewrite Hmm in Hrm. discriminate. }
        destruct upsert.
        * subst sc'.
          pose proof (sim_upsert matchf applyf extractf ns' (g_did g + 1) q (Some repl) None []
                       (gen_oid (g_oid g)) now Hinv' Hlt') as Hs2.
          destruct (coll_upsert matchf applyf extractf ns' (g_did g + 1) q (Some repl) None []
                      (gen_oid (g_oid g)) now) as [ns'' [r2|e2]] eqn:Hcup;
            destruct (s_upsert matchf applyf extractf now (abs_coll ns') q (Some repl) None []
                        (gen_oid (g_oid g))) as [[sc'' sr']|e2'];
            cbn [out_rel] in Hs2; try contradiction.
          -- destruct Hs2 as [Habs2 Hrel2].
             destruct (coll_upsert_inv matchf applyf extractf _ _ _ _ _ _ _ _ _ _ Hinv' Hid' Hlt' Hcup)
               as [Hinv2 [Hid2 Hlt2]].
             destruct (coll_upsert_docs matchf applyf extractf _ _ _ _ _ _ _ _ _ _ Hcup)
               as [d' [_ [_ Hr2]]]. subst r2. cbn [r_upserted].
             match goal with |- context [append_all ?w1 h ?op ?l ?chs] =>
               destruct (append_all_facts h op l w1 chs) as [F1 [F2 F3]];
               set (wa := append_all w1 h op l chs) in * end.
             cbn [w_ns w_gen g_oid g_did] in F1, F2, F3. clearbody wa.
             unfold finish. rewrite changed_mod_ups.
             unfold txn_rel. cbn [ss_colls ss_oid sum_rel].
             split; [|split; [|split; [|split]]].
             ++ rewrite (close_w_abs c h wa Hu), F1, Habs2. reflexivity.
             ++ rewrite F2. reflexivity.
             ++ destruct Hrel2 as [R1 [R2 R3]]. split; [|split]; assumption.
             ++ apply close_w_ok; [eapply ns_ok_mono; [exact Hok|lia]|].
                rewrite F1. apply (good_mono matchf (g_did g + 1 + 1)); [|lia]. split; [|split]; auto.
             ++ lia.
          -- subst e2'. unfold finish, gen_after_fail, txn_rel.
             cbn [w_gen ss_colls ss_oid sum_rel g_did g_oid]. repeat split; auto.
             ++ eapply ns_ok_mono; [exact Hok|lia].
             ++ lia.
        * subst r. cbn [r_modified r_upserted map option_map] in *. rewrite <- Hmd.
          unfold finish. rewrite changed_mod_nil.
          unfold txn_rel. cbn [w_gen ss_colls ss_oid sum_rel g_did g_oid].
          repeat split; auto.
          -- eapply ns_ok_mono; [exact Hok|lia].
          -- lia.
      + (* a document was replaced *)
        rewrite <- Hm. cbn [map].
        match goal with |- context [append_all ?w1 h ?op ?l ?chs] =>
          destruct (append_all_facts h op l w1 chs) as [F1 [F2 F3]];
          set (wa := append_all w1 h op l chs) in * end.
        cbn [w_ns w_gen g_oid g_did] in F1, F2, F3.
        assert (Htr : tres_rel (mkT (m0 :: mr) (r_modified r) None None) sr).
        { split; [|split]; cbn [t_matched t_modified t_upserted option_map]; auto. }
        unfold finish.
        destruct (r_modified r) as [|x xs] eqn:Hrmod.
        * rewrite changed_mod_nil. rewrite <- Hmd. cbn [map].
          unfold wa. cbn [firstn append_all w_gen].
          unfold txn_rel. cbn [ss_colls ss_oid sum_rel g_did g_oid].
          split; [|split; [|split; [|split]]]; auto.
          -- eapply ns_ok_mono; [exact Hok|lia].
          -- lia.
        * rewrite changed_mod_cons. rewrite <- Hmd. cbn [map]. clearbody wa.
          unfold txn_rel. cbn [ss_colls ss_oid sum_rel].
          split; [|split; [|split; [|split]]]; auto.
          -- rewrite (close_w_abs c h wa Hu), F1, Habs. reflexivity.
          -- apply close_w_ok; [eapply ns_ok_mono; [exact Hok|lia]|].
             rewrite F1. apply (good_mono matchf (g_did g + 1)); [|lia]. split; [|split]; auto.
          -- lia.
    - subst e'. unfold finish, gen_after_fail, txn_rel.
      cbn [w_gen ss_colls ss_oid sum_rel]. repeat split; auto. lia.
  Qed.

  Theorem txn_replace_refines c g h q sort repl upsert :
    ns_ok (g_did g) (cat_ns c) ->
    txn_rel tres_rel g (txn_replace matchf applyf extractf c g h q sort repl upsert now)
            (s_replace_or_upsert matchf applyf extractf now (abs_cat c g) h q repl sort upsert).
  Proof.
    intro Hok. unfold txn_replace. rewrite s_replace_or_upsert_eq.
    destruct (guard_write h) as [e|] eqn:Hg.
    - destruct (guard_some h e Hg) as [-> Hv]. rewrite Hv. cbn [negb].
      unfold txn_rel, abs_cat. cbn [ss_colls ss_oid sum_rel]. repeat split; auto. lia.
    - pose proof (proj1 (guard_valid h) Hg) as Hv. rewrite Hv. cbn [negb].
      pose proof (valid_user h Hv) as Hu.
      unfold abs_cat at 1. cbn [ss_colls]. rewrite (sc_get_abs _ _ Hu).
      destruct (ns_get (cat_ns c) h) as [n|]; cbn [option_map].
      + apply repl_core_sim; auto.
      + destruct upsert.
        * apply repl_core_sim; auto.
        * unfold txn_rel, abs_cat. cbn [ss_colls ss_oid sum_rel].
          repeat split; auto. lia.
  Qed.

  (* ---------------------------------------------------------------- *)
  (* Find *)

  Theorem txn_find_refines n c oid h q sort skip limit :
    ns_ok n (cat_ns c) -> user_ns h = true ->
    sum_rel (fun tr l => map snd (t_matched tr) = l)
            (txn_find matchf c h q sort skip limit)
            (s_read matchf (mkS (abs_ns (cat_ns c)) oid) h q sort skip limit).
  Proof.
    intros Hok Hu. unfold txn_find, s_read, read_docs. cbn [ss_colls].
    destruct (negb (valid_handle h true)); [reflexivity|].
    rewrite (sc_get_abs _ _ Hu).
    destruct (ns_get (cat_ns c) h) as [x|] eqn:Hn; cbn [option_map]; [|reflexivity].
    destruct (ns_ok_get matchf _ _ _ _ Hok Hu Hn) as [[Hnd _] _].
    rewrite abs_coll_eq. cbn [sc_docs].
    rewrite (s_find_find_list matchf (c_docs x) q sort skip limit Hnd).
    unfold coll_find, failr.
    destruct (find_list matchf (c_docs x) q sort skip limit) as [l| | | |]; cbn [rmap bind sum_rel];
      try reflexivity.
    cbn [t_matched r_matched]. symmetry. apply retag_snd.
  Qed.

  (* ---------------------------------------------------------------- *)
  (* CreateIndex / DropIndex / ListIndexes *)

  Theorem txn_create_index_refines c g h name cf :
    ns_ok (g_did g) (cat_ns c) ->
    let '(c', r) := txn_create_index matchf c h name cf in
    if s_valid h then
      match r, s_create_index matchf (coll_or_new (abs_cat c g) h) name cf with
      | inl nm, inl (sc', nm') =>
          nm = nm' /\ abs_ns (cat_ns c') = sc_set (abs_ns (cat_ns c)) h sc' /\
          ns_ok (g_did g) (cat_ns c')
      | inr e, inr e' => e = e' /\ c' = c
      | _, _ => False
      end
    else c' = c /\ r = inr EErr.
  Proof.
    intro Hok. unfold txn_create_index.
    destruct (guard_write h) as [e|] eqn:Hg.
    - destruct (guard_some h e Hg) as [-> Hv]. rewrite Hv. auto.
    - pose proof (proj1 (guard_valid h) Hg) as Hv. rewrite Hv.
      pose proof (valid_user h Hv) as Hu.
      unfold abs_cat. rewrite (coll_or_new_abs c (g_oid g) h Hu).
      destruct (ns_or_new_good matchf _ c h Hok Hu) as [Hinv [Hid Hlt]].
      pose proof (sim_create_index matchf (ns_or_new c h) name cf Hinv) as Hsim.
      destruct (coll_create_index matchf (ns_or_new c h) name cf) as [n' [nm|e]] eqn:Hci;
        destruct (s_create_index matchf (abs_coll (ns_or_new c h)) name cf) as [[sc' nm']|e'];
        cbn [out_rel] in Hsim; try contradiction.
      + destruct Hsim as [Habs ->]. split; [reflexivity|]. cbn [cat_ns].
        destruct (coll_create_index_inv matchf _ _ _ _ _ _ Hinv Hid Hlt Hci) as [Hinv' [Hid' [Hlt' _]]].
        split.
        * rewrite (abs_ns_set _ _ _ Hu), Habs. reflexivity.
        * apply ns_ok_set; auto. intros _. split; [|split]; auto.
      + auto.
  Qed.

  Lemma coll_eta (c : coll) : mkColl (c_docs c) (c_indexes c) = c.
  Proof. destruct c; reflexivity. Qed.

  Lemma filter_id_when_none_dropped (ixs : list (string * index)) :
    map fst (filter (fun ni => negb (String.eqb (fst ni) "_id_")) ixs) = [] ->
    filter (fun ni : string * index => String.eqb (fst ni) "_id_") ixs = ixs.
  Proof.
    induction ixs as [|[m ix] t IH]; [reflexivity|]. cbn [filter fst].
    destruct (String.eqb m "_id_"); cbn [negb map].
    - intro H. rewrite IH; auto.
    - discriminate.
  Qed.

  Theorem txn_drop_index_refines n c h name :
    ns_ok n (cat_ns c) ->
    let '(c', r) := txn_drop_index c h name in
    if s_valid h then
      match sc_get (abs_ns (cat_ns c)) h with
      | None => c' = c /\ r = inr EErr
      | Some sc =>
          match r, s_drop_index sc name with
          | inl _, inl sc' => abs_ns (cat_ns c') = sc_set (abs_ns (cat_ns c)) h sc' /\ ns_ok n (cat_ns c')
          | inr e, inr e' => e = e' /\ c' = c
          | _, _ => False
          end
      end
    else c' = c /\ r = inr EErr.
  Proof.
    intro Hok. unfold txn_drop_index.
    destruct (guard_write h) as [e|] eqn:Hg.
    - destruct (guard_some h e Hg) as [-> Hv]. rewrite Hv. auto.
    - pose proof (proj1 (guard_valid h) Hg) as Hv. rewrite Hv.
      pose proof (valid_user h Hv) as Hu.
      rewrite (sc_get_abs _ _ Hu).
      destruct (ns_get (cat_ns c) h) as [x|] eqn:Hn; cbn [option_map]; [|auto].
      destruct (ns_ok_get matchf _ _ _ _ Hok Hu Hn) as [Hinv [Hid Hlt]].
      pose proof (sim_drop_index x name) as Hsim.
      pose proof (coll_drop_index_inv matchf x n name) as Hinvd.
      destruct (coll_drop_index x name) as [x' [dropped|e]] eqn:Hcd;
        destruct (s_drop_index (abs_coll x) name) as [sc'|e']; try contradiction.
      + destruct (Hinvd x' (inl dropped) Hinv Hid Hlt eq_refl) as [Hinv' [Hid' [Hlt' _]]].
        destruct dropped as [|d0 dr].
        * (* nothing was dropped: the collection is unchanged *)
          assert (Hx : x' = x).
          { revert Hcd. unfold coll_drop_index, fail. destruct name as [|a s0].
            - intro H. inversion H as [[H1 H2]].
              rewrite (filter_id_when_none_dropped _ H2). apply coll_eta.
            - destruct (String.eqb (String a s0) "_id_"); [discriminate|].
              destruct (find_index (c_indexes x) (String a s0)); discriminate. }
          subst x'. subst sc'. split; [|exact Hok].
          symmetry. apply sc_set_same. rewrite (sc_get_abs _ _ Hu), Hn. reflexivity.
        * cbn [cat_ns]. split.
          -- rewrite (abs_ns_set _ _ _ Hu), Hsim. reflexivity.
          -- apply ns_ok_set; auto. intros _. split; [|split]; auto.
      + auto.
  Qed.

  Lemma index_spec_defof ni : s_index_spec (defof ni) = index_spec ni.
  Proof. reflexivity. Qed.

  Theorem txn_list_indexes_refines c h :
    user_ns h = true ->
    match txn_list_indexes c h with
    | inr e => RErr e
    | inl l => RDocs l
    end =
    (if negb (valid_handle h true) then RErr EErr
     else match sc_get (abs_ns (cat_ns c)) h with
          | None => RDocs []
          | Some sc => RDocs (stable_sort (fun a b => order a b [("name", false)])
                                          (map s_index_spec (sc_defs sc)))
          end).
  Proof.
    intro Hu. unfold txn_list_indexes.
    destruct (negb (valid_handle h true)); [reflexivity|].
    rewrite (sc_get_abs _ _ Hu).
    destruct (ns_get (cat_ns c) h) as [x|]; cbn [option_map]; [|reflexivity].
    rewrite abs_coll_eq. cbn [sc_defs]. rewrite map_map. reflexivity.
  Qed.

  (* ---------------------------------------------------------------- *)
  (* Drop *)

  Lemma drop_events_gen l : forall ol cl g,
    let '(ol', cl', g') := drop_events ol cl g l in
    g_oid g' = g_oid g /\ g_did g <= g_did g'.
  Proof.
    induction l as [|k t IH]; intros ol cl g; cbn [drop_events].
    - split; [reflexivity|lia].
    - unfold append_event.
      specialize (IH (mkColl (c_docs ol ++ [(g_did g, event_doc (cl + 1) k "drop" None None)])
                             (c_indexes ol)) (cl + 1) (mkGen (g_did g + 1) (g_oid g))).
      destruct (drop_events _ _ _ t) as [[ol' cl'] g']. cbn [g_oid g_did] in IH.
      destruct IH as [I1 I2]. split; [exact I1|lia].
  Qed.

  Theorem txn_drop_refines c g h :
    ns_ok (g_did g) (cat_ns c) ->
    let '(c', g', r) := txn_drop c g h in
    if negb (valid_handle h false) || is_local h then c' = c /\ g' = g /\ r = inr EErr
    else
      abs_ns (cat_ns c') = filter (fun kc => negb (drop_matches h (fst kc))) (abs_ns (cat_ns c)) /\
      g_oid g' = g_oid g /\ r = inl tt /\ ns_ok (g_did g') (cat_ns c') /\ g_did g <= g_did g'.
  Proof.
    intro Hok. unfold txn_drop.
    destruct (negb (valid_handle h false)); cbn [orb]; [auto|].
    destruct (is_local h); [auto|].
    rewrite <- (abs_ns_filter (fun k => negb (drop_matches h k))).
    destruct (map fst (filter (fun kc => drop_matches h (fst kc)) (cat_ns c))) as [|v vs] eqn:Hv.
    - assert (Hf : filter (fun kc => drop_matches h (fst kc)) (cat_ns c) = []).
      { destruct (filter (fun kc => drop_matches h (fst kc)) (cat_ns c)); [reflexivity|discriminate]. }
      rewrite (filter_all _ _ Hf). repeat split; auto. lia.
    - pose proof (drop_events_gen (v :: vs) (oplog_of c) (cat_clock c) g) as Hde.
      destruct (drop_events (oplog_of c) (cat_clock c) g (v :: vs)) as [[ol cl] g1].
      destruct Hde as [D1 D2].
      assert (Hfin : forall ol2 cl2 g2,
                (if String.eqb (snd h) "" then append_event ol cl g1 h "dropDatabase" None None
                 else (ol, cl, g1)) = (ol2, cl2, g2) ->
                g_oid g2 = g_oid g /\ g_did g <= g_did g2).
      { intros ol2 cl2 g2. destruct (String.eqb (snd h) ""); unfold append_event; intro H;
          inversion H; subst; cbn [g_oid g_did]; split; auto; lia. }
      destruct (if String.eqb (snd h) "" then append_event ol cl g1 h "dropDatabase" None None
                else (ol, cl, g1)) as [[ol2 cl2] g2].
      destruct (Hfin ol2 cl2 g2 eq_refl) as [E1 E2]. cbn [cat_ns].
      split; [|split; [|split; [|split]]]; auto.
      + apply abs_ns_set_sys. reflexivity.
      + apply ns_ok_set.
        * apply ns_ok_filter. eapply ns_ok_mono; eauto.
        * rewrite oplog_not_user. discriminate.
  Qed.

  (* ---------------------------------------------------------------- *)
  (* Bulk: one item on the working copy.  The spec state s need not be the
     abstraction of the clone catalog c (the clone may contain an empty
     collection created by an item that changed nothing, or documents replaced
     by equal ones): only the target collection has to agree. *)

  Definition chg (op : bulk_op) (tr : tresult) : bool := 0 <? bulk_changes op tr.

  Lemma len_nonneg {A} (l : list A) : 0 <= len l.
  Proof. unfold len. lia. Qed.

  Lemma chg_ups op m l sd e : chg op (mkT m l (Some sd) e) = true.
  Proof.
    unfold chg, bulk_changes. cbn [t_modified t_upserted]. apply Z.ltb_lt.
    pose proof (len_nonneg l). lia.
  Qed.

  Lemma chg_cons op m x t u e : chg op (mkT m (x :: t) u e) = true.
  Proof.
    unfold chg, bulk_changes. cbn [t_modified t_upserted t_matched]. apply Z.ltb_lt.
    assert (0 < len (x :: t)) by (unfold len; cbn [List.length]; lia).
    destruct u; [lia|]. destruct op; pose proof (len_nonneg m); lia.
  Qed.

  Lemma chg_nil op m e :
    match op with BDelete _ _ _ _ => False | _ => True end -> chg op (mkT m [] None e) = false.
  Proof. destruct op; intro H; try contradiction; reflexivity. Qed.

  Lemma chg_del q sort skip limit m e :
    chg (BDelete q sort skip limit) (mkT m [] None e) = (0 <? len m).
  Proof. reflexivity. Qed.

  Definition wrel (c : catalog) (g : gen) (s : sstate) (h : handle) : Prop :=
    coll_or_new s h = abs_coll (ns_or_new c h) /\ ss_oid s = g_oid g /\ good (g_did g) (ns_or_new c h).

  Definition w_out (ch : tresult -> bool) (c : catalog) (g : gen) (s : sstate) (h : handle)
             (x : wres) (y : sstate * (sresult + ekind)) : Prop :=
    let '(w, r) := x in
    let '(s1, r') := y in
    ss_oid s1 = g_oid (w_gen w) /\ g_did g <= g_did (w_gen w) /\
    match r, r' with
    | inl tr, inl sr =>
        tres_rel tr sr /\ good (g_did (w_gen w)) (w_ns w) /\
        if ch tr then ss_colls s1 = sc_set (ss_colls s) h (abs_coll (w_ns w))
        else ss_colls s1 = ss_colls s /\ abs_coll (w_ns w) = abs_coll (ns_or_new c h)
    | inr e, inr e' => e = e' /\ ss_colls s1 = ss_colls s
    | _, _ => False
    end.

  Lemma upd_wsim c g s h q u sort skip limit upsert afs :
    wrel c g s h ->
    w_out (chg (BUpdate q u sort upsert skip limit afs)) c g s h
      (t_update matchf applyf extractf (open_w c g h) h q u sort upsert skip limit afs now)
      (s_upd_core s h q u sort skip limit upsert afs).
  Proof.
    intros [Hcn [Hoid [Hinv [Hid Hlt]]]]. unfold s_upd_core, t_update. rewrite Hcn, Hoid.
    cbn [open_w w_ns w_gen w_oplog w_clock].
    set (n0 := ns_or_new c h) in *.
    set (op := BUpdate q u sort upsert skip limit afs).
    pose proof (sim_update matchf applyf n0 (g_did g) q u sort skip limit afs now Hinv Hlt) as Hsim.
    pose proof (s_update_no_upsert (abs_coll n0) q u sort skip limit afs) as Hnoup.
    pose proof (s_update_unchanged matchf applyf now (abs_coll n0) q u sort skip limit afs) as Hunch.
    destruct (coll_update matchf applyf n0 (g_did g) q u sort skip limit afs now) as [ns' [r|e]] eqn:Hcu;
      destruct (s_update matchf applyf now (abs_coll n0) q u sort skip limit afs) as [[sc' sr]|e'];
      cbn [out_rel] in Hsim; try contradiction.
    - destruct Hsim as [Habs [Hm [Hmd Hup]]].
      specialize (Hnoup sc' sr eq_refl). specialize (Hunch sc' sr eq_refl).
      destruct (coll_update_inv matchf applyf _ _ _ _ _ _ _ _ _ _ _ Hinv Hid Hlt Hcu)
        as [Hinv' [Hid' Hlt']].
      destruct (r_matched r) as [|m0 mr] eqn:Hrm.
      + rewrite <- Hm. cbn [map].
        change (len (@nil sdoc)) with 0. rewrite Z.add_0_r. cbn [g_did g_oid].
        cbn [List.length] in Hlt'. change (Z.of_nat 0) with 0 in Hlt'. rewrite Z.add_0_r in Hlt'.
        assert (Hr : r = empty_result).
        { apply (coll_update_inl matchf applyf) in Hcu.
          destruct Hcu as [[_ [_ Hr]]|[matched [newl [chs [ixs [ixs' [_ [Hne [_ [_ [_ [_ [_ Hmm]]]]]]]]]]]]].
          - exact Hr.
          - exfalso. apply Hne. rewrite <- Hmm. exact Hrm. }
        destruct upsert.
        * subst sc'.
          pose proof (sim_upsert matchf applyf extractf ns' (g_did g) q None (Some u) afs
                       (gen_oid (g_oid g)) now Hinv' Hlt') as Hs2.
          destruct (coll_upsert matchf applyf extractf ns' (g_did g) q None (Some u) afs
                      (gen_oid (g_oid g)) now) as [ns'' [r2|e2]] eqn:Hcup;
            destruct (s_upsert matchf applyf extractf now (abs_coll ns') q None (Some u) afs
                        (gen_oid (g_oid g))) as [[sc'' sr']|e2'];
            cbn [out_rel] in Hs2; try contradiction.
          -- destruct Hs2 as [Habs2 Hrel2].
             destruct (coll_upsert_inv matchf applyf extractf _ _ _ _ _ _ _ _ _ _ Hinv' Hid' Hlt' Hcup)
               as [Hinv2 [Hid2 Hlt2]].
             destruct (coll_upsert_docs matchf applyf extractf _ _ _ _ _ _ _ _ _ _ Hcup)
               as [d' [_ [_ Hr2]]]. subst r2. cbn [r_upserted].
             match goal with |- context [append_all ?w1 h ?o ?l ?chs] =>
               destruct (append_all_facts h o l w1 chs) as [F1 [F2 F3]];
               set (wa := append_all w1 h o l chs) in * end.
             cbn [w_ns w_gen g_oid g_did] in F1, F2, F3. clearbody wa.
             unfold w_out. cbn [ss_colls ss_oid]. rewrite chg_ups.
             split; [rewrite F2; reflexivity|]. split; [lia|].
             split; [destruct Hrel2 as [R1 [R2 R3]]; split; [|split]; assumption|].
             split.
             ++ rewrite F1. apply (good_mono matchf (g_did g + 1)); [|lia]. split; [|split]; auto.
             ++ rewrite F1, Habs2. reflexivity.
          -- subst e2'. unfold w_out. cbn [w_gen ss_colls ss_oid g_did g_oid].
             split; [reflexivity|]. split; [lia|]. split; reflexivity.
        * subst r. cbn [r_modified r_upserted map option_map] in *. rewrite <- Hmd.
          unfold w_out. cbn [w_gen w_ns ss_colls ss_oid g_did g_oid].
          rewrite chg_nil by exact I.
          split; [exact Hoid|]. split; [lia|].
          split; [split; [|split]; auto|]. split; [split; [|split]; auto|].
          split; [reflexivity|]. rewrite Habs. apply Hunch. symmetry. exact Hmd.
      + rewrite <- Hm. cbn [map].
        match goal with |- context [append_all ?w1 h ?o ?l ?chs] =>
          destruct (append_all_facts h o l w1 chs) as [F1 [F2 F3]];
          set (wa := append_all w1 h o l chs) in * end.
        cbn [w_ns w_gen g_oid g_did] in F1, F2, F3.
        assert (Htr : tres_rel (mkT (m0 :: mr) (r_modified r) None None) sr).
        { split; [|split]; cbn [t_matched t_modified t_upserted option_map]; auto. }
        assert (Hg : good (g_did (w_gen wa)) (w_ns wa)).
        { rewrite F1.
          apply (good_mono matchf (g_did g + Z.of_nat (List.length (m0 :: mr)))); [|unfold len in *; lia].
          split; [|split]; auto. }
        destruct (r_modified r) as [|x xs] eqn:Hrmod.
        * rewrite <- Hmd. cbn [map]. unfold w_out. rewrite chg_nil by exact I.
          cbn [ss_colls ss_oid].
          split; [rewrite F2; exact Hoid|]. split; [unfold len in *; lia|].
          split; [exact Htr|]. split; [exact Hg|].
          split; [reflexivity|]. rewrite F1, Habs. apply Hunch. symmetry. exact Hmd.
        * rewrite <- Hmd. cbn [map]. unfold w_out. rewrite chg_cons. cbn [ss_colls ss_oid].
          split; [rewrite F2; reflexivity|]. split; [unfold len in *; lia|].
          split; [exact Htr|]. split; [exact Hg|].
          rewrite F1, Habs. reflexivity.
    - subst e'. unfold w_out. cbn [w_gen]. split; [exact Hoid|]. split; [lia|]. split; reflexivity.
  Qed.

  Lemma repl_wsim c g s h q repl sort upsert :
    wrel c g s h ->
    w_out (chg (BReplace q repl sort upsert)) c g s h
      (t_replace matchf applyf extractf (open_w c g h) h q repl sort upsert now)
      (s_repl_core s h q repl sort upsert).
  Proof.
    intros [Hcn [Hoid [Hinv [Hid Hlt]]]]. unfold s_repl_core, t_replace. rewrite Hcn, Hoid.
    cbn [open_w w_ns w_gen w_oplog w_clock].
    set (n0 := ns_or_new c h) in *.
    pose proof (sim_replace matchf n0 (g_did g) q repl sort Hinv Hlt) as Hsim.
    pose proof (s_replace_no_upsert (abs_coll n0) q repl sort) as Hnoup.
    pose proof (s_replace_unchanged matchf (abs_coll n0) q repl sort) as Hunch.
    destruct (coll_replace matchf n0 (g_did g) q repl sort) as [ns' [r|e]] eqn:Hcu;
      destruct (s_replace matchf (abs_coll n0) q repl sort) as [[sc' sr]|e'];
      cbn [out_rel] in Hsim; try contradiction.
    - destruct Hsim as [Habs [Hm [Hmd Hup]]].
      specialize (Hnoup sc' sr eq_refl). specialize (Hunch sc' sr eq_refl).
      destruct (coll_replace_inv matchf _ _ _ _ _ _ _ Hinv Hid Hlt Hcu) as [Hinv' [Hid' Hlt']].
      destruct (r_matched r) as [|m0 mr] eqn:Hrm.
      + rewrite <- Hm. cbn [map]. cbn [g_did g_oid].
        assert (Hr : r = empty_result).
        { apply (coll_replace_inl matchf) in Hcu.
          destruct Hcu as [[_ [_ Hr]]|[old [rest [repl' [ixs [_ [_ [_ [_ Hmm]]]]]]]]].
          - exact Hr.
          - rewrite Hmm in Hrm. discriminate. }
        destruct upsert.
        * subst sc'.
          pose proof (sim_upsert matchf applyf extractf ns' (g_did g + 1) q (Some repl) None []
                       (gen_oid (g_oid g)) now Hinv' Hlt') as Hs2.
          destruct (coll_upsert matchf applyf extractf ns' (g_did g + 1) q (Some repl) None []
                      (gen_oid (g_oid g)) now) as [ns'' [r2|e2]] eqn:Hcup;
            destruct (s_upsert matchf applyf extractf now (abs_coll ns') q (Some repl) None []
                        (gen_oid (g_oid g))) as [[sc'' sr']|e2'];
            cbn [out_rel] in Hs2; try contradiction.
          -- destruct Hs2 as [Habs2 Hrel2].
             destruct (coll_upsert_inv matchf applyf extractf _ _ _ _ _ _ _ _ _ _ Hinv' Hid' Hlt' Hcup)
               as [Hinv2 [Hid2 Hlt2]].
             destruct (coll_upsert_docs matchf applyf extractf _ _ _ _ _ _ _ _ _ _ Hcup)
               as [d' [_ [_ Hr2]]]. subst r2. cbn [r_upserted].
             match goal with |- context [append_all ?w1 h ?o ?l ?chs] =>
               destruct (append_all_facts h o l w1 chs) as [F1 [F2 F3]];
               set (wa := append_all w1 h o l chs) in * end.
             cbn [w_ns w_gen g_oid g_did] in F1, F2, F3. clearbody wa.
             unfold w_out. cbn [ss_colls ss_oid]. rewrite chg_ups.
             split; [rewrite F2; reflexivity|]. split; [lia|].
             split; [destruct Hrel2 as [R1 [R2 R3]]; split; [|split]; assumption|].
             split.
             ++ rewrite F1. apply (good_mono matchf (g_did g + 1 + 1)); [|lia]. split; [|split]; auto.
             ++ rewrite F1, Habs2. reflexivity.
          -- subst e2'. unfold w_out. cbn [w_gen ss_colls ss_oid g_did g_oid].
             split; [reflexivity|]. split; [lia|]. split; reflexivity.
        * subst r. cbn [r_modified r_upserted map option_map] in *. rewrite <- Hmd.
          unfold w_out. cbn [w_gen w_ns ss_colls ss_oid g_did g_oid].
          rewrite chg_nil by exact I.
          split; [exact Hoid|]. split; [lia|].
          split; [split; [|split]; auto|]. split; [split; [|split]; auto|].
          split; [reflexivity|]. rewrite Habs. apply Hunch. symmetry. exact Hmd.
      + rewrite <- Hm. cbn [map].
        match goal with |- context [append_all ?w1 h ?o ?l ?chs] =>
          destruct (append_all_facts h o l w1 chs) as [F1 [F2 F3]];
          set (wa := append_all w1 h o l chs) in * end.
        cbn [w_ns w_gen g_oid g_did] in F1, F2, F3.
        assert (Htr : tres_rel (mkT (m0 :: mr) (r_modified r) None None) sr).
        { split; [|split]; cbn [t_matched t_modified t_upserted option_map]; auto. }
        assert (Hg : good (g_did (w_gen wa)) (w_ns wa)).
        { rewrite F1. apply (good_mono matchf (g_did g + 1)); [|lia]. split; [|split]; auto. }
        destruct (r_modified r) as [|x xs] eqn:Hrmod.
        * rewrite <- Hmd. cbn [map]. unfold w_out. rewrite chg_nil by exact I.
          cbn [ss_colls ss_oid].
          split; [rewrite F2; exact Hoid|]. split; [lia|].
          split; [exact Htr|]. split; [exact Hg|].
          split; [reflexivity|]. rewrite F1, Habs. apply Hunch. symmetry. exact Hmd.
        * rewrite <- Hmd. cbn [map]. unfold w_out. rewrite chg_cons. cbn [ss_colls ss_oid].
          split; [rewrite F2; reflexivity|]. split; [lia|].
          split; [exact Htr|]. split; [exact Hg|].
          rewrite F1, Habs. reflexivity.
    - subst e'. unfold w_out. cbn [w_gen]. split; [exact Hoid|]. split; [lia|]. split; reflexivity.
  Qed.

  Definition s_del_core (s : sstate) (h : handle) (q : doc) (sort : option doc) (skip limit : Z)
    : sstate * (sresult + ekind) :=
    match s_delete matchf (coll_or_new s h) q sort skip limit with
    | inr e => (s, inr e)
    | inl (c', sr) =>
        match sr_matched sr with
        | [] => (s, inl sr)
        | _ => (mkS (sc_set (ss_colls s) h c') (ss_oid s), inl sr)
        end
    end.

  Lemma del_wsim c g s h q sort skip limit :
    wrel c g s h ->
    w_out (chg (BDelete q sort skip limit)) c g s h
      (t_delete matchf (open_w c g h) h q sort skip limit)
      (s_del_core s h q sort skip limit).
  Proof.
    intros [Hcn [Hoid [Hinv [Hid Hlt]]]]. unfold s_del_core, t_delete. rewrite Hcn.
    cbn [open_w w_ns w_gen w_oplog w_clock].
    set (n0 := ns_or_new c h) in *.
    pose proof (sim_delete matchf n0 q sort skip limit Hinv) as Hsim.
    pose proof (s_delete_shape matchf (abs_coll n0) q sort skip limit) as Hshape.
    destruct (coll_delete matchf n0 q sort skip limit) as [ns' [r|e]] eqn:Hcd;
      destruct (s_delete matchf (abs_coll n0) q sort skip limit) as [[sc' sr]|e'];
      cbn [out_rel] in Hsim; try contradiction.
    - destruct Hsim as [Habs [Hm _]]. destruct (Hshape sc' sr eq_refl) as [S1 [S2 S3]].
      destruct (coll_delete_inv matchf _ _ _ _ _ _ _ _ Hinv Hid Hlt Hcd) as [Hinv' [Hid' Hlt']].
      match goal with |- context [append_all ?w1 h ?o ?l ?chs] =>
        destruct (append_all_facts h o l w1 chs) as [F1 [F2 F3]];
        set (wa := append_all w1 h o l chs) in * end.
      cbn [w_ns w_gen g_oid g_did] in F1, F2, F3. clearbody wa.
      assert (Htr : tres_rel (mkT (r_matched r) [] None None) sr).
      { split; [|split]; cbn [t_matched t_modified t_upserted option_map map]; auto. }
      assert (Hg : good (g_did (w_gen wa)) (w_ns wa)).
      { rewrite F1. apply (good_mono matchf (g_did g)); [|lia]. split; [|split]; auto. }
      unfold w_out. rewrite chg_del.
      destruct (r_matched r) as [|m0 mr] eqn:Hrm.
      + rewrite <- Hm. cbn [map]. change (0 <? len (@nil sdoc)) with false. cbv iota.
        cbn [ss_colls ss_oid].
        split; [rewrite F2; exact Hoid|]. split; [lia|]. split; [exact Htr|]. split; [exact Hg|].
        split; [reflexivity|]. rewrite F1, Habs. apply S3. rewrite <- Hm. reflexivity.
      + rewrite <- Hm. cbn [map]. rewrite len_cons_pos. cbn [ss_colls ss_oid].
        split; [rewrite F2; exact Hoid|]. split; [lia|]. split; [exact Htr|]. split; [exact Hg|].
        rewrite F1, Habs. reflexivity.
    - subst e'. unfold w_out. cbn [w_gen]. split; [exact Hoid|]. split; [lia|]. split; reflexivity.
  Qed.

  Definition s_ins_core (s : sstate) (h : handle) (d : doc) : sstate * (sresult + ekind) :=
    let '(s', r) := s_insert1 matchf s h d in
    (s', match r with inl x => inl (mkSR [] [x] None) | inr e => inr e end).

  Lemma ins_wsim c g s h d :
    wrel c g s h ->
    w_out (chg (BInsert d)) c g s h (t_insert matchf (open_w c g h) h d) (s_ins_core s h d).
  Proof.
    intros [Hcn [Hoid [Hinv [Hid Hlt]]]]. unfold s_ins_core, s_insert1, t_insert. rewrite Hcn, Hoid.
    cbn [open_w w_ns w_gen w_oplog w_clock].
    set (n0 := ns_or_new c h) in *.
    pose proof (sim_insert matchf n0 (g_did g) d (gen_oid (g_oid g)) Hinv Hlt) as Hsim.
    destruct (coll_insert matchf n0 (g_did g) d (gen_oid (g_oid g))) as [ns' [r|e]] eqn:Hci;
      destruct (s_insert matchf (abs_coll n0) d (gen_oid (g_oid g))) as [[sc' sr]|e'];
      cbn [out_rel] in Hsim; try contradiction.
    - destruct Hsim as [Habs [_ [Hmod _]]].
      destruct (coll_insert_inv matchf _ _ _ _ _ _ Hinv Hid Hlt Hci) as [Hinv' [Hid' Hlt']].
      destruct (coll_insert_docs matchf _ _ _ _ _ _ Hci) as [d' [_ [_ Hr]]]. subst r.
      cbn [r_modified] in *. cbn [map snd] in Hmod. rewrite <- Hmod.
      match goal with |- context [append_all ?w1 h ?o ?l ?chs] =>
        destruct (append_all_facts h o l w1 chs) as [F1 [F2 F3]];
        set (wa := append_all w1 h o l chs) in * end.
      cbn [w_ns w_gen g_oid g_did] in F1, F2, F3. clearbody wa.
      unfold w_out. rewrite chg_cons. cbn [ss_colls ss_oid].
      split; [rewrite F2; unfold gen_count; reflexivity|]. split; [lia|].
      split; [split; [|split]; reflexivity|].
      split.
      + rewrite F1. apply (good_mono matchf (g_did g + 1)); [|lia]. split; [|split]; auto.
      + rewrite F1, Habs. reflexivity.
    - subst e'. unfold w_out. cbn [w_gen ss_colls ss_oid g_oid g_did].
      split; [unfold gen_count; reflexivity|]. split; [lia|]. split; reflexivity.
  Qed.

  (* ---------------------------------------------------------------- *)
  (* Bulk: the loop *)

  (* the loop invariant between the clone catalog and the spec state: the
     target collection agrees, everything else agrees except possibly the
     entry of the target namespace *)
  Definition binv (h : handle) (c : catalog) (g : gen) (s : sstate) : Prop :=
    ns_ok (g_did g) (cat_ns c) /\ ss_oid s = g_oid g /\
    coll_or_new s h = abs_coll (ns_or_new c h) /\
    (forall x, sc_set (abs_ns (cat_ns c)) h x = sc_set (ss_colls s) h x).

  (* the clone is exactly the spec state, and the target namespace exists *)
  Definition bsync (h : handle) (c : catalog) (s : sstate) : Prop :=
    abs_ns (cat_ns c) = ss_colls s /\ sc_get (ss_colls s) h <> None.

  Definition bulk_close (c : catalog) (g : gen) (h : handle) (x : wres)
    : catalog * gen * (tresult + ekind) :=
    match x with
    | (w, inl tr) => (close_w c h w, w_gen w, inl tr)
    | (w, inr e) => (c, gen_after_fail g (w_gen w), inr e)
    end.

  Lemma user_oplog_neq h : user_ns h = true -> handle_eqb oplog_handle h = false.
  Proof.
    intro Hu. destruct (handle_eqb oplog_handle h) eqn:E; auto.
    apply handle_eqb_eq in E. subst h. discriminate.
  Qed.

  Lemma ns_or_new_close c h w : user_ns h = true -> ns_or_new (close_w c h w) h = w_ns w.
  Proof.
    intro Hu. unfold ns_or_new, close_w. cbn [cat_ns].
    rewrite (ns_get_set_other _ _ _ _ (user_oplog_neq h Hu)), ns_get_set_same. reflexivity.
  Qed.

  Lemma coll_or_new_colls s s' h : ss_colls s' = ss_colls s -> coll_or_new s' h = coll_or_new s h.
  Proof. unfold coll_or_new. intros ->. reflexivity. Qed.

  Lemma bulk_close_sim h c g s ch x y :
    user_ns h = true -> binv h c g s -> w_out ch c g s h x y ->
    let '(c1, g1, r) := bulk_close c g h x in
    let '(s1, r') := y in
    g_did g <= g_did g1 /\
    match r, r' with
    | inl tr, inl sr =>
        tres_rel tr sr /\ binv h c1 g1 s1 /\
        (if ch tr then bsync h c1 s1 else ss_colls s1 = ss_colls s) /\
        (bsync h c s -> bsync h c1 s1)
    | inr e, inr e' => e = e' /\ c1 = c /\ ss_colls s1 = ss_colls s /\ binv h c g1 s1
    | _, _ => False
    end.
  Proof.
    intros Hu [Hok [Hoid [Hcn HD]]] H.
    destruct x as [w [tr|e]], y as [s1 [sr|e']]; unfold w_out in H; cbn [bulk_close];
      destruct H as [Ho [Hd Hm]]; try contradiction.
    - destruct Hm as [Htr [Hg Hch]]. split; [exact Hd|]. split; [exact Htr|].
      pose proof (close_w_abs c h w Hu) as Habs.
      set (A := abs_ns (cat_ns c)) in *. set (B := ss_colls s) in *.
      set (X := abs_coll (w_ns w)) in *.
      assert (Hok1 : ns_ok (g_did (w_gen w)) (cat_ns (close_w c h w))).
      { apply close_w_ok; [eapply ns_ok_mono; eauto|exact Hg]. }
      destruct (ch tr).
      + (* changed *)
        assert (Heq : abs_ns (cat_ns (close_w c h w)) = ss_colls s1).
        { rewrite Habs, Hch. apply HD. }
        assert (Hget : sc_get (ss_colls s1) h = Some X) by (rewrite Hch; apply sc_get_set_same).
        assert (Hsync : bsync h (close_w c h w) s1).
        { split; [exact Heq|]. rewrite Hget. discriminate. }
        split; [|split; [exact Hsync|intros _; exact Hsync]].
        split; [exact Hok1|]. split; [exact Ho|]. split.
        * unfold coll_or_new. rewrite Hget. rewrite (ns_or_new_close c h w Hu). reflexivity.
        * intro x. rewrite Heq. reflexivity.
      + (* unchanged *)
        destruct Hch as [Hc1 HX].
        split; [|split; [exact Hc1|]].
        * split; [exact Hok1|]. split; [exact Ho|]. split.
          -- rewrite (coll_or_new_colls s s1 h Hc1), Hcn, (ns_or_new_close c h w Hu). symmetry. exact HX.
          -- intro x. rewrite Habs, sc_set_set, Hc1. apply HD.
        * intros [Hs1 Hs2]. split.
          -- rewrite Habs, Hc1. fold B. fold A in Hs1. rewrite Hs1.
             apply sc_set_same.
             destruct (sc_get B h) as [y|] eqn:Ey; [|exfalso; apply Hs2; exact Ey].
             unfold coll_or_new in Hcn. fold B in Hcn. rewrite Ey in Hcn.
             f_equal. rewrite Hcn. symmetry. exact HX.
          -- rewrite Hc1. exact Hs2.
    - destruct Hm as [-> Hc1]. split; [exact Hd|]. split; [reflexivity|]. split; [reflexivity|].
      split; [exact Hc1|]. unfold gen_after_fail.
      split; [eapply ns_ok_mono; eauto|]. split; [exact Ho|]. split.
      + rewrite (coll_or_new_colls s s1 h Hc1). exact Hcn.
      + intro x. rewrite Hc1. apply HD.
  Qed.

  Lemma s_bulk1_core s h op :
    s_valid h = true -> driver_op op ->
    s_bulk1 matchf applyf extractf now s h op =
    match op with
    | BInsert d => s_ins_core s h d
    | BReplace f rp sort up => s_repl_core s h f rp sort up
    | BUpdate f u sort up sk li afs => s_upd_core s h f u sort sk li up afs
    | BDelete f sort sk li => s_del_core s h f sort sk li
    end.
  Proof.
    intros Hv Hd. destruct op; cbn [driver_op s_bulk1] in *.
    - reflexivity.
    - subst sort. rewrite s_replace_or_upsert_eq, Hv. cbn [negb].
      destruct (sc_get (ss_colls s) h) eqn:E; [reflexivity|].
      destruct upsert; [reflexivity|]. unfold s_repl_core, coll_or_new. rewrite E. reflexivity.
    - destruct Hd as [-> ->]. rewrite s_update_or_upsert_eq, Hv. cbn [negb].
      destruct (sc_get (ss_colls s) h) eqn:E; [reflexivity|].
      destruct upsert; [reflexivity|]. unfold s_upd_core, coll_or_new. rewrite E. reflexivity.
    - destruct Hd as [-> ->]. unfold s_delete_call, s_del_core, coll_or_new. rewrite Hv. cbn [negb].
      destruct (sc_get (ss_colls s) h); reflexivity.
  Qed.

  Lemma binv_wrel h c g s : user_ns h = true -> binv h c g s -> wrel c g s h.
  Proof.
    intros Hu [Hok [Hoid [Hcn _]]]. split; [exact Hcn|]. split; [exact Hoid|].
    apply ns_or_new_good; auto.
  Qed.

  Lemma bulk1_sim h c g s op :
    user_ns h = true -> s_valid h = true -> binv h c g s -> driver_op op ->
    let '(c1, g1, r) := bulk1 matchf applyf extractf c g h op now in
    let '(s1, r') := s_bulk1 matchf applyf extractf now s h op in
    g_did g <= g_did g1 /\
    match r, r' with
    | inl tr, inl sr =>
        tres_rel tr sr /\ binv h c1 g1 s1 /\
        (if chg op tr then bsync h c1 s1 else ss_colls s1 = ss_colls s) /\
        (bsync h c s -> bsync h c1 s1)
    | inr e, inr e' => e = e' /\ c1 = c /\ ss_colls s1 = ss_colls s /\ binv h c g1 s1
    | _, _ => False
    end.
  Proof.
    intros Hu Hv Hb Hd. rewrite (s_bulk1_core s h op Hv Hd).
    pose proof (binv_wrel h c g s Hu Hb) as Hw.
    destruct op.
    - exact (bulk_close_sim h c g s _ _ _ Hu Hb (ins_wsim c g s h d Hw)).
    - exact (bulk_close_sim h c g s _ _ _ Hu Hb (repl_wsim c g s h filter repl sort upsert Hw)).
    - exact (bulk_close_sim h c g s _ _ _ Hu Hb
               (upd_wsim c g s h filter update sort skip limit upsert afs Hw)).
    - exact (bulk_close_sim h c g s _ _ _ Hu Hb (del_wsim c g s h filter sort skip limit Hw)).
  Qed.

  Lemma bulk_changes_nonneg op tr : 0 <= bulk_changes op tr.
  Proof.
    unfold bulk_changes. pose proof (len_nonneg (t_modified tr)).
    destruct (t_upserted tr); [lia|]. destruct op; pose proof (len_nonneg (t_matched tr)); lia.
  Qed.

  Lemma bsync_colls h c s s' : ss_colls s' = ss_colls s -> bsync h c s -> bsync h c s'.
  Proof. unfold bsync. intros ->. auto. Qed.

  Lemma bulk_seq_sim h ordered ops : forall c g s,
    user_ns h = true -> s_valid h = true -> binv h c g s -> Forall driver_op ops ->
    let '(c2, g2, rs, n) := bulk_seq matchf applyf extractf c g h ops ordered now in
    let '(s2, rs') := s_bulk matchf applyf extractf now s h ops ordered in
    binv h c2 g2 s2 /\ g_did g <= g_did g2 /\ Forall2 (sum_rel tres_rel) rs rs' /\ 0 <= n /\
    (n = 0 -> ss_colls s2 = ss_colls s) /\ (0 < n -> bsync h c2 s2) /\
    (bsync h c s -> bsync h c2 s2).
  Proof.
    induction ops as [|op t IH]; intros c g s Hu Hv Hb Hall.
    - cbn [bulk_seq s_bulk]. split; [exact Hb|]. split; [lia|]. split; [constructor|].
      split; [lia|]. split; [reflexivity|]. split; [lia|auto].
    - inversion Hall as [|? ? Hop Ht]; subst. cbn [bulk_seq s_bulk].
      pose proof (bulk1_sim h c g s op Hu Hv Hb Hop) as H1.
      destruct (bulk1 matchf applyf extractf c g h op now) as [[c1 g1] [tr|e]];
        destruct (s_bulk1 matchf applyf extractf now s h op) as [s1 [sr|e']];
        destruct H1 as [Hd1 H1]; try contradiction.
      + destruct H1 as [Htr [Hb1 [Hch Hsy]]].
        specialize (IH c1 g1 s1 Hu Hv Hb1 Ht).
        destruct (bulk_seq matchf applyf extractf c1 g1 h t ordered now) as [[[c2 g2] rs] n].
        destruct (s_bulk matchf applyf extractf now s1 h t ordered) as [s2 rs'].
        destruct IH as [I1 [I2 [I3 [I4 [I5 [I6 I7]]]]]].
        pose proof (bulk_changes_nonneg op tr) as Hnn.
        split; [exact I1|]. split; [lia|]. split; [constructor; [exact Htr|exact I3]|].
        split; [lia|]. unfold chg in Hch.
        split; [|split].
        * intro Hz. assert (Hz1 : bulk_changes op tr = 0) by lia. assert (Hz2 : n = 0) by lia.
          rewrite Hz1 in Hch. change (0 <? 0) with false in Hch. cbv iota in Hch.
          rewrite (I5 Hz2). exact Hch.
        * intro Hp. destruct (0 <? bulk_changes op tr) eqn:E.
          -- apply I7. exact Hch.
          -- apply Z.ltb_ge in E. apply I6. lia.
        * intro Hs. apply I7. apply Hsy. exact Hs.
      + destruct H1 as [-> [-> [Hc1 Hb1]]]. destruct ordered.
        * split; [exact Hb1|]. split; [exact Hd1|]. split; [constructor; [reflexivity|constructor]|].
          split; [lia|]. split; [intros _; exact Hc1|]. split; [lia|].
          apply bsync_colls. exact Hc1.
        * specialize (IH c g1 s1 Hu Hv Hb1 Ht).
          destruct (bulk_seq matchf applyf extractf c g1 h t false now) as [[[c2 g2] rs] n].
          destruct (s_bulk matchf applyf extractf now s1 h t false) as [s2 rs'].
          destruct IH as [I1 [I2 [I3 [I4 [I5 [I6 I7]]]]]].
          split; [exact I1|]. split; [lia|]. split; [constructor; [reflexivity|exact I3]|].
          split; [exact I4|]. split; [intro Hz; rewrite (I5 Hz); exact Hc1|]. split; [exact I6|].
          intro Hs. apply I7. apply (bsync_colls h c s s1 Hc1 Hs).
  Qed.

  Lemma binv_init h c g : user_ns h = true -> ns_ok (g_did g) (cat_ns c) -> binv h c g (abs_cat c g).
  Proof.
    intros Hu Hok. split; [exact Hok|]. split; [reflexivity|]. split.
    - apply coll_or_new_abs. exact Hu.
    - intro x. reflexivity.
  Qed.

  Theorem txn_bulk_refines c g h ops ordered :
    ns_ok (g_did g) (cat_ns c) -> Forall driver_op ops ->
    let '(c', g', r) := txn_bulk matchf applyf extractf c g h ops ordered now in
    if s_valid h then
      let '(s', rs') := s_bulk matchf applyf extractf now (abs_cat c g) h ops ordered in
      abs_ns (cat_ns c') = ss_colls s' /\ g_oid g' = ss_oid s' /\
      ns_ok (g_did g') (cat_ns c') /\ g_did g <= g_did g' /\
      exists rs, r = inl rs /\ Forall2 (sum_rel tres_rel) rs rs'
    else c' = c /\ g' = g /\ r = inr EErr.
  Proof.
    intros Hok Hall. destruct (guard_write h) as [e|] eqn:Hg.
    - destruct (guard_some h e Hg) as [-> Hv]. rewrite Hv.
      unfold txn_bulk. rewrite Hg. auto.
    - pose proof (proj1 (guard_valid h) Hg) as Hv. rewrite Hv.
      pose proof (valid_user h Hv) as Hu.
      pose proof (txn_bulk_is_bulk_seq matchf applyf extractf c g h ops ordered now Hg) as Hseq.
      pose proof (bulk_seq_sim h ordered ops c g (abs_cat c g) Hu Hv (binv_init h c g Hu Hok) Hall) as Hsim.
      destruct (bulk_seq matchf applyf extractf c g h ops ordered now) as [[[c2 g2] rs] n].
      rewrite Hseq.
      destruct (s_bulk matchf applyf extractf now (abs_cat c g) h ops ordered) as [s2 rs'].
      destruct Hsim as [[Hok2 [Ho2 _]] [I2 [I3 [I4 [I5 [I6 _]]]]]].
      destruct (0 <? n) eqn:E.
      + apply Z.ltb_lt in E. destruct (I6 E) as [Hs _].
        split; [exact Hs|]. split; [symmetry; exact Ho2|]. split; [exact Hok2|]. split; [exact I2|].
        eauto.
      + apply Z.ltb_ge in E. assert (Hz : n = 0) by lia.
        split; [rewrite (I5 Hz); reflexivity|]. split; [symmetry; exact Ho2|].
        split; [eapply ns_ok_mono; eauto|]. split; [exact I2|]. eauto.
  Qed.

End RefineTxn.
