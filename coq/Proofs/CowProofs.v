(* CowProofs.v — a value rebuilt with fresh locations shares no location with
   anything that existed before; a write through locations a value does not
   contain leaves it unchanged.  Hence, when every boundary crossing is a copy,
   scribbling over caller-owned values never changes database values and vice
   versa (C17). *)
From Coq Require Import List ZArith Lia Bool.
From Lungo.Model Require Import Cow.
Import ListNotations.
Open Scope Z_scope.

Definition below (n : loc) (v : hv) : Prop := forall l, In l (locs v) -> l < n.
Definition from (n : loc) (v : hv) : Prop := forall l, In l (locs v) -> n <= l.

Section HvInd.
  Variable P : hv -> Prop.
  Hypothesis Hs : forall p, P (HScalar p).
  Hypothesis Hn : forall l p kids, Forall P kids -> P (HNode l p kids).
  Fixpoint hv_ind' (v : hv) : P v :=
    match v with
    | HScalar p => Hs p
    | HNode l p kids =>
        Hn l p kids ((fix go (ks : list hv) : Forall P ks :=
                        match ks with
                        | [] => Forall_nil P
                        | k :: t => Forall_cons k (hv_ind' k) (go t)
                        end) kids)
    end.
End HvInd.

(* the kids loop of copy_fresh as a function *)
Fixpoint copy_list (ks : list hv) (m : loc) : list hv * loc :=
  match ks with
  | [] => ([], m)
  | k :: t => let '(k', m1) := copy_fresh m k in
              let '(t', m2) := copy_list t m1 in (k' :: t', m2)
  end.

Lemma copy_fresh_node n l p kids :
  copy_fresh n (HNode l p kids) =
  let '(kids', n') := copy_list kids (n + 1) in (HNode n p kids', n').
Proof.
  simpl.
  assert (E : forall ks m,
             (fix go (ks : list hv) (m : loc) : list hv * loc :=
                match ks with
                | [] => ([], m)
                | k :: t => let '(k', m1) := copy_fresh m k in
                            let '(t', m2) := go t m1 in (k' :: t', m2)
                end) ks m = copy_list ks m).
  { induction ks as [|k t IH]; intro m; simpl; [reflexivity|].
    destruct (copy_fresh m k) as [k' m1]. rewrite IH. reflexivity. }
  rewrite E. reflexivity.
Qed.

(* the copy uses exactly the locations n .. n'-1 *)
Lemma copy_fresh_range : forall v n,
  let '(v', n') := copy_fresh n v in
  n <= n' /\ (forall l, In l (locs v') -> n <= l < n').
Proof.
  apply (hv_ind' (fun v => forall n, let '(v', n') := copy_fresh n v in
                                     n <= n' /\ (forall l, In l (locs v') -> n <= l < n'))).
  - intros p n. simpl. split; [lia|]. intros l [].
  - intros l p kids IH n. rewrite copy_fresh_node.
    assert (L : forall m, let '(ks', m') := copy_list kids m in
                          m <= m' /\ (forall x, In x (flat_map locs ks') -> m <= x < m')).
    { induction IH as [|k t Hk Ht IHt]; intro m; simpl.
      - split; [lia|]. intros x [].
      - specialize (Hk m). destruct (copy_fresh m k) as [k' m1].
        specialize (IHt m1). destruct (copy_list t m1) as [t' m2].
        destruct Hk as [H1 H2]. destruct IHt as [H3 H4].
        split; [lia|]. intros x Hx. simpl in Hx. apply in_app_or in Hx.
        destruct Hx as [Hx|Hx]; [apply H2 in Hx|apply H4 in Hx]; lia. }
    specialize (L (n + 1)). destruct (copy_list kids (n + 1)) as [ks' m'].
    destruct L as [L1 L2]. split; [lia|].
    intros x Hx. simpl in Hx. destruct Hx as [<-|Hx]; [lia|]. apply L2 in Hx. lia.
Qed.

(* a fresh copy shares no location with anything allocated before *)
Theorem copy_is_fresh v n w :
  below n w -> forall l, In l (locs (fst (copy_fresh n v))) -> ~ In l (locs w).
Proof.
  intros B l Hl Hw. pose proof (copy_fresh_range v n) as R.
  destruct (copy_fresh n v) as [v' n']. simpl in Hl. destruct R as [_ R].
  apply R in Hl. apply B in Hw. lia.
Qed.

(* a write through locations a value does not contain leaves it unchanged *)
Theorem mutate_disjoint : forall v L,
  (forall l, In l (locs v) -> ~ In l L) -> mutate L v = v.
Proof.
  apply (hv_ind' (fun v => forall L, (forall l, In l (locs v) -> ~ In l L) -> mutate L v = v)).
  - reflexivity.
  - intros l p kids IH L D. simpl.
    assert (E : existsb (Z.eqb l) L = false).
    { destruct (existsb (Z.eqb l) L) eqn:X; [|reflexivity].
      apply existsb_exists in X. destruct X as [x [Hx Ex]]. apply Z.eqb_eq in Ex. subst x.
      exfalso. apply (D l); [left; reflexivity|exact Hx]. }
    rewrite E. f_equal.
    assert (M : forall ks, Forall (fun v => forall L, (forall l, In l (locs v) -> ~ In l L) -> mutate L v = v) ks ->
                           (forall x, In x (flat_map locs ks) -> ~ In x L) -> map (mutate L) ks = ks).
    { induction 1 as [|k t Hk Ht IHt]; intro Dk; simpl; [reflexivity|].
      f_equal.
      - apply Hk. intros x Hx. apply Dk. simpl. apply in_or_app. left; exact Hx.
      - apply IHt. intros x Hx. apply Dk. simpl. apply in_or_app. right; exact Hx. }
    apply M; [exact IH|]. intros x Hx. apply D. right. exact Hx.
Qed.

(* C17 in the ownership model: the database holds `stored` (allocated below
   n); a value handed to the caller through a copying crossing is a fresh
   copy; whatever the caller then overwrites inside ITS value (any set of the
   copy's locations), the stored value is unchanged — and symmetrically for an
   argument that the database keeps a copy of. *)
Theorem copies_do_not_alias stored n L :
  below n stored ->
  (forall l, In l L -> In l (locs (fst (copy_fresh n stored)))) ->
  mutate L stored = stored.
Proof.
  intros B HL. apply mutate_disjoint. intros l Hl Hin.
  apply HL in Hin. eapply copy_is_fresh in Hin; eauto.
Qed.

Theorem kept_copy_independent_of_argument arg n L :
  below n arg ->
  (forall l, In l L -> In l (locs arg)) ->
  mutate L (fst (copy_fresh n arg)) = fst (copy_fresh n arg).
Proof.
  intros B HL. apply mutate_disjoint. intros l Hl Hin.
  apply HL in Hin. eapply copy_is_fresh in Hl; eauto.
Qed.

(* and the refutation of the same statement for a stored reference: handing
   out the stored object itself lets the caller change the database *)
Theorem stored_ref_aliases_refuted :
  exists stored L, (forall l, In l L -> In l (locs stored)) /\ mutate L stored <> stored.
Proof.
  exists (HNode 1 7 []), [1]. split.
  - intros l [<-|[]]. left; reflexivity.
  - simpl. discriminate.
Qed.

Print Assumptions copies_do_not_alias.
Print Assumptions kept_copy_independent_of_argument.

(* ------------------------------------------------------------------ *)
(* bsonkit.Clone at the engine-level boundary *)

Fixpoint clone_list (bin : hv -> bool) (ks : list hv) (m : loc) : list hv * loc :=
  match ks with
  | [] => ([], m)
  | k :: t => let '(k', m1) := clone_share bin m k in
              let '(t', m2) := clone_list bin t m1 in (k' :: t', m2)
  end.

Lemma clone_share_node bin n l p kids :
  clone_share bin n (HNode l p kids) =
  if bin (HNode l p kids) then (HNode l p kids, n)
  else let '(kids', n') := clone_list bin kids (n + 1) in (HNode n p kids', n').
Proof.
  simpl. destruct (bin (HNode l p kids)); [reflexivity|].
  assert (E : forall ks m,
             (fix go (ks : list hv) (m : loc) : list hv * loc :=
                match ks with
                | [] => ([], m)
                | k :: t => let '(k', m1) := clone_share bin m k in
                            let '(t', m2) := go t m1 in (k' :: t', m2)
                end) ks m = clone_list bin ks m).
  { induction ks as [|k t IH]; intro m; simpl; [reflexivity|].
    destruct (clone_share bin m k) as [k' m1]. rewrite IH. reflexivity. }
  rewrite E. reflexivity.
Qed.

(* on a value without binaries Clone IS the fresh copy ... *)
Theorem clone_no_bin_is_copy bin : forall v n,
  no_bin bin v = true -> clone_share bin n v = copy_fresh n v.
Proof.
  apply (hv_ind' (fun v => forall n, no_bin bin v = true -> clone_share bin n v = copy_fresh n v)).
  - reflexivity.
  - intros l p kids IH n H. cbn [no_bin] in H. apply andb_true_iff in H. destruct H as [Hb Hk].
    apply negb_true_iff in Hb. rewrite clone_share_node, Hb, copy_fresh_node.
    assert (E : forall m, clone_list bin kids m = copy_list kids m).
    { clear Hb. induction IH as [|k t Hk1 Ht IHt]; intro m; simpl; [reflexivity|].
      simpl in Hk. apply andb_true_iff in Hk. destruct Hk as [Hk2 Hk3].
      rewrite (Hk1 m Hk2). destruct (copy_fresh m k) as [k' m1].
      rewrite (IHt Hk3 m1). reflexivity. }
    rewrite E. reflexivity.
Qed.

(* ... so whatever the caller overwrites inside its argument afterwards, the
   clone the transaction keeps is unchanged *)
Theorem engine_clone_independent_partial bin arg n L :
  no_bin bin arg = true -> below n arg ->
  (forall l, In l L -> In l (locs arg)) ->
  mutate L (fst (clone_share bin n arg)) = fst (clone_share bin n arg).
Proof.
  intros Hb B HL. rewrite (clone_no_bin_is_copy bin arg n Hb).
  apply kept_copy_independent_of_argument; assumption.
Qed.

(* the full statement (without no_bin) is false of the faithful model: the
   bytes of a Binary inside the argument are shared with the clone.  This is
   the recorded finding C17:engine-level-argument-binary-bytes-shared; the
   witness is a document with one binary field whose bytes are overwritten. *)
Definition leaf_is_binary (v : hv) : bool :=
  match v with HNode _ _ [] => true | _ => false end.

Theorem engine_clone_independent_refuted :
  exists arg n L,
    below n arg /\ (forall l, In l L -> In l (locs arg)) /\
    mutate L (fst (clone_share leaf_is_binary n arg)) <> fst (clone_share leaf_is_binary n arg).
Proof.
  exists (HNode 1 7 [HNode 2 9 []]), 10, [2]. split; [|split].
  - intros l Hl. simpl in Hl. destruct Hl as [<-|[<-|[]]]; lia.
  - intros l [<-|[]]. simpl. right. left. reflexivity.
  - vm_compute. discriminate.
Qed.

(* non-vacuity of the partial statement: a nested document without binaries *)
Example engine_clone_partial_nonvacuous :
  no_bin leaf_is_binary (HNode 1 7 [HNode 2 9 [HScalar 3]; HScalar 4]) = true /\
  below 10 (HNode 1 7 [HNode 2 9 [HScalar 3]; HScalar 4]).
Proof.
  split; [reflexivity|]. intros l Hl. simpl in Hl. destruct Hl as [<-|[<-|[]]]; lia.
Qed.
