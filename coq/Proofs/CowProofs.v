(* CowProofs.v — a value rebuilt with fresh locations shares no location with
   anything that existed before; a write through locations a value does not
   contain leaves it unchanged.  Hence, when every boundary crossing is a copy,
   scribbling over caller-owned values never changes database values and vice
   versa (C17). *)
From Coq Require Import List ZArith Lia Bool.
From Lungo.Model Require Import Cow.
Import ListNotations.
Open Scope Z_scope.

Definition below (n : loc) (v : hv) : Prop := forall l, In l (locs v) -> l < n.
Definition from (n : loc) (v : hv) : Prop := forall l, In l (locs v) -> n <= l.

Section HvInd.
  Variable P : hv -> Prop.
  Hypothesis Hs : forall p, P (HScalar p).
  Hypothesis Hn : forall l p kids, Forall P kids -> P (HNode l p kids).
  Fixpoint hv_ind' (v : hv) : P v :=
    match v with
    | HScalar p => Hs p
    | HNode l p kids =>
        Hn l p kids ((fix go (ks : list hv) : Forall P ks :=
                        match ks with
                        | [] => Forall_nil P
                        | k :: t => Forall_cons k (hv_ind' k) (go t)
                        end) kids)
    end.
End HvInd.

(* the kids loop of copy_fresh as a function *)
Fixpoint copy_list (ks : list hv) (m : loc) : list hv * loc :=
  match ks with
  | [] => ([], m)
  | k :: t => let '(k', m1) := copy_fresh m k in
              let '(t', m2) := copy_list t m1 in (k' :: t', m2)
  end.

Lemma copy_fresh_node n l p kids :
  copy_fresh n (HNode l p kids) =
  let '(kids', n') := copy_list kids (n + 1) in (HNode n p kids', n').
Proof.
  simpl.
  assert (E : forall ks m,
             (fix go (ks : list hv) (m : loc) : list hv * loc :=
                match ks with
                | [] => ([], m)
                | k :: t => let '(k', m1) := copy_fresh m k in
                            let '(t', m2) := go t m1 in (k' :: t', m2)
                end) ks m = copy_list ks m).
  { induction ks as [|k t IH]; intro m; simpl; [reflexivity|].
    destruct (copy_fresh m k) as [k' m1]. rewrite IH. reflexivity. }
  rewrite E. reflexivity.
Qed.

(* the copy uses exactly the locations n .. n'-1 *)
Lemma copy_fresh_range : forall v n,
  let '(v', n') := copy_fresh n v in
  n <= n' /\ (forall l, In l (locs v') -> n <= l < n').
Proof.
  apply (hv_ind' (fun v => forall n, let '(v', n') := copy_fresh n v in
                                     n <= n' /\ (forall l, In l (locs v') -> n <= l < n'))).
  - intros p n. simpl. split; [lia|]. intros l [].
  - intros l p kids IH n. rewrite copy_fresh_node.
    assert (L : forall m, let '(ks', m') := copy_list kids m in
                          m <= m' /\ (forall x, In x (flat_map locs ks') -> m <= x < m')).
    { induction IH as [|k t Hk Ht IHt]; intro m; simpl.
      - split; [lia|]. intros x [].
      - specialize (Hk m). destruct (copy_fresh m k) as [k' m1].
        specialize (IHt m1). destruct (copy_list t m1) as [t' m2].
        destruct Hk as [H1 H2]. destruct IHt as [H3 H4].
        split; [lia|]. intros x Hx. simpl in Hx. apply in_app_or in Hx.
        destruct Hx as [Hx|Hx]; [apply H2 in Hx|apply H4 in Hx]; lia. }
    specialize (L (n + 1)). destruct (copy_list kids (n + 1)) as [ks' m'].
    destruct L as [L1 L2]. split; [lia|].
    intros x Hx. simpl in Hx. destruct Hx as [<-|Hx]; [lia|]. apply L2 in Hx. lia.
Qed.

(* a fresh copy shares no location with anything allocated before *)
Theorem copy_is_fresh v n w :
  below n w -> forall l, In l (locs (fst (copy_fresh n v))) -> ~ In l (locs w).
Proof.
  intros B l Hl Hw. pose proof (copy_fresh_range v n) as R.
  destruct (copy_fresh n v) as [v' n']. simpl in Hl. destruct R as [_ R].
  apply R in Hl. apply B in Hw. lia.
Qed.

(* a write through locations a value does not contain leaves it unchanged *)
Theorem mutate_disjoint : forall v L,
  (forall l, In l (locs v) -> ~ In l L) -> mutate L v = v.
Proof.
  apply (hv_ind' (fun v => forall L, (forall l, In l (locs v) -> ~ In l L) -> mutate L v = v)).
  - reflexivity.
  - intros l p kids IH L D. simpl.
    assert (E : existsb (Z.eqb l) L = false).
    { destruct (existsb (Z.eqb l) L) eqn:X; [|reflexivity].
      apply existsb_exists in X. destruct X as [x [Hx Ex]]. apply Z.eqb_eq in Ex. subst x.
      exfalso. apply (D l); [left; reflexivity|exact Hx]. }
    rewrite E. f_equal.
    assert (M : forall ks, Forall (fun v => forall L, (forall l, In l (locs v) -> ~ In l L) -> mutate L v = v) ks ->
                           (forall x, In x (flat_map locs ks) -> ~ In x L) -> map (mutate L) ks = ks).
    { induction 1 as [|k t Hk Ht IHt]; intro Dk; simpl; [reflexivity|].
      f_equal.
      - apply Hk. intros x Hx. apply Dk. simpl. apply in_or_app. left; exact Hx.
      - apply IHt. intros x Hx. apply Dk. simpl. apply in_or_app. right; exact Hx. }
    apply M; [exact IH|]. intros x Hx. apply D. right. exact Hx.
Qed.

(* C17 in the ownership model: the database holds `stored` (allocated below
   n); a value handed to the caller through a copying crossing is a fresh
   copy; whatever the caller then overwrites inside ITS value (any set of the
   copy's locations), the stored value is unchanged — and symmetrically for an
   argument that the database keeps a copy of. *)
Theorem copies_do_not_alias stored n L :
  below n stored ->
  (forall l, In l L -> In l (locs (fst (copy_fresh n stored)))) ->
  mutate L stored = stored.
Proof.
  intros B HL. apply mutate_disjoint. intros l Hl Hin.
  apply HL in Hin. eapply copy_is_fresh in Hin; eauto.
Qed.

Theorem kept_copy_independent_of_argument arg n L :
  below n arg ->
  (forall l, In l L -> In l (locs arg)) ->
  mutate L (fst (copy_fresh n arg)) = fst (copy_fresh n arg).
Proof.
  intros B HL. apply mutate_disjoint. intros l Hl Hin.
  apply HL in Hin. eapply copy_is_fresh in Hl; eauto.
Qed.

(* and the refutation of the same statement for a stored reference: handing
   out the stored object itself lets the caller change the database *)
Theorem stored_ref_aliases_refuted :
  exists stored L, (forall l, In l L -> In l (locs stored)) /\ mutate L stored <> stored.
Proof.
  exists (HNode 1 7 []), [1]. split.
  - intros l [<-|[]]. left; reflexivity.
  - simpl. discriminate.
Qed.

Print Assumptions copies_do_not_alias.
Print Assumptions kept_copy_independent_of_argument.
