(* NoPanicOps.v — C20 for the bsonkit access functions that can fail
   (Put), mongokit.Columns (sort documents) and mongokit.Project.

   Get / All / Unset / Compare / Order / Sort / Distinct / Collect have no
   outcome type in the model: the Go functions contain no panic site that the
   modellers found, every loop is a structural recursion, and so the model
   functions are plain total Gallina functions; for those the C20 claim rests on
   the correspondence families (recover() around every real call). *)
From Coq Require Import List ZArith Lia Bool String.
From Lungo.Model Require Import Access Lists Project Match.
From Lungo.Proofs Require Import NoPanicBase NoPanicMatch KeyPaths SliceWindow ProjectProofs.
Import ListNotations.
Open Scope string_scope.

(* ------------------------------------------------------------------ *)
(* bsonkit.Put: the type assertion of the top-level setter cannot fail *)

Theorem Put_total d ps v pre : total (Put d ps v pre).
Proof.
  apply total_iff. split; [apply Put_no_panic|].
  unfold Put, put_path. destruct (is_missing v); [split; discriminate|].
  destruct (put (VDoc d) (split_path ps) v pre) as [[old v']|]; [|split; discriminate].
  destruct v'; split; discriminate.
Qed.

Lemma Put_safe d ps v pre : safe (Put d ps v pre).
Proof. apply total_safe. apply Put_total. Qed.

(* ------------------------------------------------------------------ *)
(* mongokit.Columns: any sort document *)

Theorem columns_total s : total (columns s).
Proof.
  induction s as [|[k v] t IH]; cbn [columns]; [exact I|].
  destruct (direction_of v) as [dir|]; [|exact I].
  destruct ((dir =? 1)%Z || (dir =? -1)%Z); [|exact I].
  apply bind_total; [exact IH|]. intros rest _. exact I.
Qed.

Lemma columns_safe s : safe (columns s).
Proof. apply total_safe. apply columns_total. Qed.

(* ------------------------------------------------------------------ *)
(* mongokit.Project *)

(* $slice: for a well-typed argument the window arithmetic stays inside the
   array (SliceWindow.v); model lists longer than any Go slice are Unmodelled *)
Lemma project_slice_safe st d o k x : wf x = true -> safe (project_slice st d o k x).
Proof.
  intro Hw.
  assert (Hfrom : (forall a, Get d k = VArr a -> (len a < two63 - two31)%Z) ->
                  safe (project_slice st d o k x)).
  { intro Hlen. destruct (slice_total st d o k x Hw Hlen) as [H|[st' H]]; rewrite H; exact I. }
  destruct (Get d k) eqn:Eg; try (apply Hfrom; intros a' E; discriminate E).
  destruct (max_slice_len <=? len a)%Z eqn:El.
  - unfold project_slice. rewrite Eg, El.
    match goal with |- safe (bind ?A _) => assert (Ha : safe A) end.
    { destruct x; try exact I;
        try (match goal with |- safe (match ?X with _ => _ end) => destruct X end; exact I).
      destruct a0 as [|x0 [|y0 [|z0 t0]]]; try exact I.
        destruct (project_slice_int x0); [|exact I].
        destruct (project_slice_int y0) as [l|]; [|exact I]. destruct (l <? 0)%Z; exact I. }
    apply bind_safe_all; [exact Ha|]. intros [[sk li] hs]. exact I.
  - apply Hfrom. intros a' E. inversion E. subst a'. apply Z.leb_gt in El. exact El.
Qed.

Section ProjectSafe.
  Variable matchf : doc -> doc -> res bool.
  Hypothesis matchf_safe : forall x y, safe (matchf x y).

  Notation pctx := (projection_context matchf).

  Lemma copy_included_safe d skip paths r : safe (copy_included d skip paths r).
  Proof.
    revert r. induction paths as [|p0 t IH]; intro r; cbn [copy_included]; [exact I|].
    destruct (str_mem p0 skip); [apply IH|]. destruct (is_missing (Get d p0)); [apply IH|].
    apply bind_safe_all; [apply Put_safe|]. intros [o r']. apply IH.
  Qed.

  Lemma apply_merges_safe m r : safe (apply_merges m r).
  Proof.
    revert r. induction m as [|[q v] t IH]; intro r; cbn [apply_merges]; [exact I|].
    apply bind_safe_all; [apply Put_safe|]. intros [o r']. apply IH.
  Qed.

  Lemma project_state_safe st d : safe (project_state st d).
  Proof.
    unfold project_state.
    assert (Hrest : forall r1 : res doc, safe r1 ->
              safe (let* r := r1 in let* r := apply_merges (ps_merge st) r in
                    Ok (if ps_hide_id st then snd (Unset r "_id") else r))).
    { intros r1 H1. apply bind_safe_all; [exact H1|]. intro r.
      apply bind_safe_all; [apply apply_merges_safe|]. intro r'. exact I. }
    destruct (ps_include st) as [|i0 il].
    - destruct (ps_exclude st); apply Hrest; exact I.
    - destruct (ps_exclude st) as [|e0 el]; [|exact I].
      apply Hrest. apply bind_safe_all; [apply Put_safe|]. intros [o r0]. apply copy_included_safe.
  Qed.

  Variable d : doc.

  Lemma first_match_safe a q : safe (first_match matchf a q).
  Proof.
    induction a as [|x t IH]; cbn [first_match]; [exact I|].
    apply bind_safe_all; [apply matchf_safe|]. intros [|]; [exact I|exact IH].
  Qed.

  Lemma operator_safe o st k x (op : operator pstate) :
    wf x = true -> op_lookup pstate (ctx_expression pctx) o = Some op -> safe (op st d o k x).
  Proof.
    intros Hw Hl. cbn [ctx_expression projection_context projection_operators op_lookup] in Hl.
    destruct (String.eqb "" o).
    { inversion Hl. unfold project_condition. apply bind_safe_all.
      - unfold condition_value. destruct x; try exact I;
          destruct (compare _ (VInt64 1)); try exact I; destruct (compare _ (VInt64 0)); exact I.
      - intro b. destruct b; [exact I|]. destruct (String.eqb k "_id"); exact I. }
    destruct (String.eqb "$slice" o).
    { inversion Hl. apply project_slice_safe. exact Hw. }
    destruct (String.eqb "$elemMatch" o); [|discriminate].
    inversion Hl. unfold project_elem_match. destruct x; try exact I.
    destruct (Get d k); try exact I.
    apply bind_safe_all; [apply first_match_safe|]. intros [item|]; exact I.
  Qed.

  Lemma process_ops_safe st k exps :
    wf (VDoc exps) = true -> safe (process_ops pctx st d k exps).
  Proof.
    revert st. induction exps as [|[o x] t IH]; intros st Hw; cbn [process_ops]; [exact I|].
    destruct (negb (is_operator_key o)); [exact I|].
    destruct (op_lookup pstate (ctx_expression pctx) o) as [op|] eqn:El; [|exact I].
    change (wf x && wf (VDoc t) = true) in Hw. apply andb_prop in Hw. destruct Hw as [Hx Ht].
    apply bind_safe_all; [exact (operator_safe o st k x op Hx El)|]. intro st'. exact (IH st' Ht).
  Qed.

  Lemma process_expression_safe st k v :
    wf v = true -> safe (process_expression pctx st d "" (k, v) true).
  Proof.
    intro Hw. unfold process_expression. destruct (is_operator_key k); [exact I|].
    cbn [join_prefix String.eqb].
    assert (Hs : safe match op_lookup pstate (ctx_expression pctx) "" with
                      | Some op => op st d "" k v
                      | None => if ctx_skip_missing pstate pctx then Ok st else Err
                      end).
    { destruct (op_lookup pstate (ctx_expression pctx) "") as [op|] eqn:El; [|exact I].
      exact (operator_safe "" st k v op Hw El). }
    destruct v; try exact Hs. destruct d0 as [|[k0 v0] t]; [exact Hs|].
    destruct (is_operator_key k0); [|exact Hs]. apply process_ops_safe. exact Hw.
  Qed.

  Lemma process_safe st pr : wf (VDoc pr) = true -> safe (process pctx st d pr "" true).
  Proof.
    revert st. induction pr as [|[k v] t IH]; intros st Hw; cbn [process]; [exact I|].
    change (wf v && wf (VDoc t) = true) in Hw. apply andb_prop in Hw. destruct Hw as [Hv Ht].
    apply bind_safe_all; [exact (process_expression_safe st k v Hv)|]. intro st'. exact (IH st' Ht).
  Qed.

  Theorem project_with_safe pr : wf (VDoc pr) = true -> safe (project_with matchf d pr).
  Proof.
    intro Hw. unfold project_with, project_process.
    apply bind_safe_all; [apply process_safe; exact Hw|]. intro st. apply project_state_safe.
  Qed.
End ProjectSafe.

(* the projection document is well-typed: its int32 values fit 32 bits (an
   int32 is not clamped by projectSliceInt because it cannot be out of range) *)
Theorem Project_safe d pr : wf (VDoc pr) = true -> safe (Project d pr).
Proof. intro Hw. apply project_with_safe; [intros; apply Match_safe|exact Hw]. Qed.

(* the hypothesis is needed by the model: an "int32" outside the int32 range
   (not a Go value) reaches the window arithmetic unclamped *)
Example Project_needs_wf :
  Project [("a", VArr [VInt32 1])] [("a", VDoc [("$slice", VArr [VInt32 1; VInt32 9223372036854775807])])]
  = Panic.
Proof. vm_compute. reflexivity. Qed.
