(* NoPanicMatch.v — C20 for mongokit.Match and bsonkit.Schema.Evaluate: for
   ALL documents and ALL filters (any shape, any operator argument) the model
   returns a result or an error.  The matcher is structurally recursive, so
   there is no fuel; what is proved is that no panic site is reachable. *)
From Coq Require Import List ZArith Lia Bool String.
From Lungo.Model Require Import Match.
From Lungo.Proofs Require Import NoPanicBase.
Import ListNotations.

(* ------------------------------------------------------------------ *)
(* the three-valued combinators *)

Lemma and_then_safe r k : safe r -> safe k -> safe (and_then r k).
Proof. destruct r as [[|]| | | |]; cbn; tauto. Qed.

Lemma or_else_safe r k : safe r -> safe k -> safe (or_else r k).
Proof. destruct r as [[|]| | | |]; cbn; tauto. Qed.

Lemma negate_safe r : safe r -> safe (negate r).
Proof. destruct r; cbn; tauto. Qed.

Lemma first_ok_safe op l rest :
  (forall x, safe (op x)) -> safe rest -> safe (first_ok op l rest).
Proof.
  intros H Hr. induction l as [|x t IH]; cbn [first_ok]; [exact Hr|].
  apply or_else_safe; [apply H|exact IH].
Qed.

Lemma leaf_match_safe op v : (forall x, safe (op x)) -> safe (leaf_match op v).
Proof.
  intro H. unfold leaf_match. destruct v; try apply H. apply first_ok_safe; [exact H|apply H].
Qed.

Lemma unwind_safe d path y op : (forall x, safe (op x)) -> safe (unwind d path y op).
Proof.
  intro H. unfold unwind. destruct (All d path true false) as [value multi].
  destruct multi; [|apply leaf_match_safe; exact H].
  assert (Hd : safe (if y then op value else Ok false)) by (destruct y; [apply H|exact I]).
  destruct value; try exact Hd.
  apply first_ok_safe; [intro x; apply leaf_match_safe; exact H|exact Hd].
Qed.

Lemma kw_loop_safe f l : (forall k kv, safe (f k kv)) -> safe (kw_loop f l).
Proof.
  intro H. induction l as [|[k kv] t IH]; cbn [kw_loop]; [exact I|].
  apply and_then_safe; [apply H|exact IH].
Qed.

Ltac brk :=
  repeat match goal with
         | |- safe (if ?c then _ else _) => destruct c
         | |- safe (match ?x with _ => _ end) => destruct x
         end; try exact I.

(* ------------------------------------------------------------------ *)
(* the expression operators *)

Lemma comp_test_safe op v field : safe (comp_test op v field).
Proof. unfold comp_test. destruct (cmp_holds op field v); exact I. Qed.

Lemma match_comp_safe d op path v : safe (match_comp d op path v).
Proof. apply unwind_safe. apply comp_test_safe. Qed.

Lemma in_test_safe v field : safe (in_test v field).
Proof. unfold in_test. destruct v; exact I. Qed.

Lemma match_in_safe d path v : safe (match_in d path v).
Proof. apply unwind_safe. apply in_test_safe. Qed.

Lemma match_exists_safe d path v : safe (match_exists d path v).
Proof. unfold match_exists. destruct (All d path true false). exact I. Qed.

Lemma resolve_type_safe v : safe (resolve_type v).
Proof. unfold resolve_type. brk. Qed.

Lemma match_type_safe d path v : safe (match_type d path v).
Proof.
  unfold match_type.
  assert (H : forall l, safe (match mapM resolve_type l with
                             | Ok rs => unwind d path false
                                          (type_test (existsb fst rs)
                                             (map snd (filter (fun r => negb (fst r)) rs)))
                             | Err => Err | Panic => Panic | OutOfFuel => OutOfFuel
                             | Unmodelled => Unmodelled end)).
  { intro l. apply safe_match_prop.
    - apply mapM_safe. intros x _. apply resolve_type_safe.
    - intro rs. apply unwind_safe. intro x. unfold type_test. destruct (is_missing x); exact I. }
  destruct v; try apply H. destruct a; [exact I|apply H].
Qed.

Lemma all_test_safe v field : safe (all_test v field).
Proof. unfold all_test. destruct v; try exact I. destruct a; exact I. Qed.

Lemma match_all_safe d path v : safe (match_all d path v).
Proof. apply unwind_safe. apply all_test_safe. Qed.

Lemma size_arg_safe v : safe (size_arg v).
Proof. unfold size_arg. brk. Qed.

Lemma match_size_safe d path v : safe (match_size d path v).
Proof.
  unfold match_size. apply safe_match_prop; [apply size_arg_safe|].
  intro size. destruct (All d path true false) as [value multi]. brk.
Qed.

Lemma mod_operand_safe v : safe (mod_operand v).
Proof. unfold mod_operand. brk. Qed.

Lemma match_mod_safe d path v : safe (match_mod d path v).
Proof.
  unfold match_mod. destruct v; try exact I.
  destruct a as [|a [|b [|c t]]]; try exact I.
  apply safe_match_prop; [apply mod_operand_safe|]. intro dv.
  apply safe_match_prop; [apply mod_operand_safe|]. intro rm.
  destruct (dv =? 0)%Z; [exact I|]. apply unwind_safe. intro x.
  unfold mod_test. destruct (number_to_int64 x); exact I.
Qed.

Lemma parse_bit_pos_safe v : safe (parse_bit_pos v).
Proof. unfold parse_bit_pos. brk. Qed.

Lemma parse_bit_mask_safe v : safe (parse_bit_mask v).
Proof.
  unfold parse_bit_mask. destruct v; brk.
  apply mapM_safe. intros x _. apply parse_bit_pos_safe.
Qed.

Lemma bits_test_safe op ps field : safe (bits_test op ps field).
Proof. unfold bits_test. destruct (bit_accessor field); brk. Qed.

Lemma match_bits_safe d op path v : safe (match_bits d op path v).
Proof.
  unfold match_bits. apply safe_match_prop; [apply parse_bit_mask_safe|].
  intro ps. apply unwind_safe. apply bits_test_safe.
Qed.

(* ------------------------------------------------------------------ *)
(* $jsonSchema: bsonkit/schema.go *)

Lemma sch_type_safe vc kv : safe (sch_type vc kv).
Proof.
  unfold sch_type. destruct kv; try exact I.
  - destruct (assoc s json_type_class); exact I.
  - assert (H : forall l b, safe
      ((fix go (l : list value) (valid : bool) {struct l} : res bool :=
          match l with
          | [] => Ok valid
          | VString s :: t =>
              match assoc s json_type_class with
              | None => Err
              | Some c => go t (valid || class_eqb vc c)
              end
          | _ :: _ => Err
          end) l b)).
    { induction l as [|y l IH]; intro b; [exact I|].
      destruct y; try exact I. destruct (assoc s json_type_class); [apply IH|exact I]. }
    destruct a as [|x t]; [exact I|exact (H (x :: t) false)].
Qed.

Lemma sch_bsontype_safe vc vt kv : safe (sch_bsontype vc vt kv).
Proof.
  unfold sch_bsontype. destruct kv; try exact I.
  - destruct (bson_type_test vc vt s); exact I.
  - assert (H : forall l b, safe
      ((fix go (l : list value) (valid : bool) {struct l} : res bool :=
          match l with
          | [] => Ok valid
          | VString s :: t =>
              match bson_type_test vc vt s with
              | None => Err
              | Some b => go t (valid || b)
              end
          | _ :: _ => Err
          end) l b)).
    { induction l as [|y l IH]; intro b; [exact I|].
      destruct y; try exact I. destruct (bson_type_test vc vt s); [apply IH|exact I]. }
    destruct a as [|x t]; [exact I|exact (H (x :: t) false)].
Qed.

Lemma sch_enum_safe v kv : safe (sch_enum v kv).
Proof. unfold sch_enum. destruct kv; try exact I. destruct a; exact I. Qed.

Lemma num_preflight_safe all l emin emax : safe (num_preflight all l emin emax).
Proof.
  revert emin emax. induction l as [|[k kv] t IH]; intros emin emax; cbn [num_preflight]; [exact I|].
  destruct (String.eqb k "exclusiveMinimum").
  { destruct kv; try exact I. destruct (is_missing (Get all "minimum")); [exact I|apply IH]. }
  destruct (String.eqb k "exclusiveMaximum").
  { destruct kv; try exact I. destruct (is_missing (Get all "maximum")); [exact I|apply IH]. }
  apply IH.
Qed.

Lemma sch_number_kw_safe emin emax num k kv : safe (sch_number_kw emin emax num k kv).
Proof. unfold sch_number_kw. brk. Qed.

Lemma sch_number_safe kws num : safe (sch_number kws num).
Proof.
  unfold sch_number. apply safe_match_prop; [apply num_preflight_safe|].
  intros [emin emax]. apply kw_loop_safe. intros k kv. apply sch_number_kw_safe.
Qed.

Lemma sch_len_bound_safe lower n kv : safe (sch_len_bound lower n kv).
Proof. unfold sch_len_bound. brk. Qed.

Lemma sch_string_kw_safe str k kv : safe (sch_string_kw str k kv).
Proof.
  unfold sch_string_kw.
  destruct (String.eqb k "minLength"); [apply sch_len_bound_safe|].
  destruct (String.eqb k "maxLength"); [apply sch_len_bound_safe|]. brk.
Qed.

Lemma sch_required_list_safe doc l : safe (sch_required_list doc l).
Proof.
  induction l as [|x t IH]; cbn [sch_required_list]; [exact I|].
  destruct x; try exact I. destruct (is_missing (Get doc s)); [exact I|exact IH].
Qed.

Lemma sch_required_safe doc kv : safe (sch_required doc kv).
Proof.
  unfold sch_required. destruct kv; try exact I. destruct a; [exact I|apply sch_required_list_safe].
Qed.

Lemma sch_props_preflight_kw_safe k kv : safe (sch_props_preflight_kw k kv).
Proof. unfold sch_props_preflight_kw. brk. Qed.

Lemma sch_items_preflight_kw_safe k kv : safe (sch_items_preflight_kw k kv).
Proof. unfold sch_items_preflight_kw. brk. Qed.

(* ------------------------------------------------------------------ *)
(* Schema.Evaluate: strong induction on the size of the schema (the model
   recurses into children and grandchildren of the schema document) *)

Definition sch_ok (s : value) : Prop := forall v, safe (sch s v).

Definition osafe (o : option (res bool)) : Prop :=
  match o with Some r => safe r | None => True end.

Lemma safe_opt (o : option (res bool)) (k : res bool) :
  osafe o -> safe k -> safe (match o with Some r => r | None => k end).
Proof. destruct o; cbn; auto. Qed.

(* goal `safe (F l)` with F a local fixpoint over lists: generalise to every
   sublist of l *)
Ltac over l :=
  match goal with
  | |- safe (?F l) =>
      let G := fresh "G" in
      cut (forall l', incl l' l -> safe (F l')); [intro G; apply G; apply incl_refl|]
  end.

Ltac oover l :=
  match goal with
  | |- osafe (?F l) =>
      let G := fresh "G" in
      cut (forall l', incl l' l -> osafe (F l')); [intro G; apply G; apply incl_refl|]
  end.

Lemma safe_nonempty {A B} (l : list A) (r : res B) :
  safe r -> safe (match l with [] => Err | _ :: _ => r end).
Proof. destruct l; cbn; auto. Qed.

Lemma incl_cons_l {A} (x : A) t l : incl (x :: t) l -> In x l /\ incl t l.
Proof. intro H. split; [apply H; left; reflexivity|]. intros y Hy. apply H. right. exact Hy. Qed.

(* goal `safe (match a with [] => Err | x :: t => F (x :: t) [acc] end)` with F
   a local fixpoint: reduce to `forall l [acc], incl l a -> safe (F l [acc])` *)
Ltac nonempty_fix :=
  match goal with
  | |- safe (match ?a with [] => Err | x :: t => @?B x t end) =>
      let Bx := eval cbv beta in (B VNull (@nil value)) in
      lazymatch Bx with
      | ?F a ?acc =>
          cut (forall l acc', incl l a -> safe (F l acc'));
          [ let G := fresh "G" in intro G; apply safe_nonempty; apply G; apply incl_refl | ]
      | ?F a =>
          cut (forall l, incl l a -> safe (F l));
          [ let G := fresh "G" in intro G; apply safe_nonempty; apply G; apply incl_refl | ]
      end
  end.

Lemma sch_step n :
  (forall s, (vsize s <= n)%nat -> sch_ok s) -> forall s, (vsize s <= S n)%nat -> sch_ok s.
Proof.
  intros IH s Hs v. destruct s; try exact I. rename d into kws.
  rewrite vsize_doc in Hs.
  assert (H1 : forall k kv, In (k, kv) kws -> sch_ok kv).
  { intros k kv Hin. apply IH. pose proof (dsize_in _ _ _ Hin). lia. }
  assert (H2a : forall k l x, In (k, VArr l) kws -> In x l -> sch_ok x).
  { intros k l x Hin Hx. apply IH. pose proof (dsize_in _ _ _ Hin) as Hd.
    rewrite vsize_arr in Hd. pose proof (asize_in _ _ Hx). lia. }
  assert (H2d : forall k l k' x, In (k, VDoc l) kws -> In (k', x) l -> sch_ok x).
  { intros k l k' x Hin Hx. apply IH. pose proof (dsize_in _ _ _ Hin) as Hd.
    rewrite vsize_doc in Hd. pose proof (dsize_in _ _ _ Hx). lia. }
  clear IH Hs.
  (* the schema held by the last additionalProperties / additionalItems keyword *)
  assert (Hadd : forall name x l cur, incl l kws -> osafe cur ->
    osafe ((fix addl (l : list (string * value)) (cur : option (res bool)) {struct l}
              : option (res bool) :=
              match l with
              | [] => cur
              | (k, kv) :: t =>
                  if String.eqb k name
                  then match kv with
                       | VBool false => addl t None
                       | VDoc _ => addl t (Some (sch kv x))
                       | _ => addl t cur
                       end
                  else addl t cur
              end) l cur)).
  { intros name x l. induction l as [|[k kv] t IHl]; intros cur Hi Hc; [exact Hc|].
    apply incl_cons_l in Hi. destruct Hi as [Hin Hi].
    destruct (String.eqb k name); [|apply IHl; assumption].
    destruct kv; try (apply IHl; assumption).
    - apply IHl; [assumption|]. exact (H1 _ _ Hin x).
    - destruct b; apply IHl; try assumption. exact I. }
  cbn [sch].
  destruct (negb (is_missing (Get kws "type")) && negb (is_missing (Get kws "bsonType"))); [exact I|].
  apply and_then_safe.
  { (* evaluateGeneric *)
    over kws. induction l' as [|[k kv] t IHl]; intro Hi; [exact I|].
    apply incl_cons_l in Hi. destruct Hi as [Hin Hi].
    apply and_then_safe; [|apply IHl; exact Hi]. clear IHl.
    destruct (String.eqb k "type"); [apply sch_type_safe|].
    destruct (String.eqb k "bsonType"); [apply sch_bsontype_safe|].
    destruct (String.eqb k "enum"); [apply sch_enum_safe|].
    destruct (String.eqb k "allOf").
    { destruct kv; try exact I. nonempty_fix.
      induction l as [|y l IHl]; intro Hl; [exact I|].
      apply incl_cons_l in Hl. destruct Hl as [Hy Hl].
      destruct y; try exact I. apply and_then_safe; [exact (H2a _ _ _ Hin Hy v)|apply IHl; exact Hl]. }
    destruct (String.eqb k "anyOf").
    { destruct kv; try exact I. nonempty_fix.
      induction l as [|y l IHl]; intros acc Hl; [exact I|].
      apply incl_cons_l in Hl. destruct Hl as [Hy Hl].
      destruct y; try exact I. pose proof (H2a _ _ _ Hin Hy v) as Hs.
      destruct (sch (VDoc d) v) as [[|]| | | |]; try exact Hs; apply IHl; exact Hl. }
    destruct (String.eqb k "oneOf").
    { destruct kv; try exact I. nonempty_fix.
      induction l as [|y l IHl]; intros acc Hl; [exact I|].
      apply incl_cons_l in Hl. destruct Hl as [Hy Hl].
      destruct y; try exact I. pose proof (H2a _ _ _ Hin Hy v) as Hs.
      destruct (sch (VDoc d) v) as [[|]| | | |]; try exact Hs; apply IHl; exact Hl. }
    destruct (String.eqb k "not"); [|exact I].
    destruct kv; try exact I. apply negate_safe. exact (H1 _ _ Hin v). }
  destruct v; try exact I; try apply sch_number_safe.
  - apply kw_loop_safe. intros k kv. apply sch_string_kw_safe.
  - (* object keywords *)
    rename d into doc. apply and_then_safe; [|apply and_then_safe].
    + over kws. induction l' as [|[k kv] t IHl]; intro Hi; [exact I|].
      apply incl_cons_l in Hi. destruct Hi as [Hin Hi].
      apply and_then_safe; [|apply IHl; exact Hi]. clear IHl.
      destruct (String.eqb k "required"); [apply sch_required_safe|].
      destruct (String.eqb k "minProperties"); [apply sch_len_bound_safe|].
      destruct (String.eqb k "maxProperties"); [apply sch_len_bound_safe|].
      destruct (String.eqb k "dependencies"); [|exact I].
      destruct kv; try exact I. rename d into deps. over deps.
      induction l' as [|[dk dv] dt IHd]; intro Hd; [exact I|].
      apply incl_cons_l in Hd. destruct Hd as [Hdin Hd].
      apply and_then_safe; [|apply IHd; exact Hd].
      destruct dv; try exact I.
      * destruct (is_missing (Get doc dk)); [exact I|]. exact (H2d _ _ _ _ Hin Hdin (VDoc doc)).
      * destruct a; [exact I|apply sch_required_list_safe].
    + apply kw_loop_safe. intros k kv. apply sch_props_preflight_kw_safe.
    + over doc. induction l' as [|[mk mv] mt IHm]; intro Hm; [exact I|].
      apply incl_cons_l in Hm. destruct Hm as [_ Hm].
      apply and_then_safe; [|apply IHm; exact Hm]. clear IHm.
      apply safe_opt.
      * (* properties[key] *)
        oover kws. induction l' as [|[k kv] t IHl]; intro Hi; [exact I|].
        apply incl_cons_l in Hi. destruct Hi as [Hin Hi]. specialize (IHl Hi).
        cbn beta iota.
        match goal with |- osafe (match ?X with Some r => Some r | None => _ end) =>
          destruct X; [exact IHl|] end.
        destruct (String.eqb k "properties"); [|exact I].
        destruct kv; try exact I. rename d into props.
        oover props. induction l' as [|[pk ps] pt IHp]; intro Hp; [exact I|].
        apply incl_cons_l in Hp. destruct Hp as [Hpin Hp]. specialize (IHp Hp).
        cbn beta iota.
        match goal with |- osafe (match ?X with Some r => Some r | None => _ end) =>
          destruct X; [exact IHp|] end.
        destruct (String.eqb pk mk); [|exact I]. exact (H2d _ _ _ _ Hin Hpin mv).
      * apply safe_opt; [|exact I]. apply Hadd; [apply incl_refl|exact I].
  - (* array keywords *)
    rename a into arr. apply and_then_safe.
    + apply kw_loop_safe. intros k kv. apply sch_items_preflight_kw_safe.
    + over kws. induction l' as [|[k kv] t IHl]; intro Hi; [exact I|].
      apply incl_cons_l in Hi. destruct Hi as [Hin Hi].
      apply and_then_safe; [|apply IHl; exact Hi]. clear IHl.
      destruct (String.eqb k "minItems"); [apply sch_len_bound_safe|].
      destruct (String.eqb k "maxItems"); [apply sch_len_bound_safe|].
      destruct (String.eqb k "uniqueItems"); [destruct kv; try exact I; destruct b; exact I|].
      destruct (String.eqb k "items"); [|exact I].
      destruct kv; try exact I.
      * (* one schema for every element *)
        induction arr as [|item arr IHa]; [exact I|].
        apply and_then_safe; [exact (H1 _ _ Hin item)|exact IHa].
      * (* positional schemas, then additionalItems *)
        rename a into ss. destruct (forallb is_doc ss); [|exact I].
        revert arr.
        match goal with |- forall arr, safe (?F ss arr) =>
          cut (forall l', incl l' ss -> forall arr, safe (F l' arr));
            [intros G arr; apply G; apply incl_refl|] end.
        induction l' as [|s0 ss' IHs]; intros Hss arr.
        -- induction arr as [|item arr IHa]; [exact I|].
           apply and_then_safe; [|exact IHa].
           apply safe_opt; [|exact I]. apply Hadd; [apply incl_refl|exact I].
        -- apply incl_cons_l in Hss. destruct Hss as [Hs0 Hss].
           destruct arr as [|item arr]; [exact I|].
           apply and_then_safe; [exact (H2a _ _ _ Hin Hs0 item)|apply IHs; exact Hss].
Qed.

Theorem sch_safe s v : safe (sch s v).
Proof.
  assert (H : forall n s, (vsize s <= n)%nat -> sch_ok s).
  { induction n as [|n IH]; intros s0 Hs.
    - pose proof (vsize_pos s0). lia.
    - exact (sch_step n IH s0 Hs). }
  exact (H (vsize s) s (le_n _) v).
Qed.

Lemma match_json_schema_safe d v : safe (match_json_schema d v).
Proof. unfold match_json_schema. destruct v; try exact I. apply sch_safe. Qed.

(* ------------------------------------------------------------------ *)
(* process.go: Process / ProcessExpression as used by Match *)

Section Ev.
  Variable ev : value -> string -> doc -> string -> res bool.

  Definition ev_ok (x : value) : Prop := forall op d p, safe (ev x op d p).

  (* x and, when x is a document, its members *)
  Definition ev_deep (x : value) : Prop :=
    ev_ok x /\ forall l k v, x = VDoc l -> In (k, v) l -> ev_ok v.

  Lemma ops_loop_safe exps d p :
    (forall k v, In (k, v) exps -> ev_ok v) -> safe (ops_loop ev exps d p).
  Proof.
    unfold ops_loop. induction exps as [|[k v] t IH]; intro H; [exact I|].
    destruct (is_op k); [|exact I].
    apply and_then_safe; [apply (H k v); left; reflexivity|].
    apply IH. intros k' v' Hin. apply (H k' v'). right. exact Hin.
  Qed.

  Lemma field_cond_safe x d p : ev_deep x -> safe (field_cond ev x d p).
  Proof.
    intros [H0 H1]. unfold field_cond. destruct x; try apply H0.
    destruct d0 as [|[k0 x0] rest]; [apply H0|].
    destruct (is_op k0); [|apply H0].
    apply ops_loop_safe. intros k v Hin. exact (H1 _ k v eq_refl Hin).
  Qed.

  Lemma pexpr_nr_safe x k d p : ev_deep x -> safe (pexpr_nr ev x k d p).
  Proof.
    intro H. unfold pexpr_nr. destruct (is_op k); [apply H|apply field_cond_safe; exact H].
  Qed.

  Lemma process_nr_safe q d p :
    (forall k x, In (k, x) q -> ev_deep x) -> safe (process_nr ev q d p).
  Proof.
    unfold process_nr. induction q as [|[k x] t IH]; intro H; [exact I|].
    apply and_then_safe; [apply pexpr_nr_safe; apply (H k x); left; reflexivity|].
    apply IH. intros k' x' Hin. apply (H k' x'). right. exact Hin.
  Qed.
End Ev.

Lemma eval_op_step n :
  (forall v, (vsize v <= n)%nat -> ev_ok eval_op v) ->
  forall v, (vsize v <= S n)%nat -> ev_ok eval_op v.
Proof.
  intros IH v Hv op d path.
  assert (Hdeep : forall q k x, v = VDoc q -> In (k, x) q -> ev_deep eval_op x).
  { intros q k x E Hin. subst v. rewrite vsize_doc in Hv.
    pose proof (dsize_in _ _ _ Hin) as Hx. split.
    - apply IH. lia.
    - intros l k' v' El Hin'. subst x. rewrite vsize_doc in Hx.
      pose proof (dsize_in _ _ _ Hin'). apply IH. lia. }
  clear IH Hv.
  destruct v; cbn [eval_op]; destruct (lookup_expr op) as [f|]; try exact I;
    destruct f; try exact I;
    try apply match_comp_safe; try (apply negate_safe; apply match_comp_safe);
    try apply match_in_safe; try (apply negate_safe; apply match_in_safe);
    try apply match_exists_safe; try apply match_type_safe; try apply match_all_safe;
    try apply match_size_safe; try apply match_bits_safe; try apply match_mod_safe.
  - (* $not *)
    rename d0 into query. apply safe_nonempty. over query.
    induction l' as [|[k x] t IHl]; intro Hi; [exact I|].
    apply incl_cons_l in Hi. destruct Hi as [Hin Hi].
    pose proof (pexpr_nr_safe eval_op x k d path (Hdeep _ _ _ eq_refl Hin)) as Hs.
    destruct (pexpr_nr eval_op x k d path) as [[|]| | | |]; try exact Hs. apply IHl. exact Hi.
  - (* $elemMatch *)
    rename d0 into query.
    match goal with |- safe (match query with [] => _ | _ :: _ => ?R end) =>
      cut (safe R); [destruct query; [intros; exact I|auto]|] end.
    destruct (fst (All d path true true)); try exact I.
    apply first_ok_safe; [|exact I]. intro item.
    apply process_nr_safe. intros k x Hin. exact (Hdeep _ _ _ eq_refl Hin).
Qed.

Theorem eval_op_safe v op d path : safe (eval_op v op d path).
Proof.
  assert (H : forall n v, (vsize v <= n)%nat -> ev_ok eval_op v).
  { induction n as [|n IH]; intros v0 Hv.
    - pose proof (vsize_pos v0). lia.
    - exact (eval_op_step n IH v0 Hv). }
  exact (H (vsize v) v (le_n _) op d path).
Qed.

Lemma eval_op_deep x : ev_deep eval_op x.
Proof. split; [intros op d p; apply eval_op_safe|]. intros l k v _ _ op d p. apply eval_op_safe. Qed.

(* ------------------------------------------------------------------ *)
(* the top level: $and / $or / $nor / $jsonSchema and field conditions *)

Definition top_ok (v : value) : Prop := forall k d, safe (top_eval v k d).

Lemma top_eval_step n :
  (forall v, (vsize v <= n)%nat -> top_ok v) -> forall v, (vsize v <= S n)%nat -> top_ok v.
Proof.
  intros IH v Hv k d.
  assert (Hsub : forall items q k' x, v = VArr items -> In (VDoc q) items -> In (k', x) q -> top_ok x).
  { intros items q k' x E Hq Hx. subst v. rewrite vsize_arr in Hv.
    pose proof (asize_in _ _ Hq) as H1. rewrite vsize_doc in H1.
    pose proof (dsize_in _ _ _ Hx). apply IH. lia. }
  clear IH Hv.
  destruct v; cbn [top_eval]; destruct (is_op k);
    try (apply field_cond_safe; apply eval_op_deep);
    destruct (lookup_top k) as [f|]; try exact I; destruct f; try exact I;
    try apply match_json_schema_safe.
  all: rename a into items.
  all: assert (Hitem : forall item, In item items ->
         safe (match item with
               | VDoc q =>
                   (fix go (q : list (string * value)) : res bool :=
                      match q with
                      | [] => Ok true
                      | (k', x) :: t => and_then (top_eval x k' d) (go t)
                      end) q
               | _ => Err
               end)).
  1, 3, 5: intros item Hitem; destruct item; try exact I; rename d0 into q; over q;
    induction l' as [|[k' x] t IHl]; intro Hi; [exact I|];
    apply incl_cons_l in Hi; destruct Hi as [Hin Hi];
    apply and_then_safe; [exact (Hsub _ _ _ _ eq_refl Hitem Hin k' d)|apply IHl; exact Hi].
  - (* $and *)
    apply safe_nonempty. over items. induction l' as [|item t IHl]; intro Hi; [exact I|].
    apply incl_cons_l in Hi. destruct Hi as [Hin Hi].
    apply and_then_safe; [exact (Hitem _ Hin)|apply IHl; exact Hi].
  - (* $or *)
    apply safe_nonempty. over items. induction l' as [|item t IHl]; intro Hi; [exact I|].
    apply incl_cons_l in Hi. destruct Hi as [Hin Hi].
    apply or_else_safe; [exact (Hitem _ Hin)|apply IHl; exact Hi].
  - (* $nor *)
    apply negate_safe.
    apply safe_nonempty. over items. induction l' as [|item t IHl]; intro Hi; [exact I|].
    apply incl_cons_l in Hi. destruct Hi as [Hin Hi].
    apply or_else_safe; [exact (Hitem _ Hin)|apply IHl; exact Hi].
Qed.

Theorem top_eval_safe v k d : safe (top_eval v k d).
Proof.
  assert (H : forall n v, (vsize v <= n)%nat -> top_ok v).
  { induction n as [|n IH]; intros v0 Hv.
    - pose proof (vsize_pos v0). lia.
    - exact (top_eval_step n IH v0 Hv). }
  exact (H (vsize v) v (le_n _) k d).
Qed.

(* mongokit.Match never panics and needs no fuel: every document, every
   filter *)
Theorem Match_safe d q : safe (Match d q).
Proof.
  unfold Match, process_top. induction q as [|[k x] t IH]; [exact I|].
  apply and_then_safe; [apply top_eval_safe|exact IH].
Qed.
