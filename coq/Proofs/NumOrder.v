(* NumOrder.v — the exact numeric order is a total preorder. *)
From Coq Require Import List ZArith QArith Lia.
From Lungo.Model Require Import Compare.
From Lungo.Proofs Require Import OrderLaws.

Lemma Qcompare_total : total_laws Qcompare.
Proof.
  intro a. constructor.
  - apply Qeq_alt. reflexivity.
  - intros b _. symmetry. apply Qcompare_antisym.
  - intros b c _ _ H. apply Qeq_alt in H. rewrite H. reflexivity.
  - intros b c _ _ H1 H2. apply Qlt_alt in H1. apply Qlt_alt in H2. apply Qlt_alt.
    eapply Qlt_trans; eassumption.
  - intros b c _ _ H. apply Qeq_alt in H. rewrite H. reflexivity.
Qed.

(* xcompare is Qcompare on the finite part and the rank order elsewhere; it
   is the projection order of the key (rank, value) *)
Definition xkey (x : xnum) : Z * Q :=
  match x with
  | XFin q => (2%Z, q)
  | _ => (xrank x, 0%Q)
  end.

Lemma xcompare_key a b : xcompare a b = pair_cmp Z.compare Qcompare (xkey a) (xkey b).
Proof. destruct a, b; reflexivity. Qed.

Lemma xcompare_total : total_laws xcompare.
Proof.
  intro a.
  apply (laws_proj xcompare (pair_cmp Z.compare Qcompare) xkey (fun _ => True) a I).
  - intros; apply xcompare_key.
  - apply pair_total; [apply Zcompare_total | apply Qcompare_total].
Qed.
