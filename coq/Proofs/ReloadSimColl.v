(* ReloadSimColl.v — two collections that hold the same documents in the same
   order and the same index definitions, and both satisfy the collection
   invariant (index entries = key tuples of the covered documents, unique
   indexes unique), answer every operation of Model/Collection.v alike: same
   error kind, or related results (equal up to document identities) and again
   the same documents / definitions.  The identities themselves and the
   ORDER of the index entries may differ — this is what makes the relation a
   simulation between a database and its reloaded copy.

   Obtained from the collection-level refinement of C01 (RefineColl.v): both
   sides are related to the SAME run of the index-free reference
   (Spec/SpecDb.v), because that run only depends on abs_coll. *)
From Coq Require Import List ZArith String Lia Bool.
From Lungo.Model Require Import Driver RunSpec.
From Lungo.Spec Require Import SpecDb.
From Lungo.Proofs Require Import CollLists IndexInv CollInv RefineLists RefineColl.
Import ListNotations.
Open Scope Z_scope.
Open Scope list_scope.

(* equal up to document identities *)
Definition lrel (l1 l2 : list sdoc) : Prop := map snd l1 = map snd l2.
Definition orel (o1 o2 : option sdoc) : Prop := option_map snd o1 = option_map snd o2.

Definition crel (r1 r2 : cresult) : Prop :=
  lrel (r_matched r1) (r_matched r2) /\ lrel (r_modified r1) (r_modified r2) /\
  orel (r_upserted r1) (r_upserted r2).

(* same documents in order, same index names / definitions in order *)
Definition csim (c1 c2 : coll) : Prop := abs_coll c1 = abs_coll c2.

Definition out2 {A} (Q : A -> A -> Prop) (o1 o2 : coll * (A + ekind)) : Prop :=
  match o1, o2 with
  | (c1, inl r1), (c2, inl r2) => csim c1 c2 /\ Q r1 r2
  | (_, inr e1), (_, inr e2) => e1 = e2
  | _, _ => False
  end.

Lemma csim_docs c1 c2 : csim c1 c2 -> lrel (c_docs c1) (c_docs c2).
Proof. unfold csim, lrel. rewrite !abs_coll_eq. intro H. inversion H. auto. Qed.

Lemma csim_defs c1 c2 : csim c1 c2 -> map defof (c_indexes c1) = map defof (c_indexes c2).
Proof. unfold csim. rewrite !abs_coll_eq. intro H. inversion H. auto. Qed.

Lemma lrel_length l1 l2 : lrel l1 l2 -> List.length l1 = List.length l2.
Proof. intro H. apply (f_equal (@List.length doc)) in H. rewrite !map_length in H. exact H. Qed.

Lemma lrel_len l1 l2 : lrel l1 l2 -> len l1 = len l2.
Proof. intro H. unfold len. rewrite (lrel_length _ _ H). reflexivity. Qed.

Lemma lrel_app l1 l2 m1 m2 : lrel l1 l2 -> lrel m1 m2 -> lrel (l1 ++ m1) (l2 ++ m2).
Proof. unfold lrel. intros H1 H2. rewrite !map_app. f_equal; assumption. Qed.

Lemma lrel_nil_l l : lrel [] l -> l = [].
Proof. destruct l; [reflexivity|discriminate]. Qed.

Lemma lrel_nil_r l : lrel l [] -> l = [].
Proof. destruct l; [reflexivity|discriminate]. Qed.

Lemma out_rel2 {A B} (RR : A -> B -> Prop) o1 o2 so :
  out_rel RR o1 so -> out_rel RR o2 so ->
  out2 (fun a b => exists s, RR a s /\ RR b s) o1 o2.
Proof.
  destruct o1 as [c1 [r1|e1]], o2 as [c2 [r2|e2]], so as [[sc sr]|e]; cbn [out_rel out2];
    try contradiction; try tauto.
  - intros [H1 H2] [H3 H4]. split; [unfold csim; congruence|eauto].
  - congruence.
Qed.

Lemma res_rel2 r1 r2 : (exists s, res_rel r1 s /\ res_rel r2 s) -> crel r1 r2.
Proof.
  intros [s [[A1 [A2 A3]] [B1 [B2 B3]]]]. unfold crel, lrel, orel. repeat split; congruence.
Qed.

Lemma out2_impl {A} (Q Q' : A -> A -> Prop) o1 o2 :
  (forall a b, Q a b -> Q' a b) -> out2 Q o1 o2 -> out2 Q' o1 o2.
Proof.
  intro H. destruct o1 as [c1 [r1|e1]], o2 as [c2 [r2|e2]]; cbn [out2]; auto.
  intros [H1 H2]. auto.
Qed.

Section SimColl.
  Set Default Proof Using "Type".
  Variable matchf : doc -> doc -> res bool.
  Variable applyf : doc -> doc -> doc -> bool -> list doc -> Z -> res (doc * list (string * value)).
  Variable extractf : doc -> res doc.

  Local Notation coll_inv := (CollInv.coll_inv matchf).
  Local Notation find_list := (Collection.find_list matchf).
  Local Notation apply_list := (Collection.apply_list applyf).

  (* Find sees the documents, not their identities *)
  Lemma find_list2 (l1 l2 : list sdoc) q sort skip limit :
    NoDup (map fst l1) -> NoDup (map fst l2) -> lrel l1 l2 ->
    rmap (map snd) (find_list l1 q sort skip limit) = rmap (map snd) (find_list l2 q sort skip limit).
  Proof.
    intros H1 H2 E.
    pose proof (s_find_find_list matchf l1 q sort skip limit H1) as A.
    pose proof (s_find_find_list matchf l2 q sort skip limit H2) as B.
    pose proof (eq_trans (eq_sym A)
                  (eq_trans (f_equal (fun x => s_find matchf x q sort skip limit) E) B)) as C.
    clear A B.
    destruct (find_list l1 q sort skip limit), (find_list l2 q sort skip limit);
      cbn [rmap bind] in *; try discriminate; try reflexivity.
    inversion C as [C']. apply (f_equal (map snd)) in C'. rewrite !retag_snd in C'.
    f_equal. exact C'.
  Qed.

  Lemma find_list2_cases (l1 l2 : list sdoc) q sort skip limit :
    NoDup (map fst l1) -> NoDup (map fst l2) -> lrel l1 l2 ->
    match find_list l1 q sort skip limit, find_list l2 q sort skip limit with
    | Ok m1, Ok m2 => lrel m1 m2
    | Err, Err | Panic, Panic | OutOfFuel, OutOfFuel | Unmodelled, Unmodelled => True
    | _, _ => False
    end.
  Proof.
    intros H1 H2 E. pose proof (find_list2 l1 l2 q sort skip limit H1 H2 E) as A.
    destruct (find_list l1 q sort skip limit), (find_list l2 q sort skip limit);
      cbn [rmap bind] in A; try discriminate; auto.
    inversion A. assumption.
  Qed.

  (* ---------------------------------------------------------------- *)
  (* the operations *)

  Theorem insert2 c1 c2 f1 f2 d oid :
    coll_inv c1 -> ids_lt c1 f1 -> coll_inv c2 -> ids_lt c2 f2 -> csim c1 c2 ->
    out2 crel (coll_insert matchf c1 f1 d oid) (coll_insert matchf c2 f2 d oid).
  Proof.
    intros I1 L1 I2 L2 S. apply (out2_impl _ _ _ _ res_rel2).
    apply (out_rel2 res_rel _ _ (s_insert matchf (abs_coll c1) d oid)).
    - apply sim_insert; auto.
    - rewrite S. apply sim_insert; auto.
  Qed.

  Theorem upsert2 c1 c2 f1 f2 q repl update afs oid now :
    coll_inv c1 -> ids_lt c1 f1 -> coll_inv c2 -> ids_lt c2 f2 -> csim c1 c2 ->
    out2 crel (coll_upsert matchf applyf extractf c1 f1 q repl update afs oid now)
              (coll_upsert matchf applyf extractf c2 f2 q repl update afs oid now).
  Proof.
    intros I1 L1 I2 L2 S. apply (out2_impl _ _ _ _ res_rel2).
    apply (out_rel2 res_rel _ _ (s_upsert matchf applyf extractf now (abs_coll c1) q repl update afs oid)).
    - apply sim_upsert; auto.
    - rewrite S. apply sim_upsert; auto.
  Qed.

  Theorem delete2 c1 c2 q sort skip limit :
    coll_inv c1 -> coll_inv c2 -> csim c1 c2 ->
    out2 crel (coll_delete matchf c1 q sort skip limit) (coll_delete matchf c2 q sort skip limit).
  Proof.
    intros I1 I2 S. apply (out2_impl _ _ _ _ res_rel2).
    apply (out_rel2 res_rel _ _ (s_delete matchf (abs_coll c1) q sort skip limit)).
    - apply sim_delete; auto.
    - rewrite S. apply sim_delete; auto.
  Qed.

  Theorem replace2 c1 c2 f1 f2 q repl sort :
    coll_inv c1 -> ids_lt c1 f1 -> coll_inv c2 -> ids_lt c2 f2 -> csim c1 c2 ->
    out2 crel (coll_replace matchf c1 f1 q repl sort) (coll_replace matchf c2 f2 q repl sort).
  Proof.
    intros I1 L1 I2 L2 S. apply (out2_impl _ _ _ _ res_rel2).
    apply (out_rel2 res_rel _ _ (s_replace matchf (abs_coll c1) q repl sort)).
    - apply sim_replace; auto.
    - rewrite S. apply sim_replace; auto.
  Qed.

  Theorem update2 c1 c2 f1 f2 q u sort skip limit afs now :
    coll_inv c1 -> ids_lt c1 f1 -> coll_inv c2 -> ids_lt c2 f2 -> csim c1 c2 ->
    out2 crel (coll_update matchf applyf c1 f1 q u sort skip limit afs now)
              (coll_update matchf applyf c2 f2 q u sort skip limit afs now).
  Proof.
    intros I1 L1 I2 L2 S. apply (out2_impl _ _ _ _ res_rel2).
    apply (out_rel2 res_rel _ _ (s_update matchf applyf now (abs_coll c1) q u sort skip limit afs)).
    - apply sim_update; auto.
    - rewrite S. apply sim_update; auto.
  Qed.

  Theorem create_index2 c1 c2 name cf :
    coll_inv c1 -> coll_inv c2 -> csim c1 c2 ->
    out2 (@eq string) (coll_create_index matchf c1 name cf) (coll_create_index matchf c2 name cf).
  Proof.
    intros I1 I2 S.
    apply (out2_impl (fun a b => exists s, a = s /\ b = s)); [intros a b [s [-> ->]]; reflexivity|].
    apply (out_rel2 (@eq string) _ _ (s_create_index matchf (abs_coll c1) name cf)).
    - apply sim_create_index; auto.
    - rewrite S. apply sim_create_index; auto.
  Qed.

  (* DropIndex needs no invariant: it only looks at the names *)
  Theorem drop_index2 c1 c2 name :
    csim c1 c2 ->
    match coll_drop_index c1 name, coll_drop_index c2 name with
    | (c1', inl d1), (c2', inl d2) => csim c1' c2' /\ d1 = d2
    | (_, inr e1), (_, inr e2) => e1 = e2
    | _, _ => False
    end.
  Proof.
    intro S. pose proof (csim_defs _ _ S) as D. pose proof (csim_docs _ _ S) as E.
    assert (N : map fst (c_indexes c1) = map fst (c_indexes c2)).
    { apply (f_equal (map d_name)) in D. rewrite !map_map in D. exact D. }
    assert (FD : forall p : string -> bool,
               map defof (filter (fun ni => p (fst ni)) (c_indexes c1)) =
               map defof (filter (fun ni => p (fst ni)) (c_indexes c2))).
    { intro p. revert D. generalize (c_indexes c1) (c_indexes c2).
      induction l as [|a l IH]; intros [|b l'] D; try discriminate; [reflexivity|].
      cbn [map] in D. inversion D as [[Hn Hc Hl Ht]]. cbn [filter]. rewrite Hn.
      destruct (p (fst b)); cbn [map]; rewrite (IH l' Ht); [|reflexivity].
      unfold defof. rewrite Hn, Hc, Hl. reflexivity. }
    assert (FN : forall p : string -> bool,
               map fst (filter (fun ni => p (fst ni)) (c_indexes c1)) =
               map fst (filter (fun ni => p (fst ni)) (c_indexes c2))).
    { intro p. specialize (FD p). apply (f_equal (map d_name)) in FD. rewrite !map_map in FD. exact FD. }
    assert (FI : forall n, (exists i, find_index (c_indexes c1) n = Some i) <->
                           (exists i, find_index (c_indexes c2) n = Some i)).
    { intro n. revert N. generalize (c_indexes c1) (c_indexes c2).
      induction l as [|[m a] l IH]; intros [|[m' b] l'] N; try discriminate.
      - split; intros [i H]; discriminate.
      - cbn [map fst] in N. inversion N; subst. cbn [find_index].
        destruct (String.eqb m' n); [split; eauto|apply IH; assumption]. }
    unfold coll_drop_index, fail. destruct name as [|a s].
    - split; [|apply (FN (fun n => negb (String.eqb n "_id_")))].
      unfold csim. rewrite !abs_coll_eq. cbn [c_docs c_indexes].
      rewrite (FD (fun n => String.eqb n "_id_")). unfold lrel in E. rewrite E. reflexivity.
    - destruct (String.eqb (String a s) "_id_"); [reflexivity|].
      specialize (FI (String a s)).
      destruct (find_index (c_indexes c1) (String a s)) as [i1|], (find_index (c_indexes c2) (String a s)) as [i2|].
      + split; [|reflexivity]. unfold csim. rewrite !abs_coll_eq. cbn [c_docs c_indexes].
        rewrite (FD (fun n => negb (String.eqb n (String a s)))). unfold lrel in E. rewrite E. reflexivity.
      + exfalso. destruct (proj1 FI (ex_intro _ i1 eq_refl)) as [i H]. discriminate.
      + exfalso. destruct (proj2 FI (ex_intro _ i2 eq_refl)) as [i H]. discriminate.
      + reflexivity.
  Qed.

  (* ---------------------------------------------------------------- *)
  (* the recorded changes of an update (res_rel does not mention them) *)

  Lemma apply_list2 (m1 : list sdoc) : forall (m2 : list sdoc) f1 f2 q u afs now,
    lrel m1 m2 ->
    match apply_list m1 f1 q u afs now, apply_list m2 f2 q u afs now with
    | Ok (n1, ch1), Ok (n2, ch2) => lrel n1 n2 /\ ch1 = ch2
    | Err, Err | Panic, Panic | OutOfFuel, OutOfFuel | Unmodelled, Unmodelled => True
    | _, _ => False
    end.
  Proof.
    induction m1 as [|[i d] t IH]; intros [|[i' d'] t'] f1 f2 q u afs now E; try discriminate.
    - cbn [Collection.apply_list]. split; reflexivity.
    - unfold lrel in E. cbn [map snd] in E. inversion E as [[Hd Ht]]. subst d'.
      cbn [Collection.apply_list snd].
      destruct (applyf d q u false afs now) as [[nd ch]| | | |]; cbn [bind]; auto.
      specialize (IH t' (f1 + 1) (f2 + 1) q u afs now Ht).
      destruct (apply_list t (f1 + 1) q u afs now) as [[n1 c1]| | | |],
               (apply_list t' (f2 + 1) q u afs now) as [[n2 c2]| | | |]; cbn [bind fst snd]; auto.
      destruct IH as [A B]. split; [|congruence].
      unfold lrel in *. cbn [map snd]. rewrite A. reflexivity.
  Qed.

  Lemma modified_only2 (o1 : list sdoc) : forall (o2 n1 n2 : list sdoc) chs,
    lrel o1 o2 -> lrel n1 n2 ->
    lrel (fst (modified_only o1 n1 chs)) (fst (modified_only o2 n2 chs)) /\
    snd (modified_only o1 n1 chs) = snd (modified_only o2 n2 chs).
  Proof.
    induction o1 as [|[i d] t IH]; intros [|[i' d'] t'] n1 n2 chs E1 E2; try discriminate.
    - cbn [modified_only]. split; reflexivity.
    - unfold lrel in E1. cbn [map snd] in E1. inversion E1 as [[Hd Ht]]. subst d'.
      destruct n1 as [|[j e] n1], n2 as [|[j' e'] n2]; try discriminate;
        [cbn [modified_only]; split; reflexivity|].
      unfold lrel in E2. cbn [map snd] in E2. inversion E2 as [[He Hn]]. subst e'.
      destruct chs as [|ch chs]; [cbn [modified_only]; split; reflexivity|].
      cbn [modified_only snd]. specialize (IH t' n1 n2 chs Ht Hn).
      destruct (modified_only t n1 chs) as [m1 c1], (modified_only t' n2 chs) as [m2 c2].
      cbn [fst snd] in IH. destruct IH as [A B].
      destruct (value_eqb (VDoc d) (VDoc e)); cbn [fst snd]; split; auto; [|congruence].
      unfold lrel in *. cbn [map snd]. rewrite A. reflexivity.
  Qed.

  Theorem update_changes2 c1 c2 f1 f2 q u sort skip limit afs now c1' r1 c2' r2 :
    NoDup (map fst (c_docs c1)) -> NoDup (map fst (c_docs c2)) -> csim c1 c2 ->
    coll_update matchf applyf c1 f1 q u sort skip limit afs now = (c1', inl r1) ->
    coll_update matchf applyf c2 f2 q u sort skip limit afs now = (c2', inl r2) ->
    r_changes r1 = r_changes r2.
  Proof.
    intros N1 N2 S. pose proof (csim_docs _ _ S) as E.
    pose proof (find_list2_cases _ _ q sort skip limit N1 N2 E) as F.
    rewrite !(coll_update_eq matchf applyf). unfold update_with, failr, fail.
    destruct (find_list (c_docs c1) q sort skip limit) as [m1| | | |],
             (find_list (c_docs c2) q sort skip limit) as [m2| | | |]; try contradiction;
      try (intros H; discriminate).
    destruct m1 as [|x1 m1], m2 as [|x2 m2]; try discriminate.
    - intros H1 H2. inversion H1; inversion H2; subst. reflexivity.
    - pose proof (apply_list2 (x1 :: m1) (x2 :: m2) f1 f2 q u afs now F) as A.
      destruct (apply_list (x1 :: m1) f1 q u afs now) as [[n1 ch1]| | | |]; try (intros H; discriminate).
      destruct (apply_list (x2 :: m2) f2 q u afs now) as [[n2 ch2]| | | |]; try contradiction;
        try (intros _ H; discriminate).
      destruct A as [A1 A2]. subst ch2.
      destruct (negb (ids_unchanged (x1 :: m1) n1)); [intros H; discriminate|].
      destruct (negb (ids_unchanged (x2 :: m2) n2)); [intros _ H; discriminate|].
      destruct (remove_docs matchf (c_indexes c1) (x1 :: m1)) as [ix1 [e1|]]; [intros H; discriminate|].
      destruct (remove_docs matchf (c_indexes c2) (x2 :: m2)) as [ix2 [e2|]]; [intros _ H; discriminate|].
      destruct (add_docs matchf ix1 n1) as [ix1' [e1|]]; [intros H; discriminate|].
      destruct (add_docs matchf ix2 n2) as [ix2' [e2|]]; [intros _ H; discriminate|].
      pose proof (modified_only2 (x1 :: m1) (x2 :: m2) n1 n2 ch1 F A1) as [_ M].
      destruct (modified_only (x1 :: m1) n1 ch1) as [md1 cs1], (modified_only (x2 :: m2) n2 ch1) as [md2 cs2].
      cbn [snd] in M. intros H1 H2. inversion H1; inversion H2; subst. reflexivity.
  Qed.

End SimColl.

Print Assumptions insert2.
Print Assumptions update2.
Print Assumptions update_changes2.
Print Assumptions drop_index2.
