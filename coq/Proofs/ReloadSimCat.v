(* ReloadSimCat.v — the Transaction methods of Model/Txn.v on two related
   catalogs (see ReloadSimTxn.v): same replies up to document identities,
   related catalogs afterwards.  `catsim` is the equality of the erasure
   handle |-> (documents in order, index definitions in order) over ALL
   namespaces — the change log local.oplog included — plus the event clock. *)
From Coq Require Import List ZArith String Lia Bool.
From Lungo.Model Require Import Driver RunSpec.
From Lungo.Spec Require Import SpecDb.
From Lungo.Proofs Require Import CollLists IndexInv CollInv OplogProofs CatInv RefineLists RefineColl
  RefineTxn ReloadSimColl ReloadSimTxn.
Import ListNotations.
Open Scope Z_scope.
Open Scope list_scope.

Definition ens (l : list (handle * coll)) : list (handle * scoll) :=
  map (fun hc => (fst hc, abs_coll (snd hc))) l.

Definition catsim (c1 c2 : catalog) : Prop :=
  ens (cat_ns c1) = ens (cat_ns c2) /\ cat_clock c1 = cat_clock c2.

Definition rsim {A} (Q : A -> A -> Prop) (r1 r2 : A + ekind) : Prop :=
  match r1, r2 with
  | inl a, inl b => Q a b
  | inr e1, inr e2 => e1 = e2
  | _, _ => False
  end.

(* outcome of a Transaction method: (catalog', gen', reply) *)
Definition fsim {A} (Q : A -> A -> Prop) (x1 x2 : catalog * gen * (A + ekind)) : Prop :=
  catsim (fst (fst x1)) (fst (fst x2)) /\ g_oid (snd (fst x1)) = g_oid (snd (fst x2)) /\
  rsim Q (snd x1) (snd x2).

(* ... of one that does not touch the generators *)
Definition csim2 {A} (Q : A -> A -> Prop) (x1 x2 : catalog * (A + ekind)) : Prop :=
  catsim (fst x1) (fst x2) /\ rsim Q (snd x1) (snd x2).

Lemma catsim_refl c : catsim c c.
Proof. split; reflexivity. Qed.

Lemma cons_pair_inv {A B} (k k' : A) (u v : B) l l' :
  (k, u) :: l = (k', v) :: l' -> k = k' /\ u = v /\ l = l'.
Proof. intro H. inversion H. auto. Qed.

Lemma ens_cons_inv k x t k' y t' :
  ens ((k, x) :: t) = ens ((k', y) :: t') -> k = k' /\ csim x y /\ ens t = ens t'.
Proof. unfold ens. cbn [map fst snd]. intro H. apply cons_pair_inv in H. exact H. Qed.

Lemma ens_keys l1 : forall l2, ens l1 = ens l2 -> map fst l1 = map fst l2.
Proof.
  intros l2 H. apply (f_equal (map fst)) in H. unfold ens in H. rewrite !map_map in H. exact H.
Qed.

Lemma ens_get l1 : forall l2 h, ens l1 = ens l2 ->
  match ns_get l1 h, ns_get l2 h with
  | Some a, Some b => csim a b
  | None, None => True
  | _, _ => False
  end.
Proof.
  induction l1 as [|[k x] t IH]; intros [|[k' y] t'] h E; try discriminate; [exact I|].
  apply ens_cons_inv in E. destruct E as [<- [S E]]. cbn [ns_get].
  destruct (handle_eqb k h); [exact S|apply IH; exact E].
Qed.

Lemma ens_set l1 : forall l2 h x1 x2, ens l1 = ens l2 -> csim x1 x2 ->
  ens (ns_set l1 h x1) = ens (ns_set l2 h x2).
Proof.
  induction l1 as [|[k x] t IH]; intros [|[k' y] t'] h x1 x2 E S; try discriminate.
  - unfold ens. cbn [ns_set map fst snd]. rewrite S. reflexivity.
  - pose proof E as E0. apply ens_cons_inv in E. destruct E as [<- [Sx E]]. cbn [ns_set].
    destruct (handle_eqb k h).
    + unfold ens in *. cbn [map fst snd]. rewrite S, E. reflexivity.
    + unfold ens in *. cbn [map fst snd]. rewrite Sx. f_equal. apply (IH t' h x1 x2 E S).
Qed.

Lemma ens_filter (p : handle -> bool) l1 : forall l2, ens l1 = ens l2 ->
  ens (filter (fun kc => p (fst kc)) l1) = ens (filter (fun kc => p (fst kc)) l2).
Proof.
  induction l1 as [|[k x] t IH]; intros [|[k' y] t'] E; try discriminate; [reflexivity|].
  apply ens_cons_inv in E. destruct E as [<- [Sx E]]. cbn [filter fst].
  destruct (p k); [|apply IH; exact E].
  unfold ens in *. cbn [map fst snd]. rewrite Sx. f_equal. apply (IH t' E).
Qed.

Lemma oplog_of_sim c1 c2 : catsim c1 c2 -> csim (oplog_of c1) (oplog_of c2).
Proof.
  intros [E _]. unfold oplog_of. pose proof (ens_get _ _ oplog_handle E) as H.
  destruct (ns_get (cat_ns c1) oplog_handle), (ns_get (cat_ns c2) oplog_handle);
    try contradiction; [exact H|reflexivity].
Qed.

Lemma ns_or_new_sim c1 c2 h : catsim c1 c2 -> csim (ns_or_new c1 h) (ns_or_new c2 h).
Proof.
  intros [E _]. unfold ns_or_new. pose proof (ens_get _ _ h E) as H.
  destruct (ns_get (cat_ns c1) h), (ns_get (cat_ns c2) h); try contradiction; [exact H|reflexivity].
Qed.

Lemma open_w_sim c1 c2 g1 g2 h :
  catsim c1 c2 -> g_oid g1 = g_oid g2 -> wsim (open_w c1 g1 h) (open_w c2 g2 h).
Proof.
  intros S G. unfold open_w. split; [apply ns_or_new_sim; exact S|].
  split; [apply oplog_of_sim; exact S|]. split; [apply S|exact G].
Qed.

Lemma close_w_sim c1 c2 h w1 w2 :
  catsim c1 c2 -> wsim w1 w2 -> catsim (close_w c1 h w1) (close_w c2 h w2).
Proof.
  intros [E _] [S1 [S2 [S3 _]]]. unfold close_w. split; cbn [cat_ns cat_clock]; [|exact S3].
  apply ens_set; [apply ens_set; assumption|exact S2].
Qed.

Lemma trel_changed_mod t1 t2 : trel t1 t2 -> changed_mod t1 = changed_mod t2.
Proof.
  intros [_ [M [U _]]]. unfold changed_mod. rewrite (lrel_len _ _ M). unfold orel in U.
  destruct (t_upserted t1), (t_upserted t2); try discriminate; reflexivity.
Qed.

Lemma trel_matched_pos t1 t2 : trel t1 t2 -> (0 <? len (t_matched t1)) = (0 <? len (t_matched t2)).
Proof. intros [M _]. rewrite (lrel_len _ _ M). reflexivity. Qed.

Lemma trel_bulk_changes op t1 t2 : trel t1 t2 -> bulk_changes op t1 = bulk_changes op t2.
Proof.
  intros [Ma [M [U _]]]. unfold bulk_changes. rewrite (lrel_len _ _ M), (lrel_len _ _ Ma).
  unfold orel in U. destruct (t_upserted t1), (t_upserted t2); try discriminate; reflexivity.
Qed.

Lemma append_event_sim o1 o2 k g1 g2 h op d chs :
  csim o1 o2 -> g_oid g1 = g_oid g2 ->
  let '(a1, k1, h1) := append_event o1 k g1 h op d chs in
  let '(a2, k2, h2) := append_event o2 k g2 h op d chs in
  csim a1 a2 /\ k1 = k2 /\ g_oid h1 = g_oid h2.
Proof.
  intros S G. unfold append_event. split; [apply csim_append; exact S|]. split; [reflexivity|exact G].
Qed.

Lemma drop_events_sim l : forall o1 o2 k g1 g2,
  csim o1 o2 -> g_oid g1 = g_oid g2 ->
  let '(a1, k1, h1) := drop_events o1 k g1 l in
  let '(a2, k2, h2) := drop_events o2 k g2 l in
  csim a1 a2 /\ k1 = k2 /\ g_oid h1 = g_oid h2.
Proof.
  induction l as [|v t IH]; intros o1 o2 k g1 g2 S G; cbn [drop_events].
  - auto.
  - unfold append_event. apply IH; [apply csim_append; exact S|exact G].
Qed.

Section SimCat.
  Set Default Proof Using "Type".
  Variable matchf : doc -> doc -> res bool.
  Variable applyf : doc -> doc -> doc -> bool -> list doc -> Z -> res (doc * list (string * value)).
  Variable extractf : doc -> res doc.

  Local Notation coll_inv := (CollInv.coll_inv matchf).
  Local Notation cat_inv := (CatInv.cat_inv matchf).
  Local Notation w_inv := (CatInv.w_inv matchf).
  Local Notation t_insert := (Txn.t_insert matchf).
  Local Notation t_replace := (Txn.t_replace matchf applyf extractf).
  Local Notation t_update := (Txn.t_update matchf applyf extractf).
  Local Notation t_delete := (Txn.t_delete matchf).
  Local Notation txn_insert := (Txn.txn_insert matchf).
  Local Notation txn_replace := (Txn.txn_replace matchf applyf extractf).
  Local Notation txn_update := (Txn.txn_update matchf applyf extractf).
  Local Notation txn_delete := (Txn.txn_delete matchf).
  Local Notation txn_bulk := (Txn.txn_bulk matchf applyf extractf).
  Local Notation txn_find := (Txn.txn_find matchf).
  Local Notation txn_create_index := (Txn.txn_create_index matchf).
  Local Notation txn_expire := (Txn.txn_expire matchf).
  Local Notation insert_loop := (Txn.insert_loop matchf).
  Local Notation bulk_loop := (Txn.bulk_loop matchf applyf extractf).
  Local Notation expire_loop := (Txn.expire_loop matchf).

  (* two related catalogs, each good for its own identity generator *)
  Definition pre (c1 : catalog) (g1 : gen) (c2 : catalog) (g2 : gen) : Prop :=
    cat_inv c1 (g_did g1) /\ cat_inv c2 (g_did g2) /\ catsim c1 c2 /\ g_oid g1 = g_oid g2.

  Lemma cat_inv_coll c n h x : cat_inv c n -> ns_get (cat_ns c) h = Some x -> coll_inv x.
  Proof.
    intros [H1 _] Hg. apply ns_get_in in Hg. destruct (H1 _ _ Hg) as [A B].
    destruct (handle_eq_dec h oplog_handle) as [E|E].
    - apply (oplog_coll_inv matchf n). apply A. exact E.
    - destruct (B E) as [H _]. exact H.
  Qed.

  (* ---------------------------------------------------------------- *)
  (* Insert *)

  Lemma insert_loop_sim l : forall c1 g1 c2 g2 h o acc1 acc2 err,
    pre c1 g1 c2 g2 -> h <> oplog_handle -> lrel acc1 acc2 ->
    let '(c1', g1', a1, e1) := insert_loop c1 g1 h l o acc1 err in
    let '(c2', g2', a2, e2) := insert_loop c2 g2 h l o acc2 err in
    catsim c1' c2' /\ g_oid g1' = g_oid g2' /\ lrel a1 a2 /\ e1 = e2.
  Proof.
    induction l as [|d t IH]; intros c1 g1 c2 g2 h o acc1 acc2 err [I1 [I2 [S G]]] N A;
      cbn [Txn.insert_loop].
    - auto.
    - pose proof (open_w_inv matchf c1 g1 h I1 N) as W1.
      pose proof (open_w_inv matchf c2 g2 h I2 N) as W2.
      pose proof (t_insert_sim matchf _ _ h d W1 W2 (open_w_sim _ _ _ _ h S G)) as T.
      pose proof (t_insert_inv matchf (open_w c1 g1 h) h d W1) as [L1 G1].
      pose proof (t_insert_inv matchf (open_w c2 g2 h) h d W2) as [L2 G2].
      destruct (t_insert (open_w c1 g1 h) h d) as [w1 [r1|e1]],
               (t_insert (open_w c2 g2 h) h d) as [w2 [r2|e2]];
        unfold wres_sim in T; cbn [fst snd open_w w_gen] in *; try contradiction.
      + destruct T as [[_ [M _]] Sw].
        apply IH; auto; [|apply lrel_app; assumption].
        split; [eapply close_w_inv; eauto|]. split; [eapply close_w_inv; eauto|].
        split; [apply close_w_sim; assumption|]. apply Sw.
      + destruct T as [-> Go]. unfold gen_after_fail.
        destruct o; [auto|].
        apply IH; auto.
        split; [eapply cat_inv_mono; eauto|]. split; [eapply cat_inv_mono; eauto|]. auto.
  Qed.

  Theorem txn_insert_sim c1 g1 c2 g2 h l o :
    pre c1 g1 c2 g2 -> fsim trel (txn_insert c1 g1 h l o) (txn_insert c2 g2 h l o).
  Proof.
    intros P. pose proof P as [I1 [I2 [S G]]]. unfold Txn.txn_insert.
    destruct (guard_write h) eqn:Gu; [repeat split; auto; apply S|].
    apply guard_not_oplog in Gu.
    pose proof (insert_loop_sim l c1 g1 c2 g2 h o [] [] None P Gu eq_refl) as H.
    destruct (insert_loop c1 g1 h l o [] None) as [[[c1' g1'] a1] e1],
             (insert_loop c2 g2 h l o [] None) as [[[c2' g2'] a2] e2].
    destruct H as [Sc [Go [A ->]]].
    destruct a1 as [|x1 a1], a2 as [|x2 a2]; try discriminate; unfold fsim; cbn [fst snd rsim].
    - split; [exact S|]. split; [exact Go|]. repeat split.
    - split; [exact Sc|]. split; [exact Go|]. repeat split. exact A.
  Qed.

  (* ---------------------------------------------------------------- *)
  (* Replace / Update / Delete *)

  Lemma finish_sim c1 g1 c2 g2 h ch r1 r2 :
    catsim c1 c2 -> (forall t1 t2, trel t1 t2 -> ch t1 = ch t2) -> wres_sim r1 r2 ->
    fsim trel (finish c1 g1 h ch r1) (finish c2 g2 h ch r2).
  Proof.
    intros S Hch T. unfold finish, gen_after_fail, wres_sim in *.
    destruct r1 as [w1 [t1|e1]], r2 as [w2 [t2|e2]]; cbn [fst snd] in T; try contradiction.
    - destruct T as [Tr Sw]. rewrite (Hch _ _ Tr).
      destruct (ch t2); unfold fsim; cbn [fst snd rsim].
      + split; [apply close_w_sim; assumption|]. split; [apply Sw|exact Tr].
      + split; [exact S|]. split; [apply Sw|exact Tr].
    - destruct T as [-> Go]. unfold fsim; cbn [fst snd rsim]. auto.
  Qed.

  Lemma fsim_same {A} (Q : A -> A -> Prop) c1 g1 c2 g2 (r : A + ekind) :
    catsim c1 c2 -> g_oid g1 = g_oid g2 -> rsim Q r r -> fsim Q (c1, g1, r) (c2, g2, r).
  Proof. intros S G R. split; [exact S|]. split; [exact G|exact R]. Qed.

  Theorem txn_replace_sim c1 g1 c2 g2 h q s rp up now :
    pre c1 g1 c2 g2 ->
    fsim trel (txn_replace c1 g1 h q s rp up now) (txn_replace c2 g2 h q s rp up now).
  Proof.
    intros [I1 [I2 [S G]]]. unfold Txn.txn_replace.
    destruct (guard_write h) eqn:Gu; [apply fsim_same; auto; reflexivity|].
    apply guard_not_oplog in Gu.
    assert (F : fsim trel (finish c1 g1 h changed_mod (t_replace (open_w c1 g1 h) h q rp s up now))
                          (finish c2 g2 h changed_mod (t_replace (open_w c2 g2 h) h q rp s up now))).
    { apply finish_sim; auto; [apply trel_changed_mod|].
      apply t_replace_sim; [apply open_w_inv; auto|apply open_w_inv; auto|apply open_w_sim; auto]. }
    pose proof (ens_get _ _ h (proj1 S)) as Hg.
    destruct (ns_get (cat_ns c1) h), (ns_get (cat_ns c2) h); try contradiction; [exact F|].
    destruct up; [exact F|]. apply fsim_same; auto. apply trel_empty.
  Qed.

  Theorem txn_update_sim c1 g1 c2 g2 h q s u sk li up afs now :
    pre c1 g1 c2 g2 ->
    fsim trel (txn_update c1 g1 h q s u sk li up afs now) (txn_update c2 g2 h q s u sk li up afs now).
  Proof.
    intros [I1 [I2 [S G]]]. unfold Txn.txn_update.
    destruct (guard_write h) eqn:Gu; [apply fsim_same; auto; reflexivity|].
    apply guard_not_oplog in Gu.
    assert (F : fsim trel
                  (finish c1 g1 h changed_mod (t_update (open_w c1 g1 h) h q u s up sk li afs now))
                  (finish c2 g2 h changed_mod (t_update (open_w c2 g2 h) h q u s up sk li afs now))).
    { apply finish_sim; auto; [apply trel_changed_mod|].
      apply t_update_sim; [apply open_w_inv; auto|apply open_w_inv; auto|apply open_w_sim; auto]. }
    pose proof (ens_get _ _ h (proj1 S)) as Hg.
    destruct (ns_get (cat_ns c1) h), (ns_get (cat_ns c2) h); try contradiction; [exact F|].
    destruct up; [exact F|]. apply fsim_same; auto. apply trel_empty.
  Qed.

  Theorem txn_delete_sim c1 g1 c2 g2 h q s sk li :
    pre c1 g1 c2 g2 ->
    fsim trel (txn_delete c1 g1 h q s sk li) (txn_delete c2 g2 h q s sk li).
  Proof.
    intros [I1 [I2 [S G]]]. unfold Txn.txn_delete.
    destruct (guard_write h) eqn:Gu; [apply fsim_same; auto; reflexivity|].
    apply guard_not_oplog in Gu.
    pose proof (ens_get _ _ h (proj1 S)) as Hg.
    destruct (ns_get (cat_ns c1) h), (ns_get (cat_ns c2) h); try contradiction;
      [|apply fsim_same; auto; apply trel_empty].
    apply finish_sim; auto; [apply trel_matched_pos|].
    apply t_delete_sim; [apply open_w_inv; auto|apply open_w_inv; auto|apply open_w_sim; auto].
  Qed.

  (* ---------------------------------------------------------------- *)
  (* Bulk *)

  Definition bulk1 (w : wstate) (h : handle) (op : bulk_op) (now : Z) : wstate * (tresult + ekind) :=
    match op with
    | BInsert d => t_insert w h d
    | BReplace f rp s u => t_replace w h f rp s u now
    | BUpdate f up s u sk li afs => t_update w h f up s u sk li afs now
    | BDelete f s sk li => t_delete w h f s sk li
    end.

  Lemma bulk1_sim w1 w2 h op now : w_inv w1 -> w_inv w2 -> wsim w1 w2 ->
    wres_sim (bulk1 w1 h op now) (bulk1 w2 h op now).
  Proof.
    intros W1 W2 S. destruct op; cbn [bulk1].
    - apply t_insert_sim; auto.
    - apply t_replace_sim; auto.
    - apply t_update_sim; auto.
    - apply t_delete_sim; auto.
  Qed.

  Lemma bulk1_good w h op now : w_inv w -> t_good matchf w (bulk1 w h op now).
  Proof.
    intro W. destruct op; cbn [bulk1].
    - apply t_insert_inv; auto.
    - apply t_replace_inv; auto.
    - apply t_update_inv; auto.
    - apply t_delete_inv; auto.
  Qed.

  Lemma bulk_loop_eq c g h op t o now acc n :
    bulk_loop c g h (op :: t) o now acc n =
    match bulk1 (open_w c g h) h op now with
    | (w, inl tr) =>
        bulk_loop (close_w c h w) (w_gen w) h t o now (acc ++ [inl tr]) (n + bulk_changes op tr)
    | (w, inr e) =>
        let g' := gen_after_fail g (w_gen w) in
        if o then (c, g', acc ++ [inr e], n)
        else bulk_loop c g' h t o now (acc ++ [inr e]) n
    end.
  Proof. destruct op; reflexivity. Qed.

  Definition accrel (a1 a2 : list (tresult + ekind)) : Prop := Forall2 (rsim trel) a1 a2.

  Lemma accrel_snoc a1 a2 x1 x2 : accrel a1 a2 -> rsim trel x1 x2 -> accrel (a1 ++ [x1]) (a2 ++ [x2]).
  Proof. intros A X. apply Forall2_app; [exact A|constructor; [exact X|constructor]]. Qed.

  Lemma bulk_loop_sim ops : forall c1 g1 c2 g2 h o now acc1 acc2 n,
    pre c1 g1 c2 g2 -> h <> oplog_handle -> accrel acc1 acc2 ->
    let '(c1', g1', a1, n1) := bulk_loop c1 g1 h ops o now acc1 n in
    let '(c2', g2', a2, n2) := bulk_loop c2 g2 h ops o now acc2 n in
    catsim c1' c2' /\ g_oid g1' = g_oid g2' /\ accrel a1 a2 /\ n1 = n2.
  Proof.
    induction ops as [|op t IH]; intros c1 g1 c2 g2 h o now acc1 acc2 n [I1 [I2 [S G]]] N A.
    - cbn [Txn.bulk_loop]. auto.
    - rewrite !bulk_loop_eq.
      pose proof (open_w_inv matchf c1 g1 h I1 N) as W1.
      pose proof (open_w_inv matchf c2 g2 h I2 N) as W2.
      pose proof (bulk1_sim _ _ h op now W1 W2 (open_w_sim _ _ _ _ h S G)) as T.
      pose proof (bulk1_good (open_w c1 g1 h) h op now W1) as [L1 G1].
      pose proof (bulk1_good (open_w c2 g2 h) h op now W2) as [L2 G2].
      destruct (bulk1 (open_w c1 g1 h) h op now) as [w1 [r1|e1]],
               (bulk1 (open_w c2 g2 h) h op now) as [w2 [r2|e2]];
        unfold wres_sim in T; cbn [fst snd open_w w_gen] in *; try contradiction.
      + destruct T as [Tr Sw]. rewrite (trel_bulk_changes op _ _ Tr).
        apply IH; auto; [|apply accrel_snoc; [exact A|exact Tr]].
        split; [eapply close_w_inv; eauto|]. split; [eapply close_w_inv; eauto|].
        split; [apply close_w_sim; assumption|]. apply Sw.
      + destruct T as [-> Go]. unfold gen_after_fail. cbv zeta.
        assert (A' : accrel (acc1 ++ [inr e2]) (acc2 ++ [inr e2]))
          by (apply accrel_snoc; [exact A|reflexivity]).
        destruct o; [auto|].
        apply IH; auto.
        split; [eapply cat_inv_mono; eauto|]. split; [eapply cat_inv_mono; eauto|]. auto.
  Qed.

  Theorem txn_bulk_sim c1 g1 c2 g2 h ops o now :
    pre c1 g1 c2 g2 -> fsim accrel (txn_bulk c1 g1 h ops o now) (txn_bulk c2 g2 h ops o now).
  Proof.
    intros P. pose proof P as [I1 [I2 [S G]]]. unfold Txn.txn_bulk.
    destruct (guard_write h) eqn:Gu; [apply fsim_same; auto; reflexivity|].
    apply guard_not_oplog in Gu.
    pose proof (bulk_loop_sim ops c1 g1 c2 g2 h o now [] [] 0 P Gu (Forall2_nil _)) as H.
    destruct (bulk_loop c1 g1 h ops o now [] 0) as [[[c1' g1'] a1] n1],
             (bulk_loop c2 g2 h ops o now [] 0) as [[[c2' g2'] a2] n2].
    destruct H as [Sc [Go [A ->]]].
    destruct (0 <? n2); unfold fsim; cbn [fst snd rsim]; auto.
  Qed.

  (* ---------------------------------------------------------------- *)
  (* Drop *)

  Theorem txn_drop_sim c1 g1 c2 g2 h :
    catsim c1 c2 -> g_oid g1 = g_oid g2 ->
    fsim (fun _ _ : unit => True) (txn_drop c1 g1 h) (txn_drop c2 g2 h).
  Proof.
    intros S G. pose proof S as [E K]. unfold txn_drop.
    destruct (negb (valid_handle h false)); [apply fsim_same; auto; reflexivity|].
    destruct (is_local h); [apply fsim_same; auto; reflexivity|].
    pose proof (ens_filter (drop_matches h) _ _ E) as Ev.
    pose proof (ens_filter (fun k => negb (drop_matches h k)) _ _ E) as Er. cbv beta in Er.
    rewrite (ens_keys _ _ Ev).
    destruct (map fst (filter (fun kc => drop_matches h (fst kc)) (cat_ns c2))) as [|v vs];
      [apply fsim_same; auto; exact I|].
    pose proof (drop_events_sim (v :: vs) _ _ (cat_clock c1) g1 g2 (oplog_of_sim _ _ S) G) as D.
    rewrite <- K.
    destruct (drop_events (oplog_of c1) (cat_clock c1) g1 (v :: vs)) as [[o1 k1] h1],
             (drop_events (oplog_of c2) (cat_clock c1) g2 (v :: vs)) as [[o2 k2] h2].
    destruct D as [So [<- Go]].
    destruct (String.eqb (snd h) "").
    - unfold append_event. unfold fsim; cbn [fst snd rsim cat_ns cat_clock g_oid].
      split; [|auto]. split; cbn [cat_ns cat_clock]; [|reflexivity].
      apply ens_set; [exact Er|apply csim_append; exact So].
    - unfold fsim; cbn [fst snd rsim]. split; [|auto].
      split; cbn [cat_ns cat_clock]; [|reflexivity]. apply ens_set; assumption.
  Qed.

  (* ---------------------------------------------------------------- *)
  (* Create / CreateIndex / DropIndex / ListIndexes / Find *)

  Theorem txn_create_index_sim c1 c2 n1 n2 h name cf :
    cat_inv c1 n1 -> cat_inv c2 n2 -> catsim c1 c2 ->
    csim2 (@eq string) (txn_create_index c1 h name cf) (txn_create_index c2 h name cf).
  Proof.
    intros I1 I2 S. unfold Txn.txn_create_index.
    destruct (guard_write h) eqn:Gu; [split; [exact S|reflexivity]|].
    apply guard_not_oplog in Gu.
    destruct (ns_or_new_ok matchf c1 n1 h I1 Gu) as [A1 _].
    destruct (ns_or_new_ok matchf c2 n2 h I2 Gu) as [A2 _].
    pose proof (create_index2 matchf _ _ name cf A1 A2 (ns_or_new_sim _ _ h S)) as H.
    destruct (coll_create_index matchf (ns_or_new c1 h) name cf) as [m1 [x1|e1]],
             (coll_create_index matchf (ns_or_new c2 h) name cf) as [m2 [x2|e2]];
      cbn [out2] in H; try contradiction.
    - destruct H as [Sm ->]. split; cbn [fst snd rsim]; [|reflexivity].
      split; cbn [cat_ns cat_clock]; [|apply S]. apply ens_set; [apply S|exact Sm].
    - split; cbn [fst snd rsim]; [exact S|exact H].
  Qed.

  Theorem txn_drop_index_sim c1 c2 h name :
    catsim c1 c2 ->
    csim2 (fun _ _ : unit => True) (txn_drop_index c1 h name) (txn_drop_index c2 h name).
  Proof.
    intros S. unfold txn_drop_index.
    destruct (guard_write h) eqn:Gu; [split; [exact S|reflexivity]|].
    pose proof (ens_get _ _ h (proj1 S)) as Hg.
    destruct (ns_get (cat_ns c1) h) as [x1|], (ns_get (cat_ns c2) h) as [x2|]; try contradiction;
      [|split; [exact S|reflexivity]].
    pose proof (drop_index2 x1 x2 name Hg) as H.
    destruct (coll_drop_index x1 name) as [m1 [d1|e1]], (coll_drop_index x2 name) as [m2 [d2|e2]];
      try contradiction.
    - destruct H as [Sm ->]. destruct d2 as [|y ys]; split; cbn [fst snd rsim]; auto.
      split; cbn [cat_ns cat_clock]; [|apply S]. apply ens_set; [apply S|exact Sm].
    - split; cbn [fst snd rsim]; [exact S|exact H].
  Qed.

  Theorem txn_list_indexes_sim c1 c2 h :
    catsim c1 c2 -> txn_list_indexes c1 h = txn_list_indexes c2 h.
  Proof.
    intros S. unfold txn_list_indexes. destruct (negb (valid_handle h true)); [reflexivity|].
    pose proof (ens_get _ _ h (proj1 S)) as Hg.
    destruct (ns_get (cat_ns c1) h) as [x1|], (ns_get (cat_ns c2) h) as [x2|]; try contradiction;
      [|reflexivity].
    pose proof (csim_defs _ _ Hg) as D. apply (f_equal (map s_index_spec)) in D.
    rewrite !map_map in D.
    rewrite (map_ext _ _ index_spec_defof (c_indexes x1)) in D.
    rewrite (map_ext _ _ index_spec_defof (c_indexes x2)) in D.
    rewrite D. reflexivity.
  Qed.

  Theorem txn_find_sim c1 c2 n1 n2 h q s sk li :
    cat_inv c1 n1 -> cat_inv c2 n2 -> catsim c1 c2 ->
    rsim trel (txn_find c1 h q s sk li) (txn_find c2 h q s sk li).
  Proof.
    intros I1 I2 S. unfold Txn.txn_find. destruct (negb (valid_handle h true)); [reflexivity|].
    pose proof (ens_get _ _ h (proj1 S)) as Hg.
    destruct (ns_get (cat_ns c1) h) as [x1|] eqn:E1, (ns_get (cat_ns c2) h) as [x2|] eqn:E2;
      try contradiction; [|apply trel_empty].
    destruct (cat_inv_coll _ _ _ _ I1 E1) as [N1 _]. destruct (cat_inv_coll _ _ _ _ I2 E2) as [N2 _].
    pose proof (find_list2_cases matchf _ _ q s sk li N1 N2 (csim_docs _ _ Hg)) as F.
    unfold coll_find, failr.
    destruct (find_list matchf (c_docs x1) q s sk li), (find_list matchf (c_docs x2) q s sk li);
      try contradiction; cbn [rsim ekind_of_res]; try reflexivity.
    repeat split; auto.
  Qed.

  Theorem txn_create_sim c1 c2 h :
    catsim c1 c2 -> csim2 (fun _ _ : unit => True) (txn_create c1 h) (txn_create c2 h).
  Proof.
    intros S. unfold txn_create.
    destruct (guard_write h); [split; [exact S|reflexivity]|].
    pose proof (ens_get _ _ h (proj1 S)) as Hg.
    destruct (ns_get (cat_ns c1) h), (ns_get (cat_ns c2) h); try contradiction;
      split; cbn [fst snd rsim]; auto.
    split; cbn [cat_ns cat_clock]; [|apply S]. apply ens_set; [apply S|reflexivity].
  Qed.

  (* ---------------------------------------------------------------- *)
  (* Expire (TTL) *)

  Lemma ttl_conds_sim (x1 x2 : coll) now_ms :
    csim x1 x2 ->
    opt_list (map (fun ni => ttl_condition now_ms (snd ni)) (c_indexes x1)) =
    opt_list (map (fun ni => ttl_condition now_ms (snd ni)) (c_indexes x2)).
  Proof.
    intro S. pose proof (csim_defs _ _ S) as D. f_equal.
    revert D. generalize (c_indexes x1) (c_indexes x2).
    induction l as [|a l IH]; intros [|b l'] D; try discriminate; [reflexivity|].
    cbn [map] in D. inversion D as [[Hn Hc Hl Ht]]. cbn [map]. rewrite (IH l' Ht).
    unfold ttl_condition. rewrite Hc. reflexivity.
  Qed.

  Lemma expire_loop_sim l1 : forall l2 c1 g1 c2 g2 now_ms d,
    pre c1 g1 c2 g2 -> ens l1 = ens l2 ->
    (forall h n, In (h, n) l1 -> h = oplog_handle -> c_indexes n = []) ->
    match expire_loop c1 g1 l1 now_ms d, expire_loop c2 g2 l2 now_ms d with
    | inl (c1', g1', d1), inl (c2', g2', d2) =>
        catsim c1' c2' /\ g_oid g1' = g_oid g2' /\ d1 = d2
    | inr e1, inr e2 => e1 = e2
    | _, _ => False
    end.
  Proof.
    induction l1 as [|[h x1] t IH]; intros [|[h' x2] t'] c1 g1 c2 g2 now_ms d [I1 [I2 [S G]]] E Hl;
      try discriminate.
    - cbn [Txn.expire_loop]. auto.
    - apply ens_cons_inv in E. destruct E as [<- [Sx Et]]. cbn [Txn.expire_loop].
      assert (Hl' : forall h n, In (h, n) t -> h = oplog_handle -> c_indexes n = [])
        by (intros h0 n0 Hin; apply Hl; right; exact Hin).
      rewrite <- (ttl_conds_sim x1 x2 now_ms Sx).
      destruct (opt_list (map (fun ni => ttl_condition now_ms (snd ni)) (c_indexes x1)))
        as [|cd cds] eqn:Ec.
      + apply IH; auto. split; [exact I1|]. split; [exact I2|]. split; [exact S|exact G].
      + assert (N : h <> oplog_handle).
        { intro Eh. rewrite (Hl h x1 (or_introl eq_refl) Eh) in Ec. simpl in Ec. discriminate. }
        pose proof (open_w_inv matchf c1 g1 h I1 N) as W1.
        pose proof (open_w_inv matchf c2 g2 h I2 N) as W2.
        pose proof (t_delete_sim matchf _ _ h [("$or"%string, VArr (cd :: cds))] None 0 0 W1 W2
                      (open_w_sim _ _ _ _ h S G)) as T.
        pose proof (t_delete_inv matchf (open_w c1 g1 h) h [("$or"%string, VArr (cd :: cds))] None 0 0 W1)
          as [L1 G1].
        pose proof (t_delete_inv matchf (open_w c2 g2 h) h [("$or"%string, VArr (cd :: cds))] None 0 0 W2)
          as [L2 G2].
        destruct (t_delete (open_w c1 g1 h) h [("$or"%string, VArr (cd :: cds))] None 0 0) as [w1 [r1|e1]],
                 (t_delete (open_w c2 g2 h) h [("$or"%string, VArr (cd :: cds))] None 0 0) as [w2 [r2|e2]];
          unfold wres_sim in T; cbn [fst snd open_w w_gen] in *; try contradiction.
        * destruct T as [[M _] Sw]. rewrite (lrel_len _ _ M).
          apply IH; auto.
          split; [eapply close_w_inv; eauto|]. split; [eapply close_w_inv; eauto|].
          split; [apply close_w_sim; assumption|]. apply Sw.
        * apply T.
  Qed.

  Theorem txn_expire_sim c1 g1 c2 g2 now_ms :
    pre c1 g1 c2 g2 ->
    fsim (fun _ _ : unit => True) (txn_expire c1 g1 now_ms) (txn_expire c2 g2 now_ms).
  Proof.
    intros P. pose proof P as [I1 [I2 [S G]]]. unfold Txn.txn_expire.
    pose proof (expire_loop_sim (cat_ns c1) (cat_ns c2) c1 g1 c2 g2 now_ms 0 P (proj1 S)) as H.
    destruct (expire_loop c1 g1 (cat_ns c1) now_ms 0) as [[[c1' g1'] d1]|e1],
             (expire_loop c2 g2 (cat_ns c2) now_ms 0) as [[[c2' g2'] d2]|e2].
    - destruct H as [Sc [Go ->]].
      + intros h n Hin ->. destruct I1 as [H1 _]. destruct (H1 _ _ Hin) as [Hh _].
        destruct (Hh eq_refl) as [Hi _]. exact Hi.
      + destruct (0 <? d2); unfold fsim; cbn [fst snd rsim]; auto.
    - exfalso. apply H. intros h n Hin ->. destruct I1 as [H1 _]. destruct (H1 _ _ Hin) as [Hh _].
      destruct (Hh eq_refl) as [Hi _]. exact Hi.
    - exfalso. apply H. intros h n Hin ->. destruct I1 as [H1 _]. destruct (H1 _ _ Hin) as [Hh _].
      destruct (Hh eq_refl) as [Hi _]. exact Hi.
    - unfold fsim; cbn [fst snd rsim]. split; [exact S|]. split; [exact G|].
      apply H. intros h n Hin ->. destruct I1 as [H1 _]. destruct (H1 _ _ Hin) as [Hh _].
      destruct (Hh eq_refl) as [Hi _]. exact Hi.
  Qed.

  (* the oplog trim of Driver.CTrim *)
  Lemma trim_sim c1 c2 k : catsim c1 c2 -> catsim (trim_oplog c1 k) (trim_oplog c2 k).
  Proof.
    intros S. pose proof (oplog_of_sim _ _ S) as So. unfold trim_oplog.
    split; cbn [cat_ns cat_clock]; [|apply S]. apply ens_set; [apply S|].
    pose proof (csim_docs _ _ So) as E. pose proof (csim_defs _ _ So) as D.
    unfold csim. rewrite !abs_coll_eq. cbn [c_docs c_indexes]. unfold lrel in E.
    rewrite <- !drop_map. f_equal; [f_equal; exact E|exact D].
  Qed.

End SimCat.

Print Assumptions txn_insert_sim.
Print Assumptions txn_replace_sim.
Print Assumptions txn_update_sim.
Print Assumptions txn_delete_sim.
Print Assumptions txn_bulk_sim.
Print Assumptions txn_drop_sim.
Print Assumptions txn_create_index_sim.
Print Assumptions txn_drop_index_sim.
Print Assumptions txn_list_indexes_sim.
Print Assumptions txn_find_sim.
Print Assumptions txn_expire_sim.
Print Assumptions trim_sim.
