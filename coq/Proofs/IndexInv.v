(* IndexInv.v — the per-index invariant (C15 coherence, C07 uniqueness) and
   its preservation by mongokit.Index.Add / Remove and by the loops over the
   index map (add_all, remove_all, swap_all, remove_docs, add_docs, build),
   together with the exactness of uniqueness rejections.  Parametric in the
   matcher, as Model/Collection.v. *)
From Coq Require Import List ZArith Lia Bool.
From Lungo.Model Require Import Collection.
From Lungo.Proofs Require Import OrderLaws CompareOrder EntryLemmas.
Import ListNotations.
Open Scope Z_scope.

Lemma Forall2_lift {A B} (R : A -> B -> Prop) (Q : A -> Prop) (Q' : B -> Prop) l l' :
  (forall a b, R a b -> Q a -> Q' b) -> Forall2 R l l' -> Forall Q l -> Forall Q' l'.
Proof.
  intros H F. induction F; intro G; constructor; inversion G; subst; eauto.
Qed.

Section IndexInv.
  Set Default Proof Using "Type".
  Variable matchf : doc -> doc -> res bool.

  Local Notation covered := (Collection.covered matchf).
  Local Notation index_add := (Collection.index_add matchf).
  Local Notation index_remove := (Collection.index_remove matchf).
  Local Notation add_all := (Collection.add_all matchf).
  Local Notation remove_all := (Collection.remove_all matchf).
  Local Notation swap_all := (Collection.swap_all matchf).
  Local Notation remove_docs := (Collection.remove_docs matchf).
  Local Notation add_docs := (Collection.add_docs matchf).
  Local Notation build := (Collection.build matchf).

  (* ---------------------------------------------------------------- *)
  (* definitions *)

  Definition same_def (a b : index) : Prop :=
    ix_config a = ix_config b /\ ix_cols a = ix_cols b.

  Definition covers_ok (ix : index) (d : doc) : Prop := exists b, covered ix d = Ok b.

  (* two documents share an index key *)
  Definition shares (ix : index) (d1 d2 : doc) : Prop :=
    exists t1 t2, In t1 (tuples (ix_cols ix) d1) /\ In t2 (tuples (ix_cols ix) d2) /\
                  tuple_eq t1 t2 = true.

  (* d is covered by the index and has t among its key tuples (up to tuple_eq) *)
  Definition keyed (ix : index) (d : doc) (t : list value) : Prop :=
    covered ix d = Ok true /\
    exists t', In t' (tuples (ix_cols ix) d) /\ tuple_eq t' t = true.

  (* C15 for one index, relative to the document set P: the entries are
     exactly the rebuild, each once; the partial filter is defined on every
     document *)
  Definition ix_ok (P : sdoc -> Prop) (ix : index) : Prop :=
    nodup_entries (ix_entries ix) /\
    (forall sd, P sd -> covers_ok ix (snd sd)) /\
    (forall t id, mem (ix_entries ix) t id <-> exists d, P (id, d) /\ keyed ix d t).

  (* C07 for one index *)
  Definition ix_unique_ok (P : sdoc -> Prop) (ix : index) : Prop :=
    cf_unique (ix_config ix) = true ->
    forall id1 d1 id2 d2, P (id1, d1) -> P (id2, d2) -> id1 <> id2 ->
      covered ix d1 = Ok true -> covered ix d2 = Ok true ->
      forall t1 t2, In t1 (tuples (ix_cols ix) d1) -> In t2 (tuples (ix_cols ix) d2) ->
                    tuple_eq t1 t2 = false.

  (* the index is what CreateIndex makes of its config *)
  Definition ix_wf (ix : index) : Prop :=
    new_index (ix_config ix) = Ok (mkIndex (ix_config ix) (ix_cols ix) []).

  Definition ids_unique (P : sdoc -> Prop) : Prop :=
    forall id d1 d2, P (id, d1) -> P (id, d2) -> d1 = d2.

  Definition fresh_id (P : sdoc -> Prop) (id : did) : Prop := forall d, ~ P (id, d).

  (* adding d would create a duplicate pair with a document of P *)
  Definition dup_in (P : sdoc -> Prop) (ix : index) (d : doc) : Prop :=
    cf_unique (ix_config ix) = true /\ covered ix d = Ok true /\
    exists id2 d2, P (id2, d2) /\ covered ix d2 = Ok true /\ shares ix d d2.

  (* P contains a duplicate pair *)
  Definition dup_pair (P : sdoc -> Prop) (ix : index) : Prop :=
    cf_unique (ix_config ix) = true /\
    exists id1 d1 id2 d2, P (id1, d1) /\ P (id2, d2) /\ id1 <> id2 /\
      covered ix d1 = Ok true /\ covered ix d2 = Ok true /\ shares ix d1 d2.

  Definition ix_good (P : sdoc -> Prop) (ix : index) : Prop :=
    ix_ok P ix /\ ix_unique_ok P ix /\ ix_wf ix.

  Definition ixs_good (P : sdoc -> Prop) (ixs : list (string * index)) : Prop :=
    Forall (fun ni => ix_good P (snd ni)) ixs.

  Definition same_shape (l l' : list (string * index)) : Prop :=
    Forall2 (fun a b => fst a = fst b /\ same_def (snd a) (snd b)) l l'.

  (* ---------------------------------------------------------------- *)
  (* same_def / same_shape *)

  Lemma same_def_refl a : same_def a a.
  Proof. split; reflexivity. Qed.

  Lemma same_def_sym a b : same_def a b -> same_def b a.
  Proof. intros [H1 H2]. split; auto. Qed.

  Lemma same_def_trans a b c : same_def a b -> same_def b c -> same_def a c.
  Proof. intros [H1 H2] [H3 H4]. split; congruence. Qed.

  Lemma covered_same a b d : same_def a b -> covered a d = covered b d.
  Proof. intros [H _]. unfold Collection.covered. rewrite H. reflexivity. Qed.

  Lemma covers_ok_same a b d : same_def a b -> covers_ok a d -> covers_ok b d.
  Proof. intros H [x Hx]. exists x. rewrite <- (covered_same a b d H). exact Hx. Qed.

  Lemma keyed_same a b d t : same_def a b -> keyed a d t <-> keyed b d t.
  Proof.
    intro H. unfold keyed. rewrite (covered_same a b d H). destruct H as [_ H]. rewrite H.
    reflexivity.
  Qed.

  Lemma shares_same a b d1 d2 : same_def a b -> shares a d1 d2 <-> shares b d1 d2.
  Proof. intros [_ H]. unfold shares. rewrite H. reflexivity. Qed.

  Lemma shares_sym ix d1 d2 : shares ix d1 d2 -> shares ix d2 d1.
  Proof.
    intros [t1 [t2 [H1 [H2 H]]]]. exists t2, t1. repeat split; auto.
    rewrite tuple_eq_sym. exact H.
  Qed.

  Lemma ix_wf_same a b : same_def a b -> ix_wf a -> ix_wf b.
  Proof. intros [H1 H2]. unfold ix_wf. rewrite <- H1, <- H2. auto. Qed.

  Lemma ix_unique_ok_same P a b : same_def a b -> ix_unique_ok P a -> ix_unique_ok P b.
  Proof.
    intros H U Hu id1 d1 id2 d2 P1 P2 Hne C1 C2 t1 t2 T1 T2.
    rewrite <- (covered_same a b d1 H) in C1. rewrite <- (covered_same a b d2 H) in C2.
    destruct H as [Hc Hl]. rewrite <- Hl in T1, T2. rewrite <- Hc in Hu.
    exact (U Hu id1 d1 id2 d2 P1 P2 Hne C1 C2 t1 t2 T1 T2).
  Qed.

  Lemma ix_unique_ok_anti (P Q : sdoc -> Prop) ix :
    (forall x, Q x -> P x) -> ix_unique_ok P ix -> ix_unique_ok Q ix.
  Proof.
    intros H U Hu id1 d1 id2 d2 P1 P2. apply U; auto.
  Qed.

  Lemma dup_in_same P a b d : same_def a b -> dup_in P a d -> dup_in P b d.
  Proof.
    intros H [Hu [Hc [id2 [d2 [Hp [Hc2 Hs]]]]]].
    split; [destruct H as [H _]; rewrite <- H; exact Hu|].
    split; [rewrite <- (covered_same a b d H); exact Hc|].
    exists id2, d2. split; auto. split.
    - rewrite <- (covered_same a b d2 H); exact Hc2.
    - apply (shares_same a b _ _ H). exact Hs.
  Qed.

  Lemma dup_pair_same P a b : same_def a b -> dup_pair P a -> dup_pair P b.
  Proof.
    intros H [Hu [id1 [d1 [id2 [d2 [P1 [P2 [Hne [C1 [C2 Hs]]]]]]]]]].
    split; [destruct H as [H _]; rewrite <- H; exact Hu|].
    exists id1, d1, id2, d2. repeat (split; auto).
    - rewrite <- (covered_same a b d1 H); exact C1.
    - rewrite <- (covered_same a b d2 H); exact C2.
    - apply (shares_same a b _ _ H). exact Hs.
  Qed.

  Lemma dup_pair_mono (P Q : sdoc -> Prop) ix :
    (forall x, P x -> Q x) -> dup_pair P ix -> dup_pair Q ix.
  Proof.
    intros H [Hu [id1 [d1 [id2 [d2 [P1 [P2 R]]]]]]].
    split; auto. exists id1, d1, id2, d2. auto.
  Qed.

  (* a duplicate pair contradicts uniqueness *)
  Lemma dup_pair_not_unique P ix : dup_pair P ix -> ix_unique_ok P ix -> False.
  Proof.
    intros [Hu [id1 [d1 [id2 [d2 [P1 [P2 [Hne [C1 [C2 [t1 [t2 [T1 [T2 E]]]]]]]]]]]]]] U.
    rewrite (U Hu id1 d1 id2 d2 P1 P2 Hne C1 C2 t1 t2 T1 T2) in E. discriminate.
  Qed.

  (* prove ix_ok of b from facts stated about a *)
  Lemma ix_ok_transfer (Q : sdoc -> Prop) a b :
    same_def a b ->
    nodup_entries (ix_entries b) ->
    (forall sd, Q sd -> covers_ok a (snd sd)) ->
    (forall t id, mem (ix_entries b) t id <-> exists d, Q (id, d) /\ keyed a d t) ->
    ix_ok Q b.
  Proof.
    intros H Hn Hc Hm. split; [exact Hn|]. split.
    - intros sd Hq. apply (covers_ok_same a b _ H). auto.
    - intros t id. rewrite Hm. split; intros [d [Hq Hk]]; exists d; split; auto;
        apply (keyed_same a b d t H); exact Hk.
  Qed.

  Lemma ix_ok_ext (P Q : sdoc -> Prop) ix :
    (forall x, P x <-> Q x) -> ix_ok P ix -> ix_ok Q ix.
  Proof.
    intros H [Hn [Hc Hm]]. split; [exact Hn|]. split.
    - intros sd Hq. apply Hc. apply H. exact Hq.
    - intros t id. rewrite Hm. split; intros [d [Hq Hk]]; exists d; split; auto; apply H; exact Hq.
  Qed.

  Lemma ix_good_ext (P Q : sdoc -> Prop) ix :
    (forall x, P x <-> Q x) -> ix_good P ix -> ix_good Q ix.
  Proof.
    intros H [H1 [H2 H3]]. split; [|split]; auto.
    - apply (ix_ok_ext P Q); auto.
    - apply (ix_unique_ok_anti P Q); auto. intros x Hx. apply H. exact Hx.
  Qed.

  Lemma ixs_good_ext (P Q : sdoc -> Prop) ixs :
    (forall x, P x <-> Q x) -> ixs_good P ixs -> ixs_good Q ixs.
  Proof.
    intros H G. unfold ixs_good in *. eapply Forall_impl; [|exact G].
    intros a Ha. apply (ix_good_ext P Q); auto.
  Qed.

  Lemma same_shape_refl l : same_shape l l.
  Proof. induction l; constructor; auto. split; auto. apply same_def_refl. Qed.

  Lemma same_shape_sym l l' : same_shape l l' -> same_shape l' l.
  Proof.
    intro H. induction H; constructor; auto.
    destruct H as [H1 H2]. split; auto. apply same_def_sym; auto.
  Qed.

  Lemma same_shape_trans l1 l2 l3 : same_shape l1 l2 -> same_shape l2 l3 -> same_shape l1 l3.
  Proof.
    intro H. revert l3. induction H; intros l3 G; inversion G; subst; constructor; auto.
    - destruct H as [H1 H2]. destruct H3 as [H3 H4]. split; [congruence|].
      eapply same_def_trans; eauto.
    - apply IHForall2. assumption.
  Qed.

  Lemma same_shape_names l l' : same_shape l l' -> map fst l = map fst l'.
  Proof. intro H. induction H; simpl; auto. destruct H as [H _]. congruence. Qed.

  Lemma same_shape_in l l' a :
    same_shape l l' -> In a l ->
    exists b, In b l' /\ fst a = fst b /\ same_def (snd a) (snd b).
  Proof.
    intro H. induction H; simpl; intros Hin; [contradiction|].
    destruct Hin as [->|Hin].
    - exists y. destruct H; auto.
    - destruct (IHForall2 Hin) as [b [Hb R]]. exists b. auto.
  Qed.

  Lemma same_shape_find l l' n ix :
    same_shape l l' -> find_index l n = Some ix ->
    exists ix', find_index l' n = Some ix' /\ same_def ix ix'.
  Proof.
    intro H. induction H; simpl; intro F; [discriminate|].
    destruct x as [m a], y as [m' b]. destruct H as [Hn Hd]. simpl in Hn, Hd. subst m'.
    destruct (String.eqb m n).
    - inversion F; subst. eauto.
    - auto.
  Qed.

  Lemma same_shape_find_none l l' n :
    same_shape l l' -> find_index l n = None -> find_index l' n = None.
  Proof.
    intro H. induction H; simpl; intro F; auto.
    destruct x as [m a], y as [m' b]. destruct H as [Hn Hd]. simpl in Hn, Hd. subst m'.
    destruct (String.eqb m n); [discriminate|auto].
  Qed.

  (* ---------------------------------------------------------------- *)
  (* mongokit.Index.Add *)

  Lemma index_add_inv ix id d r :
    index_add ix (id, d) = r ->
    (covered ix d = Ok true /\ r = inl (base_add ix (id, d))) \/
    (covered ix d = Ok false /\ r = inl (true, ix)) \/
    (~ covers_ok ix d /\ exists e, e <> EDup /\ r = inr e).
  Proof.
    unfold Collection.index_add. cbn [snd]. intros <-.
    destruct (covered ix d) as [[|]| | | |] eqn:E; auto; right; right;
      (split; [intros [b Hb]; congruence | eexists; split; [|reflexivity]; simpl; discriminate]).
  Qed.

  Lemma index_add_covered ix id d :
    covered ix d = Ok true -> index_add ix (id, d) = inl (base_add ix (id, d)).
  Proof. unfold Collection.index_add. cbn [snd]. intros ->. reflexivity. Qed.

  Lemma index_add_uncovered ix id d :
    covered ix d = Ok false -> index_add ix (id, d) = inl (true, ix).
  Proof. unfold Collection.index_add. cbn [snd]. intros ->. reflexivity. Qed.

  (* outcome classes of index_add *)
  Lemma index_add_inl_covers ix id d r : index_add ix (id, d) = inl r -> covers_ok ix d.
  Proof.
    intro H. destruct (index_add_inv _ _ _ _ H) as [[Hc _]|[[Hc _]|[_ [e [_ Hr]]]]];
      [exists true; auto | exists false; auto | discriminate].
  Qed.

  Lemma index_add_inr ix id d e : index_add ix (id, d) = inr e -> e <> EDup /\ ~ covers_ok ix d.
  Proof.
    intro H. destruct (index_add_inv _ _ _ _ H) as [[_ Hr]|[[_ Hr]|[Hn [e' [He Hr]]]]];
      try discriminate.
    inversion Hr; subst. auto.
  Qed.

  Lemma index_add_covers_inl ix id d :
    covers_ok ix d -> exists b ix', index_add ix (id, d) = inl (b, ix').
  Proof.
    intros [[|] Hb].
    - rewrite (index_add_covered _ _ _ Hb). destruct (base_add ix (id, d)) as [b ix']. eauto.
    - rewrite (index_add_uncovered _ _ _ Hb). eauto.
  Qed.

  Lemma index_add_false_same ix id d ix' : index_add ix (id, d) = inl (false, ix') -> ix' = ix.
  Proof.
    intro H. destruct (index_add_inv _ _ _ _ H) as [[_ Hr]|[[_ Hr]|[_ [e [_ Hr]]]]];
      try discriminate.
    inversion Hr as [Hb]. symmetry in Hb. apply base_add_false in Hb. tauto.
  Qed.

  Lemma index_add_same_def ix id d b ix' : index_add ix (id, d) = inl (b, ix') -> same_def ix ix'.
  Proof.
    intro H. destruct (index_add_inv _ _ _ _ H) as [[_ Hr]|[[_ Hr]|[_ [e [_ Hr]]]]];
      try discriminate.
    - inversion Hr as [Hb]. symmetry in Hb. destruct b.
      + apply base_add_true in Hb. destruct Hb as [H1 [H2 _]]. split; auto.
      + apply base_add_false in Hb. destruct Hb as [-> _]. apply same_def_refl.
    - inversion Hr; subst. apply same_def_refl.
  Qed.

  (* index_add_ok: a successful Add keeps the index coherent and unique *)
  Theorem index_add_ok P ix id d ix' :
    index_add ix (id, d) = inl (true, ix') ->
    ix_ok P ix -> fresh_id P id ->
    same_def ix ix' /\
    ix_ok (fun x => P x \/ x = (id, d)) ix' /\
    (ix_unique_ok P ix -> ix_unique_ok (fun x => P x \/ x = (id, d)) ix').
  Proof.
    intros H [Hnd [Hcov Hmem]] Hfresh.
    destruct (index_add_inv _ _ _ _ H) as [[Hc Hr]|[[Hc Hr]|[_ [e [_ Hr]]]]]; [| |discriminate].
    - inversion Hr as [Hb]. symmetry in Hb. apply base_add_true in Hb.
      destruct Hb as [Hcf [Hcl [Hes [Hfirst Hkeys]]]].
      assert (Hsd : same_def ix ix') by (split; auto).
      split; [exact Hsd|]. split.
      + apply (ix_ok_transfer _ ix ix' Hsd).
        * rewrite Hes. apply nodup_set_all. exact Hnd.
        * intros sd [Hp | ->]; [auto | exists true; exact Hc].
        * intros t i. rewrite Hes, mem_set_all, Hmem. split.
          -- intros [[d0 [Hp Hk]]|[-> Hex]].
             ++ exists d0. auto.
             ++ exists d. split; auto. split; auto.
          -- intros [d0 [[Hp|Heq] Hk]].
             ++ left. eauto.
             ++ inversion Heq; subst. right. split; auto. destruct Hk as [_ Hex]. exact Hex.
      + intro Hu. apply (ix_unique_ok_same _ ix ix' Hsd).
        intros Hun id1 d1 id2 d2 [P1|E1] [P2|E2] Hne C1 C2 t1 t2 T1 T2.
        * exact (Hu Hun id1 d1 id2 d2 P1 P2 Hne C1 C2 t1 t2 T1 T2).
        * inversion E2; subst.
          destruct (tuple_eq t1 t2) eqn:E; auto. exfalso.
          assert (Hm : mem (ix_entries ix) t2 id1).
          { apply Hmem. exists d1. split; auto. split; auto. exists t1. auto. }
          pose proof (Hkeys Hun t2 T2) as K. rewrite has_key_false in K. exact (K id1 Hm).
        * inversion E1; subst.
          destruct (tuple_eq t1 t2) eqn:E; auto. exfalso.
          assert (Hm : mem (ix_entries ix) t1 id2).
          { apply Hmem. exists d2. split; auto. split; auto. exists t2. split; auto.
            rewrite tuple_eq_sym. exact E. }
          pose proof (Hkeys Hun t1 T1) as K. rewrite has_key_false in K. exact (K id2 Hm).
        * inversion E1; inversion E2; subst. congruence.
    - inversion Hr; subst ix'. split; [apply same_def_refl|]. split.
      + split; [exact Hnd|]. split.
        * intros sd [Hp | ->]; [auto | exists false; exact Hc].
        * intros t i. rewrite Hmem. split.
          -- intros [d0 [Hp Hk]]. exists d0. auto.
          -- intros [d0 [[Hp|Heq] Hk]]; [eauto|].
             inversion Heq; subst. destruct Hk as [Hk _]. congruence.
      + intros Hu Hun id1 d1 id2 d2 [P1|E1] [P2|E2] Hne C1 C2 t1 t2 T1 T2.
        * exact (Hu Hun id1 d1 id2 d2 P1 P2 Hne C1 C2 t1 t2 T1 T2).
        * inversion E2; subst. congruence.
        * inversion E1; subst. congruence.
        * inversion E1; inversion E2; subst. congruence.
  Qed.

  (* exactness: Add reports false exactly when a duplicate pair would arise *)
  Theorem index_add_dup_iff P ix id d :
    ix_ok P ix -> fresh_id P id ->
    ((exists ix', index_add ix (id, d) = inl (false, ix')) <-> dup_in P ix d).
  Proof.
    intros [Hnd [Hcov Hmem]] Hfresh. split.
    - intros [ix' H].
      destruct (index_add_inv _ _ _ _ H) as [[Hc Hr]|[[Hc Hr]|[_ [e [_ Hr]]]]]; try discriminate.
      inversion Hr as [Hb]. symmetry in Hb. apply base_add_false in Hb.
      destruct Hb as [_ [Hf|[Hu [t [Ht Hk]]]]].
      + exfalso. apply (proj1 (Hmem _ _)) in Hf. destruct Hf as [d0 [Hp _]].
        exact (Hfresh d0 Hp).
      + apply has_key_iff in Hk. destruct Hk as [i Hi]. apply Hmem in Hi.
        destruct Hi as [d2 [Hp [Hc2 [t' [Ht' E]]]]].
        split; auto. split; auto. exists i, d2. split; auto. split; auto.
        exists t, t'. repeat split; auto. rewrite tuple_eq_sym. exact E.
    - intros [Hu [Hc [id2 [d2 [Hp [Hc2 [t1 [t2 [T1 [T2 E]]]]]]]]]].
      rewrite (index_add_covered _ _ _ Hc).
      destruct (base_add_cases ix id d) as [[ix' Hb]|Hb]; [|rewrite Hb; eauto].
      exfalso. apply base_add_true in Hb. destruct Hb as [_ [_ [_ [_ Hkeys]]]].
      pose proof (Hkeys Hu t1 T1) as K. rewrite has_key_false in K. apply (K id2).
      apply Hmem. exists d2. split; auto. split; auto. exists t2. split; auto.
      rewrite tuple_eq_sym. exact E.
  Qed.

  (* hence: defined cover + no duplicate = success *)
  Lemma index_add_succeeds P ix id d :
    ix_ok P ix -> fresh_id P id -> covers_ok ix d -> ~ dup_in P ix d ->
    exists ix', index_add ix (id, d) = inl (true, ix').
  Proof.
    intros Hok Hf Hc Hn. destruct (index_add_covers_inl ix id d Hc) as [[|] [ix' H]]; eauto.
    exfalso. apply Hn. apply (index_add_dup_iff P ix id d Hok Hf). eauto.
  Qed.

  Lemma index_add_good P ix id d ix' :
    index_add ix (id, d) = inl (true, ix') -> ix_good P ix -> fresh_id P id ->
    ix_good (fun x => P x \/ x = (id, d)) ix' /\ same_def ix ix'.
  Proof.
    intros H [Hok [Hu Hwf]] Hf.
    destruct (index_add_ok P ix id d ix' H Hok Hf) as [Hs [Hok' Hu']].
    split; auto. split; auto. split; auto. apply (ix_wf_same ix ix'); auto.
  Qed.

  (* ---------------------------------------------------------------- *)
  (* mongokit.Index.Remove *)

  Lemma index_remove_covered ix id d :
    covered ix d = Ok true -> index_remove ix (id, d) = inl (base_remove ix (id, d)).
  Proof. unfold Collection.index_remove. cbn [snd]. intros ->. reflexivity. Qed.

  Lemma index_remove_uncovered ix id d :
    covered ix d = Ok false -> index_remove ix (id, d) = inl (true, ix).
  Proof. unfold Collection.index_remove. cbn [snd]. intros ->. reflexivity. Qed.

  (* under the invariant, removing a document of the collection always
     succeeds and leaves the index coherent for the remaining documents *)
  Theorem index_remove_good P ix id d :
    ix_ok P ix -> P (id, d) -> ids_unique P ->
    exists ix', index_remove ix (id, d) = inl (true, ix') /\ same_def ix ix' /\
                ix_ok (fun x => P x /\ x <> (id, d)) ix'.
  Proof.
    intros [Hnd [Hcov Hmem]] Hpd Hids.
    destruct (Hcov (id, d) Hpd) as [[|] Hc]; simpl in Hc.
    - rewrite (index_remove_covered _ _ _ Hc).
      assert (Hf : has_entry (ix_entries ix) (first_tuple (tuples (ix_cols ix) d), id) = true).
      { apply Hmem. exists d. split; auto. split; auto.
        exists (first_tuple (tuples (ix_cols ix) d)). split.
        - apply first_tuple_in.
        - apply tuple_eq_refl. }
      destruct (base_remove_present ix id d Hf) as [ix' Hb]. rewrite Hb.
      exists ix'. split; auto.
      apply base_remove_true in Hb. destruct Hb as [Hcf [Hcl [Hes _]]].
      assert (Hsd : same_def ix ix') by (split; auto).
      split; [exact Hsd|].
      apply (ix_ok_transfer _ ix ix' Hsd).
      + rewrite Hes. apply nodup_del_all. exact Hnd.
      + intros sd [Hp _]. auto.
      + intros t i. rewrite Hes, mem_del_all, Hmem. split.
        * intros [[d0 [Hp Hk]] Hn]. exists d0. split; auto. split; auto.
          intro Heq. inversion Heq; subst. apply Hn. split; auto.
          destruct Hk as [_ Hex]. exact Hex.
        * intros [d0 [[Hp Hne] Hk]]. split; [eauto|].
          intros [-> _]. apply Hne. f_equal. exact (Hids _ _ _ Hp Hpd).
    - rewrite (index_remove_uncovered _ _ _ Hc). exists ix. split; auto.
      split; [apply same_def_refl|]. split; [exact Hnd|]. split.
      + intros sd [Hp _]. auto.
      + intros t i. rewrite Hmem. split.
        * intros [d0 [Hp Hk]]. exists d0. split; auto. split; auto.
          intro Heq. inversion Heq; subst. destruct Hk as [Hk _]. congruence.
        * intros [d0 [[Hp _] Hk]]. eauto.
  Qed.

  (* the form asked for: from a successful Remove *)
  Corollary index_remove_ok P ix sd ix' :
    index_remove ix sd = inl (true, ix') ->
    ix_ok P ix -> P sd -> ids_unique P ->
    same_def ix ix' /\ ix_ok (fun x => P x /\ x <> sd) ix' /\
    (ix_unique_ok P ix -> ix_unique_ok (fun x => P x /\ x <> sd) ix').
  Proof.
    destruct sd as [id d]. intros H Hok Hp Hids.
    destruct (index_remove_good P ix id d Hok Hp Hids) as [ix1 [H1 [Hs Hok1]]].
    rewrite H in H1. inversion H1; subst ix1. split; auto. split; auto.
    intro Hu. apply (ix_unique_ok_same _ ix ix' Hs).
    apply (ix_unique_ok_anti P); auto. intros x [Hx _]; exact Hx.
  Qed.

  (* Remove never reports "not found" or an error for a document of P *)
  Corollary index_remove_never_fails P ix sd r :
    ix_ok P ix -> P sd -> ids_unique P ->
    index_remove ix sd = r -> exists ix', r = inl (true, ix').
  Proof.
    destruct sd as [id d]. intros Hok Hp Hids <-.
    destruct (index_remove_good P ix id d Hok Hp Hids) as [ix1 [H1 _]]. eauto.
  Qed.

  Lemma index_remove_good' P ix id d :
    ix_good P ix -> P (id, d) -> ids_unique P ->
    exists ix', index_remove ix (id, d) = inl (true, ix') /\ same_def ix ix' /\
                ix_good (fun x => P x /\ x <> (id, d)) ix'.
  Proof.
    intros [Hok [Hu Hwf]] Hp Hids.
    destruct (index_remove_good P ix id d Hok Hp Hids) as [ix' [H [Hs Hok']]].
    exists ix'. split; auto. split; auto. split; auto. split.
    - apply (ix_unique_ok_same _ ix ix' Hs).
      apply (ix_unique_ok_anti P); auto. intros x [Hx _]; exact Hx.
    - apply (ix_wf_same ix ix'); auto.
  Qed.

  Lemma ids_unique_sub (P Q : sdoc -> Prop) :
    (forall x, Q x -> P x) -> ids_unique P -> ids_unique Q.
  Proof. intros H U id d1 d2 H1 H2. apply (U id); auto. Qed.

  (* ---------------------------------------------------------------- *)
  (* the loops over the index map *)

  Lemma add_all_cons n ix t sd :
    add_all ((n, ix) :: t) sd =
    match index_add ix sd with
    | inr e => ((n, ix) :: t, Some e)
    | inl (false, ix') => ((n, ix') :: t, Some EDup)
    | inl (true, ix') => let '(t', e) := add_all t sd in ((n, ix') :: t', e)
    end.
  Proof. reflexivity. Qed.

  Lemma remove_all_cons n ix t sd :
    remove_all ((n, ix) :: t) sd =
    match index_remove ix sd with
    | inr e => ((n, ix) :: t, Some e)
    | inl (false, ix') => ((n, ix') :: t, Some EErr)
    | inl (true, ix') => let '(t', e) := remove_all t sd in ((n, ix') :: t', e)
    end.
  Proof. reflexivity. Qed.

  Lemma swap_all_cons n ix t old new :
    swap_all ((n, ix) :: t) old new =
    match index_remove ix old with
    | inr e => ((n, ix) :: t, Some e)
    | inl (false, ix') => ((n, ix') :: t, Some EErr)
    | inl (true, ix') =>
        match index_add ix' new with
        | inr e => ((n, ix') :: t, Some e)
        | inl (false, ix'') => ((n, ix'') :: t, Some EDup)
        | inl (true, ix'') => let '(t', e) := swap_all t old new in ((n, ix'') :: t', e)
        end
    end.
  Proof. reflexivity. Qed.

  Lemma remove_docs_cons ixs sd t :
    remove_docs ixs (sd :: t) =
    match remove_all ixs sd with
    | (ixs', Some e) => (ixs', Some e)
    | (ixs', None) => remove_docs ixs' t
    end.
  Proof. reflexivity. Qed.

  Lemma add_docs_cons ixs sd t :
    add_docs ixs (sd :: t) =
    match add_all ixs sd with
    | (ixs', Some e) => (ixs', Some e)
    | (ixs', None) => add_docs ixs' t
    end.
  Proof. reflexivity. Qed.

  Lemma build_cons ix sd t :
    build ix (sd :: t) =
    match index_add ix sd with
    | inr e => (ix, Some e)
    | inl (false, ix') => (ix', Some EDup)
    | inl (true, ix') => build ix' t
    end.
  Proof. reflexivity. Qed.

  Lemma ixs_good_ok P ixs : ixs_good P ixs -> Forall (fun ni => ix_ok P (snd ni)) ixs.
  Proof. intro G. eapply Forall_impl; [|exact G]. intros a [H _]. exact H. Qed.

  Lemma fresh_id_add P id id' d :
    fresh_id P id' -> id' <> id -> fresh_id (fun x => P x \/ x = (id, d)) id'.
  Proof. intros F Hne d' [Hp|Heq]; [exact (F d' Hp)|]. inversion Heq. congruence. Qed.

  Lemma fresh_id_sub (P Q : sdoc -> Prop) id :
    (forall x, Q x -> P x) -> fresh_id P id -> fresh_id Q id.
  Proof. intros H F d Hq. exact (F d (H _ Hq)). Qed.

  (* --- add_all --- *)

  Lemma add_all_good P ixs id d ixs' :
    add_all ixs (id, d) = (ixs', None) -> ixs_good P ixs -> fresh_id P id ->
    ixs_good (fun x => P x \/ x = (id, d)) ixs' /\ same_shape ixs ixs'.
  Proof.
    revert ixs'. induction ixs as [|[n ix] t IH]; intros ixs' H G F.
    - simpl in H. inversion H; subst. split; constructor.
    - rewrite add_all_cons in H. inversion G as [|? ? G1 G2]; subst. simpl in G1.
      destruct (index_add ix (id, d)) as [[[|] ix1]|e] eqn:Ha; try discriminate.
      destruct (add_all t (id, d)) as [t' e'] eqn:Ht. inversion H; subst.
      destruct (index_add_good P ix id d ix1 Ha G1 F) as [Hg Hs].
      destruct (IH t' eq_refl G2 F) as [Hg' Hs'].
      split; constructor; auto.
  Qed.

  (* exactness of the uniqueness rejection of add_all: the first index that
     does not accept the document rejects it as a duplicate *)
  Theorem add_all_dup_iff P ixs id d :
    Forall (fun ni => ix_ok P (snd ni)) ixs -> fresh_id P id ->
    ((exists ixs', add_all ixs (id, d) = (ixs', Some EDup)) <->
     exists pre ni post, ixs = (pre ++ ni :: post)%list /\
       Forall (fun a => covers_ok (snd a) d) pre /\ dup_in P (snd ni) d).
  Proof.
    intros G F. split.
    - intros [ixs' H]. revert ixs' H. induction ixs as [|[n ix] t IH]; intros ixs' H.
      + simpl in H. discriminate.
      + inversion G as [|? ? G1 G2]; subst. simpl in G1. rewrite add_all_cons in H.
        destruct (index_add ix (id, d)) as [[[|] ix1]|e] eqn:Ha.
        * destruct (add_all t (id, d)) as [t' e'] eqn:Ht. inversion H; subst.
          destruct (IH G2 t' eq_refl) as [pre [ni [post [-> [Hc Hd]]]]].
          exists ((n, ix) :: pre), ni, post. split; auto. split; auto.
          constructor; auto. simpl. eapply index_add_inl_covers; eauto.
        * exists [], (n, ix), t. split; auto. split; auto. simpl.
          apply (index_add_dup_iff P ix id d G1 F). eauto.
        * inversion H; subst. apply index_add_inr in Ha. destruct Ha as [Ha _]. congruence.
    - intros [pre [ni [post [-> [Hc Hd]]]]].
      induction pre as [|[n ix] pre IH].
      + destruct ni as [n ix]. cbn [app snd] in *. inversion G as [|? ? G1 G2]; subst. simpl in G1.
        rewrite add_all_cons.
        apply (index_add_dup_iff P ix id d G1 F) in Hd. destruct Hd as [ix' Hd].
        rewrite Hd. eauto.
      + simpl app in *. inversion G as [|? ? G1 G2]; subst. simpl in G1.
        inversion Hc as [|? ? C1 C2]; subst. simpl in C1.
        rewrite add_all_cons.
        destruct (index_add_covers_inl ix id d C1) as [[|] [ix' Ha]]; rewrite Ha; [|eauto].
        destruct (IH G2 C2) as [t' Ht]. rewrite Ht. eauto.
  Qed.

  Lemma add_all_total ixs id d :
    Forall (fun a => covers_ok (snd a) d) ixs ->
    exists ixs', add_all ixs (id, d) = (ixs', None) \/ add_all ixs (id, d) = (ixs', Some EDup).
  Proof.
    induction ixs as [|[n ix] t IH]; intro C.
    - simpl. eauto.
    - inversion C as [|? ? C1 C2]; subst. simpl in C1. rewrite add_all_cons.
      destruct (index_add_covers_inl ix id d C1) as [[|] [ix' Ha]]; rewrite Ha; [|eauto].
      destruct (IH C2) as [t' [Ht|Ht]]; rewrite Ht; eauto.
  Qed.

  Corollary add_all_dup_iff_total P ixs id d :
    Forall (fun ni => ix_ok P (snd ni)) ixs -> fresh_id P id ->
    Forall (fun a => covers_ok (snd a) d) ixs ->
    ((exists ixs', add_all ixs (id, d) = (ixs', Some EDup)) <->
     exists ni, In ni ixs /\ dup_in P (snd ni) d).
  Proof.
    intros G F C. rewrite (add_all_dup_iff P ixs id d G F). split.
    - intros [pre [ni [post [-> [_ Hd]]]]]. exists ni. split; auto.
      apply in_or_app. right. left. reflexivity.
    - intros [ni [Hin Hd]]. apply in_split in Hin. destruct Hin as [pre [post ->]].
      exists pre, ni, post. split; auto. split; auto.
      apply Forall_app in C. tauto.
  Qed.

  (* an error other than EDup comes from an undefined partial filter *)
  Lemma add_all_error ixs id d ixs' e :
    add_all ixs (id, d) = (ixs', Some e) -> e <> EDup ->
    exists ni, In ni ixs /\ ~ covers_ok (snd ni) d.
  Proof.
    revert ixs'. induction ixs as [|[n ix] t IH]; intros ixs' H Hne.
    - simpl in H. discriminate.
    - rewrite add_all_cons in H.
      destruct (index_add ix (id, d)) as [[[|] ix1]|e1] eqn:Ha.
      + destruct (add_all t (id, d)) as [t' e'] eqn:Ht. inversion H; subst.
        destruct (IH t' eq_refl Hne) as [ni [Hin Hc]]. exists ni. split; auto. right; auto.
      + inversion H; subst. congruence.
      + inversion H; subst. apply index_add_inr in Ha. exists (n, ix). split; [left; auto|tauto].
  Qed.

  (* --- remove_all --- *)

  Lemma remove_all_good P ixs id d :
    ixs_good P ixs -> P (id, d) -> ids_unique P ->
    exists ixs', remove_all ixs (id, d) = (ixs', None) /\
      ixs_good (fun x => P x /\ x <> (id, d)) ixs' /\ same_shape ixs ixs'.
  Proof.
    intros G Hp Hids. induction ixs as [|[n ix] t IH].
    - exists []. simpl. repeat split; constructor.
    - inversion G as [|? ? G1 G2]; subst. simpl in G1.
      destruct (index_remove_good' P ix id d G1 Hp Hids) as [ix1 [H1 [Hs Hg]]].
      destruct (IH G2) as [t' [Ht [Hg' Hs']]].
      exists ((n, ix1) :: t'). rewrite remove_all_cons, H1, Ht.
      split; auto. split; constructor; auto.
  Qed.

  (* --- swap_all --- *)

  Lemma swap_all_good P ixs old id d ixs' :
    swap_all ixs old (id, d) = (ixs', None) ->
    ixs_good P ixs -> P old -> ids_unique P -> fresh_id P id ->
    ixs_good (fun x => (P x /\ x <> old) \/ x = (id, d)) ixs' /\ same_shape ixs ixs'.
  Proof.
    destruct old as [oid od].
    revert ixs'. induction ixs as [|[n ix] t IH]; intros ixs' H G Hp Hids F.
    - simpl in H. inversion H; subst. split; constructor.
    - rewrite swap_all_cons in H. inversion G as [|? ? G1 G2]; subst. simpl in G1.
      destruct (index_remove_good' P ix oid od G1 Hp Hids) as [ix1 [H1 [Hs1 Hg1]]].
      rewrite H1 in H.
      destruct (index_add ix1 (id, d)) as [[[|] ix2]|e] eqn:Ha; try discriminate.
      destruct (swap_all t (oid, od) (id, d)) as [t' e'] eqn:Ht. inversion H; subst.
      assert (F1 : fresh_id (fun x => P x /\ x <> (oid, od)) id)
        by (apply (fresh_id_sub P); auto; intros x [Hx _]; exact Hx).
      destruct (index_add_good _ ix1 id d ix2 Ha Hg1 F1) as [Hg2 Hs2].
      destruct (IH t' eq_refl G2 Hp Hids F) as [Hg' Hs'].
      split; constructor; auto.
      split; auto. simpl. eapply same_def_trans; eauto.
  Qed.

  Theorem swap_all_dup_iff P ixs old id d :
    Forall (fun ni => ix_ok P (snd ni)) ixs -> P old -> ids_unique P -> fresh_id P id ->
    ((exists ixs', swap_all ixs old (id, d) = (ixs', Some EDup)) <->
     exists pre ni post, ixs = (pre ++ ni :: post)%list /\
       Forall (fun a => covers_ok (snd a) d) pre /\
       dup_in (fun x => P x /\ x <> old) (snd ni) d).
  Proof.
    destruct old as [oid od]. intros G Hp Hids F.
    assert (F1 : fresh_id (fun x => P x /\ x <> (oid, od)) id)
      by (apply (fresh_id_sub P); auto; intros x [Hx _]; exact Hx).
    split.
    - intros [ixs' H]. revert ixs' H. induction ixs as [|[n ix] t IH]; intros ixs' H.
      + simpl in H. discriminate.
      + inversion G as [|? ? G1 G2]; subst. simpl in G1. rewrite swap_all_cons in H.
        destruct (index_remove_good P ix oid od G1 Hp Hids) as [ix1 [H1 [Hs1 Hok1]]].
        rewrite H1 in H.
        destruct (index_add ix1 (id, d)) as [[[|] ix2]|e] eqn:Ha.
        * destruct (swap_all t (oid, od) (id, d)) as [t' e'] eqn:Ht. inversion H; subst.
          destruct (IH G2 t' eq_refl) as [pre [ni [post [-> [Hc Hd]]]]].
          exists ((n, ix) :: pre), ni, post. split; auto. split; auto.
          constructor; auto. simpl. apply (covers_ok_same ix1 ix); [apply same_def_sym; auto|].
          eapply index_add_inl_covers; eauto.
        * exists [], (n, ix), t. split; auto. split; auto. simpl.
          apply (dup_in_same _ ix1 ix); [apply same_def_sym; auto|].
          apply (index_add_dup_iff _ ix1 id d Hok1 F1). eauto.
        * inversion H; subst. apply index_add_inr in Ha. destruct Ha as [Ha _]. congruence.
    - intros [pre [ni [post [-> [Hc Hd]]]]].
      induction pre as [|[n ix] pre IH].
      + destruct ni as [n ix]. cbn [app snd] in *. inversion G as [|? ? G1 G2]; subst. simpl in G1.
        rewrite swap_all_cons.
        destruct (index_remove_good P ix oid od G1 Hp Hids) as [ix1 [H1 [Hs1 Hok1]]].
        rewrite H1.
        apply (dup_in_same _ ix ix1 d Hs1) in Hd.
        apply (index_add_dup_iff _ ix1 id d Hok1 F1) in Hd. destruct Hd as [ix' Hd].
        rewrite Hd. eauto.
      + simpl app in *. inversion G as [|? ? G1 G2]; subst. simpl in G1.
        inversion Hc as [|? ? C1 C2]; subst. simpl in C1.
        rewrite swap_all_cons.
        destruct (index_remove_good P ix oid od G1 Hp Hids) as [ix1 [H1 [Hs1 Hok1]]].
        rewrite H1.
        apply (covers_ok_same ix ix1 d Hs1) in C1.
        destruct (index_add_covers_inl ix1 id d C1) as [[|] [ix' Ha]]; rewrite Ha; [|eauto].
        destruct (IH G2 C2) as [t' Ht]. rewrite Ht. eauto.
  Qed.

  Lemma swap_all_total P ixs old id d :
    Forall (fun ni => ix_ok P (snd ni)) ixs -> P old -> ids_unique P ->
    Forall (fun a => covers_ok (snd a) d) ixs ->
    exists ixs', swap_all ixs old (id, d) = (ixs', None) \/
                 swap_all ixs old (id, d) = (ixs', Some EDup).
  Proof.
    destruct old as [oid od]. intros G Hp Hids.
    induction ixs as [|[n ix] t IH]; intro C.
    - simpl. eauto.
    - inversion G as [|? ? G1 G2]; subst. simpl in G1.
      inversion C as [|? ? C1 C2]; subst. simpl in C1. rewrite swap_all_cons.
      destruct (index_remove_good P ix oid od G1 Hp Hids) as [ix1 [H1 [Hs1 Hok1]]].
      rewrite H1.
      apply (covers_ok_same ix ix1 d Hs1) in C1.
      destruct (index_add_covers_inl ix1 id d C1) as [[|] [ix' Ha]]; rewrite Ha; [|eauto].
      destruct (IH G2 C2) as [t' [Ht|Ht]]; rewrite Ht; eauto.
  Qed.

  Corollary swap_all_dup_iff_total P ixs old id d :
    Forall (fun ni => ix_ok P (snd ni)) ixs -> P old -> ids_unique P -> fresh_id P id ->
    Forall (fun a => covers_ok (snd a) d) ixs ->
    ((exists ixs', swap_all ixs old (id, d) = (ixs', Some EDup)) <->
     exists ni, In ni ixs /\ dup_in (fun x => P x /\ x <> old) (snd ni) d).
  Proof.
    intros G Hp Hids F C. rewrite (swap_all_dup_iff P ixs old id d G Hp Hids F). split.
    - intros [pre [ni [post [-> [_ Hd]]]]]. exists ni. split; auto.
      apply in_or_app. right. left. reflexivity.
    - intros [ni [Hin Hd]]. apply in_split in Hin. destruct Hin as [pre [post ->]].
      exists pre, ni, post. split; auto. split; auto.
      apply Forall_app in C. tauto.
  Qed.

  (* --- remove_docs --- *)

  Lemma remove_docs_good P ixs l :
    ixs_good P ixs -> ids_unique P -> (forall sd, In sd l -> P sd) -> NoDup l ->
    exists ixs', remove_docs ixs l = (ixs', None) /\
      ixs_good (fun x => P x /\ ~ In x l) ixs' /\ same_shape ixs ixs'.
  Proof.
    revert P ixs. induction l as [|[id d] l IH]; intros P ixs G Hids Hin Hnd.
    - exists ixs. simpl. split; auto. split; [|apply same_shape_refl].
      apply (ixs_good_ext P); auto. intro x. tauto.
    - inversion Hnd as [|? ? Hn1 Hn2]; subst.
      destruct (remove_all_good P ixs id d G (Hin _ (or_introl eq_refl)) Hids)
        as [ixs1 [H1 [G1 S1]]].
      destruct (IH (fun x => P x /\ x <> (id, d)) ixs1 G1) as [ixs' [H2 [G2 S2]]]; auto.
      + apply (ids_unique_sub P); auto. intros x [Hx _]; exact Hx.
      + intros sd Hsd. split; [apply Hin; right; auto|]. intros ->. contradiction.
      + exists ixs'. rewrite remove_docs_cons, H1. split; auto. split.
        * eapply ixs_good_ext; [|exact G2]. intro x. simpl. split.
          -- intros [[Hp Hne] Hni]. split; auto. intros [Heq|Hi]; [congruence|auto].
          -- intros [Hp Hni]. split; [split; auto|]; intro; apply Hni; auto.
        * eapply same_shape_trans; eauto.
  Qed.

  (* --- add_docs --- *)

  Lemma add_docs_good P ixs l ixs' :
    add_docs ixs l = (ixs', None) -> ixs_good P ixs ->
    (forall sd, In sd l -> fresh_id P (fst sd)) -> NoDup (map fst l) ->
    ixs_good (fun x => P x \/ In x l) ixs' /\ same_shape ixs ixs'.
  Proof.
    revert P ixs. induction l as [|[id d] l IH]; intros P ixs H G F Hnd.
    - simpl in H. inversion H; subst. split; [|apply same_shape_refl].
      apply (ixs_good_ext P); auto. intro x. simpl. tauto.
    - rewrite add_docs_cons in H. simpl in Hnd. inversion Hnd as [|? ? Hn1 Hn2]; subst.
      destruct (add_all ixs (id, d)) as [ixs1 [e|]] eqn:Ha; [discriminate|].
      destruct (add_all_good P ixs id d ixs1 Ha G (F _ (or_introl eq_refl))) as [G1 S1].
      destruct (IH _ ixs1 H G1) as [G2 S2]; auto.
      + intros sd Hsd. apply fresh_id_add; [apply F; right; auto|].
        intro Heq. apply Hn1. rewrite <- Heq. apply in_map. exact Hsd.
      + split; [|eapply same_shape_trans; eauto].
        eapply ixs_good_ext; [|exact G2]. intro x. simpl. split.
        * intros [[Hp|Heq]|Hi]; auto.
        * intros [Hp|[Heq|Hi]]; auto.
  Qed.

  Lemma dup_in_pair P ix id d :
    dup_in P ix d -> fresh_id P id -> dup_pair (fun x => P x \/ x = (id, d)) ix.
  Proof.
    intros [Hu [Hc [id2 [d2 [Hp [Hc2 Hs]]]]]] F. split; auto.
    exists id, d, id2, d2. repeat (split; auto).
    intros ->. exact (F d2 Hp).
  Qed.

  (* soundness of an EDup from add_docs: the final set contains a pair *)
  Lemma add_docs_dup_sound P ixs l ixs' :
    add_docs ixs l = (ixs', Some EDup) -> ixs_good P ixs ->
    (forall sd, In sd l -> fresh_id P (fst sd)) -> NoDup (map fst l) ->
    exists ni, In ni ixs /\ dup_pair (fun x => P x \/ In x l) (snd ni).
  Proof.
    revert P ixs. induction l as [|[id d] l IH]; intros P ixs H G F Hnd.
    - simpl in H. discriminate.
    - rewrite add_docs_cons in H. simpl in Hnd. inversion Hnd as [|? ? Hn1 Hn2]; subst.
      pose proof (F _ (or_introl eq_refl)) as F0. simpl in F0.
      destruct (add_all ixs (id, d)) as [ixs1 [e|]] eqn:Ha.
      + inversion H; subst.
        assert (Hex : exists ixs', add_all ixs (id, d) = (ixs', Some EDup)) by eauto.
        apply (add_all_dup_iff P ixs id d (ixs_good_ok _ _ G) F0) in Hex.
        destruct Hex as [pre [ni [post [-> [_ Hd]]]]].
        exists ni. split; [apply in_or_app; right; left; auto|].
        apply (dup_pair_mono (fun x => P x \/ x = (id, d))).
        * intros x [Hp|Heq]; simpl; auto.
        * apply dup_in_pair; auto.
      + destruct (add_all_good P ixs id d ixs1 Ha G F0) as [G1 S1].
        destruct (IH _ ixs1 H G1) as [ni' [Hin' Hd']]; auto.
        * intros sd Hsd. apply fresh_id_add; [apply F; right; auto|].
          intro Heq. apply Hn1. rewrite <- Heq. apply in_map. exact Hsd.
        * destruct (same_shape_in _ _ ni' (same_shape_sym _ _ S1) Hin') as [ni [Hin [_ Hs]]].
          exists ni. split; auto. apply (dup_pair_same _ (snd ni') (snd ni) Hs).
          eapply dup_pair_mono; [|exact Hd']. simpl. intros x [[Hp|Heq]|Hi]; auto.
  Qed.

  (* completeness when the partial filters are defined on the new documents *)
  Lemma add_docs_dup_complete P ixs l :
    ixs_good P ixs ->
    (forall sd, In sd l -> fresh_id P (fst sd)) -> NoDup (map fst l) ->
    (forall ni sd, In ni ixs -> In sd l -> covers_ok (snd ni) (snd sd)) ->
    (exists ni, In ni ixs /\ dup_pair (fun x => P x \/ In x l) (snd ni)) ->
    exists ixs', add_docs ixs l = (ixs', Some EDup).
  Proof.
    revert P ixs. induction l as [|[id d] l IH]; intros P ixs G F Hnd C [ni [Hin Hd]].
    - exfalso. unfold ixs_good in G. rewrite Forall_forall in G.
      destruct (G ni Hin) as [_ [Hu _]].
      apply (dup_pair_not_unique P (snd ni)); auto.
      eapply dup_pair_mono; [|exact Hd]. simpl. tauto.
    - rewrite add_docs_cons. simpl in Hnd. inversion Hnd as [|? ? Hn1 Hn2]; subst.
      pose proof (F _ (or_introl eq_refl)) as F0. simpl in F0.
      assert (C0 : Forall (fun a => covers_ok (snd a) d) ixs).
      { apply Forall_forall. intros a Ha. apply (C a (id, d)); [auto|left; auto]. }
      destruct (add_all_total ixs id d C0) as [ixs1 [Ha|Ha]]; rewrite Ha; [|eauto].
      destruct (add_all_good P ixs id d ixs1 Ha G F0) as [G1 S1].
      apply (IH _ ixs1 G1); auto.
      + intros sd Hsd. apply fresh_id_add; [apply F; right; auto|].
        intro Heq. apply Hn1. rewrite <- Heq. apply in_map. exact Hsd.
      + intros ni' sd Hin' Hsd.
        destruct (same_shape_in _ _ ni' (same_shape_sym _ _ S1) Hin') as [ni0 [Hin0 [_ Hs]]].
        apply (covers_ok_same (snd ni0) (snd ni') _ (same_def_sym _ _ Hs)).
        apply C; [auto|right; auto].
      + destruct (same_shape_in _ _ ni S1 Hin) as [ni' [Hin' [_ Hs]]].
        exists ni'. split; auto. apply (dup_pair_same _ (snd ni) (snd ni') Hs).
        eapply dup_pair_mono; [|exact Hd]. simpl. intros x [Hp|[Heq|Hi]]; auto.
  Qed.

  (* --- build --- *)

  Lemma build_good P ix l ix' :
    build ix l = (ix', None) -> ix_good P ix ->
    (forall sd, In sd l -> fresh_id P (fst sd)) -> NoDup (map fst l) ->
    ix_good (fun x => P x \/ In x l) ix' /\ same_def ix ix'.
  Proof.
    revert P ix. induction l as [|[id d] l IH]; intros P ix H G F Hnd.
    - simpl in H. inversion H; subst. split; [|apply same_def_refl].
      apply (ix_good_ext P); auto. intro x. simpl. tauto.
    - rewrite build_cons in H. simpl in Hnd. inversion Hnd as [|? ? Hn1 Hn2]; subst.
      destruct (index_add ix (id, d)) as [[[|] ix1]|e] eqn:Ha; try discriminate.
      destruct (index_add_good P ix id d ix1 Ha G (F _ (or_introl eq_refl))) as [G1 S1].
      destruct (IH _ ix1 H G1) as [G2 S2]; auto.
      + intros sd Hsd. apply fresh_id_add; [apply F; right; auto|].
        intro Heq. apply Hn1. rewrite <- Heq. apply in_map. exact Hsd.
      + split; [|eapply same_def_trans; eauto].
        eapply ix_good_ext; [|exact G2]. intro x. simpl. split.
        * intros [[Hp|Heq]|Hi]; auto.
        * intros [Hp|[Heq|Hi]]; auto.
  Qed.

  Lemma build_dup_sound P ix l ix' :
    build ix l = (ix', Some EDup) -> ix_good P ix ->
    (forall sd, In sd l -> fresh_id P (fst sd)) -> NoDup (map fst l) ->
    dup_pair (fun x => P x \/ In x l) ix.
  Proof.
    revert P ix. induction l as [|[id d] l IH]; intros P ix H G F Hnd.
    - simpl in H. discriminate.
    - rewrite build_cons in H. simpl in Hnd. inversion Hnd as [|? ? Hn1 Hn2]; subst.
      pose proof (F _ (or_introl eq_refl)) as F0. simpl in F0.
      destruct (index_add ix (id, d)) as [[[|] ix1]|e] eqn:Ha.
      + destruct (index_add_good P ix id d ix1 Ha G F0) as [G1 S1].
        apply (dup_pair_same _ ix1 ix (same_def_sym _ _ S1)).
        eapply dup_pair_mono; [|apply (IH _ ix1 H G1); auto].
        * simpl. intros x [[Hp|Heq]|Hi]; auto.
        * intros sd Hsd. apply fresh_id_add; [apply F; right; auto|].
          intro Heq. apply Hn1. rewrite <- Heq. apply in_map. exact Hsd.
      + apply (dup_pair_mono (fun x => P x \/ x = (id, d))).
        * intros x [Hp|Heq]; simpl; auto.
        * apply dup_in_pair; auto. destruct G as [Hok _].
          apply (index_add_dup_iff P ix id d Hok F0). eauto.
      + inversion H; subst. apply index_add_inr in Ha. destruct Ha as [Ha _]. congruence.
  Qed.

  (* an index build either succeeds or reports a duplicate, when the partial
     filter is defined on every document *)
  Lemma build_total P ix l :
    ix_good P ix ->
    (forall sd, In sd l -> fresh_id P (fst sd)) -> NoDup (map fst l) ->
    (forall sd, In sd l -> covers_ok ix (snd sd)) ->
    exists ix', build ix l = (ix', None) \/ build ix l = (ix', Some EDup).
  Proof.
    revert P ix. induction l as [|[id d] l IH]; intros P ix G F Hnd C.
    - simpl. eauto.
    - rewrite build_cons. simpl in Hnd. inversion Hnd as [|? ? Hn1 Hn2]; subst.
      pose proof (F _ (or_introl eq_refl)) as F0. simpl in F0.
      destruct (index_add_covers_inl ix id d (C _ (or_introl eq_refl))) as [[|] [ix1 Ha]];
        rewrite Ha; [|eauto].
      destruct (index_add_good P ix id d ix1 Ha G F0) as [G1 S1].
      apply (IH _ ix1 G1); auto.
      + intros sd Hsd. apply fresh_id_add; [apply F; right; auto|].
        intro Heq. apply Hn1. rewrite <- Heq. apply in_map. exact Hsd.
      + intros sd Hsd. apply (covers_ok_same ix ix1 _ S1). apply C. right; auto.
  Qed.

  Lemma build_succeeds P ix l :
    ix_good P ix ->
    (forall sd, In sd l -> fresh_id P (fst sd)) -> NoDup (map fst l) ->
    (forall sd, In sd l -> covers_ok ix (snd sd)) ->
    ix_unique_ok (fun x => P x \/ In x l) ix ->
    exists ix', build ix l = (ix', None).
  Proof.
    intros G F Hnd C U.
    destruct (build_total P ix l G F Hnd C) as [ix' [H|H]]; [eauto|].
    exfalso. apply (dup_pair_not_unique _ ix (build_dup_sound P ix l ix' H G F Hnd) U).
  Qed.

  Lemma build_dup_complete P ix l :
    ix_good P ix ->
    (forall sd, In sd l -> fresh_id P (fst sd)) -> NoDup (map fst l) ->
    (forall sd, In sd l -> covers_ok ix (snd sd)) ->
    dup_pair (fun x => P x \/ In x l) ix ->
    exists ix', build ix l = (ix', Some EDup).
  Proof.
    intros G F Hnd C D.
    destruct (build_total P ix l G F Hnd C) as [ix' [H|H]]; [|eauto].
    exfalso. destruct (build_good P ix l ix' H G F Hnd) as [[_ [U _]] S].
    apply (dup_pair_not_unique _ ix' (dup_pair_same _ ix ix' S D) U).
  Qed.

  (* a build error other than EDup comes from an undefined partial filter *)
  Lemma build_error ix l ix' e :
    build ix l = (ix', Some e) -> e <> EDup ->
    exists sd, In sd l /\ ~ covers_ok ix (snd sd).
  Proof.
    revert ix. induction l as [|[id d] l IH]; intros ix H Hne.
    - simpl in H. discriminate.
    - rewrite build_cons in H.
      destruct (index_add ix (id, d)) as [[[|] ix1]|e1] eqn:Ha.
      + destruct (IH ix1 H Hne) as [sd [Hin Hc]]. exists sd. split; [right; auto|].
        intro Hc'. apply Hc. apply (covers_ok_same ix ix1); auto.
        eapply index_add_same_def; eauto.
      + inversion H; subst. congruence.
      + inversion H; subst. apply index_add_inr in Ha. exists (id, d). split; [left; auto|tauto].
  Qed.

  (* --- shape and totality without the invariant --- *)

  Lemma add_all_shape ixs id d ixs' e :
    add_all ixs (id, d) = (ixs', e) -> same_shape ixs ixs'.
  Proof.
    revert ixs' e. induction ixs as [|[n ix] t IH]; intros ixs' e H.
    - simpl in H. inversion H; subst. constructor.
    - rewrite add_all_cons in H.
      destruct (index_add ix (id, d)) as [[[|] ix1]|e1] eqn:Ha.
      + destruct (add_all t (id, d)) as [t' e'] eqn:Ht. inversion H; subst.
        constructor; [|eapply IH; eauto]. split; auto. simpl. eapply index_add_same_def; eauto.
      + inversion H; subst. constructor; [|apply same_shape_refl]. split; auto. simpl.
        eapply index_add_same_def; eauto.
      + inversion H; subst. apply same_shape_refl.
  Qed.

  Lemma add_docs_total ixs l :
    (forall ni sd, In ni ixs -> In sd l -> covers_ok (snd ni) (snd sd)) ->
    exists ixs', add_docs ixs l = (ixs', None) \/ add_docs ixs l = (ixs', Some EDup).
  Proof.
    revert ixs. induction l as [|[id d] l IH]; intros ixs C.
    - simpl. eauto.
    - rewrite add_docs_cons.
      assert (C0 : Forall (fun a => covers_ok (snd a) d) ixs).
      { apply Forall_forall. intros a Ha. apply (C a (id, d)); [auto|left; auto]. }
      destruct (add_all_total ixs id d C0) as [ixs1 [Ha|Ha]]; rewrite Ha; [|eauto].
      apply IH. intros ni' sd Hin' Hsd.
      destruct (same_shape_in _ _ ni' (same_shape_sym _ _ (add_all_shape _ _ _ _ _ Ha)) Hin')
        as [ni0 [Hin0 [_ Hs]]].
      apply (covers_ok_same (snd ni0) (snd ni') _ (same_def_sym _ _ Hs)).
      apply C; [auto|right; auto].
  Qed.

End IndexInv.

Print Assumptions index_add_ok.
Print Assumptions index_add_dup_iff.
Print Assumptions index_remove_good.
Print Assumptions index_remove_ok.
Print Assumptions add_all_good.
Print Assumptions add_all_dup_iff.
Print Assumptions remove_all_good.
Print Assumptions swap_all_good.
Print Assumptions swap_all_dup_iff.
Print Assumptions remove_docs_good.
Print Assumptions add_docs_good.
Print Assumptions add_docs_dup_sound.
Print Assumptions add_docs_dup_complete.
Print Assumptions build_good.
Print Assumptions build_succeeds.
Print Assumptions build_dup_sound.
Print Assumptions build_dup_complete.
