(* SortProofs.v — C13: sort, skip, limit and distinct (Model/Lists.v and the
   find pipeline of Model/Collection.v).  Everything is proved for arbitrary
   lists, documents and sort specifications (induction, no bounds) and is
   parametric in the matcher. *)
From Coq Require Import List ZArith Lia ZifyBool ZifyNat ZifyN Bool Permutation Sorted.
From Lungo.Model Require Import Lists Collection.
From Lungo.Proofs Require Import OrderLaws CompareOrder.
Import ListNotations.
Open Scope Z_scope.
Open Scope list_scope.

(* ================================================================== *)
(* 1. The ordering induced by a sort specification                     *)

Lemma flip_total {A} (cmp : A -> A -> comparison) :
  total_laws cmp -> total_laws (fun a b => CompOpp (cmp a b)).
Proof.
  intros T a. constructor.
  - rewrite (tl_refl cmp T). reflexivity.
  - intros b _. rewrite (tl_anti cmp T a b). reflexivity.
  - intros b c _ _ H. apply CompOpp_eq_iff in H. simpl in H.
    rewrite (tl_eql cmp T _ _ c H). reflexivity.
  - intros b c _ _ H1 H2. apply CompOpp_eq_iff in H1. apply CompOpp_eq_iff in H2.
    simpl in *. rewrite (tl_gt_trans cmp T _ _ _ H1 H2). reflexivity.
  - intros b c _ _ H. apply CompOpp_eq_iff in H. simpl in H.
    rewrite (tl_eqr cmp T a _ _ H). reflexivity.
Qed.

(* "first by c1, then by c2" on one carrier *)
Lemma then_total {A} (c1 c2 : A -> A -> comparison) :
  total_laws c1 -> total_laws c2 ->
  total_laws (fun a b => match c1 a b with Eq => c2 a b | c => c end).
Proof.
  intros T1 T2 a.
  apply (laws_proj _ (pair_cmp c1 c2) (fun d => (d, d)) (fun _ => True) a I).
  - intros b c _ _. reflexivity.
  - apply pair_total; assumption.
Qed.

(* one column: the sort key of the field, compared by BSON order, reversed
   for a descending column *)
Definition column_cmp (c : column) (l r : doc) : comparison :=
  let x := compare (sort_key (Get l (fst c)) (snd c)) (sort_key (Get r (fst c)) (snd c)) in
  if snd c then CompOpp x else x.

Lemma column_cmp_total c : total_laws (column_cmp c).
Proof.
  destruct c as [p rev]. unfold column_cmp. simpl. destruct rev.
  - intro a.
    apply (laws_proj _ (fun x y => CompOpp (compare x y))
                     (fun d => sort_key (Get d p) true) (fun _ => True) a I).
    + intros; reflexivity.
    + apply (flip_total compare compare_total).
  - intro a.
    apply (laws_proj _ compare (fun d => sort_key (Get d p) false) (fun _ => True) a I).
    + intros; reflexivity.
    + apply compare_total.
Qed.

(* `order` is the lexicographic combination of its columns *)
Lemma order_cons l r c t :
  order l r (c :: t) = match column_cmp c l r with Eq => order l r t | x => x end.
Proof.
  destruct c as [p rev]. unfold column_cmp. simpl.
  destruct (compare (sort_key (Get l p) rev) (sort_key (Get r p) rev)), rev; reflexivity.
Qed.

Theorem order_total : forall cols, total_laws (fun a b => order a b cols).
Proof.
  induction cols as [|c t IH].
  - intro a. constructor; simpl; intros; congruence.
  - intro a.
    apply (laws_proj _ (fun l r => match column_cmp c l r with Eq => order l r t | x => x end)
                     (fun d => d) (fun _ => True) a I).
    + intros b c0 _ _. apply order_cons.
    + apply (then_total (column_cmp c) (fun a b => order a b t) (column_cmp_total c) IH).
Qed.

Lemma sdoc_order_total cols : total_laws (sdoc_order cols).
Proof.
  intro a.
  apply (laws_proj _ (fun x y => order x y cols) snd (fun _ => True) a I).
  - intros; reflexivity.
  - apply order_total.
Qed.

(* ---------------------------------------------------------------- *)
(* sort_key: the element MongoDB ranks an array by *)

Definition key_step (reverse : bool) (best item : value) : value :=
  match compare item best with
  | Gt => if reverse then item else best
  | Lt => if reverse then best else item
  | Eq => best
  end.

(* `k` is at least as good as `y`: not above it (ascending) / not below it
   (descending) *)
Definition key_ok (reverse : bool) (k y : value) : Prop :=
  if reverse then compare y k <> Gt else compare k y <> Gt.

Lemma key_ok_refl rev k : key_ok rev k k.
Proof. unfold key_ok. rewrite compare_refl. destruct rev; discriminate. Qed.

Lemma key_ok_trans rev a b c : key_ok rev a b -> key_ok rev b c -> key_ok rev a c.
Proof.
  unfold key_ok. destruct rev; intros H1 H2.
  - exact (compare_trans _ _ _ H2 H1).
  - exact (compare_trans _ _ _ H1 H2).
Qed.

Lemma key_step_spec rev best item :
  (key_step rev best item = best \/ key_step rev best item = item) /\
  key_ok rev (key_step rev best item) best /\
  key_ok rev (key_step rev best item) item.
Proof.
  unfold key_step, key_ok.
  pose proof (compare_antisym item best) as An.
  pose proof (compare_refl best) as Rb. pose proof (compare_refl item) as Ri.
  destruct (compare item best) eqn:E, rev; simpl in An;
    rewrite ?Rb, ?Ri, ?E, ?An; (split; [auto|split; discriminate]).
Qed.

Lemma fold_key_spec rev t x :
  let k := fold_left (key_step rev) t x in
  In k (x :: t) /\ forall y, In y (x :: t) -> key_ok rev k y.
Proof.
  revert x. induction t as [|y t IH]; intro x; simpl.
  - split; [auto|]. intros z [<-|[]]. apply key_ok_refl.
  - destruct (IH (key_step rev x y)) as [Hin Hok].
    destruct (key_step_spec rev x y) as [Hsel [Hx Hy]].
    split.
    + destruct Hin as [Hin|Hin]; [|auto].
      rewrite <- Hin. destruct Hsel as [->| ->]; auto.
    + intros z [<-|[<-|Hz]].
      * eapply key_ok_trans; [apply Hok; left; reflexivity | exact Hx].
      * eapply key_ok_trans; [apply Hok; left; reflexivity | exact Hy].
      * apply Hok. right. exact Hz.
Qed.

Theorem sort_key_spec : forall v reverse,
  match v with
  | VArr (x :: t) =>
      (* an element of the array, minimal (ascending) / maximal (descending) *)
      In (sort_key v reverse) (x :: t) /\
      forall y, In y (x :: t) ->
                if reverse then compare y (sort_key v reverse) <> Gt
                else compare (sort_key v reverse) y <> Gt
  | _ => sort_key v reverse = v       (* non-arrays, Missing and [] are their own key *)
  end.
Proof.
  intros v rev. destruct v; try reflexivity.
  destruct a as [|x t]; [reflexivity|].
  exact (fold_key_spec rev t x).
Qed.

(* a missing field compares exactly as null *)
Theorem missing_as_null : forall v,
  compare VMissing v = compare VNull v /\ compare v VMissing = compare v VNull.
Proof. intro v. destruct v; split; reflexivity. Qed.

(* ================================================================== *)
(* 2. Stable sorting under any total preorder                          *)

Section StableSort.
  Context {A : Type} (cmp : A -> A -> comparison) (T : total_laws cmp).

  Definition le (a b : A) : Prop := cmp a b <> Gt.
  Definition sorted (l : list A) : Prop := StronglySorted le l.

  (* the equivalence class of x under the ordering *)
  Definition eqv (x y : A) : bool := match cmp x y with Eq => true | _ => false end.

  (* l' keeps every class of equivalent elements in the order it has in l *)
  Definition stable (l l' : list A) : Prop :=
    forall x, filter (eqv x) l' = filter (eqv x) l.

  Lemma le_trans a b c : le a b -> le b c -> le a c.
  Proof. apply (tl_le_trans cmp T). Qed.

  Lemma not_lt_le a b : cmp a b <> Lt -> le b a.
  Proof.
    unfold le. intro H. rewrite (tl_anti cmp T a b).
    destruct (cmp a b); simpl; congruence.
  Qed.

  Lemma le_not_lt a b : le a b -> cmp b a <> Lt.
  Proof.
    unfold le. intro H. rewrite (tl_anti cmp T a b).
    destruct (cmp a b); simpl; congruence.
  Qed.

  Lemma insert_perm x l : Permutation (x :: l) (insert_sorted cmp x l).
  Proof.
    induction l as [|y t IH]; simpl; [reflexivity|].
    destruct (cmp y x); try reflexivity.
    rewrite perm_swap. constructor. exact IH.
  Qed.

  Theorem stable_sort_perm : forall l, Permutation l (stable_sort cmp l).
  Proof.
    induction l as [|x t IH]; simpl; [constructor|].
    rewrite <- insert_perm. constructor. exact IH.
  Qed.

  Lemma insert_sorted_sorted x l : sorted l -> sorted (insert_sorted cmp x l).
  Proof.
    unfold sorted. induction l as [|y t IH]; intro S; simpl.
    - repeat constructor.
    - inversion S as [|? ? St Fy]; subst.
      destruct (cmp y x) eqn:E.
      + constructor; [exact S|]. constructor.
        * apply not_lt_le. congruence.
        * eapply Forall_impl; [|exact Fy]. intros z Hz.
          eapply le_trans; [|exact Hz]. apply not_lt_le. congruence.
      + constructor; [apply IH; exact St|].
        eapply Permutation_Forall; [apply insert_perm|].
        constructor; [unfold le; congruence | exact Fy].
      + constructor; [exact S|]. constructor.
        * apply not_lt_le. congruence.
        * eapply Forall_impl; [|exact Fy]. intros z Hz.
          eapply le_trans; [|exact Hz]. apply not_lt_le. congruence.
  Qed.

  (* every earlier element is not greater than every later one *)
  Theorem stable_sort_sorted : forall l, sorted (stable_sort cmp l).
  Proof.
    induction l as [|x t IH]; simpl; [constructor|].
    apply insert_sorted_sorted. exact IH.
  Qed.

  (* in particular consecutive results never decrease *)
  Corollary stable_sort_adjacent : forall l, Sorted le (stable_sort cmp l).
  Proof. intro l. apply StronglySorted_Sorted. apply stable_sort_sorted. Qed.

  Lemma eqv_lt_excl x y a : eqv x y = true -> eqv x a = true -> cmp y a <> Lt.
  Proof.
    unfold eqv. destruct (cmp x y) eqn:E1; try discriminate.
    destruct (cmp x a) eqn:E2; try discriminate. intros _ _.
    rewrite <- (tl_eql cmp T _ _ a E1). congruence.
  Qed.

  Lemma insert_stable a l x :
    filter (eqv x) (insert_sorted cmp a l) = filter (eqv x) (a :: l).
  Proof.
    induction l as [|y t IH]; [reflexivity|].
    cbn [insert_sorted]. destruct (cmp y a) eqn:E; try reflexivity.
    cbn [filter] in *. rewrite IH.
    destruct (eqv x y) eqn:Ey, (eqv x a) eqn:Ea; try reflexivity.
    exfalso. exact (eqv_lt_excl _ _ _ Ey Ea E).
  Qed.

  (* ties keep their original relative order *)
  Theorem stable_sort_stable : forall l, stable l (stable_sort cmp l).
  Proof.
    intros l x. induction l as [|a t IH]; [reflexivity|].
    cbn [stable_sort fold_right]. rewrite insert_stable.
    cbn [filter]. fold (stable_sort cmp t). rewrite IH. reflexivity.
  Qed.

  Lemma eqv_refl x : eqv x x = true.
  Proof. unfold eqv. rewrite (tl_refl cmp T). reflexivity. Qed.

  Lemma filter_eqv_in l x : In x l -> In x (filter (eqv x) l).
  Proof. intro H. apply filter_In. split; [exact H | apply eqv_refl]. Qed.

  (* two sorted lists with the same classes in the same order are equal *)
  Lemma sorted_stable_eq l1 : forall l2,
    sorted l1 -> sorted l2 ->
    (forall x, filter (eqv x) l1 = filter (eqv x) l2) -> l1 = l2.
  Proof.
    unfold sorted. induction l1 as [|a t1 IH]; intros l2 S1 S2 H.
    - destruct l2 as [|b t2]; [reflexivity|].
      specialize (H b). cbn [filter] in H. rewrite eqv_refl in H. discriminate.
    - destruct l2 as [|b t2].
      + specialize (H a). cbn [filter] in H. rewrite eqv_refl in H. discriminate.
      + inversion S1 as [|? ? St1 Fa]; subst. inversion S2 as [|? ? St2 Fb]; subst.
        assert (Hab : le a b).
        { assert (Hin : In b (a :: t1)).
          { assert (Hb : In b (filter (eqv b) (a :: t1))).
            { rewrite H. apply filter_eqv_in. left. reflexivity. }
            apply filter_In in Hb. tauto. }
          destruct Hin as [<-|Hin]; [unfold le; rewrite (tl_refl cmp T); discriminate|].
          rewrite Forall_forall in Fa. apply Fa. exact Hin. }
        assert (Hba : le b a).
        { assert (Hin : In a (b :: t2)).
          { assert (Ha : In a (filter (eqv a) (b :: t2))).
            { rewrite <- H. apply filter_eqv_in. left. reflexivity. }
            apply filter_In in Ha. tauto. }
          destruct Hin as [<-|Hin]; [unfold le; rewrite (tl_refl cmp T); discriminate|].
          rewrite Forall_forall in Fb. apply Fb. exact Hin. }
        assert (Eab : cmp a b = Eq).
        { unfold le in *. rewrite (tl_anti cmp T a b) in Hba.
          destruct (cmp a b); simpl in *; congruence. }
        assert (a = b).
        { pose proof (H a) as Ha. cbn [filter] in Ha. rewrite eqv_refl in Ha.
          unfold eqv at 2 in Ha. rewrite Eab in Ha. congruence. }
        subst b. f_equal. apply IH; try assumption.
        intro x. specialize (H x). cbn [filter] in H.
        destruct (eqv x a); congruence.
  Qed.

  (* ANY sorted, stable rearrangement of l is the result of stable_sort: the
     statement does not depend on the sorting algorithm *)
  Theorem stable_sort_unique : forall l l',
    Permutation l l' -> sorted l' -> stable l l' -> l' = stable_sort cmp l.
  Proof.
    intros l l' _ S St.
    apply sorted_stable_eq; [exact S | apply stable_sort_sorted |].
    intro x. rewrite St. symmetry. apply stable_sort_stable.
  Qed.

  (* positional reading of stability *)
  Definition before (a b : A) (l : list A) : Prop :=
    exists l1 l2 l3, l = l1 ++ a :: l2 ++ b :: l3.

  Lemma filter_cons_inv (f : A -> bool) l : forall a m,
    filter f l = a :: m -> exists l1 l2, l = l1 ++ a :: l2 /\ filter f l2 = m.
  Proof.
    induction l as [|y t IH]; intros a m H; [discriminate|].
    cbn [filter] in H. destruct (f y).
    - injection H as -> <-. exists [], t. split; reflexivity.
    - destruct (IH _ _ H) as (l1 & l2 & -> & Hm).
      exists (y :: l1), l2. split; [reflexivity | exact Hm].
  Qed.

  Lemma filter_app_inv (f : A -> bool) l : forall m1 m2,
    filter f l = m1 ++ m2 -> exists l1 l2, l = l1 ++ l2 /\ filter f l2 = m2.
  Proof.
    induction l as [|y t IH]; intros m1 m2 H.
    - destruct m1; [|discriminate]. exists [], []. split; [reflexivity | exact H].
    - destruct (f y) eqn:E; cbn [filter] in H; rewrite E in H.
      + destruct m1 as [|z m1].
        * exists [], (y :: t). split; [reflexivity|].
          cbn [filter]. rewrite E. exact H.
        * injection H as _ H. destruct (IH _ _ H) as (l1 & l2 & -> & Hm).
          exists (y :: l1), l2. split; [reflexivity | exact Hm].
      + destruct (IH _ _ H) as (l1 & l2 & -> & Hm).
        exists (y :: l1), l2. split; [reflexivity | exact Hm].
  Qed.

  Lemma filter_before (f : A -> bool) l a b : before a b (filter f l) -> before a b l.
  Proof.
    intros (m1 & m2 & m3 & H).
    destruct (filter_app_inv _ _ _ _ H) as (l1 & l2 & -> & H2).
    destruct (filter_cons_inv _ _ _ _ H2) as (p1 & p2 & -> & H3).
    destruct (filter_app_inv _ _ _ _ H3) as (q1 & q2 & -> & H4).
    destruct (filter_cons_inv _ _ _ _ H4) as (r1 & r2 & -> & _).
    exists (l1 ++ p1), (q1 ++ r1), r2.
    rewrite <- !app_assoc. reflexivity.
  Qed.

  (* a occurs before b and they tie: a still occurs before b after sorting *)
  Theorem stable_sort_keeps_order : forall l a b,
    before a b l -> cmp a b = Eq -> before a b (stable_sort cmp l).
  Proof.
    intros l a b (l1 & l2 & l3 & ->) E.
    apply (filter_before (eqv a)).
    rewrite (stable_sort_stable _ a).
    exists (filter (eqv a) l1), (filter (eqv a) l2), (filter (eqv a) l3).
    rewrite filter_app. cbn [filter]. rewrite eqv_refl.
    rewrite filter_app. cbn [filter]. unfold eqv at 3. rewrite E. reflexivity.
  Qed.
End StableSort.

Lemma stable_sort_all_eq {A} (cmp : A -> A -> comparison) :
  (forall a b, cmp a b = Eq) -> forall l, stable_sort cmp l = l.
Proof.
  intros H l. induction l as [|x t IH]; [reflexivity|].
  cbn [stable_sort fold_right]. fold (stable_sort cmp t). rewrite IH.
  destruct t as [|y t']; [reflexivity|]. cbn [insert_sorted]. rewrite H. reflexivity.
Qed.

(* filtering commutes with stable sorting: sorting everything and keeping the
   matches equals sorting the matches *)
Section FilterSort.
  Context {A : Type} (cmp : A -> A -> comparison) (T : total_laws cmp) (f : A -> bool).

  Lemma insert_front x m :
    (forall z, In z m -> cmp z x <> Lt) -> insert_sorted cmp x m = x :: m.
  Proof.
    intro H. destruct m as [|z m]; [reflexivity|].
    cbn [insert_sorted]. specialize (H z (or_introl eq_refl)).
    destruct (cmp z x); congruence.
  Qed.

  Lemma filter_insert x l :
    sorted cmp l ->
    filter f (insert_sorted cmp x l) =
    if f x then insert_sorted cmp x (filter f l) else filter f l.
  Proof.
    unfold sorted. induction l as [|y t IH]; intro S.
    - cbn. destruct (f x); reflexivity.
    - inversion S as [|? ? St Fy]; subst.
      cbn [insert_sorted]. destruct (cmp y x) eqn:E.
      + (* x goes in front *)
        cbn [filter]. destruct (f x); [|reflexivity].
        symmetry. apply insert_front.
        intros z Hz. assert (Hz' : In z (y :: t)).
        { destruct (f y); [|right; apply filter_In in Hz; tauto].
          destruct Hz as [<-|Hz]; [left; reflexivity | right; apply filter_In in Hz; tauto]. }
        destruct Hz' as [<-|Hz']; [congruence|].
        rewrite Forall_forall in Fy. apply (le_not_lt cmp T).
        apply (le_trans cmp T _ y); [apply (not_lt_le cmp T); congruence | apply Fy; exact Hz'].
      + cbn [filter]. rewrite (IH St).
        destruct (f y), (f x); try reflexivity.
        cbn [insert_sorted]. rewrite E. reflexivity.
      + cbn [filter]. destruct (f x); [|reflexivity].
        symmetry. apply insert_front.
        intros z Hz. assert (Hz' : In z (y :: t)).
        { destruct (f y); [|right; apply filter_In in Hz; tauto].
          destruct Hz as [<-|Hz]; [left; reflexivity | right; apply filter_In in Hz; tauto]. }
        destruct Hz' as [<-|Hz']; [congruence|].
        rewrite Forall_forall in Fy. apply (le_not_lt cmp T).
        apply (le_trans cmp T _ y); [apply (not_lt_le cmp T); congruence | apply Fy; exact Hz'].
  Qed.

  Theorem filter_stable_sort : forall l,
    filter f (stable_sort cmp l) = stable_sort cmp (filter f l).
  Proof.
    induction l as [|x t IH]; [reflexivity|].
    cbn [stable_sort fold_right filter]. fold (stable_sort cmp t).
    rewrite filter_insert by (apply stable_sort_sorted; exact T).
    rewrite IH. destruct (f x); reflexivity.
  Qed.
End FilterSort.

(* ================================================================== *)
(* 3. Select: the filter pass with its early exit                      *)

Section SelectSpec.
  Context {A : Type} (sel : A -> res bool).

  Definition selb (x : A) : bool := match sel x with Ok true => true | _ => false end.
  Definition no_error (l : list A) : Prop := forall x, In x l -> exists b, sel x = Ok b.

  Lemma firstn_cons_Z n (x : A) l :
    0 < n -> firstn (Z.to_nat n) (x :: l) = x :: firstn (Z.to_nat (n - 1)) l.
  Proof.
    intro H. replace (Z.to_nat n) with (S (Z.to_nat (n - 1))) by lia. reflexivity.
  Qed.

  (* the pass over a prefix without errors, then the rest *)
  Lemma select_go_app l1 : forall rest limit have,
    no_error l1 -> (limit <= 0 \/ have < limit) ->
    select_go sel (l1 ++ rest) limit have =
    if (0 <? limit) && (limit <=? have + len (filter selb l1))
    then Ok (firstn (Z.to_nat (limit - have)) (filter selb l1))
    else let* r := select_go sel rest limit (have + len (filter selb l1)) in
         Ok (filter selb l1 ++ r).
  Proof.
    unfold len. induction l1 as [|x t IH]; intros rest limit have NE Hl.
    - cbn [app filter Datatypes.length]. replace (have + Z.of_nat 0) with have by lia.
      replace ((0 <? limit) && (limit <=? have)) with false by lia.
      destruct (select_go sel rest limit have); reflexivity.
    - assert (NE' : no_error t) by (intros z Hz; apply NE; right; exact Hz).
      destruct (NE x (or_introl eq_refl)) as [b Hb].
      assert (Hs : selb x = b) by (unfold selb; rewrite Hb; destruct b; reflexivity).
      cbn [app select_go filter]. rewrite Hb, Hs. destruct b.
      + cbn [Datatypes.length].
        destruct ((0 <? limit) && (limit <=? have + 1)) eqn:C.
        * replace ((0 <? limit) && (limit <=? have + Z.of_nat (S (Datatypes.length (filter selb t))))) with true by lia.
          replace (limit - have) with 1 by lia. reflexivity.
        * rewrite (IH rest limit (have + 1) NE') by lia.
          replace (have + 1 + Z.of_nat (Datatypes.length (filter selb t)))
            with (have + Z.of_nat (S (Datatypes.length (filter selb t)))) by lia.
          destruct ((0 <? limit) && (limit <=? have + Z.of_nat (S (Datatypes.length (filter selb t))))) eqn:C2.
          -- cbn [bind]. rewrite firstn_cons_Z by lia.
             replace (limit - have - 1) with (limit - (have + 1)) by lia. reflexivity.
          -- destruct (select_go sel rest limit (have + Z.of_nat (S (Datatypes.length (filter selb t))))); reflexivity.
      + apply IH; assumption.
  Qed.

  (* no matcher error: the first `limit` selected elements (all when limit <= 0) *)
  Theorem select_spec : forall l limit,
    no_error l ->
    select sel l limit =
    Ok (if 0 <? limit then firstn (Z.to_nat limit) (filter selb l) else filter selb l).
  Proof.
    intros l limit NE. unfold select.
    rewrite <- (app_nil_r l) at 1.
    rewrite select_go_app by (assumption || lia).
    cbn [select_go bind]. rewrite app_nil_r, Z.sub_0_r, Z.add_0_l.
    destruct (0 <? limit) eqn:C; cbn [andb]; [|reflexivity].
    destruct (limit <=? len (filter selb l)) eqn:C2; [reflexivity|].
    rewrite firstn_all2; [reflexivity|]. unfold len in C2. lia.
  Qed.

  (* the first matcher error (in list order) is returned iff it occurs before
     the limit is reached; otherwise the pass has already stopped *)
  Theorem select_error : forall l1 x l2 limit,
    no_error l1 -> (forall b, sel x <> Ok b) ->
    select sel (l1 ++ x :: l2) limit =
    if (0 <? limit) && (limit <=? len (filter selb l1))
    then Ok (firstn (Z.to_nat limit) (filter selb l1))
    else bind (sel x) (fun _ => Ok []).     (* = the error of sel x *)
  Proof.
    intros l1 x l2 limit NE Hx. unfold select.
    rewrite select_go_app by (assumption || lia).
    rewrite Z.sub_0_r, Z.add_0_l.
    destruct ((0 <? limit) && (limit <=? len (filter selb l1))); [reflexivity|].
    cbn [select_go]. destruct (sel x) as [b| | | |]; try reflexivity.
    exfalso. exact (Hx b eq_refl).
  Qed.
End SelectSpec.

(* ================================================================== *)
(* 4. Find: sort, filter with limit + skip, then skip                  *)

Lemma drop_skipn {A} (l : list A) : forall n, drop n l = skipn (Z.to_nat n) l.
Proof.
  induction l as [|x t IH]; intro n.
  - cbn. destruct (Z.to_nat n); reflexivity.
  - cbn [drop]. destruct (n <=? 0) eqn:C.
    + replace (Z.to_nat n) with O by lia. reflexivity.
    + replace (Z.to_nat n) with (S (Z.to_nat (n - 1))) by lia. cbn [skipn]. apply IH.
Qed.

(* the window [skip, skip+limit) of a list; limit <= 0 means "to the end" *)
Definition window {A} (skip limit : Z) (l : list A) : list A :=
  (if 0 <? limit then firstn (Z.to_nat limit) else (fun x => x)) (drop skip l).

Lemma window_skipn {A} skip limit (l : list A) :
  window skip limit l =
  (if 0 <? limit then firstn (Z.to_nat limit) else (fun x => x)) (skipn (Z.to_nat skip) l).
Proof. unfold window. rewrite drop_skipn. reflexivity. Qed.

Lemma drop_firstn_window {A} (l : list A) skip limit :
  0 <= skip -> 0 < limit ->
  drop skip (firstn (Z.to_nat (limit + skip)) l) = firstn (Z.to_nat limit) (drop skip l).
Proof.
  intros Hs Hl. rewrite !drop_skipn.
  rewrite firstn_skipn_comm. f_equal. f_equal. lia.
Qed.

Section Find.
  Variable matchf : doc -> doc -> res bool.

  (* the documents the query selects *)
  Definition matches (q : doc) (sd : sdoc) : bool :=
    match matchf (snd sd) q with Ok true => true | _ => false end.

  (* the filter raises no error on the collection's documents *)
  Definition filter_total (l : list sdoc) (q : doc) : Prop :=
    forall sd, In sd l -> exists b, matchf (snd sd) q = Ok b.

  Lemma find_pipeline l q skip limit :
    filter_total l q -> 0 <= skip ->
    (let* sel := select (fun sd => matchf (snd sd) q) l (if 0 <? limit then limit + skip else limit) in
     Ok (drop skip sel)) =
    Ok (window skip limit (filter (matches q) l)).
  Proof.
    intros FT Hs.
    rewrite select_spec by exact FT.
    cbn [bind].
    unfold window. change (selb (fun sd => matchf (snd sd) q)) with (matches q).
    destruct (0 <? limit) eqn:C.
    - replace (0 <? limit + skip) with true by lia.
      rewrite drop_firstn_window by lia. reflexivity.
    - rewrite C. reflexivity.
  Qed.

  Theorem find_spec : forall l q s cols skip limit,
    filter_total l q -> columns s = Ok cols -> 0 <= skip ->
    find_list matchf l q (Some s) skip limit =
    Ok (window skip limit (stable_sort (sdoc_order cols) (filter (matches q) l))).
  Proof.
    intros l q s cols skip limit FT Hc Hs.
    rewrite <- (filter_stable_sort _ (sdoc_order_total cols)).
    assert (FT' : filter_total (stable_sort (sdoc_order cols) l) q).
    { intros sd Hin. apply FT.
      eapply Permutation_in; [symmetry; apply stable_sort_perm | exact Hin]. }
    unfold find_list. replace (skip <? 0) with false by lia. destruct s as [|c t].
    - cbn in Hc. injection Hc as <-.
      rewrite stable_sort_all_eq by reflexivity.
      cbn [bind]. apply find_pipeline; assumption.
    - rewrite Hc. cbn [bind]. apply find_pipeline; assumption.
  Qed.

  Theorem find_no_sort : forall l q skip limit,
    filter_total l q -> 0 <= skip ->
    find_list matchf l q None skip limit = Ok (window skip limit (filter (matches q) l)).
  Proof.
    intros l q skip limit FT Hs. unfold find_list. replace (skip <? 0) with false by lia. cbn [bind].
    apply find_pipeline; assumption.
  Qed.

  (* an invalid sort specification is an error, whatever the documents *)
  Theorem find_bad_sort : forall l q c t skip limit,
    columns (c :: t) = Err -> find_list matchf l q (Some (c :: t)) skip limit = Err.
  Proof. intros l q c t skip limit H. unfold find_list. rewrite H. destruct (skip <? 0); reflexivity. Qed.

  (* ---------------------------------------------------------------- *)
  (* sorted one-document writes act on the first element of the full
     ordering *)

  Lemma window_0_1 {A} (l : list A) : window 0 1 l = firstn 1 l.
  Proof. unfold window. cbn. destruct l; reflexivity. Qed.

  Lemma window_0_0 {A} (l : list A) : window 0 0 l = l.
  Proof. unfold window. cbn. destruct l; reflexivity. Qed.

  Theorem find_one_is_first : forall l q sort full,
    filter_total l q ->
    find_list matchf l q sort 0 0 = Ok full ->
    find_list matchf l q sort 0 1 = Ok (firstn 1 full).
  Proof.
    intros l q sort full FT H.
    destruct sort as [s|].
    - destruct (columns s) as [cols| | | |] eqn:Hc.
      + rewrite (find_spec _ _ _ cols) in * by (assumption || lia).
        rewrite window_0_0 in H. rewrite window_0_1. congruence.
      + destruct s; [discriminate|]. rewrite find_bad_sort in H by exact Hc. discriminate.
      + unfold find_list in H. destruct s; [discriminate|]. rewrite Hc in H. discriminate.
      + unfold find_list in H. destruct s; [discriminate|]. rewrite Hc in H. discriminate.
      + unfold find_list in H. destruct s; [discriminate|]. rewrite Hc in H. discriminate.
    - rewrite find_no_sort in * by (assumption || lia).
      rewrite window_0_0 in H. rewrite window_0_1. congruence.
  Qed.
End Find.

Section Writes.
  Variable matchf : doc -> doc -> res bool.
  Variable applyf : doc -> doc -> doc -> bool -> list doc -> Z -> res (doc * list (string * value)).

  (* close the branches in which the operation reports an error *)
  Ltac failed := try (let H := fresh in intro H; cbv [Collection.fail Collection.failr] in H; discriminate H).

  (* Replace (ReplaceOne / FindOneAndReplace) with a sort *)
  Theorem replace_hits_first : forall c fresh q repl sort full c' r,
    filter_total matchf (c_docs c) q ->
    find_list matchf (c_docs c) q sort 0 0 = Ok full ->
    coll_replace matchf c fresh q repl sort = (c', inl r) ->
    r_matched r = firstn 1 full /\
    match full with
    | [] => c' = c
    | first :: _ => exists new, c_docs c' = set_replace (c_docs c) (fst first) new
    end.
  Proof.
    intros c fresh q repl sort full c' r FT Hfull.
    unfold coll_replace.
    rewrite (find_one_is_first matchf _ _ _ _ FT Hfull).
    destruct full as [|old rest]; cbn [firstn].
    - intro H. injection H as <- <-. split; reflexivity.
    - cbv zeta.
      match goal with |- (match ?p with _ => _ end) = _ -> _ => destruct p as [repl'| | | |] end; failed.
      destruct (swap_all matchf (c_indexes c) old (fresh, repl')) as [ixs [e|]]; failed.
      destruct (set_has (c_docs c) fresh); failed.
      intro H. injection H as <- <-. cbn. split; [reflexivity|]. eexists. reflexivity.
  Qed.

  (* Update with limit 1 (UpdateOne / FindOneAndUpdate) and a sort *)
  Theorem update_one_hits_first : forall c fresh q u sort afs now full c' r,
    filter_total matchf (c_docs c) q ->
    find_list matchf (c_docs c) q sort 0 0 = Ok full ->
    coll_update matchf applyf c fresh q u sort 0 1 afs now = (c', inl r) ->
    r_matched r = firstn 1 full /\
    match full with
    | [] => c' = c
    | first :: _ => exists new, c_docs c' = set_replace (c_docs c) (fst first) new
    end.
  Proof.
    intros c fresh q u sort afs now full c' r FT Hfull.
    unfold coll_update.
    rewrite (find_one_is_first matchf _ _ _ _ FT Hfull).
    destruct full as [|old rest]; cbn [firstn].
    - intro H. injection H as <- <-. split; reflexivity.
    - cbn [apply_list].
      destruct (applyf (snd old) q u false afs now) as [[d ch]| | | |]; cbn [bind fst snd]; failed.
      match goal with |- (if ?b then _ else _) = _ -> _ => destruct b end; failed.
      match goal with |- context [remove_docs ?a ?b ?l] => destruct (remove_docs a b l) as [ixs [e|]] end; failed.
      match goal with |- context [add_docs ?a ?b ?l] => destruct (add_docs a b l) as [ixs' [e|]] end; failed.
      match goal with |- context [modified_only ?a ?b ?l] => destruct (modified_only a b l) as [m cs] end.
      intro H. injection H as <- <-. cbn. split; [reflexivity|]. eexists. reflexivity.
  Qed.

  (* Delete with limit 1 (DeleteOne / FindOneAndDelete) and a sort *)
  Theorem delete_one_hits_first : forall c q sort full c' r,
    filter_total matchf (c_docs c) q ->
    find_list matchf (c_docs c) q sort 0 0 = Ok full ->
    coll_delete matchf c q sort 0 1 = (c', inl r) ->
    r_matched r = firstn 1 full /\
    c_docs c' = match full with
                | [] => c_docs c
                | first :: _ => set_remove (c_docs c) (fst first)
                end.
  Proof.
    intros c q sort full c' r FT Hfull.
    unfold coll_delete.
    rewrite (find_one_is_first matchf _ _ _ _ FT Hfull).
    destruct (remove_docs matchf (c_indexes c) (firstn 1 full)) as [ixs [e|]]; failed.
    intro H. injection H as <- <-. cbn [r_matched c_docs]. split; [reflexivity|].
    destruct full; reflexivity.
  Qed.
End Writes.

(* ================================================================== *)
(* 5. Distinct                                                         *)

(* v is BSON-equal to a member of l *)
Definition InEq (v : value) (l : list value) : Prop :=
  exists x, In x l /\ compare v x = Eq.

Definition vle (a b : value) : Prop := compare a b <> Gt.
Definition vlt (a b : value) : Prop := compare a b = Lt.

Lemma InEq_perm v l l' : Permutation l l' -> InEq v l -> InEq v l'.
Proof.
  intros P (x & Hx & E). exists x. split; [|exact E].
  eapply Permutation_in; eassumption.
Qed.

Definition prev_ok (P : value -> value -> Prop) (prev : option value) (l : list value) : Prop :=
  match prev with Some p => Forall (P p) l | None => True end.

Lemma dedupe_sorted l : forall prev,
  StronglySorted vle l -> prev_ok vle prev l ->
  StronglySorted vlt (dedupe_keep_first prev l) /\
  prev_ok vlt prev (dedupe_keep_first prev l).
Proof.
  induction l as [|x t IH]; intros prev S P.
  - cbn. split; [constructor|]. destruct prev; cbn; auto.
  - inversion S as [|? ? St Fx]; subst.
    assert (Keep : forall prev', prev_ok vlt prev' [x] ->
              StronglySorted vlt (x :: dedupe_keep_first (Some x) t) /\
              prev_ok vlt prev' (x :: dedupe_keep_first (Some x) t)).
    { intros prev' Hp.
      destruct (IH (Some x) St Fx) as [S' F'].
      split; [constructor; assumption|].
      destruct prev' as [p|]; cbn in *; [|exact I].
      inversion Hp as [|? ? Hpx _]; subst.
      constructor; [exact Hpx|].
      eapply Forall_impl; [|exact F']. intros z Hz.
      exact (compare_lt_trans _ _ _ Hpx Hz). }
    cbn [dedupe_keep_first]. destruct prev as [p|].
    + cbn in P. inversion P as [|? ? Hpx Hpt]; subst.
      destruct (compare p x) eqn:E.
      * apply IH; [exact St | exact Hpt].
      * apply Keep. cbn. constructor; [exact E | constructor].
      * exfalso. exact (Hpx E).
    + apply Keep. exact I.
Qed.

Lemma dedupe_incl l : forall prev x, In x (dedupe_keep_first prev l) -> In x l.
Proof.
  induction l as [|y t IH]; intros prev x H; [exact H|].
  cbn [dedupe_keep_first] in H. destruct prev as [p|].
  - destruct (compare p y).
    + right. eapply IH; exact H.
    + destruct H as [<-|H]; [left; reflexivity | right; eapply IH; exact H].
    + destruct H as [<-|H]; [left; reflexivity | right; eapply IH; exact H].
  - destruct H as [<-|H]; [left; reflexivity | right; eapply IH; exact H].
Qed.

Lemma compare_eq_sym a b : compare a b = Eq -> compare b a = Eq.
Proof. apply (tl_eq_sym compare compare_total). Qed.

Lemma compare_eq_trans a b c : compare a b = Eq -> compare b c = Eq -> compare a c = Eq.
Proof. apply (tl_eq_trans compare compare_total). Qed.

(* nothing is lost: every value dropped is BSON-equal to one that is kept *)
Lemma dedupe_complete v l : forall prev,
  InEq v l ->
  InEq v (dedupe_keep_first prev l) \/
  match prev with Some p => compare v p = Eq | None => False end.
Proof.
  induction l as [|y t IH]; intros prev (x & Hx & E); [destruct Hx|].
  assert (Keep : (x = y \/ InEq v t) -> InEq v (y :: dedupe_keep_first (Some y) t)).
  { intros [->|Ht].
    - exists y. split; [left; reflexivity | exact E].
    - destruct (IH (Some y) Ht) as [(z & Hz & Ez)|Ey].
      + exists z. split; [right; exact Hz | exact Ez].
      + exists y. split; [left; reflexivity | exact Ey]. }
  assert (Hcase : x = y \/ InEq v t).
  { destruct Hx as [->|Hx]; [left; reflexivity | right; exists x; split; assumption]. }
  cbn [dedupe_keep_first]. destruct prev as [p|].
  - destruct (compare p y) eqn:Ep.
    + destruct Hcase as [->|Ht].
      * right. apply (compare_eq_trans _ y); [exact E | apply compare_eq_sym; exact Ep].
      * apply IH. exact Ht.
    + left. apply Keep. exact Hcase.
    + left. apply Keep. exact Hcase.
  - left. apply Keep. exact Hcase.
Qed.

(* collect: per document, the value(s) found at the path with embedded
   arrays traversed (All ... compact merge), missing dropped, and one level
   of array flattening *)
Theorem collect_spec : forall d p,
  collect [d] p true true true =
  let v := fst (All d p true true) in
  if is_missing v then []
  else match v with VArr a => a | _ => [v] end.
Proof.
  intros d p. unfold collect. cbn [flat_map]. rewrite app_nil_r. reflexivity.
Qed.

Lemma collect_cons d t p c m f : collect (d :: t) p c m f = collect [d] p c m f ++ collect t p c m f.
Proof. unfold collect. cbn [flat_map]. rewrite app_nil_r. reflexivity. Qed.

Lemma collect_in x ds p c m f :
  In x (collect ds p c m f) <-> exists d, In d ds /\ In x (collect [d] p c m f).
Proof.
  induction ds as [|d t IH].
  - cbn. split; [intros [] | intros (d & [] & _)].
  - rewrite collect_cons, in_app_iff, IH. split.
    + intros [H|(d' & Hd & H)].
      * exists d. split; [left; reflexivity | exact H].
      * exists d'. split; [right; exact Hd | exact H].
    + intros (d' & [<-|Hd] & H); [left; exact H | right; exists d'; split; assumption].
Qed.

(* strictly increasing: every earlier member is strictly below every later
   one, so each BSON-equality class occurs exactly once *)
Theorem distinct_sorted_nodup : forall ds p, StronglySorted vlt (distinct ds p).
Proof.
  intros ds p. unfold distinct.
  apply (dedupe_sorted _ None); [|exact I].
  apply (stable_sort_sorted compare compare_total).
Qed.

Corollary distinct_adjacent_lt : forall ds p, Sorted vlt (distinct ds p).
Proof. intros. apply StronglySorted_Sorted, distinct_sorted_nodup. Qed.

Theorem distinct_exact : forall ds p v,
  InEq v (distinct ds p) <->
  exists d, In d ds /\ InEq v (collect [d] p true true true).
Proof.
  intros ds p v. unfold distinct.
  pose proof (stable_sort_perm compare (collect ds p true true true)) as P.
  split.
  - intros (x & Hx & E). apply dedupe_incl in Hx.
    apply (Permutation_in _ (Permutation_sym P)) in Hx.
    apply collect_in in Hx. destruct Hx as (d & Hd & Hx).
    exists d. split; [exact Hd|]. exists x. split; assumption.
  - intros (d & Hd & x & Hx & E).
    assert (H : InEq v (stable_sort compare (collect ds p true true true))).
    { apply (InEq_perm _ _ _ P). exists x. split; [|exact E].
      apply collect_in. exists d. split; assumption. }
    destruct (dedupe_complete v _ None H) as [H'|[]]. exact H'.
Qed.

(* every returned value is one of the collected values itself *)
Theorem distinct_members : forall ds p x,
  In x (distinct ds p) -> exists d, In d ds /\ In x (collect [d] p true true true).
Proof.
  intros ds p x H. unfold distinct in H. apply dedupe_incl in H.
  apply (Permutation_in _ (Permutation_sym (stable_sort_perm compare _))) in H.
  apply collect_in in H. exact H.
Qed.

(* ================================================================== *)
(* 6. The property in one statement                                    *)

(* A find with a sort specification: there is ONE full ordering of the
   matching documents — a permutation of the matches, never decreasing under
   the specification, ties in insertion order — and every skip/limit pair
   returns exactly the corresponding window of it. *)
Theorem find_sorted_window (matchf : doc -> doc -> res bool) : forall l q s cols,
  filter_total matchf l q -> columns s = Ok cols ->
  exists full,
    Permutation (filter (matches matchf q) l) full /\
    StronglySorted (fun a b : sdoc => order (snd a) (snd b) cols <> Gt) full /\
    (forall x : sdoc,
               filter (fun y : sdoc => match order (snd x) (snd y) cols with Eq => true | _ => false end) full =
               filter (fun y : sdoc => match order (snd x) (snd y) cols with Eq => true | _ => false end)
                      (filter (matches matchf q) l)) /\
    forall skip limit, 0 <= skip ->
      find_list matchf l q (Some s) skip limit = Ok (window skip limit full).
Proof.
  intros l q s cols FT Hc.
  exists (stable_sort (sdoc_order cols) (filter (matches matchf q) l)).
  split; [apply stable_sort_perm|].
  split; [apply (stable_sort_sorted _ (sdoc_order_total cols))|].
  split; [intro x; apply (stable_sort_stable _ (sdoc_order_total cols))|].
  intros skip limit Hs. apply find_spec; assumption.
Qed.
