(* ReloadSimStep.v — the simulation lifted to Model/Driver.v: two driver
   states whose committed catalogs and session transactions are related
   (`catsim`: same handles, documents, index definitions, change log, clock),
   with the same ObjectID counter and the same sessions, give the SAME reply
   to every call and stay related — for every call constructor: CRUD (also
   routed to session transactions), bulk-write, index management, drops,
   session start / commit / abort / end, oplog trim and TTL expiry.
   Document identities, identity generators and the order of index entries
   are free to differ: a database and its reloaded copy are related. *)
From Coq Require Import List ZArith String Lia Bool.
From Lungo.Model Require Import Driver RunSpec.
From Lungo.Spec Require Import SpecDb.
From Lungo.Proofs Require Import CollLists IndexInv CollInv OplogProofs CatInv HistoryInv RefineLists
  RefineColl RefineTxn RefineStep ReloadSimColl ReloadSimTxn ReloadSimCat.
Import ListNotations.
Open Scope Z_scope.
Open Scope list_scope.

Definition txn_sim (o1 o2 : option catalog) : Prop :=
  match o1, o2 with
  | Some t1, Some t2 => catsim t1 t2
  | None, None => True
  | _, _ => False
  end.

Definition sess_sim (a b : Z * session) : Prop :=
  fst a = fst b /\ s_ended (snd a) = s_ended (snd b) /\ txn_sim (s_txn (snd a)) (s_txn (snd b)).

(* the identity-free part of the relation *)
Definition dsim0 (d1 d2 : dstate) : Prop :=
  catsim (ds_cat d1) (ds_cat d2) /\ g_oid (ds_gen d1) = g_oid (ds_gen d2) /\
  Forall2 sess_sim (ds_sessions d1) (ds_sessions d2).

Lemma sess_get_sim l1 : forall l2 sid, Forall2 sess_sim l1 l2 ->
  match sess_get l1 sid, sess_get l2 sid with
  | Some s1, Some s2 => s_ended s1 = s_ended s2 /\ txn_sim (s_txn s1) (s_txn s2)
  | None, None => True
  | _, _ => False
  end.
Proof.
  induction l1 as [|[k s] t IH]; intros l2 sid F; inversion F as [|? [k' s'] ? t' [Hk [He Ht]] F']; subst.
  - exact I.
  - cbn [fst snd] in *. subst k'. cbn [sess_get]. destruct (k =? sid); [auto|apply IH; exact F'].
Qed.

Lemma sess_set_sim l1 : forall l2 sid s1 s2, Forall2 sess_sim l1 l2 ->
  s_ended s1 = s_ended s2 -> txn_sim (s_txn s1) (s_txn s2) ->
  Forall2 sess_sim (sess_set l1 sid s1) (sess_set l2 sid s2).
Proof.
  induction l1 as [|[k s] t IH]; intros l2 sid s1 s2 F He Ht;
    inversion F as [|? [k' s'] ? t' [Hk Hr] F']; subst; cbn [sess_set].
  - constructor; [|constructor]. split; [reflexivity|]. split; assumption.
  - cbn [fst snd] in *. subst k'. destruct (k =? sid).
    + constructor; [|exact F']. split; [reflexivity|]. split; assumption.
    + constructor; [split; [reflexivity|exact Hr]|]. apply IH; assumption.
Qed.

Lemma token_held_sim d1 d2 : dsim0 d1 d2 -> token_held d1 = token_held d2.
Proof.
  intros [_ [_ F]]. unfold token_held. induction F as [|[k s] [k' s'] l l' [_ [_ Ht]] _ IH]; [reflexivity|].
  cbn [existsb snd]. cbn [snd] in Ht. rewrite IH.
  destruct (s_txn s), (s_txn s'); try contradiction; reflexivity.
Qed.

Lemma routed_sim d1 d2 sid : dsim0 d1 d2 -> txn_sim (routed d1 sid) (routed d2 sid).
Proof.
  intros [_ [_ F]]. unfold routed. destruct (sid <=? 0); [exact I|].
  pose proof (sess_get_sim _ _ sid F) as H.
  destruct (sess_get (ds_sessions d1) sid), (sess_get (ds_sessions d2) sid); try contradiction;
    [apply H|exact I].
Qed.

(* what the replies look at *)
Lemma lrel_ids l1 : forall l2, lrel l1 l2 -> map id_of l1 = map id_of l2.
Proof.
  induction l1 as [|a t IH]; intros [|b t'] H; try discriminate; [reflexivity|].
  apply lrel_cons_inv in H. destruct H as [Hx Ht]. cbn [map]. unfold id_of at 1 3.
  rewrite Hx, (IH t' Ht). reflexivity.
Qed.

Lemma orel_id (a b : sdoc) : orel (Some a) (Some b) -> id_of a = id_of b /\ snd a = snd b.
Proof. unfold orel, id_of. cbn [option_map]. intro H. inversion H as [H']. rewrite H'. auto. Qed.

Lemma trel_upd_reply t1 t2 : trel t1 t2 -> upd_reply t1 = upd_reply t2.
Proof.
  intros [Ma [M [U _]]]. unfold upd_reply.
  destruct (t_upserted t1) as [a|] eqn:E1, (t_upserted t2) as [b|] eqn:E2; try discriminate.
  - destruct (orel_id a b U) as [-> _]. reflexivity.
  - rewrite (lrel_len _ _ Ma), (lrel_len _ _ M). reflexivity.
Qed.

Lemma trel_pick_doc t1 t2 after : trel t1 t2 -> pick_doc t1 after = pick_doc t2 after.
Proof.
  intros [Ma [M [U _]]]. unfold pick_doc.
  destruct (t_upserted t1) as [a|] eqn:E1, (t_upserted t2) as [b|] eqn:E2; try discriminate.
  - destruct (orel_id a b U) as [_ ->]. reflexivity.
  - destruct (t_matched t1) as [|x1 m1], (t_matched t2) as [|x2 m2]; try discriminate; [reflexivity|].
    apply lrel_cons_inv in Ma. destruct Ma as [Hx _].
    destruct after; [|rewrite Hx; reflexivity].
    destruct (t_modified t1) as [|y1 n1], (t_modified t2) as [|y2 n2]; try discriminate.
    + rewrite Hx. reflexivity.
    + apply lrel_cons_inv in M. destruct M as [Hy _]. rewrite Hy. reflexivity.
Qed.

Section SimStep.
  Set Default Proof Using "Type".
  Variable matchf : doc -> doc -> res bool.
  Variable applyf : doc -> doc -> doc -> bool -> list doc -> Z -> res (doc * list (string * value)).
  Variable extractf : doc -> res doc.
  Variable projectf : doc -> doc -> res doc.
  Variable now : Z.

  Local Notation step := (Driver.step matchf applyf extractf projectf now).
  Local Notation run := (Driver.run matchf applyf extractf projectf now).
  Local Notation cat_inv := (CatInv.cat_inv matchf).
  Local Notation ds_inv := (HistoryInv.ds_inv matchf).
  Local Notation pre := (ReloadSimCat.pre matchf).

  (* the simulation relation *)
  Definition dsim (d1 d2 : dstate) : Prop := ds_inv d1 /\ ds_inv d2 /\ dsim0 d1 d2.

  Definition fn_sim {A} (Q : A -> A -> Prop) (fn : catalog -> gen -> catalog * gen * (A + ekind)) : Prop :=
    forall c1 g1 c2 g2, pre c1 g1 c2 g2 -> fsim Q (fn c1 g1) (fn c2 g2).

  Lemma routed_pre d1 d2 sid t1 t2 :
    ds_inv d1 -> ds_inv d2 -> dsim0 d1 d2 -> routed d1 sid = Some t1 -> routed d2 sid = Some t2 ->
    pre t1 (ds_gen d1) t2 (ds_gen d2).
  Proof.
    intros I1 I2 S R1 R2. pose proof (routed_sim d1 d2 sid S) as H. rewrite R1, R2 in H.
    split; [eapply routed_inv; eauto|]. split; [eapply routed_inv; eauto|]. split; [exact H|apply S].
  Qed.

  Lemma committed_pre d1 d2 : ds_inv d1 -> ds_inv d2 -> dsim0 d1 d2 ->
    pre (ds_cat d1) (ds_gen d1) (ds_cat d2) (ds_gen d2).
  Proof. intros [I1 _] [I2 _] [S [G _]]. split; [exact I1|]. split; [exact I2|]. auto. Qed.

  Lemma use_write_sim {A} (Q : A -> A -> Prop) d1 d2 sid fn :
    ds_inv d1 -> ds_inv d2 -> dsim0 d1 d2 -> fn_sim Q fn ->
    rsim Q (snd (use_write d1 sid fn)) (snd (use_write d2 sid fn)) /\
    dsim0 (fst (use_write d1 sid fn)) (fst (use_write d2 sid fn)).
  Proof.
    intros I1 I2 S F. unfold use_write. pose proof (routed_sim d1 d2 sid S) as R.
    destruct (routed d1 sid) as [t1|] eqn:R1, (routed d2 sid) as [t2|] eqn:R2; try contradiction.
    - pose proof (F _ _ _ _ (routed_pre d1 d2 sid t1 t2 I1 I2 S R1 R2)) as H.
      destruct (fn t1 (ds_gen d1)) as [[t1' g1'] r1], (fn t2 (ds_gen d2)) as [[t2' g2'] r2].
      destruct H as [Sc [Go Rr]]. cbn [fst snd] in *. split; [exact Rr|].
      split; [apply S|]. split; [exact Go|]. cbn [ds_sessions].
      apply sess_set_sim; [apply S|reflexivity|exact Sc].
    - rewrite <- (token_held_sim d1 d2 S). destruct (token_held d1); [split; [reflexivity|exact S]|].
      pose proof (F _ _ _ _ (committed_pre d1 d2 I1 I2 S)) as H.
      destruct (fn (ds_cat d1) (ds_gen d1)) as [[c1' g1'] r1], (fn (ds_cat d2) (ds_gen d2)) as [[c2' g2'] r2].
      destruct H as [Sc [Go Rr]]. cbn [fst snd] in *.
      destruct r1 as [a1|e1], r2 as [a2|e2]; cbn [rsim] in Rr; try contradiction; cbn [fst snd].
      + split; [exact Rr|]. split; [exact Sc|]. split; [exact Go|apply S].
      + split; [exact Rr|]. split; [apply S|]. split; [exact Go|apply S].
  Qed.

  Lemma use_direct_sim {A} (Q : A -> A -> Prop) d1 d2 sid fn :
    ds_inv d1 -> ds_inv d2 -> dsim0 d1 d2 -> fn_sim Q fn ->
    rsim Q (snd (use_direct d1 sid fn)) (snd (use_direct d2 sid fn)) /\
    dsim0 (fst (use_direct d1 sid fn)) (fst (use_direct d2 sid fn)).
  Proof.
    intros I1 I2 S F. unfold use_direct. pose proof (routed_sim d1 d2 sid S) as R.
    destruct (routed d1 sid) as [t1|], (routed d2 sid) as [t2|]; try contradiction;
      [split; [reflexivity|exact S]|].
    rewrite <- (token_held_sim d1 d2 S). destruct (token_held d1); [split; [reflexivity|exact S]|].
    pose proof (F _ _ _ _ (committed_pre d1 d2 I1 I2 S)) as H.
    destruct (fn (ds_cat d1) (ds_gen d1)) as [[c1' g1'] r1], (fn (ds_cat d2) (ds_gen d2)) as [[c2' g2'] r2].
    destruct H as [Sc [Go Rr]]. cbn [fst snd] in *.
    destruct r1 as [a1|e1], r2 as [a2|e2]; cbn [rsim] in Rr; try contradiction; cbn [fst snd].
    - split; [exact Rr|]. split; [exact Sc|]. split; [exact Go|apply S].
    - split; [exact Rr|]. split; [apply S|]. split; [exact Go|apply S].
  Qed.

  Lemma read_cat_sim d1 d2 sid :
    ds_inv d1 -> ds_inv d2 -> dsim0 d1 d2 ->
    cat_inv (read_cat d1 sid) (g_did (ds_gen d1)) /\ cat_inv (read_cat d2 sid) (g_did (ds_gen d2)) /\
    catsim (read_cat d1 sid) (read_cat d2 sid).
  Proof.
    intros I1 I2 S. unfold read_cat. pose proof (routed_sim d1 d2 sid S) as R.
    destruct (routed d1 sid) as [t1|] eqn:R1, (routed d2 sid) as [t2|] eqn:R2; try contradiction.
    - split; [eapply routed_inv; eauto|]. split; [eapply routed_inv; eauto|exact R].
    - split; [apply I1|]. split; [apply I2|apply S].
  Qed.

  (* find-one-and-modify: the projection inside the transaction callback *)
  Lemma fn_sim_project proj after (fn : catalog -> gen -> catalog * gen * (tresult + ekind)) :
    fn_sim trel fn ->
    fn_sim (@eq reply) (fun cat g => project_in_txn projectf proj after cat (fn cat g)).
  Proof.
    intros F c1 g1 c2 g2 P. cbv beta. pose proof (F _ _ _ _ P) as H.
    destruct P as [_ [_ [S0 _]]].
    destruct (fn c1 g1) as [[c1' g1'] r1], (fn c2 g2) as [[c2' g2'] r2].
    destruct H as [Sc [Go Rr]]. cbn [fst snd] in *. unfold project_in_txn.
    destruct r1 as [t1|e1], r2 as [t2|e2]; cbn [rsim] in Rr; try contradiction.
    - rewrite (trel_pick_doc _ _ after Rr).
      destruct (reply_doc projectf proj (pick_doc t2 after)); unfold fsim; cbn [fst snd rsim]; auto.
    - unfold fsim; cbn [fst snd rsim]. auto.
  Qed.

  Lemma fn_sim_nogen {A} (Q : A -> A -> Prop) (f : catalog -> catalog * (A + ekind)) :
    (forall c1 n1 c2 n2, cat_inv c1 n1 -> cat_inv c2 n2 -> catsim c1 c2 -> csim2 Q (f c1) (f c2)) ->
    fn_sim Q (fun cat g => let '(c', r) := f cat in (c', g, r)).
  Proof.
    intros F c1 g1 c2 g2 [I1 [I2 [S G]]]. cbv beta. pose proof (F _ _ _ _ I1 I2 S) as H.
    destruct (f c1) as [c1' r1], (f c2) as [c2' r2]. destruct H as [Sc Rr]. cbn [fst snd] in *.
    split; [exact Sc|]. split; [exact G|exact Rr].
  Qed.

  Lemma bulk_reply_sim ops : forall rs1 rs2 i acc,
    accrel rs1 rs2 -> bulk_reply ops rs1 i acc = bulk_reply ops rs2 i acc.
  Proof.
    induction ops as [|op t IH]; intros rs1 rs2 i acc A; [reflexivity|].
    inversion A as [|x1 x2 l1 l2 Hx Ht]; subst; [reflexivity|].
    destruct acc; try reflexivity. cbn [bulk_reply].
    destruct x1 as [t1|e1], x2 as [t2|e2]; cbn [rsim] in Hx; try contradiction.
    - destruct Hx as [Ma [M [U E]]].
      rewrite (lrel_len _ _ Ma), (lrel_len _ _ M).
      destruct (t_upserted t1) as [a|], (t_upserted t2) as [b|]; try discriminate.
      + destruct (orel_id a b U) as [-> _]. destruct op; apply IH; exact Ht.
      + destruct op; apply IH; exact Ht.
    - subst e2. apply IH. exact Ht.
  Qed.

  Lemma mapM_proj proj (l1 l2 : list sdoc) :
    lrel l1 l2 ->
    mapM (fun sd : did * doc => project_opt projectf proj (snd sd)) l1 =
    mapM (fun sd : did * doc => project_opt projectf proj (snd sd)) l2.
  Proof.
    intro E.
    transitivity (mapM (project_opt projectf proj) (map snd l1)); [symmetry; apply mapM_map|].
    transitivity (mapM (project_opt projectf proj) (map snd l2)); [f_equal; exact E|apply mapM_map].
  Qed.

  Local Ltac pairs :=
    repeat match goal with
           | |- context [let '(_, _) := ?x in _] => destruct x eqn:?
           end.

  (* every call: equal replies, related states *)
  Theorem step_sim0 d1 d2 c :
    ds_inv d1 -> ds_inv d2 -> dsim0 d1 d2 ->
    snd (step d1 c) = snd (step d2 c) /\ dsim0 (fst (step d1 c)) (fst (step d2 c)).
  Proof.
    intros I1 I2 S. destruct c; cbn [Driver.step].
    - (* insertOne *)
      destruct (use_write_sim trel d1 d2 sid (fun cat g => txn_insert matchf cat g h [d] true) I1 I2 S)
        as [R Sd]; [intros ? ? ? ? P; apply txn_insert_sim; exact P|].
      destruct (use_write d1 sid _) as [d1' r1], (use_write d2 sid _) as [d2' r2]. cbn [fst snd] in *.
      split; [|exact Sd].
      destruct r1 as [t1|e1], r2 as [t2|e2]; cbn [rsim] in R; try contradiction; [|congruence].
      destruct R as [_ [M [_ E]]]. rewrite E. destruct (t_error t2); [reflexivity|].
      destruct (t_modified t1) as [|x1 m1], (t_modified t2) as [|x2 m2]; try discriminate; [reflexivity|].
      pose proof (lrel_ids _ _ M) as Hi. cbn [map] in Hi. inversion Hi. congruence.
    - (* insertMany *)
      destruct (use_write_sim trel d1 d2 sid (fun cat g => txn_insert matchf cat g h ds ordered) I1 I2 S)
        as [R Sd]; [intros ? ? ? ? P; apply txn_insert_sim; exact P|].
      destruct (use_write d1 sid _) as [d1' r1], (use_write d2 sid _) as [d2' r2]. cbn [fst snd] in *.
      split; [|exact Sd].
      destruct r1 as [t1|e1], r2 as [t2|e2]; cbn [rsim] in R; try contradiction; [|congruence].
      destruct R as [_ [M [_ E]]]. rewrite E, (lrel_ids _ _ M). reflexivity.
    - (* find *)
      destruct (read_cat_sim d1 d2 sid I1 I2 S) as [A1 [A2 Sc]]. cbn [fst snd]. split; [|exact S].
      pose proof (txn_find_sim matchf _ _ _ _ h q sort skip limit A1 A2 Sc) as R.
      destruct (txn_find matchf (read_cat d1 sid) h q sort skip limit) as [t1|e1],
               (txn_find matchf (read_cat d2 sid) h q sort skip limit) as [t2|e2];
        cbn [rsim] in R; try contradiction; [|congruence].
      destruct R as [Ma _]. rewrite (mapM_proj proj _ _ Ma). reflexivity.
    - (* findOne *)
      destruct (read_cat_sim d1 d2 sid I1 I2 S) as [A1 [A2 Sc]]. cbn [fst snd]. split; [|exact S].
      pose proof (txn_find_sim matchf _ _ _ _ h q sort skip 1 A1 A2 Sc) as R.
      destruct (txn_find matchf (read_cat d1 sid) h q sort skip 1) as [t1|e1],
               (txn_find matchf (read_cat d2 sid) h q sort skip 1) as [t2|e2];
        cbn [rsim] in R; try contradiction; [|congruence].
      destruct R as [Ma _].
      destruct (t_matched t1) as [|x1 m1] eqn:E1, (t_matched t2) as [|x2 m2] eqn:E2;
        try discriminate; [reflexivity|].
      rewrite (mapM_proj proj _ _ Ma). reflexivity.
    - (* count *)
      destruct (read_cat_sim d1 d2 sid I1 I2 S) as [A1 [A2 Sc]]. cbn [fst snd]. split; [|exact S].
      pose proof (txn_find_sim matchf _ _ _ _ h q None skip limit A1 A2 Sc) as R.
      destruct (txn_find matchf (read_cat d1 sid) h q None skip limit) as [t1|e1],
               (txn_find matchf (read_cat d2 sid) h q None skip limit) as [t2|e2];
        cbn [rsim] in R; try contradiction; [|congruence].
      destruct R as [Ma _]. rewrite (lrel_len _ _ Ma). reflexivity.
    - (* distinct *)
      destruct (read_cat_sim d1 d2 sid I1 I2 S) as [A1 [A2 Sc]]. cbn [fst snd]. split; [|exact S].
      pose proof (txn_find_sim matchf _ _ _ _ h q None 0 0 A1 A2 Sc) as R.
      destruct (txn_find matchf (read_cat d1 sid) h q None 0 0) as [t1|e1],
               (txn_find matchf (read_cat d2 sid) h q None 0 0) as [t2|e2];
        cbn [rsim] in R; try contradiction; [|congruence].
      destruct R as [Ma _]. unfold lrel in Ma. rewrite Ma. reflexivity.
    - (* update *)
      destruct (use_write_sim trel d1 d2 sid
                  (fun cat g => txn_update matchf applyf extractf cat g h q None u 0
                                           (if many then 0 else 1) upsert afs now) I1 I2 S)
        as [R Sd]; [intros ? ? ? ? P; apply txn_update_sim; exact P|].
      destruct (use_write d1 sid _) as [d1' r1], (use_write d2 sid _) as [d2' r2]. cbn [fst snd] in *.
      split; [|exact Sd].
      destruct r1 as [t1|e1], r2 as [t2|e2]; cbn [rsim] in R; try contradiction; [|congruence].
      apply trel_upd_reply. exact R.
    - (* replace *)
      destruct (first_key_dollar repl); [split; [reflexivity|exact S]|].
      destruct (use_write_sim trel d1 d2 sid
                  (fun cat g => txn_replace matchf applyf extractf cat g h q None repl upsert now) I1 I2 S)
        as [R Sd]; [intros ? ? ? ? P; apply txn_replace_sim; exact P|].
      destruct (use_write d1 sid _) as [d1' r1], (use_write d2 sid _) as [d2' r2]. cbn [fst snd] in *.
      split; [|exact Sd].
      destruct r1 as [t1|e1], r2 as [t2|e2]; cbn [rsim] in R; try contradiction; [|congruence].
      apply trel_upd_reply. exact R.
    - (* delete *)
      destruct (use_write_sim trel d1 d2 sid
                  (fun cat g => txn_delete matchf cat g h q None 0 (if many then 0 else 1)) I1 I2 S)
        as [R Sd]; [intros ? ? ? ? P; apply txn_delete_sim; exact P|].
      destruct (use_write d1 sid _) as [d1' r1], (use_write d2 sid _) as [d2' r2]. cbn [fst snd] in *.
      split; [|exact Sd].
      destruct r1 as [t1|e1], r2 as [t2|e2]; cbn [rsim] in R; try contradiction; [|congruence].
      destruct R as [Ma _]. rewrite (lrel_len _ _ Ma). reflexivity.
    - (* findOneAndUpdate *)
      destruct (use_write_sim (@eq reply) d1 d2 sid
                  (fun cat g => project_in_txn projectf proj after cat
                     (txn_update matchf applyf extractf cat g h q sort u 0 1 upsert afs now)) I1 I2 S)
        as [R Sd].
      { apply (fn_sim_project proj after
                 (fun cat g => txn_update matchf applyf extractf cat g h q sort u 0 1 upsert afs now)).
        intros ? ? ? ? P. apply txn_update_sim. exact P. }
      destruct (use_write d1 sid _) as [d1' r1], (use_write d2 sid _) as [d2' r2]. cbn [fst snd] in *.
      split; [|exact Sd].
      destruct r1 as [t1|e1], r2 as [t2|e2]; cbn [rsim] in R; try contradiction; congruence.
    - (* findOneAndReplace *)
      destruct (first_key_dollar repl); [split; [reflexivity|exact S]|].
      destruct (use_write_sim (@eq reply) d1 d2 sid
                  (fun cat g => project_in_txn projectf proj after cat
                     (txn_replace matchf applyf extractf cat g h q sort repl upsert now)) I1 I2 S)
        as [R Sd].
      { apply (fn_sim_project proj after
                 (fun cat g => txn_replace matchf applyf extractf cat g h q sort repl upsert now)).
        intros ? ? ? ? P. apply txn_replace_sim. exact P. }
      destruct (use_write d1 sid _) as [d1' r1], (use_write d2 sid _) as [d2' r2]. cbn [fst snd] in *.
      split; [|exact Sd].
      destruct r1 as [t1|e1], r2 as [t2|e2]; cbn [rsim] in R; try contradiction; congruence.
    - (* findOneAndDelete *)
      destruct (use_write_sim (@eq reply) d1 d2 sid
                  (fun cat g => project_in_txn projectf proj false cat
                     (txn_delete matchf cat g h q sort 0 1)) I1 I2 S)
        as [R Sd].
      { apply (fn_sim_project proj false (fun cat g => txn_delete matchf cat g h q sort 0 1)).
        intros ? ? ? ? P. apply txn_delete_sim. exact P. }
      destruct (use_write d1 sid _) as [d1' r1], (use_write d2 sid _) as [d2' r2]. cbn [fst snd] in *.
      split; [|exact Sd].
      destruct r1 as [t1|e1], r2 as [t2|e2]; cbn [rsim] in R; try contradiction; congruence.
    - (* bulk *)
      destruct (existsb _ ops); [split; [reflexivity|exact S]|].
      destruct (use_write_sim (accrel) d1 d2 sid
                  (fun cat g => txn_bulk matchf applyf extractf cat g h ops ordered now) I1 I2 S)
        as [R Sd]; [intros ? ? ? ? P; apply txn_bulk_sim; exact P|].
      destruct (use_write d1 sid _) as [d1' r1], (use_write d2 sid _) as [d2' r2]. cbn [fst snd] in *.
      split; [|exact Sd].
      destruct r1 as [t1|e1], r2 as [t2|e2]; cbn [rsim] in R; try contradiction; [|congruence].
      apply bulk_reply_sim. exact R.
    - (* createIndex *)
      destruct (use_direct_sim (@eq string) d1 d2 sid
                  (fun cat g => let '(c', r) := txn_create_index matchf cat h name
                                  (mkConfig key unique partial (expiry_ns expire_s)) in (c', g, r)) I1 I2 S)
        as [R Sd].
      { apply (fn_sim_nogen (@eq string) (fun cat => txn_create_index matchf cat h name
                                            (mkConfig key unique partial (expiry_ns expire_s)))).
        intros. eapply txn_create_index_sim; eauto. }
      destruct (use_direct d1 sid _) as [d1' r1], (use_direct d2 sid _) as [d2' r2]. cbn [fst snd] in *.
      split; [|exact Sd].
      destruct r1 as [t1|e1], r2 as [t2|e2]; cbn [rsim] in R; try contradiction; congruence.
    - (* dropIndex *)
      destruct (use_direct_sim (fun _ _ : unit => True) d1 d2 sid
                  (fun cat g => let '(c', r) := txn_drop_index cat h name in (c', g, r)) I1 I2 S)
        as [R Sd].
      { apply (fn_sim_nogen (fun _ _ : unit => True) (fun cat => txn_drop_index cat h name)).
        intros. apply txn_drop_index_sim; auto. }
      destruct (use_direct d1 sid _) as [d1' r1], (use_direct d2 sid _) as [d2' r2]. cbn [fst snd] in *.
      split; [|exact Sd].
      destruct r1 as [t1|e1], r2 as [t2|e2]; cbn [rsim] in R; try contradiction; congruence.
    - (* dropAllIndexes *)
      destruct (use_direct_sim (fun _ _ : unit => True) d1 d2 sid
                  (fun cat g => let '(c', r) := txn_drop_index cat h "" in (c', g, r)) I1 I2 S)
        as [R Sd].
      { apply (fn_sim_nogen (fun _ _ : unit => True) (fun cat => txn_drop_index cat h "")).
        intros. apply txn_drop_index_sim; auto. }
      destruct (use_direct d1 sid _) as [d1' r1], (use_direct d2 sid _) as [d2' r2]. cbn [fst snd] in *.
      split; [|exact Sd].
      destruct r1 as [t1|e1], r2 as [t2|e2]; cbn [rsim] in R; try contradiction; congruence.
    - (* listIndexes *)
      destruct (read_cat_sim d1 d2 sid I1 I2 S) as [_ [_ Sc]]. cbn [fst snd]. split; [|exact S].
      rewrite (txn_list_indexes_sim _ _ h Sc). reflexivity.
    - (* dropCollection *)
      destruct (use_direct_sim (fun _ _ : unit => True) d1 d2 sid (fun cat g => txn_drop cat g h) I1 I2 S)
        as [R Sd]; [intros ? ? ? ? [_ [_ [Sc G]]]; apply txn_drop_sim; assumption|].
      destruct (use_direct d1 sid _) as [d1' r1], (use_direct d2 sid _) as [d2' r2]. cbn [fst snd] in *.
      split; [|exact Sd].
      destruct r1 as [t1|e1], r2 as [t2|e2]; cbn [rsim] in R; try contradiction; congruence.
    - (* dropDatabase *)
      destruct (use_direct_sim (fun _ _ : unit => True) d1 d2 sid (fun cat g => txn_drop cat g (db, "")) I1 I2 S)
        as [R Sd]; [intros ? ? ? ? [_ [_ [Sc G]]]; apply txn_drop_sim; assumption|].
      destruct (use_direct d1 sid _) as [d1' r1], (use_direct d2 sid _) as [d2' r2]. cbn [fst snd] in *.
      split; [|exact Sd].
      destruct r1 as [t1|e1], r2 as [t2|e2]; cbn [rsim] in R; try contradiction; congruence.
    - (* start *)
      pose proof S as [Sc [G F]]. pose proof (sess_get_sim _ _ sid F) as H.
      rewrite <- (token_held_sim d1 d2 S).
      assert (Sn : dsim0 (mkD (ds_cat d1) (ds_gen d1)
                            (sess_set (ds_sessions d1) sid (mkSess (Some (ds_cat d1)) false)))
                         (mkD (ds_cat d2) (ds_gen d2)
                            (sess_set (ds_sessions d2) sid (mkSess (Some (ds_cat d2)) false)))).
      { split; [exact Sc|]. split; [exact G|]. cbn [ds_sessions].
        apply sess_set_sim; [exact F|reflexivity|exact Sc]. }
      destruct (sess_get (ds_sessions d1) sid) as [[t1 e1]|], (sess_get (ds_sessions d2) sid) as [[t2 e2]|];
        try contradiction.
      + cbn [s_ended s_txn] in H. destruct H as [-> Ht].
        destruct t1 as [t1|], t2 as [t2|]; try contradiction; destruct e2;
          try (split; [reflexivity|exact S]);
          destruct (token_held d1); split; try reflexivity; auto.
      + destruct (token_held d1); split; try reflexivity; auto.
    - (* commit *)
      pose proof S as [Sc [G F]]. pose proof (sess_get_sim _ _ sid F) as H.
      destruct (sess_get (ds_sessions d1) sid) as [[t1 e1]|], (sess_get (ds_sessions d2) sid) as [[t2 e2]|];
        try contradiction; [|split; [reflexivity|exact S]].
      cbn [s_ended s_txn] in H. destruct H as [-> Ht].
      destruct t1 as [t1|], t2 as [t2|]; try contradiction; destruct e2;
        try (split; [reflexivity|exact S]).
      split; [reflexivity|]. cbn [fst]. split; [exact Ht|]. split; [exact G|]. cbn [ds_sessions].
      apply sess_set_sim; [exact F|reflexivity|exact I].
    - (* abort *)
      pose proof S as [Sc [G F]]. pose proof (sess_get_sim _ _ sid F) as H.
      assert (Sn : dsim0 (mkD (ds_cat d1) (ds_gen d1) (sess_set (ds_sessions d1) sid (mkSess None false)))
                         (mkD (ds_cat d2) (ds_gen d2) (sess_set (ds_sessions d2) sid (mkSess None false)))).
      { split; [exact Sc|]. split; [exact G|]. cbn [ds_sessions].
        apply sess_set_sim; [exact F|reflexivity|exact I]. }
      destruct (sess_get (ds_sessions d1) sid) as [[t1 e1]|], (sess_get (ds_sessions d2) sid) as [[t2 e2]|];
        try contradiction; [|split; [reflexivity|exact Sn]].
      cbn [s_ended s_txn] in H. destruct H as [-> Ht].
      destruct e2; split; try reflexivity; auto.
    - (* end *)
      pose proof S as [Sc [G F]]. split; [reflexivity|]. cbn [fst].
      split; [exact Sc|]. split; [exact G|]. cbn [ds_sessions].
      apply sess_set_sim; [exact F|reflexivity|exact I].
    - (* trim *)
      rewrite <- (token_held_sim d1 d2 S). destruct (token_held d1); [split; [reflexivity|exact S]|].
      pose proof S as [Sc [G F]].
      pose proof (csim_docs _ _ (oplog_of_sim _ _ Sc)) as E. rewrite (lrel_len _ _ E).
      set (k := Z.max 0 (len (c_docs (oplog_of (ds_cat d2))) - Z.max 0 min_size)).
      destruct (0 <? k); [|split; [reflexivity|exact S]].
      split; [reflexivity|]. cbn [fst]. split; [|split; [exact G|exact F]].
      apply (trim_sim (ds_cat d1) (ds_cat d2) k Sc).
    - (* expire *)
      rewrite <- (token_held_sim d1 d2 S). destruct (token_held d1); [split; [reflexivity|exact S]|].
      pose proof (txn_expire_sim matchf _ _ _ _ now_ms (committed_pre d1 d2 I1 I2 S)) as H.
      destruct (txn_expire matchf (ds_cat d1) (ds_gen d1) now_ms) as [[c1' g1'] r1],
               (txn_expire matchf (ds_cat d2) (ds_gen d2) now_ms) as [[c2' g2'] r2].
      destruct H as [Sc [Go Rr]]. cbn [fst snd] in *.
      destruct r1 as [a1|e1], r2 as [a2|e2]; cbn [rsim] in Rr; try contradiction; cbn [fst snd].
      + split; [reflexivity|]. split; [exact Sc|]. split; [exact Go|apply S].
      + split; [congruence|]. split; [apply S|]. split; [exact Go|apply S].
  Qed.

  Theorem step_sim d1 d2 c :
    dsim d1 d2 ->
    snd (step d1 c) = snd (step d2 c) /\ dsim (fst (step d1 c)) (fst (step d2 c)).
  Proof.
    intros [I1 [I2 S]]. destruct (step_sim0 d1 d2 c I1 I2 S) as [R S'].
    split; [exact R|]. split; [apply step_inv; exact I1|]. split; [apply step_inv; exact I2|exact S'].
  Qed.

  (* every continuation history: the same replies, related final states *)
  Theorem run_sim calls : forall d1 d2,
    dsim d1 d2 ->
    snd (run d1 calls) = snd (run d2 calls) /\ dsim (fst (run d1 calls)) (fst (run d2 calls)).
  Proof.
    induction calls as [|c t IH]; intros d1 d2 S; cbn [Driver.run]; [auto|].
    destruct (step_sim d1 d2 c S) as [R S'].
    destruct (step d1 c) as [d1' r1], (step d2 c) as [d2' r2]. cbn [fst snd] in *.
    destruct (IH d1' d2' S') as [Rs S''].
    destruct (run d1' t) as [e1 rs1], (run d2' t) as [e2 rs2]. cbn [fst snd] in *.
    split; [congruence|exact S''].
  Qed.

End SimStep.

Print Assumptions step_sim.
Print Assumptions run_sim.
