(* CollInvExamples.v — non-vacuity of the collection invariant and of the
   exactness theorems on a concrete collection (two user indexes, one partial
   and one unique), evaluated with vm_compute:
   - the invariant holds of a collection built by the operations;
   - a multi-update that swaps two keys of a unique index is accepted, the
     same move applied to one document alone is rejected with EDup;
   - the hypothesis `filters_defined` of the `_total` exactness theorems
     cannot be dropped: when a partial filter is undefined on the new
     document, the write fails with the matcher's error although a duplicate
     would arise in a later index. *)
From Coq Require Import List ZArith Lia Bool.
From Lungo.Model Require Import Collection.
From Lungo.Proofs Require Import EntryLemmas IndexInv CollLists CollInv CollDup.
Import ListNotations.
Open Scope Z_scope.

(* a matcher that is undefined on documents having a field "x" *)
Definition ex_match (d f : doc) : res bool :=
  match Get d "x" with VMissing => Ok true | _ => Err end.

(* an update that toggles a between 5 and 6 *)
Definition ex_apply (d q u : doc) (ups : bool) (afs : list doc) (now : Z)
  : res (doc * list (string * value)) :=
  match Get d "a" with
  | VInt32 5 => Ok ([("_id", Get d "_id"); ("a", VInt32 6)], [])
  | _ => Ok ([("_id", Get d "_id"); ("a", VInt32 5)], [])
  end.

Definition ex_oid : value := VOid "000000000000".
Definition cf_partial_b : iconfig := mkConfig [("b", VInt32 1)] false (Some []) 0.
Definition cf_unique_a : iconfig := mkConfig [("a", VInt32 1)] true None 0.
Definition doc1 : doc := [("_id", VInt32 1); ("a", VInt32 5)].
Definition doc2 : doc := [("_id", VInt32 2); ("a", VInt32 6)].
Definition doc3 : doc := [("_id", VInt32 3); ("a", VInt32 5); ("x", VInt32 1)].

Definition c0 : coll := new_collection true.
Definition c1 : coll := Eval vm_compute in fst (coll_create_index ex_match c0 "" cf_partial_b).
Definition c2 : coll := Eval vm_compute in fst (coll_create_index ex_match c1 "" cf_unique_a).
Definition c3 : coll := Eval vm_compute in fst (coll_insert ex_match c2 0 doc1 ex_oid).
Definition c4 : coll := Eval vm_compute in fst (coll_insert ex_match c3 1 doc2 ex_oid).

Example ex_index_names : map fst (c_indexes c4) = ["_id_"; "b_1"; "a_1"].
Proof. vm_compute. reflexivity. Qed.

(* the invariant holds of the collection built by the operations *)
Example ex_inv : coll_inv ex_match c4 /\ has_id_index c4 /\ ids_lt c4 2.
Proof.
  destruct (new_collection_inv ex_match true) as [I0 [L0 H0]].
  assert (E1 : coll_create_index ex_match c0 "" cf_partial_b = (c1, inl "b_1"))
    by (vm_compute; reflexivity).
  destruct (coll_create_index_inv ex_match c0 0 _ _ _ _ I0 (H0 eq_refl) (L0 0) E1)
    as [I1 [H1 [L1 _]]].
  assert (E2 : coll_create_index ex_match c1 "" cf_unique_a = (c2, inl "a_1"))
    by (vm_compute; reflexivity).
  destruct (coll_create_index_inv ex_match c1 0 _ _ _ _ I1 H1 L1 E2) as [I2 [H2 [L2 _]]].
  assert (E3 : exists r, coll_insert ex_match c2 0 doc1 ex_oid = (c3, inl r))
    by (eexists; vm_compute; reflexivity).
  destruct E3 as [r3 E3].
  destruct (coll_insert_inv ex_match c2 0 _ _ _ _ I2 H2 L2 E3) as [I3 [H3 L3]].
  assert (E4 : exists r, coll_insert ex_match c3 1 doc2 ex_oid = (c4, inl r))
    by (eexists; vm_compute; reflexivity).
  destruct E4 as [r4 E4].
  exact (coll_insert_inv ex_match c3 1 _ _ _ _ I3 H3 L3 E4).
Qed.

(* swapping the keys of two documents inside one multi-update is accepted ... *)
Example ex_swap_accepted :
  exists c' r,
    coll_update ex_match ex_apply c4 2 [] [] None 0 0 [] 0 = (c', inl r) /\
    c_docs c' = [(2, [("_id", VInt32 1); ("a", VInt32 6)]);
                 (3, [("_id", VInt32 2); ("a", VInt32 5)])].
Proof. eexists. eexists. split; vm_compute; reflexivity. Qed.

(* ... while moving one document alone onto the other's key is rejected *)
Example ex_single_move_rejected :
  exists c', coll_update ex_match ex_apply c4 2 [] [] None 0 1 [] 0 = (c', inr EDup).
Proof. eexists. vm_compute. reflexivity. Qed.

(* inserting a document with a = 5 is rejected for uniqueness, exactly as
   insert_dup_iff_total says *)
Example ex_insert_dup :
  exists c', coll_insert ex_match c4 2 [("_id", VInt32 3); ("a", VInt32 5)] ex_oid = (c', inr EDup).
Proof. eexists. vm_compute. reflexivity. Qed.

(* the index "a_1" would get a duplicate pair from doc3 ... *)
Example ex_would_dup : would_dup ex_match (c_indexes c4) (docs_of c4) doc3.
Proof.
  eexists. split.
  - right. right. left. reflexivity.
  - split; [reflexivity|]. split; [reflexivity|].
    exists 0, doc1. split; [left; reflexivity|]. split; [reflexivity|].
    exists [VInt32 5], [VInt32 5]. split; [|split].
    + vm_compute. left. reflexivity.
    + vm_compute. left. reflexivity.
    + reflexivity.
Qed.

(* ... but the partial filter of "b_1" is undefined on doc3, and the insert
   fails with that error first: without `filters_defined` the implication
   "would create a duplicate pair -> rejected with EDup" is false (the write
   is still rejected, with the matcher's error) *)
Theorem insert_dup_needs_filters_defined_refuted :
  exists matchf c fresh d oid d',
    coll_inv matchf c /\ ids_lt c fresh /\ ensure_id d oid = Ok d' /\
    would_dup matchf (c_indexes c) (docs_of c) d' /\
    ~ (exists c', coll_insert matchf c fresh d oid = (c', inr EDup)).
Proof.
  exists ex_match, c4, 2, doc3, ex_oid, doc3.
  destruct ex_inv as [I [_ L]].
  split; [exact I|]. split; [exact L|]. split; [reflexivity|]. split; [exact ex_would_dup|].
  intros [c' H]. vm_compute in H. inversion H.
Qed.

Print Assumptions ex_inv.
Print Assumptions insert_dup_needs_filters_defined_refuted.
