(* NoPanicExtract.v — C20 for mongokit.Extract: for every query the fuel the
   model computes (the size of the query) suffices, and no panic site is
   reachable; the outcome is a document or an error. *)
From Coq Require Import List ZArith Lia Bool String.
From Lungo.Model Require Import Access Apply.
From Lungo.Proofs Require Import NoPanicBase NoPanicOps.
Import ListNotations.
Open Scope string_scope.

Lemma extract_put_total d ps v : total (extract_put d ps v).
Proof. unfold extract_put. apply bind_total; [apply Put_total|]. intros [o d'] _. exact I. Qed.

Lemma extract_expr_op_total name d ps v : total (extract_expr_op name d ps v).
Proof.
  unfold extract_expr_op. destruct (String.eqb name "extractEq"); [apply extract_put_total|].
  destruct v; try exact I. destruct a as [|x [|y t]]; try exact I. apply extract_put_total.
Qed.

Definition ototal (o : option (res doc)) : Prop :=
  match o with Some r => total r | None => True end.

Lemma extract_exps_total exps first d ps : ototal (extract_exps exps first d ps).
Proof.
  revert first d. induction exps as [|[k v] t IH]; intros first d; cbn [extract_exps].
  - destruct first; exact I.
  - destruct (negb (starts_dollar k)); [destruct first; exact I|].
    destruct (assoc k extract_expr) as [name|]; [|exact I].
    pose proof (extract_expr_op_total name d ps v) as H.
    destruct (extract_expr_op name d ps v) as [d'| | | |]; try exact H.
    destruct t; [exact I|apply IH].
Qed.

Lemma extract_process_total fuel :
  forall q root d, (dsize q < fuel)%nat -> total (extract_process fuel q root d).
Proof.
  induction fuel as [|f IH]; intros q root d Hq; [lia|].
  cbn [extract_process]. destruct q as [|[k v] t]; [exact I|].
  cbn [dsize] in Hq. pose proof (vsize_pos v) as Hv.
  apply bind_total; [|intros d' _; apply IH; lia].
  destruct (starts_dollar k).
  - destruct root.
    + destruct (assoc k extract_top) as [name|]; [|exact I].
      destruct v; try exact I. rename a into items.
      rewrite vsize_arr in Hq.
      assert (Hsub : forall sub, In (VDoc sub) items -> (dsize sub < f)%nat).
      { intros sub Hin. pose proof (asize_in _ _ Hin) as H. rewrite vsize_doc in H. lia. }
      apply safe_nonempty_total.
      destruct (String.eqb name "extractAnd").
      * clear Hq. revert d.
        match goal with |- forall d, total (?F items d) =>
          cut (forall l, incl l items -> forall d, total (F l d));
            [intros G d0; apply G; apply incl_refl|] end.
        induction l as [|x l IHl]; intros Hl d0; [exact I|].
        assert (Hx : In x items) by (apply Hl; left; reflexivity).
        assert (Hl' : incl l items) by (intros y Hy; apply Hl; right; exact Hy).
        destruct x; try exact I.
        apply bind_total; [apply IH; apply Hsub; exact Hx|]. intros d1 _. apply IHl. exact Hl'.
      * destruct items as [|x [|y t']]; try exact I; destruct x; try exact I.
        apply IH. apply Hsub. left. reflexivity.
    + destruct (assoc k extract_expr) as [name|]; [|exact I]. apply extract_expr_op_total.
  - assert (Hf : total (extract_put d k v)) by apply extract_put_total.
    destruct v; try exact Hf.
    pose proof (extract_exps_total d0 true d k) as H.
    destruct (extract_exps d0 true d k) as [r|]; [exact H|exact Hf].
Qed.

(* mongokit.Extract never panics and always terminates: every query *)
Theorem Extract_total q : total (Extract q).
Proof. unfold Extract. apply extract_process_total. rewrite vsize_doc. lia. Qed.

Theorem Extract_safe q : safe (Extract q).
Proof. apply total_safe. apply Extract_total. Qed.
