(* GenUpdateOps.v — obligations tying the model's operator dispatch tables to
   the registrations regenerated from the init() functions of
   /repo/mongokit/apply.go and /repo/mongokit/extract.go (G2, update part).
   Renaming, adding, dropping or re-pointing an operator in the source changes
   Gen/UpdateOps.v and these equalities stop checking. *)
From Coq Require Import List String.
From Lungo.Model Require Import Apply.
From Lungo.Gen Require Import UpdateOps.
Import ListNotations.

(* operator name -> Go function, as registered by the model's table *)
Definition model_update_ops (m : doc -> doc -> res bool) (upsert : bool) (now : Z) : list (string * string) :=
  map (fun x => (fst x, fst (snd x))) (update_ops m upsert now).

Theorem gen_update_ops_ok : forall m upsert now, gen_update_ops = model_update_ops m upsert now.
Proof. intros. reflexivity. Qed.

Theorem gen_extract_top_ok : gen_extract_top = extract_top.
Proof. reflexivity. Qed.

Theorem gen_extract_expr_ok : gen_extract_expr = extract_expr.
Proof. reflexivity. Qed.
