(* NoPanicDriver.v — C20 at the driver level: for every state and every call
   the reply of `Driver.step` carries neither PANIC nor FUEL, for any operator
   semantics that never panics / never runs out of fuel; and over histories:
   after ANY sequence of calls (failing ones included) the next call is
   answered, by a result or an error. *)
From Coq Require Import List ZArith Lia Bool String.
From Lungo.Model Require Import Driver.
From Lungo.Proofs Require Import NoPanicBase NoPanicOps NoPanicColl.
Import ListNotations.
Open Scope Z_scope.

(* no PANIC / FUEL anywhere in a reply *)
Definition reply_ok (r : reply) : Prop :=
  match r with
  | RErr e => ek_ok e
  | RMany _ e => oek_ok e
  | RBulk _ _ _ _ _ _ errs => Forall (fun ie => ek_ok (snd ie)) errs
  | _ => True
  end.

(* the projection document of a call, if it carries one *)
Definition proj_of (c : call) : option doc :=
  match c with
  | CFind _ _ _ _ proj _ _ => proj
  | CFindOne _ _ _ _ proj _ => proj
  | CFindOneAndUpdate _ _ _ _ _ proj _ _ _ => proj
  | CFindOneAndReplace _ _ _ _ _ proj _ _ => proj
  | CFindOneAndDelete _ _ _ _ proj => proj
  | _ => None
  end.

Section DriverSafe.
  Variable matchf : doc -> doc -> res bool.
  Variable applyf : doc -> doc -> doc -> bool -> list doc -> Z -> res (doc * list (string * value)).
  Variable extractf : doc -> res doc.
  Variable projectf : doc -> doc -> res doc.
  Variable now : Z.

  Hypothesis matchf_safe : forall d q, safe (matchf d q).
  Hypothesis applyf_safe : forall d q u up afs now, safe (applyf d q u up afs now).
  Hypothesis extractf_safe : forall q, safe (extractf q).

  (* the condition under which the projection is known not to panic *)
  Variable okp : doc -> Prop.
  Hypothesis projectf_safe : forall d p, okp p -> safe (projectf d p).

  Definition call_ok (c : call) : Prop :=
    match proj_of c with Some p => okp p | None => True end.

  Definition oproj_ok (proj : option doc) : Prop :=
    match proj with Some p => okp p | None => True end.

  Notation step := (step matchf applyf extractf projectf now).
  Notation run := (run matchf applyf extractf projectf now).

  Lemma use_write_ok {A} (P : A + ekind -> Prop) ds sid
        (fn : catalog -> gen -> catalog * gen * (A + ekind)) :
    P (inr EErr) -> (forall cat g, P (snd (fn cat g))) -> P (snd (use_write ds sid fn)).
  Proof.
    intros He Hf. unfold use_write. destruct (routed ds sid) as [tc|].
    - pose proof (Hf tc (ds_gen ds)) as H. destruct (fn tc (ds_gen ds)) as [[tc' g'] r]. exact H.
    - destruct (token_held ds); [exact He|].
      pose proof (Hf (ds_cat ds) (ds_gen ds)) as H.
      destruct (fn (ds_cat ds) (ds_gen ds)) as [[c' g'] r]. destruct r; exact H.
  Qed.

  Lemma use_direct_ok {A} (P : A + ekind -> Prop) ds sid
        (fn : catalog -> gen -> catalog * gen * (A + ekind)) :
    P (inr EErr) -> (forall cat g, P (snd (fn cat g))) -> P (snd (use_direct ds sid fn)).
  Proof.
    intros He Hf. unfold use_direct. destruct (routed ds sid) as [tc|]; [exact He|].
    destruct (token_held ds); [exact He|].
    pose proof (Hf (ds_cat ds) (ds_gen ds)) as H.
    destruct (fn (ds_cat ds) (ds_gen ds)) as [[c' g'] r]. destruct r; exact H.
  Qed.

  Lemma project_opt_safe proj d : oproj_ok proj -> safe (project_opt projectf proj d).
  Proof. unfold project_opt. destruct proj; [apply projectf_safe|intros; exact I]. Qed.

  Lemma reply_doc_ok proj d : oproj_ok proj -> reply_ok (reply_doc projectf proj d).
  Proof.
    intro Hp. unfold reply_doc. destruct d as [dd|]; [|exact I].
    pose proof (project_opt_safe proj dd Hp) as H.
    destruct (project_opt projectf proj dd); cbn; tauto.
  Qed.

  (* a reply-or-error: the reply and the error are both clean *)
  Definition rr_ok (r : reply + ekind) : Prop :=
    match r with inl rp => reply_ok rp | inr e => ek_ok e end.

  Lemma project_in_txn_ok proj after c0 x :
    oproj_ok proj -> tr_ok (snd x) -> rr_ok (snd (project_in_txn projectf proj after c0 x)).
  Proof.
    intros Hp Hx. unfold project_in_txn. destruct x as [[c' g'] [tr|e]]; [|exact Hx].
    pose proof (reply_doc_ok proj (pick_doc tr after) Hp) as H.
    destruct (reply_doc projectf proj (pick_doc tr after)); exact H.
  Qed.

  Lemma bulk_reply_ok ops : forall rs i acc,
    Forall tr_ok rs -> reply_ok acc -> reply_ok (bulk_reply ops rs i acc).
  Proof.
    induction ops as [|op t IH]; intros rs i acc Hrs Hacc; cbn [bulk_reply]; [exact Hacc|].
    destruct rs as [|r rs']; [exact Hacc|]. inversion Hrs as [|r0 l0 Hr Hrs']; subst.
    destruct acc; try exact Hacc. apply IH; [exact Hrs'|].
    destruct r as [tr|k].
    - destruct op; try exact Hacc; destruct (t_upserted tr); exact Hacc.
    - cbn [reply_ok] in *. apply Forall_app. split; [exact Hacc|]. constructor; [exact Hr|constructor].
  Qed.

  Ltac split_step E := match goal with |- context [let '(a, b) := ?X in _] => destruct X as [ds' r] eqn:E end.

  Theorem step_reply_ok ds c : call_ok c -> reply_ok (snd (step ds c)).
  Proof.
    intro Hc. unfold call_ok in Hc.
    destruct c; cbn [Driver.step proj_of] in *.
    - (* insertOne *)
      pose proof (use_write_ok tr_ok ds sid (fun cat g => txn_insert matchf cat g h [d] true) I
                    (fun cat g => txn_insert_ok matchf matchf_safe cat g h [d] true)) as H.
      destruct (use_write ds sid _) as [ds' r]. cbn [snd] in *.
      destruct r as [tr|e]; [|exact H]. cbn [tr_ok] in H. destruct (t_error tr); [exact H|].
      destruct (t_modified tr); exact I.
    - (* insertMany *)
      pose proof (use_write_ok tr_ok ds sid (fun cat g => txn_insert matchf cat g h ds0 ordered) I
                    (fun cat g => txn_insert_ok matchf matchf_safe cat g h ds0 ordered)) as H.
      destruct (use_write ds sid _) as [ds' r]. cbn [snd] in *.
      destruct r as [tr|e]; exact H.
    - (* find *)
      cbn [snd]. pose proof (txn_find_ok matchf matchf_safe (read_cat ds sid) h q sort skip limit) as H.
      destruct (txn_find matchf (read_cat ds sid) h q sort skip limit) as [tr|e]; [|exact H].
      assert (Hm : safe (mapM (fun sd => project_opt projectf proj (snd sd)) (t_matched tr))).
      { apply mapM_safe. intros sd _. apply project_opt_safe. exact Hc. }
      destruct (mapM (fun sd => project_opt projectf proj (snd sd)) (t_matched tr)); cbn; tauto.
    - (* findOne *)
      cbn [snd]. pose proof (txn_find_ok matchf matchf_safe (read_cat ds sid) h q sort skip 1) as H.
      destruct (txn_find matchf (read_cat ds sid) h q sort skip 1) as [tr|e]; [|exact H].
      destruct (t_matched tr) as [|m0 ms]; [exact I|].
      assert (Hm : safe (mapM (fun sd => project_opt projectf proj (snd sd)) (m0 :: ms))).
      { apply mapM_safe. intros sd _. apply project_opt_safe. exact Hc. }
      destruct (mapM (fun sd => project_opt projectf proj (snd sd)) (m0 :: ms)) as [[|p ps]| | | |]; cbn; tauto.
    - (* count *)
      cbn [snd]. pose proof (txn_find_ok matchf matchf_safe (read_cat ds sid) h q None skip limit) as H.
      destruct (txn_find matchf (read_cat ds sid) h q None skip limit) as [tr|e]; [exact I|exact H].
    - (* distinct *)
      cbn [snd]. pose proof (txn_find_ok matchf matchf_safe (read_cat ds sid) h q None 0 0) as H.
      destruct (txn_find matchf (read_cat ds sid) h q None 0 0) as [tr|e]; [exact I|exact H].
    - (* update *)
      pose proof (use_write_ok tr_ok ds sid
        (fun cat g => txn_update matchf applyf extractf cat g h q None u 0 (if many then 0 else 1) upsert afs now) I
        (fun cat g => txn_update_ok matchf applyf extractf matchf_safe applyf_safe extractf_safe
                        cat g h q None u 0 (if many then 0 else 1) upsert afs now)) as H.
      destruct (use_write ds sid _) as [ds' r]. cbn [snd] in *.
      destruct r as [tr|e]; [|exact H]. unfold upd_reply. destruct (t_upserted tr); exact I.
    - (* replace *)
      destruct (first_key_dollar repl); [exact I|].
      pose proof (use_write_ok tr_ok ds sid
        (fun cat g => txn_replace matchf applyf extractf cat g h q None repl upsert now) I
        (fun cat g => txn_replace_ok matchf applyf extractf matchf_safe applyf_safe extractf_safe
                        cat g h q None repl upsert now)) as H.
      destruct (use_write ds sid _) as [ds' r]. cbn [snd] in *.
      destruct r as [tr|e]; [|exact H]. unfold upd_reply. destruct (t_upserted tr); exact I.
    - (* delete *)
      pose proof (use_write_ok tr_ok ds sid
        (fun cat g => txn_delete matchf cat g h q None 0 (if many then 0 else 1)) I
        (fun cat g => txn_delete_ok matchf matchf_safe cat g h q None 0 (if many then 0 else 1))) as H.
      destruct (use_write ds sid _) as [ds' r]. cbn [snd] in *.
      destruct r as [tr|e]; [exact I|exact H].
    - (* findOneAndUpdate *)
      pose proof (use_write_ok rr_ok ds sid
        (fun cat g => project_in_txn projectf proj after cat
                        (txn_update matchf applyf extractf cat g h q sort u 0 1 upsert afs now)) I
        (fun cat g => project_in_txn_ok proj after cat _ Hc
           (txn_update_ok matchf applyf extractf matchf_safe applyf_safe extractf_safe
              cat g h q sort u 0 1 upsert afs now))) as H.
      destruct (use_write ds sid _) as [ds' r]. cbn [snd] in *. destruct r; exact H.
    - (* findOneAndReplace *)
      destruct (first_key_dollar repl); [exact I|].
      pose proof (use_write_ok rr_ok ds sid
        (fun cat g => project_in_txn projectf proj after cat
                        (txn_replace matchf applyf extractf cat g h q sort repl upsert now)) I
        (fun cat g => project_in_txn_ok proj after cat _ Hc
           (txn_replace_ok matchf applyf extractf matchf_safe applyf_safe extractf_safe
              cat g h q sort repl upsert now))) as H.
      destruct (use_write ds sid _) as [ds' r]. cbn [snd] in *. destruct r; exact H.
    - (* findOneAndDelete *)
      pose proof (use_write_ok rr_ok ds sid
        (fun cat g => project_in_txn projectf proj false cat (txn_delete matchf cat g h q sort 0 1)) I
        (fun cat g => project_in_txn_ok proj false cat _ Hc
           (txn_delete_ok matchf matchf_safe cat g h q sort 0 1))) as H.
      destruct (use_write ds sid _) as [ds' r]. cbn [snd] in *. destruct r; exact H.
    - (* bulkWrite *)
      match goal with |- reply_ok (snd (if ?c then _ else _)) => destruct c end; [exact I|].
      pose proof (use_write_ok (bulk_ok) ds sid
        (fun cat g => txn_bulk matchf applyf extractf cat g h ops ordered now) I
        (fun cat g => txn_bulk_ok matchf applyf extractf matchf_safe applyf_safe extractf_safe
                        cat g h ops ordered now)) as H.
      destruct (use_write ds sid _) as [ds' r]. cbn [snd] in *.
      destruct r as [rs|e]; [|exact H]. apply bulk_reply_ok; [exact H|constructor].
    - (* createIndex *)
      pose proof (use_direct_ok sum_ok ds sid
        (fun cat g => let '(c', r) := txn_create_index matchf cat h name
                                        (mkConfig key unique partial (expiry_ns expire_s)) in (c', g, r)) I) as H.
      destruct (use_direct ds sid _) as [ds' r]. cbn [snd] in *.
      assert (Hr : sum_ok r).
      { apply H. intros cat g.
        pose proof (txn_create_index_ok matchf matchf_safe cat h name
                      (mkConfig key unique partial (expiry_ns expire_s))) as Hx.
        destruct (txn_create_index matchf cat h name _) as [c' r']. exact Hx. }
      destruct r; [exact I|exact Hr].
    - (* dropIndex *)
      pose proof (use_direct_ok sum_ok ds sid
        (fun cat g => let '(c', r) := txn_drop_index cat h name in (c', g, r)) I) as H.
      destruct (use_direct ds sid _) as [ds' r]. cbn [snd] in *.
      assert (Hr : sum_ok r).
      { apply H. intros cat g. pose proof (txn_drop_index_ok cat h name) as Hx.
        destruct (txn_drop_index cat h name) as [c' r']. exact Hx. }
      destruct r; [exact I|exact Hr].
    - (* dropAllIndexes *)
      pose proof (use_direct_ok sum_ok ds sid
        (fun cat g => let '(c', r) := txn_drop_index cat h "" in (c', g, r)) I) as H.
      destruct (use_direct ds sid _) as [ds' r]. cbn [snd] in *.
      assert (Hr : sum_ok r).
      { apply H. intros cat g. pose proof (txn_drop_index_ok cat h "") as Hx.
        destruct (txn_drop_index cat h "") as [c' r']. exact Hx. }
      destruct r; [exact I|exact Hr].
    - (* listIndexes *)
      cbn [snd]. pose proof (txn_list_indexes_ok (read_cat ds sid) h) as H.
      destruct (txn_list_indexes (read_cat ds sid) h); [exact I|exact H].
    - (* dropCollection *)
      pose proof (use_direct_ok sum_ok ds sid (fun cat g => txn_drop cat g h) I
                    (fun cat g => txn_drop_ok cat g h)) as H.
      destruct (use_direct ds sid _) as [ds' r]. cbn [snd] in *. destruct r; [exact I|exact H].
    - (* dropDatabase *)
      pose proof (use_direct_ok sum_ok ds sid (fun cat g => txn_drop cat g (db, ""%string)) I
                    (fun cat g => txn_drop_ok cat g (db, ""%string))) as H.
      destruct (use_direct ds sid _) as [ds' r]. cbn [snd] in *. destruct r; [exact I|exact H].
    - (* startTransaction *)
      destruct (sess_get (ds_sessions ds) sid) as [[[tc|] [|]]|]; try exact I;
        destruct (token_held ds); exact I.
    - (* commit *)
      destruct (sess_get (ds_sessions ds) sid) as [[[tc|] [|]]|]; exact I.
    - (* abort *)
      destruct (sess_get (ds_sessions ds) sid) as [[[tc|] [|]]|]; exact I.
    - (* endSession *)
      exact I.
    - (* trim *)
      destruct (token_held ds); [exact I|].
      match goal with |- reply_ok (snd (if ?c then _ else _)) => destruct c end; exact I.
    - (* expire *)
      destruct (token_held ds); [exact I|].
      pose proof (txn_expire_ok matchf matchf_safe (ds_cat ds) (ds_gen ds) now_ms) as H.
      destruct (txn_expire matchf (ds_cat ds) (ds_gen ds) now_ms) as [[c' g'] [u|e]]; [exact I|exact H].
  Qed.

  (* histories: whatever happened before — failing calls included — the next
     call is answered by a result or an error *)
  Theorem run_replies_ok cs : forall ds, Forall call_ok cs -> Forall reply_ok (snd (run ds cs)).
  Proof.
    induction cs as [|c t IH]; intros ds Hcs; cbn [Driver.run]; [constructor|].
    inversion Hcs as [|c0 t0 Hc Ht]; subst.
    pose proof (step_reply_ok ds c Hc) as Hr.
    destruct (step ds c) as [ds1 r]. specialize (IH ds1 Ht).
    destruct (run ds1 t) as [ds2 rs]. cbn [snd] in *. constructor; assumption.
  Qed.

  Corollary next_call_served cs c ds :
    call_ok c -> reply_ok (snd (step (fst (run ds cs)) c)).
  Proof. intro Hc. apply step_reply_ok. exact Hc. Qed.
End DriverSafe.
