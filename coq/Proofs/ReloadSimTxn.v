(* ReloadSimTxn.v — the simulation of ReloadSimColl.v lifted to Model/Txn.v:
   two catalogs with the same handles (in order), per handle the same
   documents and index definitions (`catsim`: equality of the identity- and
   entry-free erasure, INCLUDING the change log local.oplog and the event
   clock), both satisfying the catalog invariant, answer every Transaction
   method alike and stay related.  Document identities, the identity
   generators and the order of index entries are free to differ. *)
From Coq Require Import List ZArith String Lia Bool.
From Lungo.Model Require Import Driver RunSpec.
From Lungo.Spec Require Import SpecDb.
From Lungo.Proofs Require Import CollLists IndexInv CollInv OplogProofs CatInv RefineLists RefineColl
  RefineTxn ReloadSimColl.
Import ListNotations.
Open Scope Z_scope.
Open Scope list_scope.

Definition trel (t1 t2 : tresult) : Prop :=
  lrel (t_matched t1) (t_matched t2) /\ lrel (t_modified t1) (t_modified t2) /\
  orel (t_upserted t1) (t_upserted t2) /\ t_error t1 = t_error t2.

Definition wsim (w1 w2 : wstate) : Prop :=
  csim (w_ns w1) (w_ns w2) /\ csim (w_oplog w1) (w_oplog w2) /\
  w_clock w1 = w_clock w2 /\ g_oid (w_gen w1) = g_oid (w_gen w2).

Definition wres_sim (x1 x2 : wstate * (tresult + ekind)) : Prop :=
  match snd x1, snd x2 with
  | inl t1, inl t2 => trel t1 t2 /\ wsim (fst x1) (fst x2)
  | inr e1, inr e2 => e1 = e2 /\ g_oid (w_gen (fst x1)) = g_oid (w_gen (fst x2))
  | _, _ => False
  end.

Lemma csim_refl c : csim c c.
Proof. reflexivity. Qed.

Lemma lrel_firstn n l1 : forall l2, lrel l1 l2 -> lrel (firstn n l1) (firstn n l2).
Proof.
  unfold lrel. intros l2 H. rewrite <- !firstn_map. f_equal. exact H.
Qed.

Lemma lrel_cons_inv (a b : sdoc) l1 l2 : lrel (a :: l1) (b :: l2) -> snd a = snd b /\ lrel l1 l2.
Proof. unfold lrel. cbn [map]. intro H. inversion H. auto. Qed.

Lemma trel_empty : trel t_empty t_empty.
Proof. repeat split. Qed.

(* appending one event *)
Lemma csim_append (o1 o2 : coll) i1 i2 (d : doc) :
  csim o1 o2 -> csim (mkColl (c_docs o1 ++ [(i1, d)]) (c_indexes o1))
                     (mkColl (c_docs o2 ++ [(i2, d)]) (c_indexes o2)).
Proof.
  intro S. pose proof (csim_docs _ _ S) as E. pose proof (csim_defs _ _ S) as D.
  unfold csim. rewrite !abs_coll_eq. cbn [c_docs c_indexes]. rewrite !map_app. cbn [map snd].
  unfold lrel in E. f_equal; [f_equal; exact E|exact D].
Qed.

Lemma append_all_sim l1 : forall l2 w1 w2 h op chs,
  lrel l1 l2 -> wsim w1 w2 -> wsim (append_all w1 h op l1 chs) (append_all w2 h op l2 chs).
Proof.
  induction l1 as [|a t IH]; intros [|b t'] w1 w2 h op chs E S; try discriminate.
  - exact S.
  - apply lrel_cons_inv in E. destruct E as [Ea Et]. cbn [append_all]. unfold append_event.
    apply IH; [exact Et|]. destruct S as [S1 [S2 [S3 S4]]].
    split; [exact S1|]. cbn [w_ns w_oplog w_clock w_gen g_oid].
    split; [|split; [congruence|exact S4]].
    rewrite Ea, S3. apply csim_append. exact S2.
Qed.

Section SimTxnW.
  Set Default Proof Using "Type".
  Variable matchf : doc -> doc -> res bool.
  Variable applyf : doc -> doc -> doc -> bool -> list doc -> Z -> res (doc * list (string * value)).
  Variable extractf : doc -> res doc.

  Local Notation coll_inv := (CollInv.coll_inv matchf).
  Local Notation w_inv := (CatInv.w_inv matchf).
  Local Notation t_insert := (Txn.t_insert matchf).
  Local Notation t_replace := (Txn.t_replace matchf applyf extractf).
  Local Notation t_update := (Txn.t_update matchf applyf extractf).
  Local Notation t_delete := (Txn.t_delete matchf).

  Lemma settle_sim w1 w2 n1 n2 g1 g2 h op l1 l2 chs :
    wsim w1 w2 -> csim n1 n2 -> g_oid g1 = g_oid g2 -> lrel l1 l2 ->
    wsim (append_all (mkW n1 (w_oplog w1) (w_clock w1) g1) h op l1 chs)
         (append_all (mkW n2 (w_oplog w2) (w_clock w2) g2) h op l2 chs).
  Proof.
    intros [_ [S2 [S3 _]]] N G E. apply append_all_sim; [exact E|].
    split; [exact N|]. split; [exact S2|]. split; [exact S3|exact G].
  Qed.

  Theorem t_insert_sim w1 w2 h d :
    w_inv w1 -> w_inv w2 -> wsim w1 w2 -> wres_sim (t_insert w1 h d) (t_insert w2 h d).
  Proof.
    intros [[I1 [_ L1]] _] [[I2 [_ L2]] _] S. pose proof S as [S1 [_ [_ S4]]].
    unfold Txn.t_insert, wres_sim.
    pose proof (insert2 matchf (w_ns w1) (w_ns w2) (g_did (w_gen w1)) (g_did (w_gen w2)) d
                  (gen_oid (g_oid (w_gen w1))) I1 L1 I2 L2 S1) as H.
    rewrite S4 in H at 2.
    destruct (coll_insert matchf (w_ns w1) (g_did (w_gen w1)) d (gen_oid (g_oid (w_gen w1))))
      as [n1 [r1|e1]],
      (coll_insert matchf (w_ns w2) (g_did (w_gen w2)) d (gen_oid (g_oid (w_gen w2))))
      as [n2 [r2|e2]]; cbn [out2] in H; try contradiction; cbn [fst snd].
    - destruct H as [N [_ [M _]]]. split.
      + repeat split; auto.
      + apply settle_sim; auto. cbn [g_oid]. rewrite S4. reflexivity.
    - split; [exact H|]. cbn [w_gen g_oid]. rewrite S4. reflexivity.
  Qed.

  Theorem t_delete_sim w1 w2 h q s sk li :
    w_inv w1 -> w_inv w2 -> wsim w1 w2 ->
    wres_sim (t_delete w1 h q s sk li) (t_delete w2 h q s sk li).
  Proof.
    intros [[I1 _] _] [[I2 _] _] S. pose proof S as [S1 [_ [_ S4]]].
    unfold Txn.t_delete, wres_sim.
    pose proof (delete2 matchf (w_ns w1) (w_ns w2) q s sk li I1 I2 S1) as H.
    destruct (coll_delete matchf (w_ns w1) q s sk li) as [n1 [r1|e1]],
             (coll_delete matchf (w_ns w2) q s sk li) as [n2 [r2|e2]];
      cbn [out2] in H; try contradiction; cbn [fst snd].
    - destruct H as [N [M _]]. split.
      + repeat split; auto.
      + apply settle_sim; auto.
    - split; [exact H|]. cbn [w_gen]. exact S4.
  Qed.

  (* the shared upsert tail of Replace / Update *)
  Lemma upsert_tail_sim w1 w2 n1 n2 f1 f2 h q repl update afs now gen1 gen2 (uo : Z) :
    wsim w1 w2 -> csim n1 n2 ->
    coll_inv n1 -> ids_lt n1 f1 -> coll_inv n2 -> ids_lt n2 f2 ->
    g_oid gen1 = g_oid gen2 ->
    wres_sim
      (match coll_upsert matchf applyf extractf n1 f1 q repl update afs (gen_oid (g_oid gen1)) now with
       | (ns'', inl r2) =>
           match r_upserted r2 with
           | Some sd =>
               (append_all (mkW ns'' (w_oplog w1) (w_clock w1) (mkGen (f1 + 1) (g_oid gen1 + uo)))
                           h "insert" [sd] None, inl (mkT [] [] (Some sd) None))
           | None => (mkW ns'' (w_oplog w1) (w_clock w1) (mkGen f1 (g_oid gen1 + uo)), inr EErr)
           end
       | (ns'', inr e) => (mkW ns'' (w_oplog w1) (w_clock w1) (mkGen f1 (g_oid gen1 + uo)), inr e)
       end)
      (match coll_upsert matchf applyf extractf n2 f2 q repl update afs (gen_oid (g_oid gen2)) now with
       | (ns'', inl r2) =>
           match r_upserted r2 with
           | Some sd =>
               (append_all (mkW ns'' (w_oplog w2) (w_clock w2) (mkGen (f2 + 1) (g_oid gen2 + uo)))
                           h "insert" [sd] None, inl (mkT [] [] (Some sd) None))
           | None => (mkW ns'' (w_oplog w2) (w_clock w2) (mkGen f2 (g_oid gen2 + uo)), inr EErr)
           end
       | (ns'', inr e) => (mkW ns'' (w_oplog w2) (w_clock w2) (mkGen f2 (g_oid gen2 + uo)), inr e)
       end).
  Proof.
    intros S N I1 L1 I2 L2 G.
    pose proof (upsert2 matchf applyf extractf n1 n2 f1 f2 q repl update afs (gen_oid (g_oid gen1)) now
                  I1 L1 I2 L2 N) as H.
    rewrite G in H at 2. unfold wres_sim.
    destruct (coll_upsert matchf applyf extractf n1 f1 q repl update afs (gen_oid (g_oid gen1)) now)
      as [m1 [r1|e1]],
      (coll_upsert matchf applyf extractf n2 f2 q repl update afs (gen_oid (g_oid gen2)) now)
      as [m2 [r2|e2]]; cbn [out2] in H; try contradiction.
    - destruct H as [M [_ [_ U]]]. unfold orel in U.
      destruct (r_upserted r1) as [sd1|], (r_upserted r2) as [sd2|]; try discriminate; cbn [fst snd].
      + cbn [option_map] in U. inversion U as [U'].
        assert (E : lrel [sd1] [sd2]) by (unfold lrel; cbn [map]; rewrite U'; reflexivity).
        split.
        * repeat split. unfold orel. cbn [t_upserted option_map]. rewrite U'. reflexivity.
        * apply settle_sim; auto. cbn [g_oid]. rewrite G. reflexivity.
      + split; [reflexivity|]. cbn [w_gen g_oid]. rewrite G. reflexivity.
    - cbn [fst snd]. split; [exact H|]. cbn [w_gen g_oid]. rewrite G. reflexivity.
  Qed.

  Theorem t_replace_sim w1 w2 h q rp s up now :
    w_inv w1 -> w_inv w2 -> wsim w1 w2 ->
    wres_sim (t_replace w1 h q rp s up now) (t_replace w2 h q rp s up now).
  Proof.
    intros [[I1 [D1 L1]] _] [[I2 [D2 L2]] _] S. pose proof S as [S1 [S2 [S3 S4]]].
    unfold Txn.t_replace.
    pose proof (replace2 matchf (w_ns w1) (w_ns w2) (g_did (w_gen w1)) (g_did (w_gen w2)) q rp s
                  I1 L1 I2 L2 S1) as H.
    destruct (coll_replace matchf (w_ns w1) (g_did (w_gen w1)) q rp s) as [n1 [r1|e1]] eqn:E1,
             (coll_replace matchf (w_ns w2) (g_did (w_gen w2)) q rp s) as [n2 [r2|e2]] eqn:E2;
      cbn [out2] in H; try contradiction.
    2:{ unfold wres_sim. cbn [fst snd w_gen]. split; [exact H|exact S4]. }
    destruct H as [N [M [Md _]]].
    destruct (coll_replace_inv matchf _ _ _ _ _ _ _ I1 D1 L1 E1) as [A1 [B1 C1]].
    destruct (coll_replace_inv matchf _ _ _ _ _ _ _ I2 D2 L2 E2) as [A2 [B2 C2]].
    destruct (r_matched r1) as [|x1 m1] eqn:Em1, (r_matched r2) as [|x2 m2] eqn:Em2;
      try discriminate.
    - destruct up.
      + cbn [g_did g_oid].
        apply (upsert_tail_sim w1 w2 n1 n2 (g_did (w_gen w1) + 1) (g_did (w_gen w2) + 1) h q
                 (Some rp) None [] now (w_gen w1) (w_gen w2)
                 (if upsert_generates applyf extractf q (Some rp) None [] now then 1 else 0)); auto.
      + unfold wres_sim. cbn [fst snd]. split; [apply trel_empty|].
        split; [exact N|]. split; [exact S2|]. split; [exact S3|]. cbn [w_gen g_oid]. exact S4.
    - unfold wres_sim. cbn [fst snd]. split.
      + unfold trel. cbn [t_matched t_modified t_upserted t_error]. repeat split; auto.
      + apply settle_sim; auto. apply lrel_firstn. exact Md.
  Qed.

  Theorem t_update_sim w1 w2 h q u s up sk li afs now :
    w_inv w1 -> w_inv w2 -> wsim w1 w2 ->
    wres_sim (t_update w1 h q u s up sk li afs now) (t_update w2 h q u s up sk li afs now).
  Proof.
    intros [[I1 [D1 L1]] _] [[I2 [D2 L2]] _] S. pose proof S as [S1 [S2 [S3 S4]]].
    unfold Txn.t_update.
    pose proof (update2 matchf applyf (w_ns w1) (w_ns w2) (g_did (w_gen w1)) (g_did (w_gen w2))
                  q u s sk li afs now I1 L1 I2 L2 S1) as H.
    destruct (coll_update matchf applyf (w_ns w1) (g_did (w_gen w1)) q u s sk li afs now)
      as [n1 [r1|e1]] eqn:E1,
      (coll_update matchf applyf (w_ns w2) (g_did (w_gen w2)) q u s sk li afs now)
      as [n2 [r2|e2]] eqn:E2; cbn [out2] in H; try contradiction.
    2:{ unfold wres_sim. cbn [fst snd w_gen]. split; [exact H|exact S4]. }
    destruct H as [N [M [Md _]]].
    pose proof (update_changes2 matchf applyf _ _ _ _ _ _ _ _ _ _ _ _ _ _ _
                  (proj1 I1) (proj1 I2) S1 E1 E2) as Hch.
    destruct (coll_update_inv matchf applyf _ _ _ _ _ _ _ _ _ _ _ I1 D1 L1 E1) as [A1 [B1 C1]].
    destruct (coll_update_inv matchf applyf _ _ _ _ _ _ _ _ _ _ _ I2 D2 L2 E2) as [A2 [B2 C2]].
    fold (len (r_matched r1)) in C1. fold (len (r_matched r2)) in C2.
    destruct (r_matched r1) as [|x1 m1] eqn:Em1, (r_matched r2) as [|x2 m2] eqn:Em2;
      try discriminate.
    - destruct up.
      + cbn [g_did g_oid].
        apply (upsert_tail_sim w1 w2 n1 n2 (g_did (w_gen w1) + len []) (g_did (w_gen w2) + len []) h q
                 None (Some u) afs now (w_gen w1) (w_gen w2)
                 (if upsert_generates applyf extractf q None (Some u) afs now then 1 else 0)); auto.
      + unfold wres_sim. cbn [fst snd]. split; [apply trel_empty|].
        split; [exact N|]. split; [exact S2|]. split; [exact S3|]. cbn [w_gen g_oid]. exact S4.
    - unfold wres_sim. cbn [fst snd]. split.
      + unfold trel. cbn [t_matched t_modified t_upserted t_error]. repeat split; auto.
      + rewrite Hch. apply settle_sim; auto.
  Qed.

End SimTxnW.
