(* MatchLaws.v — the logical laws of the query matcher (C10), for ALL
   documents and ALL filters, stated on the three-valued result
   (Ok true | Ok false | Err), and the $lt-on-dates lemma used by C19. *)
From Coq Require Import List ZArith Bool String Lia.
From Lungo.Model Require Import Match.
From Lungo.Proofs Require Import OrderLaws CompareOrder.
Import ListNotations.
Open Scope string_scope.

(* ---------------------------------------------------------------- *)
(* the three-valued combinators *)

Lemma and_then_true_r r : and_then r (Ok true) = r.
Proof. destruct r as [[|]| | | |]; reflexivity. Qed.

Lemma and_then_true_l k : and_then (Ok true) k = k.
Proof. reflexivity. Qed.

Lemma and_then_assoc a b c : and_then (and_then a b) c = and_then a (and_then b c).
Proof. destruct a as [[|]| | | |]; reflexivity. Qed.

Lemma or_else_assoc a b c : or_else (or_else a b) c = or_else a (or_else b c).
Proof. destruct a as [[|]| | | |]; reflexivity. Qed.

Lemma or_else_false_r r : or_else r (Ok false) = r.
Proof. destruct r as [[|]| | | |]; reflexivity. Qed.

Lemma negate_involutive r : negate (negate r) = r.
Proof. destruct r as [[|]| | | |]; reflexivity. Qed.

(* De Morgan on the sequential connectives *)
Lemma negate_and_then a b : negate (and_then a b) = or_else (negate a) (negate b).
Proof. destruct a as [[|]| | | |]; reflexivity. Qed.

Lemma and_then_ok a b : and_then (Ok a) (Ok b) = Ok (a && b).
Proof. destruct a; reflexivity. Qed.

Lemma or_else_ok a b : or_else (Ok a) (Ok b) = Ok (a || b).
Proof. destruct a; reflexivity. Qed.

Lemma and_then_true_iff a b : and_then a b = Ok true <-> a = Ok true /\ b = Ok true.
Proof.
  destruct a as [[|]| | | |]; simpl; split; intro H; try (destruct H; congruence); try discriminate; auto.
Qed.

Lemma or_else_true_iff a b :
  or_else a b = Ok true <-> a = Ok true \/ (a = Ok false /\ b = Ok true).
Proof.
  destruct a as [[|]| | | |]; simpl; split; intro H; auto; try discriminate;
    try (destruct H as [H|[H1 H2]]; congruence).
Qed.

Lemma first_ok_ok (f : value -> bool) op l b :
  (forall c, op c = Ok (f c)) -> first_ok op l (Ok b) = Ok (existsb f l || b).
Proof.
  intro H. induction l as [|x l IH]; simpl; [reflexivity|].
  rewrite H, IH. destruct (f x); reflexivity.
Qed.

Lemma existsb_swap {A B} (g : A -> B -> bool) (l : list A) (m : list B) :
  existsb (fun a => existsb (fun b => g a b) m) l = existsb (fun b => existsb (fun a => g a b) l) m.
Proof.
  induction l as [|a l IH]; simpl.
  - induction m; simpl; auto.
  - rewrite IH. clear IH. induction m as [|b m IHm]; simpl; [reflexivity|].
    rewrite <- IHm. destruct (g a b), (existsb (fun a0 => g a0 b) l); simpl;
      rewrite ?orb_true_r; reflexivity.
Qed.

Lemma existsb_orb {A} (f g : A -> bool) (l : list A) :
  existsb (fun a => f a || g a) l = existsb f l || existsb g l.
Proof.
  induction l as [|a l IH]; simpl; [reflexivity|]. rewrite IH.
  destruct (f a), (g a), (existsb f l); reflexivity.
Qed.

Lemma existsb_ext_in {A} (f g : A -> bool) (l : list A) :
  (forall a, In a l -> f a = g a) -> existsb f l = existsb g l.
Proof.
  induction l as [|a l IH]; simpl; intro H; [reflexivity|].
  rewrite (H a) by auto. rewrite IH by auto. reflexivity.
Qed.

(* ---------------------------------------------------------------- *)
(* class equality *)

Lemma class_eqb_eq a b : class_eqb a b = true <-> a = b.
Proof.
  unfold class_eqb. rewrite Z.eqb_eq. split; [|intros ->; reflexivity].
  destruct a, b; simpl; intro H; try reflexivity; discriminate.
Qed.

(* compare = Eq only inside a class (from C12) *)
Lemma compare_eq_class c v : compare c v = Eq -> class_eqb (class_of c) (class_of v) = true.
Proof. intro H. apply compare_eq_rank in H. unfold class_eqb, R in *. apply Z.eqb_eq. exact H. Qed.

(* ---------------------------------------------------------------- *)
(* unfolding Match / Process / ProcessExpression *)

Lemma Match_nil d : Match d [] = Ok true.
Proof. reflexivity. Qed.

Lemma Match_cons d k x t : Match d ((k, x) :: t) = and_then (top_eval x k d) (Match d t).
Proof. reflexivity. Qed.

Lemma Match_single d k x : Match d [(k, x)] = top_eval x k d.
Proof. rewrite Match_cons, Match_nil. apply and_then_true_r. Qed.

(* a filter document is the (sequential) conjunction of its entries *)
Theorem implicit_and d f1 f2 :
  Match d (f1 ++ f2)%list = and_then (Match d f1) (Match d f2).
Proof.
  induction f1 as [|[k x] f1 IH]; simpl app.
  - reflexivity.
  - rewrite !Match_cons, IH, and_then_assoc. reflexivity.
Qed.

Lemma top_eval_field x k d : is_op k = false -> top_eval x k d = field_cond eval_op x d k.
Proof. intro H. destruct x; simpl; rewrite H; reflexivity. Qed.

Lemma ops_loop_cons ev k v t d p :
  ops_loop ev ((k, v) :: t) d p =
  if is_op k then and_then (ev v k d p) (ops_loop ev t d p) else Err.
Proof. reflexivity. Qed.

Lemma ops_loop_nil ev d p : ops_loop ev [] d p = Ok true.
Proof. reflexivity. Qed.

Lemma field_cond_ops ev k0 x0 rest d p :
  is_op k0 = true ->
  field_cond ev (VDoc ((k0, x0) :: rest)) d p = ops_loop ev ((k0, x0) :: rest) d p.
Proof. intro H. unfold field_cond. rewrite H. reflexivity. Qed.

(* {p: {$op: v}} *)
Lemma Match_single_op d p op v :
  is_op p = false -> is_op op = true ->
  Match d [(p, VDoc [(op, v)])] = eval_op v op d p.
Proof.
  intros Hp Hop. rewrite Match_single, top_eval_field by exact Hp.
  rewrite field_cond_ops by exact Hop.
  rewrite ops_loop_cons, Hop, ops_loop_nil. apply and_then_true_r.
Qed.

(* {p: {$op1: v1, $op2: v2, ...}} *)
Lemma Match_ops d p exps :
  is_op p = false -> exps <> [] -> forallb (fun e => is_op (fst e)) exps = true ->
  Match d [(p, VDoc exps)] = ops_loop eval_op exps d p.
Proof.
  intros Hp Hne Hall. rewrite Match_single, top_eval_field by exact Hp.
  destruct exps as [|[k0 x0] rest]; [congruence|].
  simpl in Hall. apply andb_prop in Hall. destruct Hall as [H0 _].
  apply field_cond_ops. exact H0.
Qed.

(* the body of the two recursive expression operators *)
Definition not_body (v : value) (d : doc) (path : string) : res bool :=
  match v with
  | VDoc [] => Err
  | VDoc query =>
      (fix loop (q : list (string * value)) : res bool :=
         match q with
         | [] => Ok false
         | (k, x) :: t =>
             match pexpr_nr eval_op x k d path with
             | Ok false => Ok true
             | Ok true => loop t
             | e => e
             end
         end) query
  | _ => Err
  end.

Definition elem_body (v : value) (d : doc) (path : string) : res bool :=
  match v with
  | VDoc [] => Ok false
  | VDoc query =>
      match fst (All d path true true) with
      | VArr array =>
          first_ok (fun item => process_nr eval_op query [("item", item)] "item") array (Ok false)
      | _ => Ok false
      end
  | _ => Err
  end.

Lemma eval_op_eq v op d path :
  eval_op v op d path =
  match lookup_expr op with
  | None => Err
  | Some f =>
      match f with
      | FComp => match_comp d op path v
      | FNe => negate (match_comp d "$eq" path v)
      | FIn => match_in d path v
      | FNin => negate (match_in d path v)
      | FExists => match_exists d path v
      | FType => match_type d path v
      | FAll => match_all d path v
      | FSize => match_size d path v
      | FBits => match_bits d op path v
      | FMod => match_mod d path v
      | FNot => not_body v d path
      | FElem => elem_body v d path
      end
  end.
Proof. destruct v; reflexivity. Qed.


(* ---------------------------------------------------------------- *)
(* $and / $or / $nor *)

(* one element of the array argument of $and/$or/$nor (matchAnd:88, matchOr:118) *)
Definition sub_filter (d : doc) (item : value) : res bool :=
  match item with VDoc q => Match d q | _ => Err end.

Definition and_all (d : doc) (items : list value) : res bool :=
  fold_right (fun item acc => and_then (sub_filter d item) acc) (Ok true) items.

Definition or_any (d : doc) (items : list value) : res bool :=
  fold_right (fun item acc => or_else (sub_filter d item) acc) (Ok false) items.

Lemma all_loop_eq d items :
  (fix all (l : list value) : res bool :=
     match l with
     | [] => Ok true
     | item :: t => and_then (sub_filter d item) (all t)
     end) items = and_all d items.
Proof. induction items as [|i items IH]; [reflexivity|]. simpl. rewrite IH. reflexivity. Qed.

Lemma top_and d items :
  top_eval (VArr items) "$and" d = match items with [] => Err | _ => and_all d items end.
Proof.
  destruct items as [|i0 items]; [reflexivity|].
  cbn -[and_then]. exact (all_loop_eq d (i0 :: items)).
Qed.

Lemma any_loop_eq d items :
  (fix any (l : list value) : res bool :=
     match l with
     | [] => Ok false
     | item :: t => or_else (sub_filter d item) (any t)
     end) items = or_any d items.
Proof. induction items as [|i items IH]; [reflexivity|]. simpl. rewrite IH. reflexivity. Qed.

Lemma top_or d items :
  top_eval (VArr items) "$or" d = match items with [] => Err | _ => or_any d items end.
Proof.
  destruct items as [|i0 items]; [reflexivity|].
  cbn -[or_else]. exact (any_loop_eq d (i0 :: items)).
Qed.

Lemma top_nor_or d v : top_eval v "$nor" d = negate (top_eval v "$or" d).
Proof. destruct v; reflexivity. Qed.

(* $nor is the exact negation of $or — for every argument, including the
   ill-typed ones (both sides are then Err) *)
Theorem nor_is_not_or d v :
  Match d [("$nor", v)] = negate (Match d [("$or", v)]).
Proof. rewrite !Match_single. apply top_nor_or. Qed.

Lemma and_all_map d l :
  and_all d (map VDoc l) = fold_right and_then (Ok true) (map (Match d) l).
Proof. induction l as [|f l IH]; [reflexivity|]. simpl. rewrite <- IH. reflexivity. Qed.

Lemma or_any_map d l :
  or_any d (map VDoc l) = fold_right or_else (Ok false) (map (Match d) l).
Proof. induction l as [|f l IH]; [reflexivity|]. simpl. rewrite <- IH. reflexivity. Qed.

(* $and is the sequential conjunction of its sub-filters: the first
   sub-filter that does not match (or errs) decides *)
Theorem and_is_conj d fs :
  fs <> [] ->
  Match d [("$and", VArr (map VDoc fs))] = fold_right and_then (Ok true) (map (Match d) fs).
Proof.
  intro Hne. rewrite Match_single, top_and, <- and_all_map.
  destruct fs as [|f0 fs]; [congruence|]. reflexivity.
Qed.

Theorem or_is_disj d fs :
  fs <> [] ->
  Match d [("$or", VArr (map VDoc fs))] = fold_right or_else (Ok false) (map (Match d) fs).
Proof.
  intro Hne. rewrite Match_single, top_or, <- or_any_map.
  destruct fs as [|f0 fs]; [congruence|]. reflexivity.
Qed.

(* two-valued readings *)
Lemma fold_and_true rs :
  fold_right and_then (Ok true) rs = Ok true <-> Forall (fun r => r = Ok true) rs.
Proof.
  induction rs as [|r rs IH]; simpl.
  - split; auto.
  - rewrite and_then_true_iff, IH. split.
    + intros [H1 H2]. constructor; assumption.
    + intro H. inversion H; auto.
Qed.

Lemma fold_and_ok (bs : list bool) :
  fold_right and_then (Ok true) (map Ok bs) = Ok (forallb (fun b => b) bs).
Proof.
  induction bs as [|b bs IH]; [reflexivity|]. simpl. rewrite IH. destruct b; reflexivity.
Qed.

Lemma fold_or_ok (bs : list bool) :
  fold_right or_else (Ok false) (map Ok bs) = Ok (existsb (fun b => b) bs).
Proof.
  induction bs as [|b bs IH]; [reflexivity|]. simpl. rewrite IH. destruct b; reflexivity.
Qed.

(* $and matches iff every sub-filter matches *)
Theorem and_true_iff d fs :
  fs <> [] ->
  (Match d [("$and", VArr (map VDoc fs))] = Ok true <-> Forall (fun f => Match d f = Ok true) fs).
Proof.
  intro Hne. rewrite (and_is_conj d fs Hne), fold_and_true, Forall_map. reflexivity.
Qed.

(* when no sub-filter errs: plain conjunction / disjunction of the truth values *)
Theorem and_is_conj_bool d fs bs :
  fs <> [] -> map (Match d) fs = map Ok bs ->
  Match d [("$and", VArr (map VDoc fs))] = Ok (forallb (fun b => b) bs).
Proof. intros Hne H. rewrite (and_is_conj d fs Hne), H. apply fold_and_ok. Qed.

Theorem or_is_disj_bool d fs bs :
  fs <> [] -> map (Match d) fs = map Ok bs ->
  Match d [("$or", VArr (map VDoc fs))] = Ok (existsb (fun b => b) bs).
Proof. intros Hne H. rewrite (or_is_disj d fs Hne), H. apply fold_or_ok. Qed.

(* ---------------------------------------------------------------- *)
(* $ne / $nin / $not are exact negations *)

Theorem ne_is_not_eq d p v :
  is_op p = false ->
  Match d [(p, VDoc [("$ne", v)])] = negate (Match d [(p, VDoc [("$eq", v)])]).
Proof.
  intro Hp. rewrite !Match_single_op by (exact Hp || reflexivity).
  rewrite !eval_op_eq. reflexivity.
Qed.

Theorem nin_is_not_in d p v :
  is_op p = false ->
  Match d [(p, VDoc [("$nin", v)])] = negate (Match d [(p, VDoc [("$in", v)])]).
Proof.
  intro Hp. rewrite !Match_single_op by (exact Hp || reflexivity).
  rewrite !eval_op_eq. reflexivity.
Qed.

Lemma not_loop_negates d p exps :
  forallb (fun e => is_op (fst e)) exps = true ->
  (fix loop (q : list (string * value)) : res bool :=
     match q with
     | [] => Ok false
     | (k, x) :: t =>
         match pexpr_nr eval_op x k d p with
         | Ok false => Ok true
         | Ok true => loop t
         | e => e
         end
     end) exps = negate (ops_loop eval_op exps d p).
Proof.
  induction exps as [|[k x] t IH]; intro Hall; [reflexivity|].
  simpl in Hall. apply andb_prop in Hall. destruct Hall as [Hk Ht].
  rewrite ops_loop_cons, Hk. unfold pexpr_nr at 1. rewrite Hk.
  rewrite (IH Ht).
  destruct (eval_op x k d p) as [[|]| | | |]; reflexivity.
Qed.

(* {p: {$not: {op1: v1, ...}}} is the exact negation of {p: {op1: v1, ...}}
   (all keys operators, at least one) *)
Theorem not_negates_ops d p exps :
  is_op p = false -> exps <> [] -> forallb (fun e => is_op (fst e)) exps = true ->
  Match d [(p, VDoc [("$not", VDoc exps)])] = negate (Match d [(p, VDoc exps)]).
Proof.
  intros Hp Hne Hall.
  rewrite (Match_ops d p exps Hp Hne Hall).
  rewrite Match_single_op by (exact Hp || reflexivity).
  rewrite eval_op_eq. cbn [lookup_expr assoc expr_table String.eqb Ascii.eqb Bool.eqb].
  destruct exps as [|e exps]; [congruence|].
  unfold not_body. apply (not_loop_negates d p (e :: exps) Hall).
Qed.

Theorem not_negates d p op v :
  is_op p = false -> is_op op = true ->
  Match d [(p, VDoc [("$not", VDoc [(op, v)])])] = negate (Match d [(p, VDoc [(op, v)])]).
Proof.
  intros Hp Hop. apply not_negates_ops; [exact Hp | discriminate |].
  simpl. rewrite Hop. reflexivity.
Qed.


(* ---------------------------------------------------------------- *)
(* matchUnwind with a two-valued callback is "some candidate satisfies it" *)

Lemma leaf_match_ok (f : value -> bool) op v :
  (forall c, op c = Ok (f c)) -> leaf_match op v = Ok (existsb f (leaf_candidates v)).
Proof.
  intro H. unfold leaf_match, leaf_candidates.
  destruct v; rewrite ?app_nil_l; cbn [existsb]; rewrite ?H, ?orb_false_r; try reflexivity.
  rewrite (first_ok_ok f) by exact H. rewrite existsb_app. cbn [existsb]. rewrite orb_false_r. reflexivity.
Qed.

Lemma existsb_flat_map {A B} (f : B -> bool) (g : A -> list B) (l : list A) :
  existsb f (flat_map g l) = existsb (fun a => existsb f (g a)) l.
Proof. induction l as [|a l IH]; [reflexivity|]. simpl. rewrite existsb_app, IH. reflexivity. Qed.

Lemma unwind_ok (f : value -> bool) d p ya op :
  (forall c, op c = Ok (f c)) ->
  unwind d p ya op = Ok (existsb f (unwind_candidates d p ya)).
Proof.
  intro H. unfold unwind, unwind_candidates.
  destruct (All d p true false) as [value multi].
  destruct multi; [|apply leaf_match_ok; exact H].
  assert (Hrest : (if ya then op value else Ok false) = Ok (existsb f (if ya then [value] else []))).
  { destruct ya; [rewrite H; simpl; rewrite orb_false_r|]; reflexivity. }
  rewrite Hrest, existsb_app.
  destruct value; cbn [existsb]; try reflexivity.
  rewrite (first_ok_ok (fun leaf => existsb f (leaf_candidates leaf)))
    by (intro c; apply leaf_match_ok; exact H).
  rewrite existsb_flat_map. reflexivity.
Qed.

Lemma is_true_ok b : is_true (Ok b) = b.
Proof. destruct b; reflexivity. Qed.

(* the truth value of a comparison operator on one candidate *)
Definition holds (op : string) (c v : value) : bool :=
  match cmp_holds op c v with Some b => b | None => false end.

Definition cmp_ops : list string := ["$eq"; "$gt"; "$gte"; "$lt"; "$lte"].

Lemma cmp_op_cases (P : string -> Prop) op :
  In op cmp_ops -> P "$eq" -> P "$gt" -> P "$gte" -> P "$lt" -> P "$lte" -> P op.
Proof.
  unfold cmp_ops. simpl. intros [H|[H|[H|[H|[H|[]]]]]]; subst; auto.
Qed.

(* {p: {$cmp: v}} holds iff it holds for one of the candidates: the value at
   the path, or (when that is an array) one of its elements; under fan-out the
   merged elements only *)
Theorem comparison_candidates d p op v :
  is_op p = false -> In op cmp_ops ->
  Match d [(p, VDoc [(op, v)])] = Ok (existsb (fun c => holds op c v) (candidates d p)).
Proof.
  intros Hp Hop. apply (cmp_op_cases (fun op =>
    Match d [(p, VDoc [(op, v)])] = Ok (existsb (fun c => holds op c v) (candidates d p))) op Hop);
    (rewrite Match_single_op by (exact Hp || reflexivity);
     rewrite eval_op_eq; cbn [lookup_expr assoc expr_table String.eqb Ascii.eqb Bool.eqb];
     unfold match_comp, candidates; apply unwind_ok; intro c; reflexivity).
Qed.

(* the default operator: {p: v} for a v that is not an operator document *)
Definition is_op_doc (v : value) : bool :=
  match v with VDoc ((k0, _) :: _) => is_op k0 | _ => false end.

Theorem literal_candidates d p v :
  is_op p = false -> is_op_doc v = false ->
  Match d [(p, v)] = Ok (existsb (fun c => holds "$eq" c v) (candidates d p)).
Proof.
  intros Hp Hv. rewrite Match_single, top_eval_field by exact Hp.
  assert (E : field_cond eval_op v d p = eval_op v "" d p).
  { unfold field_cond. destruct v as [| | | | | | |dd| | | | | | |]; try reflexivity.
    destruct dd as [|[k0 x0] rest]; [reflexivity|]. simpl in Hv. rewrite Hv. reflexivity. }
  rewrite E, eval_op_eq. cbn [lookup_expr assoc expr_table String.eqb Ascii.eqb Bool.eqb].
  unfold match_comp, candidates. apply unwind_ok. intro c. reflexivity.
Qed.

(* so {p: v} and {p: {$eq: v}} agree *)
Theorem literal_is_eq d p v :
  is_op p = false -> is_op_doc v = false ->
  Match d [(p, v)] = Match d [(p, VDoc [("$eq", v)])].
Proof.
  intros Hp Hv. rewrite (literal_candidates d p v Hp Hv).
  rewrite (comparison_candidates d p "$eq" v Hp) by (simpl; auto). reflexivity.
Qed.

(* a comparison never errs *)
Corollary comparison_never_errs d p op v :
  is_op p = false -> In op cmp_ops -> exists b, Match d [(p, VDoc [(op, v)])] = Ok b.
Proof. intros Hp Hop. rewrite (comparison_candidates d p op v Hp Hop). eauto. Qed.

(* ---------------------------------------------------------------- *)
(* type bracketing *)

Lemma holds_class op c v : holds op c v = true -> class_of c = class_of v.
Proof.
  unfold holds, cmp_holds. intro H. apply class_eqb_eq.
  repeat match type of H with
         | context [if ?b then _ else _] => destruct b
         end; try discriminate; apply andb_prop in H; tauto.
Qed.

(* a comparison can only hold against a candidate of the operand's class *)
Theorem bracketing d p op v :
  is_op p = false -> In op cmp_ops ->
  Match d [(p, VDoc [(op, v)])] = Ok true ->
  exists c, In c (candidates d p) /\ class_of c = class_of v /\ holds op c v = true.
Proof.
  intros Hp Hop H. rewrite (comparison_candidates d p op v Hp Hop) in H.
  injection H as H. apply existsb_exists in H. destruct H as [c [Hin Hc]].
  exists c. split; [exact Hin|]. split; [exact (holds_class _ _ _ Hc) | exact Hc].
Qed.

(* ---------------------------------------------------------------- *)
(* a comparison on an array field holds iff it holds for the array or an element *)

Theorem array_or_element d p op v arr :
  is_op p = false -> In op cmp_ops ->
  All d p true false = (VArr arr, false) ->
  Match d [(p, VDoc [(op, v)])] =
  Ok (holds op (VArr arr) v || existsb (fun e => holds op e v) arr).
Proof.
  intros Hp Hop HA. rewrite (comparison_candidates d p op v Hp Hop).
  unfold candidates, unwind_candidates, leaf_candidates. rewrite HA.
  rewrite existsb_app. simpl. rewrite orb_false_r, orb_comm. reflexivity.
Qed.

(* under fan-out every value found is treated like a directly addressed field *)
Theorem fanout_leaves d p op v leaves :
  is_op p = false -> In op cmp_ops ->
  All d p true false = (VArr leaves, true) ->
  Match d [(p, VDoc [(op, v)])] =
  Ok (existsb (fun leaf => existsb (fun c => holds op c v) (leaf_candidates leaf)) leaves).
Proof.
  intros Hp Hop HA. rewrite (comparison_candidates d p op v Hp Hop).
  unfold candidates, unwind_candidates. rewrite HA, app_nil_r, existsb_flat_map. reflexivity.
Qed.

(* and a non-array field is compared as it is *)
Theorem scalar_field d p op v x :
  is_op p = false -> In op cmp_ops ->
  All d p true false = (x, false) -> (forall a, x <> VArr a) ->
  Match d [(p, VDoc [(op, v)])] = Ok (holds op x v).
Proof.
  intros Hp Hop HA Hx. rewrite (comparison_candidates d p op v Hp Hop).
  unfold candidates, unwind_candidates, leaf_candidates. rewrite HA.
  destruct x; simpl; rewrite ?orb_false_r; try reflexivity. exfalso. eapply Hx. reflexivity.
Qed.

(* ---------------------------------------------------------------- *)
(* $gte is $gt-or-$eq, $lte is $lt-or-$eq *)

Theorem gte_is_gt_or_eq d p v :
  is_op p = false ->
  Match d [(p, VDoc [("$gte", v)])] =
  Ok (is_true (Match d [(p, VDoc [("$gt", v)])]) || is_true (Match d [(p, VDoc [("$eq", v)])])).
Proof.
  intro Hp. rewrite !(comparison_candidates d p _ v Hp) by (simpl; auto 10).
  rewrite !is_true_ok.
  rewrite <- existsb_orb. f_equal. apply existsb_ext_in. intros c _.
  unfold holds, cmp_holds. simpl.
  destruct (class_eqb (class_of c) (class_of v)), (compare c v); reflexivity.
Qed.

Theorem lte_is_lt_or_eq d p v :
  is_op p = false ->
  Match d [(p, VDoc [("$lte", v)])] =
  Ok (is_true (Match d [(p, VDoc [("$lt", v)])]) || is_true (Match d [(p, VDoc [("$eq", v)])])).
Proof.
  intro Hp. rewrite !(comparison_candidates d p _ v Hp) by (simpl; auto 10).
  rewrite !is_true_ok.
  rewrite <- existsb_orb. f_equal. apply existsb_ext_in. intros c _.
  unfold holds, cmp_holds. simpl.
  destruct (class_eqb (class_of c) (class_of v)), (compare c v); reflexivity.
Qed.

(* ---------------------------------------------------------------- *)
(* $in is the disjunction of the equalities *)

Lemma holds_eq_compare c v : holds "$eq" c v = is_eq (compare c v).
Proof.
  unfold holds, cmp_holds. simpl.
  destruct (compare c v) eqn:E; simpl; rewrite ?andb_false_r; try reflexivity.
  rewrite (compare_eq_class c v E). reflexivity.
Qed.

(* Caveats carried by the code: the elements of the $in array are compared
   with bsonkit.Compare only (a regular-expression element is an ordinary
   value, match.go:219 TODO); the argument must be an array — a non-array
   argument is reported as an error only when a candidate is visited. *)
Theorem in_is_disj_eq d p vs :
  is_op p = false ->
  Match d [(p, VDoc [("$in", VArr vs)])] =
  Ok (existsb (fun v => is_true (Match d [(p, VDoc [("$eq", v)])])) vs).
Proof.
  intro Hp. rewrite Match_single_op by (exact Hp || reflexivity).
  rewrite eval_op_eq. cbn [lookup_expr assoc expr_table String.eqb Ascii.eqb Bool.eqb].
  unfold match_in.
  rewrite (unwind_ok (fun c => existsb (fun item => is_eq (compare c item)) vs))
    by (intro c; reflexivity).
  fold (candidates d p). rewrite existsb_swap. f_equal.
  apply existsb_ext_in. intros v _.
  rewrite (comparison_candidates d p "$eq" v Hp) by (simpl; auto).
  rewrite is_true_ok. apply existsb_ext_in. intros c _. symmetry. apply holds_eq_compare.
Qed.

Theorem nin_is_no_eq d p vs :
  is_op p = false ->
  Match d [(p, VDoc [("$nin", VArr vs)])] =
  Ok (negb (existsb (fun v => is_true (Match d [(p, VDoc [("$eq", v)])])) vs)).
Proof. intro Hp. rewrite (nin_is_not_in d p _ Hp), (in_is_disj_eq d p vs Hp). reflexivity. Qed.

(* ---------------------------------------------------------------- *)
(* C19: {f: {$lt: date}} selects exactly the documents holding an earlier date *)

Lemma holds_lt_date c t :
  holds "$lt" c (VDate t) = true <-> exists u, c = VDate u /\ (u < t)%Z.
Proof.
  unfold holds, cmp_holds. simpl. split.
  - intro H. apply andb_prop in H. destruct H as [Hc Hl].
    apply class_eqb_eq in Hc.
    destruct c; try discriminate Hc.
    exists ms. split; [reflexivity|].
    simpl in Hl. destruct (ms ?= t)%Z eqn:E; try discriminate. exact E.
  - intros [u [-> Hu]]. simpl. change (u ?= t = Lt)%Z in Hu. rewrite Hu. reflexivity.
Qed.

Theorem lt_date_brackets d f t :
  is_op f = false ->
  (Match d [(f, VDoc [("$lt", VDate t)])] = Ok true <->
   exists c, In c (candidates d f) /\ exists u, c = VDate u /\ (u < t)%Z).
Proof.
  intro Hf. rewrite (comparison_candidates d f "$lt" (VDate t) Hf) by (simpl; auto).
  split.
  - intro H. injection H as H. apply existsb_exists in H. destruct H as [c [Hin Hc]].
    exists c. split; [exact Hin|]. apply holds_lt_date. exact Hc.
  - intros [c [Hin Hc]]. f_equal. apply existsb_exists. exists c. split; [exact Hin|].
    apply holds_lt_date. exact Hc.
Qed.

(* numbers, strings, null and missing fields never match a $lt-date condition *)
Corollary lt_date_only_dates d f t :
  is_op f = false ->
  (forall c, In c (candidates d f) -> forall u, c <> VDate u) ->
  Match d [(f, VDoc [("$lt", VDate t)])] = Ok false.
Proof.
  intros Hf Hno.
  destruct (comparison_never_errs d f "$lt" (VDate t) Hf) as [b Hb]; [simpl; auto|].
  destruct b; [|exact Hb]. exfalso.
  apply (lt_date_brackets d f t Hf) in Hb. destruct Hb as [c [Hin [u [Hc _]]]].
  exact (Hno c Hin u Hc).
Qed.
