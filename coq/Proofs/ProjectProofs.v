(* ProjectProofs.v — proofs about the model of mongokit.Project
   (Model/Project.v), for every matcher `matchf`.

   Domain of the path-level statements: projection keys that are KEY PATHS
   (Proofs/KeyPaths.v): dotted paths whose segments are non-empty and not
   numbers, i.e. paths that descend through embedded documents.  An array on
   such a path makes it Missing (Get returns Missing, Put fails, Unset does
   nothing): lungo does not project into the elements of an array of
   sub-documents.  Documents: no repeated field names (nodup_keys) where
   stated. *)
From Coq Require Import List ZArith Lia String Ascii Bool.
From Lungo.Model Require Import Access Project.
From Lungo.Proofs Require Import KeyPaths KeyPathLaws SliceWindow.
Import ListNotations.
Open Scope string_scope.
Open Scope list_scope.

(* ---------------------------------------------------------------- *)
(* small facts *)

Lemma bind_ok {A B} (r : res A) (f : A -> res B) y :
  bind r f = Ok y -> exists x, r = Ok x /\ f x = Ok y.
Proof. destruct r; cbn [bind]; try discriminate. eauto. Qed.

Lemma is_missing_false_iff v : is_missing v = false <-> v <> VMissing.
Proof. destruct v; cbn [is_missing]; split; congruence. Qed.

Definition root (ps : string) : string := hd "" (split_path ps).

(* entries that are not operator-bearing *)
Definition plain_entry (e : string * value) : bool := negb (operator_entry e).

(* ---------------------------------------------------------------- *)
(* Put / Unset on key paths, in the form used below *)

Lemma Put_kpath_ok d ps nv old d' :
  kpath_str ps = true -> is_missing nv = false ->
  Put d ps nv false = Ok (old, d') ->
  dset (VDoc d) (split_path ps) nv = Some (VDoc d').
Proof.
  intros Hp Hnv H. pose proof (Put_kpath d ps nv Hp Hnv) as HP.
  destruct (dset (VDoc d) (split_path ps) nv) as [v'|] eqn:E.
  - destruct (split_path ps) as [|k rest] eqn:Es; [exfalso; exact (split_path_nonempty ps Es)|].
    destruct (dset_doc _ _ _ _ _ E) as [d'' Hd'']. subst v'.
    destruct HP as [old' HP]. rewrite HP in H. inversion H. reflexivity.
  - rewrite HP in H. discriminate.
Qed.

Lemma Unset_kpath_doc d ps :
  kpath_str ps = true -> ddel (VDoc d) (split_path ps) = VDoc (snd (Unset d ps)).
Proof. intro H. symmetry. apply Unset_kpath. exact H. Qed.

Lemma dset_missing s nv : dset VMissing s nv = Some (mk_path s nv).
Proof. destruct s; reflexivity. Qed.

Lemma dget_mk_path_app q s nv : dget (mk_path (q ++ s) nv) q = mk_path s nv.
Proof.
  induction q as [|k q IH]; [reflexivity|].
  cbn [app mk_path dget lookup]. rewrite String.eqb_refl. exact IH.
Qed.

(* a read above the written path sees the old value with the write applied *)
Lemma dget_dset_over v q s nv v' :
  dset v (q ++ s) nv = Some v' ->
  exists x, dset (dget v q) s nv = Some x /\ dget v' q = x.
Proof.
  revert v v'. induction q as [|k q IH]; intros v v' H.
  - cbn [app dget] in *. eauto.
  - cbn [app dset] in H. destruct v; try discriminate.
    + inversion H. subst. cbn [dget lookup]. rewrite String.eqb_refl, dset_missing.
      eexists. split; [reflexivity|]. apply dget_mk_path_app.
    + cbn [dget]. destruct (lookup d k) as [y|] eqn:El.
      * destruct (dset y (q ++ s) nv) as [y'|] eqn:Ey; [|discriminate].
        inversion H. subst. rewrite (lookup_replace_same _ _ _ _ El).
        exact (IH _ _ Ey).
      * inversion H. subst. rewrite (lookup_app_new_same _ _ _ El), dset_missing.
        eexists. split; [reflexivity|]. apply dget_mk_path_app.
Qed.

Lemma prefix_cases p q :
  (exists s, q = p ++ s) \/ (exists s, p = q ++ s) \/ unrelated p q.
Proof.
  destruct (is_prefix p q) eqn:E1; [left; apply is_prefix_app; exact E1|].
  destruct (is_prefix q p) eqn:E2; [right; left; apply is_prefix_app; exact E2|].
  right; right. split; assumption.
Qed.

(* copying the stored value at p keeps every path that already agrees with
   the stored document in agreement *)
Lemma agree_dset r d p q r' :
  dset r p (dget d p) = Some r' -> is_missing (dget d p) = false ->
  dget r q = dget d q -> dget r' q = dget d q.
Proof.
  intros H Hm Ha. destruct (prefix_cases p q) as [[s Hs]|[[s Hs]|Hu]].
  - subst q. rewrite (dget_dset_under _ _ _ _ s H), dget_app. reflexivity.
  - subst p. destruct (dget_dset_over _ _ _ _ _ H) as [x [Hx Hg]].
    rewrite Hg. rewrite Ha, dget_app in Hx.
    rewrite dset_same_id in Hx; [inversion Hx; reflexivity|reflexivity|].
    rewrite <- dget_app. exact Hm.
  - rewrite (dget_dset_unrelated _ _ _ _ _ H Hu). exact Ha.
Qed.

(* ---------------------------------------------------------------- *)
(* the inclusion loop (project.go:80-94) *)

Definition all_kpaths (l : list string) : Prop := forall p, In p l -> kpath_str p = true.

Lemma copy_included_step d skip path t r r1 :
  copy_included d skip (path :: t) r = Ok r1 ->
  (str_mem path skip = true \/ is_missing (Get d path) = true) /\ copy_included d skip t r = Ok r1
  \/ exists old r', str_mem path skip = false /\ is_missing (Get d path) = false /\
                     Put r path (Get d path) false = Ok (old, r') /\ copy_included d skip t r' = Ok r1.
Proof.
  cbn [copy_included]. destruct (str_mem path skip); [left; tauto|].
  destruct (is_missing (Get d path)); [left; tauto|].
  intro H. apply bind_ok in H. destruct H as [[old r'] [HP H]].
  right. exists old, r'. tauto.
Qed.

(* paths on which the result agrees with the stored document stay so *)
Lemma copy_included_agree d skip paths r r1 q :
  all_kpaths paths -> copy_included d skip paths r = Ok r1 ->
  dget (VDoc r) q = dget (VDoc d) q -> dget (VDoc r1) q = dget (VDoc d) q.
Proof.
  revert r. induction paths as [|path t IH]; intros r Hk H Ha.
  - cbn [copy_included] in H. inversion H. subst. exact Ha.
  - assert (Hkt : all_kpaths t) by (intros p Hp; apply Hk; right; exact Hp).
    destruct (copy_included_step _ _ _ _ _ _ H) as [[_ H']|[old [r' [_ [Hm [HP H']]]]]].
    + exact (IH r Hkt H' Ha).
    + apply (IH r' Hkt H').
      pose proof (Hk path (or_introl eq_refl)) as Hkp.
      pose proof (Put_kpath_ok _ _ _ _ _ Hkp Hm HP) as Hd.
      rewrite (Get_kpath d path Hkp) in Hd, Hm.
      exact (agree_dset _ _ _ _ _ Hd Hm Ha).
Qed.

(* every included path that is not skipped holds the stored value; for a path
   the source does not have this needs the starting document not to have it
   either *)
Lemma copy_included_get d skip paths r r1 path :
  all_kpaths paths -> copy_included d skip paths r = Ok r1 ->
  In path paths -> str_mem path skip = false ->
  (is_missing (Get d path) = true ->
   dget (VDoc r) (split_path path) = dget (VDoc d) (split_path path)) ->
  Get r1 path = Get d path.
Proof.
  revert r. induction paths as [|p0 t IH]; intros r Hk H Hin Hs Hr; [destruct Hin|].
  assert (Hkt : all_kpaths t) by (intros p Hp; apply Hk; right; exact Hp).
  pose proof (Hk path Hin) as Hkp.
  pose proof (Hk p0 (or_introl eq_refl)) as Hk0.
  destruct (copy_included_step _ _ _ _ _ _ H) as [[Hc H']|[old [r' [_ [Hm [HP H']]]]]].
  - (* p0 not copied *)
    destruct Hin as [E|Hin].
    + subst p0. destruct Hc as [Hsk|Hm]; [congruence|].
      rewrite (Get_kpath r1 path Hkp), (Get_kpath d path Hkp).
      exact (copy_included_agree d skip t r r1 _ Hkt H' (Hr Hm)).
    + exact (IH r Hkt H' Hin Hs Hr).
  - (* p0 copied *)
    pose proof (Put_kpath_ok _ _ _ _ _ Hk0 Hm HP) as Hd.
    rewrite (Get_kpath d p0 Hk0) in Hd, Hm.
    destruct Hin as [E|Hin].
    + subst p0. rewrite (Get_kpath r1 path Hkp), (Get_kpath d path Hkp).
      apply (copy_included_agree d skip t r' r1 _ Hkt H').
      exact (dget_dset_same _ _ _ _ Hd).
    + apply (IH r' Hkt H' Hin Hs). intro Hmp.
      exact (agree_dset _ _ _ _ _ Hd Hm (Hr Hmp)).
Qed.

(* containment in the stored document is kept *)
Lemma copy_included_sub d skip paths r r1 :
  all_kpaths paths -> copy_included d skip paths r = Ok r1 ->
  sub (VDoc r) (VDoc d) -> sub (VDoc r1) (VDoc d).
Proof.
  revert r. induction paths as [|p0 t IH]; intros r Hk H Hs.
  - cbn [copy_included] in H. inversion H. subst. exact Hs.
  - assert (Hkt : all_kpaths t) by (intros p Hp; apply Hk; right; exact Hp).
    pose proof (Hk p0 (or_introl eq_refl)) as Hk0.
    destruct (copy_included_step _ _ _ _ _ _ H) as [[_ H']|[old [r' [_ [Hm [HP H']]]]]].
    + exact (IH r Hkt H' Hs).
    + apply (IH r' Hkt H').
      pose proof (Put_kpath_ok _ _ _ _ _ Hk0 Hm HP) as Hd.
      rewrite (Get_kpath d p0 Hk0) in Hd, Hm.
      exact (sub_dset _ _ _ _ Hs Hm Hd).
Qed.

(* top-level field names: new names are appended in the order of the copies *)
Fixpoint add_keys (ks : list string) (l : list string) : list string :=
  match l with
  | [] => ks
  | k :: t => add_keys (if str_mem k ks then ks else ks ++ [k]) t
  end.

Lemma has_key_str_mem k d : has_key k d = str_mem k (map fst d).
Proof.
  induction d as [|[k' y] d IH]; [reflexivity|].
  cbn [has_key map fst str_mem]. rewrite IH. reflexivity.
Qed.

Definition copied (d : doc) (skip : list string) (p : string) : bool :=
  negb (str_mem p skip) && negb (is_missing (Get d p)).

Lemma root_split ps : exists rest, split_path ps = root ps :: rest.
Proof.
  unfold root. destruct (split_path ps) as [|k rest] eqn:E.
  - exfalso. exact (split_path_nonempty ps E).
  - exists rest. reflexivity.
Qed.

Lemma copy_included_keys d skip paths r r1 :
  all_kpaths paths -> copy_included d skip paths r = Ok r1 ->
  map fst r1 = add_keys (map fst r) (map root (filter (copied d skip) paths)).
Proof.
  revert r. induction paths as [|p0 t IH]; intros r Hk H.
  - cbn [copy_included] in H. inversion H. reflexivity.
  - assert (Hkt : all_kpaths t) by (intros p Hp; apply Hk; right; exact Hp).
    pose proof (Hk p0 (or_introl eq_refl)) as Hk0.
    cbn [filter]. unfold copied at 1.
    destruct (copy_included_step _ _ _ _ _ _ H) as [[Hc H']|[old [r' [Hs [Hm [HP H']]]]]].
    + assert (E : negb (str_mem p0 skip) && negb (is_missing (Get d p0)) = false).
      { destruct Hc as [Hc|Hc]; rewrite Hc; [reflexivity|apply andb_false_r]. }
      rewrite E. exact (IH r Hkt H').
    + rewrite Hs, Hm. cbn [negb andb map add_keys].
      rewrite (IH r' Hkt H'). f_equal.
      pose proof (Put_kpath_ok _ _ _ _ _ Hk0 Hm HP) as Hd.
      destruct (root_split p0) as [rest Hr]. rewrite Hr in Hd.
      rewrite (dset_top_keys _ _ _ _ _ Hd), has_key_str_mem. reflexivity.
Qed.

Lemma add_keys_in ks l k : In k (add_keys ks l) -> In k ks \/ In k l.
Proof.
  revert ks. induction l as [|x t IH]; intros ks H; cbn [add_keys] in H; [tauto|].
  destruct (IH _ H) as [H1|H1]; [|right; right; exact H1].
  destruct (str_mem x ks); [tauto|].
  apply in_app_or in H1. destruct H1 as [H1|[H1|[]]]; [tauto|]. subst. right. left. reflexivity.
Qed.

Lemma NoDup_snoc {A} (l : list A) x : NoDup l -> ~ In x l -> NoDup (l ++ [x]).
Proof.
  induction l as [|y l IH]; intros H Hn; cbn [app].
  - constructor; [tauto|constructor].
  - inversion H as [|? ? Hy Hl]. subst. constructor.
    + intro Hin. apply in_app_or in Hin. destruct Hin as [Hin|[Hin|[]]]; [tauto|].
      subst. apply Hn. left. reflexivity.
    + apply IH; [exact Hl|]. intro Hin. apply Hn. right. exact Hin.
Qed.

Lemma add_keys_nodup ks l : NoDup ks -> NoDup (add_keys ks l).
Proof.
  revert ks. induction l as [|x t IH]; intros ks H; cbn [add_keys]; [exact H|].
  apply IH. destruct (str_mem x ks) eqn:E; [exact H|].
  apply NoDup_snoc; [exact H|].
  intro Hin. apply str_mem_in in Hin. congruence.
Qed.

(* ---------------------------------------------------------------- *)
(* the exclusion loop (project.go:101-103) *)

Lemma apply_exclusions_fold paths r :
  all_kpaths paths ->
  VDoc (apply_exclusions paths r) = fold_left (fun v p => ddel v (split_path p)) paths (VDoc r).
Proof.
  revert r. induction paths as [|p0 t IH]; intros r Hk; [reflexivity|].
  cbn [apply_exclusions fold_left].
  rewrite (Unset_kpath_doc r p0 (Hk p0 (or_introl eq_refl))).
  apply IH. intros p Hp. apply Hk. right. exact Hp.
Qed.

Lemma dget_ddel_missing v p q :
  nodup_keys v = true -> dget v q = VMissing -> dget (ddel v p) q = VMissing.
Proof.
  revert v q. induction p as [|k rest IH]; intros v q Hn Hq; [exact Hq|].
  destruct v; try (destruct rest; exact Hq).
  destruct q as [|k' q]; [discriminate|].
  destruct rest as [|k2 r2].
  - rewrite ddel_last. cbn [dget] in *. destruct (String.eqb k k') eqn:E.
    + apply String.eqb_eq in E. subst k'.
      rewrite lookup_remove_same; [reflexivity|exact (proj1 (nodup_keys_doc d Hn))].
    + apply String.eqb_neq in E. rewrite lookup_remove_other by congruence. exact Hq.
  - rewrite ddel_cons2. destruct (lookup d k) as [x|] eqn:El; [|exact Hq].
    cbn [dget] in *. destruct (String.eqb k k') eqn:E.
    + apply String.eqb_eq in E. subst k'. rewrite El in Hq.
      rewrite (lookup_replace_same _ _ _ _ El).
      exact (IH _ _ (nodup_keys_lookup _ _ _ Hn El) Hq).
    + apply String.eqb_neq in E. rewrite lookup_replace_other by congruence. exact Hq.
Qed.

Definition ddel_all (paths : list string) (v : value) : value :=
  fold_left (fun v p => ddel v (split_path p)) paths v.

Lemma ddel_all_nodup paths v : nodup_keys v = true -> nodup_keys (ddel_all paths v) = true.
Proof.
  revert v. induction paths as [|p0 t IH]; intros v H; [exact H|].
  cbn [ddel_all fold_left]. apply IH. apply nodup_keys_ddel. exact H.
Qed.

Lemma ddel_all_missing paths v q :
  nodup_keys v = true -> dget v q = VMissing -> dget (ddel_all paths v) q = VMissing.
Proof.
  revert v. induction paths as [|p0 t IH]; intros v Hn Hq; [exact Hq|].
  cbn [ddel_all fold_left]. apply IH; [apply nodup_keys_ddel; exact Hn|].
  apply dget_ddel_missing; assumption.
Qed.

(* an excluded path, and everything below it, is absent *)
Lemma ddel_all_excluded paths v p s :
  nodup_keys v = true -> In p paths -> dget (ddel_all paths v) (split_path p ++ s) = VMissing.
Proof.
  revert v. induction paths as [|p0 t IH]; intros v Hn Hin; [destruct Hin|].
  cbn [ddel_all fold_left]. destruct Hin as [E|Hin].
  - subst p0. apply ddel_all_missing; [apply nodup_keys_ddel; exact Hn|].
    apply dget_ddel_under; [apply split_path_nonempty|exact Hn].
  - apply IH; [apply nodup_keys_ddel; exact Hn|exact Hin].
Qed.

(* a path unrelated to every excluded path is untouched *)
Lemma ddel_all_unrelated paths v q :
  (forall p, In p paths -> unrelated (split_path p) q) -> dget (ddel_all paths v) q = dget v q.
Proof.
  revert v. induction paths as [|p0 t IH]; intros v Hu; [reflexivity|].
  cbn [ddel_all fold_left]. rewrite IH by (intros p Hp; apply Hu; right; exact Hp).
  apply dget_ddel_unrelated. apply Hu. left. reflexivity.
Qed.

Lemma ddel_all_pruned paths v w : pruned v w -> pruned (ddel_all paths v) w.
Proof.
  revert v. induction paths as [|p0 t IH]; intros v H; [exact H|].
  cbn [ddel_all fold_left]. apply IH. apply pruned_ddel. exact H.
Qed.

(* pruned implies contained, for documents without repeated field names *)
Lemma pruned_fields_in r d k v :
  pruned_fields r d -> In (k, v) r -> exists v', In (k, v') d /\ pruned v v'.
Proof.
  induction 1 as [|k0 v0 r d H IH|k0 v0 v0' r d Hv H IH]; cbn [In]; [tauto| |].
  - intro Hin. destruct (IH Hin) as [v' [H1 H2]]. eauto.
  - intros [E|Hin].
    + inversion E. subst. eauto.
    + destruct (IH Hin) as [v' [H1 H2]]. eauto.
Qed.

Lemma value_ind_docs (P : value -> Prop) :
  (forall v, (forall d k x, v = VDoc d -> In (k, x) d -> P x) -> P v) -> forall v, P v.
Proof.
  intro H. fix IH 1. intro v. apply H.
  destruct v; intros d0 k x Hv Hin; try discriminate.
  injection Hv as <-.
  induction d as [|[k' y] d IHd]; [destruct Hin|].
  destruct Hin as [E|Hin].
  - injection E as _ <-. apply IH.
  - exact (IHd Hin).
Qed.

Lemma pruned_sub v : forall w, nodup_keys w = true -> pruned v w -> sub v w.
Proof.
  induction v as [v IHv] using value_ind_docs. intros w Hn Hp.
  inversion Hp as [|r d Hf]; subst; [apply sub_refl|].
  apply sub_doc. intros k x Hin.
  destruct (pruned_fields_in _ _ _ _ Hf Hin) as [x' [Hin' Hx]].
  destruct (nodup_keys_doc d Hn) as [Hnd Hall].
  exists x'. split; [apply in_lookup_nodup; assumption|].
  apply (IHv r k x eq_refl Hin); [exact (Hall _ _ Hin')|exact Hx].
Qed.

(* subsequences (order-preserving sub-lists) *)
Inductive subseq {A : Type} : list A -> list A -> Prop :=
| ss_nil : subseq [] []
| ss_drop x l1 l2 : subseq l1 l2 -> subseq l1 (x :: l2)
| ss_keep x l1 l2 : subseq l1 l2 -> subseq (x :: l1) (x :: l2).

Lemma pruned_fields_keys r d : pruned_fields r d -> subseq (map fst r) (map fst d).
Proof.
  induction 1 as [|k v r d H IH|k v v' r d Hv H IH]; cbn [map fst].
  - constructor.
  - apply ss_drop. exact IH.
  - apply ss_keep. exact IH.
Qed.

Section WithMatch.
  Variable matchf : doc -> doc -> res bool.

  Notation pctx := (projection_context matchf).
  Notation Proj := (project_with matchf).

  (* -------------------------------------------------------------- *)
  (* Process on the entries of a projection *)

  Lemma pe_plain st d k v :
    is_operator_key k = false -> operator_entry (k, v) = false ->
    process_expression pctx st d "" (k, v) true = project_condition st d "" k v.
  Proof.
    intros Hk Ho. unfold process_expression. rewrite Hk. cbn [join_prefix String.eqb].
    unfold operator_entry in Ho. cbn [snd] in Ho.
    destruct v; try reflexivity.
    destruct d0 as [|[k0 v0] t]; [reflexivity|]. rewrite Ho. reflexivity.
  Qed.

  Lemma pe_root_operator st d k v :
    is_operator_key k = true -> process_expression pctx st d "" (k, v) true = Err.
  Proof. intro Hk. unfold process_expression. rewrite Hk. reflexivity. Qed.

  (* what a plain entry can do to the state *)
  Inductive plain_step (st : pstate) (k : string) (v : value) : pstate -> Prop :=
  | ps_incl : condition_value v = Ok true -> plain_step st k v (add_include st k)
  | ps_hide : condition_value v = Ok false -> k = "_id" -> plain_step st k v (set_hide_id st)
  | ps_excl : condition_value v = Ok false -> k <> "_id" -> plain_step st k v (add_exclude st k).

  Lemma project_condition_ok st d o k v st' :
    project_condition st d o k v = Ok st' -> plain_step st k v st'.
  Proof.
    unfold project_condition. intro H. apply bind_ok in H. destruct H as [b [Hb H]].
    destruct b.
    - inversion H. apply ps_incl. exact Hb.
    - destruct (String.eqb k "_id") eqn:E; inversion H.
      + apply String.eqb_eq in E. apply ps_hide; assumption.
      + apply String.eqb_neq in E. apply ps_excl; assumption.
  Qed.

  Lemma pe_plain_ok st d k v st' :
    operator_entry (k, v) = false ->
    process_expression pctx st d "" (k, v) true = Ok st' -> plain_step st k v st'.
  Proof.
    intros Ho H. destruct (is_operator_key k) eqn:Hk.
    - rewrite pe_root_operator in H by exact Hk. discriminate.
    - rewrite pe_plain in H by assumption. eapply project_condition_ok. exact H.
  Qed.

  (* a single-operator entry *)
  Lemma pe_single_op st d k o x :
    is_operator_key k = false -> is_operator_key o = true ->
    process_expression pctx st d "" (k, VDoc [(o, x)]) true =
    match op_lookup pstate (ctx_expression pctx) o with
    | Some op => op st d o k x
    | None => Err
    end.
  Proof.
    intros Hk Ho. unfold process_expression. rewrite Hk, Ho. cbn [join_prefix String.eqb process_ops].
    rewrite Ho. cbn [negb].
    destruct (op_lookup pstate (ctx_expression pctx) o) as [op|]; [|reflexivity].
    destruct (op st d o k x); reflexivity.
  Qed.

  (* -------------------------------------------------------------- *)
  (* what the operators do to the state *)

  Lemma in_merge_set m k w q v : In (q, v) (merge_set m k w) -> In (q, v) m \/ q = k.
  Proof.
    induction m as [|[k' v'] m IH]; cbn [merge_set In].
    - intros [H|[]]. inversion H. right. reflexivity.
    - destruct (String.eqb k' k) eqn:E; cbn [In].
      + apply String.eqb_eq in E. subst k'. intros [H|H]; [inversion H; right; reflexivity|tauto].
      + intros [H|H]; [tauto|]. destruct (IH H); tauto.
  Qed.

  Lemma project_slice_ok st d o k x st' :
    project_slice st d o k x = Ok st' -> st' = st \/ exists w, st' = set_merge st k (VArr w).
  Proof.
    unfold project_slice. intro H. apply bind_ok in H. destruct H as [[[sk lim] hs] [_ H]].
    destruct (Get d k); try (inversion H; left; reflexivity).
    destruct (max_slice_len <=? len a)%Z; [discriminate|].
    apply bind_ok in H. destruct H as [w [_ H]]. inversion H. right. eauto.
  Qed.

  Lemma project_elem_match_ok st d o k x st' :
    project_elem_match matchf st d o k x = Ok st' ->
    st' = add_skip (add_include st k) k \/
    exists item, st' = set_merge (add_skip (add_include st k) k) k (VArr [item]).
  Proof.
    unfold project_elem_match. destruct x; try discriminate.
    destruct (Get d k); try (intro H; inversion H; left; reflexivity).
    intro H. apply bind_ok in H. destruct H as [[item|] [_ H]]; inversion H; eauto.
  Qed.

  (* the state after the operators of one entry with key k; em: one of them
     was $elemMatch *)
  Record grows (k : string) (em : bool) (st st' : pstate) : Prop := {
    g_excl : ps_exclude st' = ps_exclude st;
    g_hide : ps_hide_id st' = ps_hide_id st;
    g_incl : exists n, ps_include st' = ps_include st ++ repeat k n /\
                       (n <> 0%nat -> In k (ps_skip st') /\ em = true);
    g_skip : forall p, In p (ps_skip st) -> In p (ps_skip st');
    g_merge : forall q v, In (q, v) (ps_merge st') -> (exists v0, In (q, v0) (ps_merge st)) \/ q = k
  }.

  Lemma grows_refl k em st : grows k em st st.
  Proof.
    constructor; try reflexivity; try tauto.
    - exists 0%nat. cbn [repeat]. rewrite app_nil_r. split; [reflexivity|congruence].
    - intros q v H. left. eauto.
  Qed.

  Lemma grows_trans k em1 em2 st st1 st2 :
    grows k em1 st st1 -> grows k em2 st1 st2 -> grows k (em1 || em2) st st2.
  Proof.
    intros [a1 b1 [n1 [c1 c1']] d1 e1] [a2 b2 [n2 [c2 c2']] d2 e2]. constructor.
    - congruence.
    - congruence.
    - exists (n1 + n2)%nat. split.
      + rewrite c2, c1, repeat_app, app_assoc. reflexivity.
      + intro Hn. destruct n2 as [|n2].
        * assert (Hn1 : n1 <> 0%nat) by lia. destruct (c1' Hn1) as [Hs He].
          split; [apply d2; exact Hs|]. rewrite He. reflexivity.
        * destruct (c2' (Nat.neq_succ_0 n2)) as [Hs He].
          split; [exact Hs|]. rewrite He. apply orb_true_r.
    - auto.
    - intros q v H. destruct (e2 q v H) as [[v0 H0]|H0]; [|tauto]. exact (e1 q v0 H0).
  Qed.

  Lemma grows_set_merge k em st w : grows k em st (set_merge st k w).
  Proof.
    constructor; cbn [set_merge ps_exclude ps_hide_id ps_include ps_skip ps_merge]; try reflexivity; try tauto.
    - exists 0%nat. cbn [repeat]. rewrite app_nil_r. split; [reflexivity|congruence].
    - intros q v H. destruct (in_merge_set _ _ _ _ _ H); [left; eauto|tauto].
  Qed.

  Lemma in_add_skip st k : In k (ps_skip (add_skip st k)).
  Proof.
    cbn [add_skip ps_skip]. destruct (str_mem k (ps_skip st)) eqn:E.
    - apply str_mem_in. exact E.
    - apply in_or_app. right. left. reflexivity.
  Qed.

  Lemma grows_elem k st : grows k true st (add_skip (add_include st k) k).
  Proof.
    constructor; try reflexivity.
    - exists 1%nat. split; [reflexivity|]. intros _. split; [apply in_add_skip|reflexivity].
    - intros p H. cbn [add_skip add_include ps_skip].
      destruct (str_mem k (ps_skip st)); [exact H|apply in_or_app; left; exact H].
    - intros q v H. left. eauto.
  Qed.

  Lemma grows_weaken k em st st' : grows k em st st' -> grows k true st st'.
  Proof.
    intros [a b [n [c c']] d e]. constructor; try assumption.
    exists n. split; [exact c|]. intro Hn. split; [exact (proj1 (c' Hn))|reflexivity].
  Qed.

  Lemma op_lookup_operator o :
    is_operator_key o = true ->
    op_lookup pstate (ctx_expression pctx) o =
    if String.eqb "$slice" o then Some project_slice
    else if String.eqb "$elemMatch" o then Some (project_elem_match matchf)
    else None.
  Proof.
    intro H. destruct o as [|c t]; [discriminate|].
    cbn [ctx_expression projection_context projection_operators op_lookup].
    reflexivity.
  Qed.

  Lemma process_ops_grows st d k exps st' :
    process_ops pctx st d k exps = Ok st' -> grows k (has_key "$elemMatch" exps) st st'.
  Proof.
    revert st. induction exps as [|[o x] t IH]; intros st H.
    - cbn [process_ops] in H. inversion H. apply grows_refl.
    - cbn [process_ops] in H. destruct (is_operator_key o) eqn:Ho; [|discriminate].
      cbn [negb] in H. rewrite (op_lookup_operator o Ho) in H.
      cbn [has_key]. rewrite String.eqb_sym.
      destruct (String.eqb "$slice" o) eqn:E1.
      + apply bind_ok in H. destruct H as [st1 [H1 H2]].
        apply (grows_trans k _ _ st st1 st'); [|exact (IH _ H2)].
        destruct (project_slice_ok _ _ _ _ _ _ H1) as [E|[w E]]; subst st1;
          [apply grows_refl|apply grows_set_merge].
      + destruct (String.eqb "$elemMatch" o) eqn:E2; [|discriminate].
        apply bind_ok in H. destruct H as [st1 [H1 H2]].
        apply (grows_trans k true _ st st1 st'); [|exact (IH _ H2)].
        destruct (project_elem_match_ok _ _ _ _ _ _ H1) as [E|[item E]]; subst st1.
        * apply grows_elem.
        * apply (grows_trans k true false st _ _ (grows_elem k st)). apply grows_set_merge.
  Qed.

  (* every entry either is a plain condition or runs its operators *)
  Lemma process_expression_ok st d k v st' :
    process_expression pctx st d "" (k, v) true = Ok st' ->
    (operator_entry (k, v) = false /\ plain_step st k v st') \/
    (operator_entry (k, v) = true /\ is_operator_key k = false /\
     exists exps, v = VDoc exps /\ grows k (has_key "$elemMatch" exps) st st').
  Proof.
    intro H. destruct (operator_entry (k, v)) eqn:Ho.
    - right. split; [reflexivity|].
      destruct (is_operator_key k) eqn:Hk; [rewrite pe_root_operator in H by exact Hk; discriminate|].
      split; [reflexivity|].
      unfold operator_entry in Ho. cbn [snd] in Ho.
      destruct v; try discriminate. destruct d0 as [|[k0 v0] t]; [discriminate|].
      exists ((k0, v0) :: t). split; [reflexivity|].
      unfold process_expression in H. rewrite Hk, Ho in H. cbn [join_prefix String.eqb] in H.
      exact (process_ops_grows _ _ _ _ _ H).
    - left. split; [reflexivity|]. eapply pe_plain_ok; eassumption.
  Qed.

  Lemma process_cons st d e t st' :
    process pctx st d (e :: t) "" true = Ok st' ->
    exists st1, process_expression pctx st d "" e true = Ok st1 /\ process pctx st1 d t "" true = Ok st'.
  Proof. cbn [process]. intro H. apply bind_ok in H. exact H. Qed.

  (* -------------------------------------------------------------- *)
  (* exclusions and _id hiding come from the plain entries only *)

  Definition excluded_keys (pr : doc) : list string :=
    map fst (filter (fun e => plain_entry e && is_exclusion_value (snd e) && negb (String.eqb (fst e) "_id")) pr).

  Definition hides_id (pr : doc) : bool :=
    existsb (fun e => plain_entry e && is_exclusion_value (snd e) && String.eqb (fst e) "_id") pr.

  Lemma condition_incl v : condition_value v = Ok true -> is_inclusion_value v = true /\ is_exclusion_value v = false.
  Proof. unfold is_inclusion_value, is_exclusion_value. intro H. rewrite H. tauto. Qed.

  Lemma condition_excl v : condition_value v = Ok false -> is_inclusion_value v = false /\ is_exclusion_value v = true.
  Proof. unfold is_inclusion_value, is_exclusion_value. intro H. rewrite H. tauto. Qed.

  Lemma condition_doc exps : condition_value (VDoc exps) = Err.
  Proof. reflexivity. Qed.

  Lemma operator_entry_condition k v b : condition_value v = Ok b -> operator_entry (k, v) = false.
  Proof.
    intro H. unfold operator_entry. cbn [snd]. destruct v; try reflexivity.
    rewrite condition_doc in H. discriminate.
  Qed.

  Lemma process_excl_hide st d pr st' :
    process pctx st d pr "" true = Ok st' ->
    ps_exclude st' = ps_exclude st ++ excluded_keys pr /\
    ps_hide_id st' = ps_hide_id st || hides_id pr.
  Proof.
    revert st. induction pr as [|[k v] t IH]; intros st H.
    - cbn [process] in H. inversion H. subst. cbn. rewrite app_nil_r, orb_false_r. tauto.
    - destruct (process_cons _ _ _ _ _ H) as [st1 [H1 H2]].
      destruct (IH _ H2) as [He Hh]. rewrite He, Hh.
      unfold excluded_keys, hides_id, plain_entry. cbn [filter existsb fst snd].
      destruct (process_expression_ok _ _ _ _ _ H1) as [[Ho Hs]|[Ho [_ [exps [_ Hg]]]]]; rewrite Ho; cbn [negb andb].
      + inversion Hs as [Hc|Hc Hk|Hc Hk]; subst st1.
        * destruct (condition_incl _ Hc) as [_ Hx]. rewrite Hx. cbn [andb orb]. tauto.
        * destruct (condition_excl _ Hc) as [_ Hx]. rewrite Hx. subst k.
          cbn [String.eqb Ascii.eqb Bool.eqb negb andb orb set_hide_id ps_exclude ps_hide_id].
          rewrite orb_true_r. tauto.
        * destruct (condition_excl _ Hc) as [_ Hx]. rewrite Hx.
          apply String.eqb_neq in Hk. rewrite Hk.
          cbn [negb andb orb map fst add_exclude ps_exclude ps_hide_id].
          rewrite <- app_assoc. tauto.
      + cbn [orb]. rewrite (g_excl _ _ _ _ Hg), (g_hide _ _ _ _ Hg). tauto.
  Qed.

  (* a projection of plain entries only *)
  Lemma process_plain st d pr st' :
    forallb plain_entry pr = true ->
    process pctx st d pr "" true = Ok st' ->
    ps_include st' = ps_include st ++ included_keys pr /\
    ps_merge st' = ps_merge st /\ ps_skip st' = ps_skip st.
  Proof.
    revert st. induction pr as [|[k v] t IH]; intros st Hp H.
    - cbn [process] in H. inversion H. subst. cbn. rewrite app_nil_r. tauto.
    - cbn [forallb] in Hp. apply andb_prop in Hp. destruct Hp as [Hp0 Hpt].
      destruct (process_cons _ _ _ _ _ H) as [st1 [H1 H2]].
      destruct (IH _ Hpt H2) as [Hi [Hm Hs]]. rewrite Hi, Hm, Hs.
      unfold plain_entry in Hp0. apply negb_true_iff in Hp0.
      unfold included_keys. cbn [filter snd]. rewrite Hp0. cbn [negb andb].
      destruct (process_expression_ok _ _ _ _ _ H1) as [[Ho Hst]|[Ho _]]; [|congruence].
      inversion Hst as [Hc|Hc Hk|Hc Hk]; subst st1.
      + destruct (condition_incl _ Hc) as [Hx _]. rewrite Hx.
        cbn [map fst add_include ps_include ps_merge ps_skip]. rewrite <- app_assoc. tauto.
      + destruct (condition_excl _ Hc) as [Hx _]. rewrite Hx. tauto.
      + destruct (condition_excl _ Hc) as [Hx _]. rewrite Hx. tauto.
  Qed.

  (* -------------------------------------------------------------- *)
  (* the second half of Project (project.go:60-119) *)

  Lemma project_state_unfold st d r :
    project_state st d = Ok r ->
    exists r1 r2,
      ((ps_include st <> [] /\ ps_exclude st = [] /\
        exists old r0, Put [] "_id" (Get d "_id") false = Ok (old, r0) /\
                       copy_included d (ps_skip st) (ps_include st) r0 = Ok r1)
       \/ (ps_include st = [] /\ r1 = apply_exclusions (ps_exclude st) d)) /\
      apply_merges (ps_merge st) r1 = Ok r2 /\
      r = (if ps_hide_id st then snd (Unset r2 "_id") else r2).
  Proof.
    unfold project_state. destruct (ps_include st) as [|i0 il] eqn:Ei.
    - intro H. apply bind_ok in H. destruct H as [r1 [H1 H]].
      apply bind_ok in H. destruct H as [r2 [H2 H]]. inversion H1. inversion H. subst.
      exists (apply_exclusions (ps_exclude st) d), r2.
      split; [right; split; reflexivity|]. split; [destruct (ps_exclude st); exact H2|reflexivity].
    - destruct (ps_exclude st) as [|e0 el] eqn:Ee; [|discriminate].
      intro H. apply bind_ok in H. destruct H as [r1 [H1 H]].
      apply bind_ok in H. destruct H as [r2 [H2 H]]. inversion H. subst.
      apply bind_ok in H1. destruct H1 as [[old r0] [H0 H1]].
      exists r1, r2. split; [|split; [exact H2|reflexivity]].
      left. split; [discriminate|]. split; [reflexivity|]. eauto.
  Qed.

  Lemma Put_ok_not_missing d ps v old d' : Put d ps v false = Ok (old, d') -> is_missing v = false.
  Proof. unfold Put, put_path. destruct (is_missing v); [discriminate|reflexivity]. Qed.

  Lemma kpath_id : kpath_str "_id" = true.
  Proof. reflexivity. Qed.

  Lemma split_id : split_path "_id" = ["_id"].
  Proof. reflexivity. Qed.

  (* line 74: the fresh result holding _id only *)
  Lemma put_id d old r0 :
    Put [] "_id" (Get d "_id") false = Ok (old, r0) ->
    r0 = [("_id", Get d "_id")] /\ lookup d "_id" = Some (Get d "_id") /\ is_missing (Get d "_id") = false.
  Proof.
    intro H. pose proof (Put_ok_not_missing _ _ _ _ _ H) as Hm.
    pose proof (Put_kpath_ok _ _ _ _ _ kpath_id Hm H) as Hd.
    rewrite split_id in Hd. cbn in Hd. inversion Hd. split; [reflexivity|]. split; [|exact Hm].
    rewrite (Get_kpath d "_id" kpath_id), split_id in *. cbn [dget] in *.
    destruct (lookup d "_id"); [reflexivity|discriminate].
  Qed.

  (* the fresh result agrees with the source on every path below _id and on
     every path the source does not have *)
  Lemma id_doc_agree d q :
    lookup d "_id" = Some (Get d "_id") ->
    (hd "" q = "_id" \/ dget (VDoc d) q = VMissing) -> q <> [] ->
    dget (VDoc [("_id", Get d "_id")]) q = dget (VDoc d) q.
  Proof.
    intros Hl Hq Hne. destruct q as [|k rest]; [congruence|].
    cbn [dget lookup hd] in *. destruct (String.eqb "_id" k) eqn:E.
    - apply String.eqb_eq in E. subst k. rewrite Hl. reflexivity.
    - apply String.eqb_neq in E. destruct Hq as [Hq|Hq]; [congruence|]. symmetry. exact Hq.
  Qed.

  Lemma unrelated_id q : q <> [] -> hd "" q <> "_id" -> unrelated ["_id"] q.
  Proof.
    intros Hne Hr. destruct q as [|k rest]; [congruence|]. cbn [hd] in Hr.
    split; cbn [is_prefix].
    - destruct (String.eqb "_id" k) eqn:E; [apply String.eqb_eq in E; congruence|reflexivity].
    - destruct (String.eqb k "_id") eqn:E; [apply String.eqb_eq in E; congruence|reflexivity].
  Qed.

  (* lines 115-117 on paths not below _id *)
  Lemma hide_id_get (hide : bool) r2 q :
    q <> [] -> (hide = true -> hd "" q <> "_id") ->
    dget (VDoc (if hide then snd (Unset r2 "_id") else r2)) q = dget (VDoc r2) q.
  Proof.
    intros Hne Hr. destruct hide; [|reflexivity].
    rewrite <- (Unset_kpath_doc r2 "_id" kpath_id), split_id.
    apply dget_ddel_unrelated. apply unrelated_id; [exact Hne|apply Hr; reflexivity].
  Qed.

  Lemma root_hd ps : root ps = hd "" (split_path ps).
  Proof. reflexivity. Qed.

  (* -------------------------------------------------------------- *)
  (* C14: mixing inclusion and exclusion is an error *)

  Lemma process_include_mono st d pr st' :
    process pctx st d pr "" true = Ok st' -> forall p, In p (ps_include st) -> In p (ps_include st').
  Proof.
    revert st. induction pr as [|[k v] t IH]; intros st H p Hp.
    - cbn [process] in H. inversion H. subst. exact Hp.
    - destruct (process_cons _ _ _ _ _ H) as [st1 [H1 H2]]. apply (IH _ H2).
      destruct (process_expression_ok _ _ _ _ _ H1) as [[_ Hs]|[_ [_ [exps [_ Hg]]]]].
      + inversion Hs; subst st1; cbn [add_include set_hide_id add_exclude ps_include];
          [apply in_or_app; left; exact Hp|exact Hp|exact Hp].
      + destruct (g_incl _ _ _ _ Hg) as [n [Hn _]]. rewrite Hn. apply in_or_app. left. exact Hp.
  Qed.

  Lemma process_sees_inclusion st d pr st' k v :
    process pctx st d pr "" true = Ok st' -> In (k, v) pr -> is_inclusion_value v = true ->
    In k (ps_include st').
  Proof.
    revert st. induction pr as [|[k0 v0] t IH]; intros st H Hin Hv; [destruct Hin|].
    destruct (process_cons _ _ _ _ _ H) as [st1 [H1 H2]].
    destruct Hin as [E|Hin]; [|exact (IH _ H2 Hin Hv)].
    inversion E. subst k0 v0. apply (process_include_mono _ _ _ _ H2).
    destruct (process_expression_ok _ _ _ _ _ H1) as [[_ Hs]|[_ [_ [exps [Hd _]]]]].
    - inversion Hs as [Hc|Hc Hk|Hc Hk]; subst st1.
      + cbn [add_include ps_include]. apply in_or_app. right. left. reflexivity.
      + destruct (condition_excl _ Hc). congruence.
      + destruct (condition_excl _ Hc). congruence.
    - subst v. discriminate.
  Qed.

  Lemma process_sees_exclusion st d pr st' k v :
    process pctx st d pr "" true = Ok st' -> In (k, v) pr -> is_exclusion_value v = true ->
    k <> "_id" -> In k (ps_exclude st').
  Proof.
    intros H Hin Hv Hk. rewrite (proj1 (process_excl_hide _ _ _ _ H)).
    apply in_or_app. right. unfold excluded_keys.
    change k with (fst (k, v)). apply in_map. apply filter_In. split; [exact Hin|].
    cbn [fst snd]. rewrite Hv. apply String.eqb_neq in Hk. rewrite Hk.
    unfold plain_entry.
    assert (Ho : operator_entry (k, v) = false).
    { unfold is_exclusion_value in Hv. destruct (condition_value v) as [b| | | |] eqn:Ec; try discriminate.
      exact (operator_entry_condition k v b Ec). }
    rewrite Ho. reflexivity.
  Qed.

  Theorem mix_is_error d pr k1 v1 k2 v2 :
    In (k1, v1) pr -> is_inclusion_value v1 = true ->
    In (k2, v2) pr -> is_exclusion_value v2 = true -> k2 <> "_id" ->
    forall r, Proj d pr <> Ok r.
  Proof.
    intros Hi1 Hv1 Hi2 Hv2 Hk2 r H. unfold project_with, project_process in H.
    apply bind_ok in H. destruct H as [st [Hp Hs]].
    pose proof (process_sees_inclusion _ _ _ _ _ _ Hp Hi1 Hv1) as H1.
    pose proof (process_sees_exclusion _ _ _ _ _ _ Hp Hi2 Hv2 Hk2) as H2.
    unfold project_state in Hs.
    destruct (ps_include st); [destruct H1|]. destruct (ps_exclude st); [destruct H2|]. discriminate.
  Qed.

  (* $elemMatch counts as an inclusion *)
  Theorem mix_is_error_elem_match d pr k1 q k2 v2 :
    In (k1, VDoc [("$elemMatch", VDoc q)]) pr ->
    In (k2, v2) pr -> is_exclusion_value v2 = true -> k2 <> "_id" ->
    forall r, Proj d pr <> Ok r.
  Proof.
    intros Hi1 Hi2 Hv2 Hk2 r H. unfold project_with, project_process in H.
    apply bind_ok in H. destruct H as [st [Hp Hs]].
    pose proof (process_sees_exclusion _ _ _ _ _ _ Hp Hi2 Hv2 Hk2) as H2.
    assert (H1 : In k1 (ps_include st)).
    { clear - Hp Hi1. revert Hp. generalize pstate0 as st0. induction pr as [|[k0 v0] t IH]; intros st0 Hp; [destruct Hi1|].
      destruct (process_cons _ _ _ _ _ Hp) as [st1 [H1 H2]].
      destruct Hi1 as [E|Hin]; [|exact (IH Hin _ H2)].
      inversion E. subst k0 v0. apply (process_include_mono _ _ _ _ H2).
      destruct (is_operator_key k1) eqn:Hk; [rewrite pe_root_operator in H1 by exact Hk; discriminate|].
      rewrite pe_single_op in H1 by (exact Hk || reflexivity).
      rewrite op_lookup_operator in H1 by reflexivity. cbn [String.eqb Ascii.eqb Bool.eqb] in H1.
      destruct (project_elem_match_ok _ _ _ _ _ _ H1) as [E1|[item E1]]; subst st1;
        cbn [set_merge add_skip add_include ps_include]; apply in_or_app; right; left; reflexivity. }
    unfold project_state in Hs.
    destruct (ps_include st); [destruct H1|]. destruct (ps_exclude st); [destruct H2|]. discriminate.
  Qed.

  (* -------------------------------------------------------------- *)
  (* C14: inclusion *)

  (* every entry is a plain condition on a key path *)
  Definition plain_projection (pr : doc) : Prop :=
    forallb plain_entry pr = true /\ all_kpaths (map fst pr).

  Lemma included_keys_kpaths pr : all_kpaths (map fst pr) -> all_kpaths (included_keys pr).
  Proof.
    intros H p Hp. apply H. unfold included_keys in Hp.
    apply in_map_iff in Hp. destruct Hp as [e [He Hf]]. apply filter_In in Hf.
    apply in_map_iff. exists e. tauto.
  Qed.

  Lemma excluded_keys_kpaths pr : all_kpaths (map fst pr) -> all_kpaths (excluded_keys pr).
  Proof.
    intros H p Hp. apply H. unfold excluded_keys in Hp.
    apply in_map_iff in Hp. destruct Hp as [e [He Hf]]. apply filter_In in Hf.
    apply in_map_iff. exists e. tauto.
  Qed.

  Definition present (d : doc) (p : string) : bool := negb (is_missing (Get d p)).

  Fixpoint remove_str (k : string) (l : list string) : list string :=
    match l with
    | [] => []
    | x :: t => if String.eqb x k then t else x :: remove_str k t
    end.

  Lemma keys_remove_first d k : map fst (remove_first d k) = remove_str k (map fst d).
  Proof.
    induction d as [|[k' y] d IH]; [reflexivity|].
    cbn [remove_first map fst remove_str]. destruct (String.eqb k' k); [reflexivity|].
    cbn [map fst]. rewrite IH. reflexivity.
  Qed.

  Lemma unset_id_remove r : snd (Unset r "_id") = remove_first r "_id".
  Proof.
    pose proof (Unset_kpath_doc r "_id" kpath_id) as H. rewrite split_id, ddel_last in H.
    inversion H. reflexivity.
  Qed.

  (* the shape of an inclusion run *)
  Lemma inclusion_run d pr r :
    plain_projection pr -> included_keys pr <> [] -> Proj d pr = Ok r ->
    exists r1,
      lookup d "_id" = Some (Get d "_id") /\ is_missing (Get d "_id") = false /\
      copy_included d [] (included_keys pr) [("_id", Get d "_id")] = Ok r1 /\
      r = (if hides_id pr then remove_first r1 "_id" else r1).
  Proof.
    intros [Hpl Hk] Hne H. unfold project_with, project_process in H.
    apply bind_ok in H. destruct H as [st [Hp Hs]].
    destruct (process_plain _ _ _ _ Hpl Hp) as [Hi [Hm Hsk]].
    destruct (process_excl_hide _ _ _ _ Hp) as [He Hh].
    cbn [pstate0 ps_include ps_merge ps_skip ps_exclude ps_hide_id app orb] in *.
    destruct (project_state_unfold _ _ _ Hs) as [r1 [r2 [Hb [Hmg Hr]]]].
    rewrite Hm in Hmg. cbn [apply_merges] in Hmg. inversion Hmg. subst r2.
    destruct Hb as [[_ [_ [old [r0 [H0 H1]]]]]|[Hc _]]; [|congruence].
    destruct (put_id _ _ _ H0) as [Hr0 [Hl Hmi]]. subst r0.
    rewrite Hi, Hsk in H1. exists r1. rewrite Hh, unset_id_remove in Hr. tauto.
  Qed.

  Theorem inclusion_spec d pr r :
    plain_projection pr -> included_keys pr <> [] -> Proj d pr = Ok r ->
    (* only _id and the roots of the included paths *)
    (forall k, In k (map fst r) -> k = "_id" \/ exists p, In p (included_keys pr) /\ root p = k) /\
    (* every included path holds the stored value *)
    (forall p, In p (included_keys pr) -> (hides_id pr = true -> root p <> "_id") -> Get r p = Get d p) /\
    (* _id is present unless hidden *)
    (hides_id pr = false -> Get r "_id" = Get d "_id" /\ is_missing (Get d "_id") = false) /\
    (hides_id pr = true -> lookup r "_id" = None) /\
    (* field order: _id, then the roots of the included paths that exist, in
       the order of the projection *)
    map fst r = (if hides_id pr then remove_str "_id" else fun l => l)
                  (add_keys ["_id"] (map root (filter (present d) (included_keys pr)))).
  Proof.
    intros Hpp Hne H. destruct (inclusion_run _ _ _ Hpp Hne H) as [r1 [Hl [Hmi [Hc Hr]]]].
    pose proof (included_keys_kpaths pr (proj2 Hpp)) as Hk.
    pose proof (copy_included_keys _ _ _ _ _ Hk Hc) as Hkeys.
    assert (Hcopied : filter (copied d []) (included_keys pr) = filter (present d) (included_keys pr)).
    { apply filter_ext. intro p. reflexivity. }
    rewrite Hcopied in Hkeys. cbn [map fst] in Hkeys.
    assert (Hkeys_r : map fst r = (if hides_id pr then remove_str "_id" else fun l => l) (map fst r1)).
    { subst r. destruct (hides_id pr); [apply keys_remove_first|reflexivity]. }
    split; [|split; [|split; [|split]]].
    - intros k Hin. rewrite Hkeys_r in Hin.
      assert (Hin1 : In k (map fst r1)).
      { destruct (hides_id pr); [|exact Hin].
        clear - Hin. induction (map fst r1) as [|x t IH]; cbn [remove_str In] in *; [tauto|].
        destruct (String.eqb x "_id"); cbn [In] in *; tauto. }
      rewrite Hkeys in Hin1. destruct (add_keys_in _ _ _ Hin1) as [[E|[]]|Hin2]; [left; congruence|].
      right. apply in_map_iff in Hin2. destruct Hin2 as [p [Hp Hf]]. apply filter_In in Hf.
      exists p. tauto.
    - intros p Hp Hroot.
      pose proof (Hk p Hp) as Hkp.
      assert (Hg1 : Get r1 p = Get d p).
      { apply (copy_included_get d [] (included_keys pr) _ r1 p Hk Hc Hp eq_refl).
        intro Hm. apply id_doc_agree; [exact Hl| |apply split_path_nonempty].
        right. rewrite <- (Get_kpath d p Hkp). destruct (Get d p); try discriminate. reflexivity. }
      rewrite <- Hg1. rewrite (Get_kpath r p Hkp), (Get_kpath r1 p Hkp). subst r.
      rewrite <- unset_id_remove. apply hide_id_get; [apply split_path_nonempty|exact Hroot].
    - intro Hh. split; [|exact Hmi]. rewrite Hh in Hr. subst r.
      rewrite (Get_kpath r1 "_id" kpath_id), (Get_kpath d "_id" kpath_id).
      apply (copy_included_agree d [] (included_keys pr) _ r1 _ Hk Hc).
      rewrite split_id. apply id_doc_agree; [exact Hl|left; reflexivity|discriminate].
    - intro Hh. rewrite Hh in Hr. subst r. apply lookup_remove_same.
      rewrite Hkeys. apply add_keys_nodup. constructor; [tauto|constructor].
    - rewrite Hkeys_r, Hkeys. reflexivity.
  Qed.

  (* -------------------------------------------------------------- *)
  (* C14: exclusion *)

  Lemma exclusion_run d pr r :
    plain_projection pr -> included_keys pr = [] -> Proj d pr = Ok r ->
    r = (if hides_id pr then remove_first (apply_exclusions (excluded_keys pr) d) "_id"
         else apply_exclusions (excluded_keys pr) d).
  Proof.
    intros [Hpl Hk] Hne H. unfold project_with, project_process in H.
    apply bind_ok in H. destruct H as [st [Hp Hs]].
    destruct (process_plain _ _ _ _ Hpl Hp) as [Hi [Hm Hsk]].
    destruct (process_excl_hide _ _ _ _ Hp) as [He Hh].
    cbn [pstate0 ps_include ps_merge ps_skip ps_exclude ps_hide_id app orb] in *.
    destruct (project_state_unfold _ _ _ Hs) as [r1 [r2 [Hb [Hmg Hr]]]].
    rewrite Hm in Hmg. cbn [apply_merges] in Hmg. inversion Hmg. subst r2.
    destruct Hb as [[Hc _]|[_ Hr1]]; [congruence|].
    rewrite Hh, unset_id_remove in Hr. rewrite He in Hr1. subst r1. exact Hr.
  Qed.

  (* an exclusion never fails *)
  Theorem exclusion_total d pr :
    plain_projection pr -> included_keys pr = [] ->
    (forall e, In e pr -> is_exclusion_value (snd e) = true /\ is_operator_key (fst e) = false) ->
    exists r, Proj d pr = Ok r.
  Proof.
    intros [Hpl Hk] Hne Hall. unfold project_with, project_process.
    assert (Hp : forall st, exists st', process pctx st d pr "" true = Ok st' /\ ps_include st' = ps_include st /\ ps_merge st' = ps_merge st).
    { clear Hk Hne. induction pr as [|[k v] t IH]; intro st.
      - exists st. cbn [process]. tauto.
      - cbn [forallb] in Hpl. apply andb_prop in Hpl. destruct Hpl as [Hp0 Hpt].
        destruct (Hall (k, v) (or_introl eq_refl)) as [Hv Hk]. cbn [snd fst] in Hv, Hk.
        unfold is_exclusion_value in Hv. destruct (condition_value v) as [[|]| | | |] eqn:Ec; try discriminate.
        unfold plain_entry in Hp0. apply negb_true_iff in Hp0.
        cbn [process]. rewrite (pe_plain st d k v Hk Hp0). unfold project_condition. rewrite Ec. cbn [bind].
        destruct (String.eqb k "_id").
        + destruct (IH Hpt (fun e He => Hall e (or_intror He)) (set_hide_id st)) as [st' [H1 [H2 H3]]].
          exists st'. tauto.
        + destruct (IH Hpt (fun e He => Hall e (or_intror He)) (add_exclude st k)) as [st' [H1 [H2 H3]]].
          exists st'. tauto. }
    destruct (Hp pstate0) as [st' [H1 [H2 H3]]]. rewrite H1. cbn [bind].
    unfold project_state. cbn [pstate0 ps_include ps_merge] in H2, H3. rewrite H2, H3.
    cbn [apply_merges bind]. destruct (ps_exclude st'); eauto.
  Qed.

  Lemma exclusion_fold d pr :
    all_kpaths (map fst pr) ->
    VDoc (apply_exclusions (excluded_keys pr) d) = ddel_all (excluded_keys pr) (VDoc d).
  Proof. intro H. apply apply_exclusions_fold. apply excluded_keys_kpaths. exact H. Qed.

  Lemma remove_id_ddel r : VDoc (remove_first r "_id") = ddel (VDoc r) ["_id"].
  Proof. reflexivity. Qed.

  Theorem exclusion_spec d pr r :
    plain_projection pr -> included_keys pr = [] -> nodup_keys (VDoc d) = true ->
    Proj d pr = Ok r ->
    (* every excluded path is absent *)
    (forall p, In p (excluded_keys pr) -> Get r p = VMissing) /\
    (hides_id pr = true -> lookup r "_id" = None) /\
    (* every key path unrelated to the excluded ones holds the stored value *)
    (forall q, kpath_str q = true ->
               (forall p, In p (excluded_keys pr) -> unrelated (split_path p) (split_path q)) ->
               (hides_id pr = true -> root q <> "_id") ->
               Get r q = Get d q) /\
    (* r is d with fields deleted; order preserved at every level *)
    pruned (VDoc r) (VDoc d).
  Proof.
    intros Hpp Hne Hnd H. pose proof (exclusion_run _ _ _ Hpp Hne H) as Hr.
    pose proof (exclusion_fold d pr (proj2 Hpp)) as Hf.
    set (r1 := apply_exclusions (excluded_keys pr) d) in *.
    assert (Hnd1 : nodup_keys (VDoc r1) = true) by (rewrite Hf; apply ddel_all_nodup; exact Hnd).
    split; [|split; [|split]].
    - intros p Hp. pose proof (excluded_keys_kpaths pr (proj2 Hpp) p Hp) as Hkp.
      rewrite (Get_kpath r p Hkp).
      assert (H1 : dget (VDoc r1) (split_path p) = VMissing).
      { rewrite Hf. rewrite <- (app_nil_r (split_path p)). apply ddel_all_excluded; assumption. }
      subst r. destruct (hides_id pr); [|exact H1].
      rewrite remove_id_ddel. apply dget_ddel_missing; assumption.
    - intro Hh. rewrite Hh in Hr. subst r. apply lookup_remove_same.
      exact (proj1 (nodup_keys_doc r1 Hnd1)).
    - intros q Hkq Hu Hroot. rewrite (Get_kpath r q Hkq), (Get_kpath d q Hkq).
      transitivity (dget (VDoc r1) (split_path q)).
      + subst r. rewrite <- unset_id_remove. apply hide_id_get; [apply split_path_nonempty|exact Hroot].
      + rewrite Hf. apply ddel_all_unrelated. exact Hu.
    - assert (Hp1 : pruned (VDoc r1) (VDoc d)) by (rewrite Hf; apply ddel_all_pruned, pruned_refl).
      subst r. destruct (hides_id pr); [|exact Hp1].
      rewrite remove_id_ddel. apply pruned_ddel. exact Hp1.
  Qed.

  (* -------------------------------------------------------------- *)
  (* C14: every value in the result is the stored value *)

  Lemma in_remove_first d k k0 v0 : In (k0, v0) (remove_first d k) -> In (k0, v0) d.
  Proof.
    induction d as [|[k' y] d IH]; cbn [remove_first In]; [tauto|].
    destruct (String.eqb k' k); cbn [In]; tauto.
  Qed.

  Lemma sub_remove_first r d k :
    sub (VDoc r) (VDoc d) -> nodup_keys (VDoc d) = true -> sub (VDoc (remove_first r k)) (VDoc d).
  Proof.
    intros Hs Hnd. apply sub_doc. intros k0 v0 Hin. apply in_remove_first in Hin.
    inversion Hs as [|rf df Hf]; subst.
    - exists v0. split; [|apply sub_refl].
      apply in_lookup_nodup; [exact (proj1 (nodup_keys_doc d Hnd))|exact Hin].
    - exact (Hf _ _ Hin).
  Qed.

  Theorem projected_values_are_stored d pr r :
    plain_projection pr -> nodup_keys (VDoc d) = true -> Proj d pr = Ok r ->
    sub (VDoc r) (VDoc d).
  Proof.
    intros Hpp Hnd H. destruct (included_keys pr) as [|i0 il] eqn:Ei.
    - apply pruned_sub; [exact Hnd|].
      exact (proj2 (proj2 (proj2 (exclusion_spec _ _ _ Hpp Ei Hnd H)))).
    - assert (Hne : included_keys pr <> []) by (rewrite Ei; discriminate).
      destruct (inclusion_run _ _ _ Hpp Hne H) as [r1 [Hl [Hmi [Hc Hr]]]].
      assert (Hs1 : sub (VDoc r1) (VDoc d)).
      { apply (copy_included_sub d [] (included_keys pr) _ r1 (included_keys_kpaths pr (proj2 Hpp)) Hc).
        apply sub_doc. intros k v [E|[]]. inversion E. subst. exists (Get d "_id"). split; [exact Hl|apply sub_refl]. }
      subst r. destruct (hides_id pr); [|exact Hs1]. apply sub_remove_first; assumption.
  Qed.

  (* in terms of reads: a value found in the result at a key path is
     contained in the stored value there, and equal to it unless it is an
     embedded document (which may have lost fields) *)
  Theorem projected_reads_are_stored d pr r q :
    plain_projection pr -> nodup_keys (VDoc d) = true -> Proj d pr = Ok r ->
    kpath_str q = true -> is_missing (Get r q) = false ->
    sub (Get r q) (Get d q) /\ ((forall f, Get r q <> VDoc f) -> Get r q = Get d q).
  Proof.
    intros Hpp Hnd H Hk Hm. pose proof (projected_values_are_stored _ _ _ Hpp Hnd H) as Hs.
    rewrite (Get_kpath r q Hk), (Get_kpath d q Hk) in *.
    pose proof (sub_dget _ _ (split_path q) Hs Hm) as Hq.
    split; [exact Hq|]. intro Hl. exact (sub_leaf _ _ Hq Hl).
  Qed.

  (* -------------------------------------------------------------- *)
  (* C14: $slice *)

  Lemma process_app st d l1 l2 st' :
    process pctx st d (l1 ++ l2) "" true = Ok st' ->
    exists st1, process pctx st d l1 "" true = Ok st1 /\ process pctx st1 d l2 "" true = Ok st'.
  Proof.
    revert st. induction l1 as [|e t IH]; intros st H.
    - exists st. cbn [process app] in *. tauto.
    - cbn [app] in H. destruct (process_cons _ _ _ _ _ H) as [st1 [H1 H2]].
      destruct (IH _ H2) as [st2 [H3 H4]]. exists st2. cbn [process]. rewrite H1. cbn [bind]. tauto.
  Qed.

  (* a projection with exactly one operator entry, at path p *)
  Lemma one_operator_merge d pre post p ops st' :
    forallb plain_entry pre = true -> forallb plain_entry post = true ->
    process pctx pstate0 d (pre ++ (p, VDoc ops) :: post) "" true = Ok st' ->
    exists st1 st2,
      ps_merge st1 = [] /\ ps_skip st1 = [] /\
      process_expression pctx st1 d "" (p, VDoc ops) true = Ok st2 /\
      ps_merge st' = ps_merge st2 /\ ps_skip st' = ps_skip st2.
  Proof.
    intros Hpre Hpost H. destruct (process_app _ _ _ _ _ H) as [st1 [H1 H2]].
    destruct (process_cons _ _ _ _ _ H2) as [st2 [H3 H4]].
    destruct (process_plain _ _ _ _ Hpre H1) as [_ [Hm1 Hs1]].
    destruct (process_plain _ _ _ _ Hpost H4) as [_ [Hm2 Hs2]].
    exists st1, st2. cbn [pstate0 ps_merge ps_skip] in *. tauto.
  Qed.

  (* the single merge is applied last: the result holds it *)
  Lemma single_merge_result st d r p w :
    project_state st d = Ok r -> ps_merge st = [(p, w)] ->
    kpath_str p = true -> root p <> "_id" -> is_missing w = false ->
    Get r p = w.
  Proof.
    intros Hs Hm Hk Hroot Hw.
    destruct (project_state_unfold _ _ _ Hs) as [r1 [r2 [_ [Hmg Hr]]]].
    rewrite Hm in Hmg. cbn [apply_merges] in Hmg.
    apply bind_ok in Hmg. destruct Hmg as [[old r2'] [HP Hmg]]. inversion Hmg. subst r2'.
    pose proof (Put_kpath_ok _ _ _ _ _ Hk Hw HP) as Hd.
    rewrite (Get_kpath r p Hk). subst r.
    rewrite hide_id_get; [|apply split_path_nonempty|intros _; exact Hroot].
    exact (dget_dset_same _ _ _ _ Hd).
  Qed.

  Lemma slice_entry_step st1 d p x st2 :
    process_expression pctx st1 d "" (p, VDoc [("$slice", x)]) true = Ok st2 ->
    project_slice st1 d "$slice" p x = Ok st2.
  Proof.
    intro H. destruct (is_operator_key p) eqn:Hk; [rewrite pe_root_operator in H by exact Hk; discriminate|].
    rewrite pe_single_op in H by (exact Hk || reflexivity). exact H.
  Qed.

  (* what projectSliceInt returns lies in the int32 range *)
  Lemma project_slice_int_range v n : wf v = true -> project_slice_int v = Some n -> int32r n.
  Proof.
    unfold int32r. intros Hw H. destruct v; cbn [project_slice_int] in H; try discriminate.
    - inversion H. subst. cbn [wf] in Hw. apply andb_prop in Hw. destruct Hw as [H1 H2].
      apply Z.leb_le in H1. apply Z.ltb_lt in H2. lia.
    - inversion H. subst. unfold clamp_int32.
      destruct (max_int32 <? z)%Z eqn:E1; [unfold max_int32, two31; lia|]. apply Z.ltb_ge in E1.
      destruct (z <? - max_int32)%Z eqn:E2; [unfold max_int32, two31; lia|]. apply Z.ltb_ge in E2.
      unfold max_int32, two31 in *. lia.
    - destruct (xnum_of_double bits) as [| |q|]; [discriminate| | |];
        try (inversion H; subst; unfold max_int32, two31; lia).
      destruct (Qle_bool q (max_int32 # 1)) eqn:E1; [|inversion H; subst; unfold max_int32, two31; lia].
      destruct (Qle_bool (- max_int32 # 1) q) eqn:E2; [|inversion H; subst; unfold max_int32, two31; lia].
      inversion H. subst n. apply Qle_bool_iff in E1. apply Qle_bool_iff in E2.
      unfold Qle in E1, E2. cbn [Qnum Qden] in E1, E2.
      destruct q as [num den]. cbn [Qnum Qden] in *.
      assert (Hd : (0 < Zpos den)%Z) by lia.
      assert (H1 : (Z.quot num (Zpos den) <= max_int32)%Z).
      { rewrite <- (Z.quot_mul max_int32 (Zpos den)) by lia. apply Z.quot_le_mono; lia. }
      assert (H2 : (- max_int32 <= Z.quot num (Zpos den))%Z).
      { rewrite <- (Z.quot_mul (- max_int32) (Zpos den)) by lia. apply Z.quot_le_mono; lia. }
      unfold max_int32, two31 in *. lia.
  Qed.

  Lemma int32r_int64 n : int32r n -> int64 n.
  Proof. unfold int32r, int64. pose proof two31_lt_two63. lia. Qed.

  (* $slice: n *)
  Theorem slice_spec_n d pre post p x n a r :
    forallb plain_entry pre = true -> forallb plain_entry post = true ->
    kpath_str p = true -> root p <> "_id" ->
    wf x = true -> project_slice_int x = Some n ->
    Get d p = VArr a -> (len a < two63)%Z ->
    Proj d (pre ++ (p, VDoc [("$slice", x)]) :: post) = Ok r ->
    Get r p = VArr (window_n n a).
  Proof.
    intros Hpre Hpost Hk Hroot Hwf Hx Ha Hlen H. unfold project_with, project_process in H.
    pose proof (int32r_int64 n (project_slice_int_range x n Hwf Hx)) as Hn.
    apply bind_ok in H. destruct H as [st [Hp Hs]].
    destruct (one_operator_merge _ _ _ _ _ _ Hpre Hpost Hp) as [st1 [st2 [Hm1 [_ [He [Hm _]]]]]].
    apply slice_entry_step in He. unfold project_slice in He. rewrite Ha in He.
    assert (Harg : exists w, slice_limit a n = Ok w /\ st2 = set_merge st1 p (VArr w)).
    { destruct (max_slice_len <=? len a)%Z;
        [destruct x; try discriminate Hx; rewrite Hx in He; cbn [bind] in He; discriminate|].
      destruct x; try discriminate Hx; rewrite Hx in He; cbn [bind] in He;
        apply bind_ok in He; destruct He as [w [Hw He]]; inversion He; eauto. }
    destruct Harg as [w [Hw Hst2]].
    rewrite (slice_limit_spec a n w Hn Hlen Hw) in Hst2.
    apply (single_merge_result st d r p _ Hs); try assumption; [|reflexivity].
    rewrite Hm, Hst2. cbn [set_merge ps_merge]. rewrite Hm1. reflexivity.
  Qed.

  (* $slice: [skip, limit] *)
  Theorem slice_spec_skip_limit d pre post p xs xl s l a r :
    forallb plain_entry pre = true -> forallb plain_entry post = true ->
    kpath_str p = true -> root p <> "_id" ->
    wf xs = true -> wf xl = true ->
    project_slice_int xs = Some s -> project_slice_int xl = Some l ->
    Get d p = VArr a -> (len a < two63)%Z ->
    Proj d (pre ++ (p, VDoc [("$slice", VArr [xs; xl])]) :: post) = Ok r ->
    (0 <= l)%Z /\ Get r p = VArr (window_skip_limit s l a).
  Proof.
    intros Hpre Hpost Hk Hroot Hws Hwl Hxs Hxl Ha Hlen H. unfold project_with, project_process in H.
    pose proof (int32r_int64 s (project_slice_int_range xs s Hws Hxs)) as Hs_.
    pose proof (int32r_int64 l (project_slice_int_range xl l Hwl Hxl)) as Hl_.
    apply bind_ok in H. destruct H as [st [Hp Hs]].
    destruct (one_operator_merge _ _ _ _ _ _ Hpre Hpost Hp) as [st1 [st2 [Hm1 [_ [He [Hm _]]]]]].
    apply slice_entry_step in He. unfold project_slice in He. rewrite Ha, Hxs, Hxl in He.
    destruct (l <? 0)%Z eqn:El; [discriminate|]. apply Z.ltb_ge in El.
    cbn [bind] in He. destruct (max_slice_len <=? len a)%Z; [discriminate|].
    apply bind_ok in He. destruct He as [w [Hw He]]. inversion He as [Hst2].
    split; [exact El|].
    rewrite (slice_skip_limit_spec a s l w Hs_ Hl_ El Hlen Hw) in Hst2.
    apply (single_merge_result st d r p _ Hs); try assumption; [|reflexivity].
    rewrite Hm, <- Hst2. cbn [set_merge ps_merge]. rewrite Hm1. reflexivity.
  Qed.

  (* $slice never panics (and is always modelled): for every argument the
     operator either reports an error or succeeds.  The array-length bound
     holds for every Go slice. *)
  Theorem slice_total st d o p v :
    wf v = true ->
    (forall a, Get d p = VArr a -> (len a < two63 - two31)%Z) ->
    project_slice st d o p v = Err \/ exists st', project_slice st d o p v = Ok st'.
  Proof.
    intros Hwf Hlen. unfold project_slice.
    assert (Hnum : forall n, int32r n ->
              exists st', match Get d p with
                          | VArr a =>
                              if (max_slice_len <=? len a)%Z then Unmodelled
                              else let* w := slice_limit a n in Ok (set_merge st p (VArr w))
                          | _ => Ok st
                          end = Ok st').
    { intros n Hr. destruct (Get d p) eqn:Eg; eauto.
      replace (max_slice_len <=? len a)%Z with false
        by (symmetry; apply Z.leb_gt; unfold max_slice_len; exact (Hlen a eq_refl)).
      assert (Hl : (len a < two63)%Z) by (pose proof (Hlen a eq_refl); unfold two31 in *; lia).
      destruct (slice_limit_total a n Hr Hl) as [w Hw]. rewrite Hw. cbn [bind]. eauto. }
    destruct v; try (left; reflexivity).
    - destruct (project_slice_int (VInt32 z)) as [n|] eqn:E; [|left; reflexivity].
      right. cbn [bind]. exact (Hnum n (project_slice_int_range _ n Hwf E)).
    - destruct (project_slice_int (VInt64 z)) as [n|] eqn:E; [|left; reflexivity].
      right. cbn [bind]. exact (Hnum n (project_slice_int_range _ n Hwf E)).
    - destruct (project_slice_int (VDouble bits)) as [n|] eqn:E; [|left; reflexivity].
      right. cbn [bind]. exact (Hnum n (project_slice_int_range _ n Hwf E)).
    - (* [skip, limit] *)
      destruct a as [|x [|y [|z t]]]; try (left; reflexivity).
      cbn [wf] in Hwf. apply andb_prop in Hwf. destruct Hwf as [Hwx Hwf]. apply andb_prop in Hwf. destruct Hwf as [Hwy _].
      destruct (project_slice_int x) as [s|] eqn:Ex; [|left; reflexivity].
      destruct (project_slice_int y) as [l|] eqn:Ey; [|left; reflexivity].
      destruct (l <? 0)%Z eqn:El; [left; reflexivity|]. apply Z.ltb_ge in El.
      cbn [bind]. right. destruct (Get d p) eqn:Eg; eauto.
      replace (max_slice_len <=? len a)%Z with false
        by (symmetry; apply Z.leb_gt; unfold max_slice_len; exact (Hlen a eq_refl)).
      destruct (slice_skip_limit_total a s l (project_slice_int_range x s Hwx Ex)
                  (project_slice_int_range y l Hwy Ey) El (Hlen a eq_refl)) as [w Hw].
      rewrite Hw. cbn [bind]. eauto.
  Qed.

  (* -------------------------------------------------------------- *)
  (* C14: $elemMatch *)

  Lemma first_match_found a q pa item pb :
    a = pa ++ item :: pb ->
    Forall (fun x => elem_matches matchf x q = Ok false) pa ->
    elem_matches matchf item q = Ok true ->
    first_match matchf a q = Ok (Some item).
  Proof.
    intros Ha Hpa Hi. subst a. induction Hpa as [|x pa Hx Hpa IH]; cbn [app first_match].
    - rewrite Hi. reflexivity.
    - rewrite Hx. cbn [bind]. exact IH.
  Qed.

  Lemma first_match_none a q :
    Forall (fun x => elem_matches matchf x q = Ok false) a -> first_match matchf a q = Ok None.
  Proof.
    induction 1 as [|x a Hx Ha IH]; cbn [first_match]; [reflexivity|]. rewrite Hx. exact IH.
  Qed.

  Lemma elem_entry_step st1 d p q st2 :
    process_expression pctx st1 d "" (p, VDoc [("$elemMatch", VDoc q)]) true = Ok st2 ->
    project_elem_match matchf st1 d "$elemMatch" p (VDoc q) = Ok st2.
  Proof.
    intro H. destruct (is_operator_key p) eqn:Hk; [rewrite pe_root_operator in H by exact Hk; discriminate|].
    rewrite pe_single_op in H by (exact Hk || reflexivity). exact H.
  Qed.

  (* the first element for which the condition holds *)
  Theorem elem_match_spec_found d pre post p q a pa item pb r :
    forallb plain_entry pre = true -> forallb plain_entry post = true ->
    kpath_str p = true -> root p <> "_id" ->
    Get d p = VArr a -> a = pa ++ item :: pb ->
    Forall (fun x => elem_matches matchf x q = Ok false) pa ->
    elem_matches matchf item q = Ok true ->
    Proj d (pre ++ (p, VDoc [("$elemMatch", VDoc q)]) :: post) = Ok r ->
    Get r p = VArr [item].
  Proof.
    intros Hpre Hpost Hk Hroot Ha Hsplit Hpa Hi H. unfold project_with, project_process in H.
    apply bind_ok in H. destruct H as [st [Hp Hs]].
    destruct (one_operator_merge _ _ _ _ _ _ Hpre Hpost Hp) as [st1 [st2 [Hm1 [_ [He [Hm _]]]]]].
    apply elem_entry_step in He. unfold project_elem_match in He. rewrite Ha in He.
    rewrite (first_match_found a q pa item pb Hsplit Hpa Hi) in He. cbn [bind] in He.
    inversion He as [Hst2].
    apply (single_merge_result st d r p _ Hs); try assumption; [|reflexivity].
    rewrite Hm, <- Hst2. cbn [set_merge add_skip add_include ps_merge]. rewrite Hm1. reflexivity.
  Qed.

  Lemma copy_included_unrelated d skip paths r r1 q :
    all_kpaths paths -> copy_included d skip paths r = Ok r1 ->
    (forall p', In p' paths -> str_mem p' skip = false -> unrelated (split_path p') q) ->
    dget (VDoc r1) q = dget (VDoc r) q.
  Proof.
    revert r. induction paths as [|p0 t IH]; intros r Hk H Hu.
    - cbn [copy_included] in H. inversion H. reflexivity.
    - assert (Hkt : all_kpaths t) by (intros p Hp; apply Hk; right; exact Hp).
      assert (Hut : forall p', In p' t -> str_mem p' skip = false -> unrelated (split_path p') q)
        by (intros p' Hp'; apply Hu; right; exact Hp').
      destruct (copy_included_step _ _ _ _ _ _ H) as [[_ H']|[old [r' [Hs [Hm [HP H']]]]]].
      + exact (IH r Hkt H' Hut).
      + rewrite (IH r' Hkt H' Hut).
        pose proof (Put_kpath_ok _ _ _ _ _ (Hk p0 (or_introl eq_refl)) Hm HP) as Hd.
        exact (dget_dset_unrelated _ _ _ _ _ Hd (Hu p0 (or_introl eq_refl) Hs)).
  Qed.

  Lemma included_keys_in pr k : In k (included_keys pr) -> exists v, In (k, v) pr.
  Proof.
    unfold included_keys. intro H. apply in_map_iff in H. destruct H as [[k' v] [E Hf]].
    apply filter_In in Hf. cbn [fst] in E. subst k'. exists v. tauto.
  Qed.

  (* absent when no element matches (p unrelated to every other path of the
     projection) *)
  Theorem elem_match_spec_none d pre post p q a r :
    forallb plain_entry pre = true -> forallb plain_entry post = true ->
    all_kpaths (map fst (pre ++ post)) -> kpath_str p = true -> root p <> "_id" ->
    (forall e, In e (pre ++ post) -> unrelated (split_path (fst e)) (split_path p)) ->
    Get d p = VArr a ->
    Forall (fun x => elem_matches matchf x q = Ok false) a ->
    Proj d (pre ++ (p, VDoc [("$elemMatch", VDoc q)]) :: post) = Ok r ->
    Get r p = VMissing.
  Proof.
    intros Hpre Hpost Hkall Hk Hroot Hu Ha Hnone H. unfold project_with, project_process in H.
    apply bind_ok in H. destruct H as [st [Hp Hs]].
    destruct (process_app _ _ _ _ _ Hp) as [st1 [H1 H2]].
    destruct (process_cons _ _ _ _ _ H2) as [st2 [H3 H4]].
    destruct (process_plain _ _ _ _ Hpre H1) as [Hi1 [Hm1 Hs1]].
    destruct (process_plain _ _ _ _ Hpost H4) as [Hi2 [Hm2 Hs2]].
    cbn [pstate0 ps_include ps_merge ps_skip app] in *.
    apply elem_entry_step in H3. unfold project_elem_match in H3. rewrite Ha in H3.
    rewrite (first_match_none a q Hnone) in H3. cbn [bind] in H3. inversion H3 as [Hst2].
    rewrite <- Hst2 in Hi2, Hm2, Hs2.
    cbn [add_skip add_include ps_include ps_merge ps_skip] in Hi2, Hm2, Hs2.
    rewrite Hs1 in Hs2. cbn [str_mem app] in Hs2. rewrite Hm1 in Hm2. rewrite Hi1 in Hi2.
    destruct (project_state_unfold _ _ _ Hs) as [r1 [r2 [Hb [Hmg Hr]]]].
    rewrite Hm2 in Hmg. cbn [apply_merges] in Hmg. inversion Hmg. subst r2.
    destruct Hb as [[_ [_ [old [r0 [H0 Hc]]]]]|[Hc _]];
      [|rewrite Hi2 in Hc; destruct (included_keys pre); discriminate].
    destruct (put_id _ _ _ H0) as [Hr0 [Hl Hmi]]. subst r0.
    rewrite (Get_kpath r p Hk). subst r.
    rewrite hide_id_get; [|apply split_path_nonempty|intros _; exact Hroot].
    rewrite Hs2, Hi2 in Hc.
    assert (Hkp : all_kpaths ((included_keys pre ++ [p]) ++ included_keys post)).
    { intros k Hin. apply in_app_or in Hin. destruct Hin as [Hin|Hin]; [apply in_app_or in Hin; destruct Hin as [Hin|[E|[]]]|].
      - destruct (included_keys_in _ _ Hin) as [v Hv]. apply Hkall.
        apply in_map_iff. exists (k, v). split; [reflexivity|apply in_or_app; left; exact Hv].
      - subst k. exact Hk.
      - destruct (included_keys_in _ _ Hin) as [v Hv]. apply Hkall.
        apply in_map_iff. exists (k, v). split; [reflexivity|apply in_or_app; right; exact Hv]. }
    rewrite (copy_included_unrelated d [p] _ _ r1 (split_path p) Hkp Hc).
    - destruct (root_split p) as [rest Hrs]. rewrite Hrs. cbn [dget lookup].
      destruct (String.eqb "_id" (root p)) eqn:E; [apply String.eqb_eq in E; congruence|reflexivity].
    - intros p' Hin Hsk.
      assert (Hin' : In p' (included_keys pre) \/ In p' (included_keys post)).
      { apply in_app_or in Hin. destruct Hin as [Hin|Hin]; [|tauto].
        apply in_app_or in Hin. destruct Hin as [Hin|[E|[]]]; [tauto|].
        subst p'. cbn [str_mem] in Hsk. rewrite String.eqb_refl in Hsk. discriminate. }
      destruct Hin' as [Hin'|Hin']; destruct (included_keys_in _ _ Hin') as [v Hv];
        apply (Hu (p', v)); apply in_or_app; tauto.
  Qed.

  (* -------------------------------------------------------------- *)
  (* C14: the source document *)

  Lemma source_after_id roots m src :
    (forall q v, In (q, v) m -> writes_through roots q = false) -> source_after roots m src = src.
  Proof.
    induction m as [|[q v] t IH]; intro H; [reflexivity|].
    cbn [source_after]. rewrite (H q v (or_introl eq_refl)).
    apply IH. intros q' v' Hin. apply (H q' v'). right. exact Hin.
  Qed.

  (* copied values make no alias root *)
  Lemma include_roots_copied d skip paths : include_roots Copied d skip paths [] = [].
  Proof.
    induction paths as [|p0 t IH]; cbn [include_roots]; [reflexivity|].
    destruct (str_mem p0 skip); [exact IH|]. destruct (is_missing (Get d p0)); exact IH.
  Qed.

  Lemma alias_roots_copied st d : alias_roots Copied st d = [].
  Proof. unfold alias_roots. destruct (ps_include st); [reflexivity|apply include_roots_copied]. Qed.

  Notation ProjSrc := (project_src_with matchf).

  Lemma project_src_result d pr r s : ProjSrc d pr = Ok (r, s) -> Proj d pr = Ok r.
  Proof.
    unfold project_src_with, project_src_gen, project_with. intro H. apply bind_ok in H. destruct H as [st [Hp H]].
    apply bind_ok in H. destruct H as [r' [Hs H]]. inversion H. subst. rewrite Hp. exact Hs.
  Qed.

  (* projecting never alters the source document: every value stored in the
     result is a private copy (cloneProjected, /repo 878ebea) *)
  Theorem project_pure d pr r s : ProjSrc d pr = Ok (r, s) -> s = d.
  Proof.
    unfold project_src_with, project_src_gen, stored_provenance. intro H.
    apply bind_ok in H. destruct H as [st [Hp H]].
    apply bind_ok in H. destruct H as [r' [Hs H]]. inversion H. subst r' s.
    rewrite alias_roots_copied. apply source_after_id. reflexivity.
  Qed.

  (* ... nor later results *)
  Corollary project_later_results d pr r s : ProjSrc d pr = Ok (r, s) -> Proj s pr = Ok r.
  Proof. intro H. rewrite (project_pure _ _ _ _ H). exact (project_src_result _ _ _ _ H). Qed.

  (* the source is reported for every successful projection *)
  Lemma project_src_total d pr r : Proj d pr = Ok r -> exists s, ProjSrc d pr = Ok (r, s).
  Proof.
    unfold project_with, project_src_with, project_src_gen. intro H.
    apply bind_ok in H. destruct H as [st [Hp Hs]]. rewrite Hp. cbn [bind]. rewrite Hs. cbn [bind]. eauto.
  Qed.

  (* order of the remaining top-level fields of an exclusion *)
  Theorem exclusion_order d pr r :
    plain_projection pr -> included_keys pr = [] -> nodup_keys (VDoc d) = true ->
    Proj d pr = Ok r -> subseq (map fst r) (map fst d).
  Proof.
    intros Hpp Hne Hnd H.
    pose proof (proj2 (proj2 (proj2 (exclusion_spec _ _ _ Hpp Hne Hnd H)))) as Hp.
    apply pruned_fields_keys. apply pruned_fields_of. exact Hp.
  Qed.

  (* -------------------------------------------------------------- *)
  (* Project never panics (for C20): given a matcher that does not. *)

  Lemma bind_no_panic {A B} (r : res A) (f : A -> res B) :
    r <> Panic -> (forall x, r = Ok x -> f x <> Panic) -> bind r f <> Panic.
  Proof. destruct r; cbn [bind]; intros H1 H2; try discriminate; [apply H2; reflexivity|congruence]. Qed.

  Lemma put_doc_result d k rest nv pre old v' :
    put (VDoc d) (k :: rest) nv pre = Some (old, v') -> exists d', v' = VDoc d'.
  Proof.
    cbn [put]. destruct (empty_path (k :: rest)); [discriminate|].
    match goal with |- match ?X with _ => _ end = _ -> _ => destruct X as [[[o d']|]|] end.
    - intro H. inversion H. eauto.
    - discriminate.
    - destruct (is_missing nv); [discriminate|]. destruct (put_new rest nv); [|discriminate].
      destruct pre; intro H; inversion H; eauto.
  Qed.

  Lemma Put_no_panic d ps v pre : Put d ps v pre <> Panic.
  Proof.
    unfold Put, put_path. destruct (is_missing v); [discriminate|].
    destruct (split_path ps) as [|k rest] eqn:E; [exfalso; exact (split_path_nonempty ps E)|].
    destruct (put (VDoc d) (k :: rest) v pre) as [[old v']|] eqn:Ep; [|discriminate].
    destruct (put_doc_result _ _ _ _ _ _ _ Ep) as [d' Hd]. subst v'. discriminate.
  Qed.

  Lemma copy_included_no_panic d skip paths r : copy_included d skip paths r <> Panic.
  Proof.
    revert r. induction paths as [|p0 t IH]; intro r; cbn [copy_included]; [discriminate|].
    destruct (str_mem p0 skip); [apply IH|]. destruct (is_missing (Get d p0)); [apply IH|].
    cbn [clone_projected bind]. apply bind_no_panic; [apply Put_no_panic|]. intros [o r'] _. apply IH.
  Qed.

  Lemma apply_merges_no_panic m r : apply_merges m r <> Panic.
  Proof.
    revert r. induction m as [|[q v] t IH]; intro r; cbn [apply_merges]; [discriminate|].
    cbn [clone_projected bind]. apply bind_no_panic; [apply Put_no_panic|]. intros [o r'] _. apply IH.
  Qed.

  Lemma project_state_no_panic st d : project_state st d <> Panic.
  Proof.
    unfold project_state.
    assert (Hrest : forall r1 : res doc, r1 <> Panic ->
              (let* r := r1 in let* r := apply_merges (ps_merge st) r in
               Ok (if ps_hide_id st then snd (Unset r "_id") else r)) <> Panic).
    { intros r1 H1. apply bind_no_panic; [exact H1|]. intros r _.
      apply bind_no_panic; [apply apply_merges_no_panic|]. discriminate. }
    destruct (ps_include st) as [|i0 il].
    - destruct (ps_exclude st); apply Hrest; discriminate.
    - destruct (ps_exclude st) as [|e0 el]; [|discriminate].
      apply Hrest. cbn [clone_projected bind].
      apply bind_no_panic; [apply Put_no_panic|]. intros [o r0] _. apply copy_included_no_panic.
  Qed.

  Section NoPanic.
    Hypothesis matchf_no_panic : forall x y, matchf x y <> Panic.
    Variable d : doc.
    (* every array of the document is shorter than any Go slice can be *)
    Hypothesis short_arrays : forall p a, Get d p = VArr a -> (len a < two63 - two31)%Z.

    Lemma first_match_no_panic a q : first_match matchf a q <> Panic.
    Proof.
      induction a as [|x t IH]; cbn [first_match]; [discriminate|].
      apply bind_no_panic; [apply matchf_no_panic|]. intros [|] _; [discriminate|exact IH].
    Qed.

    Lemma operator_no_panic o st k x (op : operator pstate) :
      wf x = true -> op_lookup pstate (ctx_expression pctx) o = Some op -> op st d o k x <> Panic.
    Proof.
      intros Hw Hl. cbn [ctx_expression projection_context projection_operators op_lookup] in Hl.
      destruct (String.eqb "" o).
      { inversion Hl. unfold project_condition.
        apply bind_no_panic.
        - unfold condition_value. destruct x; try discriminate;
            destruct (compare _ (VInt64 1)); try discriminate; destruct (compare _ (VInt64 0)); discriminate.
        - intros b _. destruct b; [discriminate|]. destruct (String.eqb k "_id"); discriminate. }
      destruct (String.eqb "$slice" o).
      { inversion Hl. destruct (slice_total st d o k x Hw (short_arrays k)) as [H|[st' H]]; rewrite H; discriminate. }
      destruct (String.eqb "$elemMatch" o); [|discriminate].
      inversion Hl. unfold project_elem_match. destruct x; try discriminate.
      destruct (Get d k); try discriminate.
      apply bind_no_panic; [apply first_match_no_panic|]. intros [item|] _; discriminate.
    Qed.

    Lemma wf_doc_in l k x : wf (VDoc l) = true -> In (k, x) l -> wf x = true.
    Proof.
      induction l as [|[k' y] l IH]; cbn [wf In]; [tauto|]. intro H.
      change (wf y && wf (VDoc l) = true) in H. apply andb_prop in H. destruct H as [Hy Hl].
      intros [E|Hin]; [inversion E; subst; exact Hy|exact (IH Hl Hin)].
    Qed.

    Lemma process_ops_no_panic st k exps :
      wf (VDoc exps) = true -> process_ops pctx st d k exps <> Panic.
    Proof.
      revert st. induction exps as [|[o x] t IH]; intros st Hw; cbn [process_ops]; [discriminate|].
      destruct (negb (is_operator_key o)); [discriminate|].
      destruct (op_lookup pstate (ctx_expression pctx) o) as [op|] eqn:El; [|discriminate].
      change (wf x && wf (VDoc t) = true) in Hw. apply andb_prop in Hw. destruct Hw as [Hx Ht].
      apply bind_no_panic; [exact (operator_no_panic o st k x op Hx El)|]. intros st' _. exact (IH st' Ht).
    Qed.

    Lemma process_expression_no_panic st k v :
      wf v = true -> process_expression pctx st d "" (k, v) true <> Panic.
    Proof.
      intro Hw. unfold process_expression. destruct (is_operator_key k); [discriminate|].
      cbn [join_prefix String.eqb].
      assert (Hs : match op_lookup pstate (ctx_expression pctx) "" with
                   | Some op => op st d "" k v
                   | None => if ctx_skip_missing pstate pctx then Ok st else Err
                   end <> Panic).
      { destruct (op_lookup pstate (ctx_expression pctx) "") as [op|] eqn:El; [|discriminate].
        exact (operator_no_panic "" st k v op Hw El). }
      destruct v; try exact Hs. destruct d0 as [|[k0 v0] t]; [exact Hs|].
      destruct (is_operator_key k0); [|exact Hs]. apply process_ops_no_panic. exact Hw.
    Qed.

    Lemma process_no_panic st pr : wf (VDoc pr) = true -> process pctx st d pr "" true <> Panic.
    Proof.
      revert st. induction pr as [|[k v] t IH]; intros st Hw; cbn [process]; [discriminate|].
      change (wf v && wf (VDoc t) = true) in Hw. apply andb_prop in Hw. destruct Hw as [Hv Ht].
      apply bind_no_panic; [exact (process_expression_no_panic st k v Hv)|]. intros st' _. exact (IH st' Ht).
    Qed.

    Theorem project_never_panics pr : wf (VDoc pr) = true -> Proj d pr <> Panic.
    Proof.
      intro Hw. unfold project_with, project_process.
      apply bind_no_panic; [apply process_no_panic; exact Hw|]. intros st _. apply project_state_no_panic.
    Qed.
  End NoPanic.

  (* History.  Before /repo 878ebea the values were stored as they came from
     bsonkit.Get (provenance Shared): the same definitions then give the
     write-through of the merge step that was recorded as
     C14:colliding-paths-write-through — witness {a: 1, "a.b": {$slice: 1}}
     on {_id: 7, a: {b: [1, 2, 3], c: 5}}, whose stored a.b became [1].  (The
     former C14_project_pure_refuted / C14_project_pure_partial.) *)
  Definition wt_doc : doc :=
    [("_id", VInt32 7); ("a", VDoc [("b", VArr [VInt32 1; VInt32 2; VInt32 3]); ("c", VInt32 5)])].
  Definition wt_projection : doc :=
    [("a", VInt32 1); ("a.b", VDoc [("$slice", VInt32 1)])].

  Lemma write_through_before_878ebea :
    exists r s, project_src_gen matchf Shared wt_doc wt_projection = Ok (r, s) /\ s <> wt_doc.
  Proof.
    exists [("_id", VInt32 7); ("a", VDoc [("b", VArr [VInt32 1]); ("c", VInt32 5)])].
    exists [("_id", VInt32 7); ("a", VDoc [("b", VArr [VInt32 1]); ("c", VInt32 5)])].
    split; [vm_compute; reflexivity|]. unfold wt_doc. intro H. discriminate H.
  Qed.
End WithMatch.
