(* DriverExtProofs.v — the catalog-level driver calls of Model/DriverExt.v
   (CreateCollection, ListCollections, ListDatabases, CreateMany):

   * histories of extended calls contain the histories of Driver calls
     (`xrun_lift`), and the catalog invariant of CatInv.v holds after every
     history of extended calls (`xstep_inv`, `xrun_inv`): C07 / C15 extend;
   * listings are pure and depend only on the view of their session (C03);
   * a failing CreateCollection changes nobody's view (C02); creating an
     existing collection changes nothing at all;
   * what a listing returns: exactly the specification documents of the
     namespaces of that database (resp. of the databases) in the session's
     view that the filter accepts, sorted by name (C01 for these calls);
   * CreateMany is the sequence of its CreateOne calls up to the first error;
   * no reply carries PANIC or FUEL for a matcher that never panics (C20). *)
From Coq Require Import List ZArith Lia Bool String Permutation.
From Lungo.Model Require Import Driver DriverExt.
From Lungo.Proofs Require Import CollInv TxnProofs OplogProofs DriverProofs CatInv HistoryInv
     SortProofs NoPanicBase NoPanicOps NoPanicColl NoPanicDriver.
Import ListNotations.
Open Scope Z_scope.
Open Scope list_scope.

Section DriverExtProofs.
  Variable matchf : doc -> doc -> res bool.
  Variable applyf : doc -> doc -> doc -> bool -> list doc -> Z -> res (doc * list (string * value)).
  Variable extractf : doc -> res doc.
  Variable projectf : doc -> doc -> res doc.
  Variable now : Z.

  Local Notation step := (Driver.step matchf applyf extractf projectf now).
  Local Notation run := (Driver.run matchf applyf extractf projectf now).
  Local Notation xstep := (DriverExt.xstep matchf applyf extractf projectf now).
  Local Notation xrun := (DriverExt.xrun matchf applyf extractf projectf now).
  Local Notation create_many := (DriverExt.create_many matchf applyf extractf projectf now).
  Local Notation ds_inv := (HistoryInv.ds_inv matchf).

  (* ---------------------------------------------------------------- *)
  (* histories of Driver calls are histories of extended calls *)

  Theorem xrun_lift cs : forall ds,
    xrun ds (lift_calls cs) = (fst (run ds cs), map XR (snd (run ds cs))).
  Proof.
    induction cs as [|c t IH]; intro ds; cbn [lift_calls map DriverExt.xrun Driver.run fst snd]; [reflexivity|].
    cbn [DriverExt.xstep]. destruct (step ds c) as [ds1 r].
    fold (lift_calls t). rewrite IH. destruct (run ds1 t) as [ds2 rs]. reflexivity.
  Qed.

  (* ---------------------------------------------------------------- *)
  (* the invariant *)

  Lemma create_many_inv specs : forall ds sid h acc,
    ds_inv ds -> ds_inv (fst (create_many ds sid h specs acc)).
  Proof.
    induction specs as [|sp t IH]; intros ds sid h acc Hd; cbn [DriverExt.create_many fst]; [exact Hd|].
    pose proof (step_inv matchf applyf extractf projectf now ds (create_index_call sid h sp) Hd) as H1.
    destruct (step ds (create_index_call sid h sp)) as [ds1 r]. cbn [fst] in H1.
    destruct r; cbn [fst]; try exact H1. apply IH. exact H1.
  Qed.

  Theorem xstep_inv ds x : ds_inv ds -> ds_inv (fst (xstep ds x)).
  Proof.
    intro Hd. destruct x as [c|sid h|sid db q|sid q|sid h specs]; cbn [DriverExt.xstep].
    - pose proof (step_inv matchf applyf extractf projectf now ds c Hd) as H1.
      destruct (step ds c) as [ds1 r]. exact H1.
    - rewrite fst_let. apply use_direct_inv; auto.
      apply (fn_ok_nogen matchf (fun cat => txn_create cat h)).
      intros c c' r Hc. apply txn_create_inv. exact Hc.
    - exact Hd.
    - exact Hd.
    - apply create_many_inv. exact Hd.
  Qed.

  Lemma xrun_inv_from xs : forall ds, ds_inv ds -> ds_inv (fst (xrun ds xs)).
  Proof.
    induction xs as [|x t IH]; intros ds Hd; cbn [DriverExt.xrun]; [exact Hd|].
    pose proof (xstep_inv ds x Hd) as H1.
    destruct (xstep ds x) as [ds1 r]. cbn [fst] in H1.
    specialize (IH ds1 H1). destruct (xrun ds1 t) as [ds2 rs]. exact IH.
  Qed.

  (* after every history of extended calls *)
  Theorem xrun_inv xs : ds_inv (fst (xrun d_init xs)).
  Proof. apply xrun_inv_from. apply d_init_inv. Qed.

  (* ... hence every visible catalog satisfies the catalog invariant: indexes
     exact, `_id_` present, unique keys unique (all consequences of cat_inv
     proved in CatInv.v / HistoryProps.v apply) *)
  Theorem xreachable_cat_inv xs c :
    visible_cat (fst (xrun d_init xs)) c ->
    CatInv.cat_inv matchf c (g_did (ds_gen (fst (xrun d_init xs)))).
  Proof. intro V. eapply visible_inv; [apply xrun_inv|exact V]. Qed.

  (* ---------------------------------------------------------------- *)
  (* C03: listings are reads of the session's view *)

  Theorem listing_pure ds x : x_is_listing x = true -> fst (xstep ds x) = ds.
  Proof. destruct x; cbn; intro H; try discriminate; reflexivity. Qed.

  Theorem list_collections_depends_on_view ds1 ds2 sid db q :
    view ds1 sid = view ds2 sid ->
    snd (xstep ds1 (XListColls sid db q)) = snd (xstep ds2 (XListColls sid db q)).
  Proof. unfold view. cbn [DriverExt.xstep snd]. intros ->. reflexivity. Qed.

  Theorem list_databases_depends_on_view ds1 ds2 sid q :
    view ds1 sid = view ds2 sid ->
    snd (xstep ds1 (XListDbs sid q)) = snd (xstep ds2 (XListDbs sid q)).
  Proof. unfold view. cbn [DriverExt.xstep snd]. intros ->. reflexivity. Qed.

  (* ---------------------------------------------------------------- *)
  (* C02: a failing CreateCollection changes nobody's view; it never touches
     a session transaction; creating what exists changes nothing *)

  Theorem create_coll_error_noop ds sid h ds' e :
    xstep ds (XCreateColl sid h) = (ds', XR (RErr e)) -> same_views ds ds'.
  Proof.
    cbn [DriverExt.xstep].
    destruct (use_direct ds sid _) as [ds1 r] eqn:U. intro H; inversion H; subst; clear H.
    destruct r as [u|k]; [discriminate|]. eapply use_direct_error_noop; eauto.
  Qed.

  Theorem create_coll_in_session_rejected ds sid h tc :
    routed ds sid = Some tc -> xstep ds (XCreateColl sid h) = (ds, XR (RErr EErr)).
  Proof. intro R. cbn [DriverExt.xstep]. unfold use_direct. rewrite R. reflexivity. Qed.

  Theorem create_coll_existing_noop ds sid h nc :
    ns_get (cat_ns (ds_cat ds)) h = Some nc -> fst (xstep ds (XCreateColl sid h)) = ds.
  Proof.
    intro G. cbn [DriverExt.xstep]. rewrite fst_let. unfold use_direct.
    destruct (routed ds sid); [reflexivity|]. destruct (token_held ds); [reflexivity|].
    unfold txn_create. destruct (guard_write h); cbn [fst]; [destruct ds; reflexivity|].
    rewrite G. cbn [fst]. destruct ds; reflexivity.
  Qed.

  (* a successful CreateCollection: the namespace exists afterwards, every
     other namespace is the one it was *)
  Lemma handle_eqb_refl h : handle_eqb h h = true.
  Proof. unfold handle_eqb. rewrite !String.eqb_refl. reflexivity. Qed.

  Lemma ns_get_set_same l h c : ns_get (ns_set l h c) h = Some c.
  Proof.
    induction l as [|[k x] t IH]; cbn [ns_set ns_get].
    - rewrite handle_eqb_refl. reflexivity.
    - destruct (handle_eqb k h) eqn:E; cbn [ns_get].
      + rewrite handle_eqb_refl. reflexivity.
      + rewrite E. exact IH.
  Qed.

  Theorem create_coll_creates ds sid h ds' :
    xstep ds (XCreateColl sid h) = (ds', XR ROk) ->
    (exists nc, ns_get (cat_ns (ds_cat ds')) h = Some nc) /\
    (forall k, k <> h -> ns_get (cat_ns (ds_cat ds')) k = ns_get (cat_ns (ds_cat ds)) k) /\
    ds_sessions ds' = ds_sessions ds.
  Proof.
    cbn [DriverExt.xstep]. unfold use_direct.
    destruct (routed ds sid); [intro H; inversion H|].
    destruct (token_held ds); [intro H; inversion H|].
    unfold txn_create. destruct (guard_write h); [intro H; inversion H|].
    destruct (ns_get (cat_ns (ds_cat ds)) h) as [nc|] eqn:G; intro H; inversion H; subst; cbn [ds_cat ds_sessions cat_ns].
    - split; [exists nc; exact G|]. split; [intros; reflexivity|reflexivity].
    - split; [eexists; apply ns_get_set_same|]. split; [|reflexivity].
      intros k N. apply CatInv.ns_get_set_other. exact N.
  Qed.

  (* ---------------------------------------------------------------- *)
  (* what a listing returns *)

  (* the filter pass followed by the sort: a permutation of the accepted
     documents, sorted by name; an error iff the matcher fails on a document *)
  Lemma filter_sorted_ok l q :
    no_error (fun d => matchf d q) l ->
    filter_sorted matchf l q = inl (stable_sort by_name (filter (selb (fun d => matchf d q)) l)).
  Proof.
    intro NE. unfold filter_sorted. rewrite (select_spec _ l 0 NE). reflexivity.
  Qed.

  Lemma filter_sorted_in l q res :
    no_error (fun d => matchf d q) l -> filter_sorted matchf l q = inl res ->
    forall d, In d res <-> In d l /\ matchf d q = Ok true.
  Proof.
    intros NE H d. rewrite (filter_sorted_ok l q NE) in H. inversion H; subst; clear H.
    pose proof (stable_sort_perm by_name (filter (selb (fun d => matchf d q)) l)) as P.
    split.
    - intro Hi. apply (Permutation_in _ (Permutation_sym P)) in Hi.
      apply filter_In in Hi. destruct Hi as [Hi Hs]. split; [exact Hi|].
      unfold selb in Hs. destruct (matchf d q) as [[|]| | | |]; try discriminate. reflexivity.
    - intros [Hi Hm]. apply (Permutation_in _ P). apply filter_In. split; [exact Hi|].
      unfold selb. rewrite Hm. reflexivity.
  Qed.

  Lemma filter_sorted_length l q res :
    no_error (fun d => matchf d q) l -> filter_sorted matchf l q = inl res ->
    List.length res = List.length (filter (selb (fun d => matchf d q)) l).
  Proof.
    intros NE H. rewrite (filter_sorted_ok l q NE) in H. inversion H; subst.
    symmetry. apply Permutation_length. apply stable_sort_perm.
  Qed.

  (* ... and it IS sorted by name (bsonkit.Sort on "name": stable, by the BSON
     order of the names) *)
  Theorem filter_sorted_sorted l q res :
    no_error (fun d => matchf d q) l -> filter_sorted matchf l q = inl res ->
    sorted by_name res.
  Proof.
    intros NE H. rewrite (filter_sorted_ok l q NE) in H. inversion H; subst.
    apply (stable_sort_sorted by_name (order_total [("name"%string, false)])).
  Qed.

  (* ListCollections: exactly the specifications of the namespaces of `db` in
     the catalog that the filter accepts *)
  Theorem list_collections_spec c db q res :
    no_error (fun d => matchf d q) (map (fun hc => coll_spec (fst hc))
                                        (filter (fun hc => String.eqb (fst (fst hc)) db) (cat_ns c))) ->
    txn_list_collections matchf c db q = inl res ->
    forall d, In d res <->
              exists name nc, In ((db, name), nc) (cat_ns c) /\ d = coll_spec (db, name) /\ matchf d q = Ok true.
  Proof.
    intros NE. unfold txn_list_collections.
    destruct (negb (valid_handle (db, ""%string) false)); [discriminate|]. intro H.
    intro d. rewrite (filter_sorted_in _ q res NE H d). split.
    - intros [Hi Hm]. apply in_map_iff in Hi. destruct Hi as [[[db' name] nc] [E Hi]].
      apply filter_In in Hi. destruct Hi as [Hi Hdb]. cbn [fst] in *.
      apply String.eqb_eq in Hdb. subst db'. exists name, nc. split; [exact Hi|]. split; [symmetry; exact E|exact Hm].
    - intros [name [nc [Hi [-> Hm]]]]. split; [|exact Hm].
      apply in_map_iff. exists ((db, name), nc). split; [reflexivity|].
      apply filter_In. split; [exact Hi|]. cbn [fst]. apply String.eqb_refl.
  Qed.

  (* an invalid database name is an error (Handle.Validate(false)) *)
  Theorem list_collections_invalid_db c db q :
    valid_handle (db, ""%string) false = false -> txn_list_collections matchf c db q = inr EErr.
  Proof. intro V. unfold txn_list_collections. rewrite V. reflexivity. Qed.

  (* the matcher fails on a specification document: the listing fails *)
  Theorem filter_sorted_error l1 x l2 q :
    no_error (fun d => matchf d q) l1 -> (forall b, matchf x q <> Ok b) ->
    exists e, filter_sorted matchf (l1 ++ x :: l2) q = inr e.
  Proof.
    intros NE Hx. unfold filter_sorted.
    rewrite (select_error (fun d => matchf d q) l1 x l2 0 NE Hx). cbn [Z.ltb andb bind].
    change (0 <? 0) with false. cbn [andb bind].
    destruct (matchf x q) as [b| | | |]; try (eexists; reflexivity).
    exfalso. exact (Hx b eq_refl).
  Qed.

  (* the database names of a catalog *)
  Lemma db_names_in l : forall seen db,
    In db (db_names l seen) <-> (exists h nc, In (h, nc) l /\ fst h = db) /\ ~ In db seen.
  Proof.
    induction l as [|[h nc] t IH]; intros seen db; cbn [db_names].
    - split; [intros []|intros [[h [nc [[] _]]] _]].
    - destruct (existsb (String.eqb (fst h)) seen) eqn:E.
      + rewrite IH. split.
        * intros [[h' [nc' [Hi Hf]]] Hn]. split; [|exact Hn]. exists h', nc'. split; [right; exact Hi|exact Hf].
        * intros [[h' [nc' [[Hi|Hi] Hf]]] Hn]; (split; [|exact Hn]).
          -- inversion Hi; subst. exfalso. apply Hn.
             apply existsb_exists in E. destruct E as [s [Hs He]]. apply String.eqb_eq in He. subst s. exact Hs.
          -- exists h', nc'. split; assumption.
      + cbn [In]. rewrite IH. split.
        * intros [Hd|[[h' [nc' [Hi Hf]]] Hn]].
          -- subst db. split; [exists h, nc; split; [left; reflexivity|reflexivity]|].
             intro Hs. assert (existsb (String.eqb (fst h)) seen = true) as X.
             { apply existsb_exists. exists (fst h). split; [exact Hs|apply String.eqb_refl]. }
             congruence.
          -- split; [exists h', nc'; split; [right; exact Hi|exact Hf]|]. intro Hs. apply Hn. right. exact Hs.
        * intros [[h' [nc' [[Hi|Hi] Hf]]] Hn].
          -- inversion Hi; subst. left. reflexivity.
          -- destruct (String.eqb (fst h) db) eqn:Ed.
             ++ apply String.eqb_eq in Ed. left. exact Ed.
             ++ right. split; [exists h', nc'; split; assumption|].
                intros [Hs|Hs]; [apply String.eqb_neq in Ed; congruence|exact (Hn Hs)].
  Qed.

  Lemma db_names_nodup l : forall seen, NoDup (db_names l seen).
  Proof.
    induction l as [|[h nc] t IH]; intro seen; cbn [db_names]; [constructor|].
    destruct (existsb (String.eqb (fst h)) seen); [apply IH|].
    constructor; [|apply IH]. intro Hi. apply db_names_in in Hi. destruct Hi as [_ Hn]. apply Hn. left. reflexivity.
  Qed.

  (* "empty" of a database specification: no namespace of that database holds a document *)
  Theorem db_empty_spec l db :
    db_empty l db = true <-> forall h nc, In (h, nc) l -> fst h = db -> c_docs nc = [].
  Proof.
    unfold db_empty. rewrite forallb_forall. split.
    - intros H h nc Hi Hf. specialize (H (h, nc) Hi). cbn [fst snd] in H.
      rewrite Hf, String.eqb_refl in H. cbn [negb orb] in H. destruct (c_docs nc); [reflexivity|discriminate].
    - intros H [h nc] Hi. cbn [fst snd]. destruct (String.eqb (fst h) db) eqn:E; cbn [negb orb]; [|reflexivity].
      apply String.eqb_eq in E. rewrite (H h nc Hi E). reflexivity.
  Qed.

  (* ListDatabases: one specification per database that owns a namespace in
     the catalog (each once), those the filter accepts *)
  Theorem list_databases_spec c q res :
    no_error (fun d => matchf d q) (map (db_spec (cat_ns c)) (db_names (cat_ns c) [])) ->
    txn_list_databases matchf c q = inl res ->
    forall d, In d res <->
              exists db, (exists h nc, In (h, nc) (cat_ns c) /\ fst h = db) /\
                         d = db_spec (cat_ns c) db /\ matchf d q = Ok true.
  Proof.
    intros NE H d. unfold txn_list_databases in H.
    rewrite (filter_sorted_in _ q res NE H d). split.
    - intros [Hi Hm]. apply in_map_iff in Hi. destruct Hi as [db [E Hi]].
      apply db_names_in in Hi. destruct Hi as [Hi _]. exists db. split; [exact Hi|]. split; [symmetry; exact E|exact Hm].
    - intros [db [Hi [-> Hm]]]. split; [|exact Hm]. apply in_map_iff. exists db. split; [reflexivity|].
      apply db_names_in. split; [exact Hi|intros []].
  Qed.

  (* every database is listed at most once: the names of a ListDatabases
     result are pairwise distinct *)
  Lemma nodup_map_filter {A B} (h : A -> B) (f : A -> bool) l :
    NoDup (map h l) -> NoDup (map h (filter f l)).
  Proof.
    induction l as [|x t IH]; cbn [map filter]; intro H; [constructor|].
    inversion H as [|? ? Hn Ht]; subst. destruct (f x); cbn [map]; [|apply IH; exact Ht].
    constructor; [|apply IH; exact Ht].
    intro Hin. apply Hn. apply in_map_iff in Hin. destruct Hin as [y [E Hy]].
    apply filter_In in Hy. apply in_map_iff. exists y. split; [exact E|apply Hy].
  Qed.

  Theorem list_databases_names_distinct c q res :
    no_error (fun d => matchf d q) (map (db_spec (cat_ns c)) (db_names (cat_ns c) [])) ->
    txn_list_databases matchf c q = inl res ->
    NoDup (names_of res).
  Proof.
    intros NE H. unfold txn_list_databases in H. rewrite (filter_sorted_ok _ q NE) in H.
    inversion H; subst; clear H. unfold names_of.
    eapply Permutation_NoDup.
    - apply Permutation_map. apply stable_sort_perm.
    - apply nodup_map_filter. rewrite map_map. cbn [db_spec Get].
      assert (E : map (fun x => Get (db_spec (cat_ns c) x) "name") (db_names (cat_ns c) []) =
                  map VString (db_names (cat_ns c) [])).
      { apply map_ext. intro x. reflexivity. }
      rewrite E. apply FinFun.Injective_map_NoDup; [|apply db_names_nodup].
      intros a b Hab. inversion Hab. reflexivity.
  Qed.

  (* ---------------------------------------------------------------- *)
  (* listings follow the writes: a created collection is listed, a dropped
     one is not *)

  (* a successful CreateCollection followed by a listing of its database with
     a filter that accepts everything: the new collection's specification is
     in the result *)
  Theorem created_collection_is_listed ds sid h ds' q res :
    (forall d, matchf d q = Ok true) ->
    xstep ds (XCreateColl sid h) = (ds', XR ROk) ->
    txn_list_collections matchf (ds_cat ds') (fst h) q = inl res ->
    In (coll_spec h) res.
  Proof.
    intros Hq Hc Hl. destruct (create_coll_creates ds sid h ds' Hc) as [[nc G] _].
    apply CatInv.ns_get_in in G.
    assert (NE : no_error (fun d => matchf d q)
                   (map (fun hc => coll_spec (fst hc))
                        (filter (fun hc => String.eqb (fst (fst hc)) (fst h)) (cat_ns (ds_cat ds'))))).
    { intros d _. exists true. apply Hq. }
    apply (proj2 (list_collections_spec (ds_cat ds') (fst h) q res NE Hl (coll_spec h))).
    exists (snd h), nc. destruct h as [db co]. cbn [fst snd]. split; [exact G|]. split; [reflexivity|apply Hq].
  Qed.

  (* Transaction.Drop of one collection: it is gone afterwards *)
  Lemma drop_matches_self h : drop_matches h h = true.
  Proof. unfold drop_matches. rewrite handle_eqb_refl. reflexivity. Qed.

  Theorem txn_drop_removes c g h c' g' :
    txn_drop c g h = (c', g', inl tt) -> handle_eqb h oplog_handle = false ->
    ns_get (cat_ns c') h = None.
  Proof.
    unfold txn_drop. destruct (negb (valid_handle h false)); [intro H; inversion H|].
    destruct (is_local h); [intro H; inversion H|].
    destruct (map fst (filter (fun kc => drop_matches h (fst kc)) (cat_ns c))) as [|v vs] eqn:V.
    - intros H Ho. inversion H; subst. apply CatInv.ns_get_none. intro Hin.
      apply in_map_iff in Hin. destruct Hin as [[k x] [E Hin]]. cbn [fst] in E. subst k.
      assert (X : In h (map fst (filter (fun kc => drop_matches h (fst kc)) (cat_ns c')))).
      { apply in_map_iff. exists (h, x). split; [reflexivity|]. apply filter_In. split; [exact Hin|].
        cbn [fst]. apply drop_matches_self. }
      rewrite V in X. exact X.
    - destruct (drop_events _ _ _ _) as [[ol cl] g1].
      destruct (if String.eqb (snd h) "" then _ else _) as [[ol2 cl2] g2].
      intros H Ho. inversion H; subst. cbn [cat_ns].
      rewrite CatInv.ns_get_set_other.
      + apply CatInv.ns_get_none. intro Hin. apply in_map_iff in Hin. destruct Hin as [[k x] [E Hin]].
        cbn [fst] in E. subst k. apply filter_In in Hin. destruct Hin as [_ Hn]. cbn [fst] in Hn.
        rewrite drop_matches_self in Hn. discriminate.
      + intro E. subst h. rewrite handle_eqb_refl in Ho. discriminate.
  Qed.

  (* Collection.Drop through the driver: afterwards no listing of its database
     contains the collection, whatever the filter *)
  Theorem dropped_collection_is_not_listed ds sid h ds' q res :
    step ds (CDropColl sid h) = (ds', ROk) ->
    no_error (fun d => matchf d q)
             (map (fun hc => coll_spec (fst hc))
                  (filter (fun hc => String.eqb (fst (fst hc)) (fst h)) (cat_ns (ds_cat ds')))) ->
    txn_list_collections matchf (ds_cat ds') (fst h) q = inl res ->
    ~ In (coll_spec h) res.
  Proof.
    cbn [Driver.step]. unfold use_direct.
    destruct (routed ds sid); [intro H; inversion H|].
    destruct (token_held ds); [intro H; inversion H|].
    destruct (txn_drop (ds_cat ds) (ds_gen ds) h) as [[c' g'] r] eqn:D.
    destruct r as [[]|e]; intro H; inversion H; subst; clear H. cbn [ds_cat].
    intros NE Hl Hin.
    assert (Ho : handle_eqb h oplog_handle = false).
    { unfold txn_drop in D. destruct (negb (valid_handle h false)); [inversion D|].
      destruct (is_local h) eqn:L; [inversion D|].
      destruct (handle_eqb h oplog_handle) eqn:E; [|reflexivity].
      unfold handle_eqb in E. apply andb_true_iff in E. destruct E as [E _].
      unfold is_local in L. unfold oplog_handle in E. cbn [fst] in E. congruence. }
    pose proof (txn_drop_removes _ _ _ _ _ D Ho) as G.
    apply (proj1 (list_collections_spec c' (fst h) q res NE Hl (coll_spec h))) in Hin.
    destruct Hin as [name [nc [Hi [E _]]]].
    assert (name = snd h).
    { unfold coll_spec in E. cbn [fst snd] in E. inversion E. reflexivity. }
    subst name. destruct h as [db co]. cbn [fst snd] in *.
    apply CatInv.ns_get_none in G. apply G. apply in_map_iff. exists ((db, co), nc). split; [reflexivity|exact Hi].
  Qed.

  (* ---------------------------------------------------------------- *)
  (* CreateMany = its CreateOne calls, in order, up to the first error *)

  Theorem create_many_nil ds sid h acc : create_many ds sid h [] acc = (ds, XNames acc None).
  Proof. reflexivity. Qed.

  Theorem create_many_ok_step ds sid h sp t acc ds1 n :
    step ds (create_index_call sid h sp) = (ds1, RName n) ->
    create_many ds sid h (sp :: t) acc = create_many ds1 sid h t (acc ++ [n]).
  Proof. intro E. cbn [DriverExt.create_many]. rewrite E. reflexivity. Qed.

  Theorem create_many_stops_at_error ds sid h sp t acc ds1 e :
    step ds (create_index_call sid h sp) = (ds1, RErr e) ->
    create_many ds sid h (sp :: t) acc = (ds1, XNames acc (Some e)) /\ same_views ds ds1.
  Proof.
    intro E. split; [cbn [DriverExt.create_many]; rewrite E; reflexivity|].
    eapply step_error_noop; [|exact E]. unfold create_index_call. apply sw_create.
  Qed.

  (* the state after CreateMany is the state after running its CreateOne
     calls as far as they succeed: a prefix of the history *)
  Theorem create_many_is_prefix_run specs : forall ds sid h acc,
    exists k, (k <= List.length specs)%nat /\
              fst (create_many ds sid h specs acc) =
              fst (run ds (map (create_index_call sid h) (firstn k specs))).
  Proof.
    induction specs as [|sp t IH]; intros ds sid h acc.
    - exists 0%nat. split; [cbn; lia|reflexivity].
    - cbn [DriverExt.create_many].
      destruct (step ds (create_index_call sid h sp)) as [ds1 r] eqn:E.
      assert (Hone : fst (run ds (map (create_index_call sid h) (firstn 1 (sp :: t)))) = ds1).
      { cbn [firstn map Driver.run]. rewrite E. reflexivity. }
      destruct r; try (exists 1%nat; split; [cbn; lia|cbn [fst]; symmetry; exact Hone]).
      destruct (IH ds1 sid h (acc ++ [s])) as [k [Hk Hr]].
      exists (S k). split; [cbn; lia|].
      rewrite Hr. cbn [firstn map Driver.run]. rewrite E.
      destruct (run ds1 (map (create_index_call sid h) (firstn k t))) as [ds2 rs]. reflexivity.
  Qed.

End DriverExtProofs.

(* ------------------------------------------------------------------ *)
(* C20: no PANIC / FUEL in a reply of an extended call *)

Definition xreply_ok (r : xreply) : Prop :=
  match r with
  | XR r => reply_ok r
  | XNames _ e => oek_ok e
  end.

Section DriverExtSafe.
  Variable matchf : doc -> doc -> res bool.
  Variable applyf : doc -> doc -> doc -> bool -> list doc -> Z -> res (doc * list (string * value)).
  Variable extractf : doc -> res doc.
  Variable projectf : doc -> doc -> res doc.
  Variable now : Z.

  Hypothesis matchf_safe : forall d q, safe (matchf d q).
  Hypothesis applyf_safe : forall d q u up afs now, safe (applyf d q u up afs now).
  Hypothesis extractf_safe : forall q, safe (extractf q).
  Variable okp : doc -> Prop.
  Hypothesis projectf_safe : forall d p, okp p -> safe (projectf d p).

  Local Notation step := (Driver.step matchf applyf extractf projectf now).
  Local Notation xstep := (DriverExt.xstep matchf applyf extractf projectf now).
  Local Notation xrun := (DriverExt.xrun matchf applyf extractf projectf now).
  Local Notation create_many := (DriverExt.create_many matchf applyf extractf projectf now).

  Definition xcall_ok (x : xcall) : Prop :=
    match x with XBase c => call_ok okp c | _ => True end.

  Lemma filter_sorted_ek_ok l q :
    match filter_sorted matchf l q with inl _ => True | inr e => ek_ok e end.
  Proof.
    unfold filter_sorted.
    pose proof (select_go_safe (fun d => matchf d q) l (fun d => matchf_safe d q) 0 0) as S.
    unfold select. destruct (select_go (fun d => matchf d q) l 0 0); cbn in *; tauto.
  Qed.

  Lemma create_many_reply_ok specs : forall ds sid h acc,
    xreply_ok (snd (create_many ds sid h specs acc)).
  Proof.
    induction specs as [|sp t IH]; intros ds sid h acc; cbn [DriverExt.create_many snd]; [exact I|].
    pose proof (step_reply_ok matchf applyf extractf projectf now matchf_safe applyf_safe extractf_safe
                  okp projectf_safe ds (create_index_call sid h sp) I) as H.
    destruct (step ds (create_index_call sid h sp)) as [ds1 r]. cbn [snd] in H.
    destruct r; cbn [snd xreply_ok oek_ok]; try exact I; try exact H. apply IH.
  Qed.

  Theorem xstep_reply_ok ds x : xcall_ok x -> xreply_ok (snd (xstep ds x)).
  Proof.
    intro Hx. destruct x as [c|sid h|sid db q|sid q|sid h specs]; cbn [DriverExt.xstep].
    - pose proof (step_reply_ok matchf applyf extractf projectf now matchf_safe applyf_safe extractf_safe
                    okp projectf_safe ds c Hx) as H.
      destruct (step ds c) as [ds1 r]. exact H.
    - destruct (use_direct ds sid _) as [ds1 r] eqn:U. cbn [snd xreply_ok].
      assert (P : match r with inr e => ek_ok e | inl _ => True end).
      { replace r with (snd (use_direct ds sid (fun cat g => let '(c', r) := txn_create cat h in (c', g, r))))
          by (rewrite U; reflexivity).
        apply (use_direct_ok (fun r : unit + ekind => match r with inr e => ek_ok e | inl _ => True end)).
        - cbn. tauto.
        - intros cat g. unfold txn_create. destruct (guard_write h) as [e|] eqn:G.
          + cbn [snd]. unfold guard_write in G.
            destruct (negb (valid_handle h true)); [inversion G; cbn; tauto|].
            destruct (is_local h); inversion G; cbn; tauto.
          + destruct (ns_get (cat_ns cat) h); exact I. }
      destruct r; cbn [reply_ok]; [exact I|exact P].
    - cbn [snd xreply_ok]. unfold txn_list_collections.
      destruct (negb (valid_handle (db, ""%string) false)); [cbn; tauto|].
      match goal with |- context [filter_sorted matchf ?l q] =>
        pose proof (filter_sorted_ek_ok l q) as H; destruct (filter_sorted matchf l q) end; [exact I|exact H].
    - cbn [snd xreply_ok]. unfold txn_list_databases.
      match goal with |- context [filter_sorted matchf ?l q] =>
        pose proof (filter_sorted_ek_ok l q) as H; destruct (filter_sorted matchf l q) end; [exact I|exact H].
    - apply create_many_reply_ok.
  Qed.

  (* over histories: every call of every history of extended calls is answered *)
  Theorem xrun_replies_ok xs : forall ds, Forall xcall_ok xs -> Forall xreply_ok (snd (xrun ds xs)).
  Proof.
    induction xs as [|x t IH]; intros ds Hx; cbn [DriverExt.xrun]; [constructor|].
    inversion Hx as [|x0 l0 H1 H2]; subst.
    pose proof (xstep_reply_ok ds x H1) as R.
    destruct (xstep ds x) as [ds1 r]. specialize (IH ds1 H2).
    destruct (xrun ds1 t) as [ds2 rs]. cbn [snd] in *. constructor; assumption.
  Qed.
End DriverExtSafe.
