(* CollInv.v — the collection invariant (C15 index coherence, C07 uniqueness)
   and its preservation by every operation of Model/Collection.v, the content
   lemmas (which documents a successful operation leaves), the index
   catalogue lemmas, "an index equals its rebuild", and the exactness of
   uniqueness rejections at operation level.  Parametric in the operator
   semantics (matchf, applyf, extractf), as the model. *)
From Coq Require Import List ZArith Lia Bool Permutation.
From Lungo.Model Require Import Collection.
From Lungo.Proofs Require Import OrderLaws CompareOrder EntryLemmas IndexInv CollLists.
Import ListNotations.
Open Scope Z_scope.

Lemma or_False_iff (x : sdoc) (c : coll) : (False \/ In x (c_docs c)) <-> In x (c_docs c).
Proof. tauto. Qed.

Section CollInv.
  Set Default Proof Using "Type".
  Variable matchf : doc -> doc -> res bool.
  Variable applyf : doc -> doc -> doc -> bool -> list doc -> Z -> res (doc * list (string * value)).
  Variable extractf : doc -> res doc.

  Local Notation covered := (Collection.covered matchf).
  Local Notation add_all := (Collection.add_all matchf).
  Local Notation swap_all := (Collection.swap_all matchf).
  Local Notation remove_docs := (Collection.remove_docs matchf).
  Local Notation add_docs := (Collection.add_docs matchf).
  Local Notation build := (Collection.build matchf).
  Local Notation find_list := (Collection.find_list matchf).
  Local Notation apply_list := (Collection.apply_list applyf).
  Local Notation upsert_doc := (Collection.upsert_doc applyf extractf).
  Local Notation coll_find := (Collection.coll_find matchf).
  Local Notation coll_insert := (Collection.coll_insert matchf).
  Local Notation coll_replace := (Collection.coll_replace matchf).
  Local Notation coll_update := (Collection.coll_update matchf applyf).
  Local Notation coll_upsert := (Collection.coll_upsert matchf applyf extractf).
  Local Notation coll_delete := (Collection.coll_delete matchf).
  Local Notation coll_create_index := (Collection.coll_create_index matchf).
  Local Notation ix_ok := (IndexInv.ix_ok matchf).
  Local Notation ix_unique_ok := (IndexInv.ix_unique_ok matchf).
  Local Notation ix_good := (IndexInv.ix_good matchf).
  Local Notation ixs_good := (IndexInv.ixs_good matchf).
  Local Notation covers_ok := (IndexInv.covers_ok matchf).
  Local Notation keyed := (IndexInv.keyed matchf).
  Local Notation dup_in := (IndexInv.dup_in matchf).
  Local Notation dup_pair := (IndexInv.dup_pair matchf).

  (* ---------------------------------------------------------------- *)
  (* the invariant *)

  Definition docs_of (c : coll) : sdoc -> Prop := fun sd => In sd (c_docs c).

  Definition coll_inv (c : coll) : Prop :=
    NoDup (map fst (c_docs c)) /\
    NoDup (map fst (c_indexes c)) /\
    Forall (fun ni => ix_ok (docs_of c) (snd ni) /\
                      ix_unique_ok (docs_of c) (snd ni) /\
                      ix_wf (snd ni)) (c_indexes c).

  Definition has_id_index (c : coll) : Prop :=
    exists ix, find_index (c_indexes c) "_id_" = Some ix /\ ix_config ix = id_config.

  Definition ids_lt (c : coll) (n : did) : Prop :=
    forall sd, In sd (c_docs c) -> fst sd < n.

  Lemma coll_inv_good c : coll_inv c -> ixs_good (docs_of c) (c_indexes c).
  Proof. intros [_ [_ H]]. exact H. Qed.

  (* the column list of an index is the one of its key specification *)
  Lemma ix_wf_columns ix : ix_wf ix -> columns (cf_key (ix_config ix)) = Ok (ix_cols ix).
  Proof.
    unfold ix_wf, new_index. destruct (cf_key (ix_config ix)) as [|kv k]; [discriminate|].
    destruct (columns (kv :: k)) as [cols| | | |]; cbn [bind]; try discriminate.
    destruct (existsb (fun col => dollar_segment (fst col)) cols); [discriminate|].
    destruct ((0 <? cf_expiry (ix_config ix)) && (1 <? len (kv :: k))); [discriminate|].
    intro H. inversion H. reflexivity.
  Qed.

  Lemma coll_inv_columns c n ix :
    coll_inv c -> In (n, ix) (c_indexes c) -> columns (cf_key (ix_config ix)) = Ok (ix_cols ix).
  Proof.
    intros [_ [_ H]] Hin. rewrite Forall_forall in H. destruct (H _ Hin) as [_ [_ Hw]].
    apply ix_wf_columns. exact Hw.
  Qed.

  Lemma coll_inv_ids_unique c : coll_inv c -> ids_unique (docs_of c).
  Proof. intros [H _] id d1 d2. apply nodup_ids_unique. exact H. Qed.

  Lemma ids_lt_fresh c n : ids_lt c n -> fresh_id (docs_of c) n.
  Proof. intros H d Hin. apply H in Hin. simpl in Hin. lia. Qed.

  Lemma ids_lt_notin c n : ids_lt c n -> ~ In n (map fst (c_docs c)).
  Proof.
    intros H Hin. apply in_map_iff in Hin. destruct Hin as [x [Hx Hi]].
    apply H in Hi. lia.
  Qed.

  Lemma ids_lt_mono c n m : ids_lt c n -> n <= m -> ids_lt c m.
  Proof. intros H Hle sd Hsd. apply H in Hsd. lia. Qed.

  Lemma has_id_shape c docs' ixs' :
    has_id_index c -> same_shape (c_indexes c) ixs' -> has_id_index (mkColl docs' ixs').
  Proof.
    intros [ix [Hf Hc]] S. destruct (same_shape_find _ _ _ _ S Hf) as [ix' [Hf' [Hd _]]].
    exists ix'. split; auto. simpl. congruence.
  Qed.

  (* every operation is reduced to this *)
  Lemma mk_inv c docs' ixs' (P : sdoc -> Prop) :
    coll_inv c ->
    same_shape (c_indexes c) ixs' -> ixs_good P ixs' ->
    (forall x, P x <-> In x docs') -> NoDup (map fst docs') ->
    coll_inv (mkColl docs' ixs').
  Proof.
    intros [_ [Hn _]] S G HP Hd. split; [exact Hd|]. split.
    - simpl. rewrite <- (same_shape_names _ _ S). exact Hn.
    - apply (ixs_good_ext matchf P); auto.
  Qed.

  (* ---------------------------------------------------------------- *)
  (* NewCollection *)

  Lemma ix_good_empty ix :
    ix_wf ix -> ix_entries ix = [] -> ix_good (fun _ => False) ix.
  Proof.
    intros Hw He. split; [|split; auto].
    - split; [rewrite He; exact I|]. split; [intros sd []|].
      intros t id. rewrite He. split.
      + intro H. destruct (mem_nil _ _ H).
      + intros [d [[] _]].
    - intros _ id1 d1 id2 d2 [].
  Qed.

  Lemma id_index_wf : ix_wf id_index.
  Proof. vm_compute. reflexivity. Qed.

  Theorem new_collection_inv b :
    coll_inv (new_collection b) /\
    (forall n, ids_lt (new_collection b) n) /\
    (b = true -> has_id_index (new_collection b)).
  Proof.
    split; [|split].
    - split; [constructor|]. destruct b; simpl.
      + split; [constructor; [intros []|constructor]|]. constructor; [|constructor].
        apply (ix_good_ext matchf (fun _ => False)).
        * intro x. unfold docs_of. simpl. split; intros [].
        * apply ix_good_empty; [apply id_index_wf|reflexivity].
      + split; constructor.
    - intros n sd Hin. destruct b; destruct Hin.
    - intros ->. exists id_index. split; reflexivity.
  Qed.

  (* ---------------------------------------------------------------- *)
  (* Find *)

  Theorem coll_find_unchanged c query sort skip limit :
    fst (coll_find c query sort skip limit) = c.
  Proof.
    unfold Collection.coll_find, failr. destruct (find_list _ _ _ _ _); reflexivity.
  Qed.

  (* ---------------------------------------------------------------- *)
  (* Insert / Upsert: add to every index, then append *)

  Lemma append_inv c fresh d ixs :
    coll_inv c -> has_id_index c -> ids_lt c fresh ->
    add_all (c_indexes c) (fresh, d) = (ixs, None) ->
    coll_inv (mkColl (c_docs c ++ [(fresh, d)]) ixs) /\
    has_id_index (mkColl (c_docs c ++ [(fresh, d)]) ixs) /\
    ids_lt (mkColl (c_docs c ++ [(fresh, d)]) ixs) (fresh + 1).
  Proof.
    intros Hinv Hid Hlt Ha.
    destruct (add_all_good matchf (docs_of c) _ fresh d ixs Ha (coll_inv_good c Hinv)
                (ids_lt_fresh c fresh Hlt)) as [G S].
    split; [|split].
    - apply (mk_inv c _ _ _ Hinv S G).
      + intro x. unfold docs_of. rewrite in_app_iff. simpl. split.
        * intros [H|H]; auto.
        * intros [H|[H|[]]]; auto.
      + rewrite map_app. simpl. apply NoDup_snoc; [destruct Hinv; auto|].
        apply ids_lt_notin. exact Hlt.
    - eapply has_id_shape; eauto.
    - intros sd Hin. simpl in Hin. apply in_app_iff in Hin. destruct Hin as [Hin|[<-|[]]].
      + apply Hlt in Hin. lia.
      + simpl. lia.
  Qed.

  Lemma coll_insert_inl c fresh d oid c' r :
    coll_insert c fresh d oid = (c', inl r) ->
    exists d' ixs, ensure_id d oid = Ok d' /\
      add_all (c_indexes c) (fresh, d') = (ixs, None) /\
      c' = mkColl (c_docs c ++ [(fresh, d')]) ixs /\
      r = mkResult [] [(fresh, d')] None [].
  Proof.
    unfold Collection.coll_insert, failr, fail.
    destruct (ensure_id d oid) as [d'| | | |]; try discriminate.
    destruct (add_all (c_indexes c) (fresh, d')) as [ixs [e|]] eqn:Ha; try discriminate.
    destruct (set_has (c_docs c) fresh) eqn:Hs; try discriminate.
    intro H. inversion H; subst. exists d', ixs. auto.
  Qed.

  Theorem coll_insert_inv c fresh d oid c' r :
    coll_inv c -> has_id_index c -> ids_lt c fresh ->
    coll_insert c fresh d oid = (c', inl r) ->
    coll_inv c' /\ has_id_index c' /\ ids_lt c' (fresh + 1).
  Proof.
    intros Hinv Hid Hlt H. apply coll_insert_inl in H.
    destruct H as [d' [ixs [_ [Ha [-> _]]]]]. apply append_inv; auto.
  Qed.

  (* the inserted document is d with the _id ensured, appended at the end *)
  Theorem coll_insert_docs c fresh d oid c' r :
    coll_insert c fresh d oid = (c', inl r) ->
    exists d', ensure_id d oid = Ok d' /\
               c_docs c' = (c_docs c ++ [(fresh, d')])%list /\
               r = mkResult [] [(fresh, d')] None [].
  Proof.
    intro H. apply coll_insert_inl in H. destruct H as [d' [ixs [He [_ [-> Hr]]]]].
    exists d'. auto.
  Qed.

  Definition upsert_prepared (query : doc) (repl update : option doc) (afs : list doc)
             (oid : value) (now : Z) : res doc :=
    bind (upsert_doc query repl update afs now) (fun d2 => ensure_id d2 oid).

  Lemma coll_upsert_inl c fresh query repl update afs oid now c' r :
    coll_upsert c fresh query repl update afs oid now = (c', inl r) ->
    exists d' ixs, upsert_prepared query repl update afs oid now = Ok d' /\
      add_all (c_indexes c) (fresh, d') = (ixs, None) /\
      c' = mkColl (c_docs c ++ [(fresh, d')]) ixs /\
      r = mkResult [] [] (Some (fresh, d')) [].
  Proof.
    unfold Collection.coll_upsert, failr, fail.
    change (bind (upsert_doc query repl update afs now) (fun d2 => ensure_id d2 oid))
      with (upsert_prepared query repl update afs oid now).
    destruct (upsert_prepared query repl update afs oid now) as [d'| | | |]; try discriminate.
    destruct (add_all (c_indexes c) (fresh, d')) as [ixs [e|]] eqn:Ha; try discriminate.
    destruct (set_has (c_docs c) fresh) eqn:Hs; try discriminate.
    intro H. inversion H; subst. exists d', ixs. auto.
  Qed.

  Theorem coll_upsert_inv c fresh query repl update afs oid now c' r :
    coll_inv c -> has_id_index c -> ids_lt c fresh ->
    coll_upsert c fresh query repl update afs oid now = (c', inl r) ->
    coll_inv c' /\ has_id_index c' /\ ids_lt c' (fresh + 1).
  Proof.
    intros Hinv Hid Hlt H. apply coll_upsert_inl in H.
    destruct H as [d' [ixs [_ [Ha [-> _]]]]]. apply append_inv; auto.
  Qed.

  Theorem coll_upsert_docs c fresh query repl update afs oid now c' r :
    coll_upsert c fresh query repl update afs oid now = (c', inl r) ->
    exists d', upsert_prepared query repl update afs oid now = Ok d' /\
               c_docs c' = (c_docs c ++ [(fresh, d')])%list /\
               r = mkResult [] [] (Some (fresh, d')) [].
  Proof.
    intro H. apply coll_upsert_inl in H. destruct H as [d' [ixs [He [_ [-> Hr]]]]].
    exists d'. auto.
  Qed.

  (* ---------------------------------------------------------------- *)
  (* Delete *)

  Definition minus_matched (docs matched : list sdoc) : list sdoc :=
    filter (fun sd => negb (existsb (fun m : sdoc => fst m =? fst sd) matched)) docs.

  Lemma coll_delete_inl c query sort skip limit c' r :
    coll_delete c query sort skip limit = (c', inl r) ->
    exists matched ixs, find_list (c_docs c) query sort skip limit = Ok matched /\
      remove_docs (c_indexes c) matched = (ixs, None) /\
      c' = mkColl (minus_matched (c_docs c) matched) ixs /\
      r = mkResult matched [] None [].
  Proof.
    unfold Collection.coll_delete, failr, fail.
    destruct (find_list (c_docs c) query sort skip limit) as [matched| | | |]; try discriminate.
    destruct (remove_docs (c_indexes c) matched) as [ixs [e|]] eqn:Hr; try discriminate.
    intro H. inversion H; subst. exists matched, ixs. rewrite fold_set_remove. auto.
  Qed.

  Theorem coll_delete_inv c fresh query sort skip limit c' r :
    coll_inv c -> has_id_index c -> ids_lt c fresh ->
    coll_delete c query sort skip limit = (c', inl r) ->
    coll_inv c' /\ has_id_index c' /\ ids_lt c' fresh.
  Proof.
    intros Hinv Hid Hlt H. apply coll_delete_inl in H.
    destruct H as [matched [ixs [Hf [Hr [-> _]]]]].
    pose proof Hinv as [Hnd _].
    destruct (find_list_nodup matchf _ _ _ _ _ _ Hf Hnd) as [_ Hndm].
    pose proof (find_list_in matchf _ _ _ _ _ _ Hf) as Hincl.
    destruct (remove_docs_good matchf (docs_of c) (c_indexes c) matched
                (coll_inv_good c Hinv) (coll_inv_ids_unique c Hinv)) as [ixs1 [Hr1 [G S]]]; auto.
    rewrite Hr in Hr1. inversion Hr1; subst ixs1.
    split; [|split].
    - apply (mk_inv c _ _ _ Hinv S G).
      + intro x. unfold minus_matched. rewrite (removed_in matched (c_docs c) x Hnd Hincl).
        reflexivity.
      + apply NoDup_map_filter. exact Hnd.
    - eapply has_id_shape; eauto.
    - intros sd Hin. simpl in Hin. unfold minus_matched in Hin. apply filter_In in Hin.
      apply Hlt. destruct Hin as [Hin _]. exact Hin.
  Qed.

  (* the remaining documents are the non-matched ones, in their order *)
  Theorem coll_delete_docs c query sort skip limit c' r :
    coll_delete c query sort skip limit = (c', inl r) ->
    exists matched, find_list (c_docs c) query sort skip limit = Ok matched /\
      r_matched r = matched /\
      c_docs c' = minus_matched (c_docs c) matched.
  Proof.
    intro H. apply coll_delete_inl in H. destruct H as [matched [ixs [Hf [_ [-> ->]]]]].
    exists matched. auto.
  Qed.

  Lemma minus_matched_in c matched x :
    coll_inv c -> incl matched (c_docs c) ->
    (In x (minus_matched (c_docs c) matched) <-> In x (c_docs c) /\ ~ In x matched).
  Proof. intros [H _] Hi. apply removed_in; auto. Qed.

  (* under the invariant, Delete fails only when Find fails *)
  Theorem coll_delete_succeeds c query sort skip limit matched :
    coll_inv c -> find_list (c_docs c) query sort skip limit = Ok matched ->
    exists c', coll_delete c query sort skip limit = (c', inl (mkResult matched [] None [])).
  Proof.
    intros Hinv Hf. pose proof Hinv as [Hnd _].
    destruct (find_list_nodup matchf _ _ _ _ _ _ Hf Hnd) as [_ Hndm].
    pose proof (find_list_in matchf _ _ _ _ _ _ Hf) as Hincl.
    destruct (remove_docs_good matchf (docs_of c) (c_indexes c) matched
                (coll_inv_good c Hinv) (coll_inv_ids_unique c Hinv)) as [ixs1 [Hr1 _]]; auto.
    unfold Collection.coll_delete. rewrite Hf, Hr1. eauto.
  Qed.

  (* ---------------------------------------------------------------- *)
  (* Replace *)

  (* the replacement document with its _id settled *)
  Definition replace_prepared (old_doc repl : doc) : res doc :=
    let rid := Get repl "_id" in
    if is_missing rid then (let* r := Put repl "_id" (Get old_doc "_id") true in Ok (snd r))
    else if value_eqb rid (Get old_doc "_id") then Ok repl
    else Err.

  Definition replace_with (c : coll) (fresh : did) (old : sdoc) (matched : list sdoc)
             (prepared : res doc) : outcome cresult :=
    match prepared with
    | Ok repl' =>
        let new := (fresh, repl') in
        match swap_all (c_indexes c) old new with
        | (ixs, Some e) => fail (mkColl (c_docs c) ixs) e
        | (ixs, None) =>
            if set_has (c_docs c) fresh then fail (mkColl (c_docs c) ixs) EErr
            else
              let modified := if value_eqb (VDoc (snd old)) (VDoc repl') then [] else [new] in
              (mkColl (set_replace (c_docs c) (fst old) new) ixs,
               inl (mkResult matched modified None []))
        end
    | r => failr c r
    end.

  Lemma coll_replace_eq c fresh query repl sort :
    coll_replace c fresh query repl sort =
    match find_list (c_docs c) query sort 0 1 with
    | Ok [] => (c, inl empty_result)
    | Ok (old :: rest) => replace_with c fresh old (old :: rest) (replace_prepared (snd old) repl)
    | r => failr c r
    end.
  Proof.
    unfold Collection.coll_replace, replace_with, replace_prepared.
    destruct (find_list (c_docs c) query sort 0 1) as [[|old rest]| | | |]; reflexivity.
  Qed.

  Lemma coll_replace_inl c fresh query repl sort c' r :
    coll_replace c fresh query repl sort = (c', inl r) ->
    (find_list (c_docs c) query sort 0 1 = Ok [] /\ c' = c /\ r = empty_result) \/
    exists old rest repl' ixs,
      find_list (c_docs c) query sort 0 1 = Ok (old :: rest) /\
      replace_prepared (snd old) repl = Ok repl' /\
      swap_all (c_indexes c) old (fresh, repl') = (ixs, None) /\
      c' = mkColl (set_replace (c_docs c) (fst old) (fresh, repl')) ixs /\
      r_matched r = old :: rest.
  Proof.
    rewrite coll_replace_eq. unfold replace_with, failr, fail.
    destruct (find_list (c_docs c) query sort 0 1) as [[|old rest]| | | |] eqn:Hf; try discriminate.
    - intro H. inversion H. left. auto.
    - destruct (replace_prepared (snd old) repl) as [repl'| | | |] eqn:Hp; try discriminate.
      cbv zeta.
      destruct (swap_all (c_indexes c) old (fresh, repl')) as [ixs [e|]] eqn:Hs; try discriminate.
      destruct (set_has (c_docs c) fresh); try discriminate.
      intro H. inversion H; subst. right. exists old, rest, repl', ixs. simpl. auto.
  Qed.

  Theorem coll_replace_inv c fresh query repl sort c' r :
    coll_inv c -> has_id_index c -> ids_lt c fresh ->
    coll_replace c fresh query repl sort = (c', inl r) ->
    coll_inv c' /\ has_id_index c' /\ ids_lt c' (fresh + 1).
  Proof.
    intros Hinv Hid Hlt H. apply coll_replace_inl in H.
    destruct H as [[_ [-> _]]|[old [rest [repl' [ixs [Hf [_ [Hs [-> _]]]]]]]]].
    - split; auto. split; auto. apply (ids_lt_mono c fresh); auto. lia.
    - pose proof Hinv as [Hnd _].
      assert (Ho : In old (c_docs c))
        by (apply (find_list_in matchf _ _ _ _ _ _ Hf); left; auto).
      destruct (swap_all_good matchf (docs_of c) _ old fresh repl' ixs Hs
                  (coll_inv_good c Hinv) Ho (coll_inv_ids_unique c Hinv)
                  (ids_lt_fresh c fresh Hlt)) as [G S].
      split; [|split].
      + apply (mk_inv c _ _ _ Hinv S G).
        * intro x. unfold docs_of.
          rewrite (set_replace_in_nodup (c_docs c) old (fresh, repl') x Hnd Ho). reflexivity.
        * apply set_replace_nodup; auto. simpl. apply ids_lt_notin. exact Hlt.
      + eapply has_id_shape; eauto.
      + intros sd Hin. simpl in Hin.
        apply (set_replace_in_nodup (c_docs c) old (fresh, repl') sd Hnd Ho) in Hin.
        destruct Hin as [[Hin _]| ->].
        * apply Hlt in Hin. lia.
        * simpl. lia.
  Qed.

  (* the new document takes the slot of the old one *)
  Theorem coll_replace_docs c fresh query repl sort c' r :
    coll_replace c fresh query repl sort = (c', inl r) ->
    (find_list (c_docs c) query sort 0 1 = Ok [] /\ c' = c /\ r = empty_result) \/
    exists old rest repl',
      find_list (c_docs c) query sort 0 1 = Ok (old :: rest) /\
      replace_prepared (snd old) repl = Ok repl' /\
      r_matched r = old :: rest /\
      c_docs c' = set_replace (c_docs c) (fst old) (fresh, repl').
  Proof.
    intro H. apply coll_replace_inl in H.
    destruct H as [H|[old [rest [repl' [ixs [Hf [Hp [_ [-> Hr]]]]]]]]]; [left; exact H|].
    right. exists old, rest, repl'. auto.
  Qed.

  (* ---------------------------------------------------------------- *)
  (* Update *)

  Definition update_with (c : coll) (matched : list sdoc)
             (applied : res (list sdoc * list (list (string * value)))) : outcome cresult :=
    match applied with
    | Ok (newl, chs) =>
        if negb (ids_unchanged matched newl) then fail c EErr
        else
          match remove_docs (c_indexes c) matched with
          | (ixs, Some e) => fail (mkColl (c_docs c) ixs) e
          | (ixs, None) =>
              match add_docs ixs newl with
              | (ixs', Some e) => fail (mkColl (c_docs c) ixs') e
              | (ixs', None) =>
                  let '(m, cs) := modified_only matched newl chs in
                  (mkColl (replace_docs (c_docs c) matched newl) ixs',
                   inl (mkResult matched m None cs))
              end
          end
    | r => failr c r
    end.

  Lemma coll_update_eq c fresh query update sort skip limit afs now :
    coll_update c fresh query update sort skip limit afs now =
    match find_list (c_docs c) query sort skip limit with
    | Ok [] => (c, inl empty_result)
    | Ok (m :: rest) =>
        update_with c (m :: rest) (apply_list (m :: rest) fresh query update afs now)
    | r => failr c r
    end.
  Proof.
    unfold Collection.coll_update, update_with.
    destruct (find_list (c_docs c) query sort skip limit) as [[|m rest]| | | |]; try reflexivity.
    destruct (apply_list (m :: rest) fresh query update afs now) as [[newl chs]| | | |];
      reflexivity.
  Qed.

  Lemma coll_update_inl c fresh query update sort skip limit afs now c' r :
    coll_update c fresh query update sort skip limit afs now = (c', inl r) ->
    (find_list (c_docs c) query sort skip limit = Ok [] /\ c' = c /\ r = empty_result) \/
    exists matched newl chs ixs ixs',
      find_list (c_docs c) query sort skip limit = Ok matched /\ matched <> [] /\
      apply_list matched fresh query update afs now = Ok (newl, chs) /\
      ids_unchanged matched newl = true /\
      remove_docs (c_indexes c) matched = (ixs, None) /\
      add_docs ixs newl = (ixs', None) /\
      c' = mkColl (replace_docs (c_docs c) matched newl) ixs' /\
      r_matched r = matched.
  Proof.
    rewrite coll_update_eq. unfold update_with, failr, fail.
    destruct (find_list (c_docs c) query sort skip limit) as [[|m rest]| | | |] eqn:Hf;
      try discriminate.
    - intro H. inversion H. left. auto.
    - destruct (apply_list (m :: rest) fresh query update afs now) as [[newl chs]| | | |] eqn:Hap;
        try discriminate.
      destruct (ids_unchanged (m :: rest) newl) eqn:Hi; simpl negb; cbv iota; try discriminate.
      destruct (remove_docs (c_indexes c) (m :: rest)) as [ixs [e|]] eqn:Hr; try discriminate.
      destruct (add_docs ixs newl) as [ixs' [e|]] eqn:Ha; try discriminate.
      destruct (modified_only (m :: rest) newl chs) as [md cs].
      intro H. inversion H; subst. right. exists (m :: rest), newl, chs, ixs, ixs'. simpl.
      repeat split; auto. discriminate.
  Qed.

  (* the facts shared by the update lemmas *)
  Lemma update_facts c fresh (matched newl : list sdoc) :
    coll_inv c -> ids_lt c fresh ->
    incl matched (c_docs c) -> NoDup (map fst matched) ->
    map fst newl = zseq fresh (List.length matched) ->
    List.length matched = List.length newl /\
    (forall n, In n newl -> ~ In (fst n) (map fst (c_docs c))) /\
    NoDup (map fst newl) /\
    (forall sd, In sd newl ->
       fresh_id (fun x => docs_of c x /\ ~ In x matched) (fst sd)) /\
    (forall sd, In sd newl -> fresh <= fst sd < fresh + Z.of_nat (List.length matched)).
  Proof.
    intros Hinv Hlt Hincl Hndm Hids.
    assert (Hr : forall sd, In sd newl -> fresh <= fst sd < fresh + Z.of_nat (List.length matched)).
    { intros sd Hsd. apply zseq_in. rewrite <- Hids. apply in_map. exact Hsd. }
    split; [|split; [|split; [|split]]]; auto.
    - assert (Hl : List.length (map fst newl) = List.length newl) by apply map_length.
      rewrite <- Hl, Hids, zseq_length. reflexivity.
    - intros n Hn Hin. apply Hr in Hn. apply in_map_iff in Hin. destruct Hin as [x [Hx Hi]].
      apply Hlt in Hi. lia.
    - rewrite Hids. apply zseq_nodup.
    - intros sd Hsd d [Hd _]. apply Hr in Hsd. apply Hlt in Hd. simpl in Hd. lia.
  Qed.

  Lemma update_core c fresh (matched newl : list sdoc) ixs ixs' :
    coll_inv c -> has_id_index c -> ids_lt c fresh ->
    incl matched (c_docs c) -> NoDup (map fst matched) ->
    map fst newl = zseq fresh (List.length matched) ->
    remove_docs (c_indexes c) matched = (ixs, None) ->
    add_docs ixs newl = (ixs', None) ->
    coll_inv (mkColl (replace_docs (c_docs c) matched newl) ixs') /\
    has_id_index (mkColl (replace_docs (c_docs c) matched newl) ixs') /\
    ids_lt (mkColl (replace_docs (c_docs c) matched newl) ixs')
           (fresh + Z.of_nat (List.length matched)).
  Proof.
    intros Hinv Hid Hlt Hincl Hndm Hids Hr Ha.
    pose proof Hinv as [Hnd _].
    destruct (update_facts c fresh matched newl Hinv Hlt Hincl Hndm Hids)
      as [Hlen [Hfd [Hndn [Hfr Hrange]]]].
    destruct (remove_docs_good matchf (docs_of c) (c_indexes c) matched
                (coll_inv_good c Hinv) (coll_inv_ids_unique c Hinv)) as [ixs1 [Hr1 [G1 S1]]]; auto.
    { eapply NoDup_map_inv; eauto. }
    rewrite Hr in Hr1. inversion Hr1; subst ixs1.
    destruct (add_docs_good matchf _ ixs newl ixs' Ha G1 Hfr Hndn) as [G2 S2].
    destruct (replace_docs_spec (c_docs c) matched newl Hnd Hincl Hndm Hlen Hfd Hndn) as [R1 R2].
    split; [|split].
    - apply (mk_inv c _ _ _ Hinv (same_shape_trans _ _ _ S1 S2) G2); auto.
      intro x. rewrite R2. reflexivity.
    - eapply has_id_shape; eauto. eapply same_shape_trans; eauto.
    - intros sd Hin. simpl in Hin. apply R2 in Hin. destruct Hin as [[Hin _]|Hin].
      + apply Hlt in Hin. lia.
      + apply Hrange in Hin. lia.
  Qed.

  Theorem coll_update_inv c fresh query update sort skip limit afs now c' r :
    coll_inv c -> has_id_index c -> ids_lt c fresh ->
    coll_update c fresh query update sort skip limit afs now = (c', inl r) ->
    coll_inv c' /\ has_id_index c' /\
    ids_lt c' (fresh + Z.of_nat (List.length (r_matched r))).
  Proof.
    intros Hinv Hid Hlt H. apply coll_update_inl in H.
    destruct H as [[_ [-> ->]]|[matched [newl [chs [ixs [ixs' [Hf [_ [Hap [_ [Hr [Ha [-> ->]]]]]]]]]]]]].
    - split; auto. split; auto. apply (ids_lt_mono c fresh); auto. simpl. lia.
    - pose proof Hinv as [Hnd _].
      destruct (find_list_nodup matchf _ _ _ _ _ _ Hf Hnd) as [Hndm _].
      apply (update_core c fresh matched newl ixs ixs'); auto.
      + apply (find_list_in matchf _ _ _ _ _ _ Hf).
      + eapply apply_list_ids; eauto.
  Qed.

  (* the documents after an update: every matched document is replaced, in
     its slot, by its updated clone; the clones get the identities fresh,
     fresh+1, ... in the order of the matched list *)
  Theorem coll_update_docs c fresh query update sort skip limit afs now c' r :
    coll_update c fresh query update sort skip limit afs now = (c', inl r) ->
    (find_list (c_docs c) query sort skip limit = Ok [] /\ c' = c /\ r = empty_result) \/
    exists matched newl chs,
      find_list (c_docs c) query sort skip limit = Ok matched /\ matched <> [] /\
      apply_list matched fresh query update afs now = Ok (newl, chs) /\
      map fst newl = zseq fresh (List.length matched) /\
      r_matched r = matched /\
      c_docs c' = replace_docs (c_docs c) matched newl.
  Proof.
    intro H. apply coll_update_inl in H.
    destruct H as [H|[matched [newl [chs [ixs [ixs' [Hf [Hne [Hap [_ [_ [_ [-> Hr]]]]]]]]]]]]];
      [left; exact H|].
    right. exists matched, newl, chs. repeat split; auto.
    eapply apply_list_ids; eauto.
  Qed.

  (* as a set: the unmatched old documents and the clones *)
  Theorem coll_update_docs_in c fresh query update sort skip limit afs now matched newl chs :
    coll_inv c -> ids_lt c fresh ->
    find_list (c_docs c) query sort skip limit = Ok matched ->
    apply_list matched fresh query update afs now = Ok (newl, chs) ->
    NoDup (map fst (replace_docs (c_docs c) matched newl)) /\
    forall x, In x (replace_docs (c_docs c) matched newl) <->
              (In x (c_docs c) /\ ~ In x matched) \/ In x newl.
  Proof.
    intros Hinv Hlt Hf Hap. pose proof Hinv as [Hnd _].
    destruct (find_list_nodup matchf _ _ _ _ _ _ Hf Hnd) as [Hndm _].
    pose proof (find_list_in matchf _ _ _ _ _ _ Hf) as Hincl.
    pose proof (apply_list_ids applyf _ _ _ _ _ _ _ _ Hap) as Hids.
    destruct (update_facts c fresh matched newl Hinv Hlt Hincl Hndm Hids)
      as [Hlen [Hfd [Hndn _]]].
    apply replace_docs_spec; auto.
  Qed.

  (* ---------------------------------------------------------------- *)
  (* CreateIndex *)

  Definition index_name (name : string) (cf : iconfig) : res string :=
    match name with EmptyString => config_name cf | _ => Ok name end.

  (* an existing index has a BSON-equal key specification *)
  Definition key_clash (c : coll) (cf : iconfig) : bool :=
    existsb (fun ni : string * index =>
               match compare (VDoc (cf_key cf)) (VDoc (cf_key (ix_config (snd ni)))) with
               | Eq => true | _ => false end) (c_indexes c).

  Definition create_named (c : coll) (n : string) (cf : iconfig) : outcome string :=
    match find_index (c_indexes c) n with
    | Some ix => if config_equal cf (ix_config ix) then (c, inl n) else fail c EErr
    | None =>
        if key_clash c cf then fail c EErr
        else
          match new_index cf with
          | Ok ix =>
              match build ix (c_docs c) with
              | (ix', Some e) => fail (mkColl (c_docs c) (set_index (c_indexes c) n ix')) e
              | (ix', None) => (mkColl (c_docs c) (set_index (c_indexes c) n ix'), inl n)
              end
          | r => failr c r
          end
    end.

  Lemma coll_create_index_eq c name cf :
    coll_create_index c name cf =
    match index_name name cf with
    | Ok n => create_named c n cf
    | r => failr c r
    end.
  Proof.
    unfold Collection.coll_create_index, index_name, create_named, key_clash.
    destruct name as [|a s]; cbv zeta beta iota.
    - destruct (config_name cf); reflexivity.
    - reflexivity.
  Qed.

  Lemma key_clash_iff c cf :
    key_clash c cf = true <->
    exists m ix, In (m, ix) (c_indexes c) /\
                 compare (VDoc (cf_key cf)) (VDoc (cf_key (ix_config ix))) = Eq.
  Proof.
    unfold key_clash. rewrite existsb_exists. split.
    - intros [[m ix] [Hin H]]. cbn [snd] in H. exists m, ix. split; auto.
      destruct (compare (VDoc (cf_key cf)) (VDoc (cf_key (ix_config ix)))); auto; discriminate.
    - intros [m [ix [Hin H]]]. exists (m, ix). split; auto. cbn [snd]. rewrite H. reflexivity.
  Qed.

  (* creating an index that exists with the same definition is a no-op *)
  Theorem create_same_is_noop c name cf n ix :
    index_name name cf = Ok n ->
    find_index (c_indexes c) n = Some ix ->
    config_equal cf (ix_config ix) = true ->
    coll_create_index c name cf = (c, inl n).
  Proof.
    intros Hn Hf He. rewrite coll_create_index_eq, Hn. unfold create_named.
    rewrite Hf, He. reflexivity.
  Qed.

  (* creating a conflicting one fails and changes nothing *)
  Theorem create_conflicting_fails c name cf n :
    index_name name cf = Ok n ->
    (exists ix, find_index (c_indexes c) n = Some ix /\ config_equal cf (ix_config ix) = false) \/
    (find_index (c_indexes c) n = None /\
     exists m ix, In (m, ix) (c_indexes c) /\
                  compare (VDoc (cf_key cf)) (VDoc (cf_key (ix_config ix))) = Eq) ->
    coll_create_index c name cf = (c, inr EErr).
  Proof.
    intros Hn H. rewrite coll_create_index_eq, Hn. unfold create_named, fail.
    destruct H as [[ix [Hf He]]|[Hf Hk]].
    - rewrite Hf, He. reflexivity.
    - apply key_clash_iff in Hk. rewrite Hf, Hk. reflexivity.
  Qed.

  Lemma new_index_inv cf ix0 :
    new_index cf = Ok ix0 -> ix_wf ix0 /\ ix_entries ix0 = [] /\ ix_config ix0 = cf.
  Proof.
    intro H.
    assert (Hex : exists cols, ix0 = mkIndex cf cols []).
    { revert H. unfold new_index. destruct (cf_key cf) as [|kv k]; [discriminate|].
      destruct (columns (kv :: k)) as [cols| | | |]; cbn [bind]; try discriminate.
      destruct (existsb (fun col => dollar_segment (fst col)) cols); [discriminate|].
      destruct ((0 <? cf_expiry cf) && (1 <? len (kv :: k))); [discriminate|].
      intro H. inversion H. eauto. }
    destruct Hex as [cols ->]. unfold ix_wf. simpl. auto.
  Qed.

  Lemma coll_create_index_inl c name cf c' n :
    coll_create_index c name cf = (c', inl n) ->
    index_name name cf = Ok n /\
    ((exists ix, find_index (c_indexes c) n = Some ix /\
                 config_equal cf (ix_config ix) = true /\ c' = c) \/
     (find_index (c_indexes c) n = None /\ key_clash c cf = false /\
      exists ix0 ix', new_index cf = Ok ix0 /\ build ix0 (c_docs c) = (ix', None) /\
                      c' = mkColl (c_docs c) (c_indexes c ++ [(n, ix')]))).
  Proof.
    rewrite coll_create_index_eq. unfold failr.
    destruct (index_name name cf) as [n0| | | |]; try discriminate.
    unfold create_named, fail, failr.
    destruct (find_index (c_indexes c) n0) as [ix|] eqn:Hf.
    - destruct (config_equal cf (ix_config ix)) eqn:He; try discriminate.
      intro H. inversion H; subst. split; auto. left. eauto.
    - destruct (key_clash c cf) eqn:Hk; try discriminate.
      destruct (new_index cf) as [ix0| | | |] eqn:Hn; try discriminate.
      destruct (build ix0 (c_docs c)) as [ix' [e|]] eqn:Hb; try discriminate.
      intro H. inversion H; subst. split; auto. right. repeat split; auto.
      exists ix0, ix'. rewrite (set_index_none _ _ _ Hf). auto.
  Qed.

  Theorem coll_create_index_inv c fresh name cf c' n :
    coll_inv c -> has_id_index c -> ids_lt c fresh ->
    coll_create_index c name cf = (c', inl n) ->
    coll_inv c' /\ has_id_index c' /\ ids_lt c' fresh /\ c_docs c' = c_docs c.
  Proof.
    intros Hinv Hid Hlt H. apply coll_create_index_inl in H.
    destruct H as [_ [[ix [_ [_ ->]]]|[Hf [_ [ix0 [ix' [Hn [Hb ->]]]]]]]]; [auto|].
    destruct Hinv as [Hnd [Hnn G]].
    destruct (new_index_inv cf ix0 Hn) as [Hw [He _]].
    destruct (build_good matchf (fun _ => False) ix0 (c_docs c) ix' Hb (ix_good_empty ix0 Hw He))
      as [G' _]; auto.
    { intros sd _ d []. }
    split; [|split; [|split]]; auto.
    - split; [exact Hnd|]. split.
      + simpl. rewrite map_app. simpl. apply NoDup_snoc; auto.
        apply find_index_none. exact Hf.
      + simpl. apply Forall_app. split; [exact G|]. constructor; [|constructor]. simpl.
        apply (ix_good_ext matchf _ _ ix' (fun x => (or_False_iff x c))). exact G'.
    - destruct Hid as [ix [Hi Hc]]. exists ix. split; auto. simpl.
      apply find_index_app_some. exact Hi.
  Qed.

  (* ---------------------------------------------------------------- *)
  (* DropIndex *)

  Lemma coll_drop_index_shape c name c' r :
    coll_drop_index c name = (c', r) ->
    exists p, c' = mkColl (c_docs c) (filter p (c_indexes c)) /\
              find_index (filter p (c_indexes c)) "_id_" = find_index (c_indexes c) "_id_" /\
              forall dropped, r = inl dropped -> ~ In "_id_" dropped.
  Proof.
    assert (Hall : exists p, c = mkColl (c_docs c) (filter p (c_indexes c)) /\
              find_index (filter p (c_indexes c)) "_id_" = find_index (c_indexes c) "_id_").
    { exists (fun _ => true). destruct c as [docs ixs]. simpl.
      assert (Hfl : filter (fun _ : string * index => true) ixs = ixs)
        by (induction ixs as [|a l IH]; simpl; [|rewrite IH]; reflexivity).
      rewrite Hfl. auto. }
    unfold coll_drop_index, fail. destruct name as [|a s]; cbv beta iota.
    - intro H. inversion H; subst.
      exists (fun ni : string * index => String.eqb (fst ni) "_id_"). split; auto. split.
      + apply find_index_filter_same.
      + intros dropped Hd. inversion Hd; subst. intro Hin. apply in_map_iff in Hin.
        destruct Hin as [x [Hx Hin]]. apply filter_In in Hin. destruct Hin as [_ Hin].
        rewrite Hx, String.eqb_refl in Hin. discriminate.
    - destruct (String.eqb (String a s) "_id_") eqn:E.
      + intro H. inversion H; subst. destruct Hall as [p [H1 H2]]. exists p.
        split; auto. split; auto. intros dropped Hd. discriminate.
      + apply String.eqb_neq in E.
        destruct (find_index (c_indexes c) (String a s)).
        * intro H. inversion H; subst.
          exists (fun ni : string * index => negb (String.eqb (fst ni) (String a s))).
          split; auto. split.
          -- apply find_index_filter_other. exact E.
          -- intros dropped Hd. inversion Hd; subst. intros [Heq|[]]. congruence.
        * intro H. inversion H; subst. destruct Hall as [p [H1 H2]]. exists p.
          split; auto. split; auto. intros dropped Hd. discriminate.
  Qed.

  (* dropping indexes never removes the _id index (whatever the outcome),
     and "_id_" is never among the dropped names *)
  Theorem drop_never_removes_id c name c' r :
    coll_drop_index c name = (c', r) ->
    find_index (c_indexes c') "_id_" = find_index (c_indexes c) "_id_" /\
    (forall dropped, r = inl dropped -> ~ In "_id_" dropped).
  Proof.
    intro H. apply coll_drop_index_shape in H. destruct H as [p [-> [H1 H2]]]. simpl. auto.
  Qed.

  Theorem coll_drop_index_inv c fresh name c' r :
    coll_inv c -> has_id_index c -> ids_lt c fresh ->
    coll_drop_index c name = (c', r) ->
    coll_inv c' /\ has_id_index c' /\ ids_lt c' fresh /\ c_docs c' = c_docs c.
  Proof.
    intros [Hnd [Hnn G]] [ix [Hi Hc]] Hlt H. apply coll_drop_index_shape in H.
    destruct H as [p [-> [H1 _]]]. split; [|split; [|split]]; auto.
    - split; [exact Hnd|]. split.
      + simpl. apply NoDup_map_filter. exact Hnn.
      + simpl. apply Forall_filter'. exact G.
    - exists ix. simpl. rewrite H1. auto.
  Qed.

  (* ---------------------------------------------------------------- *)
  (* an index equals the one rebuilt from scratch over the documents *)

  Theorem rebuild_equal c n ix :
    coll_inv c -> In (n, ix) (c_indexes c) ->
    exists ix0 ix',
      new_index (ix_config ix) = Ok ix0 /\
      build ix0 (c_docs c) = (ix', None) /\
      ix_config ix' = ix_config ix /\ ix_cols ix' = ix_cols ix /\
      nodup_entries (ix_entries ix') /\ nodup_entries (ix_entries ix) /\
      forall t id, mem (ix_entries ix') t id <-> mem (ix_entries ix) t id.
  Proof.
    intros [Hnd [_ G]] Hin. rewrite Forall_forall in G.
    destruct (G _ Hin) as [Hok [Hu Hw]]. simpl in Hok, Hu, Hw.
    set (ix0 := mkIndex (ix_config ix) (ix_cols ix) []).
    assert (Hs0 : same_def ix ix0) by (split; reflexivity).
    assert (G0 : ix_good (fun _ => False) ix0).
    { apply ix_good_empty; [|reflexivity]. apply (ix_wf_same ix ix0 Hs0 Hw). }
    assert (F0 : forall sd, In sd (c_docs c) -> fresh_id (fun _ : sdoc => False) (fst sd))
      by (intros sd _ d []).
    destruct (build_succeeds matchf (fun _ => False) ix0 (c_docs c) G0 F0 Hnd) as [ix' Hb].
    - intros sd Hsd. apply (covers_ok_same matchf ix ix0 _ Hs0).
      destruct Hok as [_ [Hc _]]. apply Hc. exact Hsd.
    - apply (ix_unique_ok_same matchf _ ix ix0 Hs0).
      apply (ix_unique_ok_anti matchf (docs_of c)); auto. intros x [[]|Hx]. exact Hx.
    - destruct (build_good matchf _ ix0 (c_docs c) ix' Hb G0 F0 Hnd) as [[Hok' _] Hs'].
      exists ix0, ix'. split; [exact Hw|]. split; [exact Hb|].
      destruct Hs' as [Hc1 Hc2]. simpl in Hc1, Hc2.
      split; [congruence|]. split; [congruence|].
      destruct Hok as [Hn1 [_ Hm1]]. destruct Hok' as [Hn2 [_ Hm2]].
      split; auto. split; auto.
      intros t id. rewrite Hm1, Hm2.
      assert (Hs : same_def ix ix') by (split; congruence).
      split; intros [d [Hp Hk]]; exists d.
      + destruct Hp as [[]|Hp]. split; auto. apply (keyed_same matchf ix ix' d t Hs). exact Hk.
      + split; [right; exact Hp|]. apply (keyed_same matchf ix ix' d t Hs). exact Hk.
  Qed.

End CollInv.

Print Assumptions new_collection_inv.
Print Assumptions coll_find_unchanged.
Print Assumptions coll_insert_inv.
Print Assumptions coll_insert_docs.
Print Assumptions coll_upsert_inv.
Print Assumptions coll_upsert_docs.
Print Assumptions coll_delete_inv.
Print Assumptions coll_delete_docs.
Print Assumptions coll_delete_succeeds.
Print Assumptions coll_replace_inv.
Print Assumptions coll_replace_docs.
Print Assumptions coll_update_inv.
Print Assumptions coll_update_docs.
Print Assumptions coll_update_docs_in.
Print Assumptions coll_create_index_inv.
Print Assumptions create_same_is_noop.
Print Assumptions create_conflicting_fails.
Print Assumptions coll_drop_index_inv.
Print Assumptions drop_never_removes_id.
Print Assumptions rebuild_equal.
Print Assumptions coll_inv_columns.
