(* RefUpdateProofs.v — the model of mongokit.Apply meets the reference
   semantics of Spec/RefUpdate.v ($addToSet, $pull, $pullAll, the $push
   modifiers, $rename) on plain paths. *)
From Coq Require Import List ZArith Lia Bool String Permutation Sorted.
From Lungo.Model Require Import Apply.
From Lungo.Spec Require Import RefUpdate.
From Lungo.Proofs Require Import OrderLaws CompareOrder AccessAlgebra ApplyProofs ArithProofs.
Import ListNotations.
Open Scope Z_scope.
Open Scope list_scope.

(* ------------------------------------------------------------------ *)
(* $addToSet *)

Lemma mem_cmp_spec v l : mem_cmp v l = true <-> exists x, In x l /\ bson_eq x v.
Proof.
  unfold mem_cmp, bson_eq. rewrite existsb_exists. split; intros (x & Hin & H); exists x; split; auto.
  - destruct (compare x v); try discriminate; reflexivity.
  - rewrite H. reflexivity.
Qed.

Theorem add_to_set_ref vals : forall arr b res c,
  add_to_set arr vals b = (res, c) -> add_to_set_spec arr vals res.
Proof.
  induction vals as [|v t IH]; intros arr b res c H.
  - cbn in H. injection H as <- _. exists []; [rewrite app_nil_r; reflexivity | intros ? [] | intros ? [] |].
    intros pre x post E. destruct pre; discriminate.
  - cbn [add_to_set] in H. destruct (mem_cmp v arr) eqn:M.
    + destruct (IH _ _ _ _ H) as [added E1 E2 E3 E4]. exists added; auto.
      * intros x Hx. right. auto.
      * intros w [<-|Hw]; [|auto]. apply mem_cmp_spec in M. destruct M as (x & Hin & Hx).
        exists x. split; [subst res; apply in_or_app; left; exact Hin | exact Hx].
    + destruct (IH _ _ _ _ H) as [added E1 E2 E3 E4]. exists (v :: added).
      * rewrite E1, <- app_assoc. reflexivity.
      * intros x [<-|Hx]; [left; reflexivity | right; auto].
      * intros w [<-|Hw]; [|auto]. exists v. split; [|apply compare_refl].
        subst res. apply in_or_app. left. apply in_or_app. right. left. reflexivity.
      * intros pre x post E y Hy Hyx. destruct pre as [|p pre'].
        -- cbn in E. injection E as <- _. rewrite app_nil_r in Hy.
           assert (mem_cmp v arr = true) by (apply mem_cmp_spec; eauto). congruence.
        -- cbn in E. injection E as <- E. eapply (E4 pre' x post E y); [|exact Hyx].
           rewrite <- app_assoc. exact Hy.
Qed.

(* ------------------------------------------------------------------ *)
(* $pull / $pullAll *)

Theorem pull_filter_ref m cond (f : value -> bool) a :
  (forall x, In x a -> pull_matches m x cond = Ok (f x)) ->
  pull_filter m a cond = Ok (filter (fun x => negb (f x)) a, existsb f a).
Proof.
  induction a as [|x t IH]; intro H; [reflexivity|].
  cbn [pull_filter filter existsb]. rewrite (H x (or_introl eq_refl)). cbn [bind].
  rewrite IH by (intros y Hy; apply H; right; exact Hy). cbn [bind].
  destruct (f x); reflexivity.
Qed.

(* a plain (non-document) condition is BSON equality *)
Lemma pull_matches_plain m x cond :
  (forall cd, cond <> VDoc cd) -> pull_matches m x cond = Ok (is_eq (compare x cond)).
Proof. intro H. destruct cond; try reflexivity. exfalso. eapply H. reflexivity. Qed.

Theorem pull_plain_ref m cond a :
  (forall cd, cond <> VDoc cd) ->
  exists kept removed, pull_filter m a cond = Ok (kept, removed) /\
                       pull_spec (fun x => is_eq (compare x cond)) a kept /\
                       removed = existsb (fun x => is_eq (compare x cond)) a.
Proof.
  intro H. do 2 eexists. split; [|split; reflexivity].
  apply pull_filter_ref. intros x _. apply pull_matches_plain. exact H.
Qed.

(* ------------------------------------------------------------------ *)
(* stable insertion sort: a sorted permutation *)

Section Sorting.
Context {A : Type} (less : A -> A -> bool).
Hypothesis less_asym : forall a b, less a b = true -> less b a = false.
Hypothesis le_trans : forall a b c, less b a = false -> less c b = false -> less c a = false.

Let le (a b : A) : Prop := less b a = false.

Lemma insert_sorted_perm x l : Permutation (x :: l) (insert_sorted less x l).
Proof.
  induction l as [|y t IH]; [apply Permutation_refl|].
  cbn [insert_sorted]. destruct (less y x); [|apply Permutation_refl].
  eapply Permutation_trans; [apply perm_swap|]. apply perm_skip. exact IH.
Qed.

Lemma stable_sort_perm l : Permutation l (stable_sort less l).
Proof.
  induction l as [|x t IH]; [constructor|]. cbn [stable_sort fold_right].
  eapply Permutation_trans; [apply perm_skip; exact IH|]. apply insert_sorted_perm.
Qed.

Lemma insert_sorted_sorted x l : StronglySorted le l -> StronglySorted le (insert_sorted less x l).
Proof.
  induction l as [|y t IH]; intro S; [repeat constructor|].
  inversion S as [|? ? St Hy]; subst. cbn [insert_sorted]. destruct (less y x) eqn:E.
  - constructor; [apply IH; exact St|].
    eapply Permutation_Forall; [apply insert_sorted_perm|]. constructor; [|exact Hy].
    unfold le. apply less_asym. exact E.
  - constructor; [exact S|]. constructor; [exact E|].
    rewrite Forall_forall in *. intros z Hz. unfold le in *. eapply le_trans; [exact E | exact (Hy z Hz)].
Qed.

Theorem stable_sort_ref l : stable_sort_spec le l (stable_sort less l).
Proof.
  split; [apply stable_sort_perm|].
  induction l as [|x t IH]; [constructor|]. cbn [stable_sort fold_right]. apply insert_sorted_sorted. exact IH.
Qed.
End Sorting.

Lemma compare_ge_trans a b c : compare b a <> Lt -> compare c b <> Lt -> compare c a <> Lt.
Proof.
  intros H1 H2 H3. rewrite (compare_antisym a b) in H1. rewrite (compare_antisym b c) in H2.
  assert (Hab : compare a b <> Gt) by (destruct (compare a b); cbn in *; congruence).
  assert (Hbc : compare b c <> Gt) by (destruct (compare b c); cbn in *; congruence).
  pose proof (compare_trans a b c Hab Hbc) as T. rewrite (compare_antisym a c) in H3.
  destruct (compare a c); cbn in *; congruence.
Qed.

Lemma sorted_weaken {A} (P Q : A -> A -> Prop) l :
  (forall a b, P a b -> Q a b) -> StronglySorted P l -> StronglySorted Q l.
Proof.
  intros H S. induction S; constructor; auto.
  rewrite Forall_forall in *. intros y Hy. apply H. auto.
Qed.

(* $sort: 1 / -1 on whole elements *)
Theorem sort_direct_ref arr dir sorted :
  sort_direct arr dir = Ok sorted -> (dir = 1 \/ dir = -1) /\ stable_sort_spec (dir_le dir) arr sorted.
Proof.
  unfold sort_direct. destruct (Z.eqb_spec dir 1) as [->|H1].
  - intro H. injection H as <-. split; [auto|].
    assert (E : forall a b, (is_lt (compare b a) = false) <-> dir_le 1 a b).
    { intros a b. unfold dir_le. cbn. rewrite (compare_antisym a b). destruct (compare a b); cbn; split; congruence. }
    destruct (stable_sort_ref (fun a b => is_lt (compare a b))) with (l := arr) as [P St].
    + intros a b Hab. rewrite (compare_antisym a b). destruct (compare a b); cbn in *; congruence.
    + intros a b c Hba Hcb. apply E. apply E in Hba. apply E in Hcb. unfold dir_le in *. cbn in *.
      eapply compare_trans; eauto.
    + split; [exact P|]. eapply sorted_weaken; [|exact St]. intros a b. apply E.
  - destruct (Z.eqb_spec dir (-1)) as [->|H2]; [|discriminate].
    intro H. injection H as <-. split; [auto|].
    assert (E : forall a b, (is_gt (compare b a) = false) <-> dir_le (-1) a b).
    { intros a b. unfold dir_le. cbn. rewrite (compare_antisym a b). destruct (compare a b); cbn; split; congruence. }
    destruct (stable_sort_ref (fun a b => is_gt (compare a b))) with (l := arr) as [P St].
    + intros a b Hab. rewrite (compare_antisym a b). destruct (compare a b); cbn in *; congruence.
    + intros a b c Hba Hcb. apply E. apply E in Hba. apply E in Hcb. unfold dir_le in *. cbn in *.
      eapply compare_ge_trans; eauto.
    + split; [exact P|]. eapply sorted_weaken; [|exact St]. intros a b. apply E.
Qed.

(* $position and $slice *)
Theorem push_position_ref n p : push_position n p = ref_position n (Some p).
Proof. reflexivity. Qed.

Theorem push_slice_ref arr n : push_slice arr n = Ok (ref_slice (Some n) arr).
Proof.
  unfold push_slice, ref_slice. pose proof (len_nonneg arr) as L0.
  destruct (Z.eqb_spec n 0) as [->|N0]; [reflexivity|].
  destruct (Z.ltb_spec 0 n).
  - destruct (Z.leb_spec 0 n); [|lia]. unfold take.
    destruct (Z.ltb_spec n (len arr)); [reflexivity|].
    rewrite firstn_all2; [reflexivity|]. unfold len in *. lia.
  - destruct (Z.leb_spec 0 n); [lia|].
    destruct (Z.ltb_spec (- len arr) n).
    + unfold drop. f_equal. f_equal. unfold len in *. lia.
    + replace (List.length arr - Z.to_nat (- n))%nat with O by (unfold len in *; lia). reflexivity.
Qed.

Theorem insert_at_ref arr each pos :
  insert_at (match pos with Some p => push_position (len arr) p | None => len arr end) each arr = ref_insert pos each arr.
Proof.
  unfold insert_at, ref_insert, take, drop, len. destruct pos; reflexivity.
Qed.

(* ------------------------------------------------------------------ *)
(* the operators on a plain path *)

Lemma add_to_set_flag vals : forall arr b res c,
  add_to_set arr vals b = (res, c) -> c = true \/ (c = b /\ res = arr).
Proof.
  induction vals as [|v t IH]; intros arr b res c H.
  - cbn in H. injection H as <- <-. right. auto.
  - cbn [add_to_set] in H. destruct (mem_cmp v arr); [eapply IH; exact H|].
    destruct (IH _ _ _ _ H) as [E|[E _]]; left; congruence.
Qed.

Definition current_array (v : value) (arr : list value) : Prop :=
  v = VArr arr \/ (v = VMissing /\ arr = []).

(* $addToSet: either nothing is BSON-new and the document is untouched, or
   the field holds the reference result and exactly that is recorded *)
Theorem apply_add_to_set_ref d ch ps v vals arr d' ch' :
  canon_path (split_path ps) -> add_to_set_arg v = Ok vals -> current_array (Get d ps) arr ->
  apply_add_to_set (d, ch) ps v = Ok (d', ch') ->
  exists res, add_to_set_spec arr vals res /\
    ((res = arr /\ d' = d /\ ch' = ch) \/
     (Get d' ps = VArr res /\ ch' = ch ++ [(ps, VArr res)])).
Proof.
  intros C Hv Hc H. rewrite apply_add_to_set_decided in H.
  unfold decided_op, decide_add_to_set in H. cbn [fst] in H. rewrite Hv in H. cbn [bind] in H.
  assert (Ea : match Get d ps with VMissing => Ok [] | VArr a => Ok a | _ => Err end = Ok arr).
  { destruct Hc as [->|[-> ->]]; reflexivity. }
  rewrite Ea in H. cbn [bind] in H.
  destruct (add_to_set arr vals false) as [res c] eqn:E. exists res. split; [eapply add_to_set_ref; exact E|].
  destruct c.
  - right. cbn [bind] in H. destruct (put_record_ok _ _ _ _ _ _ H) as (old & P & R).
    split; [exact (get_put_same _ _ _ _ _ _ C P) | exact (record_keys _ _ _ _ R)].
  - left. cbn [bind] in H. injection H as <- <-.
    destruct (add_to_set_flag _ _ _ _ _ E) as [X|[_ X]]; [discriminate | auto].
Qed.

(* $pull with a plain value: the field keeps exactly the elements that are not
   BSON-equal to it, or the document is untouched when there is none *)
Theorem apply_pull_ref m d ch ps cond arr d' ch' :
  canon_path (split_path ps) -> (forall cd, cond <> VDoc cd) -> Get d ps = VArr arr ->
  apply_pull m (d, ch) ps cond = Ok (d', ch') ->
  let kept := filter (fun x => negb (is_eq (compare x cond))) arr in
  pull_spec (fun x => is_eq (compare x cond)) arr kept /\
  ((existsb (fun x => is_eq (compare x cond)) arr = false /\ d' = d /\ ch' = ch) \/
   (Get d' ps = VArr kept /\ ch' = ch ++ [(ps, VArr kept)])).
Proof.
  intros C Hc G H kept. split; [reflexivity|].
  unfold apply_pull in H. cbn [fst] in H. rewrite G in H.
  rewrite (pull_filter_ref m cond (fun x => is_eq (compare x cond)) arr) in H
    by (intros x _; apply pull_matches_plain; exact Hc).
  cbn [bind] in H. unfold store_if_removed in H.
  destruct (existsb (fun x => is_eq (compare x cond)) arr).
  - right. destruct (put_record_ok _ _ _ _ _ _ H) as (old & P & R).
    split; [exact (get_put_same _ _ _ _ _ _ C P) | exact (record_keys _ _ _ _ R)].
  - left. injection H as <- <-. auto.
Qed.

(* $pullAll: the same with "BSON-equal to one of the targets" *)
Theorem apply_pull_all_ref d ch ps targets arr d' ch' :
  canon_path (split_path ps) -> Get d ps = VArr arr ->
  apply_pull_all (d, ch) ps (VArr targets) = Ok (d', ch') ->
  let kept := filter (fun x => negb (mem_cmp x targets)) arr in
  pull_spec (fun x => mem_cmp x targets) arr kept /\
  ((len kept = len arr /\ d' = d /\ ch' = ch) \/
   (Get d' ps = VArr kept /\ ch' = ch ++ [(ps, VArr kept)])).
Proof.
  intros C G H kept. split; [reflexivity|].
  unfold apply_pull_all in H. cbn [fst] in H. rewrite G in H. unfold store_if_removed in H.
  fold kept in H. destruct (Z.eqb_spec (len kept) (len arr)) as [E|E]; cbn [negb] in H.
  - left. injection H as <- <-. auto.
  - right. destruct (put_record_ok _ _ _ _ _ _ H) as (old & P & R).
    split; [exact (get_put_same _ _ _ _ _ _ C P) | exact (record_keys _ _ _ _ R)].
Qed.

(* $push with all four modifiers: slice (sort (insert_at position each arr)) *)
Open Scope string_scope.
Theorem apply_push_ref d ch ps each p dir n arr d' ch' :
  canon_path (split_path ps) -> Get d ps = VArr arr ->
  apply_push (d, ch) ps
    (VDoc [("$each", VArr each); ("$position", VInt64 p); ("$sort", VInt32 dir); ("$slice", VInt64 n)]) = Ok (d', ch') ->
  exists sorted,
    stable_sort_spec (dir_le dir) (ref_insert (Some p) each arr) sorted /\
    Get d' ps = VArr (ref_slice (Some n) sorted) /\
    ch' = (ch ++ [(ps, VArr (ref_slice (Some n) sorted))])%list.
Proof.
  intros C G H. unfold apply_push in H. cbn [fst snd] in H.
  change (has_key "$each" [("$each", VArr each); ("$position", VInt64 p); ("$sort", VInt32 dir); ("$slice", VInt64 n)]) with true in H.
  cbn [push_modifiers String.eqb Ascii.eqb Bool.eqb pm_values pm_position pm_sort pm_slice bind] in H.
  rewrite G in H. cbn [bind int_modifier pm_values pm_position pm_sort pm_slice is_missing] in H.
  rewrite (insert_at_ref arr each (Some p)) in H. cbn [push_sort] in H.
  destruct (sort_direct (ref_insert (Some p) each arr) dir) as [sorted| | | |] eqn:S; cbn [bind] in H; try discriminate.
  destruct (sort_direct_ref _ _ _ S) as [_ [P St]].
  rewrite (push_slice_ref sorted n) in H. cbn [bind] in H.
  exists sorted. split; [split; assumption|].
  destruct (Put d ps (VArr (ref_slice (Some n) sorted)) false) as [[old d1]| | | |] eqn:E; cbn [bind] in H; try discriminate.
  cbn [is_some negb andb] in H.
  destruct each; cbn [bind] in H;
    (destruct (record ch ps (VArr (ref_slice (Some n) sorted))) as [ch1| | | |] eqn:R; cbn [bind] in H; try discriminate;
     injection H as <- <-; split; [exact (get_put_same _ _ _ _ _ _ C E) | exact (record_keys _ _ _ _ R)]).
Qed.
Close Scope string_scope.

(* ------------------------------------------------------------------ *)
(* $rename *)

Lemma uniq_scalar v : (forall d, v <> VDoc d) -> (forall a, v <> VArr a) -> uniq_keys v.
Proof. apply uk_other. Qed.

Lemma get_uniq p : forall x k, uniq_keys x -> uniq_keys (fst (Access.get x p false k)).
Proof.
  induction p as [|s r IH]; intros x k U; [rewrite get_nil; exact U|].
  destruct (empty_path (s :: r)) eqn:Hne; [rewrite get_empty_path by assumption; apply uniq_scalar; intros; discriminate|].
  destruct x; try (rewrite get_scalar by (intros; congruence); apply uniq_scalar; intros; discriminate).
  - destruct (uniq_keys_doc _ U) as [_ FA]. rewrite get_doc, Hne. destruct (lookup d s) eqn:L.
    + apply IH. rewrite Forall_forall in FA. exact (FA _ (lookup_in _ _ _ L)).
    + apply uniq_scalar; intros; discriminate.
  - pose proof (uniq_keys_arr _ U) as FA. rewrite get_arr, Hne. destruct (parse_index s); [|apply uniq_scalar; intros; discriminate].
    destruct (nth_z a z) eqn:N; [|apply uniq_scalar; intros; discriminate].
    apply IH. rewrite Forall_forall in FA. exact (FA _ (nth_z_in _ _ _ N)).
Qed.

Lemma put_new_uniq p : forall nv x, uniq_keys nv -> put_new p nv = Some x -> uniq_keys x.
Proof.
  induction p as [|s r IH]; intros nv x U H.
  - cbn in H. injection H as <-. exact U.
  - destruct (put_new_cons _ _ _ _ H) as (_ & inner & Hi & ->).
    apply uk_doc; [cbn; repeat constructor; intros []|]. constructor; [|constructor]. cbn. eapply IH; eauto.
Qed.

Lemma forall_replace_first (P : value -> Prop) k x d :
  Forall (fun kv => P (snd kv)) d -> P x -> Forall (fun kv => P (snd kv)) (replace_first k x d).
Proof.
  intros F Hx. induction d as [|[k' y] t IH]; [constructor|]. inversion F; subst.
  cbn [replace_first]. destruct (String.eqb k' k); constructor; auto.
Qed.

Lemma forall_remove_first (P : value -> Prop) k d :
  Forall (fun kv => P (snd kv)) d -> Forall (fun kv => P (snd kv)) (remove_first k d).
Proof.
  intro F. induction d as [|[k' y] t IH]; [constructor|]. inversion F; subst.
  cbn [remove_first]. destruct (String.eqb k' k); [assumption | constructor; auto].
Qed.

Lemma nodup_remove_first k d : NoDup (map fst d) -> NoDup (map fst (remove_first k d)).
Proof.
  induction d as [|[k' y] t IH]; intro ND; [constructor|]. inversion ND; subst.
  cbn [remove_first]. destruct (String.eqb k' k); [assumption|]. cbn [map fst]. constructor; [|auto].
  intro Hin. apply H1. clear -Hin. induction t as [|[k0 z] t IH]; [contradiction|].
  cbn [remove_first] in Hin. destruct (String.eqb k0 k); [right; exact Hin|].
  destruct Hin as [<-|Hin]; [left; reflexivity | right; auto].
Qed.

Lemma forall_replace_nth (P : value -> Prop) a : forall i x, Forall P a -> P x -> Forall P (replace_nth a i x).
Proof.
  induction a as [|y t IH]; intros i x F Hx; [constructor|]. inversion F; subst.
  cbn [replace_nth]. destruct (i =? 0); constructor; auto.
Qed.

Lemma forall_repeat_null (P : value -> Prop) n : P VNull -> Forall P (repeat_null n).
Proof. intro H. induction n; constructor; auto. Qed.

Lemma nodup_snoc {A} (l : list A) k : NoDup l -> ~ In k l -> NoDup (l ++ [k]).
Proof.
  induction l as [|x t IH]; intros ND Hk; [repeat constructor; intros []|].
  inversion ND; subst. cbn [app]. constructor.
  - intro Hin. apply in_app_or in Hin. destruct Hin as [Hin|[<-|[]]]; [contradiction|]. apply Hk. left. reflexivity.
  - apply IH; [assumption|]. intro Hin. apply Hk. right. exact Hin.
Qed.

Lemma put_preserves_uniq p : forall x nv pre old x',
  uniq_keys x -> uniq_keys nv -> put x p nv pre = Some (old, x') -> uniq_keys x'.
Proof.
  induction p as [|s r IH]; intros x nv pre old x' U Un H.
  - rewrite put_nil in H. injection H as _ <-. exact Un.
  - pose proof (put_cons_not_empty _ _ _ _ _ _ H) as Hne.
    destruct (put_cons_shape _ _ _ _ _ _ H) as [[d ->]|[[a ->]| ->]].
    + destruct (uniq_keys_doc _ U) as [ND FA].
      rewrite put_doc, Hne in H. destruct (lookup d s) as [y|] eqn:L.
      * destruct (put y r nv pre) as [[o y']|] eqn:P; [|discriminate]. injection H as _ <-.
        assert (Uy' : uniq_keys y').
        { eapply IH; [|exact Un|exact P]. rewrite Forall_forall in FA. exact (FA _ (lookup_in _ _ _ L)). }
        destruct (is_missing y').
        -- apply uk_doc; [apply nodup_remove_first; exact ND | apply forall_remove_first; exact FA].
        -- apply uk_doc; [rewrite map_fst_replace_first; exact ND | apply forall_replace_first; assumption].
      * destruct (is_missing nv); [discriminate|].
        destruct (put_new r nv) as [inner|] eqn:N; [|discriminate]. injection H as _ <-.
        pose proof (put_new_uniq _ _ _ Un N) as Ui. apply lookup_none_notin in L.
        destruct pre.
        -- apply uk_doc; [cbn; constructor; assumption | constructor; [exact Ui | exact FA]].
        -- apply uk_doc.
           ++ rewrite map_app. cbn. apply nodup_snoc; assumption.
           ++ apply Forall_app. split; [exact FA | constructor; [exact Ui | constructor]].
    + pose proof (uniq_keys_arr _ U) as FA.
      rewrite put_arr, Hne in H. destruct (atoi s) as [i|]; [|discriminate].
      destruct (i <? 0); [discriminate|]. destruct (i <? len a).
      * destruct (nth_z a i) as [y|] eqn:N; [|discriminate].
        destruct (put y r nv pre) as [[o y']|] eqn:P; [|discriminate]. injection H as _ <-.
        assert (Uy' : uniq_keys y').
        { eapply IH; [|exact Un|exact P]. rewrite Forall_forall in FA. exact (FA _ (nth_z_in _ _ _ N)). }
        apply uk_arr. apply forall_replace_nth; [exact FA|].
        destruct (is_missing y'); [apply uniq_scalar; intros; discriminate | exact Uy'].
      * destruct (is_missing nv); [discriminate|]. destruct (max_array_backfill <? i - len _); [discriminate|].
        destruct (put_new r nv) as [inner|] eqn:N; [|discriminate]. injection H as _ <-.
        apply uk_arr. apply Forall_app. split; [exact FA|]. apply Forall_app. split.
        -- apply forall_repeat_null. apply uniq_scalar; intros; discriminate.
        -- constructor; [|constructor]. eapply put_new_uniq; eauto.
    + rewrite put_missing, Hne in H. destruct (is_missing nv); [discriminate|].
      destruct (put_new r nv) as [inner|] eqn:N; [|discriminate]. injection H as _ <-.
      apply uk_doc; [cbn; repeat constructor; intros []|]. constructor; [|constructor]. cbn. eapply put_new_uniq; eauto.
Qed.

(* along a field path a removed value reads Missing afterwards (not null) *)
Lemma get_after_remove_field p : forall x pre old x',
  field_path p -> uniq_keys x -> p <> [] -> put x p VMissing pre = Some (old, x') ->
  fst (Access.get x' p false false) = VMissing.
Proof.
  induction p as [|s r IH]; intros x pre old x' F U Hp H; [congruence|].
  inversion F as [|? ? Fs Fr]; subst.
  pose proof (put_cons_not_empty _ _ _ _ _ _ H) as Hne.
  destruct (put_cons_shape _ _ _ _ _ _ H) as [[d ->]|[[a ->]| ->]].
  - destruct (uniq_keys_doc _ U) as [ND FA].
    rewrite put_doc, Hne in H. destruct (lookup d s) as [y|] eqn:L; [|discriminate].
    destruct (put y r VMissing pre) as [[o y']|] eqn:P; [|discriminate]. injection H as _ <-.
    rewrite get_doc, Hne. destruct r as [|k r'].
    + rewrite put_nil in P. injection P as _ <-. cbn [is_missing].
      rewrite (lookup_remove_first_nodup _ _ ND). reflexivity.
    + rewrite (put_cons_result_not_missing _ _ _ _ _ _ _ P), (lookup_replace_first_eq _ _ _ _ L).
      eapply IH; [exact Fr| |discriminate|exact P].
      rewrite Forall_forall in FA. exact (FA _ (lookup_in _ _ _ L)).
  - rewrite put_arr, Hne, Fs in H. discriminate.
  - rewrite put_missing, Hne in H. discriminate.
Qed.

(* $rename old -> new: the value moves, the old field is gone, every path
   disjoint from both keeps what it read, and exactly the two changes are
   recorded *)
Theorem apply_rename_ref d ch olds news v d' ch' :
  uniq_keys (VDoc d) ->
  field_path (split_path olds) -> field_path (split_path news) ->
  disjoint (split_path olds) (split_path news) ->
  Get d olds = v -> v <> VMissing ->
  apply_rename (d, ch) olds (VString news) = Ok (d', ch') ->
  Get d' news = v /\ Get d' olds = VMissing /\
  (forall qs, disjoint (split_path olds) (split_path qs) -> disjoint (split_path news) (split_path qs) ->
              Get d' qs = Get d qs) /\
  ch' = ch ++ [(olds, VMissing); (news, v)].
Proof.
  intros U Fo Fn D G Hv H. unfold apply_rename in H. cbn [fst snd] in H.
  destruct (indexed_path (split_path olds) || indexed_path (split_path news)); [discriminate|].
  destruct (String.eqb olds news); [discriminate|].
  destruct (has_prefix olds (news ++ ".") || has_prefix news (olds ++ ".")); [discriminate|].
  rewrite G in H. apply is_missing_false in Hv. rewrite Hv in H.
  destruct (Put d news v false) as [[o d1]| | | |] eqn:P; cbn [bind] in H; try discriminate.
  destruct (Unset d1 olds) as [o2 d2] eqn:Un.
  destruct (record ch olds VMissing) as [ch1| | | |] eqn:R1; cbn [bind] in H; try discriminate.
  destruct (record ch1 news v) as [ch2| | | |] eqn:R2; cbn [bind] in H; try discriminate.
  injection H as <- <-.
  assert (Uv : uniq_keys v).
  { rewrite <- G. unfold Get, get_path. apply get_uniq. exact U. }
  destruct (put_path_ok _ _ _ _ _ _ P) as [_ P'].
  pose proof (put_preserves_uniq _ _ _ _ _ _ U Uv P') as U1.
  split; [|split; [|split]].
  - change (get_path d2 (split_path news) = v).
    rewrite (unset_frame _ _ _ _ _ D Un). exact (get_put_same _ _ _ _ _ _ (field_path_canon _ Fn) P).
  - destruct (unset_path_changed _ _ _ _ Un (split_path_nonempty olds)) as [Q|(Q & _ & ->)].
    + exact (get_after_remove_field _ _ _ _ _ Fo U1 (split_path_nonempty olds) Q).
    + exact (put_missing_none_get _ _ _ Q).
  - intros qs D1 D2. change (get_path d2 (split_path qs) = get_path d (split_path qs)).
    rewrite (unset_frame _ _ _ _ _ D1 Un). exact (get_put_frame_field _ _ _ _ _ _ _ Fn D2 P).
  - rewrite (record_keys _ _ _ _ R2), (record_keys _ _ _ _ R1), <- app_assoc. reflexivity.
Qed.

(* ------------------------------------------------------------------ *)
(* $unset on any number of pairwise disjoint plain field paths is idempotent
   (documents with unique keys) *)

Lemma remove_returns_get p : forall x x' pre old,
  canon_path p -> put x p VMissing pre = Some (old, x') -> fst (Access.get x p false false) = old.
Proof.
  induction p as [|s r IH]; intros x x' pre old C P.
  - rewrite put_nil in P. injection P as <- _. rewrite get_nil. reflexivity.
  - inversion C as [|? ? Hs Hr]; subst.
    pose proof (put_cons_not_empty _ _ _ _ _ _ P) as Hne.
    destruct (put_cons_shape _ _ _ _ _ _ P) as [[e ->]|[[a ->]| ->]].
    + rewrite put_doc, Hne in P. rewrite get_doc, Hne. destruct (lookup e s); [|discriminate].
      destruct (put v r VMissing pre) as [[o y']|] eqn:Q; [|discriminate]. injection P as <- _.
      eapply IH; eauto.
    + rewrite put_arr, Hne in P. rewrite get_arr, Hne. red in Hs. rewrite <- Hs.
      destruct (atoi s) as [i|]; [|discriminate]. destruct (i <? 0); [discriminate|].
      destruct (i <? len a); [|discriminate]. destruct (nth_z a i); [|discriminate].
      destruct (put v r VMissing pre) as [[o y']|] eqn:Q; [|discriminate]. injection P as <- _.
      eapply IH; eauto.
    + rewrite put_missing, Hne in P. discriminate.
Qed.

Lemma unset_step d ch ps v d1 ch1 :
  uniq_keys (VDoc d) -> field_path (split_path ps) ->
  apply_unset (d, ch) ps v = Ok (d1, ch1) ->
  Get d1 ps = VMissing /\ uniq_keys (VDoc d1) /\
  (forall q, disjoint (split_path ps) q -> get_path d1 q = get_path d q).
Proof.
  intros U F H. unfold apply_unset in H. cbn [fst snd] in H.
  destruct (Unset d ps) as [old d'] eqn:E.
  pose proof (split_path_nonempty ps) as Hp.
  destruct (is_missing old) eqn:M.
  - injection H as <- <-. split; [|split; [exact U | reflexivity]].
    destruct (unset_path_changed _ _ _ _ E Hp) as [Q|(Q & _ & _)].
    + unfold Get, get_path. rewrite (remove_returns_get _ _ _ _ _ (field_path_canon _ F) Q).
      destruct old; try discriminate. reflexivity.
    + exact (put_missing_none_get _ _ _ Q).
  - destruct (record ch ps VMissing) as [ch'| | | |]; cbn [bind] in H; try discriminate.
    injection H as <- <-.
    destruct (unset_path_changed _ _ _ _ E Hp) as [Q|(_ & -> & _)]; [|discriminate].
    split; [exact (get_after_remove_field _ _ _ _ _ F U Hp Q)|]. split.
    + eapply put_preserves_uniq with (nv := VMissing); [exact U | apply uniq_scalar; intros; discriminate | exact Q].
    + intros q D. exact (unset_frame _ _ _ _ _ D E).
Qed.

Lemma unset_noop D ch ps v :
  field_path (split_path ps) -> Get D ps = VMissing -> apply_unset (D, ch) ps v = Ok (D, ch).
Proof.
  intros F G. unfold apply_unset. cbn [fst snd]. destruct (Unset D ps) as [old d'] eqn:E.
  destruct (is_missing old) eqn:M; [reflexivity|]. exfalso.
  assert (Ho : old <> VMissing) by (apply is_missing_false; exact M).
  pose proof (unset_returns_old _ _ _ _ E Ho (field_path_canon _ F)) as X.
  change (Get D ps = old) in X. congruence.
Qed.

Lemma unset_run_settles pairs : forall d ch dn chn,
  uniq_keys (VDoc d) -> field_pairs pairs -> pairwise_disjoint (map fst pairs) ->
  run apply_unset pairs (d, ch) = Ok (dn, chn) ->
  Forall (fun kv => Get dn (fst kv) = VMissing) pairs /\
  (forall q, Forall (fun kv => disjoint (split_path (fst kv)) q) pairs -> get_path dn q = get_path d q).
Proof.
  induction pairs as [|[p v] t IH]; intros d ch dn chn U F PD H.
  - cbn in H. injection H as <- <-. split; [constructor | reflexivity].
  - cbn [run] in H. inversion F as [|? ? Fp Ft]; subst. cbn [map fst pairwise_disjoint] in PD. destruct PD as [Dp PDt].
    destruct (apply_unset (d, ch) p v) as [[d1 ch1]| | | |] eqn:E; cbn [bind] in H; try discriminate.
    destruct (unset_step _ _ _ _ _ _ U Fp E) as (G1 & U1 & Fr1).
    destruct (IH _ _ _ _ U1 Ft PDt H) as [S Fr]. split.
    + constructor; [|exact S]. cbn [fst]. change (get_path dn (split_path p) = VMissing).
      rewrite Fr; [exact G1|]. rewrite Forall_forall in *. intros kv Hin.
      apply disjoint_sym. apply Dp. apply in_map. exact Hin.
    + intros q Hq. inversion Hq; subst. cbn [fst] in *. rewrite Fr by assumption. apply Fr1. assumption.
Qed.

Theorem apply_unset_idempotent_list m d q pairs up fs now d1 ch1 :
  plain_pairs pairs -> field_pairs pairs -> pairwise_disjoint (map fst pairs) -> uniq_keys (VDoc d) ->
  apply_with m d q [("$unset"%string, VDoc pairs)] up fs now = Ok (d1, ch1) ->
  exists ch2, apply_with m d1 q [("$unset"%string, VDoc pairs)] up fs now = Ok (d1, ch2).
Proof.
  intros PP F PD U H.
  assert (Ha : exists g, assoc "$unset"%string (update_ops m up now) = Some (g, apply_unset)) by (eexists; reflexivity).
  assert (Hk : starts_dollar "$unset"%string = true) by reflexivity.
  destruct (apply_with_one_ok _ _ _ _ _ _ _ _ _ _ _ Hk Ha PP H) as [ch R].
  destruct (unset_run_settles _ _ _ _ _ U F PD R) as [S _].
  assert (R2 : run apply_unset pairs (d1, []) = Ok (d1, [])).
  { clear -S F. revert S F. generalize (@nil (string * value)) as c. induction pairs as [|[p v] t IH]; intros c S F; [reflexivity|].
    inversion S; subst. inversion F; subst. cbn [run]. rewrite unset_noop by assumption. cbn [bind]. apply IH; assumption. }
  rewrite (apply_with_one _ _ _ _ _ _ _ _ _ Hk Ha PP (apply_with_ok_no_conflict _ _ _ _ _ _ _ _ H)), R2. cbn [bind fst snd]. eauto.
Qed.
