(* CodecProofs.v — the BSON wire codec of Model/Codec.v round-trips:
   decoding the encoding of any storable document (unbounded nesting and
   length) returns exactly that document — same field order, same value
   types, same bits. *)
From Coq Require Import List ZArith NArith Lia ZifyBool ZifyNat ZifyN Bool String Ascii.
From Lungo.Model Require Import Codec.
Import ListNotations.
Close Scope string_scope.
Open Scope list_scope.
Open Scope Z_scope.

Arguments Z.mul : simpl never.
Arguments Z.add : simpl never.
Arguments Z.sub : simpl never.
Arguments Z.div : simpl never.
Arguments Z.modulo : simpl never.
Arguments Z.of_nat : simpl never.
Arguments Z.to_nat : simpl never.
Arguments ascii_of_N : simpl never.
Arguments N_of_ascii : simpl never.
Arguments Z.ltb : simpl never.
Arguments Z.leb : simpl never.
Arguments Z.eqb : simpl never.

(* ---------------------------------------------------------------- *)
(* bytes *)

Lemma Z_of_byte_range a : 0 <= Z_of_byte a < 256.
Proof.
  unfold Z_of_byte. pose proof (N_ascii_bounded a) as H. lia.
Qed.

Lemma Z_of_byte_of_Z z : 0 <= z < 256 -> Z_of_byte (byte_of_Z z) = z.
Proof.
  intro H. unfold Z_of_byte, byte_of_Z.
  rewrite N_ascii_embedding by lia. lia.
Qed.

Lemma byte_of_Z_of_byte a : byte_of_Z (Z_of_byte a) = a.
Proof.
  unfold Z_of_byte, byte_of_Z. rewrite N2Z.id. apply ascii_N_embedding.
Qed.

Lemma byte_of_Z_nonzero z : 0 < z < 256 -> Ascii.eqb (byte_of_Z z) zero_byte = false.
Proof.
  intro H. apply Ascii.eqb_neq. intro E.
  assert (Z_of_byte (byte_of_Z z) = Z_of_byte zero_byte) as E' by (rewrite E; reflexivity).
  rewrite Z_of_byte_of_Z in E' by lia. change (Z_of_byte zero_byte) with 0 in E'. lia.
Qed.

(* ---------------------------------------------------------------- *)
(* little-endian words *)

Lemma le_bytes_length n : forall z, List.length (le_bytes n z) = n.
Proof.
  induction n as [|n IH]; intro z; simpl; [reflexivity | rewrite IH; reflexivity].
Qed.

Lemma le_val_le_bytes n : forall z, 0 <= z < 256 ^ Z.of_nat n -> le_val (le_bytes n z) = z.
Proof.
  induction n as [|n IH]; intros z H.
  - change (256 ^ Z.of_nat 0) with 1 in H. simpl. lia.
  - rewrite Nat2Z.inj_succ, Z.pow_succ_r in H by lia.
    cbn [le_bytes le_val].
    pose proof (Z.mod_pos_bound z 256 ltac:(lia)) as Hm.
    rewrite Z_of_byte_of_Z by lia.
    rewrite IH.
    + pose proof (Z.div_mod z 256 ltac:(lia)). lia.
    + split.
      * apply Z.div_pos; lia.
      * apply Z.div_lt_upper_bound; lia.
Qed.

Lemma pow_256_4 : 256 ^ Z.of_nat 4 = two32.
Proof. reflexivity. Qed.

Lemma pow_256_8 : 256 ^ Z.of_nat 8 = two64.
Proof. reflexivity. Qed.

Lemma u32_length z : List.length (u32 z) = 4%nat.
Proof. apply le_bytes_length. Qed.

Lemma u64_length z : List.length (u64 z) = 8%nat.
Proof. apply le_bytes_length. Qed.

Lemma le_val_u32 z : le_val (u32 z) = z mod two32.
Proof.
  unfold u32. apply le_val_le_bytes. rewrite pow_256_4.
  apply Z.mod_pos_bound. unfold two32. lia.
Qed.

Lemma le_val_u64 z : le_val (u64 z) = z mod two64.
Proof.
  unfold u64. apply le_val_le_bytes. rewrite pow_256_8.
  apply Z.mod_pos_bound. unfold two64. lia.
Qed.

Lemma to_signed_mod half full z :
  0 < half -> full = 2 * half -> - half <= z < half ->
  to_signed half full (z mod full) = z.
Proof.
  intros Hh Hf Hz. unfold to_signed.
  destruct (Z_lt_le_dec z 0) as [Neg|Pos].
  - assert (z mod full = z + full) as E.
    { replace z with ((z + full) + (-1) * full) at 1 by lia.
      rewrite Z_mod_plus_full. apply Z.mod_small. lia. }
    rewrite E. destruct (z + full <? half) eqn:C; lia.
  - rewrite Z.mod_small by lia. destruct (z <? half) eqn:C; lia.
Qed.

Lemma signed32 z : - two31 <= z < two31 -> to_signed two31 two32 (z mod two32) = z.
Proof. intro H. apply to_signed_mod; unfold two31, two32 in *; lia. Qed.

Lemma signed64 z : - two63 <= z < two63 -> to_signed two63 two64 (z mod two64) = z.
Proof. intro H. apply to_signed_mod; unfold two63, two64 in *; lia. Qed.

(* ---------------------------------------------------------------- *)
(* readers consume exactly what the printers produced *)

Lemma take_n_app (a r : bytes) : take_n (List.length a) (a ++ r) = Some (a, r).
Proof.
  induction a as [|b a IH]; simpl; [reflexivity | rewrite IH; reflexivity].
Qed.

Lemma take_zl_app (a r : bytes) : take_zl (a ++ r) (Z.of_nat (List.length a)) = Some (a, r).
Proof.
  induction a as [|b a IH].
  - destruct r; reflexivity.
  - cbn [List.length app take_zl].
    replace (Z.of_nat (S (List.length a)) =? 0) with false by lia.
    replace (Z.of_nat (S (List.length a)) - 1) with (Z.of_nat (List.length a)) by lia.
    rewrite IH. reflexivity.
Qed.

Lemma take_z_app (a r : bytes) : take_z (Z.of_nat (List.length a)) (a ++ r) = Some (a, r).
Proof.
  unfold take_z. replace (Z.of_nat (List.length a) <? 0) with false by lia. apply take_zl_app.
Qed.

Lemma take_z_app' n (a r : bytes) : n = Z.of_nat (List.length a) -> take_z n (a ++ r) = Some (a, r).
Proof. intros ->. apply take_z_app. Qed.

Lemma read_u32_app z r : read_u32 (u32 z ++ r) = Some (z mod two32, r).
Proof.
  unfold read_u32. pose proof (take_n_app (u32 z) r) as H. rewrite u32_length in H.
  rewrite H, le_val_u32. reflexivity.
Qed.

Lemma read_u64_app z r : read_u64 (u64 z ++ r) = Some (z mod two64, r).
Proof.
  unfold read_u64. pose proof (take_n_app (u64 z) r) as H. rewrite u64_length in H.
  rewrite H, le_val_u64. reflexivity.
Qed.

Lemma read_i32_app z r : - two31 <= z < two31 -> read_i32 (u32 z ++ r) = Some (z, r).
Proof. intro H. unfold read_i32. rewrite read_u32_app, signed32 by exact H. reflexivity. Qed.

Lemma read_i64_app z r : - two63 <= z < two63 -> read_i64 (u64 z ++ r) = Some (z, r).
Proof. intro H. unfold read_i64. rewrite read_u64_app, signed64 by exact H. reflexivity. Qed.

Lemma read_u32_small z r : 0 <= z < two32 -> read_u32 (u32 z ++ r) = Some (z, r).
Proof. intro H. rewrite read_u32_app, Z.mod_small by exact H. reflexivity. Qed.

Lemma read_u64_small z r : 0 <= z < two64 -> read_u64 (u64 z ++ r) = Some (z, r).
Proof. intro H. rewrite read_u64_app, Z.mod_small by exact H. reflexivity. Qed.

(* strings *)

Lemma string_bytes_inv s : string_of_bytes (bytes_of_string s) = s.
Proof. apply string_of_list_ascii_of_string. Qed.

Lemma read_cstr_app s r : no_nul s = true -> read_cstr (cstr s ++ r) = Some (s, r).
Proof.
  unfold cstr. induction s as [|c s IH]; intro H.
  - simpl. reflexivity.
  - simpl in H. apply andb_prop in H. destruct H as [Hc Hs].
    apply negb_true_iff in Hc.
    change (bytes_of_string (String c s)) with (c :: bytes_of_string s).
    cbn [app read_cstr]. rewrite Hc, (IH Hs). reflexivity.
Qed.

Lemma cstr_length s : List.length (cstr s) = S (List.length (bytes_of_string s)).
Proof. unfold cstr. rewrite app_length. simpl. lia. Qed.

Lemma dec_string_app s r :
  Z.of_nat (List.length (enc_string s)) < two31 ->
  dec_string (enc_string s ++ r) = Some (s, r).
Proof.
  unfold enc_string, dec_string. intro L.
  rewrite app_length, u32_length, cstr_length in L.
  rewrite <- app_assoc, read_i32_app
    by (rewrite cstr_length; unfold two31 in *; lia).
  rewrite cstr_length.
  replace (1 <=? Z.of_nat (S (List.length (bytes_of_string s)))) with true by lia.
  unfold cstr. rewrite <- app_assoc.
  rewrite take_z_app' by lia.
  cbn [app]. change (Ascii.eqb zero_byte zero_byte) with true. cbn iota.
  rewrite string_bytes_inv. reflexivity.
Qed.

(* decimal array keys contain no NUL *)

Lemma digit_char_nonzero d : 0 <= d < 10 -> Ascii.eqb (digit_char d) zero_byte = false.
Proof.
  intro H. unfold digit_char.
  assert (d = 0 \/ d = 1 \/ d = 2 \/ d = 3 \/ d = 4 \/ d = 5 \/ d = 6 \/ d = 7 \/ d = 8 \/ d = 9) as C by lia.
  repeat (destruct C as [-> | C]; [reflexivity|]). subst. reflexivity.
Qed.

Lemma show_pos_go_no_nul fuel : forall n acc,
  0 <= n -> no_nul acc = true -> no_nul (show_pos_go fuel n acc) = true.
Proof.
  induction fuel as [|f IH]; intros n acc Hn Ha; cbn [show_pos_go]; [exact Ha|].
  destruct (n <? 10) eqn:C.
  - cbn [no_nul]. rewrite digit_char_nonzero by lia. exact Ha.
  - apply IH.
    + apply Z.div_pos; lia.
    + cbn [no_nul]. rewrite digit_char_nonzero, Ha; [reflexivity|].
      pose proof (Z.mod_pos_bound n 10 ltac:(lia)). lia.
Qed.

Lemma show_Z_no_nul i : 0 <= i -> no_nul (show_Z i) = true.
Proof.
  intro H. destruct i as [|p|p]; [reflexivity| |lia].
  unfold show_Z. apply show_pos_go_no_nul; [lia | reflexivity].
Qed.

(* ---------------------------------------------------------------- *)
(* structure of the encoder on the nested lists *)

Lemma enc_value_doc d : enc_value (VDoc d) = frame (enc_elems d).
Proof.
  reflexivity.
Qed.

Lemma enc_value_arr a : enc_value (VArr a) = frame (enc_items a 0).
Proof.
  reflexivity.
Qed.

Lemma codec_ok_doc d :
  codec_ok (VDoc d) = forallb (fun kv => no_nul (fst kv) && codec_ok (snd kv)) d.
Proof.
  cbn [codec_ok]. induction d as [|[k x] d IH]; [reflexivity|].
  cbn [forallb fst snd]. rewrite <- IH. reflexivity.
Qed.

Lemma codec_ok_arr a : codec_ok (VArr a) = forallb codec_ok a.
Proof.
  cbn [codec_ok]. induction a as [|x a IH]; [reflexivity|].
  cbn [forallb]. rewrite <- IH. reflexivity.
Qed.

(* the array as the decoder of documents sees it *)
Fixpoint keyed (a : list value) (i : Z) : list (string * value) :=
  match a with
  | [] => []
  | x :: t => (show_Z i, x) :: keyed t (i + 1)
  end.

Lemma enc_items_keyed a : forall i, enc_items a i = enc_elems (keyed a i).
Proof.
  induction a as [|x a IH]; intro i; [reflexivity|].
  cbn [enc_items keyed enc_elems]. rewrite IH. reflexivity.
Qed.

Lemma map_snd_keyed a : forall i, map snd (keyed a i) = a.
Proof.
  induction a as [|x a IH]; intro i; [reflexivity|]. cbn [keyed map snd]. rewrite IH. reflexivity.
Qed.

(* ---------------------------------------------------------------- *)
(* fuel *)

Fixpoint vneed (v : value) : nat :=
  match v with
  | VDoc d =>
      S (S ((fix go (d : list (string * value)) : nat :=
               match d with [] => O | (_, x) :: t => S (vneed x + go t) end) d))
  | VArr a =>
      S (S ((fix go (a : list value) : nat :=
               match a with [] => O | x :: t => S (vneed x + go t) end) a))
  | _ => 1%nat
  end.

Fixpoint eneed (d : list (string * value)) : nat :=
  match d with
  | [] => 1%nat
  | (_, x) :: t => S (vneed x + eneed t)
  end.

Lemma vneed_doc d : vneed (VDoc d) = S (eneed d).
Proof.
  cbn [vneed]. f_equal.
  induction d as [|[k x] d IH]; [reflexivity|]. cbn [eneed]. rewrite <- IH. lia.
Qed.

Lemma vneed_arr a : forall i, vneed (VArr a) = S (eneed (keyed a i)).
Proof.
  cbn [vneed]. intro i. f_equal. revert i.
  induction a as [|x a IH]; intro i; [reflexivity|]. cbn [keyed eneed]. rewrite <- (IH (i + 1)). lia.
Qed.

Lemma vneed_pos v : (1 <= vneed v)%nat.
Proof. destruct v; cbn [vneed]; lia. Qed.

(* ---------------------------------------------------------------- *)
(* the type byte *)

Lemma type_of_range v : 0 < type_of v < 256.
Proof. destruct v; cbv; split; reflexivity. Qed.

(* ---------------------------------------------------------------- *)
(* elements: given the round trip of each value, the element list round-trips *)

Definition rt (v : value) : Prop :=
  codec_ok v = true -> Z.of_nat (List.length (enc_value v)) < two31 ->
  forall fuel rest, (vneed v <= fuel)%nat ->
  dec_value fuel (type_of v) (enc_value v ++ rest) = Some (v, rest).

Lemma elem_length ty k p : List.length (elem ty k p) = (2 + List.length (bytes_of_string k) + List.length p)%nat.
Proof. unfold elem. cbn [List.length]. rewrite app_length, cstr_length. lia. Qed.

Lemma dec_enc_elems d :
  Forall (fun kv => rt (snd kv)) d ->
  forallb (fun kv => no_nul (fst kv) && codec_ok (snd kv)) d = true ->
  Z.of_nat (List.length (enc_elems d)) < two31 ->
  forall fuel, (eneed d <= fuel)%nat ->
  dec_elems fuel (enc_elems d ++ [zero_byte]) = Some d.
Proof.
  induction d as [|[k x] d IH]; intros HF Hok Hlen fuel Hfuel.
  - destruct fuel as [|f]; [cbn [eneed] in Hfuel; lia|]. reflexivity.
  - inversion HF as [|? ? Hx HF']; subst. cbn [snd] in Hx.
    cbn [forallb fst snd] in Hok.
    apply andb_prop in Hok. destruct Hok as [Hkx Hok'].
    apply andb_prop in Hkx. destruct Hkx as [Hk Hxok].
    cbn [enc_elems] in Hlen |- *. rewrite app_length, elem_length in Hlen.
    cbn [eneed] in Hfuel.
    destruct fuel as [|f]; [lia|].
    unfold elem. cbn [app dec_elems].
    rewrite byte_of_Z_nonzero by apply type_of_range.
    rewrite <- !app_assoc. rewrite read_cstr_app by exact Hk.
    rewrite Z_of_byte_of_Z by (pose proof (type_of_range x); lia).
    rewrite Hx; [| exact Hxok | lia | lia].
    rewrite IH; [reflexivity | exact HF' | exact Hok' | lia | lia].
Qed.

(* ---------------------------------------------------------------- *)
(* the frame of documents and arrays *)

Lemma frame_length body : List.length (frame body) = (List.length body + 5)%nat.
Proof. unfold frame. rewrite !app_length, u32_length. simpl. lia. Qed.

Lemma read_frame body rest :
  Z.of_nat (List.length (frame body)) < two31 ->
  exists n, read_i32 (frame body ++ rest) = Some (n, (body ++ [zero_byte]) ++ rest)
            /\ (5 <=? n) = true
            /\ take_z (n - 4) ((body ++ [zero_byte]) ++ rest) = Some (body ++ [zero_byte], rest).
Proof.
  intro L. rewrite frame_length in L.
  exists (Z.of_nat (List.length body) + 5). unfold frame. rewrite <- app_assoc.
  rewrite read_i32_app by (unfold two31 in *; lia).
  split; [reflexivity|]. split; [lia|].
  apply take_z_app'. rewrite app_length. simpl. lia.
Qed.

(* ---------------------------------------------------------------- *)
(* the round trip of one value, by nested induction *)

Definition sub (P : value -> Prop) (v : value) : Prop :=
  match v with
  | VDoc d => Forall (fun kv => P (snd kv)) d
  | VArr a => Forall P a
  | _ => True
  end.

Lemma value_ind' (P : value -> Prop) :
  (forall v, sub P v -> P v) -> forall v, P v.
Proof.
  intro H. fix IH 1. intro v. apply H.
  destruct v; simpl; try exact I.
  - induction d as [|[k x] d IHd]; constructor; [apply IH | exact IHd].
  - induction a as [|x a IHa]; constructor; [apply IH | exact IHa].
Qed.

Lemma keyed_ok a : forall i, 0 <= i ->
  forallb codec_ok a = true ->
  forallb (fun kv => no_nul (fst kv) && codec_ok (snd kv)) (keyed a i) = true.
Proof.
  induction a as [|x a IH]; intros i Hi H; [reflexivity|].
  cbn [forallb] in H. apply andb_prop in H. destruct H as [Hx Ha].
  cbn [keyed forallb fst snd]. rewrite show_Z_no_nul, Hx by exact Hi.
  rewrite IH by (lia || exact Ha). reflexivity.
Qed.

Lemma keyed_Forall (P : value -> Prop) a : forall i,
  Forall P a -> Forall (fun kv => P (snd kv)) (keyed a i).
Proof.
  induction a as [|x a IH]; intros i H; [constructor|].
  inversion H; subst. cbn [keyed]. constructor; [assumption | apply IH; assumption].
Qed.

Lemma bool_byte_true : Z_of_byte one_byte = 1.
Proof. reflexivity. Qed.

Lemma dec_enc_value : forall v, rt v.
Proof.
  apply value_ind'. intros v Hsub Hok Hlen fuel rest Hfuel.
  destruct fuel as [|f]; [pose proof (vneed_pos v); lia|].
  destruct v.
  - (* null *) reflexivity.
  - (* missing *) discriminate Hok.
  - (* int32 *)
    cbn [codec_ok] in Hok. cbn [type_of inspect snd enc_value].
    change (dec_value (S f) ty_int32 (u32 z ++ rest)) with
      (match read_i32 (u32 z ++ rest) with Some (z0, r) => Some (VInt32 z0, r) | None => None end).
    rewrite read_i32_app by lia. reflexivity.
  - (* int64 *)
    cbn [codec_ok] in Hok. cbn [type_of inspect snd enc_value].
    change (dec_value (S f) ty_int64 (u64 z ++ rest)) with
      (match read_i64 (u64 z ++ rest) with Some (z0, r) => Some (VInt64 z0, r) | None => None end).
    rewrite read_i64_app by lia. reflexivity.
  - (* double *)
    cbn [codec_ok] in Hok. cbn [type_of inspect snd enc_value].
    change (dec_value (S f) ty_double (u64 bits ++ rest)) with
      (match read_u64 (u64 bits ++ rest) with Some (b, r) => Some (VDouble b, r) | None => None end).
    rewrite read_u64_small by lia. reflexivity.
  - (* decimal *)
    cbn [codec_ok] in Hok. cbn [type_of inspect snd enc_value].
    change (dec_value (S f) ty_decimal ((u64 l ++ u64 h) ++ rest)) with
      (match read_u64 ((u64 l ++ u64 h) ++ rest) with
       | Some (l0, r) => match read_u64 r with Some (h0, r1) => Some (VDecimal h0 l0, r1) | None => None end
       | None => None end).
    rewrite <- app_assoc. rewrite read_u64_small by lia. rewrite read_u64_small by lia. reflexivity.
  - (* string *)
    cbn [type_of inspect snd enc_value] in *.
    change (dec_value (S f) ty_string (enc_string s ++ rest)) with
      (match dec_string (enc_string s ++ rest) with Some (s0, r) => Some (VString s0, r) | None => None end).
    rewrite dec_string_app by exact Hlen. reflexivity.
  - (* document *)
    rewrite enc_value_doc in *. rewrite codec_ok_doc in Hok. rewrite vneed_doc in Hfuel.
    cbn [type_of inspect snd sub] in *.
    destruct (read_frame (enc_elems d) rest Hlen) as [n [R [C T]]].
    change (dec_value (S f) ty_document (frame (enc_elems d) ++ rest)) with
      (match read_i32 (frame (enc_elems d) ++ rest) with
       | Some (n, r) =>
           if 5 <=? n then
             match take_z (n - 4) r with
             | Some (body, rest0) =>
                 match dec_elems f body with Some d0 => Some (VDoc d0, rest0) | None => None end
             | None => None end
           else None
       | None => None end).
    rewrite R, C, T. rewrite frame_length in Hlen.
    rewrite dec_enc_elems; [reflexivity | exact Hsub | exact Hok | lia | lia].
  - (* array *)
    rewrite enc_value_arr in *. rewrite codec_ok_arr in Hok. rewrite (vneed_arr a 0) in Hfuel.
    rewrite enc_items_keyed in *.
    cbn [type_of inspect snd sub] in *.
    destruct (read_frame (enc_elems (keyed a 0)) rest Hlen) as [n [R [C T]]].
    change (dec_value (S f) ty_array (frame (enc_elems (keyed a 0)) ++ rest)) with
      (match read_i32 (frame (enc_elems (keyed a 0)) ++ rest) with
       | Some (n, r) =>
           if 5 <=? n then
             match take_z (n - 4) r with
             | Some (body, rest0) =>
                 match dec_elems f body with Some d0 => Some (VArr (map snd d0), rest0) | None => None end
             | None => None end
           else None
       | None => None end).
    rewrite R, C, T. rewrite frame_length in Hlen.
    rewrite dec_enc_elems;
      [rewrite map_snd_keyed; reflexivity | apply keyed_Forall; exact Hsub
      | apply keyed_ok; [lia | exact Hok] | lia | lia].
  - (* binary *)
    cbn [codec_ok] in Hok. cbn [type_of inspect snd enc_value] in *.
    change (dec_value (S f) ty_binary (enc_binary subtype data ++ rest)) with
      (dec_binary (enc_binary subtype data ++ rest)).
    unfold enc_binary in *. unfold dec_binary.
    destruct (subtype =? 2) eqn:S2.
    + assert (subtype = 2) by lia. subst subtype.
      destruct data as [|c data]; [cbn in Hok; lia|].
      set (d := bytes_of_string (String c data)) in *.
      assert (1 <= Z.of_nat (List.length d)) as Hd by (subst d; cbn [bytes_of_string list_ascii_of_string List.length]; lia).
      rewrite !app_length, !u32_length in Hlen. cbn [List.length] in Hlen.
      rewrite <- !app_assoc. rewrite read_i32_app by (unfold two31 in *; lia).
      cbn [app]. rewrite Z_of_byte_of_Z by lia.
      replace ((2 =? 2) && (4 <? Z.of_nat (List.length d) + 4)) with true by lia.
      rewrite read_i32_app by (unfold two31 in *; lia).
      rewrite take_z_app. subst d. rewrite string_bytes_inv. reflexivity.
    + set (d := bytes_of_string data) in *.
      rewrite !app_length, !u32_length in Hlen. cbn [List.length] in Hlen.
      rewrite <- !app_assoc. rewrite read_i32_app by (unfold two31 in *; lia).
      cbn [app]. rewrite Z_of_byte_of_Z by lia.
      rewrite S2. cbn [andb].
      rewrite take_z_app. subst d. rewrite string_bytes_inv. reflexivity.
  - (* object id *)
    cbn [codec_ok] in Hok. apply Nat.eqb_eq in Hok.
    cbn [type_of inspect snd enc_value].
    change (dec_value (S f) ty_objectid (bytes_of_string bytes ++ rest)) with
      (match take_n 12 (bytes_of_string bytes ++ rest) with
       | Some (o, r) => Some (VOid (string_of_bytes o), r) | None => None end).
    rewrite <- Hok, take_n_app, string_bytes_inv. reflexivity.
  - (* bool *)
    destruct b; reflexivity.
  - (* date *)
    cbn [codec_ok] in Hok. cbn [type_of inspect snd enc_value].
    change (dec_value (S f) ty_date (u64 ms ++ rest)) with
      (match read_i64 (u64 ms ++ rest) with Some (z0, r) => Some (VDate z0, r) | None => None end).
    rewrite read_i64_app by lia. reflexivity.
  - (* timestamp *)
    cbn [codec_ok] in Hok. cbn [type_of inspect snd enc_value].
    change (dec_value (S f) ty_timestamp ((u32 i ++ u32 t) ++ rest)) with
      (match read_u32 ((u32 i ++ u32 t) ++ rest) with
       | Some (i0, r) => match read_u32 r with Some (t0, r1) => Some (VTs t0 i0, r1) | None => None end
       | None => None end).
    rewrite <- app_assoc. rewrite read_u32_small by lia. rewrite read_u32_small by lia. reflexivity.
  - (* regex *)
    cbn [codec_ok] in Hok.
    apply andb_prop in Hok. destruct Hok as [Hok _].
    apply andb_prop in Hok. destruct Hok as [Hok Hs].
    apply andb_prop in Hok. destruct Hok as [Hp Ho].
    apply String.eqb_eq in Hs.
    cbn [type_of inspect snd enc_value]. rewrite Hs.
    change (dec_value (S f) ty_regex ((cstr pat ++ cstr opts) ++ rest)) with
      (match read_cstr ((cstr pat ++ cstr opts) ++ rest) with
       | Some (p, r) => match read_cstr r with Some (o, r1) => Some (VRegex p o, r1) | None => None end
       | None => None end).
    rewrite <- app_assoc. rewrite read_cstr_app by exact Hp. rewrite read_cstr_app by exact Ho.
    reflexivity.
Qed.

(* ---------------------------------------------------------------- *)
(* documents *)

(* a storable document: values in their Go ranges, no NUL in keys and regex
   parts, 12-byte ObjectIDs (codec_ok), and an encoding below 2^31 bytes
   (every BSON length is an int32) *)
Definition wf_doc (d : doc) : Prop :=
  codec_ok (VDoc d) = true /\ Z.of_nat (List.length (encode_doc d)) < two31.

Definition doc_fuel (d : doc) : nat := vneed (VDoc d).

Lemma decode_encode_fuel : forall d fuel, wf_doc d -> (doc_fuel d <= fuel)%nat ->
  decode_doc fuel (encode_doc d) = Some d.
Proof.
  intros d fuel [Hok Hlen] Hfuel. unfold decode_doc, encode_doc in *.
  pose proof (dec_enc_value (VDoc d) Hok Hlen fuel [] Hfuel) as H.
  rewrite app_nil_r in H. change (type_of (VDoc d)) with ty_document in H.
  rewrite H. reflexivity.
Qed.

(* the length of the input is always enough fuel *)
Lemma eneed_le_length d :
  Forall (fun kv => (vneed (snd kv) <= S (List.length (enc_value (snd kv))))%nat) d ->
  (eneed d <= S (List.length (enc_elems d)))%nat.
Proof.
  induction d as [|[k x] d IH]; intro H; [cbn; lia|].
  inversion H as [|? ? Hx H']; subst. cbn [snd] in Hx.
  cbn [eneed enc_elems]. rewrite app_length, elem_length. specialize (IH H'). lia.
Qed.

Lemma vneed_le_length : forall v, (vneed v <= S (List.length (enc_value v)))%nat.
Proof.
  apply value_ind'. intros v Hsub.
  destruct v; try (cbn [vneed]; lia).
  - cbn [sub] in Hsub. rewrite vneed_doc, enc_value_doc, frame_length.
    pose proof (eneed_le_length d Hsub). lia.
  - cbn [sub] in Hsub. rewrite (vneed_arr a 0), enc_value_arr, frame_length, enc_items_keyed.
    pose proof (eneed_le_length (keyed a 0) (keyed_Forall _ a 0 Hsub)). lia.
Qed.

Theorem decode_encode : forall d, wf_doc d -> decode_bytes (encode_doc d) = Some d.
Proof.
  intros d H. unfold decode_bytes. apply decode_encode_fuel; [exact H|].
  unfold doc_fuel, encode_doc. apply vneed_le_length.
Qed.

(* equal bytes, equal documents: nothing of a storable document (field order,
   value types, bit patterns) is lost in the encoding *)
Theorem encode_injective : forall d1 d2, wf_doc d1 -> wf_doc d2 ->
  encode_doc d1 = encode_doc d2 -> d1 = d2.
Proof.
  intros d1 d2 H1 H2 E.
  pose proof (decode_encode d1 H1) as D1. pose proof (decode_encode d2 H2) as D2.
  rewrite E in D1. rewrite D1 in D2. injection D2 as ->. reflexivity.
Qed.
