(* TxnProofs.v — the transaction layer discards everything a failing
   operation did (C02), for ANY operator semantics: the half-applied
   collection a failing mongokit operation leaves behind (modelled in
   Collection.v) never reaches the transaction's catalog. *)
From Coq Require Import List ZArith Lia Bool.
From Lungo.Model Require Import Txn.
Import ListNotations.
Open Scope Z_scope.
Open Scope list_scope.

Section TxnProofs.
  Variable matchf : doc -> doc -> res bool.
  Variable applyf : doc -> doc -> doc -> bool -> list doc -> Z -> res (doc * list (string * value)).
  Variable extractf : doc -> res doc.

  Notation txn_insert := (txn_insert matchf).
  Notation txn_replace := (txn_replace matchf applyf extractf).
  Notation txn_update := (txn_update matchf applyf extractf).
  Notation txn_delete := (txn_delete matchf).
  Notation txn_bulk := (txn_bulk matchf applyf extractf).
  Notation txn_create_index := (txn_create_index matchf).
  Notation t_insert := (t_insert matchf).

  (* ---------------------------------------------------------------- *)
  (* single writes: an error leaves the catalog untouched *)

  Lemma finish_error c g h ch r c' g' e :
    finish c g h ch r = (c', g', inr e) -> c' = c.
  Proof.
    unfold finish. destruct r as [w [tr|k]].
    - destruct (ch tr); intro H; inversion H.
    - intro H; inversion H; reflexivity.
  Qed.

  Lemma txn_replace_error_noop c g h q s r u now c' g' e :
    txn_replace c g h q s r u now = (c', g', inr e) -> c' = c.
  Proof.
    unfold Txn.txn_replace. destruct (guard_write h).
    - intro H; inversion H; reflexivity.
    - destruct (ns_get (cat_ns c) h).
      + apply finish_error.
      + destruct u.
        * apply finish_error.
        * intro H; inversion H.
  Qed.

  Lemma txn_update_error_noop c g h q s u sk li up afs now c' g' e :
    txn_update c g h q s u sk li up afs now = (c', g', inr e) -> c' = c.
  Proof.
    unfold Txn.txn_update. destruct (guard_write h).
    - intro H; inversion H; reflexivity.
    - destruct (ns_get (cat_ns c) h).
      + apply finish_error.
      + destruct up.
        * apply finish_error.
        * intro H; inversion H.
  Qed.

  Lemma txn_delete_error_noop c g h q s sk li c' g' e :
    txn_delete c g h q s sk li = (c', g', inr e) -> c' = c.
  Proof.
    unfold Txn.txn_delete. destruct (guard_write h).
    - intro H; inversion H; reflexivity.
    - destruct (ns_get (cat_ns c) h).
      + apply finish_error.
      + intro H; inversion H.
  Qed.

  Lemma txn_create_index_error_noop c h n cf c' e :
    txn_create_index c h n cf = (c', inr e) -> c' = c.
  Proof.
    unfold Txn.txn_create_index. destruct (guard_write h).
    - intro H; inversion H; reflexivity.
    - destruct (coll_create_index matchf (ns_or_new c h) n cf) as [n' [nm|k]];
        intro H; inversion H; reflexivity.
  Qed.

  Lemma txn_drop_index_error_noop c h n c' e :
    txn_drop_index c h n = (c', inr e) -> c' = c.
  Proof.
    unfold txn_drop_index. destruct (guard_write h).
    - intro H; inversion H; reflexivity.
    - destruct (ns_get (cat_ns c) h) as [nn|].
      + destruct (coll_drop_index nn n) as [n' [[|x l]|k]]; intro H; inversion H; reflexivity.
      + intro H; inversion H; reflexivity.
  Qed.

  Lemma txn_drop_error_noop c g h c' g' e :
    txn_drop c g h = (c', g', inr e) -> c' = c.
  Proof.
    unfold txn_drop.
    destruct (negb (valid_handle h false)); [intro H; inversion H; reflexivity|].
    destruct (is_local h); [intro H; inversion H; reflexivity|].
    destruct (map fst _) as [|v vs].
    - intro H; inversion H.
    - destruct (drop_events _ _ _ _) as [[ol cl] g1].
      destruct (if String.eqb (snd h) "" then _ else _) as [[ol2 cl2] g2].
      intro H; inversion H.
  Qed.

  (* ---------------------------------------------------------------- *)
  (* insert-many: exactly the items that individually succeed take effect *)

  (* a single-document insert through the public method *)
  Definition insert1 (c : catalog) (g : gen) (h : handle) (d : doc)
    : catalog * gen * (list sdoc + ekind) :=
    match t_insert (open_w c g h) h d with
    | (w, inl r) => (close_w c h w, w_gen w, inl (t_modified r))
    | (w, inr e) => (c, gen_after_fail g (w_gen w), inr e)
    end.

  (* the reference: run the items one at a time; a failing item changes
     nothing; ordered stops at the first failure *)
  Fixpoint insert_seq (c : catalog) (g : gen) (h : handle) (l : list doc) (ordered : bool)
    : catalog * gen * list sdoc * option ekind :=
    match l with
    | [] => (c, g, [], None)
    | d :: t =>
        match insert1 c g h d with
        | (c1, g1, inl m) =>
            let '(c2, g2, acc, err) := insert_seq c1 g1 h t ordered in (c2, g2, m ++ acc, err)
        | (_, g1, inr e) =>
            if ordered then (c, g1, [], Some e)
            else
              let '(c2, g2, acc, err) := insert_seq c g1 h t ordered in
              (c2, g2, acc, Some e)
        end
    end.

  Definition first_err (a b : option ekind) : option ekind :=
    match a with Some _ => a | None => b end.

  Lemma insert_loop_seq l : forall c g h ordered acc err,
    insert_loop matchf c g h l ordered acc err =
    let '(c2, g2, acc2, err2) := insert_seq c g h l ordered in
    (c2, g2, acc ++ acc2, first_err err err2).
  Proof.
    induction l as [|d t IH]; intros c g h ordered acc err; simpl.
    - rewrite app_nil_r. destruct err; reflexivity.
    - unfold insert1.
      destruct (t_insert (open_w c g h) h d) as [w [r|e]].
      + rewrite IH.
        destruct (insert_seq (close_w c h w) (w_gen w) h t ordered) as [[[c2 g2] acc2] err2].
        rewrite app_assoc. reflexivity.
      + destruct ordered.
        * rewrite app_nil_r. destruct err; reflexivity.
        * rewrite IH.
          destruct (insert_seq c (gen_after_fail g (w_gen w)) h t false) as [[[c2 g2] acc2] err2].
          destruct err; reflexivity.
  Qed.

  (* a successful single insert reports exactly one inserted document *)
  Lemma coll_insert_modified c fresh d oid c' r :
    coll_insert matchf c fresh d oid = (c', inl r) -> exists sd, r_modified r = [sd].
  Proof.
    unfold coll_insert.
    destruct (ensure_id d oid) as [d'| | | |]; try (intro E; inversion E; fail).
    destruct (add_all matchf (c_indexes c) (fresh, d')) as [ixs [k|]].
    - intro E; inversion E.
    - destruct (set_has (c_docs c) fresh); intro E; inversion E. simpl. eexists; reflexivity.
  Qed.

  Lemma t_insert_modified w h d w' r :
    t_insert w h d = (w', inl r) -> exists sd, t_modified r = [sd].
  Proof.
    unfold Txn.t_insert.
    destruct (coll_insert matchf (w_ns w) (g_did (w_gen w)) d (gen_oid (g_oid (w_gen w)))) as [ns' [cr|e]] eqn:E.
    - intro H. inversion H; subst. simpl.
      eapply coll_insert_modified. exact E.
    - intro H; inversion H.
  Qed.

  (* when nothing was inserted the catalog is the original one *)
  Lemma insert_seq_nil_same h l : forall c g ordered c2 g2 err,
    insert_seq c g h l ordered = (c2, g2, [], err) -> c2 = c.
  Proof.
    induction l as [|d t IH]; intros c g ordered c2 g2 err E; simpl in E.
    - inversion E; reflexivity.
    - unfold insert1 in E.
      destruct (t_insert (open_w c g h) h d) as [w [r|e]] eqn:T.
      + destruct (insert_seq (close_w c h w) (w_gen w) h t ordered) as [[[c3 g3] acc3] err3].
        destruct (t_insert_modified _ _ _ _ _ T) as [sd Hsd]. rewrite Hsd in E. inversion E.
      + destruct ordered.
        * inversion E; reflexivity.
        * destruct (insert_seq c (gen_after_fail g (w_gen w)) h t false) as [[[c3 g3] acc3] err3] eqn:E3.
          inversion E; subst. eapply IH. exact E3.
  Qed.

  (* items that fail contribute nothing: the catalog after insert-many is the
     catalog after inserting, one at a time, the items that succeed *)
  Theorem txn_insert_is_insert_seq c g h l ordered :
    guard_write h = None ->
    let '(c2, g2, acc, err) := insert_seq c g h l ordered in
    txn_insert c g h l ordered = (c2, g2, inl (mkT [] acc None err)).
  Proof.
    intro G. unfold Txn.txn_insert. rewrite G.
    rewrite insert_loop_seq.
    destruct (insert_seq c g h l ordered) as [[[c2 g2] acc] err] eqn:E. simpl.
    destruct acc as [|a acc'].
    - apply insert_seq_nil_same in E. subst. destruct err; reflexivity.
    - destruct err; reflexivity.
  Qed.

  (* a single failing insert leaves the catalog untouched *)
  Corollary txn_insert_one_error_noop c g h d c' g' tr :
    txn_insert c g h [d] true = (c', g', inl tr) -> t_error tr <> None -> c' = c.
  Proof.
    unfold Txn.txn_insert. destruct (guard_write h); [intro H; inversion H|].
    simpl. destruct (t_insert (open_w c g h) h d) as [w [r|e]] eqn:T.
    - destruct (t_insert_modified _ _ _ _ _ T) as [sd Hsd]. rewrite Hsd. simpl.
      intro H; inversion H; subst. simpl. congruence.
    - intro H; inversion H; reflexivity.
  Qed.

  (* ---------------------------------------------------------------- *)
  (* bulk: the same decomposition *)

  Definition bulk1 (c : catalog) (g : gen) (h : handle) (op : bulk_op) (now : Z)
    : catalog * gen * (tresult + ekind) :=
    let w0 := open_w c g h in
    match (match op with
           | BInsert d => t_insert w0 h d
           | BReplace f rp s u => t_replace matchf applyf extractf w0 h f rp s u now
           | BUpdate f up s u sk li afs => t_update matchf applyf extractf w0 h f up s u sk li afs now
           | BDelete f s sk li => t_delete matchf w0 h f s sk li
           end) with
    | (w, inl tr) => (close_w c h w, w_gen w, inl tr)
    | (w, inr e) => (c, gen_after_fail g (w_gen w), inr e)
    end.

  Fixpoint bulk_seq (c : catalog) (g : gen) (h : handle) (ops : list bulk_op) (ordered : bool) (now : Z)
    : catalog * gen * list (tresult + ekind) * Z :=
    match ops with
    | [] => (c, g, [], 0)
    | op :: t =>
        match bulk1 c g h op now with
        | (c1, g1, inl tr) =>
            let '(c2, g2, rs, n) := bulk_seq c1 g1 h t ordered now in
            (c2, g2, inl tr :: rs, bulk_changes op tr + n)
        | (_, g1, inr e) =>
            if ordered then (c, g1, [inr e], 0)
            else let '(c2, g2, rs, n) := bulk_seq c g1 h t ordered now in (c2, g2, inr e :: rs, n)
        end
    end.

  Lemma bulk_loop_seq ops : forall c g h ordered now acc n,
    bulk_loop matchf applyf extractf c g h ops ordered now acc n =
    let '(c2, g2, rs, m) := bulk_seq c g h ops ordered now in (c2, g2, acc ++ rs, n + m).
  Proof.
    induction ops as [|op t IH]; intros c g h ordered now acc n; simpl.
    - rewrite app_nil_r, Z.add_0_r. reflexivity.
    - unfold bulk1.
      destruct (match op with
                | BInsert d => t_insert (open_w c g h) h d
                | BReplace f rp s u => t_replace matchf applyf extractf (open_w c g h) h f rp s u now
                | BUpdate f up s u sk li afs => t_update matchf applyf extractf (open_w c g h) h f up s u sk li afs now
                | BDelete f s sk li => t_delete matchf (open_w c g h) h f s sk li
                end) as [w [tr|e]].
      + rewrite IH.
        destruct (bulk_seq (close_w c h w) (w_gen w) h t ordered now) as [[[c2 g2] rs] m].
        rewrite <- app_assoc. simpl. f_equal. lia.
      + destruct ordered.
        * rewrite Z.add_0_r. reflexivity.
        * rewrite IH.
          destruct (bulk_seq c (gen_after_fail g (w_gen w)) h t false now) as [[[c2 g2] rs] m].
          rewrite <- app_assoc. reflexivity.
  Qed.

  Theorem txn_bulk_is_bulk_seq c g h ops ordered now :
    guard_write h = None ->
    let '(c2, g2, rs, n) := bulk_seq c g h ops ordered now in
    txn_bulk c g h ops ordered now = (if 0 <? n then c2 else c, g2, inl rs).
  Proof.
    intro G. unfold Txn.txn_bulk. rewrite G. rewrite bulk_loop_seq.
    destruct (bulk_seq c g h ops ordered now) as [[[c2 g2] rs] n]. simpl.
    destruct (0 <? n); reflexivity.
  Qed.

  (* a failing bulk item contributes nothing *)
  Lemma bulk1_error_noop c g h op now c' g' e :
    bulk1 c g h op now = (c', g', inr e) -> c' = c.
  Proof.
    unfold bulk1.
    destruct (match op with
              | BInsert d => _ | BReplace f rp s u => _
              | BUpdate f up s u sk li afs => _ | BDelete f s sk li => _ end) as [w [tr|k]];
      intro H; inversion H; reflexivity.
  Qed.

End TxnProofs.

Print Assumptions txn_insert_is_insert_seq.
Print Assumptions txn_bulk_is_bulk_seq.
