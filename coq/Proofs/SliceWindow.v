(* SliceWindow.v — the $slice windows of mongokit/project.go (projectSlice,
   lines 196-236, modelled by slice_limit / slice_skip_limit with Go's int64
   wrap-around and slice-bounds panics) against the window formulas. *)
From Coq Require Import List ZArith Lia String Ascii Bool.
From Lungo.Model Require Import Access Project.
Import ListNotations.
Open Scope Z_scope.

Definition int64 (z : Z) : Prop := - two63 <= z < two63.

Lemma two64_eq : two64 = 2 * two63. Proof. reflexivity. Qed.
Lemma two63_pos : 0 < two63. Proof. reflexivity. Qed.

Lemma wrap64_id z : int64 z -> wrap64 z = z.
Proof.
  unfold int64, wrap64. intro H. rewrite Z.mod_small; [lia|]. rewrite two64_eq. lia.
Qed.

Lemma wrap64_over z : two63 <= z < two64 -> wrap64 z = z - two64.
Proof.
  unfold wrap64. intro H. pose proof two64_eq. pose proof two63_pos.
  replace (z + two63) with ((z - two63) + 1 * two64) by lia.
  rewrite Z.mod_add by lia. rewrite Z.mod_small; lia.
Qed.

Definition lastn {A} (n : nat) (l : list A) : list A := skipn (List.length l - n) l.

Definition window_n (n : Z) (a : list value) : list value :=
  if 0 <=? n then firstn (Z.to_nat n) a else lastn (Z.to_nat (- n)) a.

Definition window_skip_limit (s l : Z) (a : list value) : list value :=
  firstn (Z.to_nat l)
         (skipn (if 0 <=? s then Z.to_nat s else (List.length a - Z.to_nat (- s))%nat) a).

Lemma len_nonneg {A} (a : list A) : 0 <= len a.
Proof. unfold len. lia. Qed.

Lemma go_slice_ok a lo hi w :
  go_slice a lo hi = Ok w ->
  0 <= lo <= hi /\ hi <= len a /\ w = firstn (Z.to_nat (hi - lo)) (skipn (Z.to_nat lo) a).
Proof.
  unfold go_slice. destruct ((0 <=? lo) && (lo <=? hi) && (hi <=? len a)) eqn:E; [|discriminate].
  intro H. inversion H. apply andb_prop in E. destruct E as [E E3]. apply andb_prop in E. destruct E as [E1 E2].
  apply Z.leb_le in E1, E2, E3. repeat split; try lia.
Qed.

Lemma firstn_skipn_all {A} (a : list A) (k : nat) :
  firstn (List.length a - k) (skipn k a) = skipn k a.
Proof. apply firstn_all2. rewrite skipn_length. lia. Qed.

Lemma slice_limit_spec a n w :
  int64 n -> len a < two63 -> slice_limit a n = Ok w -> w = window_n n a.
Proof.
  intros Hn Hl. unfold slice_limit, window_n. pose proof (len_nonneg a) as Hl0. unfold int64 in Hn.
  destruct (0 <? n) eqn:E1.
  - apply Z.ltb_lt in E1. replace (0 <=? n) with true by (symmetry; apply Z.leb_le; lia).
    destruct (n <? len a) eqn:E2.
    + intro H. apply go_slice_ok in H. destruct H as [_ [_ H]]. subst w.
      rewrite Z.sub_0_r. reflexivity.
    + intro H. inversion H. subst w. apply Z.ltb_ge in E2. symmetry. apply firstn_all2.
      unfold len in E2. lia.
  - apply Z.ltb_ge in E1. destruct (n <? 0) eqn:E3.
    + apply Z.ltb_lt in E3. replace (0 <=? n) with false by (symmetry; apply Z.leb_gt; lia).
      assert (Hcase : n = - two63 \/ - two63 < n) by lia. destruct Hcase as [Hc|Hc].
      * (* -n overflows: the Go code panics *)
        subst n. replace (- - two63) with two63 by lia.
        rewrite (wrap64_over two63) by (rewrite two64_eq; pose proof two63_pos; lia).
        replace (two63 - two64 <? len a) with true by (symmetry; apply Z.ltb_lt; rewrite two64_eq; lia).
        replace (len a - (two63 - two64)) with (len a + two63) by (rewrite two64_eq; lia).
        rewrite (wrap64_over (len a + two63)) by (rewrite two64_eq; lia).
        intro H. apply go_slice_ok in H. rewrite two64_eq in H. lia.
      * rewrite (wrap64_id (- n)) by (unfold int64; lia).
        destruct (- n <? len a) eqn:E4.
        -- apply Z.ltb_lt in E4. rewrite (wrap64_id (len a - - n)) by (unfold int64; lia).
           intro H. apply go_slice_ok in H. destruct H as [_ [_ H]]. subst w.
           unfold lastn, len in *.
           replace (Z.to_nat (Z.of_nat (List.length a) - (Z.of_nat (List.length a) - - n))) with (List.length a - (List.length a - Z.to_nat (- n)))%nat by lia.
           replace (Z.to_nat (Z.of_nat (List.length a) - - n)) with (List.length a - Z.to_nat (- n))%nat by lia.
           apply firstn_skipn_all.
        -- apply Z.ltb_ge in E4. intro H. inversion H. subst w. unfold lastn, len in *.
           replace (List.length a - Z.to_nat (- n))%nat with 0%nat by lia. reflexivity.
    + apply Z.ltb_ge in E3. assert (n = 0) by lia. subst n. intro H. inversion H. reflexivity.
Qed.

Lemma slice_skip_limit_spec a s l w :
  int64 s -> int64 l -> 0 <= l -> len a < two63 ->
  slice_skip_limit a s l = Ok w -> w = window_skip_limit s l a.
Proof.
  intros Hs Hl Hl0 Hlen. unfold slice_skip_limit, window_skip_limit.
  pose proof (len_nonneg a) as Ha0. unfold int64 in *.
  set (start := if s <? 0 then (if len a + s <? 0 then 0 else len a + s) else (if len a <? s then len a else s)).
  assert (Hst : 0 <= start <= len a).
  { subst start. destruct (s <? 0) eqn:E; [destruct (len a + s <? 0) eqn:E'|destruct (len a <? s) eqn:E'];
      try apply Z.ltb_lt in E; try apply Z.ltb_ge in E; try apply Z.ltb_lt in E'; try apply Z.ltb_ge in E'; lia. }
  assert (Hsk : skipn (Z.to_nat start) a = skipn (if 0 <=? s then Z.to_nat s else (List.length a - Z.to_nat (- s))%nat) a).
  { subst start. unfold len in *. destruct (s <? 0) eqn:E.
    - apply Z.ltb_lt in E. replace (0 <=? s) with false by (symmetry; apply Z.leb_gt; lia).
      destruct (Z.of_nat (List.length a) + s <? 0) eqn:E'; [apply Z.ltb_lt in E'|apply Z.ltb_ge in E'].
      + replace (List.length a - Z.to_nat (- s))%nat with 0%nat by lia. reflexivity.
      + f_equal. lia.
    - apply Z.ltb_ge in E. replace (0 <=? s) with true by (symmetry; apply Z.leb_le; lia).
      destruct (Z.of_nat (List.length a) <? s) eqn:E'; [apply Z.ltb_lt in E'|reflexivity].
      rewrite !skipn_all2 by lia. reflexivity. }
  assert (Hcase : start + l < two63 \/ two63 <= start + l) by lia. destruct Hcase as [Hc|Hc].
  - rewrite (wrap64_id (start + l)) by (unfold int64; lia).
    destruct (len a <? start + l) eqn:E; [apply Z.ltb_lt in E|apply Z.ltb_ge in E];
      intro H; apply go_slice_ok in H; destruct H as [_ [_ H]]; subst w; rewrite Hsk.
    + rewrite <- Hsk. rewrite firstn_all2; [symmetry; apply firstn_all2|]; rewrite skipn_length; unfold len in *; lia.
    + f_equal. lia.
  - (* start + limit overflows: the Go code panics *)
    rewrite (wrap64_over (start + l)) by (rewrite two64_eq; lia).
    replace (len a <? start + l - two64) with false by (symmetry; apply Z.ltb_ge; rewrite two64_eq; lia).
    intro H. apply go_slice_ok in H. rewrite two64_eq in H. lia.
Qed.

(* ---------------------------------------------------------------- *)
(* Totality: with arguments in the int32 range (what projectSliceInt returns
   since /repo a10b5fe) the window computations never panic. *)

Definition int32r (z : Z) : Prop := - two31 <= z < two31.

Lemma two31_lt_two63 : two31 < two63. Proof. reflexivity. Qed.

Lemma go_slice_total a lo hi : 0 <= lo <= hi -> hi <= len a -> exists w, go_slice a lo hi = Ok w.
Proof.
  intros H1 H2. unfold go_slice.
  replace (0 <=? lo) with true by (symmetry; apply Z.leb_le; lia).
  replace (lo <=? hi) with true by (symmetry; apply Z.leb_le; lia).
  replace (hi <=? len a) with true by (symmetry; apply Z.leb_le; lia).
  cbn [andb]. eauto.
Qed.

Lemma slice_limit_total a n : int32r n -> len a < two63 -> exists w, slice_limit a n = Ok w.
Proof.
  intros Hn Hl. unfold slice_limit, int32r in *. pose proof (len_nonneg a) as Hl0.
  pose proof two31_lt_two63 as H31.
  destruct (0 <? n) eqn:E1.
  - apply Z.ltb_lt in E1. destruct (n <? len a) eqn:E2; [|eauto].
    apply Z.ltb_lt in E2. apply go_slice_total; lia.
  - destruct (n <? 0) eqn:E3; [|eauto]. apply Z.ltb_lt in E3.
    rewrite (wrap64_id (- n)) by (unfold int64; lia).
    destruct (- n <? len a) eqn:E4; [|eauto]. apply Z.ltb_lt in E4.
    rewrite (wrap64_id (len a - - n)) by (unfold int64; lia).
    apply go_slice_total; lia.
Qed.

Lemma slice_skip_limit_total a s l :
  int32r s -> int32r l -> 0 <= l -> len a < two63 - two31 -> exists w, slice_skip_limit a s l = Ok w.
Proof.
  intros Hs Hl Hl0 Hlen. unfold slice_skip_limit, int32r in *. pose proof (len_nonneg a) as Ha0.
  pose proof two31_lt_two63 as H31.
  set (start := if s <? 0 then (if len a + s <? 0 then 0 else len a + s) else (if len a <? s then len a else s)).
  assert (Hst : 0 <= start <= len a).
  { subst start. destruct (s <? 0) eqn:E; [destruct (len a + s <? 0) eqn:E'|destruct (len a <? s) eqn:E'];
      try apply Z.ltb_lt in E; try apply Z.ltb_ge in E; try apply Z.ltb_lt in E'; try apply Z.ltb_ge in E'; lia. }
  rewrite (wrap64_id (start + l)) by (unfold int64; lia).
  destruct (len a <? start + l) eqn:E; [apply Z.ltb_lt in E|apply Z.ltb_ge in E];
    apply go_slice_total; lia.
Qed.
