(* GridfsProofs.v — proofs about the GridFS model (Model/Gridfs.v) for C18.

   For ALL contents, all write partitions, all suspend/resume points, all
   download scripts, and every chunk size with which an upload stream can be
   opened (open_upload succeeds exactly for 0 < cs <= B, B = upload buffer):
   - open_ok / open_rejects_bad_chunk_size / upload_total;
   - upload_concat / upload_canonical: a completed upload stores the canonical
     chunking of the concatenated writes (numbers 0..n-1, all but the last
     chunk full, last non-empty) and a file record with the exact length;
   - suspend_resume: suspending and resuming at any points ends in the same
     stored state as the uninterrupted upload;
   - download_equiv: any Read/Seek/Skip script (any whence, any count) on the
     download stream of a well-formed file behaves like `bytes_reader`;
     seek_rejects_unknown_whence;
   - abort_leaves_nothing, delete_leaves_nothing, delete_cleanup_leaves_nothing.
   The `unguarded_*` theorems at the end record what the validation in
   open_upload (lungo fix ae31d98) protects from: chunk size <= 0 panics in
   upload, chunk size > buffer makes Write spin forever. *)
From Coq Require Import List ZArith Lia ZifyBool ZifyNat Bool.
From Lungo.Model Require Import Gridfs.
Import ListNotations.
Open Scope Z_scope.
Open Scope list_scope.

Notation llen := (@Datatypes.length _).

(* ------------------------------------------------------------------ *)
(* lists *)

Lemma zlen_nil {A} : zlen (@nil A) = 0.
Proof. reflexivity. Qed.

Lemma zlen_cons {A} (x : A) l : zlen (x :: l) = 1 + zlen l.
Proof. unfold zlen. simpl llen. lia. Qed.

Lemma zlen_app {A} (a b : list A) : zlen (a ++ b) = zlen a + zlen b.
Proof. unfold zlen. rewrite app_length. lia. Qed.

Lemma zlen_nonneg {A} (l : list A) : 0 <= zlen l.
Proof. unfold zlen. lia. Qed.

Lemma zlen_zero {A} (l : list A) : zlen l = 0 -> l = [].
Proof. destruct l; [reflexivity|]. rewrite zlen_cons. pose proof (zlen_nonneg l). lia. Qed.

Lemma zlen_firstn {A} n (l : list A) : zlen (firstn n l) = Z.min (Z.of_nat n) (zlen l).
Proof. unfold zlen. rewrite firstn_length. lia. Qed.

Lemma zlen_skipn {A} n (l : list A) : zlen (skipn n l) = zlen l - Z.min (Z.of_nat n) (zlen l).
Proof. unfold zlen. rewrite skipn_length. lia. Qed.

Lemma skipn_all_z {A} n (l : list A) : zlen l <= Z.of_nat n -> skipn n l = [].
Proof. intro H. apply skipn_all2. unfold zlen in H. lia. Qed.

Lemma firstn_all_z {A} n (l : list A) : zlen l <= Z.of_nat n -> firstn n l = l.
Proof. intro H. apply firstn_all2. unfold zlen in H. lia. Qed.

(* ------------------------------------------------------------------ *)
(* well-formed chunk payload lists: all but the last full, the last non-empty *)

Definition full (cs : Z) (d : list Z) : Prop := zlen d = cs.

Fixpoint chunks_wf (cs : Z) (ds : list (list Z)) : Prop :=
  match ds with
  | [] => True
  | d :: t =>
      match t with
      | [] => 0 < zlen d <= cs
      | _ => zlen d = cs /\ chunks_wf cs t
      end
  end.

Lemma chunks_wf_cons cs d t :
  chunks_wf cs (d :: t) <-> (t = [] /\ 0 < zlen d <= cs) \/ (t <> [] /\ zlen d = cs /\ chunks_wf cs t).
Proof.
  destruct t as [|e t]; simpl; split.
  - intro H. left. auto.
  - intros [[_ H]|[H _]]; [exact H | congruence].
  - intro H. right. split; [discriminate | exact H].
  - intros [[H _]|[_ H]]; [discriminate | exact H].
Qed.

Lemma chunks_wf_full_app cs a b :
  0 < cs -> Forall (full cs) a -> chunks_wf cs b -> chunks_wf cs (a ++ b).
Proof.
  intros Hcs Ha Hb. induction Ha as [|d a Hd Ha IH]; [exact Hb|].
  simpl app. apply chunks_wf_cons. destruct (a ++ b) as [|e r] eqn:E.
  - left. split; [reflexivity|]. unfold full in Hd. lia.
  - right. split; [discriminate|]. split; [exact Hd | exact IH].
Qed.

Lemma chunks_wf_all_full cs a : 0 < cs -> Forall (full cs) a -> chunks_wf cs a.
Proof.
  intros Hcs Ha. rewrite <- (app_nil_r a). apply chunks_wf_full_app; simpl; auto.
Qed.

Lemma chunks_wf_tail cs d t : chunks_wf cs (d :: t) -> chunks_wf cs t.
Proof.
  intro H. apply chunks_wf_cons in H. destruct H as [[-> _]|[_ [_ H]]]; [exact I | exact H].
Qed.

Lemma chunks_wf_nonempty cs ds :
  0 < cs -> chunks_wf cs ds -> Forall (fun d => 0 < zlen d <= cs) ds.
Proof.
  intros Hcs. induction ds as [|d t IH]; intro H; constructor.
  - apply chunks_wf_cons in H. destruct H as [[_ H]|[_ [H _]]]; lia.
  - apply IH. eapply chunks_wf_tail. exact H.
Qed.

Lemma chunks_wf_cons_full cs d t :
  0 < cs -> zlen d = cs -> chunks_wf cs t -> chunks_wf cs (d :: t).
Proof.
  intros Hcs Hd Ht. apply chunks_wf_cons. destruct t as [|e t].
  - left. split; [reflexivity | lia].
  - right. split; [discriminate | auto].
Qed.

(* ------------------------------------------------------------------ *)
(* the canonical chunking `split` *)

Lemma split_fuel_nil fuel c : split_fuel fuel c [] = [].
Proof. destruct fuel; reflexivity. Qed.

Lemma split_fuel_cons fuel c x l :
  split_fuel (S fuel) c (x :: l) = firstn c (x :: l) :: split_fuel fuel c (skipn c (x :: l)).
Proof. reflexivity. Qed.

Lemma split_fuel_wf cs (c : nat) :
  (0 < c)%nat -> cs = Z.of_nat c ->
  forall fuel l, (llen l <= fuel)%nat ->
  concat (split_fuel fuel c l) = l /\ chunks_wf cs (split_fuel fuel c l).
Proof.
  intros Hc Hcs. induction fuel as [|fuel IH]; intros l Hl.
  - destruct l; [split; [reflexivity | exact I] | simpl in Hl; lia].
  - destruct l as [|x l']; [split; [reflexivity | exact I]|].
    rewrite split_fuel_cons. remember (x :: l') as l eqn:El.
    assert (Hsk : (llen (skipn c l) <= fuel)%nat).
    { rewrite skipn_length. subst l. simpl llen in *. lia. }
    destruct (IH _ Hsk) as [Hcat Hwf]. split.
    + cbn [concat]. rewrite Hcat. apply firstn_skipn.
    + destruct (Nat.le_gt_cases (llen l) c) as [Hle|Hgt].
      * rewrite (skipn_all2 l Hle), split_fuel_nil. simpl.
        rewrite zlen_firstn. unfold zlen. subst l. simpl llen in *. lia.
      * apply chunks_wf_cons_full; [lia| |exact Hwf].
        rewrite zlen_firstn. unfold zlen. lia.
Qed.

Lemma split_wf cs l : 0 < cs -> concat (split cs l) = l /\ chunks_wf cs (split cs l).
Proof.
  intro Hcs. unfold split. apply (split_fuel_wf cs (Z.to_nat cs)); lia.
Qed.

Lemma split_fuel_enough (c : nat) :
  (0 < c)%nat -> forall f1 f2 l, (llen l <= f1)%nat -> (llen l <= f2)%nat ->
  split_fuel f1 c l = split_fuel f2 c l.
Proof.
  intros Hc. induction f1 as [|f1 IH]; intros f2 l H1 H2.
  - destruct l; [|simpl in H1; lia]. rewrite !split_fuel_nil. reflexivity.
  - destruct l as [|x l']; [rewrite !split_fuel_nil; reflexivity|].
    destruct f2 as [|f2]; [simpl in H2; lia|].
    rewrite !split_fuel_cons. f_equal.
    apply IH; rewrite skipn_length; simpl llen in *; lia.
Qed.

Lemma split_nil cs : split cs [] = [].
Proof. reflexivity. Qed.

Lemma split_step cs l :
  0 < cs -> l <> [] ->
  split cs l = firstn (Z.to_nat cs) l :: split cs (skipn (Z.to_nat cs) l).
Proof.
  intros Hcs Hl. unfold split. destruct l as [|x l']; [congruence|].
  change (llen (x :: l')) with (S (llen l')). rewrite split_fuel_cons. f_equal.
  apply split_fuel_enough; [lia| |lia].
  rewrite skipn_length. simpl llen. lia.
Qed.

(* a well-formed chunk list is the canonical chunking of its concatenation *)
Lemma split_concat_wf cs ds : 0 < cs -> chunks_wf cs ds -> split cs (concat ds) = ds.
Proof.
  intros Hcs. induction ds as [|d t IH]; intro H; [reflexivity|].
  pose proof (chunks_wf_nonempty cs _ Hcs H) as Hne. inversion Hne as [|? ? Hd Hne']; subst.
  cbn [concat].
  assert (Hnil : d ++ concat t <> []).
  { intro E. apply (f_equal zlen) in E. rewrite zlen_app, zlen_nil in E.
    pose proof (zlen_nonneg (concat t)). lia. }
  rewrite (split_step cs _ Hcs Hnil).
  apply chunks_wf_cons in H. destruct H as [[-> Hd']|[Hne2 [Hfull Ht]]].
  - simpl concat. rewrite app_nil_r.
    rewrite firstn_all_z by lia. rewrite skipn_all_z by lia. reflexivity.
  - assert (Hc : Z.to_nat cs = llen d) by (unfold zlen in Hfull; lia).
    rewrite Hc. rewrite firstn_app, Nat.sub_diag, firstn_all. simpl firstn. rewrite app_nil_r.
    rewrite skipn_app, Nat.sub_diag, skipn_all. simpl.
    rewrite (IH Ht). reflexivity.
Qed.

(* ------------------------------------------------------------------ *)
(* the chunking loop of upload *)

Lemma chunk_loop_final cs :
  0 < cs -> forall fuel rest, (llen rest < fuel)%nat ->
  exists ds, chunk_loop fuel true cs rest = Some (ds, []) /\ concat ds = rest /\ chunks_wf cs ds.
Proof.
  intros Hcs. induction fuel as [|fuel IH]; intros rest Hf; [lia|].
  cbn [chunk_loop]. destruct (0 <? zlen rest) eqn:E0.
  2:{ exists []. assert (rest = []) by (apply zlen_zero; pose proof (zlen_nonneg rest); lia).
      subst. repeat split; auto. }
  rewrite andb_false_r.
  set (size := if zlen rest >? cs then cs else zlen rest).
  assert (Hsize : 0 < size <= cs /\ size <= zlen rest /\ (size < cs -> size = zlen rest)).
  { subst size. destruct (zlen rest >? cs) eqn:E; lia. }
  assert (Hsk : (llen (skipn (Z.to_nat size) rest) < fuel)%nat).
  { rewrite skipn_length. unfold zlen in *. lia. }
  destruct (IH _ Hsk) as [ds [Hl [Hcat Hwf]]]. rewrite Hl.
  exists (firstn (Z.to_nat size) rest :: ds). split; [reflexivity|]. split.
  - cbn [concat]. rewrite Hcat. apply firstn_skipn.
  - assert (Hfl : zlen (firstn (Z.to_nat size) rest) = size) by (rewrite zlen_firstn; lia).
    apply chunks_wf_cons. destruct ds as [|e ds'].
    + left. split; [reflexivity | lia].
    + right. split; [discriminate|]. split; [|exact Hwf].
      destruct (Z.eq_dec size cs) as [|Hne]; [lia|].
      assert (Hall : size = zlen rest) by lia.
      rewrite skipn_all_z in Hcat by lia. simpl in Hcat.
      apply (f_equal zlen) in Hcat. rewrite zlen_app, zlen_nil in Hcat.
      pose proof (chunks_wf_nonempty cs _ Hcs Hwf) as Hne'. inversion Hne'; subst.
      pose proof (zlen_nonneg (concat ds')). lia.
Qed.

Lemma chunk_loop_partial cs :
  0 < cs -> forall fuel rest, (llen rest < fuel)%nat ->
  exists ds r, chunk_loop fuel false cs rest = Some (ds, r) /\ concat ds ++ r = rest /\
               Forall (full cs) ds /\ zlen r < cs.
Proof.
  intros Hcs. induction fuel as [|fuel IH]; intros rest Hf; [lia|].
  cbn [chunk_loop]. destruct (0 <? zlen rest) eqn:E0.
  2:{ exists [], rest. repeat split; auto. lia. }
  rewrite andb_true_r.
  destruct (zlen rest >? cs) eqn:E1.
  - assert (E2 : (cs <? cs) = false) by lia. rewrite E2.
    assert (Hsk : (llen (skipn (Z.to_nat cs) rest) < fuel)%nat).
    { rewrite skipn_length. unfold zlen in *. lia. }
    destruct (IH _ Hsk) as [ds [r [Hl [Hcat [Hfull Hr]]]]]. rewrite Hl.
    exists (firstn (Z.to_nat cs) rest :: ds), r. split; [reflexivity|]. split; [|split; [|exact Hr]].
    + cbn [concat]. rewrite <- app_assoc, Hcat. apply firstn_skipn.
    + constructor; [|exact Hfull]. unfold full. rewrite zlen_firstn. lia.
  - destruct (zlen rest <? cs) eqn:E2.
    + exists [], rest. repeat split; auto. lia.
    + assert (Heq : zlen rest = cs) by lia.
      assert (Hsk : (llen (skipn (Z.to_nat (zlen rest)) rest) < fuel)%nat).
      { rewrite skipn_length. unfold zlen in *. lia. }
      destruct (IH _ Hsk) as [ds [r [Hl [Hcat [Hfull Hr]]]]]. rewrite Hl.
      exists (firstn (Z.to_nat (zlen rest)) rest :: ds), r. split; [reflexivity|]. split; [|split; [|exact Hr]].
      * cbn [concat]. rewrite <- app_assoc, Hcat. apply firstn_skipn.
      * constructor; [|exact Hfull]. unfold full. rewrite zlen_firstn. lia.
Qed.

(* ------------------------------------------------------------------ *)
(* numbering, filtering, sorting *)

Lemma number_from_app f k a b :
  number_from f k (a ++ b) = number_from f k a ++ number_from f (k + zlen a) b.
Proof.
  revert k. induction a as [|d a IH]; intro k; simpl.
  - f_equal. rewrite zlen_nil. lia.
  - f_equal. rewrite IH. f_equal. f_equal. rewrite zlen_cons. lia.
Qed.

Lemma number_from_data f k ds : map c_data (number_from f k ds) = ds.
Proof. revert k. induction ds; intro k; simpl; [reflexivity | f_equal; auto]. Qed.

Lemma number_from_zlen f k ds : zlen (number_from f k ds) = zlen ds.
Proof.
  revert k. induction ds; intro k; simpl; [reflexivity|]. rewrite !zlen_cons, IHds. reflexivity.
Qed.

Lemma number_from_in f k ds c :
  In c (number_from f k ds) -> c_file c = f /\ k <= c_n c < k + zlen ds.
Proof.
  revert k. induction ds as [|d ds IH]; intros k H; simpl in H; [contradiction|].
  rewrite zlen_cons. destruct H as [<-|H].
  - cbn [c_file c_n]. pose proof (zlen_nonneg ds). lia.
  - apply IH in H. lia.
Qed.

Lemma number_from_skipn f k n ds :
  skipn n (number_from f k ds) = number_from f (k + Z.of_nat n) (skipn n ds).
Proof.
  revert k ds. induction n as [|n IH]; intros k ds.
  - simpl. f_equal. lia.
  - destruct ds as [|d ds]; [reflexivity|]. simpl skipn. rewrite IH. f_equal. lia.
Qed.

Lemma filter_is_file_number f k ds : filter (is_file f) (number_from f k ds) = number_from f k ds.
Proof.
  revert k. induction ds; intro k; simpl; [reflexivity|].
  unfold is_file at 1. simpl. rewrite Z.eqb_refl. f_equal. auto.
Qed.

Lemma filter_not_file_number f k ds : filter (not_file f) (number_from f k ds) = [].
Proof.
  revert k. induction ds; intro k; simpl; [reflexivity|].
  unfold not_file at 1. simpl. rewrite Z.eqb_refl. simpl. auto.
Qed.

Fixpoint sorted_n (l : list chunk) : Prop :=
  match l with
  | [] => True
  | x :: t => match t with [] => True | y :: _ => c_n x <= c_n y end /\ sorted_n t
  end.

Lemma sort_sorted l : sorted_n l -> sort_by_n l = l.
Proof.
  induction l as [|x t IH]; intro H; [reflexivity|].
  destruct H as [Hx Ht]. cbn [sort_by_n]. rewrite (IH Ht).
  destruct t as [|y t]; [reflexivity|]. cbn [insert_by_n].
  assert (E : (c_n x <=? c_n y) = true) by lia. rewrite E. reflexivity.
Qed.

Lemma number_from_sorted f k ds : sorted_n (number_from f k ds).
Proof.
  revert k. induction ds as [|d ds IH]; intro k; [exact I|].
  simpl. split; [|apply IH]. destruct ds; simpl; [exact I | lia].
Qed.

Lemma find_chunks_number st f ds :
  filter (is_file f) (s_chunks st) = number_from f 0 ds -> find_chunks st f = number_from f 0 ds.
Proof.
  intro H. unfold find_chunks. rewrite H. apply sort_sorted, number_from_sorted.
Qed.

Lemma has_chunk_false cur f n :
  (forall c, In c cur -> c_file c = f -> c_n c <> n) -> has_chunk cur f n = false.
Proof.
  intro H. unfold has_chunk. induction cur as [|c cur IH]; [reflexivity|].
  simpl. rewrite IH by (intros; apply H; simpl; auto).
  destruct (c_file c =? f) eqn:E1; [|reflexivity].
  assert (c_n c <> n) by (apply H; simpl; auto; lia). simpl.
  assert (E2 : (c_n c =? n) = false) by lia. rewrite E2. reflexivity.
Qed.

(* InsertMany of consecutively numbered chunks above everything stored *)
Lemma insert_chunks_fresh f ds : forall cur k,
  (forall c, In c cur -> c_file c = f -> c_n c < k) ->
  insert_chunks cur (number_from f k ds) = (cur ++ number_from f k ds, false).
Proof.
  induction ds as [|d ds IH]; intros cur k H; simpl.
  - rewrite app_nil_r. reflexivity.
  - rewrite has_chunk_false.
    2:{ intros c Hc Hf. apply H in Hc; auto. lia. }
    rewrite IH.
    + rewrite <- app_assoc. reflexivity.
    + intros c Hc Hf. apply in_app_or in Hc. destruct Hc as [Hc|[<-|[]]].
      * apply H in Hc; auto. lia.
      * simpl. lia.
Qed.

(* ------------------------------------------------------------------ *)
(* first-match operations on collections *)

Lemma find_none {A} (p : A -> bool) l : (forall x, In x l -> p x = false) -> find p l = None.
Proof.
  induction l as [|x l IH]; intro H; [reflexivity|]. simpl.
  rewrite (H x) by (simpl; auto). apply IH. intros. apply H. simpl. auto.
Qed.

Lemma find_middle {A} (p : A -> bool) l1 m l2 :
  (forall x, In x l1 -> p x = false) -> p m = true -> find p (l1 ++ m :: l2) = Some m.
Proof.
  intros H Hm. induction l1 as [|x l1 IH]; simpl.
  - rewrite Hm. reflexivity.
  - rewrite (H x) by (simpl; auto). apply IH. intros. apply H. simpl. auto.
Qed.

Lemma remove_first_middle {A} (p : A -> bool) l1 m l2 :
  (forall x, In x l1 -> p x = false) -> p m = true -> remove_first p (l1 ++ m :: l2) = l1 ++ l2.
Proof.
  intros H Hm. induction l1 as [|x l1 IH]; simpl.
  - rewrite Hm. reflexivity.
  - rewrite (H x) by (simpl; auto). f_equal. apply IH. intros. apply H. simpl. auto.
Qed.

Lemma replace_first_middle {A} (p : A -> bool) y l1 m l2 :
  (forall x, In x l1 -> p x = false) -> p m = true -> replace_first p y (l1 ++ m :: l2) = l1 ++ y :: l2.
Proof.
  intros H Hm. induction l1 as [|x l1 IH]; simpl.
  - rewrite Hm. reflexivity.
  - rewrite (H x) by (simpl; auto). f_equal. apply IH. intros. apply H. simpl. auto.
Qed.

Lemma remove_first_none {A} (p : A -> bool) l : (forall x, In x l -> p x = false) -> remove_first p l = l.
Proof.
  induction l as [|x l IH]; intro H; [reflexivity|]. simpl.
  rewrite (H x) by (simpl; auto). f_equal. apply IH. intros. apply H. simpl. auto.
Qed.

Lemma existsb_middle {A} (p : A -> bool) l1 m l2 : p m = true -> existsb p (l1 ++ m :: l2) = true.
Proof. intro H. rewrite existsb_app. simpl. rewrite H. apply orb_true_r. Qed.

(* ------------------------------------------------------------------ *)
(* the upload invariant *)

Definition ids_fresh (st : store) : Prop := forall m, In m (s_markers st) -> m_id m < s_next st.

Definition no_file (st : store) (f : Z) : Prop := forall r, In r (s_files st) -> f_id r <> f.
Definition no_marker (st : store) (f : Z) : Prop := forall m, In m (s_markers st) -> m_file m <> f.
Definition no_chunks (st : store) (f : Z) : Prop := filter (is_file f) (s_chunks st) = [].

(* file id f is unused in the store *)
Definition fresh (st : store) (f : Z) : Prop := no_chunks st f /\ no_file st f /\ no_marker st f.

Definition marker_inv (c : cfg) (f cs : Z) (datas : list (list Z)) (st : store) (u : ustream) : Prop :=
  if cfg_tracked c then
    match u_marker u with
    | None => datas = [] /\ no_marker st f
    | Some id =>
        exists l1 l2, s_markers st = l1 ++ mkMarker id f MUploading 0 cs :: l2 /\
                      (forall m, In m (l1 ++ l2) -> m_id m <> id /\ m_file m <> f)
    end
  else u_marker u = None.

Record UCore (c : cfg) (f cs : Z) (datas : list (list Z)) (st : store) (u : ustream) : Prop := {
  uc_file : u_file u = f;
  uc_cs : u_cs u = cs;
  uc_open : u_closed u = false;
  uc_chunks : filter (is_file f) (s_chunks st) = number_from f 0 datas;
  uc_count : u_chunks u = zlen datas;
  uc_length : u_length u = zlen (concat datas);
  uc_nofile : no_file st f;
  uc_marker : marker_inv c f cs datas st u;
  uc_fresh : ids_fresh st
}.

Lemma find_file_none st f : no_file st f -> find_file st f = None.
Proof.
  intro H. unfold find_file. apply find_none. intros r Hr. apply H in Hr. lia.
Qed.

Lemma find_marker_none st f : no_marker st f -> find_marker st f = None.
Proof.
  intro H. unfold find_marker. apply find_none. intros m Hm. apply H in Hm. lia.
Qed.

Lemma find_marker_middle st f l1 m l2 :
  s_markers st = l1 ++ m :: l2 -> (forall x, In x l1 -> m_file x <> f) -> m_file m = f ->
  find_marker st f = Some m.
Proof.
  intros E H Hm. unfold find_marker. rewrite E. apply find_middle.
  - intros x Hx. apply H in Hx. lia.
  - lia.
Qed.

Lemma chunks_below st f datas :
  filter (is_file f) (s_chunks st) = number_from f 0 datas ->
  forall c, In c (s_chunks st) -> c_file c = f -> c_n c < zlen datas.
Proof.
  intros H c Hc Hf.
  assert (Hin : In c (filter (is_file f) (s_chunks st))).
  { apply filter_In. split; [exact Hc|]. unfold is_file. lia. }
  rewrite H in Hin. apply number_from_in in Hin. lia.
Qed.

Lemma zlen_concat_app (a b : list (list Z)) : zlen (concat (a ++ b)) = zlen (concat a) + zlen (concat b).
Proof. rewrite concat_app, zlen_app. reflexivity. Qed.

(* one call of upload, given what the chunking loop produced *)
Lemma upload_spec c f cs final datas st u ds r :
  0 < cs -> UCore c f cs datas st u ->
  chunk_loop (S (llen (u_buf u))) final cs (u_buf u) = Some (ds, r) ->
  concat ds ++ r = u_buf u ->
  exists st' u',
    upload c final st u = (st', u', UOk) /\
    UCore c f cs (datas ++ ds) st' u' /\
    u_buf u' = r /\
    (cfg_tracked c = true -> u_marker u' <> None) /\
    s_files st' = s_files st /\
    filter (not_file f) (s_chunks st') = filter (not_file f) (s_chunks st).
Proof.
  intros Hcs [Hf Hc Ho Hch Hcnt Hlen Hnf Hm Hfr] Hloop Hcat.
  unfold upload. rewrite Hc, Hf, Hcnt.
  assert (E1 : (cs =? 0) = false) by lia. assert (E2 : (cs <? 0) = false) by lia.
  rewrite E1, E2. cbn [andb]. rewrite Hloop.
  (* the chunk insertion, common to all marker cases *)
  assert (Hins : forall st1, s_chunks st1 = s_chunks st ->
            (match ds with
             | [] => (s_chunks st1, false)
             | _ => insert_chunks (s_chunks st1) (number_from f (zlen datas) ds)
             end) = (s_chunks st ++ number_from f (zlen datas) ds, false)).
  { intros st1 E. rewrite E. destruct ds as [|d ds'].
    - simpl. rewrite app_nil_r. reflexivity.
    - apply insert_chunks_fresh. apply chunks_below. exact Hch. }
  assert (Hfilt : filter (is_file f) (s_chunks st ++ number_from f (zlen datas) ds) = number_from f 0 (datas ++ ds)).
  { rewrite filter_app, Hch, filter_is_file_number, number_from_app. reflexivity. }
  assert (Hfilt2 : filter (not_file f) (s_chunks st ++ number_from f (zlen datas) ds) = filter (not_file f) (s_chunks st)).
  { rewrite filter_app, filter_not_file_number, app_nil_r. reflexivity. }
  assert (Hchunked : zlen (u_buf u) - zlen r = zlen (concat ds)).
  { rewrite <- Hcat, zlen_app. lia. }
  unfold marker_inv in Hm.
  destruct (cfg_tracked c) eqn:Etr.
  - destruct (u_marker u) as [id|] eqn:Emk.
    + (* marker exists already *)
      cbn [is_none andb]. rewrite (Hins st eq_refl).
      eexists _, _. split; [reflexivity|]. split; [|split; [reflexivity|split; [|split; [reflexivity|exact Hfilt2]]]].
      * constructor; cbn; auto.
        -- rewrite zlen_app. reflexivity.
        -- rewrite Hlen, Hchunked, zlen_concat_app. reflexivity.
        -- unfold marker_inv. rewrite Etr. cbn. rewrite Emk. exact Hm.
      * intros _. cbn. rewrite Emk. discriminate.
    + (* the marker is inserted now *)
      destruct Hm as [Hd Hnm]. cbn [is_none andb].
      rewrite (find_marker_none _ _ Hnm).
      cbn [s_chunks bump set_markers]. rewrite (Hins st eq_refl).
      eexists _, _. split; [reflexivity|]. split; [|split; [reflexivity|split; [|split; [reflexivity|exact Hfilt2]]]].
      * constructor; cbn; auto.
        -- rewrite zlen_app. reflexivity.
        -- rewrite Hlen, Hchunked, zlen_concat_app. reflexivity.
        -- unfold marker_inv. rewrite Etr. cbn. exists (s_markers st), []. split; [reflexivity|].
           intros m Hin. rewrite app_nil_r in Hin. split; [|apply Hnm; exact Hin].
           apply Hfr in Hin. lia.
        -- unfold ids_fresh. cbn. intros m Hin. apply in_app_or in Hin. destruct Hin as [Hin|[<-|[]]].
           ++ apply Hfr in Hin. lia.
           ++ cbn. lia.
      * intros _. cbn. discriminate.
  - (* untracked *)
    rewrite andb_false_r. rewrite (Hins st eq_refl).
    eexists _, _. split; [reflexivity|]. split; [|split; [reflexivity|split; [|split; [reflexivity|exact Hfilt2]]]].
    * constructor; cbn; auto.
      -- rewrite zlen_app. reflexivity.
      -- rewrite Hlen, Hchunked, zlen_concat_app. reflexivity.
      -- unfold marker_inv. rewrite Etr. exact Hm.
    * intro; discriminate.
Qed.

Definition UInv (c : cfg) (f cs : Z) (content : list Z) (st : store) (u : ustream) : Prop :=
  exists datas, UCore c f cs datas st u /\ Forall (full cs) datas /\
                concat datas ++ u_buf u = content /\ zlen (u_buf u) < cfg_B c.

(* what an operation on file f leaves alone: the file records and the chunks of other files *)
Definition Frame (f : Z) (st st' : store) : Prop :=
  s_files st' = s_files st /\
  filter (not_file f) (s_chunks st') = filter (not_file f) (s_chunks st).

Lemma Frame_refl f st : Frame f st st.
Proof. split; reflexivity. Qed.

Lemma Frame_trans f a b c : Frame f a b -> Frame f b c -> Frame f a c.
Proof. intros [H1 H2] [H3 H4]. split; congruence. Qed.

Lemma UCore_set_buf c f cs datas st u b : UCore c f cs datas st u -> UCore c f cs datas st (u_set_buf u b).
Proof. intros [? ? ? ? ? ? ? ? ?]. constructor; auto. Qed.

Lemma upload_false_inv c f cs datas st u :
  0 < cs -> UCore c f cs datas st u -> Forall (full cs) datas ->
  exists st' u' ds,
    upload c false st u = (st', u', UOk) /\
    UCore c f cs (datas ++ ds) st' u' /\ Forall (full cs) (datas ++ ds) /\
    concat ds ++ u_buf u' = u_buf u /\ zlen (u_buf u') < cs /\
    (cfg_tracked c = true -> u_marker u' <> None) /\ Frame f st st'.
Proof.
  intros Hcs Hcore Hfull.
  destruct (chunk_loop_partial cs Hcs (S (llen (u_buf u))) (u_buf u) ltac:(lia))
    as [ds [r [Hloop [Hcat [Hfd Hr]]]]].
  destruct (upload_spec c f cs false datas st u ds r Hcs Hcore Hloop Hcat)
    as [st' [u' [Hup [Hcore' [Hbuf [Hmk [Hfiles Hother]]]]]]].
  exists st', u', ds. rewrite Hbuf.
  split; [exact Hup|]. split; [exact Hcore'|]. split; [apply Forall_app; split; assumption|].
  split; [exact Hcat|]. split; [exact Hr|]. split; [exact Hmk|]. split; assumption.
Qed.

Lemma write_loop_step fuel c st u data written :
  data <> [] ->
  write_loop (S fuel) c st u data written =
    let n := Z.min (cfg_B c - zlen (u_buf u)) (zlen data) in
    let u1 := u_set_buf u (u_buf u ++ firstn (Z.to_nat n) data) in
    let data1 := skipn (Z.to_nat n) data in
    if zlen (u_buf u1) =? cfg_B c then
      match upload c false st u1 with
      | (st2, u2, UOk) => write_loop fuel c st2 u2 data1 (written + n)
      | (st2, u2, UErr e) => (st2, u2, NErr e)
      | (st2, u2, UPanic) => (st2, u2, NPanic)
      | (st2, u2, UHang) => (st2, u2, NHang)
      end
    else write_loop fuel c st u1 data1 (written + n).
Proof. intro H. destruct data; [congruence | reflexivity]. Qed.

Lemma write_loop_inv c f cs :
  0 < cs <= cfg_B c ->
  forall fuel data written content st u,
  (llen data <= fuel)%nat -> UInv c f cs content st u ->
  exists st' u',
    write_loop fuel c st u data written = (st', u', NOk (written + zlen data)) /\
    UInv c f cs (content ++ data) st' u' /\ Frame f st st'.
Proof.
  intros Hcs. induction fuel as [|fuel IH]; intros data written content st u Hfuel Hinv.
  - destruct data; [|simpl in Hfuel; lia]. exists st, u. simpl.
    rewrite zlen_nil, Z.add_0_r, app_nil_r. split; [reflexivity|]. split; [exact Hinv | apply Frame_refl].
  - destruct data as [|x data'].
    { exists st, u. simpl. rewrite zlen_nil, Z.add_0_r, app_nil_r.
      split; [reflexivity|]. split; [exact Hinv | apply Frame_refl]. }
    remember (x :: data') as data eqn:Ed.
    assert (Hdl : 0 < zlen data) by (subst data; rewrite zlen_cons; pose proof (zlen_nonneg data'); lia).
    destruct Hinv as [datas [Hcore [Hfull [Hcat Hb]]]].
    rewrite write_loop_step by (subst data; discriminate). cbv zeta.
    set (n := Z.min (cfg_B c - zlen (u_buf u)) (zlen data)).
    assert (Hn : 1 <= n <= zlen data /\ zlen (u_buf u) + n <= cfg_B c) by (subst n; lia).
    set (u1 := u_set_buf u (u_buf u ++ firstn (Z.to_nat n) data)).
    assert (Hb1 : zlen (u_buf u1) = zlen (u_buf u) + n).
    { subst u1. cbn. rewrite zlen_app, zlen_firstn. lia. }
    assert (Hfuel' : (llen (skipn (Z.to_nat n) data) <= fuel)%nat).
    { rewrite skipn_length. subst data. simpl llen in *. unfold zlen in Hn. simpl llen in Hn. lia. }
    assert (Hres : written + n + zlen (skipn (Z.to_nat n) data) = written + zlen data).
    { rewrite zlen_skipn. lia. }
    assert (Hcontent : (content ++ firstn (Z.to_nat n) data) ++ skipn (Z.to_nat n) data = content ++ data).
    { rewrite <- app_assoc, firstn_skipn. reflexivity. }
    destruct (zlen (u_buf u1) =? cfg_B c) eqn:Efull.
    + (* the buffer is full: upload(false) *)
      destruct (upload_false_inv c f cs datas st u1 ltac:(lia) (UCore_set_buf _ _ _ _ _ _ _ Hcore) Hfull)
        as [st2 [u2 [ds [Hup [Hcore2 [Hfull2 [Hcat2 [Hr [_ Hfr]]]]]]]]].
      rewrite Hup.
      destruct (IH (skipn (Z.to_nat n) data) (written + n) (content ++ firstn (Z.to_nat n) data) st2 u2 Hfuel')
        as [st' [u' [Hw [Hinv' Hfr']]]].
      { exists (datas ++ ds). split; [exact Hcore2|]. split; [exact Hfull2|]. split; [|lia].
        rewrite concat_app, <- app_assoc, Hcat2. subst u1. cbn. rewrite app_assoc, Hcat. reflexivity. }
      exists st', u'. rewrite Hw, Hres, <- Hcontent. split; [reflexivity|]. split; [exact Hinv'|].
      eapply Frame_trans; eauto.
    + destruct (IH (skipn (Z.to_nat n) data) (written + n) (content ++ firstn (Z.to_nat n) data) st u1 Hfuel')
        as [st' [u' [Hw [Hinv' Hfr']]]].
      { exists datas. split; [apply UCore_set_buf; exact Hcore|]. split; [exact Hfull|]. split; [|lia].
        subst u1. cbn. rewrite app_assoc, Hcat. reflexivity. }
      exists st', u'. rewrite Hw, Hres, <- Hcontent. split; [reflexivity|]. split; assumption.
Qed.

Lemma write_inv c f cs content st u data :
  0 < cs <= cfg_B c -> UInv c f cs content st u ->
  exists st' u',
    write c st u data = (st', u', NOk (zlen data)) /\
    UInv c f cs (content ++ data) st' u' /\ Frame f st st'.
Proof.
  intros Hcs Hinv. unfold write.
  assert (Ho : u_closed u = false) by (destruct Hinv as [? [[] _]]; assumption).
  rewrite Ho. apply (write_loop_inv c f cs Hcs (S (llen data)) data 0 content st u); auto.
Qed.

(* ------------------------------------------------------------------ *)
(* opening, closing, claiming *)

Lemma init_inv c f cs st :
  0 < cfg_B c -> fresh st f -> ids_fresh st -> UInv c f cs [] st (new_upload f cs).
Proof.
  intros HB [Hnc [Hnf Hnm]] Hfr. exists []. split; [|split; [constructor|split; [reflexivity|exact HB]]].
  constructor; cbn; auto.
  unfold marker_inv. destruct (cfg_tracked c); cbn; auto.
Qed.

(* what a completed upload of `content` under id f leaves in the store *)
Record Stored (c : cfg) (f cs : Z) (content : list Z) (st : store) : Prop := {
  sd_chunks : filter (is_file f) (s_chunks st) = number_from f 0 (split cs content);
  sd_file : filter (fun r => f_id r =? f) (s_files st) = [mkFile f (zlen content) cs];
  sd_nomarker : cfg_tracked c = true -> no_marker st f;
  sd_fresh : ids_fresh st
}.

Definition OtherSame (f : Z) (st st' : store) : Prop :=
  filter (not_file f) (s_chunks st') = filter (not_file f) (s_chunks st) /\
  filter (fun r => negb (f_id r =? f)) (s_files st') = filter (fun r => negb (f_id r =? f)) (s_files st).

Lemma Frame_OtherSame f st st' : Frame f st st' -> OtherSame f st st'.
Proof. intros [H1 H2]. split; [exact H2 | rewrite H1; reflexivity]. Qed.

Lemma OtherSame_trans f a b c : OtherSame f a b -> OtherSame f b c -> OtherSame f a c.
Proof. intros [H1 H2] [H3 H4]. split; congruence. Qed.

Definition finish (c : cfg) (st : store) (u : ustream) : option store :=
  match close c st u with
  | (st1, _, UOk) =>
      if cfg_tracked c then
        match claim c st1 (u_file u) with
        | (st2, UOk) => Some st2
        | _ => None
        end
      else Some st1
  | _ => None
  end.

Lemma close_flush c f cs content st u :
  0 < cs -> UInv c f cs content st u ->
  exists st1 u1 datas,
    (if (0 <? zlen (u_buf u)) || (cfg_tracked c && is_none (u_marker u))
     then upload c true st u else (st, u, UOk)) = (st1, u1, UOk) /\
    UCore c f cs datas st1 u1 /\ chunks_wf cs datas /\ concat datas = content /\
    (cfg_tracked c = true -> u_marker u1 <> None) /\ Frame f st st1.
Proof.
  intros Hcs [datas [Hcore [Hfull [Hcat Hb]]]].
  destruct ((0 <? zlen (u_buf u)) || (cfg_tracked c && is_none (u_marker u))) eqn:Econd.
  - destruct (chunk_loop_final cs Hcs (S (llen (u_buf u))) (u_buf u) ltac:(lia)) as [ds [Hloop [Hcd Hwf]]].
    destruct (upload_spec c f cs true datas st u ds [] Hcs Hcore Hloop ltac:(rewrite app_nil_r; exact Hcd))
      as [st' [u' [Hup [Hcore' [Hbuf [Hmk [Hfiles Hother]]]]]]].
    exists st', u', (datas ++ ds). split; [exact Hup|]. split; [exact Hcore'|].
    split; [apply chunks_wf_full_app; assumption|].
    split; [rewrite concat_app, Hcd; exact Hcat|]. split; [exact Hmk|]. split; assumption.
  - apply orb_false_elim in Econd. destruct Econd as [E1 E2].
    assert (Hnil : u_buf u = []) by (apply zlen_zero; pose proof (zlen_nonneg (u_buf u)); lia).
    exists st, u, datas. split; [reflexivity|]. split; [exact Hcore|].
    split; [apply chunks_wf_all_full; assumption|].
    split; [rewrite <- Hcat, Hnil, app_nil_r; reflexivity|]. split; [|apply Frame_refl].
    intros Htr. rewrite Htr in E2. simpl in E2. destruct (u_marker u); [discriminate | discriminate].
Qed.

Lemma filter_none {A} (p : A -> bool) l : (forall x, In x l -> p x = false) -> filter p l = [].
Proof.
  induction l as [|x l IH]; intro H; [reflexivity|]. simpl.
  rewrite (H x) by (simpl; auto). apply IH. intros. apply H. simpl. auto.
Qed.

Lemma filter_all {A} (p : A -> bool) l : (forall x, In x l -> p x = true) -> filter p l = l.
Proof.
  induction l as [|x l IH]; intro H; [reflexivity|]. simpl.
  rewrite (H x) by (simpl; auto). f_equal. apply IH. intros. apply H. simpl. auto.
Qed.

Lemma insert_file_fresh st r :
  no_file st (f_id r) -> insert_file st r = Some (set_files st (s_files st ++ [r])).
Proof. intro H. unfold insert_file. rewrite (find_file_none _ _ H). reflexivity. Qed.

Lemma finish_inv c f cs content st u :
  0 < cs -> UInv c f cs content st u ->
  exists st', finish c st u = Some st' /\ Stored c f cs content st' /\ OtherSame f st st'.
Proof.
  intros Hcs Hinv.
  assert (Ho : u_closed u = false) by (destruct Hinv as [? [[] _]]; assumption).
  assert (Hfu : u_file u = f) by (destruct Hinv as [? [[] _]]; assumption).
  destruct (close_flush c f cs content st u Hcs Hinv)
    as [st1 [u1 [datas [Hflush [Hcore [Hwf [Hcat [Hmk Hfr]]]]]]]].
  destruct Hcore as [Hf Hc Ho1 Hch Hcnt Hlen Hnf Hm Hfresh].
  assert (Hsplit : split cs content = datas) by (rewrite <- Hcat; apply split_concat_wf; assumption).
  assert (Hlen' : u_length u1 = zlen content) by (rewrite Hlen, Hcat; reflexivity).
  assert (Hfiles : filter (fun r => f_id r =? f) (s_files st1 ++ [mkFile f (zlen content) cs])
                   = [mkFile f (zlen content) cs]).
  { rewrite filter_app, filter_none.
    - simpl. rewrite Z.eqb_refl. reflexivity.
    - intros r Hr. apply Hnf in Hr. lia. }
  assert (Hfiles2 : filter (fun r => negb (f_id r =? f)) (s_files st1 ++ [mkFile f (zlen content) cs])
                    = filter (fun r => negb (f_id r =? f)) (s_files st1)).
  { rewrite filter_app. simpl. rewrite Z.eqb_refl. simpl. apply app_nil_r. }
  unfold finish, close. rewrite Ho, Hflush. unfold marker_inv in Hm.
  destruct (cfg_tracked c) eqn:Etr.
  - (* tracked: the marker becomes "uploaded", ClaimUpload turns it into the file record *)
    destruct (u_marker u1) as [id|] eqn:Emk; [|exfalso; apply (Hmk eq_refl); reflexivity].
    destruct Hm as [l1 [l2 [Hms Hl]]].
    assert (Hl1 : forall x, In x l1 -> (m_id x =? id) = false).
    { intros x Hx. assert (In x (l1 ++ l2)) by (apply in_or_app; auto). apply Hl in H. lia. }
    assert (Hl1f : forall x, In x l1 -> m_file x <> f).
    { intros x Hx. assert (In x (l1 ++ l2)) by (apply in_or_app; auto). apply Hl in H. tauto. }
    unfold has_marker_id. rewrite Hms, existsb_middle by (cbn; lia).
    rewrite replace_first_middle by (auto; cbn; lia).
    rewrite Hf, Hc, Hlen', Hfu.
    set (mk := mkMarker id f MUploaded (zlen content) cs).
    unfold claim. rewrite Etr. cbn [negb].
    erewrite find_marker_middle; [| cbn [s_markers set_markers]; reflexivity | exact Hl1f | reflexivity].
    cbn [m_state mk is_uploaded negb m_length m_cs m_id].
    rewrite insert_file_fresh by (cbn; exact Hnf).
    cbn [s_markers set_markers set_files].
    rewrite remove_first_middle by (auto; cbn; lia).
    eexists. split; [reflexivity|]. split.
    + constructor; cbn.
      * rewrite Hch, Hsplit. reflexivity.
      * exact Hfiles.
      * intros _ m Hin. apply Hl in Hin. tauto.
      * intros m Hin. apply Hfresh. rewrite Hms. apply in_app_or in Hin. apply in_or_app.
        destruct Hin; [left | right; right]; assumption.
    + eapply OtherSame_trans; [apply Frame_OtherSame; exact Hfr|]. split; cbn; [reflexivity | exact Hfiles2].
  - (* untracked: the file record is inserted directly *)
    rewrite Hf, Hc, Hlen'.
    rewrite insert_file_fresh by (cbn; exact Hnf).
    eexists. split; [reflexivity|]. split.
    + constructor; cbn.
      * rewrite Hch, Hsplit. reflexivity.
      * exact Hfiles.
      * intro Hx; congruence.
      * exact Hfresh.
    + eapply OtherSame_trans; [apply Frame_OtherSame; exact Hfr|]. split; cbn; [reflexivity | exact Hfiles2].
Qed.

(* ------------------------------------------------------------------ *)
(* Suspend, then Resume into a fresh stream *)

Lemma validate_full f cs ds : forall k len,
  Forall (full cs) ds ->
  validate_chunks (number_from f k ds) cs k len = Some (k + zlen ds, len + zlen (concat ds)).
Proof.
  induction ds as [|d ds IH]; intros k len H; simpl.
  - unfold zlen. simpl. f_equal. f_equal; lia.
  - inversion H as [|? ? Hd Hds]; subst. unfold full in Hd.
    assert (E1 : (k =? k) = true) by lia. assert (E2 : (zlen d =? cs) = true) by lia.
    rewrite E1, E2. cbn [negb orb]. rewrite IH by assumption.
    rewrite zlen_cons, zlen_app. f_equal. f_equal; lia.
Qed.

Lemma firstn_app_exact {A} (a b : list A) : firstn (Z.to_nat (zlen a)) (a ++ b) = a.
Proof.
  unfold zlen. rewrite Nat2Z.id, firstn_app, Nat.sub_diag, firstn_all. simpl. apply app_nil_r.
Qed.

Lemma suspend_resume_inv c f cs content st u :
  cfg_tracked c = true -> 0 < cs -> 0 < cfg_B c -> UInv c f cs content st u ->
  exists st1 uc off,
    suspend c st u = (st1, uc, NOk off) /\ Frame f st st1 /\ 0 <= off <= zlen content /\
    ((exists u3, resume c st1 (new_upload f cs) = (u3, NOk off) /\
                 UInv c f cs (firstn (Z.to_nat off) content) st1 u3)
     \/ (off = 0 /\ resume c st1 (new_upload f cs) = (new_upload f cs, NErr ENoDoc) /\
         UInv c f cs [] st1 (new_upload f cs))).
Proof.
  intros Htr Hcs HB [datas [Hcore [Hfull [Hcat Hb]]]].
  assert (Ho : u_closed u = false) by (destruct Hcore; assumption).
  (* the flush of Suspend *)
  assert (Hflush : exists st1 u1 datas1,
            (if 0 <? zlen (u_buf u) then upload c false st u else (st, u, UOk)) = (st1, u1, UOk) /\
            UCore c f cs datas1 st1 u1 /\ Forall (full cs) datas1 /\
            concat datas1 ++ u_buf u1 = content /\ Frame f st st1).
  { destruct (0 <? zlen (u_buf u)) eqn:E.
    - destruct (upload_false_inv c f cs datas st u Hcs Hcore Hfull)
        as [st2 [u2 [ds [Hup [Hcore2 [Hfull2 [Hcat2 [_ [_ Hfr]]]]]]]]].
      exists st2, u2, (datas ++ ds). split; [exact Hup|]. split; [exact Hcore2|]. split; [exact Hfull2|].
      split; [|exact Hfr]. rewrite concat_app, <- app_assoc, Hcat2. exact Hcat.
    - exists st, u, datas. split; [reflexivity|]. split; [exact Hcore|]. split; [exact Hfull|].
      split; [exact Hcat | apply Frame_refl]. }
  destruct Hflush as [st1 [u1 [datas1 [Hfl [Hcore1 [Hfull1 [Hcat1 Hfr]]]]]]].
  destruct Hcore1 as [Hf Hc Ho1 Hch Hcnt Hlen Hnf Hm Hfresh].
  unfold suspend. rewrite Htr, Ho. cbn [negb]. rewrite Hfl.
  exists st1, (u_close u1), (u_length u1). split; [reflexivity|]. split; [exact Hfr|].
  assert (Hoff : 0 <= u_length u1 <= zlen content).
  { rewrite Hlen, <- Hcat1, zlen_app. pose proof (zlen_nonneg (concat datas1)). pose proof (zlen_nonneg (u_buf u1)). lia. }
  split; [exact Hoff|].
  unfold marker_inv in Hm. rewrite Htr in Hm.
  unfold resume. rewrite Htr. cbn [negb new_upload u_marker u_buf u_file u_cs is_none orb].
  change (0 <? zlen (@nil Z)) with false. cbv iota.
  destruct (u_marker u1) as [id|] eqn:Emk.
  - (* a marker exists: Resume validates the chunks and continues after them *)
    left. destruct Hm as [l1 [l2 [Hms Hl]]].
    assert (Hl1f : forall x, In x l1 -> m_file x <> f).
    { intros x Hx. assert (In x (l1 ++ l2)) by (apply in_or_app; auto). apply Hl in H. tauto. }
    rewrite (find_marker_middle st1 f l1 _ l2 Hms Hl1f eq_refl).
    cbn [m_state is_uploading negb m_cs m_id u_cs]. rewrite Z.eqb_refl. cbn [negb].
    rewrite (find_chunks_number _ _ _ Hch), (validate_full f cs datas1 0 0 Hfull1).
    rewrite !Z.add_0_l, <- Hlen.
    eexists. split; [reflexivity|].
    exists datas1. split; [|split; [exact Hfull1|split; [|exact HB]]].
    + constructor; cbn; auto.
      unfold marker_inv. rewrite Htr. cbn. exists l1, l2. split; assumption.
    + cbn. rewrite app_nil_r, Hlen, <- Hcat1. symmetry. apply firstn_app_exact.
  - (* nothing was ever stored: no marker; the pristine stream starts over *)
    right. destruct Hm as [Hd Hnm]. subst datas1.
    assert (Hz : u_length u1 = 0) by (rewrite Hlen; reflexivity).
    split; [exact Hz|]. rewrite (find_marker_none _ _ Hnm). split; [reflexivity|].
    exists []. split; [|split; [constructor|split; [reflexivity|exact HB]]].
    constructor; cbn; auto.
    unfold marker_inv. rewrite Htr. cbn. auto.
Qed.

(* ------------------------------------------------------------------ *)
(* Abort *)

Definition gone (st : store) (f : Z) : Prop := no_chunks st f /\ no_file st f.

Lemma filter_is_not f l : filter (is_file f) (filter (not_file f) l) = [].
Proof.
  apply filter_none. intros x Hx. apply filter_In in Hx. unfold is_file, not_file in *. lia.
Qed.

Lemma filter_not_not f l : filter (not_file f) (filter (not_file f) l) = filter (not_file f) l.
Proof.
  apply filter_all. intros x Hx. apply filter_In in Hx. tauto.
Qed.

Lemma abort_inv c f cs content st u :
  UInv c f cs content st u ->
  exists st' u', abort st u = (st', u', UOk) /\ gone st' f /\
                 (cfg_tracked c = true -> no_marker st' f) /\ Frame f st st'.
Proof.
  intros [datas [[Hf Hc Ho Hch Hcnt Hlen Hnf Hm Hfresh] _]].
  unfold abort. rewrite Ho. eexists _, _. split; [reflexivity|].
  assert (Hchunks : filter (is_file f) (s_chunks (if 0 <? u_chunks u then delete_chunks st (u_file u) else st)) = []
                    /\ filter (not_file f) (s_chunks (if 0 <? u_chunks u then delete_chunks st (u_file u) else st))
                       = filter (not_file f) (s_chunks st)).
  { destruct (0 <? u_chunks u) eqn:E.
    - rewrite Hf. cbn. split; [apply filter_is_not | apply filter_not_not].
    - split; [|reflexivity]. rewrite Hch.
      assert (datas = []) by (apply zlen_zero; pose proof (zlen_nonneg datas); lia). subst. reflexivity. }
  destruct Hchunks as [Hc1 Hc2].
  assert (Hfiles : s_files (if 0 <? u_chunks u then delete_chunks st (u_file u) else st) = s_files st).
  { destruct (0 <? u_chunks u); reflexivity. }
  assert (Hmarkers : s_markers (if 0 <? u_chunks u then delete_chunks st (u_file u) else st) = s_markers st).
  { destruct (0 <? u_chunks u); reflexivity. }
  set (st1 := if 0 <? u_chunks u then delete_chunks st (u_file u) else st) in *.
  unfold marker_inv in Hm.
  destruct (u_marker u) as [id|] eqn:Emk.
  - cbn. split; [split|split].
    + exact Hc1.
    + intros r Hr. cbn in Hr. rewrite Hfiles in Hr. apply Hnf. exact Hr.
    + intros Htr. rewrite Htr in Hm. destruct Hm as [l1 [l2 [Hms Hl]]].
      intros m Hin. cbn in Hin. rewrite Hmarkers, Hms in Hin.
      rewrite remove_first_middle in Hin.
      * apply Hl in Hin. tauto.
      * intros x Hx. assert (In x (l1 ++ l2)) by (apply in_or_app; auto). apply Hl in H. lia.
      * cbn. lia.
    + split; cbn; assumption.
  - split; [split|split].
    + exact Hc1.
    + intros r Hr. rewrite Hfiles in Hr. apply Hnf. exact Hr.
    + intros Htr. rewrite Htr in Hm. destruct Hm as [_ Hnm]. intros m Hin. rewrite Hmarkers in Hin.
      apply Hnm. exact Hin.
    + split; assumption.
Qed.

(* ------------------------------------------------------------------ *)
(* whole uploads *)

(* any sequence of writes, each of which must report its full length *)
Fixpoint writes (c : cfg) (st : store) (u : ustream) (parts : list (list Z)) : option (store * ustream) :=
  match parts with
  | [] => Some (st, u)
  | p :: t =>
      match write c st u p with
      | (st1, u1, NOk n) => if n =? zlen p then writes c st1 u1 t else None
      | _ => None
      end
  end.

(* opening a stream succeeds exactly for 0 < cs <= B *)
Lemma open_ok c f cs u : open_upload c f cs = Some u -> 0 < cs <= cfg_B c /\ u = new_upload f cs.
Proof.
  unfold open_upload. destruct ((cs <=? 0) || (cs >? cfg_B c)) eqn:E; [discriminate|].
  intro H. inversion H. split; [lia | reflexivity].
Qed.

Lemma open_upload_ok c f cs : 0 < cs <= cfg_B c -> open_upload c f cs = Some (new_upload f cs).
Proof.
  intro H. unfold open_upload. assert (E : ((cs <=? 0) || (cs >? cfg_B c)) = false) by lia.
  rewrite E. reflexivity.
Qed.

Theorem open_rejects_bad_chunk_size c f cs : cs <= 0 \/ cs > cfg_B c -> open_upload c f cs = None.
Proof.
  intro H. unfold open_upload. assert (E : ((cs <=? 0) || (cs >? cfg_B c)) = true) by lia.
  rewrite E. reflexivity.
Qed.

(* OpenUploadStreamWithID; Write...; Close (; ClaimUpload in a tracked bucket) *)
Definition upload_run (c : cfg) (st0 : store) (f cs : Z) (parts : list (list Z)) : option store :=
  match open_upload c f cs with
  | None => None
  | Some u =>
      match writes c st0 u parts with
      | Some (st, u') => finish c st u'
      | None => None
      end
  end.

Lemma writes_inv c f cs :
  0 < cs <= cfg_B c ->
  forall parts content st u, UInv c f cs content st u ->
  exists st' u', writes c st u parts = Some (st', u') /\
                 UInv c f cs (content ++ concat parts) st' u' /\ Frame f st st'.
Proof.
  intros Hcs. induction parts as [|p t IH]; intros content st u Hinv.
  - exists st, u. simpl. rewrite app_nil_r. split; [reflexivity|]. split; [exact Hinv | apply Frame_refl].
  - destruct (write_inv c f cs content st u p Hcs Hinv) as [st1 [u1 [Hw [Hinv1 Hfr1]]]].
    destruct (IH _ _ _ Hinv1) as [st' [u' [Hws [Hinv' Hfr']]]].
    exists st', u'. cbn [writes]. rewrite Hw, Z.eqb_refl, Hws. split; [reflexivity|].
    split; [|eapply Frame_trans; eauto]. cbn [concat]. rewrite app_assoc. exact Hinv'.
Qed.

Theorem upload_canonical c f cs parts st0 u0 :
  open_upload c f cs = Some u0 -> fresh st0 f -> ids_fresh st0 ->
  exists st, upload_run c st0 f cs parts = Some st /\
             Stored c f cs (concat parts) st /\ OtherSame f st0 st.
Proof.
  intros Hopen Hfresh Hids. destruct (open_ok _ _ _ _ Hopen) as [Hcs _].
  destruct (writes_inv c f cs Hcs parts [] st0 (new_upload f cs) (init_inv c f cs st0 ltac:(lia) Hfresh Hids))
    as [st [u [Hw [Hinv Hfr]]]].
  destruct (finish_inv c f cs _ st u ltac:(lia) Hinv) as [st' [Hfin [Hstored Hos]]].
  exists st'. unfold upload_run. rewrite (open_upload_ok c f cs Hcs), Hw. split; [exact Hfin|]. split; [exact Hstored|].
  eapply OtherSame_trans; [apply Frame_OtherSame; exact Hfr | exact Hos].
Qed.

(* the client of a resumable upload: it owns the content, writes pieces of it
   and may at any point suspend, open a new stream, resume and continue from
   the offset that Resume reports *)
Inductive cop := CWrite (n : nat) | CSuspendResume.

Fixpoint client (c : cfg) (content : list Z) (script : list cop) (st : store) (u : ustream) (sent : nat)
  : option (store * ustream * nat) :=
  match script with
  | [] => Some (st, u, sent)
  | CWrite n :: t =>
      let data := firstn n (skipn sent content) in
      match write c st u data with
      | (st1, u1, NOk k) => if k =? zlen data then client c content t st1 u1 (sent + llen data) else None
      | _ => None
      end
  | CSuspendResume :: t =>
      match suspend c st u with
      | (st1, _, NOk off) =>
          match open_upload c (u_file u) (u_cs u) with
          | None => None
          | Some u2 =>
              match resume c st1 u2 with
              | (u3, NOk off') => if off' =? off then client c content t st1 u3 (Z.to_nat off) else None
              | (u3, NErr ENoDoc) =>
                  (* nothing had been stored, so no marker exists: the stream is still pristine *)
                  if off =? 0 then client c content t st1 u3 0 else None
              | _ => None
              end
          end
      | _ => None
      end
  end.

Definition client_upload (c : cfg) (st0 : store) (f cs : Z) (content : list Z) (script : list cop) : option store :=
  match open_upload c f cs with
  | None => None
  | Some u0 =>
      match client c content script st0 u0 0 with
      | Some (st, u, sent) =>
          match write c st u (skipn sent content) with
          | (st1, u1, NOk _) => finish c st1 u1
          | _ => None
          end
      | None => None
      end
  end.

Definition is_cwrite (o : cop) : Prop := match o with CWrite _ => True | CSuspendResume => False end.

(* Suspend / Resume exist in tracked buckets only *)
Definition script_ok (c : cfg) (script : list cop) : Prop :=
  cfg_tracked c = true \/ Forall is_cwrite script.

Lemma firstn_extend {A} (l : list A) a n :
  (a <= llen l)%nat ->
  firstn a l ++ firstn n (skipn a l) = firstn (a + llen (firstn n (skipn a l))) l.
Proof.
  intro Ha.
  assert (Hla : llen (firstn a l) = a) by (rewrite firstn_length; lia).
  assert (Hk : forall q : list A, firstn (llen (firstn n q)) q = firstn n q).
  { intro q. rewrite firstn_length. destruct (Nat.le_gt_cases n (llen q)).
    - rewrite Nat.min_l by lia. reflexivity.
    - rewrite Nat.min_r by lia. rewrite !firstn_all2 by lia. reflexivity. }
  set (k := llen (firstn n (skipn a l))).
  transitivity (firstn (llen (firstn a l) + k) (firstn a l ++ skipn a l)).
  - rewrite firstn_app_2. f_equal. subst k. symmetry. apply Hk.
  - rewrite Hla, firstn_skipn. reflexivity.
Qed.

Lemma client_inv c f cs content :
  0 < cs <= cfg_B c ->
  forall script st u sent,
  script_ok c script -> (sent <= llen content)%nat -> UInv c f cs (firstn sent content) st u ->
  exists st' u' sent',
    client c content script st u sent = Some (st', u', sent') /\ (sent' <= llen content)%nat /\
    UInv c f cs (firstn sent' content) st' u' /\ Frame f st st'.
Proof.
  intros Hcs. induction script as [|op t IH]; intros st u sent Hok Hsent Hinv.
  - exists st, u, sent. split; [reflexivity|]. split; [exact Hsent|]. split; [exact Hinv | apply Frame_refl].
  - assert (Hok' : script_ok c t).
    { destruct Hok as [Htr|Hall]; [left; exact Htr | right; inversion Hall; assumption]. }
    destruct op as [n|].
    + cbn [client]. set (data := firstn n (skipn sent content)).
      destruct (write_inv c f cs _ st u data Hcs Hinv) as [st1 [u1 [Hw [Hinv1 Hfr1]]]].
      rewrite Hw, Z.eqb_refl.
      assert (Hdl : (sent + llen data <= llen content)%nat).
      { subst data. rewrite firstn_length, skipn_length. lia. }
      subst data. rewrite firstn_extend in Hinv1 by exact Hsent.
      destruct (IH st1 u1 _ Hok' Hdl Hinv1) as [st' [u' [sent' [Hc [Hs' [Hinv' Hfr']]]]]].
      exists st', u', sent'. split; [exact Hc|]. split; [exact Hs'|]. split; [exact Hinv'|].
      eapply Frame_trans; eauto.
    + assert (Htr : cfg_tracked c = true).
      { destruct Hok as [Htr|Hall]; [exact Htr | inversion Hall as [|? ? Hx]; destruct Hx]. }
      assert (Hfu : u_file u = f /\ u_cs u = cs) by (destruct Hinv as [? [[] _]]; auto).
      destruct Hfu as [Hfu Hcu].
      destruct (suspend_resume_inv c f cs _ st u Htr ltac:(lia) ltac:(lia) Hinv)
        as [st1 [uc [off [Hsus [Hfr1 [Hoff Hres]]]]]].
      cbn [client]. rewrite Hsus, Hfu, Hcu, (open_upload_ok c f cs Hcs).
      assert (Hoffn : (Z.to_nat off <= sent)%nat).
      { rewrite zlen_firstn in Hoff. lia. }
      destruct Hres as [[u3 [Hr Hinv3]]|[Hz [Hr Hinv3]]].
      * rewrite Hr, Z.eqb_refl.
        rewrite firstn_firstn, Nat.min_l in Hinv3 by exact Hoffn.
        destruct (IH st1 u3 (Z.to_nat off) Hok' ltac:(lia) Hinv3) as [st' [u' [sent' [Hc [Hs' [Hinv' Hfr']]]]]].
        exists st', u', sent'. split; [exact Hc|]. split; [exact Hs'|]. split; [exact Hinv'|].
        eapply Frame_trans; eauto.
      * rewrite Hr. subst off. cbn [Z.eqb].
        destruct (IH st1 (new_upload f cs) 0%nat Hok' ltac:(lia) Hinv3) as [st' [u' [sent' [Hc [Hs' [Hinv' Hfr']]]]]].
        exists st', u', sent'. split; [exact Hc|]. split; [exact Hs'|]. split; [exact Hinv'|].
        eapply Frame_trans; eauto.
Qed.

Theorem client_upload_canonical c f cs content script st0 u0 :
  open_upload c f cs = Some u0 -> script_ok c script -> fresh st0 f -> ids_fresh st0 ->
  exists st, client_upload c st0 f cs content script = Some st /\
             Stored c f cs content st /\ OtherSame f st0 st.
Proof.
  intros Hopen Hok Hfresh Hids. destruct (open_ok _ _ _ _ Hopen) as [Hcs _].
  destruct (client_inv c f cs content Hcs script st0 (new_upload f cs) 0%nat Hok ltac:(lia)
              (init_inv c f cs st0 ltac:(lia) Hfresh Hids))
    as [st [u [sent [Hc [Hs [Hinv Hfr]]]]]].
  destruct (write_inv c f cs _ st u (skipn sent content) Hcs Hinv) as [st1 [u1 [Hw [Hinv1 Hfr1]]]].
  rewrite firstn_skipn in Hinv1.
  destruct (finish_inv c f cs _ st1 u1 ltac:(lia) Hinv1) as [st' [Hfin [Hstored Hos]]].
  exists st'. unfold client_upload. rewrite (open_upload_ok c f cs Hcs), Hc, Hw. split; [exact Hfin|]. split; [exact Hstored|].
  eapply OtherSame_trans; [apply Frame_OtherSame; eapply Frame_trans; eauto | exact Hos].
Qed.

(* Abort at any point of any client script *)
Definition client_abort (c : cfg) (st0 : store) (f cs : Z) (content : list Z) (script : list cop) : option store :=
  match open_upload c f cs with
  | None => None
  | Some u0 =>
      match client c content script st0 u0 0 with
      | Some (st, u, _) =>
          match abort st u with
          | (st1, _, UOk) => Some st1
          | _ => None
          end
      | None => None
      end
  end.

Theorem abort_leaves_nothing c f cs content script st0 u0 :
  open_upload c f cs = Some u0 -> script_ok c script -> fresh st0 f -> ids_fresh st0 ->
  exists st, client_abort c st0 f cs content script = Some st /\
             no_chunks st f /\ no_file st f /\ (cfg_tracked c = true -> no_marker st f) /\
             OtherSame f st0 st.
Proof.
  intros Hopen Hok Hfresh Hids. destruct (open_ok _ _ _ _ Hopen) as [Hcs _].
  destruct (client_inv c f cs content Hcs script st0 (new_upload f cs) 0%nat Hok ltac:(lia)
              (init_inv c f cs st0 ltac:(lia) Hfresh Hids))
    as [st [u [sent [Hc [Hs [Hinv Hfr]]]]]].
  destruct (abort_inv c f cs _ st u Hinv) as [st' [u' [Hab [[Hg1 Hg2] [Hnm Hfr']]]]].
  exists st'. unfold client_abort. rewrite (open_upload_ok c f cs Hcs), Hc, Hab. split; [reflexivity|].
  split; [exact Hg1|]. split; [exact Hg2|]. split; [exact Hnm|].
  apply Frame_OtherSame. eapply Frame_trans; eauto.
Qed.

(* ------------------------------------------------------------------ *)
(* the stored state, itemised as in the property statement *)

Lemma find_of_filter {A} (p : A -> bool) l x t : filter p l = x :: t -> find p l = Some x.
Proof.
  induction l as [|y l IH]; simpl; [discriminate|].
  destruct (p y) eqn:E; intro H; [congruence | auto].
Qed.

Lemma chunks_wf_nth cs ds :
  0 < cs -> chunks_wf cs ds ->
  forall i d, nth_error ds i = Some d ->
  0 < zlen d <= cs /\ ((S i < llen ds)%nat -> zlen d = cs).
Proof.
  intros Hcs. induction ds as [|e t IH]; intros Hwf i d Hn.
  - destruct i; discriminate.
  - apply chunks_wf_cons in Hwf. destruct i as [|i]; simpl in Hn.
    + inversion Hn; subst e. destruct Hwf as [[-> H]|[_ [H _]]]; simpl; split; try lia.
    + destruct Hwf as [[-> _]|[_ [_ Ht]]]; [destruct i; discriminate|].
      destruct (IH Ht i d Hn) as [H1 H2]. split; [exact H1|]. intro Hi. apply H2. simpl in Hi. lia.
Qed.

Lemma number_from_n f ds : forall k,
  map c_n (number_from f k ds) = map (fun i => k + Z.of_nat i) (seq 0 (llen ds)).
Proof.
  induction ds as [|d ds IH]; intro k; [reflexivity|].
  simpl. f_equal; [lia|]. rewrite IH, <- seq_shift, map_map. apply map_ext. intro i. lia.
Qed.

Lemma number_from_file f ds : forall k, Forall (fun ch => c_file ch = f) (number_from f k ds).
Proof. induction ds; intro k; simpl; constructor; auto. Qed.

(* the statement of C18 about what is stored for file f *)
Definition stored_as_stated (st : store) (f cs : Z) (content : list Z) : Prop :=
  let chunks := find_chunks st f in
  concat (map c_data chunks) = content /\
  find_file st f = Some (mkFile f (zlen content) cs) /\
  map c_n chunks = map Z.of_nat (seq 0 (llen chunks)) /\
  Forall (fun ch => c_file ch = f) chunks /\
  (forall i ch, nth_error chunks i = Some ch ->
     0 < zlen (c_data ch) <= cs /\ ((S i < llen chunks)%nat -> zlen (c_data ch) = cs)).

Lemma stored_facts c f cs content st :
  0 < cs -> Stored c f cs content st -> stored_as_stated st f cs content.
Proof.
  intros Hcs [Hch Hfile _ _]. unfold stored_as_stated.
  rewrite (find_chunks_number _ _ _ Hch).
  destruct (split_wf cs content Hcs) as [Hcat Hwf].
  split; [rewrite number_from_data; exact Hcat|].
  split; [unfold find_file; eapply find_of_filter; exact Hfile|].
  split.
  { rewrite number_from_n. assert (E : llen (number_from f 0 (split cs content)) = llen (split cs content)).
    { pose proof (number_from_zlen f 0 (split cs content)) as H. unfold zlen in H. lia. }
    rewrite E. apply map_ext. intro i. lia. }
  split; [apply number_from_file|].
  intros i ch Hn.
  assert (Hd : nth_error (split cs content) i = Some (c_data ch)).
  { rewrite <- (number_from_data f 0 (split cs content)). rewrite nth_error_map, Hn. reflexivity. }
  destruct (chunks_wf_nth cs _ Hcs Hwf i _ Hd) as [H1 H2]. split; [exact H1|].
  intro Hi. apply H2.
  pose proof (number_from_zlen f 0 (split cs content)) as H. unfold zlen in H. lia.
Qed.

(* C18, upload part: for all contents, all write partitions and every chunk
   size with which a stream can be opened *)
Theorem upload_concat c f cs parts st0 u0 :
  open_upload c f cs = Some u0 -> fresh st0 f -> ids_fresh st0 ->
  exists st, upload_run c st0 f cs parts = Some st /\
             stored_as_stated st f cs (concat parts) /\ OtherSame f st0 st.
Proof.
  intros Hopen Hfresh Hids. destruct (open_ok _ _ _ _ Hopen) as [Hcs _].
  destruct (upload_canonical c f cs parts st0 u0 Hopen Hfresh Hids) as [st [Hrun [Hst Hos]]].
  exists st. split; [exact Hrun|]. split; [|exact Hos]. eapply stored_facts; [lia | exact Hst].
Qed.

(* C18, suspend/resume: whatever the points of suspension, the final stored
   state is that of the uninterrupted single-write upload *)
Theorem suspend_resume c f cs content script st0 u0 :
  open_upload c f cs = Some u0 -> script_ok c script -> fresh st0 f -> ids_fresh st0 ->
  exists st st',
    client_upload c st0 f cs content script = Some st /\
    upload_run c st0 f cs [content] = Some st' /\
    find_chunks st f = find_chunks st' f /\ find_file st f = find_file st' f /\
    stored_as_stated st f cs content /\ OtherSame f st0 st.
Proof.
  intros Hopen Hok Hfresh Hids. destruct (open_ok _ _ _ _ Hopen) as [Hcs _].
  destruct (client_upload_canonical c f cs content script st0 u0 Hopen Hok Hfresh Hids) as [st [Hrun [Hst Hos]]].
  destruct (upload_canonical c f cs [content] st0 u0 Hopen Hfresh Hids) as [st' [Hrun' [Hst' _]]].
  simpl concat in Hst'. rewrite app_nil_r in Hst'.
  exists st, st'. split; [exact Hrun|]. split; [exact Hrun'|].
  pose proof (stored_facts c f cs content st ltac:(lia) Hst) as Hf.
  pose proof (stored_facts c f cs content st' ltac:(lia) Hst') as Hf'.
  split.
  { rewrite (find_chunks_number _ _ _ (sd_chunks _ _ _ _ _ Hst)), (find_chunks_number _ _ _ (sd_chunks _ _ _ _ _ Hst')). reflexivity. }
  split.
  { destruct Hf as [_ [-> _]]. destruct Hf' as [_ [-> _]]. reflexivity. }
  split; assumption.
Qed.

(* ------------------------------------------------------------------ *)
(* Delete *)

Lemma filter_single {A} (p : A -> bool) l x :
  filter p l = [x] ->
  exists l1 l2, l = l1 ++ x :: l2 /\ (forall y, In y (l1 ++ l2) -> p y = false) /\ p x = true.
Proof.
  induction l as [|y l IH]; simpl; [discriminate|].
  destruct (p y) eqn:E; intro H.
  - inversion H; subst y. exists [], l. split; [reflexivity|]. split; [|exact E].
    intros z Hz. simpl in Hz.
    destruct (p z) eqn:Ez; [|reflexivity].
    assert (In z (filter p l)) by (apply filter_In; auto). rewrite H2 in H0. destruct H0.
  - destruct (IH H) as [l1 [l2 [-> [Hn Hx]]]]. exists (y :: l1), l2. split; [reflexivity|]. split; [|exact Hx].
    intros z [<-|Hz]; [exact E | apply Hn; exact Hz].
Qed.

Lemma filter_remove_other {A} (p q : A -> bool) l :
  (forall x, p x = true -> q x = false) -> filter q (remove_first p l) = filter q l.
Proof.
  intro H. induction l as [|x l IH]; [reflexivity|]. simpl.
  destruct (p x) eqn:E.
  - rewrite (H x E). reflexivity.
  - simpl. rewrite IH. reflexivity.
Qed.

Lemma delete_untracked_inv c f cs content st :
  cfg_tracked c = false -> Stored c f cs content st ->
  exists st', delete c st f = (st', UOk) /\ no_chunks st' f /\ no_file st' f /\ OtherSame f st st'.
Proof.
  intros Htr [Hch Hfile _ _]. unfold delete. rewrite Htr.
  destruct (filter_single _ _ _ Hfile) as [l1 [l2 [Hfiles [Hn Hx]]]].
  assert (Hl1 : forall y, In y l1 -> (f_id y =? f) = false) by (intros; apply Hn, in_or_app; auto).
  unfold find_file. rewrite Hfiles, (find_middle _ l1 _ l2 Hl1 Hx), (remove_first_middle _ l1 _ l2 Hl1 Hx).
  eexists. split; [reflexivity|]. split; [|split; [|split]]; cbn.
  - apply filter_is_not.
  - intros r Hr. apply Hn in Hr. lia.
  - apply filter_not_not.
  - rewrite Hfiles, !filter_app. simpl. rewrite Z.eqb_refl. reflexivity.
Qed.

(* C18: a deleted file leaves nothing behind (untracked bucket) *)
Theorem delete_leaves_nothing c f cs parts st0 u0 :
  open_upload c f cs = Some u0 -> cfg_tracked c = false -> fresh st0 f -> ids_fresh st0 ->
  exists st st',
    upload_run c st0 f cs parts = Some st /\ delete c st f = (st', UOk) /\
    no_chunks st' f /\ no_file st' f /\ dopen st' f = DOpenErr ENotFound /\ OtherSame f st0 st'.
Proof.
  intros Hopen Htr Hfresh Hids.
  destruct (upload_canonical c f cs parts st0 u0 Hopen Hfresh Hids) as [st [Hrun [Hst Hos]]].
  destruct (delete_untracked_inv c f cs _ st Htr Hst) as [st' [Hdel [Hnc [Hnf Hos']]]].
  exists st, st'. split; [exact Hrun|]. split; [exact Hdel|]. split; [exact Hnc|]. split; [exact Hnf|].
  split; [|eapply OtherSame_trans; eauto].
  unfold dopen. rewrite (find_file_none _ _ Hnf). reflexivity.
Qed.

(* tracked bucket: Delete leaves a marker, Cleanup removes file, chunks and marker *)
Lemma remove_first_app_last {A} (p : A -> bool) l x :
  p x = false -> remove_first p (l ++ [x]) = remove_first p l ++ [x].
Proof.
  intro H. induction l as [|y l IH]; simpl.
  - rewrite H. reflexivity.
  - destruct (p y); [reflexivity | rewrite IH; reflexivity].
Qed.

Lemma remove_first_incl {A} (p : A -> bool) l x : In x (remove_first p l) -> In x l.
Proof.
  induction l as [|y l IH]; simpl; [auto|].
  destruct (p y); simpl; [auto|]. intros [H|H]; auto.
Qed.

Lemma filter_is_file_other f g l : f <> g -> filter (is_file f) (filter (not_file g) l) = filter (is_file f) l.
Proof.
  intro H. induction l as [|x l IH]; [reflexivity|]. simpl.
  unfold not_file at 1. destruct (c_file x =? g) eqn:E; simpl.
  - rewrite IH. unfold is_file at 2. assert (E2 : (c_file x =? f) = false) by lia. rewrite E2. reflexivity.
  - rewrite IH. reflexivity.
Qed.

(* the state of file f while the markers before its "deleted" marker mf are cleaned up *)
Definition pending (f : Z) (mf : marker) (K : list chunk) (rec : filerec) (st : store) : Prop :=
  exists lA, s_markers st = lA ++ [mf] /\
             (forall m, In m lA -> m_file m <> f /\ m_id m <> m_id mf) /\
             filter (is_file f) (s_chunks st) = K /\
             filter (fun r => f_id r =? f) (s_files st) = [rec].

Lemma cleanup_one_pending f mf K rec st m :
  m_file m <> f -> m_id m <> m_id mf -> pending f mf K rec st -> pending f mf K rec (cleanup_one st m).
Proof.
  intros Hf Hid [lA [Hms [HlA [Hch Hfiles]]]]. unfold cleanup_one.
  destruct (has_marker_id st (m_id m)); [|exists lA; auto].
  unfold pending. cbn [s_markers set_markers delete_chunks set_chunks set_files s_chunks s_files].
  exists (remove_first (fun x => m_id x =? m_id m) lA). split; [|split; [|split]].
  - rewrite Hms. apply remove_first_app_last. lia.
  - intros x Hx. apply remove_first_incl in Hx. apply HlA. exact Hx.
  - rewrite filter_is_file_other by congruence. exact Hch.
  - rewrite filter_remove_other; [exact Hfiles|]. intros x Hx. lia.
Qed.

Lemma cleanup_fold_pending f mf K rec : forall ms st,
  (forall m, In m ms -> m_file m <> f /\ m_id m <> m_id mf) ->
  pending f mf K rec st -> pending f mf K rec (fold_left cleanup_one ms st).
Proof.
  induction ms as [|m ms IH]; intros st Hms Hp; [exact Hp|].
  simpl. apply IH; [intros; apply Hms; simpl; auto|].
  destruct (Hms m ltac:(simpl; auto)). apply cleanup_one_pending; auto.
Qed.

(* files that have no marker are not touched by Cleanup *)
Lemma cleanup_one_other g st m :
  m_file m <> g ->
  filter (is_file g) (s_chunks (cleanup_one st m)) = filter (is_file g) (s_chunks st) /\
  filter (fun r => f_id r =? g) (s_files (cleanup_one st m)) = filter (fun r => f_id r =? g) (s_files st) /\
  (forall x, In x (s_markers (cleanup_one st m)) -> In x (s_markers st)).
Proof.
  intro Hg. unfold cleanup_one. destruct (has_marker_id st (m_id m)); [|auto].
  cbn [s_markers set_markers delete_chunks set_chunks set_files s_chunks s_files].
  split; [apply filter_is_file_other; congruence|]. split.
  - apply filter_remove_other. intros x Hx. lia.
  - intros x Hx. apply remove_first_incl in Hx. exact Hx.
Qed.

Lemma cleanup_fold_other g : forall ms st,
  (forall m, In m ms -> m_file m <> g) ->
  filter (is_file g) (s_chunks (fold_left cleanup_one ms st)) = filter (is_file g) (s_chunks st) /\
  filter (fun r => f_id r =? g) (s_files (fold_left cleanup_one ms st)) = filter (fun r => f_id r =? g) (s_files st).
Proof.
  induction ms as [|m ms IH]; intros st Hms; [auto|].
  simpl. destruct (IH (cleanup_one st m) ltac:(intros; apply Hms; simpl; auto)) as [H1 H2].
  destruct (cleanup_one_other g st m ltac:(apply Hms; simpl; auto)) as [H3 [H4 _]].
  split; congruence.
Qed.

Definition delete_cleanup (c : cfg) (st : store) (f : Z) : option store :=
  match delete c st f with
  | (st1, UOk) =>
      match cleanup c st1 with
      | (st2, UOk) => Some st2
      | _ => None
      end
  | _ => None
  end.

Lemma delete_cleanup_inv c f cs content st :
  cfg_tracked c = true -> Stored c f cs content st ->
  exists st', delete_cleanup c st f = Some st' /\
              no_chunks st' f /\ no_file st' f /\ no_marker st' f /\
              (forall g, no_marker st g -> g <> f ->
                 filter (is_file g) (s_chunks st') = filter (is_file g) (s_chunks st) /\
                 filter (fun r => f_id r =? g) (s_files st') = filter (fun r => f_id r =? g) (s_files st)).
Proof.
  intros Htr [Hch Hfile Hnm Hfresh]. specialize (Hnm Htr).
  unfold delete_cleanup, delete. rewrite Htr, (find_marker_none _ _ Hnm).
  unfold cleanup. rewrite Htr. cbn [negb s_markers bump set_markers].
  set (mf := mkMarker (s_next st) f MDeleted 0 0).
  set (st1 := bump (set_markers st (s_markers st ++ [mf]))).
  eexists. split; [reflexivity|].
  rewrite fold_left_app. cbn [fold_left].
  assert (Hold : forall m, In m (s_markers st) -> m_file m <> f /\ m_id m <> m_id mf).
  { intros m Hm. split; [apply Hnm; exact Hm|]. apply Hfresh in Hm. cbn. lia. }
  assert (Hp : pending f mf (number_from f 0 (split cs content)) (mkFile f (zlen content) cs)
                 (fold_left cleanup_one (s_markers st) st1)).
  { apply cleanup_fold_pending; [exact Hold|]. exists (s_markers st). auto. }
  destruct Hp as [lA [Hms [HlA [Hch' Hfiles']]]].
  set (sta := fold_left cleanup_one (s_markers st) st1) in *.
  unfold cleanup_one. unfold has_marker_id. rewrite Hms.
  replace (lA ++ [mf]) with (lA ++ mf :: []) by reflexivity.
  rewrite existsb_middle by (apply Z.eqb_refl).
  cbn [s_markers set_markers delete_chunks set_chunks set_files s_chunks s_files m_file mf m_id].
  destruct (filter_single _ _ _ Hfiles') as [l1 [l2 [Hfl [Hn Hx]]]].
  assert (Hl1 : forall y, In y l1 -> (f_id y =? f) = false) by (intros; apply Hn, in_or_app; auto).
  split; [apply filter_is_not|]. split; [|split].
  - intros r Hr. rewrite Hfl, (remove_first_middle _ l1 _ l2 Hl1 Hx) in Hr. apply Hn in Hr. lia.
  - intros m Hm. rewrite Hms in Hm.
    replace (lA ++ [mf]) with (lA ++ mf :: []) in Hm by reflexivity.
    rewrite remove_first_middle in Hm.
    + rewrite app_nil_r in Hm. apply HlA in Hm. tauto.
    + intros x Hx'. apply HlA in Hx'. cbn in Hx'. lia.
    + apply Z.eqb_refl.
  - intros g Hg Hgf.
    destruct (cleanup_fold_other g (s_markers st) st1 Hg) as [H1 H2]. fold sta in H1, H2.
    split.
    + rewrite filter_is_file_other by congruence. exact H1.
    + rewrite filter_remove_other; [exact H2|]. intros x Hx'. lia.
Qed.

(* C18: a deleted file leaves nothing behind (tracked bucket: Delete, then Cleanup) *)
Theorem delete_cleanup_leaves_nothing c f cs parts st0 u0 :
  open_upload c f cs = Some u0 -> cfg_tracked c = true -> fresh st0 f -> ids_fresh st0 ->
  exists st st',
    upload_run c st0 f cs parts = Some st /\ delete_cleanup c st f = Some st' /\
    no_chunks st' f /\ no_file st' f /\ no_marker st' f /\ dopen st' f = DOpenErr ENotFound /\
    (forall g, no_marker st g -> g <> f ->
       filter (is_file g) (s_chunks st') = filter (is_file g) (s_chunks st) /\
       filter (fun r => f_id r =? g) (s_files st') = filter (fun r => f_id r =? g) (s_files st)).
Proof.
  intros Hopen Htr Hfresh Hids.
  destruct (upload_canonical c f cs parts st0 u0 Hopen Hfresh Hids) as [st [Hrun [Hst Hos]]].
  destruct (delete_cleanup_inv c f cs _ st Htr Hst) as [st' [Hdel [Hnc [Hnf [Hnm Hother]]]]].
  exists st, st'. split; [exact Hrun|]. split; [exact Hdel|]. split; [exact Hnc|]. split; [exact Hnf|].
  split; [exact Hnm|]. split; [|exact Hother].
  unfold dopen. rewrite (find_file_none _ _ Hnf). reflexivity.
Qed.

(* ------------------------------------------------------------------ *)
(* Download: arithmetic of positions over a well-formed chunk list *)

Lemma chunks_count cs ds :
  0 < cs -> chunks_wf cs ds ->
  zlen ds = Z.quot (zlen (concat ds)) cs + (if Z.rem (zlen (concat ds)) cs =? 0 then 0 else 1).
Proof.
  intros Hcs. induction ds as [|d t IH]; intro Hwf.
  - simpl. reflexivity.
  - cbn [concat]. rewrite zlen_cons, zlen_app.
    pose proof (zlen_nonneg d) as Hd0. pose proof (zlen_nonneg (concat t)) as Ht0.
    rewrite Z.quot_div_nonneg, Z.rem_mod_nonneg by lia.
    apply chunks_wf_cons in Hwf. destruct Hwf as [[-> Hd]|[Hne [Hd Hwf]]].
    + simpl concat. rewrite (@zlen_nil Z), (@zlen_nil (list Z)), !Z.add_0_r.
      destruct (Z.eq_dec (zlen d) cs) as [E|E].
      * rewrite E, Z_div_same_full, Z_mod_same_full by lia. reflexivity.
      * rewrite Z.div_small, Z.mod_small by lia.
        assert (E2 : (zlen d =? 0) = false) by lia. rewrite E2. reflexivity.
    + rewrite (IH Hwf), Hd.
      rewrite Z.quot_div_nonneg, Z.rem_mod_nonneg by lia.
      replace (cs + zlen (concat t)) with (zlen (concat t) + 1 * cs) by lia.
      rewrite Z.div_add, Z.mod_add by lia. lia.
Qed.

Lemma skipn_app_le {A} n (a b : list A) : (n <= llen a)%nat -> skipn n (a ++ b) = skipn n a ++ b.
Proof.
  intro H. rewrite skipn_app. replace (n - llen a)%nat with 0%nat by lia. reflexivity.
Qed.

Lemma skipn_app_ge {A} n (a b : list A) : (llen a <= n)%nat -> skipn n (a ++ b) = skipn (n - llen a) b.
Proof.
  intro H. rewrite skipn_app, skipn_all2 by lia. reflexivity.
Qed.

(* seek(position) lands in chunk position/cs at offset position - (position/cs)*cs *)
Lemma seek_split cs :
  0 < cs -> forall datas pos,
  chunks_wf cs datas -> 0 <= pos < zlen (concat datas) ->
  exists d rest,
    skipn (Z.to_nat (Z.quot pos cs)) datas = d :: rest /\
    0 <= pos - Z.quot pos cs * cs <= zlen d /\
    skipn (Z.to_nat (pos - Z.quot pos cs * cs)) d ++ concat rest = skipn (Z.to_nat pos) (concat datas) /\
    chunks_wf cs rest /\ Z.quot pos cs + 1 + zlen rest = zlen datas.
Proof.
  intros Hcs. induction datas as [|d0 t IH]; intros pos Hwf Hpos.
  - simpl in Hpos. change (zlen (@nil Z)) with 0 in Hpos. lia.
  - cbn [concat] in *. rewrite zlen_app in Hpos.
    pose proof (zlen_nonneg d0) as Hd0. pose proof (zlen_nonneg (concat t)) as Ht0.
    rewrite Z.quot_div_nonneg by lia.
    pose proof (chunks_wf_tail _ _ _ Hwf) as Hwft.
    apply chunks_wf_cons in Hwf.
    destruct (Z_lt_ge_dec pos cs) as [Hlt|Hge].
    + (* inside the first chunk *)
      rewrite Z.div_small by lia. rewrite Z.mul_0_l, Z.sub_0_r. simpl skipn at 1.
      assert (Hle : pos <= zlen d0).
      { destruct Hwf as [[-> _]|[_ [Hd _]]]; [cbn [concat] in Hpos; change (zlen (@nil Z)) with 0 in Hpos|]; lia. }
      exists d0, t. split; [reflexivity|]. split; [lia|]. split; [|split; [exact Hwft | rewrite zlen_cons; lia]].
      rewrite skipn_app_le by (unfold zlen in Hle; lia). reflexivity.
    + (* beyond the first chunk, which is therefore full *)
      assert (Hfull : zlen d0 = cs /\ t <> []).
      { destruct Hwf as [[-> Hd]|[Hne [Hd _]]]; [cbn [concat] in Hpos; change (zlen (@nil Z)) with 0 in Hpos; lia | auto]. }
      destruct Hfull as [Hd Hne].
      assert (Hpos' : 0 <= pos - cs < zlen (concat t)) by lia.
      destruct (IH (pos - cs) Hwft Hpos') as [d [rest [Hsk [Hoff [Hcat [Hwfr Hcnt]]]]]].
      rewrite Z.quot_div_nonneg in Hsk, Hoff, Hcat, Hcnt by lia.
      assert (Hq : pos / cs = (pos - cs) / cs + 1).
      { replace pos with ((pos - cs) + 1 * cs) at 1 by lia. rewrite Z.div_add by lia. reflexivity. }
      assert (Hq0 : 0 <= (pos - cs) / cs) by (apply Z.div_pos; lia).
      rewrite Hq.
      replace (Z.to_nat ((pos - cs) / cs + 1)) with (S (Z.to_nat ((pos - cs) / cs))) by lia.
      cbn [skipn]. exists d, rest. split; [exact Hsk|].
      replace (pos - ((pos - cs) / cs + 1) * cs) with (pos - cs - (pos - cs) / cs * cs) by lia.
      split; [exact Hoff|]. split; [|split; [exact Hwfr | rewrite zlen_cons; lia]].
      rewrite Hcat. rewrite skipn_app_ge by (unfold zlen in Hd; lia). f_equal. unfold zlen in Hd. lia.
Qed.

Lemma firstn_add_split {A} n m (l : list A) : firstn (n + m) l = firstn n l ++ firstn m (skipn n l).
Proof.
  revert l. induction n as [|n IH]; intro l; [reflexivity|].
  destruct l as [|x l]; simpl; [rewrite firstn_nil; reflexivity|]. f_equal. apply IH.
Qed.

Lemma skipn_add_split {A} n m (l : list A) : skipn (n + m) l = skipn m (skipn n l).
Proof.
  revert l. induction n as [|n IH]; intro l; [reflexivity|].
  destruct l as [|x l]; simpl; [rewrite skipn_nil; reflexivity|]. apply IH.
Qed.

(* ------------------------------------------------------------------ *)
(* Download: the Read loop *)

(* the cursor of a download stream positioned inside a well-formed file:
   `rest` are the payloads of the chunks the cursor has not delivered yet *)
Record RS (f cs D : Z) (d : dstream) (rest : list (list Z)) : Prop := {
  rs_cs : f_cs (d_file d) = cs;
  rs_D : d_chunks d = D;
  rs_cur : exists k, d_cursor d = Some (number_from f (k + 1) rest) /\ d_chunk d = Some k /\
                     k + 1 + zlen rest = D;
  rs_wf : chunks_wf cs rest
}.

Definition copy_step_of (fuel : nat) (d : dstream) (want read : Z) : dstream * rres :=
  let n := Z.min (want - read) (zlen (d_buf d)) in
  let piece := firstn (Z.to_nat n) (d_buf d) in
  let d1 := d_set_pos (d_with d (d_cursor d) (d_chunk d) (skipn (Z.to_nat n) (d_buf d))) (d_pos d + n) in
  rcons piece (read_loop fuel d1 want (read + n)).

Lemma read_loop_unfold fuel d want read :
  read_loop (S fuel) d want read =
    if read <? want then
      match d_buf d with
      | [] =>
          match dnext d with
          | (d1, XOk) => copy_step_of fuel d1 want read
          | (d1, XEOF) => if read =? 0 then (d1, ROk [] (Some EEOF)) else (d1, ROk [] None)
          | (d1, XErr e) => (d1, ROk [] (Some e))
          | (d1, XPanic) => (d1, RPanic)
          end
      | _ => copy_step_of fuel d want read
      end
    else (d, ROk [] None).
Proof. reflexivity. Qed.

Definition buf_weight (d : dstream) : nat := match d_buf d with [] => 0%nat | _ => 1%nat end.

Lemma read_loop_spec f cs D :
  0 < cs ->
  forall fuel d rest want read,
  RS f cs D d rest ->
  0 <= read <= want -> (0 < read \/ d_buf d ++ concat rest <> []) ->
  (1 <= fuel)%nat -> (read < want -> (2 * llen rest + buf_weight d + 2 <= fuel)%nat) ->
  exists d' rest',
    read_loop fuel d want read
      = (d', ROk (firstn (Z.to_nat (want - read)) (d_buf d ++ concat rest)) None) /\
    RS f cs D d' rest' /\
    d_buf d' ++ concat rest' = skipn (Z.to_nat (want - read)) (d_buf d ++ concat rest) /\
    d_pos d' = d_pos d + zlen (firstn (Z.to_nat (want - read)) (d_buf d ++ concat rest)) /\
    d_file d' = d_file d /\ d_closed d' = d_closed d.
Proof.
  intros Hcs. induction fuel as [|fuel IH]; intros d rest want read Hrs Hread Hprog Hf1 Hfuel; [lia|].
  rewrite read_loop_unfold.
  destruct (read <? want) eqn:Elt.
  2:{ (* len(buf) bytes have been read *)
      replace (want - read) with 0 by lia. exists d, rest. simpl firstn. simpl skipn.
      rewrite zlen_nil, Z.add_0_r. repeat split; auto; apply Hrs. }
  specialize (Hfuel ltac:(lia)).
  (* the copy step, for a stream with a non-empty buffer *)
  assert (Hcopy : forall d0 rest0,
            RS f cs D d0 rest0 -> d_buf d0 <> [] -> (2 * llen rest0 + 2 <= fuel)%nat ->
            exists d' rest',
              copy_step_of fuel d0 want read
                = (d', ROk (firstn (Z.to_nat (want - read)) (d_buf d0 ++ concat rest0)) None) /\
              RS f cs D d' rest' /\
              d_buf d' ++ concat rest' = skipn (Z.to_nat (want - read)) (d_buf d0 ++ concat rest0) /\
              d_pos d' = d_pos d0 + zlen (firstn (Z.to_nat (want - read)) (d_buf d0 ++ concat rest0)) /\
              d_file d' = d_file d0 /\ d_closed d' = d_closed d0).
  { intros d0 rest0 Hrs0 Hne Hfuel0. unfold copy_step_of.
    set (n := Z.min (want - read) (zlen (d_buf d0))).
    assert (Hbl : 0 < zlen (d_buf d0)).
    { destruct (d_buf d0); [congruence|]. rewrite zlen_cons. pose proof (zlen_nonneg l). lia. }
    assert (Hn : 1 <= n <= want - read /\ n <= zlen (d_buf d0)) by (subst n; lia).
    set (d1 := d_set_pos (d_with d0 (d_cursor d0) (d_chunk d0) (skipn (Z.to_nat n) (d_buf d0))) (d_pos d0 + n)).
    assert (Hrs1 : RS f cs D d1 rest0) by (destruct Hrs0; constructor; assumption).
    assert (Hw1 : read + n < want -> (2 * llen rest0 + buf_weight d1 + 2 <= fuel)%nat).
    { intro Hlt. assert (Hall : n = zlen (d_buf d0)) by lia.
      unfold buf_weight, d1. cbn. rewrite skipn_all_z by lia. lia. }
    destruct (IH d1 rest0 want (read + n) Hrs1 ltac:(lia) ltac:(left; lia) ltac:(lia) Hw1)
      as [d' [rest' [Hloop [Hrs' [Hcat [Hpos [Hfile Hclosed]]]]]]].
    exists d', rest'. rewrite Hloop. cbn [rcons].
    assert (Hb1 : d_buf d1 = skipn (Z.to_nat n) (d_buf d0)) by reflexivity.
    assert (Hsk : d_buf d1 ++ concat rest0 = skipn (Z.to_nat n) (d_buf d0 ++ concat rest0)).
    { rewrite Hb1, skipn_app_le by (unfold zlen in Hn; lia). reflexivity. }
    assert (Hfn : firstn (Z.to_nat n) (d_buf d0) = firstn (Z.to_nat n) (d_buf d0 ++ concat rest0)).
    { rewrite firstn_app. replace (Z.to_nat n - llen (d_buf d0))%nat with 0%nat by (unfold zlen in Hn; lia).
      simpl. rewrite app_nil_r. reflexivity. }
    assert (Hbytes : firstn (Z.to_nat n) (d_buf d0) ++ firstn (Z.to_nat (want - (read + n))) (d_buf d1 ++ concat rest0)
                     = firstn (Z.to_nat (want - read)) (d_buf d0 ++ concat rest0)).
    { rewrite Hsk, Hfn, <- firstn_add_split. f_equal. lia. }
    rewrite Hbytes. split; [reflexivity|]. split; [exact Hrs'|]. split; [|split; [|split]].
    - rewrite Hcat, Hsk, <- skipn_add_split. f_equal. lia.
    - rewrite Hpos, <- Hbytes, zlen_app. unfold d1. cbn [d_pos d_set_pos].
      rewrite (zlen_firstn (Z.to_nat n) (d_buf d0)). lia.
    - rewrite Hfile. reflexivity.
    - rewrite Hclosed. reflexivity. }
  destruct (d_buf d) as [|b bs] eqn:Ebuf.
  - (* the buffer is empty: next chunk *)
    destruct Hrs as [Hfcs HD [k [Hcur [Hchunk Hcnt]]] Hwf].
    unfold dnext. rewrite Hcur. destruct rest as [|e rest'].
    + (* cursor exhausted: EOF only if nothing has been read *)
      cbn [number_from]. simpl in Hprog.
      assert (Er : (read =? 0) = false) by (destruct Hprog as [H|H]; [lia | congruence]). rewrite Er.
      exists d, []. rewrite Ebuf. simpl. rewrite firstn_nil, skipn_nil, zlen_nil, Z.add_0_r.
      split; [reflexivity|]. split; [constructor; auto; exists k; auto|]. auto.
    + cbn [number_from]. rewrite Hchunk. cbn [c_n c_data].
      rewrite Z.eqb_refl. cbn [negb].
      assert (Esz : ((k + 1 <? d_chunks d - 1) && negb (zlen e =? f_cs (d_file d))) = false).
      { rewrite HD, Hfcs. destruct (k + 1 <? D - 1) eqn:Ek; [|reflexivity].
        rewrite zlen_cons in Hcnt. apply chunks_wf_cons in Hwf.
        destruct Hwf as [[-> _]|[_ [He _]]]; [rewrite zlen_nil in Hcnt; lia|].
        assert (E2 : (zlen e =? cs) = true) by lia. rewrite E2. reflexivity. }
      rewrite Esz.
      set (d1 := d_with d (Some (number_from f (k + 1 + 1) rest')) (Some (k + 1)) e).
      pose proof (Forall_inv (chunks_wf_nonempty cs _ Hcs Hwf)) as He. cbv beta in He.
      assert (Hrs1 : RS f cs D d1 rest').
      { constructor; auto.
        - exists (k + 1). split; [reflexivity|]. split; [reflexivity|]. rewrite zlen_cons in Hcnt. lia.
        - eapply chunks_wf_tail; exact Hwf. }
      assert (Hne1 : d_buf d1 <> []).
      { unfold d1. cbn. intro E. apply (f_equal zlen) in E. rewrite (@zlen_nil Z) in E. lia. }
      destruct (Hcopy d1 rest' Hrs1 Hne1) as [d' [rest'' [Hc [Hrs' [Hcat [Hpos [Hfile Hclosed]]]]]]].
      { unfold buf_weight in Hfuel. rewrite Ebuf in Hfuel. simpl llen in Hfuel. lia. }
      exists d', rest''. rewrite Hc. cbn [concat app]. split; [reflexivity|]. split; [exact Hrs'|].
      split; [exact Hcat|]. split; [exact Hpos|]. split; [exact Hfile | exact Hclosed].
  - (* bytes left in the buffer *)
    cbv iota. rewrite <- Ebuf.
    destruct (Hcopy d rest Hrs ltac:(rewrite Ebuf; discriminate)) as [d' [rest' [Hc H]]].
    { unfold buf_weight in Hfuel. rewrite Ebuf in Hfuel. lia. }
    exists d', rest'. rewrite Hc. split; [reflexivity | exact H].
Qed.

(* ------------------------------------------------------------------ *)
(* Download: a stream over a well-formed file behaves like bytes_reader *)

(* the file f is stored in st as the canonical chunking of content *)
Definition wf_file (st : store) (f cs : Z) (content : list Z) : Prop :=
  0 < cs /\
  find_chunks st f = number_from f 0 (split cs content) /\
  find_file st f = Some (mkFile f (zlen content) cs).

Lemma stored_wf_file c f cs content st : 0 < cs -> Stored c f cs content st -> wf_file st f cs content.
Proof.
  intros Hcs [Hch Hfile _ _]. split; [exact Hcs|]. split.
  - apply find_chunks_number. exact Hch.
  - unfold find_file. eapply find_of_filter. exact Hfile.
Qed.

(* the dynamic part: buffer and cursor hold exactly the content from `pos` on *)
Definition Dyn (f cs : Z) (content : list Z) (d : dstream) (pos : Z) : Prop :=
  exists rest,
    d_buf d ++ concat rest = skipn (Z.to_nat pos) content /\
    ((d_cursor d = None /\ rest = [] /\ d_buf d = []) \/ RS f cs (zlen (split cs content)) d rest).

Record DInv (f cs : Z) (content : list Z) (d : dstream) (pos : Z) : Prop := {
  di_file : d_file d = mkFile f (zlen content) cs;
  di_chunks : d_chunks d = zlen (split cs content);
  di_open : d_closed d = false;
  di_pos : d_pos d = pos;
  di_nonneg : 0 <= pos;
  di_dyn : Dyn f cs content d pos
}.

Lemma dseek_spec st f cs content d position :
  wf_file st f cs content ->
  d_file d = mkFile f (zlen content) cs -> d_chunks d = zlen (split cs content) ->
  0 <= position ->
  exists d', dseek st d position = (d', SOk) /\ Dyn f cs content d' position /\
             d_file d' = d_file d /\ d_chunks d' = d_chunks d /\
             d_closed d' = d_closed d /\ d_pos d' = d_pos d.
Proof.
  intros [Hcs [Hfc Hff]] Hfile Hchunks Hpos. unfold dseek.
  assert (E0 : (position <? 0) = false) by lia. rewrite E0, Hfile. cbn [f_length f_cs f_id].
  destruct (position >=? zlen content) eqn:Eend.
  - (* at or beyond the end: no cursor, empty buffer *)
    eexists. split; [reflexivity|]. split; [|cbn; rewrite Hfile; auto].
    exists []. split; [|left; auto]. cbn. rewrite skipn_all_z by lia. reflexivity.
  - destruct (split_wf cs content Hcs) as [Hcat Hwf].
    destruct (seek_split cs Hcs (split cs content) position Hwf ltac:(rewrite Hcat; lia))
      as [e [rest [Hsk [Hoff [Hdata [Hwfr Hcnt]]]]]].
    rewrite Hfc, number_from_skipn, Hsk. cbn [number_from c_n c_data].
    assert (Hq : 0 <= Z.quot position cs) by (rewrite Z.quot_div_nonneg by lia; apply Z.div_pos; lia).
    rewrite Z2Nat.id, Z.add_0_l, Z.eqb_refl by exact Hq. cbn [negb].
    assert (Esz : ((Z.quot position cs <? d_chunks d - 1) && negb (zlen e =? cs)) = false).
    { rewrite Hchunks. destruct (Z.quot position cs <? zlen (split cs content) - 1) eqn:Ek; [|reflexivity].
      assert (Hne : rest <> []) by (intro; subst rest; rewrite zlen_nil in Hcnt; lia).
      assert (Hwf2 : chunks_wf cs (e :: rest)).
      { rewrite <- Hsk. clear - Hwf. revert Hwf. generalize (split cs content).
        induction (Z.to_nat (Z.quot position cs)) as [|n IH]; intros l Hl; [exact Hl|].
        destruct l as [|x l]; [exact I|]. simpl. apply IH. eapply chunks_wf_tail; exact Hl. }
      apply chunks_wf_cons in Hwf2. destruct Hwf2 as [[-> _]|[_ [He _]]]; [congruence|].
      assert (E2 : (zlen e =? cs) = true) by lia. rewrite E2. reflexivity. }
    rewrite Esz.
    assert (Eoff : (position - Z.quot position cs * cs >? zlen e) = false) by lia. rewrite Eoff.
    eexists. split; [reflexivity|]. split; [|cbn; auto].
    exists rest. cbn [d_buf d_with]. split; [rewrite Hdata, Hcat; reflexivity|].
    right. constructor; cbn; auto.
    + rewrite Hfile. reflexivity.
    + exists (Z.quot position cs). split; [reflexivity|]. split; [reflexivity | exact Hcnt].
Qed.

Lemma dopen_spec st f cs content :
  wf_file st f cs content -> exists d, dopen st f = DOpened d /\ DInv f cs content d 0.
Proof.
  intros Hwf. pose proof Hwf as [Hcs [Hfc Hff]]. unfold dopen. rewrite Hff. cbn [f_cs f_length].
  assert (E : (cs <=? 0) = false) by lia. rewrite E.
  destruct (split_wf cs content Hcs) as [Hcat Hwfs].
  pose proof (chunks_count cs _ Hcs Hwfs) as Hcount. rewrite Hcat in Hcount. rewrite <- Hcount.
  set (d0 := mkD (mkFile f (zlen content) cs) (zlen (split cs content)) 0 None None [] false).
  destruct (dseek_spec st f cs content d0 0 Hwf eq_refl eq_refl ltac:(lia))
    as [d' [Hseek [Hdyn [Hf [Hc [Hcl Hp]]]]]].
  rewrite Hseek. exists d'. split; [reflexivity|]. constructor; auto; lia.
Qed.

(* one Read *)
Lemma dread_equiv f cs content d pos n :
  0 < cs -> DInv f cs content d pos ->
  exists d',
    dread d n = (d', match snd (br_read (mkB content pos) n) with
                     | ORead b e => ROk b e
                     | _ => RPanic
                     end) /\
    DInv f cs content d' (br_pos (fst (br_read (mkB content pos) n))).
Proof.
  intros Hcs [Hfile Hchunks Hopen Hpos Hnn [rest [Hrem Hcur]]].
  unfold dread, br_read. rewrite Hopen, Hfile, Hpos. cbn [f_length br_pos br_data].
  destruct (pos >=? zlen content) eqn:Eend.
  - exists d. split; [reflexivity|]. constructor; auto. exists rest. auto.
  - destruct (Z_lt_ge_dec n 0) as [Hneg|Hn].
    { (* a negative count cannot occur in Go (len(buf)); both sides read nothing *)
      exists d. rewrite read_loop_unfold. assert (E : (0 <? n) = false) by lia. rewrite E.
      replace (Z.to_nat n) with 0%nat by lia. simpl firstn. split; [reflexivity|].
      cbn [fst br_pos]. rewrite zlen_nil, Z.add_0_r. constructor; auto. exists rest. auto. }
    assert (Hne : d_buf d ++ concat rest <> []).
    { rewrite Hrem. intro E. apply (f_equal zlen) in E. rewrite zlen_skipn, zlen_nil in E. lia. }
    destruct Hcur as [[_ [-> Hb]]|Hrs]; [rewrite Hb in Hne; simpl in Hne; congruence|].
    assert (Hcl : cursor_len d = llen rest).
    { destruct Hrs as [_ _ [k [Hc _]] _]. unfold cursor_len. rewrite Hc.
      pose proof (number_from_zlen f (k + 1) rest) as H. unfold zlen in H. lia. }
    destruct (read_loop_spec f cs _ Hcs (S (S (S (2 * cursor_len d)))) d rest n 0 Hrs ltac:(lia)
                ltac:(right; exact Hne) ltac:(lia))
      as [d' [rest' [Hloop [Hrs' [Hcat [Hp [Hf Hc]]]]]]].
    { intros _. rewrite Hcl. unfold buf_weight. destruct (d_buf d); lia. }
    rewrite Z.sub_0_r, Hrem in Hloop, Hcat, Hp.
    exists d'. split; [exact Hloop|]. cbn [fst br_pos].
    constructor.
    + rewrite Hf. exact Hfile.
    + destruct Hrs' as [_ HD _ _]. exact HD.
    + rewrite Hc. exact Hopen.
    + rewrite Hp, Hpos. reflexivity.
    + pose proof (zlen_nonneg (firstn (Z.to_nat n) (skipn (Z.to_nat pos) content))). lia.
    + exists rest'. split; [|right; exact Hrs'].
      rewrite Hcat. set (s := skipn (Z.to_nat pos) content).
      replace (Z.to_nat (pos + zlen (firstn (Z.to_nat n) s)))
        with (Z.to_nat pos + Nat.min (Z.to_nat n) (llen s))%nat
        by (rewrite zlen_firstn; unfold zlen; lia).
      rewrite skipn_add_split. fold s.
      destruct (Nat.le_gt_cases (Z.to_nat n) (llen s)).
      * rewrite Nat.min_l by lia. reflexivity.
      * rewrite Nat.min_r by lia. rewrite skipn_all, skipn_all2 by lia. reflexivity.
Qed.

Definition valid_whence (w : Z) : Prop := w = 0 \/ w = 1 \/ w = 2.

(* DownloadStream.Seek rejects an unknown whence and leaves the stream alone *)
Theorem seek_rejects_unknown_whence st d offset whence :
  d_closed d = false -> ~ valid_whence whence ->
  dseek_whence st d offset whence = (d, PErr EOther).
Proof.
  intros Ho Hw. unfold dseek_whence. rewrite Ho.
  assert (E : ((whence <? 0) || (whence >? 2)) = true) by (unfold valid_whence in Hw; lia).
  rewrite E. reflexivity.
Qed.

(* one Seek, any whence *)
Lemma dseek_equiv st f cs content d pos offset whence :
  wf_file st f cs content -> DInv f cs content d pos ->
  exists d',
    dseek_whence st d offset whence
      = (d', match snd (br_seek (mkB content pos) offset whence) with
             | OPos p => POk p
             | OErr e => PErr e
             | _ => PPanic
             end) /\
    DInv f cs content d' (br_pos (fst (br_seek (mkB content pos) offset whence))).
Proof.
  intros Hwf Hinv. pose proof Hinv as [Hfile Hchunks Hopen Hpos Hnn Hdyn].
  unfold dseek_whence, br_seek. rewrite Hopen, Hfile, Hpos. cbn [f_length br_pos br_data].
  destruct ((whence <? 0) || (whence >? 2)) eqn:Ew.
  { (* unknown whence: an error on both sides, nothing changes *)
    exists d. split; [reflexivity | exact Hinv]. }
  set (position := if whence =? 0 then offset else if whence =? 1 then pos + offset
                   else zlen content + offset).
  destruct (position <? 0) eqn:Eneg.
  - (* negative position: error, nothing changes *)
    unfold dseek. rewrite Eneg. exists d. split; [reflexivity|]. exact Hinv.
  - destruct (dseek_spec st f cs content d position Hwf Hfile Hchunks ltac:(lia))
      as [d' [Hseek [Hdyn' [Hf [Hc [Hcl Hp]]]]]].
    rewrite Hseek. eexists. split; [reflexivity|]. cbn [fst br_pos].
    destruct Hdyn' as [rest [Hrem Hcur]].
    constructor; cbn; try congruence; try lia.
    exists rest. split; [exact Hrem|].
    destruct Hcur as [Hnone|Hrs]; [left; exact Hnone|]. right.
    destruct Hrs as [H1 H2 H3 H4]. constructor; auto.
Qed.

Lemma dstep_equiv st f cs content d pos op :
  wf_file st f cs content -> DInv f cs content d pos ->
  exists d',
    dstep st d op = (d', snd (br_step (mkB content pos) op)) /\
    DInv f cs content d' (br_pos (fst (br_step (mkB content pos) op))) /\
    br_data (fst (br_step (mkB content pos) op)) = content.
Proof.
  intros Hwf Hinv. pose proof Hwf as [Hcs _]. destruct op as [n|o w|n]; cbn [dstep br_step].
  - destruct (dread_equiv f cs content d pos n Hcs Hinv) as [d' [Hr Hinv']].
    exists d'. rewrite Hr. split; [|split; [exact Hinv'|]].
    + unfold br_read. cbn [br_pos br_data]. destruct (pos >=? zlen content); reflexivity.
    + unfold br_read. cbn [br_pos br_data]. destruct (pos >=? zlen content); reflexivity.
  - destruct (dseek_equiv st f cs content d pos o w Hwf Hinv) as [d' [Hr Hinv']].
    exists d'. rewrite Hr. split; [|split; [exact Hinv'|]].
    + unfold br_seek. cbn. destruct ((w <? 0) || (w >? 2)); [reflexivity|].
      match goal with |- context [if ?c <? 0 then _ else _] => destruct (c <? 0) end; reflexivity.
    + unfold br_seek. cbn. destruct ((w <? 0) || (w >? 2)); [reflexivity|].
      match goal with |- context [if ?c <? 0 then _ else _] => destruct (c <? 0) end; reflexivity.
  - unfold dskip.
    destruct (dseek_equiv st f cs content d pos n 1 Hwf Hinv) as [d' [Hr Hinv']].
    exists d'. rewrite Hr. split; [|split; [exact Hinv'|]].
    + unfold br_seek. cbn.
      match goal with |- context [if ?c <? 0 then _ else _] => destruct (c <? 0) end; reflexivity.
    + unfold br_seek. cbn.
      match goal with |- context [if ?c <? 0 then _ else _] => destruct (c <? 0) end; reflexivity.
Qed.

Lemma run_download_equiv st f cs content :
  wf_file st f cs content ->
  forall script d pos,
  DInv f cs content d pos ->
  fst (run_download st d script) = fst (run_reader (mkB content pos) script) /\
  d_pos (snd (run_download st d script)) = br_pos (snd (run_reader (mkB content pos) script)).
Proof.
  intros Hwf. induction script as [|op t IH]; intros d pos Hinv.
  - simpl. split; [reflexivity|]. destruct Hinv; assumption.
  - destruct (dstep_equiv st f cs content d pos op Hwf Hinv) as [d' [Hstep [Hinv' Hdata]]].
    cbn [run_download run_reader]. rewrite Hstep.
    destruct (br_step (mkB content pos) op) as [r1 o] eqn:Ebr. cbn [fst snd] in *.
    assert (Hr1 : r1 = mkB content (br_pos r1)) by (destruct r1; cbn in *; congruence).
    destruct (IH d' (br_pos r1) Hinv') as [H1 H2]. rewrite <- Hr1 in H1, H2.
    destruct (run_download st d' t) as [os d2]. destruct (run_reader r1 t) as [os' r2].
    cbn [fst snd] in *. split; [congruence | exact H2].
Qed.

(* C18, download part: ANY script of Read n / Seek off whence / Skip n (every
   whence, every count) on the download stream of a stored file returns the
   same bytes, positions, errors and EOFs as the same script on an in-memory
   reader of the content, and ends at the same position *)
Theorem download_equiv st f cs content script :
  wf_file st f cs content ->
  exists d, dopen st f = DOpened d /\
            fst (run_download st d script) = fst (run_reader (bytes_reader content) script) /\
            d_pos (snd (run_download st d script)) = br_pos (snd (run_reader (bytes_reader content) script)).
Proof.
  intros Hwf. destruct (dopen_spec st f cs content Hwf) as [d [Hopen Hinv]].
  exists d. split; [exact Hopen|]. apply (run_download_equiv st f cs content Hwf script d 0 Hinv).
Qed.

(* C18, end to end: what was uploaded (any partition, any suspensions) is what
   any download script sees *)
Theorem roundtrip c f cs content uscript st0 u0 dscript :
  open_upload c f cs = Some u0 -> script_ok c uscript -> fresh st0 f -> ids_fresh st0 ->
  exists st d,
    client_upload c st0 f cs content uscript = Some st /\ dopen st f = DOpened d /\
    fst (run_download st d dscript) = fst (run_reader (bytes_reader content) dscript).
Proof.
  intros Hopen Hok Hfresh Hids. destruct (open_ok _ _ _ _ Hopen) as [Hcs _].
  destruct (client_upload_canonical c f cs content uscript st0 u0 Hopen Hok Hfresh Hids) as [st [Hrun [Hst _]]].
  destruct (download_equiv st f cs content dscript (stored_wf_file c f cs content st ltac:(lia) Hst))
    as [d [Hopen' [Hobs _]]].
  exists st, d. auto.
Qed.

(* without any guard: an upload either is refused when the stream is opened
   (bad chunk size, nothing stored) or stores exactly the content *)
Theorem upload_total c f cs parts st0 :
  fresh st0 f -> ids_fresh st0 ->
  (open_upload c f cs = None /\ (cs <= 0 \/ cs > cfg_B c) /\ upload_run c st0 f cs parts = None) \/
  (exists st, upload_run c st0 f cs parts = Some st /\
              stored_as_stated st f cs (concat parts) /\ OtherSame f st0 st).
Proof.
  intros Hfresh Hids. destruct (open_upload c f cs) as [u0|] eqn:Hopen.
  - right. exact (upload_concat c f cs parts st0 u0 Hopen Hfresh Hids).
  - left. split; [reflexivity|]. split.
    + unfold open_upload in Hopen. destruct ((cs <=? 0) || (cs >? cfg_B c)) eqn:E; [lia | discriminate].
    + unfold upload_run. rewrite Hopen. reflexivity.
Qed.

(* ------------------------------------------------------------------ *)
(* What open_upload protects from: the same runs on a stream that was NOT
   obtained through open_upload (the state of lungo before fix ae31d98)      *)

Lemma fresh_empty f : fresh empty_store f.
Proof. repeat split; intros ? []. Qed.

Lemma ids_fresh_empty : ids_fresh empty_store.
Proof. intros ? []. Qed.

(* Write...; Close (; ClaimUpload) on a given stream *)
Definition upload_from (c : cfg) (st0 : store) (u : ustream) (parts : list (list Z)) : option store :=
  match writes c st0 u parts with
  | Some (st, u') => finish c st u'
  | None => None
  end.

(* chunk size 0: upload divides by the chunk size — Close (or the Write that
   fills the buffer) panics *)
Theorem unguarded_zero_chunk_size_panics :
  exists c data,
    open_upload c 1 0 = None /\
    upload_from c empty_store (new_upload 1 0) [data] = None /\
    (let '(st, u, _) := write c empty_store (new_upload 1 0) data in snd (close c st u)) = UPanic.
Proof. exists (mkCfg 16 false), [1; 2; 3]. vm_compute. repeat split; reflexivity. Qed.

(* negative chunk size: make([]interface{}, 0, negative) / slice bounds *)
Theorem unguarded_negative_chunk_size_panics :
  exists c data,
    open_upload c 1 (-1) = None /\
    upload_from c empty_store (new_upload 1 (-1)) [data] = None /\
    (let '(st, u, _) := write c empty_store (new_upload 1 (-1)) data in snd (close c st u)) = UPanic.
Proof. exists (mkCfg 16 true), [1; 2; 3]. vm_compute. repeat split; reflexivity. Qed.

(* ... and with an empty content an untracked Close would store a file record
   that can never be opened for download *)
Theorem unguarded_nonpositive_empty_unreadable :
  exists c st,
    open_upload c 1 (-1) = None /\
    upload_from c empty_store (new_upload 1 (-1)) [] = Some st /\ dopen st 1 = DOpenErr EOther.
Proof.
  exists (mkCfg 16 false). eexists. split; [reflexivity|].
  split; [vm_compute; reflexivity|]. vm_compute. reflexivity.
Qed.

(* chunk size > buffer: once the buffer is full upload(false) frees nothing
   and Write spins forever (the model's fuel runs out: NHang) *)
Theorem unguarded_chunk_size_over_buffer_hangs :
  exists c cs data,
    cs > cfg_B c /\ open_upload c 1 cs = None /\
    snd (write c empty_store (new_upload 1 cs) data) = NHang /\
    upload_from c empty_store (new_upload 1 cs) [data] = None.
Proof. exists (mkCfg 4 false), 5, [1; 2; 3; 4; 5]. vm_compute. repeat split; reflexivity. Qed.

(* the hang is not an artefact of the fuel: with a full buffer and cs > B an
   iteration of the Write loop returns to the same state *)
Theorem write_no_progress c st u :
  cfg_B c < u_cs u -> zlen (u_buf u) = cfg_B c -> 0 < cfg_B c ->
  (cfg_tracked c = true -> u_marker u <> None) ->
  upload c false st u = (st, u, UOk).
Proof.
  intros Hcs Hfull HB Hm. unfold upload.
  assert (E1 : (u_cs u =? 0) = false) by lia. assert (E2 : (u_cs u <? 0) = false) by lia.
  rewrite E1, E2. cbn [andb].
  assert (Hloop : chunk_loop (S (llen (u_buf u))) false (u_cs u) (u_buf u) = Some ([], u_buf u)).
  { cbn [chunk_loop]. assert (E3 : (0 <? zlen (u_buf u)) = true) by lia. rewrite E3.
    assert (E4 : (zlen (u_buf u) >? u_cs u) = false) by lia. rewrite E4.
    assert (E5 : (zlen (u_buf u) <? u_cs u) = true) by lia. rewrite E5. reflexivity. }
  rewrite Hloop.
  assert (Hmk : (is_none (u_marker u) && cfg_tracked c) = false).
  { destruct (cfg_tracked c); [|apply andb_false_r].
    destruct (u_marker u); [reflexivity | exfalso; apply (Hm eq_refl); reflexivity]. }
  rewrite Hmk. cbn [zlen llen]. rewrite Z.sub_diag, !Z.add_0_r.
  destruct st, u; reflexivity.
Qed.

(* ------------------------------------------------------------------ *)
(* Non-vacuity: the hypotheses are satisfiable and the runs compute      *)

Example upload_example :
  let c := mkCfg 4 true in
  fresh empty_store 7 /\ ids_fresh empty_store /\ open_upload c 7 3 = Some (new_upload 7 3) /\
  exists st,
    upload_run c empty_store 7 3 [[1; 2]; [3; 4; 5; 6; 7]; []; [8]] = Some st /\
    find_chunks st 7 = [mkChunk 7 0 [1; 2; 3]; mkChunk 7 1 [4; 5; 6]; mkChunk 7 2 [7; 8]] /\
    find_file st 7 = Some (mkFile 7 8 3).
Proof.
  cbn zeta. split; [apply fresh_empty|]. split; [apply ids_fresh_empty|]. split; [reflexivity|].
  eexists. split; [vm_compute; reflexivity|]. split; vm_compute; reflexivity.
Qed.

Example suspend_resume_example :
  let c := mkCfg 4 true in
  let content := [1; 2; 3; 4; 5; 6; 7; 8] in
  let script := [CSuspendResume; CWrite 2; CSuspendResume; CWrite 5; CSuspendResume; CWrite 1] in
  script_ok c script /\
  exists st,
    client_upload c empty_store 7 3 content script = Some st /\
    find_chunks st 7 = [mkChunk 7 0 [1; 2; 3]; mkChunk 7 1 [4; 5; 6]; mkChunk 7 2 [7; 8]] /\
    find_file st 7 = Some (mkFile 7 8 3).
Proof.
  cbn zeta. split; [left; reflexivity|]. eexists.
  split; [vm_compute; reflexivity|]. split; vm_compute; reflexivity.
Qed.

Example download_example :
  let st := mkStore [mkChunk 7 0 [1; 2; 3]; mkChunk 7 1 [4; 5; 6]; mkChunk 7 2 [7; 8]] [mkFile 7 8 3] [] 0 in
  let script := [DRead 2; DRead 0; DSkip 2; DRead 9; DRead 1; DSeek (-3) 2; DRead 1; DSeek (-9) 2;
                 DSeek 20 0; DRead 0; DSeek 3 0; DSeek 1 3; DRead 4] in
  wf_file st 7 3 [1; 2; 3; 4; 5; 6; 7; 8] /\
  exists d, dopen st 7 = DOpened d /\
    fst (run_download st d script) =
      [ORead [1; 2] None; ORead [] None; OPos 4; ORead [5; 6; 7; 8] None; ORead [] (Some EEOF);
       OPos 5; ORead [6] None; OErr ENeg; OPos 20; ORead [] (Some EEOF); OPos 3; OErr EOther;
       ORead [4; 5; 6; 7] None].
Proof.
  cbn zeta. split; [split; [lia | split; reflexivity]|].
  eexists. split; [vm_compute; reflexivity|]. vm_compute. reflexivity.
Qed.

Example abort_example :
  let c := mkCfg 4 true in
  exists st,
    client_abort c empty_store 7 3 [1; 2; 3; 4; 5; 6; 7; 8] [CWrite 5; CSuspendResume; CWrite 4] = Some st /\
    s_chunks st = [] /\ s_markers st = [] /\ s_files st = [].
Proof.
  cbn zeta. eexists. split; [vm_compute; reflexivity|]. repeat split; reflexivity.
Qed.

Example delete_example :
  exists st st' st'',
    upload_run (mkCfg 4 false) empty_store 7 3 [[1; 2; 3; 4; 5]] = Some st /\
    delete (mkCfg 4 false) st 7 = (st', UOk) /\ s_chunks st' = [] /\
    upload_run (mkCfg 4 true) empty_store 7 3 [[1; 2; 3; 4; 5]] = Some st'' /\
    exists st3, delete_cleanup (mkCfg 4 true) st'' 7 = Some st3 /\
                s_chunks st3 = [] /\ s_files st3 = [] /\ s_markers st3 = [].
Proof.
  do 3 eexists. split; [vm_compute; reflexivity|]. split; [vm_compute; reflexivity|].
  split; [reflexivity|]. split; [vm_compute; reflexivity|].
  eexists. split; [vm_compute; reflexivity|]. repeat split; reflexivity.
Qed.
