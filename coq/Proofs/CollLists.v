(* CollLists.v — list-level facts used by the collection invariant: document
   identities, bsonkit.Set operations (set_replace, set_remove), the
   Find pipeline (find_list returns distinct documents of the collection),
   apply_list, replace_docs, and the index-map helpers (find_index,
   set_index). *)
From Coq Require Import List ZArith Lia Bool Permutation.
From Lungo.Model Require Import Collection.
Import ListNotations.
Open Scope Z_scope.

(* ------------------------------------------------------------------ *)
(* generic *)

Lemma NoDup_snoc {A} (l : list A) a : NoDup l -> ~ In a l -> NoDup (l ++ [a]).
Proof.
  intros H Hn. apply (Permutation_NoDup (Permutation_cons_append l a)).
  constructor; auto.
Qed.

Lemma NoDup_map_filter {A B} (f : A -> B) (p : A -> bool) l :
  NoDup (map f l) -> NoDup (map f (filter p l)).
Proof.
  induction l as [|a l IH]; simpl; intro H; auto.
  inversion H as [|? ? H1 H2]; subst. destruct (p a); simpl; auto.
  constructor; auto. intro Hin. apply H1.
  apply in_map_iff in Hin. destruct Hin as [x [Hx Hi]]. apply filter_In in Hi.
  apply in_map_iff. exists x. tauto.
Qed.

Lemma Forall_filter' {A} (P : A -> Prop) (p : A -> bool) l :
  Forall P l -> Forall P (filter p l).
Proof.
  rewrite !Forall_forall. intros H x Hx. apply filter_In in Hx. apply H. tauto.
Qed.

(* identities determine documents *)
Lemma nodup_ids_unique (l : list sdoc) :
  NoDup (map fst l) -> forall id d1 d2, In (id, d1) l -> In (id, d2) l -> d1 = d2.
Proof.
  induction l as [|[i d] l IH]; simpl; intros H id d1 d2 H1 H2; [contradiction|].
  inversion H as [|? ? Hn Hd]; subst.
  destruct H1 as [E1|H1], H2 as [E2|H2].
  - congruence.
  - inversion E1; subst. exfalso. apply Hn. apply (in_map fst) in H2. exact H2.
  - inversion E2; subst. exfalso. apply Hn. apply (in_map fst) in H1. exact H1.
  - eapply IH; eauto.
Qed.

Lemma nodup_ids_eq (l : list sdoc) x y :
  NoDup (map fst l) -> In x l -> In y l -> fst x = fst y -> x = y.
Proof.
  destruct x as [i d1], y as [j d2]. simpl. intros H H1 H2 <-.
  f_equal. exact (nodup_ids_unique l H i d1 d2 H1 H2).
Qed.

(* ------------------------------------------------------------------ *)
(* consecutive identities *)

Fixpoint zseq (s : Z) (n : nat) : list Z :=
  match n with
  | O => []
  | S n' => s :: zseq (s + 1) n'
  end.

Lemma zseq_in s n x : In x (zseq s n) -> s <= x < s + Z.of_nat n.
Proof.
  revert s. induction n as [|n IH]; simpl; intros s H; [contradiction|].
  destruct H as [<-|H]; [lia|]. apply IH in H. lia.
Qed.

Lemma zseq_nodup s n : NoDup (zseq s n).
Proof.
  revert s. induction n as [|n IH]; simpl; intro s; constructor; auto.
  intro H. apply zseq_in in H. lia.
Qed.

Lemma zseq_length s n : List.length (zseq s n) = n.
Proof. revert s. induction n; simpl; auto. Qed.

(* ------------------------------------------------------------------ *)
(* bsonkit.Set *)

Lemma set_has_false l i : set_has l i = false <-> ~ In i (map fst l).
Proof.
  unfold set_has. split.
  - intros H Hin. apply in_map_iff in Hin. destruct Hin as [x [Hx Hi]].
    assert (existsb (fun sd => fst sd =? i) l = true).
    { apply existsb_exists. exists x. split; auto. apply Z.eqb_eq; auto. }
    congruence.
  - intro H. destruct (existsb (fun sd => fst sd =? i) l) eqn:E; auto.
    apply existsb_exists in E. destruct E as [x [Hx Hi]]. apply Z.eqb_eq in Hi.
    exfalso. apply H. apply in_map_iff. eauto.
Qed.

Lemma set_replace_in l oid new x :
  In x (set_replace l oid new) <->
  (In x l /\ fst x <> oid) \/ (x = new /\ In oid (map fst l)).
Proof.
  unfold set_replace. induction l as [|a l IH]; simpl.
  - tauto.
  - rewrite IH. clear IH.
    match goal with |- context [if ?c then _ else _] => destruct c eqn:E end.
    + apply Z.eqb_eq in E. intuition (subst; auto; try congruence; try (exfalso; auto; fail)).
    + apply Z.eqb_neq in E. intuition (subst; auto; try congruence; try (exfalso; auto; fail)).
Qed.

Lemma set_replace_ids l oid new :
  map fst (set_replace l oid new) =
  map (fun i => if i =? oid then fst new else i) (map fst l).
Proof.
  unfold set_replace. unfold sdoc, did in *. induction l as [|a l IH]; simpl; auto.
  rewrite IH. destruct (fst a =? oid); reflexivity.
Qed.

Lemma nodup_subst_id (l : list Z) oid n :
  NoDup l -> ~ In n l -> NoDup (map (fun i => if i =? oid then n else i) l).
Proof.
  induction l as [|a l IH]; simpl; intros H Hn; [constructor|].
  inversion H as [|? ? H1 H2]; subst. constructor; [|apply IH; tauto].
  intro Hin. apply in_map_iff in Hin. destruct Hin as [b [Hb Hi]]. revert Hb.
  destruct (Z.eqb_spec a oid) as [Ea|Ea], (Z.eqb_spec b oid) as [Eb|Eb]; intro Hb; subst.
  - auto.
  - apply Hn. auto.
  - apply Hn. auto.
  - auto.
Qed.

Lemma set_replace_nodup l oid new :
  NoDup (map fst l) -> ~ In (fst new) (map fst l) ->
  NoDup (map fst (set_replace l oid new)).
Proof. intros H Hn. rewrite set_replace_ids. apply nodup_subst_id; auto. Qed.

(* with distinct identities: exactly the old document is replaced *)
Lemma set_replace_in_nodup l old new x :
  NoDup (map fst l) -> In old l ->
  (In x (set_replace l (fst old) new) <-> (In x l /\ x <> old) \/ x = new).
Proof.
  intros H Ho. rewrite set_replace_in. split.
  - intros [[Hx Hn]|[Hx _]]; auto. left. split; auto. intros ->. auto.
  - intros [[Hx Hn]|Hx].
    + left. split; auto. intro He. apply Hn. apply (nodup_ids_eq l); auto.
    + right. split; auto. apply in_map. exact Ho.
Qed.

Lemma fold_set_remove matched l :
  fold_left (fun docs (sd : sdoc) => set_remove docs (fst sd)) matched l =
  filter (fun sd => negb (existsb (fun m : sdoc => fst m =? fst sd) matched)) l.
Proof.
  revert l. induction matched as [|m matched IH]; intro l; simpl.
  - induction l as [|a l IHl]; simpl; auto. f_equal. exact IHl.
  - rewrite IH. unfold set_remove. clear IH. unfold sdoc, did in *.
    induction l as [|a l IHl]; simpl; auto.
    rewrite (Z.eqb_sym (fst m) (fst a)).
    destruct (fst a =? fst m); simpl; rewrite IHl; reflexivity.
Qed.

Lemma removed_in matched l x :
  NoDup (map fst l) -> incl matched l ->
  (In x (filter (fun sd => negb (existsb (fun m : sdoc => fst m =? fst sd) matched)) l) <->
   In x l /\ ~ In x matched).
Proof.
  intros H Hi. rewrite filter_In, negb_true_iff. split.
  - intros [Hx He]. split; auto. intro Hm.
    assert (existsb (fun m : sdoc => fst m =? fst x) matched = true).
    { apply existsb_exists. exists x. split; auto. apply Z.eqb_refl. }
    congruence.
  - intros [Hx Hn]. split; auto.
    destruct (existsb (fun m : sdoc => fst m =? fst x) matched) eqn:E; auto.
    apply existsb_exists in E. destruct E as [m [Hm Hf]]. apply Z.eqb_eq in Hf.
    exfalso. apply Hn. rewrite <- (nodup_ids_eq l m x H (Hi _ Hm) Hx Hf). exact Hm.
Qed.

(* ------------------------------------------------------------------ *)
(* sublists of a list with distinct identities *)

Definition subl (l' l : list sdoc) : Prop :=
  incl l' l /\ (NoDup (map fst l) -> NoDup (map fst l')).

Lemma subl_refl l : subl l l.
Proof. split; auto. apply incl_refl. Qed.

Lemma subl_trans a b c : subl a b -> subl b c -> subl a c.
Proof. intros [H1 H2] [H3 H4]. split; auto. eapply incl_tran; eauto. Qed.

Lemma subl_tl r x t : subl r t -> subl r (x :: t).
Proof.
  intros [H1 H2]. split.
  - apply incl_tl. exact H1.
  - simpl. intro H. inversion H; auto.
Qed.

Lemma subl_cons x r t : subl r t -> subl (x :: r) (x :: t).
Proof.
  intros [H1 H2]. split.
  - intros y [<-|Hy]; [left; auto|right; auto].
  - simpl. intro H. inversion H as [|? ? Hn Hd]; subst. constructor; auto.
    intro Hin. apply Hn. apply in_map_iff in Hin. destruct Hin as [y [Hy Hi]].
    apply in_map_iff. exists y. auto.
Qed.

Lemma subl_perm l l' : Permutation l l' -> subl l' l.
Proof.
  intro H. split.
  - intros x Hx. apply (Permutation_in x (Permutation_sym H)). exact Hx.
  - intro Hn. apply (Permutation_NoDup (Permutation_map fst H)). exact Hn.
Qed.

Lemma insert_sorted_perm {A} (cmp : A -> A -> comparison) x l :
  Permutation (insert_sorted cmp x l) (x :: l).
Proof.
  induction l as [|y t IH]; simpl; auto.
  destruct (cmp y x); auto.
  eapply perm_trans; [apply perm_skip; exact IH|apply perm_swap].
Qed.

Lemma stable_sort_perm {A} (cmp : A -> A -> comparison) l :
  Permutation (stable_sort cmp l) l.
Proof.
  induction l as [|x l IH]; simpl; auto.
  eapply perm_trans; [apply insert_sorted_perm|]. apply perm_skip. exact IH.
Qed.

Lemma select_go_subl (sel : sdoc -> res bool) l limit have r :
  select_go sel l limit have = Ok r -> subl r l.
Proof.
  revert have r. induction l as [|x t IH]; simpl; intros have r H.
  - inversion H; subst. apply subl_refl.
  - destruct (sel x) as [[|]| | | |]; try discriminate.
    + destruct ((0 <? limit) && (limit <=? have + 1)).
      * inversion H; subst. apply subl_cons. split.
        -- intros y [].
        -- intros _. constructor.
      * destruct (select_go sel t limit (have + 1)) as [rest| | | |] eqn:E;
          cbn [bind] in H; try discriminate.
        inversion H; subst. apply subl_cons. eapply IH; eauto.
    + apply subl_tl. eapply IH; eauto.
Qed.

Lemma drop_subl n (l : list sdoc) : subl (drop n l) l.
Proof.
  revert n. induction l as [|x t IH]; intro n; simpl.
  - apply subl_refl.
  - destruct (n <=? 0); [apply subl_refl|]. apply subl_tl. apply IH.
Qed.

Section Find.
  Variable matchf : doc -> doc -> res bool.

  Lemma find_list_subl l query sort skip limit r :
    find_list matchf l query sort skip limit = Ok r -> subl r l.
  Proof.
    unfold find_list. cbv zeta. intro H. destruct (skip <? 0); [discriminate|].
    match type of H with bind ?X _ = _ => destruct X as [sorted| | | |] eqn:Hs end;
      cbn [bind] in H; try discriminate.
    assert (Hp : Permutation l sorted).
    { destruct sort as [[|p s]|]; try (inversion Hs; subst; apply Permutation_refl).
      destruct (columns (p :: s)); cbn [bind] in Hs; try discriminate.
      inversion Hs; subst. apply Permutation_sym. apply stable_sort_perm. }
    match type of H with bind ?X _ = _ => destruct X as [sel| | | |] eqn:Hsel end;
      cbn [bind] in H; try discriminate.
    inversion H; subst.
    eapply subl_trans; [apply drop_subl|].
    eapply subl_trans; [|apply subl_perm; exact Hp].
    unfold select in Hsel. eapply select_go_subl; eauto.
  Qed.

  Lemma find_list_in l query sort skip limit r :
    find_list matchf l query sort skip limit = Ok r -> incl r l.
  Proof. intro H. apply find_list_subl in H. destruct H; auto. Qed.

  Lemma find_list_nodup l query sort skip limit r :
    find_list matchf l query sort skip limit = Ok r ->
    NoDup (map fst l) -> NoDup (map fst r) /\ NoDup r.
  Proof.
    intros H Hn. apply find_list_subl in H. destruct H as [_ H]. split; auto.
    eapply NoDup_map_inv; eauto.
  Qed.
End Find.

(* ------------------------------------------------------------------ *)
(* Update: apply_list and replace_docs *)

Section Apply.
  Variable applyf : doc -> doc -> doc -> bool -> list doc -> Z -> res (doc * list (string * value)).

  Lemma apply_list_ids l fresh query update afs now newl chs :
    apply_list applyf l fresh query update afs now = Ok (newl, chs) ->
    map fst newl = zseq fresh (List.length l).
  Proof.
    revert fresh newl chs. induction l as [|sd t IH]; intros fresh newl chs H; simpl in H.
    - inversion H; subst. reflexivity.
    - destruct (applyf (snd sd) query update false afs now) as [r| | | |];
        cbn [bind] in H; try discriminate.
      destruct (apply_list applyf t (fresh + 1) query update afs now) as [[nl cs]| | | |] eqn:E;
        cbn [bind] in H; try discriminate.
      inversion H; subst. simpl. f_equal. eapply IH; eauto.
  Qed.
End Apply.

Lemma replace_docs_spec docs matched newl :
  NoDup (map fst docs) -> incl matched docs -> NoDup (map fst matched) ->
  List.length matched = List.length newl ->
  (forall n, In n newl -> ~ In (fst n) (map fst docs)) -> NoDup (map fst newl) ->
  NoDup (map fst (replace_docs docs matched newl)) /\
  (forall x, In x (replace_docs docs matched newl) <->
             (In x docs /\ ~ In x matched) \/ In x newl).
Proof.
  revert docs newl. induction matched as [|o matched IH]; intros docs newl Hd Hi Hm Hl Hf Hn.
  - destruct newl; [|discriminate]. simpl. split; auto. intro x. tauto.
  - destruct newl as [|n newl]; [discriminate|]. simpl in Hl. injection Hl as Hl.
    cbn [replace_docs].
    simpl in Hm, Hn. inversion Hm as [|? ? Hm1 Hm2]; subst. inversion Hn as [|? ? Hn1 Hn2]; subst.
    assert (Ho : In o docs) by (apply Hi; left; auto).
    assert (Hfn : ~ In (fst n) (map fst docs)) by (apply Hf; left; auto).
    destruct (IH (set_replace docs (fst o) n) newl) as [R1 R2]; auto.
    + apply set_replace_nodup; auto.
    + intros m Hmm. apply (set_replace_in_nodup docs o n m Hd Ho). left. split.
      * apply Hi. right. exact Hmm.
      * intros ->. apply Hm1. apply in_map. exact Hmm.
    + intros n' Hn' Hin. apply in_map_iff in Hin. destruct Hin as [x [Hx Hin]].
      apply (set_replace_in_nodup docs o n x Hd Ho) in Hin. destruct Hin as [[Hin _]| ->].
      * apply (Hf n'); [right; auto|]. rewrite <- Hx. apply in_map. exact Hin.
      * apply Hn1. rewrite Hx. apply in_map. exact Hn'.
    + split; auto. intro x. rewrite R2, (set_replace_in_nodup docs o n x Hd Ho). simpl. split.
      * intros [[[[Hx Hne] | ->] Hnm]|Hx]; auto.
        left. split; auto. intros [<-|Hx']; auto.
      * intros [[Hx Hnm]|[<-|Hx]]; auto.
        -- left. split; [left; split; auto|]; intro; apply Hnm; auto.
        -- left. split; auto. intro Hnm. apply Hfn. apply in_map. apply Hi. right. exact Hnm.
Qed.

(* ------------------------------------------------------------------ *)
(* the index map *)

Lemma find_index_in ixs n ix : find_index ixs n = Some ix -> In (n, ix) ixs.
Proof.
  induction ixs as [|[m jx] t IH]; simpl; intro H; [discriminate|].
  destruct (String.eqb m n) eqn:E.
  - apply String.eqb_eq in E. inversion H; subst. left; auto.
  - right; auto.
Qed.

Lemma find_index_none ixs n : find_index ixs n = None <-> ~ In n (map fst ixs).
Proof.
  induction ixs as [|[m jx] t IH]; simpl.
  - split; auto.
  - destruct (String.eqb m n) eqn:E.
    + apply String.eqb_eq in E. split; [discriminate|]. intro H. exfalso. apply H. auto.
    + apply String.eqb_neq in E. rewrite IH. tauto.
Qed.

Lemma find_index_nodup ixs n ix :
  NoDup (map fst ixs) -> In (n, ix) ixs -> find_index ixs n = Some ix.
Proof.
  induction ixs as [|[m jx] t IH]; simpl; intros H Hin; [contradiction|].
  inversion H as [|? ? H1 H2]; subst. destruct Hin as [Heq|Hin].
  - inversion Heq; subst. rewrite String.eqb_refl. reflexivity.
  - destruct (String.eqb m n) eqn:E; auto.
    apply String.eqb_eq in E. subst. exfalso. apply H1.
    apply (in_map fst) in Hin. exact Hin.
Qed.

Lemma set_index_none ixs n ix :
  find_index ixs n = None -> set_index ixs n ix = (ixs ++ [(n, ix)])%list.
Proof.
  induction ixs as [|[m jx] t IH]; simpl; intro H; auto.
  destruct (String.eqb m n); [discriminate|]. rewrite IH; auto.
Qed.

Lemma find_index_app_some ixs l n ix :
  find_index ixs n = Some ix -> find_index (ixs ++ l)%list n = Some ix.
Proof.
  induction ixs as [|[m jx] t IH]; simpl; intro H; [discriminate|].
  destruct (String.eqb m n); auto.
Qed.

Lemma find_index_filter_other ixs name n :
  name <> n ->
  find_index (filter (fun ni : string * index => negb (String.eqb (fst ni) name)) ixs) n =
  find_index ixs n.
Proof.
  intro Hne. induction ixs as [|[m jx] t IH]; simpl; auto.
  destruct (String.eqb m name) eqn:E; simpl.
  - apply String.eqb_eq in E. subst.
    destruct (String.eqb name n) eqn:E2; auto.
    apply String.eqb_eq in E2. congruence.
  - rewrite IH. reflexivity.
Qed.

Lemma find_index_filter_same ixs n :
  find_index (filter (fun ni : string * index => String.eqb (fst ni) n) ixs) n =
  find_index ixs n.
Proof.
  induction ixs as [|[m jx] t IH]; simpl; auto.
  destruct (String.eqb m n) eqn:E; simpl.
  - rewrite E. reflexivity.
  - exact IH.
Qed.

Print Assumptions find_list_subl.
Print Assumptions replace_docs_spec.
Print Assumptions apply_list_ids.
