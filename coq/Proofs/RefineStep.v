(* RefineStep.v — C01: the implementation model of the driver API
   (Model/Driver.v: step) refines the sequential reference model
   (Spec/SpecDb.v: s_step), call by call and over whole histories, for ANY
   operator semantics (matchf, applyf, extractf, projectf, now).

   abs forgets document identities, index entries, the oplog and sessions;
   it keeps, per user namespace (in catalog order), the documents in natural
   order and the index definitions in creation order, and the ObjectID
   counter. *)
From Coq Require Import List ZArith Lia Bool.
From Lungo.Model Require Import Driver RunSpec.
From Lungo.Spec Require Import SpecDb.
From Lungo.Proofs Require Import IndexInv CollLists CollInv CollDup TxnProofs
  RefineLists RefineColl RefineTxn.
Import ListNotations.
Open Scope Z_scope.

(* the calls of the statement: issued without a session context (sid = 0),
   no session life-cycle / maintenance call; reads and ListIndexes do not
   target the system collection local.oplog, which the reference model does
   not have; bulk-write items are the ones the driver API builds (no sort, no
   skip: `driver_op`) *)
Definition no_session_call (c : call) : Prop :=
  match c with
  | CInsertOne sid _ _ | CInsertMany sid _ _ _
  | CUpdate sid _ _ _ _ _ _ | CReplace sid _ _ _ _ | CDelete sid _ _ _
  | CFindOneAndUpdate sid _ _ _ _ _ _ _ _ | CFindOneAndReplace sid _ _ _ _ _ _ _
  | CFindOneAndDelete sid _ _ _ _
  | CCreateIndex sid _ _ _ _ _ _ | CDropIndex sid _ _ | CDropAllIndexes sid _
  | CDropColl sid _ | CDropDb sid _ => sid = 0
  | CFind sid h _ _ _ _ _ | CFindOne sid h _ _ _ _ | CCount sid h _ _ _
  | CDistinct sid h _ _ | CListIndexes sid h => sid = 0 /\ user_ns h = true
  | CBulk sid _ ops _ => sid = 0 /\ Forall driver_op ops
  | CStart _ | CCommit _ | CAbort _ | CEnd _ | CTrim _ | CExpire _ => False
  end.

Lemma mapM_map {A B C} (f : B -> res C) (g : A -> B) l :
  mapM f (map g l) = mapM (fun x => f (g x)) l.
Proof. induction l as [|x t IH]; simpl; auto. rewrite IH. reflexivity. Qed.

Lemma len_map {A B} (g : A -> B) l : len (map g l) = len l.
Proof. unfold len. rewrite map_length. reflexivity. Qed.

Section RefineStep.
  Set Default Proof Using "Type".
  Variable matchf : doc -> doc -> res bool.
  Variable applyf : doc -> doc -> doc -> bool -> list doc -> Z -> res (doc * list (string * value)).
  Variable extractf : doc -> res doc.
  Variable projectf : doc -> doc -> res doc.
  Variable now : Z.

  Local Notation step := (Driver.step matchf applyf extractf projectf now).
  Local Notation run := (Driver.run matchf applyf extractf projectf now).
  Local Notation s_step := (SpecDb.s_step matchf applyf extractf projectf now).
  Local Notation ns_ok := (RefineTxn.ns_ok matchf).

  (* the reference model run over a history *)
  Fixpoint s_run (s : sstate) (cs : list call) : sstate * list reply :=
    match cs with
    | [] => (s, [])
    | c :: t =>
        let '(s1, r) := s_step s c in
        let '(s2, rs) := s_run s1 t in
        (s2, r :: rs)
    end.

  (* ---------------------------------------------------------------- *)
  (* abstraction and simulation relation *)

  Definition abs (ds : dstate) : sstate :=
    mkS (abs_ns (cat_ns (ds_cat ds))) (g_oid (ds_gen ds)).

  (* every user namespace satisfies the collection invariant, has its _id
     index, and only uses identities below the generator; no session holds an
     open transaction *)
  Definition inv (ds : dstate) : Prop :=
    ns_ok (g_did (ds_gen ds)) (cat_ns (ds_cat ds)) /\ token_held ds = false.

  Definition R (ds : dstate) (s : sstate) : Prop := abs ds = s /\ inv ds.

  Definition agree (o1 : dstate * reply) (o2 : sstate * reply) : Prop :=
    snd o1 = snd o2 /\ R (fst o1) (fst o2).

  Lemma R_init : R d_init s_init.
  Proof.
    split; [reflexivity|]. split; [|reflexivity].
    constructor; [|constructor]. cbn [fst]. rewrite oplog_not_user. discriminate.
  Qed.

  Lemma abs_is_abs_cat ds : abs ds = abs_cat (ds_cat ds) (ds_gen ds).
  Proof. reflexivity. Qed.

  Lemma mk_R c g ds s :
    abs_ns (cat_ns c) = ss_colls s -> g_oid g = ss_oid s ->
    ns_ok (g_did g) (cat_ns c) -> token_held ds = false ->
    R (mkD c g (ds_sessions ds)) s.
  Proof.
    intros H1 H2 H3 H4. split; [|split; auto].
    unfold abs. cbn [ds_cat ds_gen]. destruct s as [l o]. cbn [ss_colls ss_oid] in *.
    subst. reflexivity.
  Qed.

  Lemma R_self ds : inv ds -> R ds (abs ds).
  Proof. intro H. split; auto. Qed.

  (* ---------------------------------------------------------------- *)
  (* useTransaction without a session context *)

  Lemma use_write_0 {A} ds (fn : catalog -> gen -> catalog * gen * (A + ekind)) :
    token_held ds = false ->
    use_write ds 0 fn =
    (let '(c', g', r) := fn (ds_cat ds) (ds_gen ds) in
     match r with
     | inl _ => (mkD c' g' (ds_sessions ds), r)
     | inr _ => (mkD (ds_cat ds) g' (ds_sessions ds), r)
     end).
  Proof.
    intro H. unfold use_write. change (routed ds 0) with (@None catalog). rewrite H. reflexivity.
  Qed.

  Lemma use_direct_0 {A} ds (fn : catalog -> gen -> catalog * gen * (A + ekind)) :
    token_held ds = false ->
    use_direct ds 0 fn =
    (let '(c', g', r) := fn (ds_cat ds) (ds_gen ds) in
     match r with
     | inl _ => (mkD c' g' (ds_sessions ds), r)
     | inr _ => (mkD (ds_cat ds) g' (ds_sessions ds), r)
     end).
  Proof.
    intro H. unfold use_direct. change (routed ds 0) with (@None catalog). rewrite H. reflexivity.
  Qed.

  (* ---------------------------------------------------------------- *)
  (* result shaping *)

  Lemma upd_reply_rel tr sr : tres_rel tr sr -> upd_reply tr = s_upd_reply sr.
  Proof.
    intros [H1 [H2 H3]]. unfold upd_reply, s_upd_reply. rewrite <- H3.
    destruct (t_upserted tr) as [sd|]; cbn [option_map]; [reflexivity|].
    rewrite <- H1, <- H2, !len_map. reflexivity.
  Qed.

  Lemma pick_rel tr sr after : tres_rel tr sr -> pick_doc tr after = s_pick sr after.
  Proof.
    intros [H1 [H2 H3]]. unfold pick_doc, s_pick. rewrite <- H3, <- H1, <- H2.
    destruct (t_upserted tr) as [sd|]; cbn [option_map]; [reflexivity|].
    destruct (t_matched tr) as [|m ms]; cbn [map]; [reflexivity|].
    destruct after; [|reflexivity].
    destruct (t_modified tr) as [|n ns]; reflexivity.
  Qed.

  Lemma pick_del_rel tr sr :
    del_rel tr sr ->
    pick_doc tr false = match sr_matched sr with m :: _ => Some m | [] => None end.
  Proof.
    intros [H1 H2]. unfold pick_doc. rewrite H2, <- H1.
    destruct (t_matched tr) as [|m ms]; reflexivity.
  Qed.

  Lemma reply_doc_spec proj d : reply_doc projectf proj d = s_reply_doc projectf proj d.
  Proof. reflexivity. Qed.

  Lemma reply_doc_cases proj d :
    (exists x, reply_doc projectf proj d = RDoc x) \/ (exists e, reply_doc projectf proj d = RErr e).
  Proof.
    unfold reply_doc. destruct d as [dd|]; [|left; eauto].
    destruct (project_opt projectf proj dd); eauto.
  Qed.

  (* ---------------------------------------------------------------- *)
  (* generic: a write through use_write *)

  Lemma write_generic {A B} (RR : A -> B -> Prop) ds
        (F : catalog -> gen -> catalog * gen * (A + ekind)) (y : sstate * (B + ekind))
        (rep1 : A -> reply) (rep2 : B -> reply) :
    inv ds ->
    txn_rel matchf RR (ds_gen ds) (F (ds_cat ds) (ds_gen ds)) y ->
    (forall c' g' e, F (ds_cat ds) (ds_gen ds) = (c', g', inr e) -> c' = ds_cat ds) ->
    (forall a b, RR a b -> rep1 a = rep2 b) ->
    agree (let '(ds', r) := use_write ds 0 F in
           (ds', match r with inr e => RErr e | inl tr => rep1 tr end))
          (let '(s', r) := y in
           (s', match r with inr e => RErr e | inl sr => rep2 sr end)).
  Proof.
    intros [Hok Htok] Hrel Hnoop Hrep. rewrite (use_write_0 ds F Htok).
    destruct (F (ds_cat ds) (ds_gen ds)) as [[c' g'] r] eqn:HF. destruct y as [s' r'].
    destruct Hrel as [Ha [Ho [Hr [Hk Hd]]]].
    destruct r as [a|e], r' as [b|e']; cbn [sum_rel] in Hr; try contradiction.
    - split; cbn [fst snd]; [apply Hrep; exact Hr|]. apply mk_R; auto.
    - subst e'. split; cbn [fst snd]; [reflexivity|].
      rewrite (Hnoop c' g' e eq_refl) in Ha, Hk. apply mk_R; auto.
  Qed.

  (* generic: find-one-and-modify (projection inside the transaction) *)
  Lemma fam_generic {B} (RR : tresult -> B -> Prop) ds
        (F : catalog -> gen -> catalog * gen * (tresult + ekind)) (y : sstate * (B + ekind))
        proj after (pickS : B -> option doc) :
    inv ds ->
    txn_rel matchf RR (ds_gen ds) (F (ds_cat ds) (ds_gen ds)) y ->
    (forall c' g' e, F (ds_cat ds) (ds_gen ds) = (c', g', inr e) -> c' = ds_cat ds) ->
    (forall tr sr, RR tr sr -> pick_doc tr after = pickS sr) ->
    agree (let '(ds', r) := use_write ds 0 (fun cat g => project_in_txn projectf proj after cat (F cat g)) in
           (ds', match r with inr e => RErr e | inl rp => rp end))
          (let '(s', r) := y in
           match r with
           | inr e => (s', RErr e)
           | inl sr => match s_reply_doc projectf proj (pickS sr) with
                       | RErr e => (mkS (ss_colls (abs ds)) (ss_oid s'), RErr e)
                       | rp => (s', rp)
                       end
           end).
  Proof.
    intros [Hok Htok] Hrel Hnoop Hpick.
    rewrite (use_write_0 ds _ Htok). cbv beta.
    destruct (F (ds_cat ds) (ds_gen ds)) as [[c' g'] r] eqn:HF. destruct y as [s' r'].
    destruct Hrel as [Ha [Ho [Hr [Hk Hd]]]].
    destruct r as [tr|e], r' as [sr|e']; cbn [sum_rel] in Hr; try contradiction.
    - cbn [project_in_txn]. rewrite <- (Hpick tr sr Hr).
      change (s_reply_doc projectf proj (pick_doc tr after))
        with (reply_doc projectf proj (pick_doc tr after)).
      destruct (reply_doc_cases proj (pick_doc tr after)) as [[x Hx]|[e He]]; rewrite ?Hx, ?He.
      + split; cbn [fst snd]; [reflexivity|]. apply mk_R; auto.
      + split; cbn [fst snd]; [reflexivity|]. apply mk_R; auto.
        eapply ns_ok_mono; eauto.
    - subst e'. cbn [project_in_txn]. split; cbn [fst snd]; [reflexivity|].
      rewrite (Hnoop c' g' e eq_refl) in Ha, Hk. apply mk_R; auto.
  Qed.

  (* generic: index management and drops through use_direct *)
  Lemma direct_state ds c' g' s' :
    token_held ds = false ->
    abs_ns (cat_ns c') = ss_colls s' -> g_oid g' = ss_oid s' -> ns_ok (g_did g') (cat_ns c') ->
    R (mkD c' g' (ds_sessions ds)) s'.
  Proof. intros. apply mk_R; auto. Qed.

  Lemma bulk_reply_rel ops : forall rs rs' i acc,
    Forall2 (sum_rel tres_rel) rs rs' ->
    bulk_reply ops rs i acc = s_bulk_reply ops rs' i acc.
  Proof.
    induction ops as [|op t IH]; intros rs rs' i acc H; [reflexivity|].
    destruct H as [|r r' rs rs' Hr Hrs]; [reflexivity|].
    destruct acc; try reflexivity. cbn [bulk_reply s_bulk_reply].
    destruct r as [tr|e], r' as [sr|e']; cbn [sum_rel] in Hr; try contradiction.
    - destruct Hr as [H1 [H2 H3]].
      assert (L1 : len (t_matched tr) = len (sr_matched sr)) by (rewrite <- H1; symmetry; apply len_map).
      assert (L2 : len (t_modified tr) = len (sr_modified sr)) by (rewrite <- H2; symmetry; apply len_map).
      destruct op; rewrite ?L1, ?L2; try (apply IH; exact Hrs);
        rewrite <- H3; destruct (t_upserted tr) as [sd|]; cbn [option_map]; apply IH; exact Hrs.
    - subst e'. apply IH. exact Hrs.
  Qed.

  (* ---------------------------------------------------------------- *)
  (* one call *)

  Lemma single_mod (l : list sdoc) x : map snd l = [x] -> exists sd, l = [sd] /\ snd sd = x.
  Proof.
    destruct l as [|sd [|sd2 t]]; try discriminate. cbn [map]. intro H. inversion H. eauto.
  Qed.

  Theorem step_agree ds c :
    inv ds -> no_session_call c -> agree (step ds c) (s_step (abs ds) c).
  Proof.
    intros Hinv Hc. pose proof Hinv as [Hok Htok].
    destruct c; cbn [no_session_call] in Hc; try contradiction;
      try (match type of Hc with _ /\ _ => destruct Hc as [Hc Hu] end);
      subst sid; cbn [Driver.step SpecDb.s_step].
    - (* insertOne *)
      rewrite (use_write_0 ds _ Htok). cbv beta.
      pose proof (txn_insert_refines matchf (ds_cat ds) (ds_gen ds) h [d] true Hok) as H.
      destruct (txn_insert matchf (ds_cat ds) (ds_gen ds) h [d] true) as [[c' g'] r].
      change (abs_cat (ds_cat ds) (ds_gen ds)) with (abs ds) in H. destruct (s_valid h); cbn [negb].
      + cbn [s_insert_many] in H.
        destruct (s_insert1 matchf (abs ds) h d) as [s1 [x|e]].
        * destruct H as [Ha [Ho [Hk [Hd [tr [-> [Hm He]]]]]]].
          destruct (single_mod _ _ Hm) as [sd [Hsd Hx]].
          split; cbn [fst snd]; [|apply mk_R; auto].
          rewrite He, Hsd. unfold id_of. rewrite Hx. reflexivity.
        * destruct H as [Ha [Ho [Hk [Hd [tr [-> [Hm He]]]]]]].
          split; cbn [fst snd]; [|apply mk_R; auto].
          rewrite He. reflexivity.
      + destruct H as [-> [-> ->]]. split; cbn [fst snd]; [reflexivity|].
        apply mk_R; auto.
    - (* insertMany *)
      rewrite (use_write_0 ds _ Htok). cbv beta.
      pose proof (txn_insert_refines matchf (ds_cat ds) (ds_gen ds) h ds0 ordered Hok) as H.
      destruct (txn_insert matchf (ds_cat ds) (ds_gen ds) h ds0 ordered) as [[c' g'] r].
      change (abs_cat (ds_cat ds) (ds_gen ds)) with (abs ds) in H. destruct (s_valid h); cbn [negb].
      + destruct (s_insert_many matchf (abs ds) h ds0 ordered) as [[s1 acc'] err'].
        destruct H as [Ha [Ho [Hk [Hd [tr [-> [Hm He]]]]]]].
        split; cbn [fst snd]; [|apply mk_R; auto].
        rewrite He, <- Hm, map_map. reflexivity.
      + destruct H as [-> [-> ->]]. split; cbn [fst snd]; [reflexivity|].
        apply mk_R; auto.
    - (* find *)
      change (read_cat ds 0) with (ds_cat ds).
      pose proof (txn_find_refines matchf _ (ds_cat ds) (g_oid (ds_gen ds)) h q sort skip limit Hok Hu) as H.
      fold (abs ds) in H.
      destruct (txn_find matchf (ds_cat ds) h q sort skip limit) as [tr|e];
        destruct (s_read matchf (abs ds) h q sort skip limit) as [l|e'];
        cbn [sum_rel] in H; try contradiction.
      + split; cbn [fst snd]; [|apply R_self; exact Hinv].
        rewrite <- H, mapM_map. reflexivity.
      + subst. split; [reflexivity|apply R_self; exact Hinv].
    - (* findOne *)
      change (read_cat ds 0) with (ds_cat ds).
      pose proof (txn_find_refines matchf _ (ds_cat ds) (g_oid (ds_gen ds)) h q sort skip 1 Hok Hu) as H.
      fold (abs ds) in H.
      destruct (txn_find matchf (ds_cat ds) h q sort skip 1) as [tr|e];
        destruct (s_read matchf (abs ds) h q sort skip 1) as [l|e'];
        cbn [sum_rel] in H; try contradiction.
      + split; cbn [fst snd]; [|apply R_self; exact Hinv].
        rewrite <- H. destruct (t_matched tr) as [|m ms]; [reflexivity|].
        cbn [map]. change (snd m :: map snd ms) with (map snd (m :: ms)).
        rewrite mapM_map. reflexivity.
      + subst. split; [reflexivity|apply R_self; exact Hinv].
    - (* count *)
      change (read_cat ds 0) with (ds_cat ds).
      pose proof (txn_find_refines matchf _ (ds_cat ds) (g_oid (ds_gen ds)) h q None skip limit Hok Hu) as H.
      fold (abs ds) in H.
      destruct (txn_find matchf (ds_cat ds) h q None skip limit) as [tr|e];
        destruct (s_read matchf (abs ds) h q None skip limit) as [l|e'];
        cbn [sum_rel] in H; try contradiction.
      + split; cbn [fst snd]; [|apply R_self; exact Hinv].
        rewrite <- H, len_map. reflexivity.
      + subst. split; [reflexivity|apply R_self; exact Hinv].
    - (* distinct *)
      change (read_cat ds 0) with (ds_cat ds).
      pose proof (txn_find_refines matchf _ (ds_cat ds) (g_oid (ds_gen ds)) h q None 0 0 Hok Hu) as H.
      fold (abs ds) in H.
      destruct (txn_find matchf (ds_cat ds) h q None 0 0) as [tr|e];
        destruct (s_read matchf (abs ds) h q None 0 0) as [l|e'];
        cbn [sum_rel] in H; try contradiction.
      + split; cbn [fst snd]; [|apply R_self; exact Hinv].
        rewrite <- H. reflexivity.
      + subst. split; [reflexivity|apply R_self; exact Hinv].
    - (* update *)
      apply (write_generic tres_rel ds
               (fun cat g => txn_update matchf applyf extractf cat g h q None u 0
                                        (if many then 0 else 1) upsert afs now)
               _ upd_reply s_upd_reply Hinv).
      + apply (txn_update_refines matchf applyf extractf now). exact Hok.
      + intros c' g' e. apply txn_update_error_noop.
      + apply upd_reply_rel.
    - (* replace *)
      destruct (first_key_dollar repl).
      + split; [reflexivity|apply R_self; exact Hinv].
      + apply (write_generic tres_rel ds
                 (fun cat g => txn_replace matchf applyf extractf cat g h q None repl upsert now)
                 _ upd_reply s_upd_reply Hinv).
        * apply (txn_replace_refines matchf applyf extractf now). exact Hok.
        * intros c' g' e. apply txn_replace_error_noop.
        * apply upd_reply_rel.
    - (* delete *)
      apply (write_generic del_rel ds
               (fun cat g => txn_delete matchf cat g h q None 0 (if many then 0 else 1))
               _ (fun tr => RDelete (len (t_matched tr))) (fun sr => RDelete (len (sr_matched sr))) Hinv).
      + apply (txn_delete_refines matchf). exact Hok.
      + intros c' g' e. apply txn_delete_error_noop.
      + intros tr sr [H _]. rewrite <- H, len_map. reflexivity.
    - (* findOneAndUpdate *)
      apply (fam_generic tres_rel ds
               (fun cat g => txn_update matchf applyf extractf cat g h q sort u 0 1 upsert afs now)
               _ proj after (fun sr => s_pick sr after) Hinv).
      + apply (txn_update_refines matchf applyf extractf now). exact Hok.
      + intros c' g' e. apply txn_update_error_noop.
      + intros tr sr. apply pick_rel.
    - (* findOneAndReplace *)
      destruct (first_key_dollar repl).
      + split; [reflexivity|apply R_self; exact Hinv].
      + apply (fam_generic tres_rel ds
                 (fun cat g => txn_replace matchf applyf extractf cat g h q sort repl upsert now)
                 _ proj after (fun sr => s_pick sr after) Hinv).
        * apply (txn_replace_refines matchf applyf extractf now). exact Hok.
        * intros c' g' e. apply txn_replace_error_noop.
        * intros tr sr. apply pick_rel.
    - (* findOneAndDelete *)
      apply (fam_generic del_rel ds
               (fun cat g => txn_delete matchf cat g h q sort 0 1)
               _ proj false
               (fun sr => match sr_matched sr with m :: _ => Some m | [] => None end) Hinv).
      + apply (txn_delete_refines matchf). exact Hok.
      + intros c' g' e. apply txn_delete_error_noop.
      + apply pick_del_rel.
    - (* bulkWrite *)
      destruct (existsb (fun op => match op with
                                   | BReplace _ rp _ _ => first_key_dollar rp
                                   | _ => false
                                   end) ops).
      + split; [reflexivity|apply R_self; exact Hinv].
      + rewrite (use_write_0 ds _ Htok). cbv beta.
        pose proof (txn_bulk_refines matchf applyf extractf now (ds_cat ds) (ds_gen ds) h ops ordered
                      Hok Hu) as H.
        destruct (txn_bulk matchf applyf extractf (ds_cat ds) (ds_gen ds) h ops ordered now)
          as [[c' g'] r].
        change (abs_cat (ds_cat ds) (ds_gen ds)) with (abs ds) in H.
        destruct (s_valid h); cbn [negb].
        * destruct (s_bulk matchf applyf extractf now (abs ds) h ops ordered) as [s' rs'].
          destruct H as [Ha [Ho [Hk [Hd [rs [-> Hrs]]]]]].
          split; cbn [fst snd]; [apply bulk_reply_rel; exact Hrs|apply mk_R; auto].
        * destruct H as [-> [-> ->]]. split; cbn [fst snd]; [reflexivity|]. apply mk_R; auto.
    - (* createIndex *)
      rewrite (use_direct_0 ds _ Htok). cbv beta.
      pose proof (txn_create_index_refines matchf (ds_cat ds) (ds_gen ds) h name
                    (mkConfig key unique partial (expiry_ns expire_s)) Hok) as H.
      destruct (txn_create_index matchf (ds_cat ds) h name
                  (mkConfig key unique partial (expiry_ns expire_s))) as [c' r].
      change (abs_cat (ds_cat ds) (ds_gen ds)) with (abs ds) in H. destruct (s_valid h); cbn [negb].
      + destruct r as [nm|e];
          destruct (s_create_index matchf (coll_or_new (abs ds) h) name
                      (mkConfig key unique partial (expiry_ns expire_s))) as [[sc' nm']|e'];
          try contradiction.
        * destruct H as [-> [Ha Hk]]. split; cbn [fst snd]; [reflexivity|].
          apply mk_R; auto.
        * destruct H as [-> ->]. split; cbn [fst snd]; [reflexivity|]. apply mk_R; auto.
      + destruct H as [-> ->]. split; cbn [fst snd]; [reflexivity|]. apply mk_R; auto.
    - (* dropIndex *)
      rewrite (use_direct_0 ds _ Htok). cbv beta.
      pose proof (txn_drop_index_refines matchf _ (ds_cat ds) h name Hok) as H.
      destruct (txn_drop_index (ds_cat ds) h name) as [c' r].
      destruct (s_valid h); cbn [negb].
      + change (ss_colls (abs ds)) with (abs_ns (cat_ns (ds_cat ds))).
        destruct (sc_get (abs_ns (cat_ns (ds_cat ds))) h) as [sc|].
        * destruct r as [u|e]; destruct (s_drop_index sc name) as [sc'|e']; try contradiction.
          -- destruct H as [Ha Hk]. split; cbn [fst snd]; [reflexivity|]. apply mk_R; auto.
          -- destruct H as [-> ->]. split; cbn [fst snd]; [reflexivity|]. apply mk_R; auto.
        * destruct H as [-> ->]. split; cbn [fst snd]; [reflexivity|]. apply mk_R; auto.
      + destruct H as [-> ->]. split; cbn [fst snd]; [reflexivity|]. apply mk_R; auto.
    - (* dropAllIndexes *)
      rewrite (use_direct_0 ds _ Htok). cbv beta.
      pose proof (txn_drop_index_refines matchf _ (ds_cat ds) h "" Hok) as H.
      destruct (txn_drop_index (ds_cat ds) h "") as [c' r].
      destruct (s_valid h); cbn [negb].
      + change (ss_colls (abs ds)) with (abs_ns (cat_ns (ds_cat ds))).
        destruct (sc_get (abs_ns (cat_ns (ds_cat ds))) h) as [sc|].
        * destruct r as [u|e]; destruct (s_drop_index sc "") as [sc'|e']; try contradiction.
          -- destruct H as [Ha Hk]. split; cbn [fst snd]; [reflexivity|]. apply mk_R; auto.
          -- destruct H as [-> ->]. split; cbn [fst snd]; [reflexivity|]. apply mk_R; auto.
        * destruct H as [-> ->]. split; cbn [fst snd]; [reflexivity|]. apply mk_R; auto.
      + destruct H as [-> ->]. split; cbn [fst snd]; [reflexivity|]. apply mk_R; auto.
    - (* listIndexes *)
      change (read_cat ds 0) with (ds_cat ds).
      rewrite (txn_list_indexes_refines (ds_cat ds) h Hu).
      split; [reflexivity|apply R_self; exact Hinv].
    - (* dropCollection *)
      rewrite (use_direct_0 ds _ Htok). cbv beta.
      pose proof (txn_drop_refines matchf (ds_cat ds) (ds_gen ds) h Hok) as H.
      destruct (txn_drop (ds_cat ds) (ds_gen ds) h) as [[c' g'] r].
      destruct (negb (valid_handle h false) || is_local h).
      + destruct H as [-> [-> ->]]. split; cbn [fst snd]; [reflexivity|]. apply mk_R; auto.
      + destruct H as [Ha [Ho [-> [Hk Hd]]]]. split; cbn [fst snd]; [reflexivity|].
        apply mk_R; auto.
    - (* dropDatabase *)
      rewrite (use_direct_0 ds _ Htok). cbv beta.
      pose proof (txn_drop_refines matchf (ds_cat ds) (ds_gen ds) (db, ""%string) Hok) as H.
      destruct (txn_drop (ds_cat ds) (ds_gen ds) (db, ""%string)) as [[c' g'] r].
      destruct (negb (valid_handle (db, ""%string) false) || is_local (db, ""%string)).
      + destruct H as [-> [-> ->]]. split; cbn [fst snd]; [reflexivity|]. apply mk_R; auto.
      + destruct H as [Ha [Ho [-> [Hk Hd]]]]. split; cbn [fst snd]; [reflexivity|].
        apply mk_R; auto.
  Qed.

  (* the statement in the form of the task: replies equal, relation kept *)
  Theorem step_refines ds s c :
    R ds s -> no_session_call c ->
    let '(ds', r1) := step ds c in
    let '(s', r2) := s_step s c in
    r1 = r2 /\ R ds' s'.
  Proof.
    intros [<- Hinv] Hc. pose proof (step_agree ds c Hinv Hc) as H.
    destruct (step ds c) as [ds' r1]. destruct (s_step (abs ds) c) as [s' r2]. exact H.
  Qed.

  (* ---------------------------------------------------------------- *)
  (* histories *)

  Theorem run_refines calls : forall ds s,
    R ds s -> Forall no_session_call calls ->
    let '(ds', rs) := run ds calls in
    let '(s', rs') := s_run s calls in
    rs = rs' /\ R ds' s'.
  Proof.
    induction calls as [|c t IH]; intros ds s HR Hall.
    - cbn [Driver.run s_run]. split; [reflexivity|exact HR].
    - inversion Hall as [|? ? Hc Ht]; subst. cbn [Driver.run s_run].
      pose proof (step_refines ds s c HR Hc) as H1.
      destruct (step ds c) as [ds1 r1]. destruct (s_step s c) as [s1 r2].
      destruct H1 as [-> HR1].
      specialize (IH ds1 s1 HR1 Ht).
      destruct (run ds1 t) as [ds2 rs]. destruct (s_run s1 t) as [s2 rs'].
      destruct IH as [-> HR2]. split; [reflexivity|exact HR2].
  Qed.

  (* C01: from the empty database, every history of calls of the reference
     API gets the same replies from the implementation model and from the
     sequential reference model, and the contents agree at the end (hence,
     every prefix being a history, after every call) *)
  Theorem refines calls :
    Forall no_session_call calls ->
    let '(ds, rs) := run d_init calls in
    let '(s, rs') := s_run s_init calls in
    rs = rs' /\ abs ds = s.
  Proof.
    intro Hall. pose proof (run_refines calls d_init s_init R_init Hall) as H.
    destruct (run d_init calls) as [ds rs]. destruct (s_run s_init calls) as [s rs'].
    destruct H as [H1 [H2 _]]. auto.
  Qed.

  (* the same, spelled out for every prefix: after every call the replies so
     far and the contents agree *)
  Theorem refines_prefix calls k :
    Forall no_session_call calls ->
    let '(ds, rs) := run d_init (firstn k calls) in
    let '(s, rs') := s_run s_init (firstn k calls) in
    rs = rs' /\ abs ds = s.
  Proof.
    intro Hall. apply refines. revert k. induction Hall as [|c t Hc Ht IH]; intro k.
    - destruct k; constructor.
    - destruct k; cbn [firstn]; constructor; auto.
  Qed.

  (* the invariants hold in every reachable state *)
  Theorem reachable_inv calls :
    Forall no_session_call calls -> inv (fst (run d_init calls)).
  Proof.
    intro Hall. pose proof (run_refines calls d_init s_init R_init Hall) as H.
    destruct (run d_init calls) as [ds rs]. destruct (s_run s_init calls) as [s rs'].
    destruct H as [_ [_ H]]. exact H.
  Qed.

End RefineStep.

Print Assumptions step_refines.
Print Assumptions refines.

