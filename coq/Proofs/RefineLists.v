(* RefineLists.v — list-level facts for the refinement proof (C01): the Find
   pipeline only inspects the documents, never their tags, so it commutes
   with any re-tagging (identities -> positions); positions in the numbered
   document list correspond to identities under NoDup; `without`,
   `replace_at`, `replace_all_at` (positions, spec) agree with
   `minus_matched`, `set_replace`, `replace_docs` (identities, model). *)
From Coq Require Import List ZArith Lia Bool.
From Lungo.Model Require Import Driver.
From Lungo.Spec Require Import SpecDb.
From Lungo.Proofs Require Import CompareOrder CollLists CollInv.
Import ListNotations.
Open Scope Z_scope.

(* ------------------------------------------------------------------ *)
(* res *)

Lemma rmap_ok {A B} (f : A -> B) (r : res A) x : r = Ok x -> rmap f r = Ok (f x).
Proof. intros ->. reflexivity. Qed.

Lemma ekind_rmap {A B} (f : A -> B) (r : res A) :
  match r with Ok _ => True | _ => ekind_of_res (rmap f r) = ekind_of_res r end.
Proof. destruct r; simpl; auto. Qed.

(* ------------------------------------------------------------------ *)
(* re-tagging *)

Definition retag (f : Z -> Z) (x : Z * doc) : Z * doc := (f (fst x), snd x).

Lemma retag_snd f l : map snd (map (retag f) l) = map snd l.
Proof. rewrite map_map. apply map_ext. intros [a b]. reflexivity. Qed.

Lemma retag_fst f l : map fst (map (retag f) l) = map f (map fst l).
Proof. rewrite !map_map. apply map_ext. intros [a b]. reflexivity. Qed.

Lemma insert_sorted_map {A B} (g : A -> B) cmpA cmpB x l :
  (forall a b, cmpB (g a) (g b) = cmpA a b) ->
  insert_sorted cmpB (g x) (map g l) = map g (insert_sorted cmpA x l).
Proof.
  intro H. induction l as [|y t IH]; simpl; auto.
  rewrite H. destruct (cmpA y x); simpl; auto. rewrite IH. reflexivity.
Qed.

Lemma stable_sort_map {A B} (g : A -> B) cmpA cmpB l :
  (forall a b, cmpB (g a) (g b) = cmpA a b) ->
  stable_sort cmpB (map g l) = map g (stable_sort cmpA l).
Proof.
  intro H. unfold stable_sort. induction l as [|x t IH]; cbn [map fold_right]; auto.
  rewrite IH. apply insert_sorted_map. exact H.
Qed.

Lemma select_go_map {A B} (g : A -> B) selA selB l limit have :
  (forall a, selB (g a) = selA a) ->
  select_go selB (map g l) limit have = rmap (map g) (select_go selA l limit have).
Proof.
  intro H. revert have. induction l as [|x t IH]; intro have; simpl; auto.
  rewrite H. destruct (selA x) as [[|]| | | |]; simpl; auto.
  destruct ((0 <? limit) && (limit <=? have + 1)); simpl; auto.
  rewrite IH. destruct (select_go selA t limit (have + 1)); reflexivity.
Qed.

Lemma drop_map {A B} (g : A -> B) n l : drop n (map g l) = map g (drop n l).
Proof.
  revert n. induction l as [|x t IH]; intro n; simpl; auto.
  destruct (n <=? 0); simpl; auto.
Qed.

Section FindRetag.
  Variable matchf : doc -> doc -> res bool.

  (* Find commutes with re-tagging *)
  Lemma find_list_retag f l q sort skip limit :
    find_list matchf (map (retag f) l) q sort skip limit =
    rmap (map (retag f)) (find_list matchf l q sort skip limit).
  Proof.
    unfold find_list. cbv zeta.
    assert (Hs : forall cols, stable_sort (sdoc_order cols) (map (retag f) l) =
                              map (retag f) (stable_sort (sdoc_order cols) l)).
    { intro cols. apply stable_sort_map. intros [a da] [b db]. reflexivity. }
    assert (Hsel : forall sorted lim,
      select (fun sd : sdoc => matchf (snd sd) q) (map (retag f) sorted) lim =
      rmap (map (retag f)) (select (fun sd : sdoc => matchf (snd sd) q) sorted lim)).
    { intros sorted lim. unfold select. apply select_go_map. intros [a da]. reflexivity. }
    assert (Hfin : forall sorted,
      bind (select (fun sd : sdoc => matchf (snd sd) q) (map (retag f) sorted)
                   (if 0 <? limit then limit + skip else limit))
           (fun sel => Ok (drop skip sel)) =
      rmap (map (retag f))
           (bind (select (fun sd : sdoc => matchf (snd sd) q) sorted
                         (if 0 <? limit then limit + skip else limit))
                 (fun sel => Ok (drop skip sel)))).
    { intro sorted. rewrite Hsel.
      destruct (select (fun sd : sdoc => matchf (snd sd) q) sorted
                       (if 0 <? limit then limit + skip else limit)); simpl; auto.
      rewrite drop_map. reflexivity. }
    destruct (skip <? 0); [reflexivity|].
    destruct sort as [[|p s]|]; cbn [bind]; try apply Hfin.
    destruct (columns (p :: s)) as [cols| | | |]; cbn [bind]; try reflexivity.
    rewrite Hs. apply Hfin.
  Qed.

  (* with skip 0 and limit 1 at most one document is found *)
  Lemma select_go_one {A} (sel : A -> res bool) l r :
    select_go sel l 1 0 = Ok r -> (List.length r <= 1)%nat.
  Proof.
    revert r. induction l as [|x t IH]; simpl; intros r H.
    - inversion H; subst. simpl. lia.
    - destruct (sel x) as [[|]| | | |]; try discriminate.
      + simpl in H. inversion H; subst. simpl. lia.
      + apply IH. exact H.
  Qed.

  Lemma find_list_one l q sort r :
    find_list matchf l q sort 0 1 = Ok r -> (List.length r <= 1)%nat.
  Proof.
    unfold find_list. cbv zeta. intro H. change (0 <? 0) with false in H. cbv iota in H.
    match type of H with bind ?X _ = _ => destruct X as [sorted| | | |] end;
      cbn [bind] in H; try discriminate.
    change (if 0 <? 1 then 1 + 0 else 1) with 1 in H.
    match type of H with bind ?X _ = _ => destruct X as [sel| | | |] eqn:Hsel end;
      cbn [bind] in H; try discriminate.
    inversion H; subst.
    unfold select in Hsel. apply select_go_one in Hsel.
    destruct sel as [|a [|b t]]; simpl in *; try lia.
  Qed.

  Lemma find_list_one_shape l q sort o rest :
    find_list matchf l q sort 0 1 = Ok (o :: rest) -> rest = [].
  Proof.
    intro H. apply find_list_one in H. destruct rest; auto. simpl in H. lia.
  Qed.
End FindRetag.

(* ------------------------------------------------------------------ *)
(* positions *)

Fixpoint pos_of (ids : list Z) (n : Z) (id : Z) : Z :=
  match ids with
  | [] => n
  | x :: t => if x =? id then n else pos_of t (n + 1) id
  end.

Lemma pos_of_ge ids n id : n <= pos_of ids n id.
Proof.
  revert n. induction ids as [|x t IH]; intro n; simpl; [lia|].
  destruct (x =? id); [lia|]. specialize (IH (n + 1)). lia.
Qed.

Lemma pos_of_inj ids n a b :
  In a ids -> In b ids -> pos_of ids n a = pos_of ids n b -> a = b.
Proof.
  revert n. induction ids as [|x t IH]; intros n Ha Hb H; [contradiction|].
  simpl in H.
  destruct (Z.eqb_spec x a) as [Ea|Ea], (Z.eqb_spec x b) as [Eb|Eb].
  - congruence.
  - pose proof (pos_of_ge t (n + 1) b). lia.
  - pose proof (pos_of_ge t (n + 1) a). lia.
  - destruct Ha as [Ha|Ha]; [congruence|]. destruct Hb as [Hb|Hb]; [congruence|].
    eapply IH; eauto.
Qed.

Lemma number_retag (l : list sdoc) n :
  NoDup (map fst l) -> number (map snd l) n = map (retag (pos_of (map fst l) n)) l.
Proof.
  revert n. induction l as [|[a d] t IH]; intros n H; simpl; auto.
  inversion H as [|? ? H1 H2]; subst.
  unfold retag at 1. cbn [fst snd]. rewrite Z.eqb_refl. f_equal.
  rewrite (IH (n + 1) H2). apply map_ext_in. intros [b db] Hin.
  unfold retag. cbn [fst snd]. f_equal.
  destruct (Z.eqb_spec a b) as [E|E]; auto.
  subst. exfalso. apply H1. apply (in_map fst) in Hin. exact Hin.
Qed.

Lemma number_snd {A} (l : list A) n : map snd (number l n) = l.
Proof. revert n. induction l as [|x t IH]; intro n; simpl; auto. rewrite IH. reflexivity. Qed.

(* the position function of a document list *)
Definition posf (l : list sdoc) : Z -> Z := pos_of (map fst l) 0.

Section SFind.
  Variable matchf : doc -> doc -> res bool.

  (* the spec's Find is the model's Find with identities turned into positions *)
  Lemma s_find_find_list (l : list sdoc) q sort skip limit :
    NoDup (map fst l) ->
    s_find matchf (map snd l) q sort skip limit =
    rmap (map (retag (posf l))) (find_list matchf l q sort skip limit).
  Proof.
    intro H. unfold s_find. rewrite (number_retag l 0 H). apply find_list_retag.
  Qed.
End SFind.

(* ------------------------------------------------------------------ *)
(* without = minus_matched *)

Lemma filter_map_comm {A B} (g : A -> B) (p : B -> bool) l :
  filter p (map g l) = map g (filter (fun x => p (g x)) l).
Proof.
  induction l as [|x t IH]; simpl; auto. destruct (p (g x)); simpl; rewrite IH; reflexivity.
Qed.

Lemma filter_ext_in' {A} (p q : A -> bool) l :
  (forall x, In x l -> p x = q x) -> filter p l = filter q l.
Proof.
  induction l as [|x t IH]; simpl; intro H; auto.
  rewrite (H x (or_introl eq_refl)). rewrite IH; auto.
Qed.

Lemma without_minus (l matched : list sdoc) :
  NoDup (map fst l) -> incl matched l ->
  without (map snd l) (map (fun m => posf l (fst m)) matched) =
  map snd (minus_matched l matched).
Proof.
  intros Hnd Hincl. unfold without, minus_matched.
  rewrite (number_retag l 0 Hnd), filter_map_comm, retag_snd. f_equal.
  apply filter_ext_in'. intros sd Hsd. f_equal. cbn [retag fst].
  fold (posf l).
  clear - Hnd Hincl Hsd. induction matched as [|m ms IH]; simpl; auto.
  rewrite IH by (intros x Hx; apply Hincl; right; exact Hx).
  assert (Hm : In m l) by (apply Hincl; left; reflexivity).
  assert (Heq : (posf l (fst sd) =? posf l (fst m)) = (fst m =? fst sd)).
  { destruct (Z.eqb_spec (fst m) (fst sd)) as [F|F].
    - rewrite F. apply Z.eqb_refl.
    - apply Z.eqb_neq. intro E. apply F. symmetry. unfold posf in E.
      apply (pos_of_inj (map fst l) 0); auto; apply in_map; auto. }
  unfold sdoc, did in *. rewrite Heq. reflexivity.
Qed.

(* ------------------------------------------------------------------ *)
(* replace_at = set_replace *)

Lemma set_replace_notin (l : list sdoc) o new :
  ~ In o (map fst l) -> set_replace l o new = l.
Proof.
  unfold set_replace. unfold sdoc, did in *. induction l as [|a t IH]; simpl; intro H; auto.
  destruct (Z.eqb_spec (fst a) o) as [E|E]; [exfalso; apply H; auto|].
  rewrite IH; auto.
Qed.

Lemma replace_at_set_replace (l : list sdoc) n o k x :
  NoDup (map fst l) -> In o (map fst l) ->
  replace_at (map snd l) (pos_of (map fst l) n o - n) x = map snd (set_replace l o (k, x)).
Proof.
  revert n. induction l as [|[a d] t IH]; intros n Hnd Hin; [contradiction|].
  simpl in Hnd, Hin. inversion Hnd as [|? ? H1 H2]; subst.
  unfold sdoc, did in *.
  cbn [map fst snd pos_of replace_at].
  destruct (Z.eqb_spec a o) as [E|E].
  - subst. replace (n - n) with 0 by lia. cbn [Z.eqb].
    unfold set_replace. cbn [map fst]. rewrite Z.eqb_refl. cbn [snd]. f_equal.
    fold (set_replace t o (k, x)). rewrite set_replace_notin; auto.
  - destruct Hin as [Hin|Hin]; [congruence|].
    pose proof (pos_of_ge (map fst t) (n + 1) o) as Hge.
    destruct (Z.eqb_spec (pos_of (map fst t) (n + 1) o - n) 0) as [Z0|Z0]; [lia|].
    unfold set_replace. cbn [map fst]. destruct (Z.eqb_spec a o) as [|_]; [congruence|].
    cbn [snd]. f_equal. fold (set_replace t o (k, x)).
    rewrite <- (IH (n + 1) H2 Hin). f_equal. lia.
Qed.

Lemma replace_at_posf (l : list sdoc) o k x :
  NoDup (map fst l) -> In o (map fst l) ->
  replace_at (map snd l) (posf l o) x = map snd (set_replace l o (k, x)).
Proof.
  intros H1 H2. rewrite <- (replace_at_set_replace l 0 o k x H1 H2). unfold posf.
  f_equal. lia.
Qed.

(* positions of the other documents are not affected by a replacement *)
Lemma pos_of_subst ids n o fn k :
  k <> o -> k <> fn ->
  pos_of (map (fun i => if i =? o then fn else i) ids) n k = pos_of ids n k.
Proof.
  intros Ho Hf. revert n. induction ids as [|x t IH]; intro n; simpl; auto.
  rewrite IH. destruct (Z.eqb_spec x o) as [E|E].
  - subst. destruct (Z.eqb_spec fn k); [congruence|].
    destruct (Z.eqb_spec o k); [congruence|]. reflexivity.
  - reflexivity.
Qed.

(* ------------------------------------------------------------------ *)
(* replace_all_at = replace_docs *)

Fixpoint zip_pos (f : Z -> Z) (matched newl : list sdoc) : list (Z * doc) :=
  match matched, newl with
  | m :: ms, n :: ns => (f (fst m), snd n) :: zip_pos f ms ns
  | _, _ => []
  end.

Lemma zip_pos_ext f g matched newl :
  (forall m, In m matched -> f (fst m) = g (fst m)) ->
  zip_pos f matched newl = zip_pos g matched newl.
Proof.
  unfold sdoc, did in *.
  revert newl. induction matched as [|m ms IH]; intros newl H; cbn [zip_pos]; auto.
  destruct newl as [|n ns]; auto.
  f_equal.
  - f_equal. apply (H m). left. reflexivity.
  - apply IH. intros x Hx. apply H. right. exact Hx.
Qed.

Lemma replace_docs_all_at (l matched newl : list sdoc) :
  NoDup (map fst l) -> incl (map fst matched) (map fst l) -> NoDup (map fst matched) ->
  List.length matched = List.length newl ->
  (forall n, In n newl -> ~ In (fst n) (map fst l)) -> NoDup (map fst newl) ->
  map snd (replace_docs l matched newl) = replace_all_at (map snd l) (zip_pos (posf l) matched newl).
Proof.
  revert l newl. induction matched as [|o ms IH]; intros l newl Hd Hi Hm Hl Hf Hn.
  - destruct newl; reflexivity.
  - destruct newl as [|n ns]; [discriminate|]. simpl in Hl. injection Hl as Hl.
    cbn [replace_docs zip_pos replace_all_at].
    simpl in Hm, Hn. inversion Hm as [|? ? Hm1 Hm2]; subst. inversion Hn as [|? ? Hn1 Hn2]; subst.
    assert (Ho : In (fst o) (map fst l)) by (apply Hi; left; reflexivity).
    assert (Hfn : ~ In (fst n) (map fst l)) by (apply Hf; left; reflexivity).
    set (l1 := set_replace l (fst o) n).
    assert (Hids : map fst l1 = map (fun i => if i =? fst o then fst n else i) (map fst l))
      by apply set_replace_ids.
    rewrite (IH l1 ns).
    + destruct n as [kn dn]. cbn [snd]. unfold l1.
      rewrite <- (replace_at_posf l (fst o) kn dn Hd Ho). f_equal.
      apply zip_pos_ext. intros m Hmm. unfold posf. fold l1. rewrite Hids.
      apply pos_of_subst.
      * intro E. apply Hm1. rewrite <- E. apply in_map. exact Hmm.
      * intro E. apply Hfn. cbn [fst] in E |- *. subst kn. apply Hi. right.
        apply (in_map fst) in Hmm. exact Hmm.
    + apply set_replace_nodup; auto.
    + intros k Hk. rewrite Hids. apply in_map_iff. exists k. split.
      * destruct (Z.eqb_spec k (fst o)) as [E|E]; auto. subst. contradiction.
      * apply Hi. right. exact Hk.
    + exact Hm2.
    + exact Hl.
    + intros n' Hn' Hin. rewrite Hids in Hin. apply in_map_iff in Hin.
      destruct Hin as [k [Hk Hkin]]. destruct (Z.eqb_spec k (fst o)) as [E|E].
      * apply Hn1. rewrite Hk. apply in_map. exact Hn'.
      * subst k. apply (Hf n'); auto. right. exact Hn'.
    + exact Hn2.
Qed.

(* ------------------------------------------------------------------ *)
(* the update bookkeeping on zipped lists *)

Lemma ids_unchanged_zip f matched newl :
  s_ids_unchanged (map (retag f) matched) (zip_pos f matched newl) = ids_unchanged matched newl.
Proof.
  revert newl. induction matched as [|m ms IH]; intro newl; simpl; auto.
  destruct newl as [|n ns]; simpl; auto. rewrite IH. reflexivity.
Qed.

Lemma modified_zip f matched newl chs :
  List.length chs = List.length newl ->
  s_modified (map (retag f) matched) (zip_pos f matched newl) =
  map snd (fst (modified_only matched newl chs)).
Proof.
  revert newl chs. induction matched as [|m ms IH]; intros newl chs H; [reflexivity|].
  destruct newl as [|n ns]; [reflexivity|].
  destruct chs as [|ch chs]; [discriminate|]. simpl in H. injection H as H.
  specialize (IH ns chs H).
  cbn [map retag zip_pos s_modified modified_only fst snd].
  destruct (modified_only ms ns chs) as [md cs]. cbn [fst] in IH.
  unfold sdoc, did in *.
  destruct (value_eqb (VDoc (snd m)) (VDoc (snd n))); cbn [fst snd map]; rewrite IH; reflexivity.
Qed.

Section ApplyZip.
  Variable applyf : doc -> doc -> doc -> bool -> list doc -> Z -> res (doc * list (string * value)).

  Lemma apply_list_zip f matched fresh q u afs now :
    s_apply_all applyf now (map (retag f) matched) q u afs =
    rmap (fun p => zip_pos f matched (fst p)) (apply_list applyf matched fresh q u afs now).
  Proof.
    revert fresh. induction matched as [|m ms IH]; intro fresh; [reflexivity|].
    cbn [map retag s_apply_all apply_list fst snd]. unfold sdoc, did in *.
    destruct (applyf (snd m) q u false afs now) as [r| | | |]; cbn [bind rmap]; auto.
    rewrite (IH (fresh + 1)).
    destruct (apply_list applyf ms (fresh + 1) q u afs now) as [[nl cs]| | | |]; reflexivity.
  Qed.

  Lemma apply_list_lengths matched fresh q u afs now newl chs :
    apply_list applyf matched fresh q u afs now = Ok (newl, chs) ->
    List.length newl = List.length matched /\ List.length chs = List.length matched.
  Proof.
    revert fresh newl chs. induction matched as [|m ms IH]; intros fresh newl chs H; simpl in H.
    - inversion H; subst. auto.
    - destruct (applyf (snd m) q u false afs now) as [r| | | |]; cbn [bind] in H; try discriminate.
      destruct (apply_list applyf ms (fresh + 1) q u afs now) as [[nl cs]| | | |] eqn:E;
        cbn [bind] in H; try discriminate.
      inversion H; subst. destruct (IH _ _ _ E) as [H1 H2]. simpl. auto.
  Qed.
End ApplyZip.

Lemma zip_pos_fst f matched newl :
  List.length matched = List.length newl ->
  map fst (zip_pos f matched newl) = map (fun m => f (fst m)) matched.
Proof.
  revert newl. induction matched as [|m ms IH]; intros newl H; simpl; auto.
  destruct newl as [|n ns]; [discriminate|]. simpl in H. injection H as H.
  simpl. rewrite IH; auto.
Qed.

Lemma zip_pos_snd f matched newl :
  List.length matched = List.length newl ->
  map snd (zip_pos f matched newl) = map snd newl.
Proof.
  revert newl. induction matched as [|m ms IH]; intros newl H; simpl.
  - destruct newl; [reflexivity|discriminate].
  - destruct newl as [|n ns]; [discriminate|]. simpl in H. injection H as H.
    simpl. rewrite IH; auto.
Qed.

(* ------------------------------------------------------------------ *)
(* structural equality is equality; replacing a document by itself *)

Lemma value_eqb_eq : forall a b, value_eqb a b = true -> a = b.
Proof.
  apply (value_ind' (fun a => forall b, value_eqb a b = true -> a = b)).
  intros a Hsub b H.
  destruct a, b; simpl in H; try discriminate; try reflexivity;
    repeat match goal with
           | H : _ && _ = true |- _ => apply andb_true_iff in H; destruct H
           end;
    repeat match goal with
           | H : (_ =? _) = true |- _ => apply Z.eqb_eq in H
           | H : String.eqb _ _ = true |- _ => apply String.eqb_eq in H
           | H : Bool.eqb _ _ = true |- _ => apply Bool.eqb_prop in H
           end; subst; try reflexivity.
  - (* documents *)
    f_equal. simpl in Hsub. revert d0 H.
    induction Hsub as [|[k v] d Hv Hd IH]; intros [|[k' v'] e] H; try discriminate; auto.
    apply andb_true_iff in H. destruct H as [H1 H3].
    apply andb_true_iff in H1. destruct H1 as [H1 H2].
    apply String.eqb_eq in H1. apply Hv in H2. subst. f_equal. apply IH. exact H3.
  - (* arrays *)
    f_equal. simpl in Hsub. revert a0 H.
    induction Hsub as [|v a Hv Ha IH]; intros [|v' e] H; try discriminate; auto.
    apply andb_true_iff in H. destruct H as [H1 H2].
    apply Hv in H1. subst. f_equal. apply IH. exact H2.
Qed.

Lemma number_fst_ge {A} (l : list A) n i d : In (i, d) (number l n) -> n <= i.
Proof.
  revert n. induction l as [|x t IH]; intros n H; [contradiction|].
  cbn [number] in H. destruct H as [H|H].
  - inversion H. lia.
  - apply IH in H. lia.
Qed.

Lemma number_in_replace_at {A} (l : list A) n i d :
  In (i, d) (number l n) -> replace_at l (i - n) d = l.
Proof.
  revert n. induction l as [|x t IH]; intros n H; [contradiction|].
  cbn [number] in H. cbn [replace_at]. destruct H as [H|H].
  - inversion H; subst. replace (i - i) with 0 by lia. reflexivity.
  - pose proof (number_fst_ge _ _ _ _ H) as Hge.
    destruct (Z.eqb_spec (i - n) 0) as [E|E]; [lia|].
    f_equal. replace (i - n - 1) with (i - (n + 1)) by lia. apply IH. exact H.
Qed.

Lemma replace_all_at_same docs (newl : list (Z * doc)) :
  (forall p, In p newl -> In p (number docs 0)) -> replace_all_at docs newl = docs.
Proof.
  induction newl as [|[i d] t IH]; intro H; [reflexivity|].
  cbn [replace_all_at].
  pose proof (number_in_replace_at docs 0 i d (H _ (or_introl eq_refl))) as Hr.
  rewrite Z.sub_0_r in Hr. rewrite Hr. apply IH. intros p Hp. apply H. right. exact Hp.
Qed.

Lemma s_modified_nil (matched newl : list (Z * doc)) :
  map fst newl = map fst matched -> s_modified matched newl = [] -> newl = matched.
Proof.
  revert newl. induction matched as [|[i o] ms IH]; intros [|[j n] ns] Hf H; try discriminate; auto.
  cbn [map fst] in Hf. injection Hf as Hj Hf. subst j. cbn [s_modified] in H.
  destruct (value_eqb (VDoc o) (VDoc n)) eqn:E; [|discriminate].
  apply value_eqb_eq in E. inversion E; subst. f_equal. apply IH; auto.
Qed.

Lemma without_nil docs : without docs [] = docs.
Proof.
  unfold without. cbn [existsb negb].
  assert (H : forall (l : list (Z * doc)), filter (fun _ => true) l = l)
    by (induction l as [|x t IH]; simpl; [|rewrite IH]; reflexivity).
  rewrite H. apply number_snd.
Qed.

Section ApplyTags.
  Variable applyf : doc -> doc -> doc -> bool -> list doc -> Z -> res (doc * list (string * value)).

  Lemma s_apply_all_tags now l q u afs newl :
    s_apply_all applyf now l q u afs = Ok newl -> map fst newl = map fst l.
  Proof.
    revert newl. induction l as [|[i d] t IH]; intros newl H; cbn [s_apply_all] in H.
    - inversion H. reflexivity.
    - destruct (applyf d q u false afs now) as [r| | | |]; cbn [bind] in H; try discriminate.
      destruct (s_apply_all applyf now t q u afs) as [rest| | | |]; cbn [bind] in H; try discriminate.
      inversion H; subst. cbn [map fst]. f_equal. apply IH. reflexivity.
  Qed.
End ApplyTags.
