(* CatInv.v — the catalog invariant (C15 / C07 / C08 lifted from one
   collection to the whole catalog) and its preservation by every Transaction
   method of Model/Txn.v and by the oplog trim of Driver.CTrim.

   cat_inv c n: every user namespace satisfies the collection invariant
   (coll_inv: every index holds exactly the covered documents, no duplicate
   key under a unique index), has its _id index, and all its document
   identities are below n; the oplog namespace exists, has no indexes, its
   identities are distinct and below n; the namespace handles are distinct;
   the event clocks strictly increase up to the catalog clock (cat_ok).

   Identities of ALL namespaces (and of the oplog) are drawn from the same
   generator g_did, hence the single bound n = g_did g.

   Parametric in the operator semantics, as the model. *)
From Coq Require Import List ZArith Lia Bool.
From Lungo.Model Require Import Txn.
From Lungo.Proofs Require Import OrderLaws CompareOrder EntryLemmas IndexInv CollLists CollInv
     TxnProofs OplogProofs.
Import ListNotations.
Open Scope Z_scope.
Open Scope list_scope.

(* ------------------------------------------------------------------ *)
(* handles and the namespace association list *)

Lemma handle_eqb_eq a b : handle_eqb a b = true <-> a = b.
Proof.
  unfold handle_eqb. destruct a as [a1 a2], b as [b1 b2]. cbn [fst snd].
  rewrite andb_true_iff, !String.eqb_eq. split.
  - intros [-> ->]. reflexivity.
  - intro H. inversion H. auto.
Qed.

Lemma handle_eqb_neq a b : handle_eqb a b = false <-> a <> b.
Proof.
  split.
  - intros H E. apply handle_eqb_eq in E. congruence.
  - intro N. destruct (handle_eqb a b) eqn:E; [|reflexivity].
    apply handle_eqb_eq in E. contradiction.
Qed.

Lemma handle_eq_dec (a b : handle) : {a = b} + {a <> b}.
Proof.
  destruct (handle_eqb a b) eqn:E.
  - left. apply handle_eqb_eq. exact E.
  - right. apply handle_eqb_neq. exact E.
Qed.

Lemma ns_get_in l h c : ns_get l h = Some c -> In (h, c) l.
Proof.
  induction l as [|[k d] t IH]; simpl; [discriminate|].
  destruct (handle_eqb k h) eqn:E.
  - apply handle_eqb_eq in E. subst. intro H. inversion H. left. reflexivity.
  - intro H. right. apply IH. exact H.
Qed.

Lemma ns_get_none l h : ns_get l h = None <-> ~ In h (map fst l).
Proof.
  induction l as [|[k d] t IH]; simpl.
  - split; [intros _ []|reflexivity].
  - destruct (handle_eqb k h) eqn:E.
    + apply handle_eqb_eq in E. subst. split; [discriminate|]. intro H. exfalso. apply H. left. reflexivity.
    + apply handle_eqb_neq in E. rewrite IH. split.
      * intros H [H1|H1]; [contradiction|]. apply H. exact H1.
      * intros H H1. apply H. right. exact H1.
Qed.

Lemma ns_get_nodup l h c : NoDup (map fst l) -> In (h, c) l -> ns_get l h = Some c.
Proof.
  induction l as [|[k d] t IH]; simpl; intros Hnd Hin; [destruct Hin|].
  inversion Hnd as [|x xs Hx Hnd']; subst.
  destruct Hin as [Heq|Hin].
  - inversion Heq; subst. rewrite (proj2 (handle_eqb_eq h h) eq_refl). reflexivity.
  - destruct (handle_eqb k h) eqn:E.
    + apply handle_eqb_eq in E. subst. exfalso. apply Hx.
      apply in_map_iff. exists (h, c). split; auto.
    + apply IH; auto.
Qed.

Lemma ns_get_set_other l h k c : k <> h -> ns_get (ns_set l h c) k = ns_get l k.
Proof.
  intro N. induction l as [|[k0 d] t IH]; simpl.
  - rewrite (proj2 (handle_eqb_neq h k)) by congruence. reflexivity.
  - destruct (handle_eqb k0 h) eqn:E; simpl.
    + apply handle_eqb_eq in E. subst k0.
      rewrite (proj2 (handle_eqb_neq h k)) by congruence. reflexivity.
    + destruct (handle_eqb k0 k); [reflexivity|exact IH].
Qed.

Lemma ns_set_in l h c k d : In (k, d) (ns_set l h c) -> (k = h /\ d = c) \/ In (k, d) l.
Proof.
  induction l as [|[k0 d0] t IH]; simpl.
  - intros [H|[]]. inversion H. left. auto.
  - destruct (handle_eqb k0 h); simpl.
    + intros [H|H]; [inversion H; left; auto|right; right; exact H].
    + intros [H|H]; [right; left; exact H|].
      destruct (IH H) as [H1|H1]; [left; exact H1|right; right; exact H1].
Qed.

Lemma ns_set_keys l h c k : In k (map fst (ns_set l h c)) -> k = h \/ In k (map fst l).
Proof.
  intro H. apply in_map_iff in H. destruct H as [[k' d] [Hk Hin]]. simpl in Hk. subst k'.
  destruct (ns_set_in _ _ _ _ _ Hin) as [[-> _]|H1]; [left; reflexivity|].
  right. apply in_map_iff. exists (k, d). auto.
Qed.

Lemma ns_set_nodup l h c : NoDup (map fst l) -> NoDup (map fst (ns_set l h c)).
Proof.
  induction l as [|[k0 d0] t IH]; simpl; intro Hnd.
  - constructor; [intros []|constructor].
  - inversion Hnd as [|x xs Hx Hnd']; subst.
    destruct (handle_eqb k0 h) eqn:E; simpl.
    + apply handle_eqb_eq in E. subst k0. constructor; auto.
    + apply handle_eqb_neq in E. constructor; [|apply IH; exact Hnd'].
      intro Hin. destruct (ns_set_keys _ _ _ _ Hin) as [H1|H1]; [contradiction|]. apply Hx. exact H1.
Qed.

Lemma drop_suffix {A} (l : list A) : forall n, exists pre, l = pre ++ drop n l.
Proof.
  induction l as [|x t IH]; intro n; simpl.
  - exists []. reflexivity.
  - destruct (n <=? 0).
    + exists []. reflexivity.
    + destruct (IH (n - 1)) as [pre Hp]. exists (x :: pre). simpl. rewrite <- Hp. reflexivity.
Qed.

Lemma NoDup_suffix {A} (pre l : list A) : NoDup (pre ++ l) -> NoDup l.
Proof.
  induction pre as [|x t IH]; simpl; intro H; [exact H|].
  inversion H; subst. apply IH. assumption.
Qed.

Lemma clocks_ok_suffix pre : forall l lo hi, clocks_ok (pre ++ l) lo hi -> clocks_ok l lo hi.
Proof.
  induction pre as [|x t IH]; intros l lo hi H; simpl in H; [exact H|].
  destruct H as [H1 H2]. apply IH in H2.
  eapply clocks_ok_weaken_lo; [|exact H2]. lia.
Qed.

Section CatInv.
  Set Default Proof Using "Type".
  Variable matchf : doc -> doc -> res bool.
  Variable applyf : doc -> doc -> doc -> bool -> list doc -> Z -> res (doc * list (string * value)).
  Variable extractf : doc -> res doc.

  Local Notation coll_inv := (CollInv.coll_inv matchf).
  Local Notation t_insert := (Txn.t_insert matchf).
  Local Notation t_replace := (Txn.t_replace matchf applyf extractf).
  Local Notation t_update := (Txn.t_update matchf applyf extractf).
  Local Notation t_delete := (Txn.t_delete matchf).
  Local Notation txn_insert := (Txn.txn_insert matchf).
  Local Notation txn_replace := (Txn.txn_replace matchf applyf extractf).
  Local Notation txn_update := (Txn.txn_update matchf applyf extractf).
  Local Notation txn_delete := (Txn.txn_delete matchf).
  Local Notation txn_bulk := (Txn.txn_bulk matchf applyf extractf).
  Local Notation txn_create_index := (Txn.txn_create_index matchf).
  Local Notation txn_expire := (Txn.txn_expire matchf).
  Local Notation insert_loop := (Txn.insert_loop matchf).
  Local Notation bulk_loop := (Txn.bulk_loop matchf applyf extractf).
  Local Notation expire_loop := (Txn.expire_loop matchf).

  (* ---------------------------------------------------------------- *)
  (* the invariant *)

  (* a user namespace: C15 + C07 (coll_inv), the _id index, fresh identities *)
  Definition user_ok (n : Z) (nc : coll) : Prop :=
    coll_inv nc /\ has_id_index nc /\ ids_lt nc n.

  (* the oplog namespace: NewCollection(false), only ever appended to *)
  Definition oplog_ok (n : Z) (o : coll) : Prop :=
    c_indexes o = [] /\ NoDup (map fst (c_docs o)) /\ ids_lt o n.

  Definition ns_ok (n : Z) (h : handle) (nc : coll) : Prop :=
    (h = oplog_handle -> oplog_ok n nc) /\ (h <> oplog_handle -> user_ok n nc).

  Definition cat_inv (c : catalog) (n : Z) : Prop :=
    (forall h nc, In (h, nc) (cat_ns c) -> ns_ok n h nc) /\
    (exists o, ns_get (cat_ns c) oplog_handle = Some o) /\
    NoDup (map fst (cat_ns c)) /\
    cat_ok c.

  (* the oplog collection satisfies the collection invariant too (vacuously
     for the indexes: it has none) *)
  Lemma oplog_coll_inv n o : oplog_ok n o -> coll_inv o.
  Proof.
    intros [Hi [Hnd _]]. split; [exact Hnd|]. rewrite Hi. split; constructor.
  Qed.

  Lemma user_ok_mono n m nc : user_ok n nc -> n <= m -> user_ok m nc.
  Proof. intros [H1 [H2 H3]] L. split; [|split]; auto. eapply ids_lt_mono; eauto. Qed.

  Lemma oplog_ok_mono n m o : oplog_ok n o -> n <= m -> oplog_ok m o.
  Proof. intros [H1 [H2 H3]] L. split; [|split]; auto. eapply ids_lt_mono; eauto. Qed.

  Lemma ns_ok_mono n m h nc : ns_ok n h nc -> n <= m -> ns_ok m h nc.
  Proof.
    intros [H1 H2] L. split; intro E.
    - eapply oplog_ok_mono; eauto.
    - eapply user_ok_mono; eauto.
  Qed.

  Lemma cat_inv_mono c n m : cat_inv c n -> n <= m -> cat_inv c m.
  Proof.
    intros [H1 [H2 [H3 H4]]] L. split; [|split; [|split]]; auto.
    intros h nc Hin. eapply ns_ok_mono; eauto.
  Qed.

  Lemma ns_ok_user n h nc : h <> oplog_handle -> user_ok n nc -> ns_ok n h nc.
  Proof. intros N U. split; [intro E; contradiction|intros _; exact U]. Qed.

  Lemma ns_ok_oplog n o : oplog_ok n o -> ns_ok n oplog_handle o.
  Proof. intro U. split; [intros _; exact U|intro E; exfalso; apply E; reflexivity]. Qed.

  Lemma cat_inv_oplog c n :
    cat_inv c n -> ns_get (cat_ns c) oplog_handle = Some (oplog_of c) /\ oplog_ok n (oplog_of c).
  Proof.
    intros [H1 [[o Ho] _]]. unfold oplog_of. rewrite Ho. split; [reflexivity|].
    apply ns_get_in in Ho. destruct (H1 _ _ Ho) as [H _]. apply H. reflexivity.
  Qed.

  Lemma cat_inv_get c n h nc :
    cat_inv c n -> ns_get (cat_ns c) h = Some nc -> h <> oplog_handle -> user_ok n nc.
  Proof.
    intros [H1 _] Hg N. apply ns_get_in in Hg. destruct (H1 _ _ Hg) as [_ H]. apply H. exact N.
  Qed.

  Lemma cat_inv_in_get c n h nc : cat_inv c n -> In (h, nc) (cat_ns c) -> ns_get (cat_ns c) h = Some nc.
  Proof. intros [_ [_ [Hnd _]]] Hin. apply ns_get_nodup; auto. Qed.

  Lemma not_local_not_oplog h : is_local h = false -> h <> oplog_handle.
  Proof.
    unfold is_local. intros H E. subst h. simpl in H. discriminate.
  Qed.

  Lemma guard_not_oplog h : guard_write h = None -> h <> oplog_handle.
  Proof.
    unfold guard_write. destruct (negb (valid_handle h true)); [discriminate|].
    destruct (is_local h) eqn:E; [discriminate|]. intros _. apply not_local_not_oplog. exact E.
  Qed.

  Lemma new_user_ok n : user_ok n (new_collection true).
  Proof.
    destruct (new_collection_inv matchf true) as [H1 [H2 H3]].
    split; [exact H1|]. split; [apply H3; reflexivity|apply H2].
  Qed.

  Lemma ns_or_new_ok c n h : cat_inv c n -> h <> oplog_handle -> user_ok n (ns_or_new c h).
  Proof.
    intros Hc N. unfold ns_or_new. destruct (ns_get (cat_ns c) h) as [nc|] eqn:E.
    - eapply cat_inv_get; eauto.
    - apply new_user_ok.
  Qed.

  (* replacing (or adding) one user namespace *)
  Lemma cat_inv_set_user c n h nc :
    cat_inv c n -> h <> oplog_handle -> user_ok n nc ->
    cat_inv (mkCat (ns_set (cat_ns c) h nc) (cat_clock c)) n.
  Proof.
    intros [H1 [[o Ho] [H3 H4]]] N U. split; [|split; [|split]]; cbn [cat_ns cat_clock].
    - intros k d Hin. destruct (ns_set_in _ _ _ _ _ Hin) as [[-> ->]|Hin'].
      + apply ns_ok_user; auto.
      + apply H1. exact Hin'.
    - exists o. rewrite ns_get_set_other by congruence. exact Ho.
    - apply ns_set_nodup. exact H3.
    - unfold cat_ok, oplog_of in *. cbn [cat_ns cat_clock].
      rewrite ns_get_set_other by congruence. exact H4.
  Qed.

  (* replacing the oplog namespace *)
  Lemma cat_inv_set_oplog c n o k :
    (forall h nc, In (h, nc) (cat_ns c) -> ns_ok n h nc) -> NoDup (map fst (cat_ns c)) ->
    oplog_ok n o -> clocks_ok (c_docs o) 0 k ->
    cat_inv (mkCat (ns_set (cat_ns c) oplog_handle o) k) n.
  Proof.
    intros H1 H3 U K. split; [|split; [|split]]; cbn [cat_ns cat_clock].
    - intros h d Hin. destruct (ns_set_in _ _ _ _ _ Hin) as [[-> ->]|Hin'].
      + apply ns_ok_oplog; auto.
      + apply H1. exact Hin'.
    - exists o. apply ns_get_set_same.
    - apply ns_set_nodup. exact H3.
    - unfold cat_ok, oplog_of. cbn [cat_ns cat_clock]. rewrite ns_get_set_same. exact K.
  Qed.

  (* ---------------------------------------------------------------- *)
  (* the working state of one operation *)

  Definition w_inv (w : wstate) : Prop :=
    user_ok (g_did (w_gen w)) (w_ns w) /\ oplog_ok (g_did (w_gen w)) (w_oplog w) /\ w_ok w.

  (* what every Transaction.<op> guarantees: identities only grow; on success
     the working state is good again *)
  Definition t_good (w : wstate) (r : wres) : Prop :=
    g_did (w_gen w) <= g_did (w_gen (fst r)) /\
    (forall tr, snd r = inl tr -> w_inv (fst r)).

  Lemma append_event_inv ol clock g h op d chs ol' k g' :
    oplog_ok (g_did g) ol -> clocks_ok (c_docs ol) 0 clock ->
    append_event ol clock g h op d chs = (ol', k, g') ->
    oplog_ok (g_did g') ol' /\ clocks_ok (c_docs ol') 0 k /\ g_did g' = g_did g + 1.
  Proof.
    intros [Hi [Hnd Hlt]] Hc E.
    destruct (append_event_ok _ _ _ _ _ _ _ _ _ _ Hc E) as [Hc' _].
    unfold append_event in E. inversion E; subst. cbn [g_did c_docs c_indexes].
    split; [|split; [exact Hc'|reflexivity]].
    split; [exact Hi|]. split.
    - cbn [c_docs]. rewrite map_app. simpl. apply NoDup_snoc; [exact Hnd|].
      apply ids_lt_notin. exact Hlt.
    - intros sd Hin. cbn [c_docs] in Hin. apply in_app_iff in Hin. destruct Hin as [Hin|[<-|[]]].
      + apply Hlt in Hin. lia.
      + simpl. lia.
  Qed.

  Lemma append_all_inv l : forall w h op chs,
    w_inv w ->
    w_inv (append_all w h op l chs) /\
    g_did (w_gen w) <= g_did (w_gen (append_all w h op l chs)).
  Proof.
    induction l as [|sd t IH]; intros w h op chs H; cbn [append_all].
    - split; [exact H|lia].
    - destruct H as [Hu [Ho Hk]].
      destruct (append_event (w_oplog w) (w_clock w) (w_gen w) h op (Some (snd sd))
                  (match chs with Some (c :: _) => Some c | _ => None end)) as [[ol k] g] eqn:E.
      destruct (append_event_inv _ _ _ _ _ _ _ _ _ _ Ho Hk E) as [Ho' [Hk' Hg]].
      destruct (IH (mkW (w_ns w) ol k g) h op
                   (match chs with Some (_ :: r) => Some r | _ => chs end)) as [A B].
      + split; [|split]; cbn [w_ns w_oplog w_clock w_gen]; auto.
        eapply user_ok_mono; [exact Hu|lia].
      + split; [exact A|]. cbn [w_gen] in B. lia.
  Qed.

  (* the common shape: new namespace ns' good for the bumped generator g1,
     oplog untouched, then the events are appended *)
  Lemma settle_inv w ns' g1 h op l chs :
    w_inv w -> user_ok (g_did g1) ns' -> g_did (w_gen w) <= g_did g1 ->
    w_inv (append_all (mkW ns' (w_oplog w) (w_clock w) g1) h op l chs) /\
    g_did (w_gen w) <= g_did (w_gen (append_all (mkW ns' (w_oplog w) (w_clock w) g1) h op l chs)).
  Proof.
    intros [Hu [Ho Hk]] U L.
    destruct (append_all_inv l (mkW ns' (w_oplog w) (w_clock w) g1) h op chs) as [A B].
    - split; [|split]; cbn [w_ns w_oplog w_clock w_gen]; auto.
      eapply oplog_ok_mono; eauto.
    - split; [exact A|]. cbn [w_gen] in B. lia.
  Qed.

  Lemma t_insert_inv w h d : w_inv w -> t_good w (t_insert w h d).
  Proof.
    intros Hw. pose proof Hw as [[Hc [Hid Hlt]] _]. unfold Txn.t_insert, t_good.
    destruct (coll_insert matchf (w_ns w) (g_did (w_gen w)) d (gen_oid (g_oid (w_gen w))))
      as [ns' [r|e]] eqn:E; cbn [fst snd].
    - destruct (coll_insert_inv matchf _ _ _ _ _ _ Hc Hid Hlt E) as [A [B C]].
      destruct (settle_inv w ns' (mkGen (g_did (w_gen w) + 1)
                  (g_oid (w_gen w) + (if is_missing (Get d "_id") then 1 else 0)))
                  h "insert" (r_modified r) None Hw) as [P Q].
      + split; [|split]; auto.
      + cbn [g_did]. lia.
      + split; [exact Q|]. intros _ _. exact P.
    - cbn [w_gen g_did]. split; [lia|]. intros tr H. discriminate.
  Qed.

  Lemma t_delete_inv w h q s sk li : w_inv w -> t_good w (t_delete w h q s sk li).
  Proof.
    intros Hw. pose proof Hw as [[Hc [Hid Hlt]] _]. unfold Txn.t_delete, t_good.
    destruct (coll_delete matchf (w_ns w) q s sk li) as [ns' [r|e]] eqn:E; cbn [fst snd].
    - destruct (coll_delete_inv matchf _ _ _ _ _ _ _ _ Hc Hid Hlt E) as [A [B C]].
      destruct (settle_inv w ns' (w_gen w) h "delete" (r_matched r) None Hw) as [P Q].
      + split; [|split]; auto.
      + lia.
      + split; [exact Q|]. intros _ _. exact P.
    - cbn [w_gen]. split; [lia|]. intros tr H. discriminate.
  Qed.

  Lemma t_replace_inv w h q rp s up now : w_inv w -> t_good w (t_replace w h q rp s up now).
  Proof.
    intros Hw. pose proof Hw as [[Hc [Hid Hlt]] [Ho Hk]]. unfold Txn.t_replace, t_good.
    destruct (coll_replace matchf (w_ns w) (g_did (w_gen w)) q rp s) as [ns' [r|e]] eqn:E;
      cbn [fst snd].
    2:{ cbn [w_gen]. split; [lia|]. intros tr H. discriminate. }
    destruct (coll_replace_inv matchf _ _ _ _ _ _ _ Hc Hid Hlt E) as [A [B C]].
    destruct (r_matched r) as [|m ms].
    - destruct up.
      + cbn [g_did g_oid].
        destruct (coll_upsert matchf applyf extractf ns' (g_did (w_gen w) + 1) q (Some rp) None []
                    (gen_oid (g_oid (w_gen w))) now) as [ns'' [r2|e]] eqn:E2; cbn [fst snd].
        * destruct (coll_upsert_inv matchf applyf extractf _ _ _ _ _ _ _ _ _ _ A B C E2) as [A2 [B2 C2]].
          destruct (r_upserted r2) as [sd|]; cbn [fst snd].
          -- match goal with |- context [append_all (mkW ns'' _ _ ?g) _ _ _ _] =>
               destruct (settle_inv w ns'' g h "insert" [sd] None Hw) as [P Q] end.
             ++ split; [|split]; auto.
             ++ cbn [g_did]. lia.
             ++ split; [exact Q|]. intros _ _. exact P.
          -- cbn [w_gen g_did]. split; [lia|]. intros tr H. discriminate.
        * cbn [w_gen g_did]. split; [lia|]. intros tr H. discriminate.
      + cbn [fst snd w_gen g_did]. split; [lia|]. intros tr _.
        split; [|split]; cbn [w_ns w_oplog w_clock w_gen g_did]; auto.
        * split; [|split]; auto.
        * eapply oplog_ok_mono; [exact Ho|lia].
    - cbn [fst snd].
      match goal with |- context [append_all (mkW ns' _ _ ?g) _ _ ?l _] =>
        destruct (settle_inv w ns' g h "replace" l None Hw) as [P Q] end.
      + split; [|split]; auto.
      + cbn [g_did]. lia.
      + split; [exact Q|]. intros _ _. exact P.
  Qed.

  Lemma t_update_inv w h q u s up sk li afs now :
    w_inv w -> t_good w (t_update w h q u s up sk li afs now).
  Proof.
    intros Hw. pose proof Hw as [[Hc [Hid Hlt]] [Ho Hk]]. unfold Txn.t_update, t_good.
    destruct (coll_update matchf applyf (w_ns w) (g_did (w_gen w)) q u s sk li afs now)
      as [ns' [r|e]] eqn:E; cbn [fst snd].
    2:{ cbn [w_gen]. split; [lia|]. intros tr H. discriminate. }
    destruct (coll_update_inv matchf applyf _ _ _ _ _ _ _ _ _ _ _ Hc Hid Hlt E) as [A [B C]].
    fold (len (r_matched r)) in C.
    assert (Hl : 0 <= len (r_matched r)) by (unfold len; lia).
    destruct (r_matched r) as [|m ms] eqn:Em.
    - destruct up.
      + cbn [g_did g_oid].
        destruct (coll_upsert matchf applyf extractf ns' (g_did (w_gen w) + len []) q None (Some u) afs
                    (gen_oid (g_oid (w_gen w))) now) as [ns'' [r2|e]] eqn:E2; cbn [fst snd].
        * destruct (coll_upsert_inv matchf applyf extractf _ _ _ _ _ _ _ _ _ _ A B C E2) as [A2 [B2 C2]].
          destruct (r_upserted r2) as [sd|]; cbn [fst snd].
          -- match goal with |- context [append_all (mkW ns'' _ _ ?g) _ _ _ _] =>
               destruct (settle_inv w ns'' g h "insert" [sd] None Hw) as [P Q] end.
             ++ split; [|split]; auto.
             ++ cbn [g_did]. lia.
             ++ split; [exact Q|]. intros _ _. exact P.
          -- cbn [w_gen g_did]. split; [lia|]. intros tr H. discriminate.
        * cbn [w_gen g_did]. split; [lia|]. intros tr H. discriminate.
      + cbn [fst snd w_gen g_did]. split; [lia|]. intros tr _.
        split; [|split]; cbn [w_ns w_oplog w_clock w_gen g_did]; auto.
        * split; [|split]; auto.
        * eapply oplog_ok_mono; [exact Ho|lia].
    - cbn [fst snd].
      match goal with |- context [append_all (mkW ns' _ _ ?g) _ _ ?l ?cs] =>
        destruct (settle_inv w ns' g h "update" l cs Hw) as [P Q] end.
      + split; [|split]; auto.
      + cbn [g_did]. lia.
      + split; [exact Q|]. intros _ _. exact P.
  Qed.

  (* ---------------------------------------------------------------- *)
  (* open_w / close_w / finish *)

  Lemma open_w_inv c g h : cat_inv c (g_did g) -> h <> oplog_handle -> w_inv (open_w c g h).
  Proof.
    intros Hc N. unfold open_w, w_inv. cbn [w_ns w_oplog w_clock w_gen].
    split; [apply ns_or_new_ok; auto|]. split.
    - apply (cat_inv_oplog c). exact Hc.
    - destruct Hc as [_ [_ [_ H]]]. exact H.
  Qed.

  Lemma close_w_inv c n h w :
    cat_inv c n -> h <> oplog_handle -> w_inv w -> n <= g_did (w_gen w) ->
    cat_inv (close_w c h w) (g_did (w_gen w)).
  Proof.
    intros Hc N [Hu [Ho Hk]] L. unfold close_w.
    pose proof (cat_inv_mono c n (g_did (w_gen w)) Hc L) as Hc'.
    pose proof (cat_inv_set_user c _ h (w_ns w) Hc' N Hu) as [H1 [_ [H3 _]]].
    apply (cat_inv_set_oplog (mkCat (ns_set (cat_ns c) h (w_ns w)) (cat_clock c))); auto.
  Qed.

  Lemma finish_inv c g h ch r c' g' res :
    cat_inv c (g_did g) -> h <> oplog_handle -> t_good (open_w c g h) r ->
    finish c g h ch r = (c', g', res) ->
    cat_inv c' (g_did g') /\ g_did g <= g_did g'.
  Proof.
    intros Hc N [L G]. unfold finish, gen_after_fail. destruct r as [w [tr|e]]; cbn [fst snd] in *.
    - cbn [open_w w_gen] in L. destruct (ch tr); intro H; inversion H; subst; split; auto.
      + eapply close_w_inv; eauto.
      + eapply cat_inv_mono; eauto.
    - cbn [open_w w_gen] in L. intro H; inversion H; subst. split; auto. eapply cat_inv_mono; eauto.
  Qed.

  Ltac unchanged Hc := intro H; inversion H; subst; split; [exact Hc|lia].

  (* ---------------------------------------------------------------- *)
  (* the public methods *)

  Theorem txn_replace_inv c g h q s rp up now c' g' r :
    cat_inv c (g_did g) -> txn_replace c g h q s rp up now = (c', g', r) ->
    cat_inv c' (g_did g') /\ g_did g <= g_did g'.
  Proof.
    intros Hc. unfold Txn.txn_replace. destruct (guard_write h) eqn:G; [unchanged Hc|].
    apply guard_not_oplog in G.
    assert (F : forall c' g' r, finish c g h changed_mod (t_replace (open_w c g h) h q rp s up now) = (c', g', r) ->
                cat_inv c' (g_did g') /\ g_did g <= g_did g').
    { intros c2 g2 r2. apply finish_inv; auto. apply t_replace_inv. apply open_w_inv; auto. }
    destruct (ns_get (cat_ns c) h); [apply F|]. destruct up; [apply F|unchanged Hc].
  Qed.

  Theorem txn_update_inv c g h q s u sk li up afs now c' g' r :
    cat_inv c (g_did g) -> txn_update c g h q s u sk li up afs now = (c', g', r) ->
    cat_inv c' (g_did g') /\ g_did g <= g_did g'.
  Proof.
    intros Hc. unfold Txn.txn_update. destruct (guard_write h) eqn:G; [unchanged Hc|].
    apply guard_not_oplog in G.
    assert (F : forall c' g' r, finish c g h changed_mod (t_update (open_w c g h) h q u s up sk li afs now) = (c', g', r) ->
                cat_inv c' (g_did g') /\ g_did g <= g_did g').
    { intros c2 g2 r2. apply finish_inv; auto. apply t_update_inv. apply open_w_inv; auto. }
    destruct (ns_get (cat_ns c) h); [apply F|]. destruct up; [apply F|unchanged Hc].
  Qed.

  Theorem txn_delete_inv c g h q s sk li c' g' r :
    cat_inv c (g_did g) -> txn_delete c g h q s sk li = (c', g', r) ->
    cat_inv c' (g_did g') /\ g_did g <= g_did g'.
  Proof.
    intros Hc. unfold Txn.txn_delete. destruct (guard_write h) eqn:G; [unchanged Hc|].
    apply guard_not_oplog in G.
    destruct (ns_get (cat_ns c) h); [|unchanged Hc].
    apply finish_inv; auto. apply t_delete_inv. apply open_w_inv; auto.
  Qed.

  Lemma insert_loop_inv l : forall c g h o acc err c' g' acc' err',
    cat_inv c (g_did g) -> h <> oplog_handle ->
    insert_loop c g h l o acc err = (c', g', acc', err') ->
    cat_inv c' (g_did g') /\ g_did g <= g_did g'.
  Proof.
    induction l as [|d t IH]; intros c g h o acc err c' g' acc' err' Hc N; cbn [Txn.insert_loop].
    - intro H; inversion H; subst. split; [exact Hc|lia].
    - pose proof (t_insert_inv (open_w c g h) h d (open_w_inv c g h Hc N)) as [L G].
      destruct (t_insert (open_w c g h) h d) as [w [r|e]]; cbn [fst snd open_w w_gen] in *.
      + intro H. apply IH in H; auto.
        * destruct H as [A B]. split; [exact A|lia].
        * eapply close_w_inv; eauto.
      + unfold gen_after_fail. destruct o.
        * intro H; inversion H; subst. split; [|exact L]. eapply cat_inv_mono; eauto.
        * intro H. apply IH in H; auto.
          -- destruct H as [A B]. split; [exact A|lia].
          -- eapply cat_inv_mono; eauto.
  Qed.

  Theorem txn_insert_inv c g h l o c' g' r :
    cat_inv c (g_did g) -> txn_insert c g h l o = (c', g', r) ->
    cat_inv c' (g_did g') /\ g_did g <= g_did g'.
  Proof.
    intros Hc. unfold Txn.txn_insert. destruct (guard_write h) eqn:G; [unchanged Hc|].
    apply guard_not_oplog in G.
    destruct (insert_loop c g h l o [] None) as [[[c2 g2] acc] err] eqn:E.
    destruct (insert_loop_inv _ _ _ _ _ _ _ _ _ _ _ Hc G E) as [A B].
    destruct acc; intro H; inversion H; subst; split; auto. eapply cat_inv_mono; eauto.
  Qed.

  Lemma bulk_loop_inv ops : forall c g h o now acc n c' g' acc' n',
    cat_inv c (g_did g) -> h <> oplog_handle ->
    bulk_loop c g h ops o now acc n = (c', g', acc', n') ->
    cat_inv c' (g_did g') /\ g_did g <= g_did g'.
  Proof.
    induction ops as [|op t IH]; intros c g h o now acc n c' g' acc' n' Hc N; cbn [Txn.bulk_loop].
    - intro H; inversion H; subst. split; [exact Hc|lia].
    - assert (T : t_good (open_w c g h)
                    (match op with
                     | BInsert d => t_insert (open_w c g h) h d
                     | BReplace f rp s u => t_replace (open_w c g h) h f rp s u now
                     | BUpdate f up s u sk li afs => t_update (open_w c g h) h f up s u sk li afs now
                     | BDelete f s sk li => t_delete (open_w c g h) h f s sk li
                     end)).
      { pose proof (open_w_inv c g h Hc N) as W.
        destruct op; [apply t_insert_inv|apply t_replace_inv|apply t_update_inv|apply t_delete_inv]; exact W. }
      destruct T as [L G].
      destruct (match op with
                | BInsert d => _ | BReplace f rp s u => _
                | BUpdate f up s u sk li afs => _ | BDelete f s sk li => _ end) as [w [tr|e]];
        cbn [fst snd open_w w_gen] in *.
      + intro H. apply IH in H; auto.
        * destruct H as [A B]. split; [exact A|lia].
        * eapply close_w_inv; eauto.
      + unfold gen_after_fail. destruct o.
        * intro H; inversion H; subst. split; [|exact L]. eapply cat_inv_mono; eauto.
        * intro H. apply IH in H; auto.
          -- destruct H as [A B]. split; [exact A|lia].
          -- eapply cat_inv_mono; eauto.
  Qed.

  Theorem txn_bulk_inv c g h ops o now c' g' r :
    cat_inv c (g_did g) -> txn_bulk c g h ops o now = (c', g', r) ->
    cat_inv c' (g_did g') /\ g_did g <= g_did g'.
  Proof.
    intros Hc. unfold Txn.txn_bulk. destruct (guard_write h) eqn:G; [unchanged Hc|].
    apply guard_not_oplog in G.
    destruct (bulk_loop c g h ops o now [] 0) as [[[c2 g2] rs] n] eqn:E.
    destruct (bulk_loop_inv _ _ _ _ _ _ _ _ _ _ _ _ Hc G E) as [A B].
    destruct (0 <? n); intro H; inversion H; subst; split; auto. eapply cat_inv_mono; eauto.
  Qed.

  (* ---------------------------------------------------------------- *)
  (* Drop *)

  Lemma drop_events_inv l : forall ol clock g ol' k g',
    oplog_ok (g_did g) ol -> clocks_ok (c_docs ol) 0 clock ->
    drop_events ol clock g l = (ol', k, g') ->
    oplog_ok (g_did g') ol' /\ clocks_ok (c_docs ol') 0 k /\ g_did g <= g_did g'.
  Proof.
    induction l as [|v t IH]; intros ol clock g ol' k g' Ho Hk; cbn [drop_events].
    - intro H; inversion H; subst. split; [|split]; auto. lia.
    - destruct (append_event ol clock g v "drop" None None) as [[ol1 k1] g1] eqn:E.
      destruct (append_event_inv _ _ _ _ _ _ _ _ _ _ Ho Hk E) as [Ho1 [Hk1 Hg1]].
      intro H. apply IH in H; auto. destruct H as [A [B C]]. split; [|split]; auto. lia.
  Qed.

  Lemma drop_matches_oplog h : is_local h = false -> drop_matches h oplog_handle = false.
  Proof.
    unfold is_local, drop_matches, handle_eqb. cbn [fst snd oplog_handle].
    intro H. rewrite (String.eqb_sym "local" (fst h)), H. cbn [andb orb].
    rewrite andb_false_r. reflexivity.
  Qed.

  Theorem txn_drop_inv c g h c' g' r :
    cat_inv c (g_did g) -> txn_drop c g h = (c', g', r) ->
    cat_inv c' (g_did g') /\ g_did g <= g_did g'.
  Proof.
    intros Hc. unfold txn_drop.
    destruct (negb (valid_handle h false)); [unchanged Hc|].
    destruct (is_local h) eqn:Lo; [unchanged Hc|].
    destruct (map fst (filter (fun kc => drop_matches h (fst kc)) (cat_ns c))) as [|v vs] eqn:V;
      [unchanged Hc|]. rewrite <- V. clear V v vs.
    set (victims := map fst (filter (fun kc => drop_matches h (fst kc)) (cat_ns c))).
    destruct (cat_inv_oplog c _ Hc) as [Hg Ho]. pose proof Hc as [H1 [_ [H3 H4]]].
    destruct (drop_events (oplog_of c) (cat_clock c) g victims) as [[ol cl] g1] eqn:E.
    destruct (drop_events_inv _ _ _ _ _ _ _ Ho H4 E) as [Ho1 [Hk1 Hg1]].
    assert (T : forall ol2 cl2 g2,
              (if String.eqb (snd h) "" then append_event ol cl g1 h "dropDatabase" None None
               else (ol, cl, g1)) = (ol2, cl2, g2) ->
              oplog_ok (g_did g2) ol2 /\ clocks_ok (c_docs ol2) 0 cl2 /\ g_did g <= g_did g2).
    { intros ol2 cl2 g2. destruct (String.eqb (snd h) "").
      - intro E2. destruct (append_event_inv _ _ _ _ _ _ _ _ _ _ Ho1 Hk1 E2) as [A [B C]].
        split; [|split]; auto. lia.
      - intro E2; inversion E2; subst. auto. }
    destruct (if String.eqb (snd h) "" then _ else _) as [[ol2 cl2] g2].
    destruct (T _ _ _ eq_refl) as [A [B C]].
    intro H; inversion H; subst. split; [|exact C].
    set (remaining := filter (fun kc => negb (drop_matches h (fst kc))) (cat_ns c)).
    apply (cat_inv_set_oplog (mkCat remaining (cat_clock c))); cbn [cat_ns]; auto.
    - intros k d Hin. apply filter_In in Hin. destruct Hin as [Hin _].
      eapply ns_ok_mono; [apply H1; exact Hin|exact C].
    - apply NoDup_map_filter. exact H3.
  Qed.

  (* ---------------------------------------------------------------- *)
  (* Create / CreateIndex / DropIndex / DropIndexByKey *)

  Theorem txn_create_inv c n h c' r :
    cat_inv c n -> txn_create c h = (c', r) -> cat_inv c' n.
  Proof.
    intros Hc. unfold txn_create. destruct (guard_write h) eqn:G; [intro H; inversion H; subst; exact Hc|].
    apply guard_not_oplog in G.
    destruct (ns_get (cat_ns c) h); intro H; inversion H; subst; [exact Hc|].
    apply cat_inv_set_user; auto. apply new_user_ok.
  Qed.

  Theorem txn_create_index_inv c n h name cf c' r :
    cat_inv c n -> txn_create_index c h name cf = (c', r) -> cat_inv c' n.
  Proof.
    intros Hc. unfold Txn.txn_create_index.
    destruct (guard_write h) eqn:G; [intro H; inversion H; subst; exact Hc|].
    apply guard_not_oplog in G.
    destruct (coll_create_index matchf (ns_or_new c h) name cf) as [n' [nm|e]] eqn:E;
      intro H; inversion H; subst; [|exact Hc].
    destruct (ns_or_new_ok c n h Hc G) as [A [B C]].
    destruct (coll_create_index_inv matchf _ _ _ _ _ _ A B C E) as [A' [B' [C' _]]].
    apply cat_inv_set_user; auto. split; [|split]; auto.
  Qed.

  Theorem txn_drop_index_inv c n h name c' r :
    cat_inv c n -> txn_drop_index c h name = (c', r) -> cat_inv c' n.
  Proof.
    intros Hc. unfold txn_drop_index.
    destruct (guard_write h) eqn:G; [intro H; inversion H; subst; exact Hc|].
    apply guard_not_oplog in G.
    destruct (ns_get (cat_ns c) h) as [nc|] eqn:Eg; [|intro H; inversion H; subst; exact Hc].
    destruct (cat_inv_get c n h nc Hc Eg G) as [A [B C]].
    destruct (coll_drop_index nc name) as [n' [[|x l]|e]] eqn:E;
      intro H; inversion H; subst; try exact Hc.
    destruct (coll_drop_index_inv matchf _ _ _ _ _ A B C E) as [A' [B' [C' _]]].
    apply cat_inv_set_user; auto. split; [|split]; auto.
  Qed.

  Theorem txn_drop_index_by_key_inv c n h key c' r :
    cat_inv c n -> txn_drop_index_by_key c h key = (c', r) -> cat_inv c' n.
  Proof.
    intros Hc. unfold txn_drop_index_by_key.
    destruct (guard_write h) eqn:G; [intro H; inversion H; subst; exact Hc|].
    destruct (ns_get (cat_ns c) h) as [nc|]; [|intro H; inversion H; subst; exact Hc].
    destruct (filter _ (c_indexes nc)) as [|[nm ix] rest]; [intro H; inversion H; subst; exact Hc|].
    destruct (String.eqb nm ""); [intro H; inversion H; subst; exact Hc|].
    apply txn_drop_index_inv. exact Hc.
  Qed.

  (* ---------------------------------------------------------------- *)
  (* Expire *)

  Lemma expire_loop_inv l : forall c g now_ms deleted c' g' d',
    cat_inv c (g_did g) ->
    (forall h n, In (h, n) l -> h = oplog_handle -> c_indexes n = []) ->
    expire_loop c g l now_ms deleted = inl (c', g', d') ->
    cat_inv c' (g_did g') /\ g_did g <= g_did g'.
  Proof.
    induction l as [|[h n] t IH]; intros c g now_ms deleted c' g' d' Hc Hl; cbn [Txn.expire_loop].
    - intro H; inversion H; subst. split; [exact Hc|lia].
    - assert (Hl' : forall h n, In (h, n) t -> h = oplog_handle -> c_indexes n = [])
        by (intros h0 n0 Hin; apply Hl; right; exact Hin).
      destruct (opt_list (map (fun ni => ttl_condition now_ms (snd ni)) (c_indexes n)))
        as [|cd cds] eqn:Ec.
      + intro H. eapply IH; eauto.
      + assert (N : h <> oplog_handle).
        { intro E. rewrite (Hl h n (or_introl eq_refl) E) in Ec. simpl in Ec. discriminate. }
        pose proof (t_delete_inv (open_w c g h) h [("$or", VArr (cd :: cds))] None 0 0
                      (open_w_inv c g h Hc N)) as [L G].
        destruct (t_delete (open_w c g h) h [("$or", VArr (cd :: cds))] None 0 0) as [w [tr|e]];
          cbn [fst snd open_w w_gen] in *; [|discriminate].
        intro H. apply IH in H; auto.
        * destruct H as [A B]. split; [exact A|lia].
        * eapply close_w_inv; eauto.
  Qed.

  Theorem txn_expire_inv c g now_ms c' g' r :
    cat_inv c (g_did g) -> txn_expire c g now_ms = (c', g', r) ->
    cat_inv c' (g_did g') /\ g_did g <= g_did g'.
  Proof.
    intros Hc. unfold Txn.txn_expire.
    destruct (expire_loop c g (cat_ns c) now_ms 0) as [[[c2 g2] d]|e] eqn:E; [|unchanged Hc].
    apply expire_loop_inv in E; auto.
    - destruct E as [A B]. destruct (0 <? d); intro H; inversion H; subst; split; auto.
      eapply cat_inv_mono; eauto.
    - intros h n Hin ->. destruct Hc as [H1 _]. destruct (H1 _ _ Hin) as [H _].
      destruct (H eq_refl) as [Hi _]. exact Hi.
  Qed.

  (* ---------------------------------------------------------------- *)
  (* the oplog trim of Driver.CTrim: drops a prefix of the log *)

  Definition trim_oplog (cat : catalog) (k : Z) : catalog :=
    mkCat (ns_set (cat_ns cat) oplog_handle
                  (mkColl (drop k (c_docs (oplog_of cat))) (c_indexes (oplog_of cat))))
          (cat_clock cat).

  Theorem trim_inv c n k : cat_inv c n -> cat_inv (trim_oplog c k) n.
  Proof.
    intros Hc. destruct (cat_inv_oplog c _ Hc) as [Hg [Hi [Hnd Hlt]]].
    pose proof Hc as [H1 [_ [H3 H4]]]. unfold trim_oplog.
    destruct (drop_suffix (c_docs (oplog_of c)) k) as [pre Hp].
    apply cat_inv_set_oplog; auto.
    - split; [exact Hi|]. cbn [c_docs]. split.
      + rewrite Hp, map_app in Hnd. apply NoDup_suffix in Hnd. exact Hnd.
      + intros sd Hin. cbn [c_docs] in Hin. apply Hlt. rewrite Hp. apply in_or_app. right. exact Hin.
    - cbn [c_docs]. unfold cat_ok in H4. rewrite Hp in H4. eapply clocks_ok_suffix. exact H4.
  Qed.

  (* ---------------------------------------------------------------- *)
  (* the initial catalog *)

  Theorem new_catalog_inv n : cat_inv new_catalog n.
  Proof.
    split; [|split; [|split]].
    - intros h nc [H|[]]. inversion H; subst. apply ns_ok_oplog.
      split; [reflexivity|]. split; [constructor|]. intros sd [].
    - exists (new_collection false). reflexivity.
    - simpl. constructor; [intros []|constructor].
    - apply new_catalog_ok.
  Qed.

End CatInv.

Print Assumptions txn_insert_inv.
Print Assumptions txn_replace_inv.
Print Assumptions txn_update_inv.
Print Assumptions txn_delete_inv.
Print Assumptions txn_bulk_inv.
Print Assumptions txn_drop_inv.
Print Assumptions txn_create_inv.
Print Assumptions txn_create_index_inv.
Print Assumptions txn_drop_index_inv.
Print Assumptions txn_drop_index_by_key_inv.
Print Assumptions txn_expire_inv.
Print Assumptions trim_inv.
Print Assumptions new_catalog_inv.
