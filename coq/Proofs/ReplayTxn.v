(* ReplayTxn.v — the change log of the transaction layer is a faithful record
   (C08): `contents` of a catalog, the events of its oplog, `replay`, and for
   every Transaction method of Model/Txn.v: the events it appended, replayed
   onto the contents before, give the contents after (`cat_step`).

   Contents are compared as maps handle -> document list (`contents_eq`): an
   absent namespace and an empty one are the same thing (an empty namespace
   created by CreateIndex / Create, or left by deleting every document, is
   not represented by any event), and the order of the namespaces in the
   catalog's association list is immaterial.  Within a namespace the
   documents are compared as LISTS: replay reproduces the natural order. *)
From Coq Require Import List ZArith Lia Bool.
From Lungo.Model Require Import Txn.
From Lungo.Proofs Require Import OrderLaws CompareOrder EntryLemmas IndexInv CollLists CollInv
     TxnProofs OplogProofs CatInv ReplayBase ReplayColl.
Import ListNotations.
Open Scope Z_scope.
Open Scope list_scope.

(* ------------------------------------------------------------------ *)
(* events *)

Definition lookup_str (d : doc) (k : string) : string :=
  match lookup d k with Some (VString s) => s | _ => EmptyString end.

Definition ev_op (e : doc) : string := lookup_str e "operationType".

Definition ev_handle (e : doc) : handle :=
  match lookup e "ns" with
  | Some (VDoc ns) => (lookup_str ns "db", lookup_str ns "coll")
  | _ => (EmptyString, EmptyString)
  end.

(* documentKey._id *)
Definition key_of_event (e : doc) : value :=
  match lookup e "documentKey" with
  | Some (VDoc k) => match lookup k "_id" with Some v => v | None => VMissing end
  | _ => VMissing
  end.

Definition full_of_event (e : doc) : doc :=
  match lookup e "fullDocument" with Some (VDoc d) => d | _ => [] end.

Definition full_op (op : string) : bool :=
  String.eqb op "insert" || String.eqb op "replace" || String.eqb op "update".

Lemma ev_op_event k h op d chs : ev_op (event_doc k h op d chs) = op.
Proof.
  unfold event_doc, ev_op, lookup_str. destruct d as [dd|].
  - destruct (String.eqb op "insert" || String.eqb op "replace" || String.eqb op "update"); reflexivity.
  - reflexivity.
Qed.

Lemma ev_handle_event k h op d chs : ev_handle (event_doc k h op d chs) = h.
Proof.
  assert (E : (lookup_str ((if String.eqb (snd h) "" then [] else [("coll"%string, VString (snd h))]) ++
                           [("db"%string, VString (fst h))]) "db",
               lookup_str ((if String.eqb (snd h) "" then [] else [("coll"%string, VString (snd h))]) ++
                           [("db"%string, VString (fst h))]) "coll") = h).
  { destruct h as [db co]. cbn [fst snd]. destruct (String.eqb co "") eqn:E.
    - apply String.eqb_eq in E. subst. reflexivity.
    - reflexivity. }
  unfold event_doc, ev_handle. destruct d as [dd|].
  - destruct (String.eqb op "insert" || String.eqb op "replace" || String.eqb op "update");
      cbn [app lookup String.eqb Ascii.eqb Bool.eqb]; exact E.
  - cbn [app lookup String.eqb Ascii.eqb Bool.eqb]. exact E.
Qed.

Lemma key_of_event_doc k h op dd chs :
  key_of_event (event_doc k h op (Some dd) chs) = idv dd.
Proof. reflexivity. Qed.

Lemma full_of_event_doc k h op dd chs :
  full_op op = true -> full_of_event (event_doc k h op (Some dd) chs) = dd.
Proof.
  unfold full_op, event_doc, full_of_event. intros ->. reflexivity.
Qed.

(* ------------------------------------------------------------------ *)
(* contents and replay *)

Definition contents_t := list (handle * list doc).

(* the user namespaces with their documents in natural order *)
Definition contents_of (l : list (handle * coll)) : contents_t :=
  map (fun hc => (fst hc, map snd (c_docs (snd hc))))
      (filter (fun hc => negb (handle_eqb (fst hc) oplog_handle)) l).

Definition contents (c : catalog) : contents_t := contents_of (cat_ns c).

Fixpoint docs_at (cs : contents_t) (h : handle) : list doc :=
  match cs with
  | [] => []
  | (k, l) :: t => if handle_eqb k h then l else docs_at t h
  end.

Definition contents_eq (a b : contents_t) : Prop := forall h, docs_at a h = docs_at b h.

Definition cs_drop (p : handle -> bool) (cs : contents_t) : contents_t :=
  filter (fun x => negb (p (fst x))) cs.

Definition cs_set (cs : contents_t) (h : handle) (l : list doc) : contents_t :=
  (h, l) :: cs_drop (fun k => handle_eqb k h) cs.

(* the effect of one event on the documents of its namespace *)
Definition apply_doc_event (e : doc) (l : list doc) : list doc :=
  let op := ev_op e in
  if String.eqb op "insert" then ins_at (key_of_event e) (full_of_event e) l
  else if String.eqb op "replace" || String.eqb op "update"
       then set_at (key_of_event e) (full_of_event e) l
  else if String.eqb op "delete" then del_at (key_of_event e) l
  else l.

(* insert / replace / update set the full document under its key, delete
   removes it, drop clears the namespace, dropDatabase all of the database *)
Definition apply_event (e : doc) (cs : contents_t) : contents_t :=
  let op := ev_op e in
  let h := ev_handle e in
  if String.eqb op "drop" then cs_drop (fun k => handle_eqb k h) cs
  else if String.eqb op "dropDatabase" then cs_drop (fun k => String.eqb (fst k) (fst h)) cs
  else cs_set cs h (apply_doc_event e (docs_at cs h)).

Definition replay (evs : list doc) (cs : contents_t) : contents_t :=
  fold_left (fun cs e => apply_event e cs) evs cs.

Lemma handle_eqb_sym a b : handle_eqb a b = handle_eqb b a.
Proof.
  destruct (handle_eqb a b) eqn:E.
  - apply handle_eqb_eq in E. subst. symmetry. apply handle_eqb_refl.
  - symmetry. apply handle_eqb_neq. apply handle_eqb_neq in E. congruence.
Qed.

Lemma docs_at_drop p cs k :
  docs_at (cs_drop p cs) k = if p k then [] else docs_at cs k.
Proof.
  unfold cs_drop. induction cs as [|[k' l] t IH]; simpl.
  - destruct (p k); reflexivity.
  - destruct (p k') eqn:Pk'; simpl.
    + rewrite IH. destruct (p k) eqn:Pk; [reflexivity|].
      destruct (handle_eqb k' k) eqn:E; [|reflexivity].
      apply handle_eqb_eq in E. congruence.
    + destruct (handle_eqb k' k) eqn:E.
      * apply handle_eqb_eq in E. subst. rewrite Pk'. reflexivity.
      * exact IH.
Qed.

Lemma docs_at_set cs h l k :
  docs_at (cs_set cs h l) k = if handle_eqb h k then l else docs_at cs k.
Proof.
  unfold cs_set. cbn [docs_at]. destruct (handle_eqb h k) eqn:E; [reflexivity|].
  rewrite docs_at_drop. rewrite handle_eqb_sym, E. reflexivity.
Qed.

Lemma docs_at_contents_of l k :
  docs_at (contents_of l) k =
  if handle_eqb k oplog_handle then []
  else match ns_get l k with Some n => map snd (c_docs n) | None => [] end.
Proof.
  unfold contents_of. induction l as [|[k' n] t IH]; simpl.
  - destruct (handle_eqb k oplog_handle); reflexivity.
  - destruct (handle_eqb k' oplog_handle) eqn:E'; simpl.
    + rewrite IH. destruct (handle_eqb k oplog_handle) eqn:E; [reflexivity|].
      destruct (handle_eqb k' k) eqn:E2; [|reflexivity].
      apply handle_eqb_eq in E2. congruence.
    + destruct (handle_eqb k' k) eqn:E2.
      * apply handle_eqb_eq in E2. subst. rewrite E'. reflexivity.
      * exact IH.
Qed.

Lemma docs_at_contents c k :
  docs_at (contents c) k =
  if handle_eqb k oplog_handle then []
  else match ns_get (cat_ns c) k with Some n => map snd (c_docs n) | None => [] end.
Proof. apply docs_at_contents_of. Qed.

Lemma docs_at_apply_event e cs k :
  docs_at (apply_event e cs) k =
  if String.eqb (ev_op e) "drop" then (if handle_eqb k (ev_handle e) then [] else docs_at cs k)
  else if String.eqb (ev_op e) "dropDatabase"
       then (if String.eqb (fst k) (fst (ev_handle e)) then [] else docs_at cs k)
  else if handle_eqb (ev_handle e) k then apply_doc_event e (docs_at cs (ev_handle e))
       else docs_at cs k.
Proof.
  unfold apply_event. destruct (String.eqb (ev_op e) "drop"); [rewrite docs_at_drop; reflexivity|].
  destruct (String.eqb (ev_op e) "dropDatabase"); [rewrite docs_at_drop; reflexivity|].
  apply docs_at_set.
Qed.

Lemma contents_eq_refl a : contents_eq a a.
Proof. intro h. reflexivity. Qed.

Lemma contents_eq_sym a b : contents_eq a b -> contents_eq b a.
Proof. intros H h. symmetry. apply H. Qed.

Lemma contents_eq_trans a b c : contents_eq a b -> contents_eq b c -> contents_eq a c.
Proof. intros H1 H2 h. rewrite H1. apply H2. Qed.

Lemma apply_event_ext e a b : contents_eq a b -> contents_eq (apply_event e a) (apply_event e b).
Proof. intros H k. rewrite !docs_at_apply_event, !H. reflexivity. Qed.

Lemma replay_ext evs : forall a b, contents_eq a b -> contents_eq (replay evs a) (replay evs b).
Proof.
  induction evs as [|e t IH]; intros a b H; [exact H|].
  unfold replay. cbn [fold_left]. apply IH. apply apply_event_ext. exact H.
Qed.

Lemma replay_app evs1 evs2 cs : replay (evs1 ++ evs2) cs = replay evs2 (replay evs1 cs).
Proof. unfold replay. apply fold_left_app. Qed.

(* ------------------------------------------------------------------ *)
(* the events one operation appends *)

Definition is_doc_op (op : string) : bool :=
  String.eqb op "insert" || String.eqb op "replace" || String.eqb op "update" || String.eqb op "delete".

Lemma is_doc_op_cases op :
  is_doc_op op = true ->
  op = "insert"%string \/ op = "replace"%string \/ op = "update"%string \/ op = "delete"%string.
Proof.
  unfold is_doc_op. rewrite !orb_true_iff, !String.eqb_eq. tauto.
Qed.

(* a document event of namespace h with clock in (lo, hi] *)
Definition ev_ok (h : handle) (lo hi : Z) (e : doc) : Prop :=
  ev_handle e = h /\ is_doc_op (ev_op e) = true /\ lo < ev_clock e <= hi.

(* the event recorded for document sd by operation op *)
Definition ev_of (h : handle) (op : string) (sd : sdoc) (e : doc) : Prop :=
  ev_handle e = h /\ ev_op e = op /\ key_of_event e = idv (snd sd) /\
  (full_op op = true -> full_of_event e = snd sd).

Lemma Forall2_imp {A B} (R R' : A -> B -> Prop) l l' :
  (forall a b, R a b -> R' a b) -> Forall2 R l l' -> Forall2 R' l l'.
Proof. intros H F. induction F; constructor; auto. Qed.

Lemma append_all_spec l : forall w h op chs,
  exists evs,
    map snd (c_docs (w_oplog (append_all w h op l chs))) = map snd (c_docs (w_oplog w)) ++ evs /\
    w_ns (append_all w h op l chs) = w_ns w /\
    w_clock w <= w_clock (append_all w h op l chs) /\
    Forall2 (fun sd e => ev_of h op sd e /\
                         w_clock w < ev_clock e <= w_clock (append_all w h op l chs)) l evs.
Proof.
  induction l as [|sd t IH]; intros w h op chs; cbn [append_all].
  - exists []. rewrite app_nil_r. repeat split; auto; try lia.
  - unfold append_event.
    set (ch := match chs with Some (c :: _) => Some c | _ => None end).
    set (cht := match chs with Some (_ :: r) => Some r | _ => chs end).
    set (e := event_doc (w_clock w + 1) h op (Some (snd sd)) ch).
    set (w1 := mkW (w_ns w) (mkColl (c_docs (w_oplog w) ++ [(g_did (w_gen w), e)]) (c_indexes (w_oplog w)))
                   (w_clock w + 1) (mkGen (g_did (w_gen w) + 1) (g_oid (w_gen w)))).
    destruct (IH w1 h op cht) as [evs [A [B [C D]]]].
    assert (Hw1 : w_clock w1 = w_clock w + 1) by reflexivity. rewrite Hw1 in C.
    exists (e :: evs). split; [|split; [|split]].
    + rewrite A. unfold w1. cbn [w_oplog c_docs]. rewrite map_app, <- app_assoc. reflexivity.
    + rewrite B. reflexivity.
    + lia.
    + constructor.
      * split.
        -- unfold e. split; [apply ev_handle_event|]. split; [apply ev_op_event|].
           split; [apply key_of_event_doc|]. apply full_of_event_doc.
        -- unfold e at 1 2. rewrite event_doc_clock. lia.
      * eapply Forall2_imp; [|exact D]. intros a b [H1 H2]. split; [exact H1|].
        rewrite Hw1 in H2. lia.
Qed.

(* what one Transaction.<op> does, as seen by a log consumer *)
Definition wsteps (h : handle) (w w' : wstate) : Prop :=
  exists evs,
    map snd (c_docs (w_oplog w')) = map snd (c_docs (w_oplog w)) ++ evs /\
    Forall (ev_ok h (w_clock w) (w_clock w')) evs /\
    w_clock w <= w_clock w' /\
    fold_left (fun L e => apply_doc_event e L) evs (map snd (c_docs (w_ns w))) =
    map snd (c_docs (w_ns w')).

Lemma wsteps_same h w w' :
  w_oplog w' = w_oplog w -> w_clock w' = w_clock w ->
  map snd (c_docs (w_ns w')) = map snd (c_docs (w_ns w)) -> wsteps h w w'.
Proof.
  intros E1 E2 E3. exists []. rewrite E1, E2, E3, app_nil_r. repeat split; auto. lia.
Qed.

(* the events of `l` under `op`, folded with the rule f of that op *)
Lemma settle_steps w ns' g1 h op l chs (f : sdoc -> list doc -> list doc) :
  is_doc_op op = true ->
  (forall sd e L, ev_of h op sd e -> apply_doc_event e L = f sd L) ->
  fold_left (fun L sd => f sd L) l (map snd (c_docs (w_ns w))) = map snd (c_docs ns') ->
  wsteps h w (append_all (mkW ns' (w_oplog w) (w_clock w) g1) h op l chs).
Proof.
  intros Hop Hf Hfold.
  destruct (append_all_spec l (mkW ns' (w_oplog w) (w_clock w) g1) h op chs)
    as [evs [A [B [C D]]]].
  set (wf := append_all (mkW ns' (w_oplog w) (w_clock w) g1) h op l chs) in *. clearbody wf.
  cbn [w_oplog w_ns w_clock] in A, B, C, D.
  exists evs. split; [exact A|]. split; [|split; [exact C|]].
  - clear Hfold A. induction D as [|sd e l' evs' [[H1 [H2 _]] H3] D' IHD]; constructor; auto.
    split; [exact H1|]. split; [rewrite H2; exact Hop|exact H3].
  - rewrite B, <- Hfold. clear Hfold A B C.
    generalize (map snd (c_docs (w_ns w))).
    induction D as [|sd e l' evs' [H1 _] D' IHD]; intro L; cbn [fold_left]; [reflexivity|].
    rewrite (Hf sd e L H1). apply IHD.
Qed.

Lemma apply_insert_event h sd e L :
  ev_of h "insert" sd e -> apply_doc_event e L = ins_at (idv (snd sd)) (snd sd) L.
Proof.
  intros [_ [Ho [Hk Hf]]]. unfold apply_doc_event. rewrite Ho, Hk, (Hf eq_refl). reflexivity.
Qed.

Lemma apply_replace_event h sd e L :
  ev_of h "replace" sd e -> apply_doc_event e L = set_at (idv (snd sd)) (snd sd) L.
Proof.
  intros [_ [Ho [Hk Hf]]]. unfold apply_doc_event. rewrite Ho, Hk, (Hf eq_refl). reflexivity.
Qed.

Lemma apply_update_event h sd e L :
  ev_of h "update" sd e -> apply_doc_event e L = set_at (idv (snd sd)) (snd sd) L.
Proof.
  intros [_ [Ho [Hk Hf]]]. unfold apply_doc_event. rewrite Ho, Hk, (Hf eq_refl). reflexivity.
Qed.

Lemma apply_delete_event h sd e L :
  ev_of h "delete" sd e -> apply_doc_event e L = del_at (idv (snd sd)) L.
Proof.
  intros [_ [Ho [Hk _]]]. unfold apply_doc_event. rewrite Ho, Hk. reflexivity.
Qed.

Lemma is_doc_op_insert : is_doc_op "insert" = true. Proof. reflexivity. Qed.
Lemma is_doc_op_replace : is_doc_op "replace" = true. Proof. reflexivity. Qed.
Lemma is_doc_op_update : is_doc_op "update" = true. Proof. reflexivity. Qed.
Lemma is_doc_op_delete : is_doc_op "delete" = true. Proof. reflexivity. Qed.

(* from `(w, inl r) = (w', inl tr) -> G w'` to `G w`, without normalising w *)
Ltac take_w :=
  let H := fresh "H" in
  intro H; apply (f_equal fst) in H; cbn [fst] in H; rewrite <- H; clear H.

Section ReplayTxn.
  Set Default Proof Using "Type".
  Variable matchf : doc -> doc -> res bool.
  Variable applyf : doc -> doc -> doc -> bool -> list doc -> Z -> res (doc * list (string * value)).
  Variable extractf : doc -> res doc.

  Local Notation coll_inv := (CollInv.coll_inv matchf).
  Local Notation cat_inv := (CatInv.cat_inv matchf).
  Local Notation w_inv := (CatInv.w_inv matchf).
  Local Notation user_ok := (CatInv.user_ok matchf).
  Local Notation t_insert := (Txn.t_insert matchf).
  Local Notation t_replace := (Txn.t_replace matchf applyf extractf).
  Local Notation t_update := (Txn.t_update matchf applyf extractf).
  Local Notation t_delete := (Txn.t_delete matchf).

  Lemma user_ok_good n nc : user_ok n nc -> good_docs (c_docs nc).
  Proof. intros [A [B _]]. eapply user_good; eauto. Qed.

  (* appending one document with a fresh identity, recorded as an insert *)
  Lemma append_doc_steps w ns' g1 h fresh d' :
    c_docs ns' = c_docs (w_ns w) ++ [(fresh, d')] -> good_docs (c_docs ns') ->
    wsteps h w (append_all (mkW ns' (w_oplog w) (w_clock w) g1) h "insert" [(fresh, d')] None).
  Proof.
    intros Hd G.
    apply (settle_steps w ns' g1 h "insert" [(fresh, d')] None
             (fun sd L => ins_at (idv (snd sd)) (snd sd) L) is_doc_op_insert).
    - intros sd e L. apply apply_insert_event.
    - cbn [fold_left snd]. rewrite Hd in G. rewrite (ins_append _ _ _ G), Hd. reflexivity.
  Qed.

  Theorem t_insert_steps w h d w' tr :
    w_inv w -> t_insert w h d = (w', inl tr) -> wsteps h w w'.
  Proof.
    intros [[Hc [Hid Hlt]] _]. unfold Txn.t_insert.
    destruct (coll_insert matchf (w_ns w) (g_did (w_gen w)) d (gen_oid (g_oid (w_gen w))))
      as [ns' [r|e]] eqn:E; [|discriminate].
    destruct (coll_insert_inv matchf _ _ _ _ _ _ Hc Hid Hlt E) as [A [B _]].
    destruct (coll_insert_docs matchf _ _ _ _ _ _ E) as [d' [_ [Hd ->]]].
    cbn [r_modified]. take_w. apply append_doc_steps; auto.
    eapply user_good; eauto.
  Qed.

  Theorem t_delete_steps w h q s sk li w' tr :
    w_inv w -> t_delete w h q s sk li = (w', inl tr) -> wsteps h w w'.
  Proof.
    intros [[Hc [Hid Hlt]] _]. unfold Txn.t_delete.
    destruct (coll_delete matchf (w_ns w) q s sk li) as [ns' [r|e]] eqn:E; [|discriminate].
    destruct (coll_delete_docs matchf _ _ _ _ _ _ _ E) as [matched [Hf [Hm Hd]]].
    take_w.
    apply (settle_steps w ns' (w_gen w) h "delete" (r_matched r) None
             (fun sd L => del_at (idv (snd sd)) L) is_doc_op_delete).
    - intros sd e L. apply apply_delete_event.
    - rewrite Hd, Hm. apply minus_matched_replay.
      + eapply user_good; eauto.
      + apply (find_list_in matchf _ _ _ _ _ _ Hf).
  Qed.

  (* the upsert branch shared by replace and update *)
  Lemma upsert_steps w h fresh q rp up afs oid now ns'' r2 sd gf :
    w_inv w -> g_did (w_gen w) <= fresh ->
    coll_upsert matchf applyf extractf (w_ns w) fresh q rp up afs oid now = (ns'', inl r2) ->
    r_upserted r2 = Some sd ->
    wsteps h w (append_all (mkW ns'' (w_oplog w) (w_clock w) gf) h "insert" [sd] None).
  Proof.
    intros [[Hc [Hid Hlt]] _] L E Hu.
    assert (Hlt' : ids_lt (w_ns w) fresh) by (eapply ids_lt_mono; eauto).
    destruct (coll_upsert_inv matchf applyf extractf _ _ _ _ _ _ _ _ _ _ Hc Hid Hlt' E) as [A [B _]].
    destruct (coll_upsert_docs matchf applyf extractf _ _ _ _ _ _ _ _ _ _ E) as [d' [_ [Hd Hr]]].
    subst r2. cbn [r_upserted] in Hu. inversion Hu; subst sd.
    apply append_doc_steps; auto. eapply user_good; eauto.
  Qed.

  Theorem t_replace_steps w h q rp s up now w' tr :
    w_inv w -> t_replace w h q rp s up now = (w', inl tr) -> wsteps h w w'.
  Proof.
    intros Hw. pose proof Hw as [[Hc [Hid Hlt]] _]. unfold Txn.t_replace.
    destruct (coll_replace matchf (w_ns w) (g_did (w_gen w)) q rp s) as [ns' [r|e]] eqn:E;
      [|discriminate].
    destruct (coll_replace_full matchf _ _ _ _ _ _ _ E)
      as [[Hf [-> ->]]|[old [rest [repl' [Hf [Hp [Hd ->]]]]]]].
    - unfold empty_result. cbn [r_matched]. destruct up.
      + cbn [g_did g_oid].
        destruct (coll_upsert matchf applyf extractf (w_ns w) (g_did (w_gen w) + 1) q (Some rp) None []
                    (gen_oid (g_oid (w_gen w))) now) as [ns'' [r2|e]] eqn:E2; [|discriminate].
        destruct (r_upserted r2) as [sd|] eqn:Eu; [|discriminate].
        take_w. eapply upsert_steps; eauto. lia.
      + take_w. apply wsteps_same; reflexivity.
    - cbn [r_matched r_modified]. take_w.
      pose proof (user_good matchf _ Hc Hid) as G. pose proof G as [Hnd _].
      assert (Ho : In old (c_docs (w_ns w)))
        by (apply (find_list_in matchf _ _ _ _ _ _ Hf); left; reflexivity).
      destruct (value_eqb (VDoc (snd old)) (VDoc repl')) eqn:Ev; cbn [firstn].
      + cbn [append_all]. apply wsteps_same; try reflexivity. cbn [w_ns]. rewrite Hd.
        apply value_eqb_eq in Ev. injection Ev as Ev.
        apply set_replace_same; auto.
      + apply (settle_steps w ns' _ h "replace" [(g_did (w_gen w), repl')] None
                 (fun sd L => set_at (idv (snd sd)) (snd sd) L) is_doc_op_replace).
        * intros sd e L. apply apply_replace_event.
        * cbn [fold_left snd]. rewrite Hd. symmetry.
          apply (set_replace_docs (c_docs (w_ns w)) old (g_did (w_gen w), repl') G Ho).
          cbn [snd]. rewrite (replace_prepared_id _ _ _ Hp). apply keq_refl.
  Qed.

  Theorem t_update_steps w h q u s up sk li afs now w' tr :
    w_inv w -> t_update w h q u s up sk li afs now = (w', inl tr) -> wsteps h w w'.
  Proof.
    intros Hw. pose proof Hw as [[Hc [Hid Hlt]] _]. unfold Txn.t_update.
    destruct (coll_update matchf applyf (w_ns w) (g_did (w_gen w)) q u s sk li afs now)
      as [ns' [r|e]] eqn:E; [|discriminate].
    destruct (coll_update_full matchf applyf _ _ _ _ _ _ _ _ _ _ _ E)
      as [[Hf [-> ->]]|[matched [newl [chs [Hf [Hne [Hap [Hiu [Hd ->]]]]]]]]].
    - unfold empty_result. cbn [r_matched]. destruct up.
      + cbn [g_did g_oid].
        destruct (coll_upsert matchf applyf extractf (w_ns w) (g_did (w_gen w) + len []) q None (Some u) afs
                    (gen_oid (g_oid (w_gen w))) now) as [ns'' [r2|e]] eqn:E2; [|discriminate].
        destruct (r_upserted r2) as [sd|] eqn:Eu; [|discriminate].
        take_w. eapply upsert_steps; eauto. unfold len. simpl. lia.
      + take_w. apply wsteps_same; reflexivity.
    - cbn [r_matched r_modified r_changes].
      destruct matched as [|m ms] eqn:Em; [congruence|]. rewrite <- Em in *. take_w.
      pose proof (user_good matchf _ Hc Hid) as G. pose proof G as [Hnd _].
      destruct (find_list_nodup matchf _ _ _ _ _ _ Hf Hnd) as [Hndm _].
      pose proof (find_list_in matchf _ _ _ _ _ _ Hf) as Hincl.
      pose proof (apply_list_ids applyf _ _ _ _ _ _ _ _ Hap) as Hids.
      destruct (update_facts matchf _ _ matched newl Hc Hlt Hincl Hndm Hids) as [Hlen [Hfd [Hndn _]]].
      destruct (apply_list_lengths applyf _ _ _ _ _ _ _ _ Hap) as [L1 L2].
      apply (settle_steps w ns' _ h "update" _ _
               (fun sd L => set_at (idv (snd sd)) (snd sd) L) is_doc_op_update).
      + intros sd e L. apply apply_update_event.
      + rewrite Hd. apply (replace_docs_replay matched newl chs); auto.
  Qed.

  (* ---------------------------------------------------------------- *)
  (* catalogs *)

  (* the change log, oldest event first *)
  Definition events (c : catalog) : list doc := map snd (c_docs (oplog_of c)).

  (* c' is reached from c by appending events whose replay onto the contents
     of c gives the contents of c' *)
  Definition cat_step (c c' : catalog) : Prop :=
    exists evs,
      events c' = events c ++ evs /\
      Forall (fun e => cat_clock c < ev_clock e <= cat_clock c') evs /\
      cat_clock c <= cat_clock c' /\
      contents_eq (replay evs (contents c)) (contents c').

  Lemma cat_step_refl c : cat_step c c.
  Proof.
    exists []. rewrite app_nil_r. repeat split; auto; try lia.
  Qed.

  Lemma cat_step_trans a b c : cat_step a b -> cat_step b c -> cat_step a c.
  Proof.
    intros [e1 [A1 [F1 [L1 R1]]]] [e2 [A2 [F2 [L2 R2]]]]. exists (e1 ++ e2).
    split; [rewrite A2, A1, app_assoc; reflexivity|]. split; [|split; [lia|]].
    - apply Forall_app. split.
      + eapply Forall_impl; [|exact F1]. cbv beta. intros e H. lia.
      + eapply Forall_impl; [|exact F2]. cbv beta. intros e H. lia.
    - rewrite replay_app. eapply contents_eq_trans; [|exact R2]. apply replay_ext. exact R1.
  Qed.

  (* same log, same clock, same contents *)
  Lemma cat_step_same c c' :
    events c' = events c -> cat_clock c' = cat_clock c ->
    contents_eq (contents c) (contents c') -> cat_step c c'.
  Proof.
    intros E K C. exists []. rewrite E, K, app_nil_r. repeat split; auto. lia.
  Qed.

  Lemma docs_at_doc_event e cs k :
    is_doc_op (ev_op e) = true ->
    docs_at (apply_event e cs) k =
    if handle_eqb (ev_handle e) k then apply_doc_event e (docs_at cs (ev_handle e))
    else docs_at cs k.
  Proof.
    intro H. rewrite docs_at_apply_event.
    destruct (is_doc_op_cases _ H) as [-> |[-> |[-> | ->]]]; reflexivity.
  Qed.

  (* replaying document events of one namespace touches only that namespace *)
  Lemma replay_doc_events h evs : forall cs,
    Forall (fun e => ev_handle e = h /\ is_doc_op (ev_op e) = true) evs ->
    forall k, docs_at (replay evs cs) k =
              if handle_eqb h k then fold_left (fun L e => apply_doc_event e L) evs (docs_at cs h)
              else docs_at cs k.
  Proof.
    induction evs as [|e t IH]; intros cs F k.
    - cbn [replay fold_left]. destruct (handle_eqb h k) eqn:E; [|reflexivity].
      apply handle_eqb_eq in E. subst. reflexivity.
    - inversion F as [|? ? [Hh Ho] F']; subst. unfold replay. cbn [fold_left].
      fold (replay t (apply_event e cs)). rewrite (IH _ F' k).
      rewrite !(docs_at_doc_event e cs _ Ho), handle_eqb_refl.
      destruct (handle_eqb (ev_handle e) k); reflexivity.
  Qed.

  Lemma docs_at_ns_or_new c h :
    h <> oplog_handle -> docs_at (contents c) h = map snd (c_docs (ns_or_new c h)).
  Proof.
    intro N. rewrite docs_at_contents. rewrite (proj2 (handle_eqb_neq h oplog_handle) N).
    unfold ns_or_new. destruct (ns_get (cat_ns c) h); reflexivity.
  Qed.

  Lemma close_step c g h w' :
    h <> oplog_handle -> wsteps h (open_w c g h) w' -> cat_step c (close_w c h w').
  Proof.
    intros N [evs [A [F [L Hfold]]]]. cbn [open_w w_oplog w_clock w_ns] in A, F, L, Hfold.
    exists evs. split; [|split; [|split]].
    - unfold events at 1. unfold oplog_of, close_w. cbn [cat_ns]. rewrite ns_get_set_same. exact A.
    - eapply Forall_impl; [|exact F]. intros e [_ [_ H]]. exact H.
    - exact L.
    - intro k. rewrite (replay_doc_events h evs).
      2:{ eapply Forall_impl; [|exact F]. intros e [H1 [H2 _]]. auto. }
      rewrite (docs_at_contents (close_w c h w')). unfold close_w. cbn [cat_ns].
      destruct (handle_eqb k oplog_handle) eqn:Ek.
      + apply handle_eqb_eq in Ek. subst k.
        rewrite (proj2 (handle_eqb_neq h oplog_handle) N).
        rewrite docs_at_contents, handle_eqb_refl. reflexivity.
      + apply handle_eqb_neq in Ek. rewrite (ns_get_set_other _ oplog_handle k _ Ek).
        destruct (handle_eqb h k) eqn:Eh.
        * apply handle_eqb_eq in Eh. subst k. rewrite ns_get_set_same.
          rewrite (docs_at_ns_or_new c h N). exact Hfold.
        * apply handle_eqb_neq in Eh.
          rewrite (ns_get_set_other _ h k _ (fun E => Eh (eq_sym E))).
          rewrite docs_at_contents. rewrite (proj2 (handle_eqb_neq k oplog_handle) Ek). reflexivity.
  Qed.

  Lemma finish_step c g h ch r c' g' res :
    h <> oplog_handle ->
    (forall w tr, r = (w, inl tr) -> wsteps h (open_w c g h) w) ->
    finish c g h ch r = (c', g', res) -> cat_step c c'.
  Proof.
    intros N S. unfold finish. destruct r as [w [tr|e]].
    - destruct (ch tr); intro H; inversion H; subst; [|apply cat_step_refl].
      apply (close_step c g h w N). eapply S. reflexivity.
    - intro H; inversion H; subst. apply cat_step_refl.
  Qed.

  Ltac same := intro H; inversion H; subst; apply cat_step_refl.

  Theorem txn_replace_replay c g h q s rp up now c' g' r :
    cat_inv c (g_did g) -> Txn.txn_replace matchf applyf extractf c g h q s rp up now = (c', g', r) ->
    cat_step c c'.
  Proof.
    intros Hc. unfold Txn.txn_replace. destruct (guard_write h) eqn:G; [same|].
    apply guard_not_oplog in G.
    assert (F : forall c' g' r,
              finish c g h changed_mod (t_replace (open_w c g h) h q rp s up now) = (c', g', r) ->
              cat_step c c').
    { intros c2 g2 r2. apply finish_step; auto. intros w tr E.
      eapply t_replace_steps; [apply open_w_inv; eauto|exact E]. }
    destruct (ns_get (cat_ns c) h); [apply F|]. destruct up; [apply F|same].
  Qed.

  Theorem txn_update_replay c g h q s u sk li up afs now c' g' r :
    cat_inv c (g_did g) ->
    Txn.txn_update matchf applyf extractf c g h q s u sk li up afs now = (c', g', r) ->
    cat_step c c'.
  Proof.
    intros Hc. unfold Txn.txn_update. destruct (guard_write h) eqn:G; [same|].
    apply guard_not_oplog in G.
    assert (F : forall c' g' r,
              finish c g h changed_mod (t_update (open_w c g h) h q u s up sk li afs now) = (c', g', r) ->
              cat_step c c').
    { intros c2 g2 r2. apply finish_step; auto. intros w tr E.
      eapply t_update_steps; [apply open_w_inv; eauto|exact E]. }
    destruct (ns_get (cat_ns c) h); [apply F|]. destruct up; [apply F|same].
  Qed.

  Theorem txn_delete_replay c g h q s sk li c' g' r :
    cat_inv c (g_did g) -> Txn.txn_delete matchf c g h q s sk li = (c', g', r) -> cat_step c c'.
  Proof.
    intros Hc. unfold Txn.txn_delete. destruct (guard_write h) eqn:G; [same|].
    apply guard_not_oplog in G.
    destruct (ns_get (cat_ns c) h); [|same].
    apply finish_step; auto. intros w tr E.
    eapply t_delete_steps; [apply open_w_inv; eauto|exact E].
  Qed.

  Lemma insert_loop_step l : forall c g h o acc err c' g' acc' err',
    cat_inv c (g_did g) -> h <> oplog_handle ->
    Txn.insert_loop matchf c g h l o acc err = (c', g', acc', err') -> cat_step c c'.
  Proof.
    induction l as [|d t IH]; intros c g h o acc err c' g' acc' err' Hc N; cbn [Txn.insert_loop].
    - same.
    - pose proof (open_w_inv matchf c g h Hc N) as W.
      pose proof (t_insert_inv matchf (open_w c g h) h d W) as [L G].
      destruct (t_insert (open_w c g h) h d) as [w [r|e]] eqn:E; cbn [fst snd open_w w_gen] in *.
      + intro H. apply IH in H; auto.
        * eapply cat_step_trans; [|exact H]. apply (close_step c g h w N).
          eapply t_insert_steps; eauto.
        * eapply close_w_inv; eauto.
      + unfold gen_after_fail. destruct o; [same|].
        intro H. apply IH in H; auto. eapply cat_inv_mono; eauto.
  Qed.

  Theorem txn_insert_replay c g h l o c' g' r :
    cat_inv c (g_did g) -> Txn.txn_insert matchf c g h l o = (c', g', r) -> cat_step c c'.
  Proof.
    intros Hc. unfold Txn.txn_insert. destruct (guard_write h) eqn:G; [same|].
    apply guard_not_oplog in G.
    destruct (Txn.insert_loop matchf c g h l o [] None) as [[[c2 g2] acc] err] eqn:E.
    pose proof (insert_loop_step _ _ _ _ _ _ _ _ _ _ _ Hc G E) as S.
    destruct acc; intro H; inversion H; subst; [apply cat_step_refl|exact S].
  Qed.

  Lemma bulk_loop_step ops : forall c g h o now acc n c' g' acc' n',
    cat_inv c (g_did g) -> h <> oplog_handle ->
    Txn.bulk_loop matchf applyf extractf c g h ops o now acc n = (c', g', acc', n') -> cat_step c c'.
  Proof.
    induction ops as [|op t IH]; intros c g h o now acc n c' g' acc' n' Hc N; cbn [Txn.bulk_loop].
    - same.
    - pose proof (open_w_inv matchf c g h Hc N) as W.
      set (r := match op with
                | BInsert d => t_insert (open_w c g h) h d
                | BReplace f rp s u => t_replace (open_w c g h) h f rp s u now
                | BUpdate f up s u sk li afs => t_update (open_w c g h) h f up s u sk li afs now
                | BDelete f s sk li => t_delete (open_w c g h) h f s sk li
                end).
      assert (T : t_good matchf (open_w c g h) r /\
                  (forall w tr, r = (w, inl tr) -> wsteps h (open_w c g h) w)).
      { unfold r. destruct op; (split; [|intros w tr E]).
        - apply t_insert_inv; exact W.
        - eapply t_insert_steps; eauto.
        - apply t_replace_inv; exact W.
        - eapply t_replace_steps; eauto.
        - apply t_update_inv; exact W.
        - eapply t_update_steps; eauto.
        - apply t_delete_inv; exact W.
        - eapply t_delete_steps; eauto. }
      destruct T as [[L G] S]. clearbody r.
      destruct r as [w [tr|e]]; cbn [fst snd open_w w_gen] in *.
      + intro H. apply IH in H; auto.
        * eapply cat_step_trans; [|exact H]. apply (close_step c g h w N). eapply S. reflexivity.
        * eapply close_w_inv; eauto.
      + unfold gen_after_fail. destruct o; [same|].
        intro H. apply IH in H; auto. eapply cat_inv_mono; eauto.
  Qed.

  Theorem txn_bulk_replay c g h ops o now c' g' r :
    cat_inv c (g_did g) -> Txn.txn_bulk matchf applyf extractf c g h ops o now = (c', g', r) ->
    cat_step c c'.
  Proof.
    intros Hc. unfold Txn.txn_bulk. destruct (guard_write h) eqn:G; [same|].
    apply guard_not_oplog in G.
    destruct (Txn.bulk_loop matchf applyf extractf c g h ops o now [] 0) as [[[c2 g2] rs] n] eqn:E.
    pose proof (bulk_loop_step _ _ _ _ _ _ _ _ _ _ _ _ Hc G E) as S.
    destruct (0 <? n); intro H; inversion H; subst; [exact S|apply cat_step_refl].
  Qed.

  Lemma expire_loop_step l : forall c g now_ms deleted c' g' d',
    cat_inv c (g_did g) ->
    (forall h n, In (h, n) l -> h = oplog_handle -> c_indexes n = []) ->
    Txn.expire_loop matchf c g l now_ms deleted = inl (c', g', d') -> cat_step c c'.
  Proof.
    induction l as [|[h n] t IH]; intros c g now_ms deleted c' g' d' Hc Hl; cbn [Txn.expire_loop].
    - intro H; inversion H; subst. apply cat_step_refl.
    - assert (Hl' : forall h n, In (h, n) t -> h = oplog_handle -> c_indexes n = [])
        by (intros h0 n0 Hin; apply Hl; right; exact Hin).
      destruct (opt_list (map (fun ni => ttl_condition now_ms (snd ni)) (c_indexes n)))
        as [|cd cds] eqn:Ec.
      + intro H. eapply IH; eauto.
      + assert (N : h <> oplog_handle).
        { intro E. rewrite (Hl h n (or_introl eq_refl) E) in Ec. simpl in Ec. discriminate. }
        pose proof (open_w_inv matchf c g h Hc N) as W.
        pose proof (t_delete_inv matchf (open_w c g h) h [("$or"%string, VArr (cd :: cds))] None 0 0 W)
          as [L G].
        destruct (t_delete (open_w c g h) h [("$or"%string, VArr (cd :: cds))] None 0 0)
          as [w [tr|e]] eqn:E; cbn [fst snd open_w w_gen] in *; [|discriminate].
        intro H. apply IH in H; auto.
        * eapply cat_step_trans; [|exact H]. apply (close_step c g h w N).
          eapply t_delete_steps; eauto.
        * eapply close_w_inv; eauto.
  Qed.

  Theorem txn_expire_replay c g now_ms c' g' r :
    cat_inv c (g_did g) -> Txn.txn_expire matchf c g now_ms = (c', g', r) -> cat_step c c'.
  Proof.
    intros Hc. unfold Txn.txn_expire.
    destruct (Txn.expire_loop matchf c g (cat_ns c) now_ms 0) as [[[c2 g2] d]|e] eqn:E; [|same].
    apply expire_loop_step in E; auto.
    - destruct (0 <? d); intro H; inversion H; subst; [exact E|apply cat_step_refl].
    - intros h n Hin ->. destruct Hc as [H1 _]. destruct (H1 _ _ Hin) as [H _].
      destruct (H eq_refl) as [Hi _]. exact Hi.
  Qed.

  (* ---------------------------------------------------------------- *)
  (* operations that change a namespace without changing its documents *)

  Lemma events_set_user c h nc k :
    h <> oplog_handle -> events (mkCat (ns_set (cat_ns c) h nc) k) = events c.
  Proof.
    intro N. unfold events, oplog_of. cbn [cat_ns].
    rewrite ns_get_set_other by congruence. reflexivity.
  Qed.

  Lemma set_user_same_docs c h nc :
    h <> oplog_handle -> map snd (c_docs nc) = docs_at (contents c) h ->
    cat_step c (mkCat (ns_set (cat_ns c) h nc) (cat_clock c)).
  Proof.
    intros N D. apply cat_step_same; [apply events_set_user; exact N|reflexivity|].
    intro k. rewrite (docs_at_contents (mkCat _ _)). cbn [cat_ns].
    destruct (handle_eqb k oplog_handle) eqn:Ek.
    - rewrite docs_at_contents, Ek. reflexivity.
    - destruct (handle_eq_dec k h) as [->|Nk].
      + rewrite ns_get_set_same. symmetry. exact D.
      + rewrite ns_get_set_other by exact Nk. rewrite docs_at_contents, Ek. reflexivity.
  Qed.

  Theorem txn_create_replay c h c' r : txn_create c h = (c', r) -> cat_step c c'.
  Proof.
    unfold txn_create. destruct (guard_write h) eqn:G; [intro H; inversion H; subst; apply cat_step_refl|].
    apply guard_not_oplog in G.
    destruct (ns_get (cat_ns c) h) eqn:E; intro H; inversion H; subst; [apply cat_step_refl|].
    apply set_user_same_docs; auto.
    rewrite docs_at_contents, (proj2 (handle_eqb_neq h oplog_handle) G), E. reflexivity.
  Qed.

  Theorem txn_create_index_replay c n h name cf c' r :
    cat_inv c n -> Txn.txn_create_index matchf c h name cf = (c', r) -> cat_step c c'.
  Proof.
    intros Hc. unfold Txn.txn_create_index.
    destruct (guard_write h) eqn:G; [intro H; inversion H; subst; apply cat_step_refl|].
    apply guard_not_oplog in G.
    destruct (coll_create_index matchf (ns_or_new c h) name cf) as [n' [nm|e]] eqn:E;
      intro H; inversion H; subst; [|apply cat_step_refl].
    destruct (ns_or_new_ok matchf c n h Hc G) as [A [B C]].
    destruct (coll_create_index_inv matchf _ _ _ _ _ _ A B C E) as [_ [_ [_ D]]].
    apply set_user_same_docs; auto. rewrite D. symmetry. apply docs_at_ns_or_new. exact G.
  Qed.

  Theorem txn_drop_index_replay c n h name c' r :
    cat_inv c n -> txn_drop_index c h name = (c', r) -> cat_step c c'.
  Proof.
    intros Hc. unfold txn_drop_index.
    destruct (guard_write h) eqn:G; [intro H; inversion H; subst; apply cat_step_refl|].
    apply guard_not_oplog in G.
    destruct (ns_get (cat_ns c) h) as [nc|] eqn:Eg; [|intro H; inversion H; subst; apply cat_step_refl].
    destruct (cat_inv_get matchf c n h nc Hc Eg G) as [A [B C]].
    destruct (coll_drop_index nc name) as [n' [[|x l]|e]] eqn:E;
      intro H; inversion H; subst; try apply cat_step_refl.
    destruct (coll_drop_index_inv matchf _ _ _ _ _ A B C E) as [_ [_ [_ D]]].
    apply set_user_same_docs; auto. rewrite D.
    rewrite docs_at_contents, (proj2 (handle_eqb_neq h oplog_handle) G), Eg. reflexivity.
  Qed.

  Theorem txn_drop_index_by_key_replay c n h key c' r :
    cat_inv c n -> txn_drop_index_by_key c h key = (c', r) -> cat_step c c'.
  Proof.
    intros Hc. unfold txn_drop_index_by_key.
    destruct (guard_write h) eqn:G; [intro H; inversion H; subst; apply cat_step_refl|].
    destruct (ns_get (cat_ns c) h) as [nc|]; [|intro H; inversion H; subst; apply cat_step_refl].
    destruct (filter _ (c_indexes nc)) as [|[nm ix] rest]; [intro H; inversion H; subst; apply cat_step_refl|].
    destruct (String.eqb nm ""); [intro H; inversion H; subst; apply cat_step_refl|].
    apply (txn_drop_index_replay c n). exact Hc.
  Qed.

  (* ---------------------------------------------------------------- *)
  (* Drop *)

  Lemma drop_events_spec l : forall ol clock g ol' k g',
    drop_events ol clock g l = (ol', k, g') ->
    exists evs,
      map snd (c_docs ol') = map snd (c_docs ol) ++ evs /\ clock <= k /\
      Forall2 (fun v e => ev_op e = "drop"%string /\ ev_handle e = v /\ clock < ev_clock e <= k) l evs.
  Proof.
    induction l as [|v t IH]; intros ol clock g ol' k g'; cbn [drop_events].
    - intro H; inversion H; subst. exists []. rewrite app_nil_r. repeat split; auto. lia.
    - unfold append_event.
      set (e := event_doc (clock + 1) v "drop" None None).
      intro H. apply IH in H. destruct H as [evs [A [L F]]]. cbn [c_docs] in A.
      exists (e :: evs). split; [|split; [lia|]].
      + rewrite A, map_app, <- app_assoc. reflexivity.
      + constructor.
        * unfold e. rewrite ev_op_event, ev_handle_event, event_doc_clock. repeat split; auto; lia.
        * eapply Forall2_imp; [|exact F]. cbv beta. intros a b [H1 [H2 H3]]. repeat split; auto; lia.
  Qed.

  Lemma replay_drops l evs : forall cs,
    Forall2 (fun v e => ev_op e = "drop"%string /\ ev_handle e = v) l evs ->
    forall k, docs_at (replay evs cs) k =
              if existsb (fun v => handle_eqb k v) l then [] else docs_at cs k.
  Proof.
    intros cs F. revert cs. induction F as [|v e l' evs' [Ho Hh] F' IH]; intros cs k; [reflexivity|].
    unfold replay. cbn [fold_left existsb]. fold (replay evs' (apply_event e cs)).
    rewrite IH, docs_at_apply_event, Ho, Hh. cbn [String.eqb Ascii.eqb Bool.eqb].
    destruct (handle_eqb k v); cbn [orb]; [|reflexivity].
    destruct (existsb (fun v0 => handle_eqb k v0) l'); reflexivity.
  Qed.

  Lemma ns_get_filter (p : handle -> bool) l k :
    ns_get (filter (fun kc : handle * coll => negb (p (fst kc))) l) k =
    if p k then None else ns_get l k.
  Proof.
    induction l as [|[k' n] t IH]; simpl.
    - destruct (p k); reflexivity.
    - destruct (p k') eqn:Pk'; simpl.
      + rewrite IH. destruct (p k) eqn:Pk; [reflexivity|].
        destruct (handle_eqb k' k) eqn:E; [|reflexivity].
        apply handle_eqb_eq in E. congruence.
      + destruct (handle_eqb k' k) eqn:E.
        * apply handle_eqb_eq in E. subst. rewrite Pk'. reflexivity.
        * exact IH.
  Qed.

  Theorem txn_drop_replay c n g h c' g' r :
    cat_inv c n -> txn_drop c g h = (c', g', r) -> cat_step c c'.
  Proof.
    intros Hc. unfold txn_drop.
    destruct (negb (valid_handle h false)); [same|].
    destruct (is_local h) eqn:Lo; [same|].
    destruct (map fst (filter (fun kc => drop_matches h (fst kc)) (cat_ns c))) as [|v0 vs] eqn:V;
      [same|]. rewrite <- V. clear V v0 vs.
    set (victims := map fst (filter (fun kc => drop_matches h (fst kc)) (cat_ns c))).
    destruct (cat_inv_oplog matchf c _ Hc) as [Hg _]. pose proof Hc as [_ [_ [_ Hk]]].
    destruct (drop_events (oplog_of c) (cat_clock c) g victims) as [[ol cl] g1] eqn:E.
    destruct (drop_events_spec _ _ _ _ _ _ _ E) as [evs1 [A1 [L1 F1]]].
    (* the optional dropDatabase event *)
    assert (T : forall ol2 cl2 g2,
              (if String.eqb (snd h) "" then append_event ol cl g1 h "dropDatabase" None None
               else (ol, cl, g1)) = (ol2, cl2, g2) ->
              exists evs2,
                map snd (c_docs ol2) = map snd (c_docs ol) ++ evs2 /\ cl <= cl2 /\
                Forall (fun e => cl < ev_clock e <= cl2) evs2 /\
                forall cs k, docs_at (replay evs2 cs) k =
                             if String.eqb (snd h) "" && String.eqb (fst k) (fst h) then []
                             else docs_at cs k).
    { intros ol2 cl2 g2. destruct (String.eqb (snd h) "").
      - unfold append_event. intro E2. inversion E2; subst.
        exists [event_doc (cl + 1) h "dropDatabase" None None]. cbn [c_docs].
        split; [rewrite map_app; reflexivity|]. split; [lia|]. split.
        + constructor; [|constructor]. rewrite event_doc_clock. lia.
        + intros cs k. cbn [replay fold_left]. rewrite docs_at_apply_event.
          rewrite ev_op_event, ev_handle_event. reflexivity.
      - intro E2; inversion E2; subst. exists []. rewrite app_nil_r.
        split; [reflexivity|]. split; [lia|]. split; [constructor|]. reflexivity. }
    destruct (if String.eqb (snd h) "" then _ else _) as [[ol2 cl2] g2].
    destruct (T _ _ _ eq_refl) as [evs2 [A2 [L2 [F2 R2]]]].
    intro H; inversion H; subst. clear H T.
    exists (evs1 ++ evs2). split; [|split; [|split]].
    - unfold events at 1. unfold oplog_of. cbn [cat_ns]. rewrite ns_get_set_same.
      rewrite A2, A1, app_assoc. reflexivity.
    - cbn [cat_clock]. apply Forall_app. split.
      + clear -F1 L2. induction F1 as [|a b l1 l2 [_ [_ H]] F IH]; constructor; auto. lia.
      + eapply Forall_impl; [|exact F2]. cbv beta. intros e H. lia.
    - cbn [cat_clock]. lia.
    - intro k. rewrite replay_app, R2.
      rewrite (replay_drops victims evs1).
      2:{ eapply Forall2_imp; [|exact F1]. cbv beta. intros a b [H1 [H2 _]]. auto. }
      rewrite (docs_at_contents (mkCat _ _)). cbn [cat_ns].
      rewrite (docs_at_contents c).
      destruct (handle_eqb k oplog_handle) eqn:Ek.
      { destruct (String.eqb (snd h) "" && String.eqb (fst k) (fst h)); [reflexivity|].
        destruct (existsb _ victims); reflexivity. }
      apply handle_eqb_neq in Ek. rewrite (ns_get_set_other _ oplog_handle k _ Ek).
      rewrite (ns_get_filter (drop_matches h)).
      unfold drop_matches at 1.
      destruct (String.eqb (snd h) "" && String.eqb (fst k) (fst h)) eqn:Edb.
      { rewrite orb_true_r. reflexivity. }
      rewrite orb_false_r.
      destruct (existsb (fun v => handle_eqb k v) victims) eqn:Ev.
      + (* k is a victim: it matches the handle itself *)
        apply existsb_exists in Ev. destruct Ev as [v [Hv Hkv]]. apply handle_eqb_eq in Hkv. subst v.
        unfold victims in Hv. apply in_map_iff in Hv. destruct Hv as [[k' n'] [Hk' Hin]].
        cbn [fst] in Hk'. subst k'. apply filter_In in Hin. destruct Hin as [_ Hm]. cbn [fst] in Hm.
        unfold drop_matches in Hm. rewrite Edb, orb_false_r in Hm. rewrite Hm. reflexivity.
      + destruct (handle_eqb k h) eqn:Ekh; [|reflexivity].
        (* matches but is not a namespace of the catalog *)
        destruct (ns_get (cat_ns c) k) as [nk|] eqn:Egk; [|reflexivity].
        exfalso. apply ns_get_in in Egk.
        assert (Hv : In k victims).
        { unfold victims. apply in_map_iff. exists (k, nk). split; [reflexivity|].
          apply filter_In. split; [exact Egk|]. cbn [fst]. unfold drop_matches. rewrite Ekh. reflexivity. }
        assert (existsb (fun v => handle_eqb k v) victims = true).
        { apply existsb_exists. exists k. split; [exact Hv|apply handle_eqb_refl]. }
        congruence.
  Qed.

  (* ---------------------------------------------------------------- *)
  (* the oplog trim: a prefix of the log disappears, the contents stay *)

  Theorem trim_keeps_contents c k : contents (trim_oplog c k) = contents c.
  Proof.
    unfold contents, trim_oplog. cbn [cat_ns].
    generalize (mkColl (drop k (c_docs (oplog_of c))) (c_indexes (oplog_of c))). intro o.
    unfold contents_of. f_equal.
    induction (cat_ns c) as [|[k' n] t IH]; simpl.
    - reflexivity.
    - destruct (handle_eqb k' oplog_handle) eqn:E; simpl.
      + reflexivity.
      + rewrite E. simpl. rewrite IH. reflexivity.
  Qed.

  Theorem trim_removes_prefix c k :
    exists pre, events c = pre ++ events (trim_oplog c k).
  Proof.
    unfold events at 2. unfold oplog_of, trim_oplog. cbn [cat_ns].
    rewrite ns_get_set_same. cbn [c_docs].
    destruct (drop_suffix (c_docs (oplog_of c)) k) as [pre Hp].
    exists (map snd pre). unfold events. rewrite Hp at 1. rewrite map_app. reflexivity.
  Qed.

  Lemma trim_clock c k : cat_clock (trim_oplog c k) = cat_clock c.
  Proof. reflexivity. Qed.

End ReplayTxn.

Print Assumptions txn_insert_replay.
Print Assumptions txn_replace_replay.
Print Assumptions txn_update_replay.
Print Assumptions txn_delete_replay.
Print Assumptions txn_bulk_replay.
Print Assumptions txn_expire_replay.
Print Assumptions txn_drop_replay.
Print Assumptions txn_create_replay.
Print Assumptions txn_create_index_replay.
Print Assumptions txn_drop_index_replay.
Print Assumptions txn_drop_index_by_key_replay.
Print Assumptions trim_keeps_contents.
Print Assumptions trim_removes_prefix.
