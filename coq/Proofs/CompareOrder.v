(* CompareOrder.v — bsonkit.Compare (the model `compare`) is a total preorder
   on ALL values, consistent with the class order and exact on numbers. *)
From Coq Require Import List ZArith QArith Lia.
From Lungo.Model Require Import Compare.
From Lungo.Proofs Require Import OrderLaws NumOrder.
Import ListNotations.
Open Scope Z_scope.

(* ---------------------------------------------------------------- *)
(* induction over values with the nested lists *)

Definition sub (P : value -> Prop) (v : value) : Prop :=
  match v with
  | VDoc d => Forall (fun kv => P (snd kv)) d
  | VArr a => Forall P a
  | _ => True
  end.

Lemma value_ind' (P : value -> Prop) :
  (forall v, sub P v -> P v) -> forall v, P v.
Proof.
  intro H. fix IH 1. intro v. apply H.
  destruct v; simpl; try exact I.
  - induction d as [|[k x] d IHd]; constructor; [apply IH | exact IHd].
  - induction a as [|x a IHa]; constructor; [apply IH | exact IHa].
Qed.

(* ---------------------------------------------------------------- *)
(* the class rank decides first *)

Definition R (v : value) : Z := class_rank (class_of v).

Lemma compare_rank_lt a b : R a < R b -> compare a b = Lt.
Proof.
  unfold R. intro H. change (R a ?= R b = Lt) in H. unfold R in H.
  destruct a; simpl in *; rewrite H; reflexivity.
Qed.

Lemma compare_rank_gt a b : R a > R b -> compare a b = Gt.
Proof.
  unfold R. intro H. change (R a ?= R b = Gt) in H. unfold R in H.
  destruct a; simpl in *; rewrite H; reflexivity.
Qed.

Lemma compare_lt_rank a b : compare a b = Lt -> R a <= R b.
Proof.
  intro H. destruct (Z_le_gt_dec (R a) (R b)) as [L|G]; auto.
  rewrite (compare_rank_gt _ _ G) in H. discriminate.
Qed.

Lemma compare_eq_rank a b : compare a b = Eq -> R a = R b.
Proof.
  intro H. destruct (Z.lt_trichotomy (R a) (R b)) as [L|[E|G]]; auto.
  - rewrite (compare_rank_lt _ _ L) in H. discriminate.
  - apply Z.lt_gt in G. rewrite (compare_rank_gt _ _ G) in H. discriminate.
Qed.

Lemma laws_from_same_rank a :
  laws_in compare (fun b => R b = R a) a -> laws_at compare a.
Proof.
  intros [r an el tr er]. constructor.
  - exact r.
  - intros b _. destruct (Z.lt_trichotomy (R a) (R b)) as [L|[E|G]].
    + rewrite (compare_rank_lt _ _ L). apply Z.lt_gt in L.
      rewrite (compare_rank_gt _ _ L). reflexivity.
    + apply an. auto.
    + rewrite (compare_rank_lt _ _ G). apply Z.lt_gt in G.
      rewrite (compare_rank_gt _ _ G). reflexivity.
  - intros b c _ _ Hab. pose proof (compare_eq_rank _ _ Hab) as Eab.
    destruct (Z.lt_trichotomy (R a) (R c)) as [L|[E|G]].
    + rewrite (compare_rank_lt _ _ L). rewrite Eab in L.
      rewrite (compare_rank_lt _ _ L). reflexivity.
    + apply el; auto.
    + apply Z.lt_gt in G. rewrite (compare_rank_gt _ _ G). rewrite Eab in G.
      rewrite (compare_rank_gt _ _ G). reflexivity.
  - intros b c _ _ Hab Hbc.
    pose proof (compare_lt_rank _ _ Hab). pose proof (compare_lt_rank _ _ Hbc).
    destruct (Z_lt_le_dec (R a) (R c)) as [L|G].
    + apply compare_rank_lt; exact L.
    + apply tr with b; auto; lia.
  - intros b c _ _ Hbc. pose proof (compare_eq_rank _ _ Hbc) as Ebc.
    destruct (Z.lt_trichotomy (R a) (R b)) as [L|[E|G]].
    + rewrite (compare_rank_lt _ _ L). rewrite Ebc in L.
      rewrite (compare_rank_lt _ _ L). reflexivity.
    + apply er; auto. congruence.
    + apply Z.lt_gt in G. rewrite (compare_rank_gt _ _ G). rewrite Ebc in G.
      rewrite (compare_rank_gt _ _ G). reflexivity.
Qed.

(* ---------------------------------------------------------------- *)
(* inside one class, compare is a projection order *)

Definition k_null (v : value) : unit := tt.
Definition c_null (_ _ : unit) : comparison := Eq.

Definition k_num (v : value) : xnum :=
  match numval v with Some x => x | None => XNaN end.

Definition k_str (v : value) : string :=
  match v with VString s => s | VOid s => s | _ => EmptyString end.

Definition k_doc (v : value) : list (string * value) :=
  match v with VDoc d => d | _ => [] end.

Definition k_arr (v : value) : list value :=
  match v with VArr a => a | _ => [] end.

Definition k_bin (v : value) : Z * (Z * string) :=
  match v with VBin s d => (str_len d, (s, d)) | _ => (0, (0, EmptyString)) end.

Definition k_bool (v : value) : bool :=
  match v with VBool b => b | _ => false end.

Definition k_date (v : value) : Z :=
  match v with VDate z => z | _ => 0 end.

Definition k_ts (v : value) : Z * Z :=
  match v with VTs t i => (t, i) | _ => (0, 0) end.

Definition k_regex (v : value) : string * string :=
  match v with VRegex p o => (p, o) | _ => (EmptyString, EmptyString) end.

Lemma c_null_total : total_laws c_null.
Proof. intro a; constructor; intros; try reflexivity; discriminate. Qed.

Definition doc_cmp := lex (pair_cmp str_compare compare).

Lemma compare_doc d e : compare (VDoc d) (VDoc e) = doc_cmp d e.
Proof.
  unfold doc_cmp. revert e.
  induction d as [|[k x] d IH]; intros [|[k' y] e]; try reflexivity.
  simpl. unfold pair_cmp at 1. simpl.
  destruct (str_compare k k'); try reflexivity.
  destruct (compare x y); try reflexivity.
  apply IH.
Qed.

Lemma compare_arr x y : compare (VArr x) (VArr y) = lex compare x y.
Proof.
  revert y. induction x as [|u x IH]; intros [|v y]; try reflexivity.
  simpl. destruct (compare u v); try reflexivity. apply IH.
Qed.

Ltac same_rank_cases b c :=
  destruct b; try (simpl in *; discriminate);
  destruct c; try (simpl in *; discriminate).

Lemma compare_laws : forall a, laws_at compare a.
Proof.
  apply value_ind'. intros a Hsub. apply laws_from_same_rank.
  destruct a.
  - (* VNull *)
    apply (laws_proj compare c_null k_null); [reflexivity| |apply c_null_total].
    intros v1 v2 S1 S2. unfold R in *. same_rank_cases v1 v2; reflexivity.
  - (* VMissing *)
    apply (laws_proj compare c_null k_null); [reflexivity| |apply c_null_total].
    intros v1 v2 S1 S2. unfold R in *. same_rank_cases v1 v2; reflexivity.
  - apply (laws_proj compare xcompare k_num); [reflexivity| |apply xcompare_total].
    intros v1 v2 S1 S2. unfold R in *. same_rank_cases v1 v2; reflexivity.
  - apply (laws_proj compare xcompare k_num); [reflexivity| |apply xcompare_total].
    intros v1 v2 S1 S2. unfold R in *. same_rank_cases v1 v2; reflexivity.
  - apply (laws_proj compare xcompare k_num); [reflexivity| |apply xcompare_total].
    intros v1 v2 S1 S2. unfold R in *. same_rank_cases v1 v2; reflexivity.
  - apply (laws_proj compare xcompare k_num); [reflexivity| |apply xcompare_total].
    intros v1 v2 S1 S2. unfold R in *. same_rank_cases v1 v2; reflexivity.
  - (* VString *)
    apply (laws_proj compare str_compare k_str); [reflexivity| |apply str_compare_total].
    intros v1 v2 S1 S2. unfold R in *. same_rank_cases v1 v2; reflexivity.
  - (* VDoc *)
    apply (laws_proj compare doc_cmp k_doc); [reflexivity| |].
    + intros v1 v2 S1 S2. unfold R in *. same_rank_cases v1 v2. apply compare_doc.
    + simpl. apply lex_laws. simpl in Hsub.
      induction Hsub as [|[k x] d Hx Hd IH]; constructor; auto.
      apply pair_laws; [apply str_compare_total | exact Hx].
  - (* VArr *)
    apply (laws_proj compare (lex compare) k_arr); [reflexivity| |].
    + intros v1 v2 S1 S2. unfold R in *. same_rank_cases v1 v2. apply compare_arr.
    + simpl. apply lex_laws. exact Hsub.
  - (* VBin *)
    apply (laws_proj compare (pair_cmp Z.compare (pair_cmp Z.compare str_compare)) k_bin);
      [reflexivity| |].
    + intros v1 v2 S1 S2. unfold R in *. same_rank_cases v1 v2. reflexivity.
    + apply pair_total; [apply Zcompare_total|].
      apply pair_total; [apply Zcompare_total|apply str_compare_total].
  - (* VOid *)
    apply (laws_proj compare str_compare k_str); [reflexivity| |apply str_compare_total].
    intros v1 v2 S1 S2. unfold R in *. same_rank_cases v1 v2; reflexivity.
  - (* VBool *)
    apply (laws_proj compare bool_compare k_bool); [reflexivity| |apply bool_compare_total].
    intros v1 v2 S1 S2. unfold R in *. same_rank_cases v1 v2; reflexivity.
  - (* VDate *)
    apply (laws_proj compare Z.compare k_date); [reflexivity| |apply Zcompare_total].
    intros v1 v2 S1 S2. unfold R in *. same_rank_cases v1 v2; reflexivity.
  - (* VTs *)
    apply (laws_proj compare (pair_cmp Z.compare Z.compare) k_ts); [reflexivity| |].
    + intros v1 v2 S1 S2. unfold R in *. same_rank_cases v1 v2; reflexivity.
    + apply pair_total; apply Zcompare_total.
  - (* VRegex *)
    apply (laws_proj compare (pair_cmp str_compare str_compare) k_regex); [reflexivity| |].
    + intros v1 v2 S1 S2. unfold R in *. same_rank_cases v1 v2; reflexivity.
    + apply pair_total; apply str_compare_total.
Qed.

Theorem compare_total : total_laws compare.
Proof. exact compare_laws. Qed.

(* ---------------------------------------------------------------- *)
(* the statements of C12 *)

Theorem compare_refl a : compare a a = Eq.
Proof. apply (tl_refl compare compare_total). Qed.

Theorem compare_antisym a b : compare b a = CompOpp (compare a b).
Proof. apply (tl_anti compare compare_total). Qed.

Theorem compare_trans a b c :
  compare a b <> Gt -> compare b c <> Gt -> compare a c <> Gt.
Proof. apply (tl_le_trans compare compare_total). Qed.

Theorem compare_lt_trans a b c :
  compare a b = Lt -> compare b c = Lt -> compare a c = Lt.
Proof. apply (tl_lt_trans compare compare_total). Qed.

Theorem compare_eq_interchangeable a b :
  compare a b = Eq -> forall c, compare a c = compare b c /\ compare c a = compare c b.
Proof.
  intros H c. split.
  - apply (tl_eql compare compare_total); exact H.
  - apply (tl_eqr compare compare_total); exact H.
Qed.

(* different type classes are ordered by the class rank alone *)
Theorem compare_class a b :
  class_of a <> class_of b ->
  compare a b = Z.compare (class_rank (class_of a)) (class_rank (class_of b)).
Proof.
  intro H.
  assert (Hr : R a <> R b).
  { unfold R. intro E. apply H. destruct (class_of a), (class_of b); simpl in E; congruence. }
  destruct (Z.lt_trichotomy (R a) (R b)) as [L|[E|G]]; [| contradiction |].
  - rewrite (compare_rank_lt _ _ L). symmetry. exact L.
  - apply Z.lt_gt in G. rewrite (compare_rank_gt _ _ G). symmetry. exact G.
Qed.

(* the class ranks are the MongoDB comparison order *)
Definition mongo_order : list class :=
  [CNull; CNumber; CString; CDocument; CArray; CBinary; CObjectID; CBoolean;
   CDate; CTimestamp; CRegex].

Theorem class_rank_is_mongo_order :
  forall c, nth_error mongo_order (Z.to_nat (class_rank c)) = Some c.
Proof. destruct c; reflexivity. Qed.

(* numbers of all four types are ordered by exact mathematical value, NaN lowest *)
Theorem compare_num_exact a b x y :
  numval a = Some x -> numval b = Some y -> compare a b = xcompare x y.
Proof.
  intros Ha Hb.
  destruct a; try discriminate; destruct b; try discriminate;
    simpl; unfold compare_num; rewrite Ha, Hb; reflexivity.
Qed.

Theorem xcompare_spec x y :
  xcompare x y =
  match x, y with
  | XFin p, XFin q => Qcompare p q
  | XNaN, XNaN | XNegInf, XNegInf | XPosInf, XPosInf => Eq
  | XNaN, _ => Lt
  | _, XNaN => Gt
  | XNegInf, _ => Lt
  | _, XNegInf => Gt
  | _, XPosInf => Lt
  | XPosInf, _ => Gt
  end.
Proof. destruct x, y; reflexivity. Qed.
