(* ReplayBase.v — facts about document keys needed by the change-log replay
   (C08): structural equality is Leibniz equality, the key tuples of the _id
   index, Put of "_id", and "distinct documents of a good collection have
   compare-distinct _id values". *)
From Coq Require Import List ZArith Lia Bool.
From Lungo.Model Require Import Collection.
From Lungo.Proofs Require Import OrderLaws CompareOrder EntryLemmas IndexInv CollLists CollInv.
Import ListNotations.
Open Scope Z_scope.
Open Scope list_scope.

(* ------------------------------------------------------------------ *)
(* value_eqb is Leibniz equality *)

Lemma value_eqb_eq : forall a b, value_eqb a b = true -> a = b.
Proof.
  apply (value_ind' (fun a => forall b, value_eqb a b = true -> a = b)).
  intros a IH b. destruct a; destruct b; simpl; try discriminate; intro H.
  - reflexivity.
  - reflexivity.
  - apply Z.eqb_eq in H. subst. reflexivity.
  - apply Z.eqb_eq in H. subst. reflexivity.
  - apply Z.eqb_eq in H. subst. reflexivity.
  - apply andb_true_iff in H. destruct H as [H1 H2].
    apply Z.eqb_eq in H1. apply Z.eqb_eq in H2. subst. reflexivity.
  - apply String.eqb_eq in H. subst. reflexivity.
  - f_equal. simpl in IH. revert d0 H.
    induction IH as [|[k x] t Hx Ht IHt]; intros [|[k' y] e] H; try discriminate; auto.
    apply andb_true_iff in H. destruct H as [H H3]. apply andb_true_iff in H. destruct H as [H1 H2].
    apply String.eqb_eq in H1. subst k'. simpl in Hx. rewrite (Hx y H2). f_equal. apply IHt. exact H3.
  - f_equal. simpl in IH. revert a0 H.
    induction IH as [|x t Hx Ht IHt]; intros [|y e] H; try discriminate; auto.
    apply andb_true_iff in H. destruct H as [H2 H3].
    rewrite (Hx y H2). f_equal. apply IHt. exact H3.
  - apply andb_true_iff in H. destruct H as [H1 H2].
    apply Z.eqb_eq in H1. apply String.eqb_eq in H2. subst. reflexivity.
  - apply String.eqb_eq in H. subst. reflexivity.
  - apply Bool.eqb_prop in H. subst. reflexivity.
  - apply Z.eqb_eq in H. subst. reflexivity.
  - apply andb_true_iff in H. destruct H as [H1 H2].
    apply Z.eqb_eq in H1. apply Z.eqb_eq in H2. subst. reflexivity.
  - apply andb_true_iff in H. destruct H as [H1 H2].
    apply String.eqb_eq in H1. apply String.eqb_eq in H2. subst. reflexivity.
Qed.

(* ------------------------------------------------------------------ *)
(* the "_id" path *)

Definition idv (d : doc) : value := Get d "_id".

Lemma split_path_id : split_path "_id" = ["_id"%string].
Proof. reflexivity. Qed.

(* looking up "_id" in a document does not depend on the collect / compact
   flags and never reports nesting *)
Lemma get_id_flags d c1 c2 :
  get (VDoc d) ["_id"%string] c1 c2 = get (VDoc d) ["_id"%string] false false /\
  snd (get (VDoc d) ["_id"%string] c1 c2) = false.
Proof.
  induction d as [|[k x] t IH].
  - simpl. auto.
  - simpl. simpl in IH. destruct (String.eqb k "_id"); [|exact IH].
    destruct x; simpl; auto.
Qed.

Lemma get_id_all d : fst (All d "_id" true true) = idv d.
Proof.
  unfold All, all_path, idv, Get, get_path. rewrite split_path_id.
  destruct (get_id_flags d true true) as [H1 H2].
  destruct (get (VDoc d) ["_id"%string] true true) as [v nested]. simpl in H2. subst nested.
  rewrite <- H1. reflexivity.
Qed.

Lemma get_nil v c1 c2 : get v [] c1 c2 = (v, false).
Proof. destruct v; reflexivity. Qed.

Lemma put_nil x v p : put x [] v p = Some (x, v).
Proof. destruct x; reflexivity. Qed.

Lemma put_id_get d v :
  is_missing v = false ->
  match put (VDoc d) ["_id"%string] v true with
  | Some (_, VDoc d') => fst (get (VDoc d') ["_id"%string] false false) = v
  | _ => True
  end.
Proof.
  intro M. induction d as [|[k x] t IH]; simpl.
  - rewrite M. simpl. rewrite get_nil. reflexivity.
  - simpl in IH. destruct (String.eqb k "_id") eqn:E.
    + rewrite put_nil, M. simpl. rewrite E, get_nil. reflexivity.
    + match goal with |- context [?f t] => is_fix f; remember (f t) as u eqn:Hu end.
      destruct u as [[[old t']|]|].
      * simpl. rewrite E. exact IH.
      * exact I.
      * rewrite M. simpl. rewrite get_nil. reflexivity.
Qed.

(* Put of "_id" makes Get "_id" return the value put *)
Lemma put_get_id d v r : Put d "_id" v true = Ok r -> idv (snd r) = v.
Proof.
  unfold Put, put_path, idv, Get, get_path. rewrite split_path_id.
  destruct (is_missing v) eqn:M; [discriminate|].
  pose proof (put_id_get d v M) as H.
  destruct (put (VDoc d) ["_id"%string] v true) as [[old x]|]; [|discriminate].
  destruct x; try discriminate. intro E. injection E as <-. exact H.
Qed.

(* ------------------------------------------------------------------ *)
(* the key tuples of the _id index *)

Definition keq (a b : value) : bool := match compare a b with Eq => true | _ => false end.

Lemma keq_refl a : keq a a = true.
Proof. unfold keq. rewrite compare_refl. reflexivity. Qed.

Lemma keq_sym a b : keq a b = keq b a.
Proof. unfold keq. rewrite (compare_antisym b a). destruct (compare b a); reflexivity. Qed.

Lemma keq_l a b c : keq a b = true -> keq a c = keq b c.
Proof.
  unfold keq. intro H. destruct (compare a b) eqn:E; try discriminate.
  destruct (compare_eq_interchangeable a b E c) as [-> _]. reflexivity.
Qed.

Lemma keq_r a b c : keq b c = true -> keq a b = keq a c.
Proof.
  unfold keq. intro H. destruct (compare b c) eqn:E; try discriminate.
  destruct (compare_eq_interchangeable b c E a) as [_ ->]. reflexivity.
Qed.

(* the values one index column contributes *)
Definition idvals (v : value) : list value :=
  match v with
  | VArr [] => [VArr []]
  | VArr a => a
  | v => [v]
  end.

Lemma id_tuples d : tuples [("_id"%string, false)] d = map (fun v => [v]) (idvals (idv d)).
Proof.
  unfold tuples. cbn [tuples_go flat_map]. rewrite app_nil_r.
  unfold column_values. cbn [fst]. rewrite get_id_all. unfold idvals.
  destruct (idv d); reflexivity.
Qed.

(* compare-equal _id values contribute a common (compare-equal) element *)
Lemma idvals_share v1 v2 :
  compare v1 v2 = Eq -> exists x y, In x (idvals v1) /\ In y (idvals v2) /\ compare x y = Eq.
Proof.
  intro H. pose proof (compare_eq_rank _ _ H) as Hr. unfold R in Hr.
  destruct v1 as [| | | | | | | |a| | | | | |]; destruct v2 as [| | | | | | | |a2| | | | | |];
    try (vm_compute in Hr; discriminate);
    try (eexists; eexists; split; [left; reflexivity|]; split; [left; reflexivity|exact H]).
  rewrite compare_arr in H. destruct a as [|x a], a2 as [|y a2]; simpl in H; try discriminate.
  - exists (VArr []), (VArr []). split; [left; reflexivity|]. split; [left; reflexivity|].
    apply compare_refl.
  - exists x, y. split; [left; reflexivity|]. split; [left; reflexivity|].
    destruct (compare x y); try discriminate. reflexivity.
Qed.

Lemma id_shares d1 d2 :
  compare (idv d1) (idv d2) = Eq ->
  exists t1 t2, In t1 (tuples [("_id"%string, false)] d1) /\
                In t2 (tuples [("_id"%string, false)] d2) /\ tuple_eq t1 t2 = true.
Proof.
  intro H. destruct (idvals_share _ _ H) as [x [y [Hx [Hy E]]]].
  exists [x], [y]. rewrite !id_tuples. split; [|split].
  - apply in_map_iff. exists x. auto.
  - apply in_map_iff. exists y. auto.
  - simpl. rewrite E. reflexivity.
Qed.

Section Ids.
  Set Default Proof Using "Type".
  Variable matchf : doc -> doc -> res bool.
  Local Notation coll_inv := (CollInv.coll_inv matchf).

  (* C07 for _id: two distinct documents of a good collection never have
     compare-equal _id values (whatever their type, arrays included) *)
  Theorem ids_distinct c i1 d1 i2 d2 :
    coll_inv c -> has_id_index c ->
    In (i1, d1) (c_docs c) -> In (i2, d2) (c_docs c) -> i1 <> i2 ->
    keq (idv d1) (idv d2) = false.
  Proof.
    intros Hinv [ix [Hf Hc]] H1 H2 N.
    pose proof (find_index_in _ _ _ Hf) as Hin.
    pose proof (coll_inv_columns matchf c _ _ Hinv Hin) as Hcols.
    destruct Hinv as [_ [_ G]]. rewrite Forall_forall in G.
    destruct (G _ Hin) as [_ [U _]]. cbn [snd] in U.
    rewrite Hc in Hcols. cbn in Hcols. injection Hcols as Hcols.
    unfold keq. destruct (compare (idv d1) (idv d2)) eqn:E; try reflexivity.
    destruct (id_shares d1 d2 E) as [t1 [t2 [A [B T]]]].
    pose proof (eq_ind _ (fun cols => In t1 (tuples cols d1)) A _ Hcols) as A'.
    pose proof (eq_ind _ (fun cols => In t2 (tuples cols d2)) B _ Hcols) as B'.
    cbv beta in A', B'.
    assert (Cv : forall d, Collection.covered matchf ix d = Ok true).
    { intro d. unfold Collection.covered. rewrite Hc. reflexivity. }
    rewrite (U ltac:(rewrite Hc; reflexivity) i1 d1 i2 d2 H1 H2 N (Cv d1) (Cv d2) t1 t2 A' B') in T.
    discriminate.
  Qed.
End Ids.

Print Assumptions value_eqb_eq.
Print Assumptions put_get_id.
Print Assumptions ids_distinct.
